(* C04 - tie T1: the message lists of the hand-written model (AllgatherModel.v: recvs_level, sends_level, recvs_a2a, sends_a2a)
   are exactly the Irecv / Isend calls of the definitions GENERATED from /repo/src/sc_allgather.c (Gen/AllgatherC04.v, regenerated
   on every run): g2 / g2B, the three branches with their tests, peers, tags, buffer offsets and byte counts; the recursion
   arguments; the all-to-all peers, tags, slots; sc_allgather's datasize, own-block copy and top-level call.
   A model message m of group (g, base) with block size sz corresponds to the C call with buffer `data + (lo m - base) * sz`
   (data = recvbuf + base * sz), cnt m * sz bytes, peer m and the enumerator of its tag id.  Ranks, counts and byte counts are
   C ints (below 2^31).  An edit of that arithmetic changes a generated definition and one of these lemmas stops checking. *)
From Coq Require Import ZArith Lia List Bool.
From ScV Require Import Base.CInt Gen.Consts Gen.AllgatherC04 C04.AllgatherModel.
Import ListNotations.
Local Open Scope Z_scope.

Definition B31 : Z := 2 ^ 31.
Lemma s32_sm x : - B31 <= x < B31 -> s32 x = x.
Proof. intros H. apply s32_id. unfold in_s32, M32. unfold B31 in H. change (2 ^ 31) with 2147483648 in H. lia. Qed.
Lemma u64_sm x : 0 <= x < 2 ^ 62 -> u64 x = x.
Proof. intros H. apply u64_id. unfold M64. change (2 ^ 62) with 4611686018427387904 in H. lia. Qed.

(* the enumerator a model tag id stands for *)
Definition tagv (ta tb tc tall t : Z) : Z :=
  if t =? TAG_A then ta else if t =? TAG_B then tb else if t =? TAG_C then tc else tall.
(* the C call of a model message: (byte offset from `data`, bytes, peer, tag) *)
Definition as_call (sz base ta tb tc tall : Z) (m : msg) : Z * Z * Z * Z :=
  ((lo m - base) * sz, cnt m * sz, peer m, tagv ta tb tc tall (mtag m)).

Lemma tagv_A ta tb tc tall : tagv ta tb tc tall TAG_A = ta.  Proof. reflexivity. Qed.
Lemma tagv_B ta tb tc tall : tagv ta tb tc tall TAG_B = tb.  Proof. reflexivity. Qed.
Lemma tagv_C ta tb tc tall : tagv ta tb tc tall TAG_C = tc.  Proof. reflexivity. Qed.
Lemma tagv_all ta tb tc tall : tagv ta tb tc tall TAG_ALLTOALL = tall.  Proof. reflexivity. Qed.
Ltac s32s tac := repeat match goal with |- context [s32 ?x] => rewrite (s32_sm x) by tac end.
Ltac tup := repeat match goal with |- (_, _) = (_, _) => apply f_equal2 end.
Ltac one_call := rewrite ?tagv_A, ?tagv_B, ?tagv_C, ?tagv_all; apply (f_equal (fun x => [x])); tup; try reflexivity; lia.

(* ---------- sc_allgather_recursive ------------------------------------------------------------------------------------------ *)
Lemma gen_halves g : 0 <= g < B31 -> ag_halves g = (g / 2, g - g / 2).
Proof.
  intros H. unfold ag_halves. cbv zeta. unfold cdiv. rewrite Z.quot_div_nonneg by lia.
  assert (0 <= g / 2 <= g) by (split; [apply Z.div_pos; lia | apply Z.div_le_upper_bound; lia]).
  rewrite !s32_sm by (unfold B31 in *; lia). reflexivity.
Qed.

Lemma gen_is_recursive g : ag_is_recursive g = (c_SC_ALLGATHER_ALLTOALL_MAX <? g).
Proof. reflexivity. Qed.

Section Level.
  Variables g base r sz ta tb tc tall : Z.
  Hypothesis Hg : 2 <= g.
  Hypothesis Hb : 0 <= base.
  Hypothesis Hr : base <= r < base + g.
  Hypothesis Hsz : 0 <= sz.
  Hypothesis Hbytes : g * sz < B31.
  Hypothesis Hranks : base + 2 * g < B31.
  Let g2 := g / 2.
  Let g2B := g - g2.
  Let o := r - base.
  Let call (k : Z -> Z -> Z -> Z -> Z -> Z -> Z -> Z) (b : Z -> Z -> Z -> Z -> Z -> Z -> Z -> Z)
           (p : Z -> Z -> Z -> Z -> Z -> Z -> Z -> Z) (t : Z -> Z -> Z -> Z -> Z -> Z -> Z -> Z) : Z * Z * Z * Z :=
    (k sz g2 g2B r ta tb tc, b sz g2 g2B r ta tb tc, p sz g2 g2B r ta tb tc, t sz g2 g2B r ta tb tc).

  Lemma halves_range : 1 <= g2 /\ g2 <= g2B /\ g2B <= g2 + 1 /\ g2 + g2B = g.
  Proof. subst g2B g2. pose proof (Z.div_mod g 2 ltac:(lia)). pose proof (Z.mod_pos_bound g 2 ltac:(lia)). lia. Qed.

  (* the receives the model lists for rank r in the exchange step of group (g, base) are the Irecv calls of the branch the
     generated tests select: call 1 in the lower half, call 4 for the unpaired last rank of an odd group, call 5 otherwise *)
  Lemma gen_recvs_level :
    map (as_call sz base ta tb tc tall) (recvs_level g base r) =
    if ag_in_lower o g2 then [call ag_msg1_offset ag_msg1_bytes ag_msg1_peer ag_msg1_tag]
    else if ag_upper_odd o g g2 g2B then [call ag_msg4_offset ag_msg4_bytes ag_msg4_peer ag_msg4_tag]
    else [call ag_msg5_offset ag_msg5_bytes ag_msg5_peer ag_msg5_tag].
  Proof.
    pose proof halves_range as Hh. unfold recvs_level, ag_in_lower, ag_upper_odd, call. fold g2. fold g2B. fold o.
    rewrite (s32_sm (g - 1)) by (unfold B31 in *; lia).
    assert (Hm : forall a b, 0 <= a <= g -> 0 <= b <= sz -> - B31 <= a * b < B31) by (intros; unfold B31 in *; nia).
    destruct (o <? g2).
    - cbn [map]. unfold as_call, ag_msg1_offset, ag_msg1_bytes, ag_msg1_peer, ag_msg1_tag. cbn [lo cnt peer mtag].
      rewrite !s32_sm by (try (apply Hm; lia); unfold B31 in *; subst o; lia).
      one_call.
    - destruct ((o =? g - 1) && negb (g2 =? g2B)).
      + cbn [map]. unfold as_call, ag_msg4_offset, ag_msg4_bytes, ag_msg4_peer, ag_msg4_tag. cbn [lo cnt peer mtag].
        rewrite !s32_sm by (try (apply Hm; lia); unfold B31 in *; subst o; lia).
        one_call.
      + cbn [map]. unfold as_call, ag_msg5_offset, ag_msg5_bytes, ag_msg5_peer, ag_msg5_tag. cbn [lo cnt peer mtag].
        rewrite !s32_sm by (try (apply Hm; lia); unfold B31 in *; subst o; lia).
        one_call.
  Qed.

  (* ... and the sends: call 2 (plus call 3 for the last rank of the lower half of an odd group) in the lower half, nothing
     for the unpaired rank, call 6 otherwise *)
  Lemma gen_sends_level :
    map (as_call sz base ta tb tc tall) (sends_level g base r) =
    if ag_in_lower o g2 then
      call ag_msg2_offset ag_msg2_bytes ag_msg2_peer ag_msg2_tag ::
      (if ag_lower_odd o g2 g2B then [call ag_msg3_offset ag_msg3_bytes ag_msg3_peer ag_msg3_tag] else [])
    else if ag_upper_odd o g g2 g2B then []
    else [call ag_msg6_offset ag_msg6_bytes ag_msg6_peer ag_msg6_tag].
  Proof.
    pose proof halves_range as Hh. unfold sends_level, ag_in_lower, ag_lower_odd, ag_upper_odd, call. fold g2. fold g2B. fold o.
    rewrite (s32_sm (g - 1)), (s32_sm (g2 - 1)) by (unfold B31 in *; lia).
    assert (Hm : forall a b, 0 <= a <= g -> 0 <= b <= sz -> - B31 <= a * b < B31) by (intros; unfold B31 in *; nia).
    destruct (o <? g2).
    - cbn [map]. unfold as_call at 1, ag_msg2_offset, ag_msg2_bytes, ag_msg2_peer, ag_msg2_tag. cbn [lo cnt peer mtag].
      rewrite !s32_sm by (try (apply Hm; lia); unfold B31 in *; subst o; lia).
      rewrite tagv_A. f_equal; [tup; try reflexivity; lia|].
      destruct ((o =? g2 - 1) && negb (g2 =? g2B)); [|reflexivity].
      cbn [map]. unfold as_call, ag_msg3_offset, ag_msg3_bytes, ag_msg3_peer, ag_msg3_tag. cbn [lo cnt peer mtag].
      rewrite !s32_sm by (try (apply Hm; lia); unfold B31 in *; subst o; lia).
      one_call.
    - destruct ((o =? g - 1) && negb (g2 =? g2B)); [reflexivity|].
      cbn [map]. unfold as_call, ag_msg6_offset, ag_msg6_bytes, ag_msg6_peer, ag_msg6_tag. cbn [lo cnt peer mtag].
      rewrite !s32_sm by (try (apply Hm; lia); unfold B31 in *; subst o; lia).
      one_call.
  Qed.

  (* the recursion: the lower half works on (g2, base) with the same data pointer and offset, the upper half on
     (g2B, base + g2) with data + g2 * sz and offset myoffset - g2 (model: ag f g2 base / ag f g2B (base + g2)) *)
  Lemma gen_recurse :
    ag_recurse_lower_offset sz g2 g2B o r = 0 /\ ag_recurse_lower sz g2 g2B o r = (sz, g2, r - base, r) /\
    ag_recurse_upper_offset sz g2 g2B o r = ((base + g2) - base) * sz /\ ag_recurse_upper sz g2 g2B o r = (sz, g2B, r - (base + g2), r) /\
    ag_wait_count = 3.
  Proof.
    pose proof halves_range as Hh. unfold ag_recurse_lower_offset, ag_recurse_lower, ag_recurse_upper_offset, ag_recurse_upper, ag_wait_count.
    cbv zeta. rewrite !s32_sm by (unfold B31 in *; subst o; nia). subst o. repeat split; tup; try reflexivity; lia.
  Qed.
End Level.

Lemma gen_a2a_args sz g o r : ag_a2a_args sz g o r = (sz, g, o, r).
Proof. reflexivity. Qed.

(* ---------- sc_allgather_alltoall ------------------------------------------------------------------------------------------------ *)
Section A2A.
  Variables g base r sz tall : Z.
  Hypothesis Hb : 0 <= base.
  Hypothesis Hr : base <= r < base + g.
  Hypothesis Hsz : 0 <= sz.
  Hypothesis Hbytes : g * sz < B31.
  Hypothesis Hranks : base + 2 * g < B31.
  Let o := r - base.

  Definition a2a_calls (off byt per tg : Z -> Z -> Z -> Z -> Z -> Z) : list (Z * Z * Z * Z) :=
    map (fun j => let jz := Z.of_nat j in let p := AllgatherC04.a2a_peer r o jz in
                  (off sz jz o p tall, byt sz jz o p tall, per sz jz o p tall, tg sz jz o p tall))
        (filter (fun j => negb (a2a_skip (Z.of_nat j) o)) (seq 0 (Z.to_nat g))).

  Lemma a2a_filter : filter (fun j => negb (base + Z.of_nat j =? r)) (seq 0 (Z.to_nat g)) =
                     filter (fun j => negb (a2a_skip (Z.of_nat j) o)) (seq 0 (Z.to_nat g)).
  Proof.
    apply filter_ext. intros j. unfold a2a_skip. subst o. f_equal.
    destruct (Z.eqb_spec (base + Z.of_nat j) r); destruct (Z.eqb_spec (Z.of_nat j) (r - base)); try reflexivity; lia.
  Qed.

  (* every member j of the group except the rank itself: receive slot base + j from rank base + j, send the own slot to it *)
  Lemma gen_recvs_a2a :
    map (as_call sz base 0 0 0 tall) (recvs_a2a g base r) = a2a_calls a2a_recv_offset a2a_recv_bytes a2a_recv_peer a2a_recv_tag.
  Proof.
    unfold recvs_a2a, a2a_calls. rewrite a2a_filter, map_map. apply map_ext_in. intros j Hj.
    apply filter_In in Hj. destruct Hj as [Hj _]. apply in_seq in Hj.
    unfold as_call, a2a_recv_offset, a2a_recv_bytes, a2a_recv_peer, a2a_recv_tag, AllgatherC04.a2a_peer. cbn [lo cnt peer mtag]. cbv zeta.
    assert (0 <= Z.of_nat j < g) by lia.
    s32s ltac:(unfold B31 in *; subst o; nia). rewrite tagv_all. subst o. tup; try reflexivity; lia.
  Qed.

  Lemma gen_sends_a2a :
    map (as_call sz base 0 0 0 tall) (sends_a2a g base r) = a2a_calls a2a_send_offset a2a_send_bytes a2a_send_peer a2a_send_tag.
  Proof.
    unfold sends_a2a, a2a_calls. rewrite a2a_filter, map_map. apply map_ext_in. intros j Hj.
    apply filter_In in Hj. destruct Hj as [Hj _]. apply in_seq in Hj.
    unfold as_call, a2a_send_offset, a2a_send_bytes, a2a_send_peer, a2a_send_tag, AllgatherC04.a2a_peer. cbn [lo cnt peer mtag]. cbv zeta.
    assert (0 <= Z.of_nat j < g) by lia.
    s32s ltac:(unfold B31 in *; subst o; nia). rewrite tagv_all. subst o. tup; try reflexivity; lia.
  Qed.

  Lemma gen_a2a_counts j : a2a_loop_cond j g = (j <? g) /\ a2a_wait_count g = 2 * g.
  Proof. unfold a2a_loop_cond, a2a_wait_count. rewrite s32_sm by (unfold B31 in *; lia). split; reflexivity. Qed.
End A2A.

(* ---------- the statements above without section variables (these are the ones the properties file quotes) ------------------ *)
Definition call7 (k b p t : Z -> Z -> Z -> Z -> Z -> Z -> Z -> Z) (sz g2 g2B r ta tb tc : Z) : Z * Z * Z * Z :=
  (k sz g2 g2B r ta tb tc, b sz g2 g2B r ta tb tc, p sz g2 g2B r ta tb tc, t sz g2 g2B r ta tb tc).

Lemma gen_recvs_level_c g base r sz ta tb tc tall :
  2 <= g -> 0 <= base -> base <= r < base + g -> 0 <= sz -> g * sz < B31 -> base + 2 * g < B31 ->
  map (as_call sz base ta tb tc tall) (recvs_level g base r) =
  if ag_in_lower (r - base) (g / 2) then [call7 ag_msg1_offset ag_msg1_bytes ag_msg1_peer ag_msg1_tag sz (g / 2) (g - g / 2) r ta tb tc]
  else if ag_upper_odd (r - base) g (g / 2) (g - g / 2) then [call7 ag_msg4_offset ag_msg4_bytes ag_msg4_peer ag_msg4_tag sz (g / 2) (g - g / 2) r ta tb tc]
  else [call7 ag_msg5_offset ag_msg5_bytes ag_msg5_peer ag_msg5_tag sz (g / 2) (g - g / 2) r ta tb tc].
Proof. intros. unfold call7. apply gen_recvs_level; assumption. Qed.

Lemma gen_sends_level_c g base r sz ta tb tc tall :
  2 <= g -> 0 <= base -> base <= r < base + g -> 0 <= sz -> g * sz < B31 -> base + 2 * g < B31 ->
  map (as_call sz base ta tb tc tall) (sends_level g base r) =
  if ag_in_lower (r - base) (g / 2) then
    call7 ag_msg2_offset ag_msg2_bytes ag_msg2_peer ag_msg2_tag sz (g / 2) (g - g / 2) r ta tb tc ::
    (if ag_lower_odd (r - base) (g / 2) (g - g / 2) then [call7 ag_msg3_offset ag_msg3_bytes ag_msg3_peer ag_msg3_tag sz (g / 2) (g - g / 2) r ta tb tc] else [])
  else if ag_upper_odd (r - base) g (g / 2) (g - g / 2) then []
  else [call7 ag_msg6_offset ag_msg6_bytes ag_msg6_peer ag_msg6_tag sz (g / 2) (g - g / 2) r ta tb tc].
Proof. intros. unfold call7. apply gen_sends_level; assumption. Qed.

Lemma gen_recurse_c g base r sz : 2 <= g -> 0 <= base -> base <= r < base + g -> 0 <= sz -> g * sz < B31 -> base + 2 * g < B31 ->
  ag_recurse_lower_offset sz (g / 2) (g - g / 2) (r - base) r = 0 /\
  ag_recurse_lower sz (g / 2) (g - g / 2) (r - base) r = (sz, g / 2, r - base, r) /\
  ag_recurse_upper_offset sz (g / 2) (g - g / 2) (r - base) r = ((base + g / 2) - base) * sz /\
  ag_recurse_upper sz (g / 2) (g - g / 2) (r - base) r = (sz, g - g / 2, r - (base + g / 2), r) /\
  ag_wait_count = 3.
Proof. intros. apply gen_recurse; assumption. Qed.

Lemma gen_recvs_a2a_c g base r sz tall : 0 <= base -> base <= r < base + g -> 0 <= sz -> g * sz < B31 -> base + 2 * g < B31 ->
  map (as_call sz base 0 0 0 tall) (recvs_a2a g base r) = a2a_calls g base r sz tall a2a_recv_offset a2a_recv_bytes a2a_recv_peer a2a_recv_tag.
Proof. intros. apply gen_recvs_a2a; assumption. Qed.

Lemma gen_sends_a2a_c g base r sz tall : 0 <= base -> base <= r < base + g -> 0 <= sz -> g * sz < B31 -> base + 2 * g < B31 ->
  map (as_call sz base 0 0 0 tall) (sends_a2a g base r) = a2a_calls g base r sz tall a2a_send_offset a2a_send_bytes a2a_send_peer a2a_send_tag.
Proof. intros. apply gen_sends_a2a; assumption. Qed.

Lemma gen_a2a_counts_c g base j : 0 <= base -> base + 2 * g < B31 -> 0 <= g -> a2a_loop_cond j g = (j <? g) /\ a2a_wait_count g = 2 * g.
Proof. intros. unfold a2a_loop_cond, a2a_wait_count. rewrite s32_sm by (unfold B31 in *; lia). split; reflexivity. Qed.

(* ---------- sc_allgather ------------------------------------------------------------------------------------------------------------ *)
(* datasize = sendcount * sizeof (SENDTYPE); the own block goes to slot mpirank (model: init b r r = Some (b r)) and has datasize
   bytes; the recursion starts with the whole communicator: group (P, 0), offset = rank *)
Lemma gen_top n ts P r sendtype recvtype : 0 <= n < B31 -> 0 <= ts -> n * ts < B31 -> 0 <= r < P -> P < B31 ->
  top_datasize n ts = n * ts /\ top_sized_type sendtype recvtype = sendtype /\
  top_copy_offset r (n * ts) = r * (n * ts) /\ top_copy_bytes r (n * ts) = n * ts /\
  top_args (n * ts) P r = (n * ts, P, r - 0, r).
Proof.
  intros Hn Ht Hb Hr Hp. assert (Hq : r * (n * ts) < 2 ^ 62) by (unfold B31 in *; nia). unfold top_datasize, top_sized_type, top_copy_offset, top_copy_bytes, top_args. cbv zeta.
  assert (B31 < 2 ^ 62) by (unfold B31; reflexivity).
  rewrite (u64_sm n) by lia.
  rewrite (u64_sm (n * ts)) by nia. rewrite (u64_sm r) by lia. rewrite (u64_sm (r * (n * ts))) by nia.
  rewrite s32_sm by (unfold B31 in *; nia). rewrite Z.sub_0_r. repeat split; reflexivity.
Qed.
