From Coq Require Import ZArith Lia List Bool ZifyBool.
From ScV Require Import Base.CInt C04.AllgatherModel.
Import ListNotations.
Local Open Scope Z_scope.
Ltac Zify.zify_post_hook ::= Z.div_mod_to_equations.

Lemma inb_true lo n x : inb lo n x = true <-> lo <= x < lo + n.
Proof. unfold inb. lia. Qed.
Lemma inb_false lo n x : inb lo n x = false <-> ~ (lo <= x < lo + n).
Proof. unfold inb. lia. Qed.

Section Proofs.
  Variable A : Type.
  Variable amax : Z.
  Hypothesis amax_pos : 1 <= amax.
  Variable b : Z -> A.
  Notation state := (state A).

  (* ---- every receive has exactly one matching send with the same tag, slot range and size ---- *)
  Lemma matching_level g base r d t l n :
    amax < g -> base <= r < base + g -> base <= d < base + g ->
    (In (mkmsg d t l n) (sends_level g base r) <-> In (mkmsg r t l n) (recvs_level g base d)).
  Proof.
    intros Hg Hr Hd. unfold sends_level, recvs_level, TAG_A, TAG_B, TAG_C. cbv zeta.
    set (g2 := g / 2). assert (Hg2 : 2 * g2 <= g <= 2 * g2 + 1 /\ 1 <= g2) by (unfold g2; lia).
    destruct (r - base <? g2) eqn:Er; destruct (d - base <? g2) eqn:Ed;
    destruct ((r - base =? g2 - 1) && negb (g2 =? g - g2)) eqn:E1;
    destruct ((r - base =? g - 1) && negb (g2 =? g - g2)) eqn:E2;
    destruct ((d - base =? g - 1) && negb (g2 =? g - g2)) eqn:E3;
    simpl; split; intros H;
    repeat match goal with
           | H : _ \/ _ |- _ => destruct H
           | H : False |- _ => contradiction
           | H : mkmsg _ _ _ _ = mkmsg _ _ _ _ |- _ => injection H as ? ? ? ?
           end; subst; try lia;
    try (left; f_equal; lia); try (right; left; f_equal; lia).
  Qed.

  Lemma matching_a2a g base r d t l n :
    0 <= g -> base <= r < base + g -> base <= d < base + g ->
    (In (mkmsg d t l n) (sends_a2a g base r) <-> In (mkmsg r t l n) (recvs_a2a g base d)).
  Proof.
    intros Hg Hr Hd. unfold sends_a2a, recvs_a2a, TAG_ALLTOALL. rewrite !in_map_iff. split.
    - intros [j [Hj Hin]]. apply filter_In in Hin. destruct Hin as [Hseq Hne]. apply in_seq in Hseq.
      injection Hj as ? ? ? ?. subst. exists (Z.to_nat (r - base)). split.
      + f_equal; lia.
      + apply filter_In. split; [apply in_seq; lia|]. lia.
    - intros [j [Hj Hin]]. apply filter_In in Hin. destruct Hin as [Hseq Hne]. apply in_seq in Hseq.
      injection Hj as ? ? ? ?. subst. exists (Z.to_nat (d - base)). split.
      + f_equal; lia.
      + apply filter_In. split; [apply in_seq; lia|]. lia.
  Qed.

  (* ---- content ------------------------------------------------------------ *)
  Definition full (g base : Z) (st : state) : Prop :=
    forall r i, base <= r < base + g -> base <= i < base + g -> st r i = Some (b i).
  Definition frame (g base : Z) (st st' : state) : Prop :=
    forall r i, ~ (base <= r < base + g /\ base <= i < base + g) -> st' r i = st r i.

  Lemma deliver_level g base st :
    amax < g ->
    full (g / 2) base st -> full (g - g / 2) (base + g / 2) st ->
    full g base (deliver A (recvs_level g base) g base st) /\ frame g base st (deliver A (recvs_level g base) g base st).
  Proof.
    intros Hg Hlo Hhi.
    set (g2 := g / 2) in *. assert (Hg2 : 2 * g2 <= g <= 2 * g2 + 1 /\ 1 <= g2) by (unfold g2; lia).
    split.
    - intros r i Hr Hi. unfold deliver. rewrite (proj2 (inb_true base g r) Hr).
      unfold recvs_level. cbv zeta. fold g2.
      destruct (r - base <? g2) eqn:Er.
      + simpl. destruct (inb (base + g2) (g - g2) i) eqn:Ei.
        * apply inb_true in Ei. apply Hhi; lia.
        * apply inb_false in Ei. apply Hlo; lia.
      + destruct ((r - base =? g - 1) && negb (g2 =? g - g2)) eqn:E2; simpl.
        * destruct (inb base g2 i) eqn:Ei.
          -- apply inb_true in Ei. apply Hlo; lia.
          -- apply inb_false in Ei. apply Hhi; lia.
        * destruct (inb base g2 i) eqn:Ei.
          -- apply inb_true in Ei. apply Hlo; lia.
          -- apply inb_false in Ei. apply Hhi; lia.
    - intros r i Hn. unfold deliver. destruct (inb base g r) eqn:Er; [|reflexivity].
      apply inb_true in Er. unfold recvs_level. cbv zeta. fold g2.
      destruct (r - base <? g2) eqn:Eo.
      + simpl. destruct (inb (base + g2) (g - g2) i) eqn:Ei; [|reflexivity]. apply inb_true in Ei. lia.
      + destruct ((r - base =? g - 1) && negb (g2 =? g - g2)) eqn:E2; simpl;
        (destruct (inb base g2 i) eqn:Ei; [|reflexivity]); apply inb_true in Ei; lia.
  Qed.

  Lemma find_a2a g base r i : 0 <= g -> base <= r < base + g -> base <= i < base + g -> i <> r ->
    find (fun m => inb (lo m) (cnt m) i) (recvs_a2a g base r) = Some (mkmsg i TAG_ALLTOALL i 1).
  Proof.
    intros Hg Hr Hi Hne. unfold recvs_a2a.
    assert (Hgen : forall s n, (forall j, In j s -> (j < Z.to_nat g)%nat) -> NoDup s -> In (Z.to_nat (i - base)) s ->
              find (fun m => inb (lo m) (cnt m) i)
                (map (fun j => mkmsg (base + Z.of_nat j) TAG_ALLTOALL (base + Z.of_nat j) 1)
                     (filter (fun j => negb (base + Z.of_nat j =? r)) s)) = Some (mkmsg i TAG_ALLTOALL i 1) \/ n = 0%nat).
    { induction s as [|j s IH]; intros n Hb Hnd Hin; [destruct Hin|].
      simpl. destruct (negb (base + Z.of_nat j =? r)) eqn:Ej.
      - simpl. destruct (inb (base + Z.of_nat j) 1 i) eqn:Ein.
        + apply inb_true in Ein. left. f_equal. f_equal; lia.
        + apply inb_false in Ein. destruct Hin as [Hin|Hin]; [lia|].
          inversion Hnd; subst. apply (IH n); auto. intros; apply Hb; right; assumption.
      - destruct Hin as [Hin|Hin]; [lia|]. inversion Hnd; subst. apply (IH n); auto. intros; apply Hb; right; assumption. }
    destruct (Hgen (seq 0 (Z.to_nat g)) 1%nat) as [H|H]; try assumption; try lia.
    - intros j Hj. apply in_seq in Hj. lia.
    - apply seq_NoDup.
    - apply in_seq. lia.
  Qed.

  Lemma find_a2a_none g base r i : ~ (base <= i < base + g) \/ i = r ->
    find (fun m => inb (lo m) (cnt m) i) (recvs_a2a g base r) = None.
  Proof.
    intros Hi. unfold recvs_a2a. induction (seq 0 (Z.to_nat g)) as [|j s IH] eqn:Es in |- *.
    - reflexivity.
    - simpl. destruct (negb (base + Z.of_nat j =? r)) eqn:Ej; [|exact IH].
      simpl. destruct (inb (base + Z.of_nat j) 1 i) eqn:Ein; [|exact IH].
      apply inb_true in Ein.
      (* slot j is inside the group because j comes from seq 0 g -- but IH lost that; redo with explicit bound *)
      exfalso. destruct Hi as [Hi|Hi]; [|lia].
      (* need j < g *) admit.
  Abort.
End Proofs.
