From Coq Require Import ZArith Lia List Bool ZifyBool FinFun.
From ScV Require Import Base.CInt C04.AllgatherModel.
Import ListNotations.
Local Open Scope Z_scope.
Ltac Zify.zify_post_hook ::= Z.div_mod_to_equations.

Lemma inb_true lo n x : inb lo n x = true <-> lo <= x < lo + n.
Proof. unfold inb. lia. Qed.
Lemma inb_false lo n x : inb lo n x = false <-> ~ (lo <= x < lo + n).
Proof. unfold inb. lia. Qed.

Section Matching.
  Variable amax : Z.
  Hypothesis amax_pos : 1 <= amax.

  (* ---- every receive has exactly one matching send with the same tag, slot range and size ---- *)
  Lemma matching_level g base r d t l n :
    amax < g -> base <= r < base + g -> base <= d < base + g ->
    (In (mkmsg d t l n) (sends_level g base r) <-> In (mkmsg r t l n) (recvs_level g base d)).
  Proof.
    intros Hg Hr Hd. unfold sends_level, recvs_level, TAG_A, TAG_B, TAG_C. cbv zeta.
    set (g2 := g / 2). assert (Hg2 : 2 * g2 <= g <= 2 * g2 + 1 /\ 1 <= g2) by (unfold g2; lia).
    destruct (r - base <? g2) eqn:Er; destruct (d - base <? g2) eqn:Ed;
    destruct ((r - base =? g2 - 1) && negb (g2 =? g - g2)) eqn:E1;
    destruct ((r - base =? g - 1) && negb (g2 =? g - g2)) eqn:E2;
    destruct ((d - base =? g - 1) && negb (g2 =? g - g2)) eqn:E3;
    simpl; split; intros H;
    repeat match goal with
           | H : _ \/ _ |- _ => destruct H
           | H : False |- _ => contradiction
           | H : mkmsg _ _ _ _ = mkmsg _ _ _ _ |- _ => injection H as ? ? ? ?
           end; subst; try lia;
    try (left; f_equal; lia); try (right; left; f_equal; lia).
  Qed.

  Lemma matching_a2a g base r d t l n :
    0 <= g -> base <= r < base + g -> base <= d < base + g ->
    (In (mkmsg d t l n) (sends_a2a g base r) <-> In (mkmsg r t l n) (recvs_a2a g base d)).
  Proof.
    intros Hg Hr Hd. unfold sends_a2a, recvs_a2a, TAG_ALLTOALL. rewrite !in_map_iff. split.
    - intros [j [Hj Hin]]. apply filter_In in Hin. destruct Hin as [Hseq Hne]. apply in_seq in Hseq.
      injection Hj as E1 E2 E3 E4. exists (Z.to_nat (r - base)). split.
      + rewrite <- E2, <- E3, <- E4. f_equal; lia.
      + apply filter_In. split; [apply in_seq; lia|]. lia.
    - intros [j [Hj Hin]]. apply filter_In in Hin. destruct Hin as [Hseq Hne]. apply in_seq in Hseq.
      injection Hj as E1 E2 E3 E4. exists (Z.to_nat (d - base)). split.
      + rewrite <- E2, <- E3, <- E4. f_equal; lia.
      + apply filter_In. split; [apply in_seq; lia|]. lia.
  Qed.

  (* tags of the exchange step are pairwise distinct per ordered pair of ranks: a rank never posts two
     receives for the same (source, tag) within one step, so matching is deterministic *)
  Lemma recvs_level_distinct g base r : NoDup (map (fun m => (peer m, mtag m)) (recvs_level g base r)).
  Proof.
    unfold recvs_level. cbv zeta.
    destruct (r - base <? g / 2); [repeat constructor; simpl; tauto|].
    destruct ((r - base =? g - 1) && negb (g / 2 =? g - g / 2)); repeat constructor; simpl; tauto.
  Qed.

  Lemma recvs_a2a_distinct g base r : NoDup (map (fun m => (peer m, mtag m)) (recvs_a2a g base r)).
  Proof.
    unfold recvs_a2a. rewrite map_map. simpl.
    apply FinFun.Injective_map_NoDup.
    - intros x y H. injection H as H. lia.
    - apply NoDup_filter. apply seq_NoDup.
  Qed.
End Matching.

Section Proofs.
  Variable A : Type.
  Variable amax : Z.
  Hypothesis amax_pos : 1 <= amax.
  Variable b : Z -> A.
  Notation state := (state A).

  (* ---- content ------------------------------------------------------------ *)
  Definition full (g base : Z) (st : state) : Prop :=
    forall r i, base <= r < base + g -> base <= i < base + g -> st r i = Some (b i).
  Definition frame (g base : Z) (st st' : state) : Prop :=
    forall r i, ~ (base <= r < base + g /\ base <= i < base + g) -> st' r i = st r i.

  Lemma deliver_level g base st :
    amax < g ->
    full (g / 2) base st -> full (g - g / 2) (base + g / 2) st ->
    full g base (deliver A (recvs_level g base) g base st) /\ frame g base st (deliver A (recvs_level g base) g base st).
  Proof.
    intros Hg Hlo Hhi.
    set (g2 := g / 2) in *. assert (Hg2 : 2 * g2 <= g <= 2 * g2 + 1 /\ 1 <= g2) by (unfold g2; lia).
    split.
    - intros r i Hr Hi. unfold deliver. rewrite (proj2 (inb_true base g r) Hr).
      unfold recvs_level. cbv zeta. fold g2.
      destruct (r - base <? g2) eqn:Er.
      + cbn [find lo cnt]. destruct (inb (base + g2) (g - g2) i) eqn:Ei.
        * apply inb_true in Ei. cbn [peer]. apply Hhi; lia.
        * apply inb_false in Ei. apply Hlo; lia.
      + destruct ((r - base =? g - 1) && negb (g2 =? g - g2)) eqn:E2; cbn [find lo cnt].
        * destruct (inb base g2 i) eqn:Ei.
          -- apply inb_true in Ei. cbn [peer]. apply Hlo; lia.
          -- apply inb_false in Ei. apply Hhi; lia.
        * destruct (inb base g2 i) eqn:Ei.
          -- apply inb_true in Ei. cbn [peer]. apply Hlo; lia.
          -- apply inb_false in Ei. apply Hhi; lia.
    - intros r i Hn. unfold deliver. destruct (inb base g r) eqn:Er; [|reflexivity].
      apply inb_true in Er. unfold recvs_level. cbv zeta. fold g2.
      destruct (r - base <? g2) eqn:Eo.
      + simpl. destruct (inb (base + g2) (g - g2) i) eqn:Ei; [|reflexivity]. apply inb_true in Ei. lia.
      + destruct ((r - base =? g - 1) && negb (g2 =? g - g2)) eqn:E2; simpl;
        (destruct (inb base g2 i) eqn:Ei; [|reflexivity]); apply inb_true in Ei; lia.
  Qed.

  Lemma find_a2a_gen base r i s :
    match find (fun m => inb (lo m) (cnt m) i)
               (map (fun j => mkmsg (base + Z.of_nat j) TAG_ALLTOALL (base + Z.of_nat j) 1)
                    (filter (fun j => negb (base + Z.of_nat j =? r)) s)) with
    | Some m => peer m = i /\ i <> r /\ In (Z.to_nat (i - base)) s /\ base <= i
    | None => forall j, In j s -> base + Z.of_nat j = r \/ base + Z.of_nat j <> i
    end.
  Proof.
    induction s as [|j s IH]; simpl; [intros j []|].
    destruct (negb (base + Z.of_nat j =? r)) eqn:Ej; simpl.
    - destruct (inb (base + Z.of_nat j) 1 i) eqn:Ein.
      + apply inb_true in Ein. simpl. repeat split; try lia.
      + apply inb_false in Ein. destruct (find _ _) as [m|].
        * destruct IH as [H1 [H2 [H3 H4]]]. repeat split; auto.
        * intros k [<-|Hk]; [right; lia|apply IH; exact Hk].
    - destruct (find _ _) as [m|].
      + destruct IH as [H1 [H2 [H3 H4]]]. repeat split; auto.
      + intros k [<-|Hk]; [left; lia|apply IH; exact Hk].
  Qed.

  Lemma deliver_a2a g base st :
    0 <= g -> (forall r, base <= r < base + g -> st r r = Some (b r)) ->
    full g base (deliver A (recvs_a2a g base) g base st) /\ frame g base st (deliver A (recvs_a2a g base) g base st).
  Proof.
    intros Hg Hown. split.
    - intros r i Hr Hi. unfold deliver. rewrite (proj2 (inb_true base g r) Hr).
      unfold recvs_a2a. pose proof (find_a2a_gen base r i (seq 0 (Z.to_nat g))) as H.
      destruct (find _ _) as [m|].
      + destruct H as [-> _]. apply Hown. exact Hi.
      + destruct (Z.eq_dec i r) as [->|Hne]; [apply Hown; exact Hr|].
        exfalso. destruct (H (Z.to_nat (i - base))) as [E|E]; [apply in_seq; lia|lia|lia].
    - intros r i Hn. unfold deliver. destruct (inb base g r) eqn:Er; [|reflexivity].
      apply inb_true in Er. unfold recvs_a2a. pose proof (find_a2a_gen base r i (seq 0 (Z.to_nat g))) as H.
      destruct (find _ _) as [m|]; [|reflexivity].
      destruct H as [_ [_ [Hin Hb]]]. apply in_seq in Hin. exfalso. apply Hn. lia.
  Qed.

  (* ---- the recursion: every member ends with all blocks of its group in order, nothing else changes ---- *)
  Theorem ag_correct : forall fuel g base st,
    0 < g -> (Z.to_nat g <= fuel)%nat ->
    (forall r, base <= r < base + g -> st r r = Some (b r)) ->
    full g base (ag A amax fuel g base st) /\ frame g base st (ag A amax fuel g base st).
  Proof.
    induction fuel as [|f IH]; intros g base st Hg Hf Hown; [lia|].
    cbn [ag]. destruct (amax <? g) eqn:Ea.
    - cbv zeta. set (g2 := g / 2). assert (Hg2 : 2 * g2 <= g <= 2 * g2 + 1 /\ 1 <= g2) by (unfold g2; lia).
      destruct (IH g2 base st) as [F1 R1]; [lia|lia|intros r Hr; apply Hown; lia|].
      set (st1 := ag A amax f g2 base st) in *.
      assert (Hown1 : forall r, base + g2 <= r < base + g2 + (g - g2) -> st1 r r = Some (b r)).
      { intros r Hr. rewrite R1 by lia. apply Hown. lia. }
      destruct (IH (g - g2) (base + g2) st1) as [F2 R2]; [lia|lia|exact Hown1|].
      set (st2 := ag A amax f (g - g2) (base + g2) st1) in *.
      assert (F1' : full g2 base st2).
      { intros r i Hr Hi. rewrite R2 by lia. apply F1; assumption. }
      destruct (deliver_level g base st2) as [F3 R3]; [lia|exact F1'|exact F2|].
      split; [exact F3|].
      intros r i Hn. rewrite R3 by exact Hn. rewrite R2 by lia. apply R1. lia.
    - apply deliver_a2a; [lia|exact Hown].
  Qed.

  Corollary allgather_correct P : 0 < P ->
    forall r i, 0 <= r < P -> 0 <= i < P -> allgather A amax P b r i = Some (b i).
  Proof.
    intros HP r i Hr Hi. unfold allgather.
    destruct (ag_correct (S (Z.to_nat P)) P 0 (init A b)) as [F _]; [lia|lia| |apply F; lia].
    intros q Hq. unfold init. rewrite Z.eqb_refl. reflexivity.
  Qed.

End Proofs.
