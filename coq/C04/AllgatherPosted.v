(* C04 - sc_allgather under the POSTED-RECEIVE interleaving semantics of MPI/SemPosted.v.
   The per-rank allgather programs write every communication window in canonical order (`phase`: all sends of the
   window, then its receives), so the blocking semantics of MPI/Sem.v already has a terminating schedule
   (allgather_one_schedule).  Every step of Sem.v is a step of the posted semantics, in which a pending Irecv does
   not hold back the Isends posted after it and the posted receives of a window complete in any order; the
   confluence theorem of the posted semantics turns that one schedule into ALL schedules of the larger set. *)
From Coq Require Import ZArith List Bool.
From ScV Require Import MPI.Prog MPI.Sem MPI.SemFrame MPI.SemPosted C04.AllgatherModel C04.AllgatherSched.
Local Open Scope Z_scope.

Theorem allgather_all_posted_schedules : forall (amax : Z), 1 <= amax -> forall (sz : nat) (P : Z) (b : Z -> payload),
  (forall r, 0 <= r < P -> length (b r) = sz) -> 0 < P ->
  exists n, run_p n (ag_start amax sz P b) (ag_end P b) /\ terminal_for_p (ag_start amax sz P b) (ag_end P b) n.
Proof.
  intros amax Ha sz P b Hl HP. destruct (allgather_all_schedules amax Ha sz P b Hl HP) as [n [Hn _]].
  exists n. split; [apply run_in_run_p; exact Hn|].
  apply blocking_schedule_all_posted_schedules; [exact Hn|apply ag_end_final].
Qed.
