(* C04 - global (dataflow) model of sc_allgather_recursive / sc_allgather_alltoall.
   Ranks and buffer slots are absolute: the group (g, base) consists of the ranks base .. base+g-1 and works on
   the slots base .. base+g-1 of every member's receive buffer (data pointer = recvbuf + base * datasize). *)
From Coq Require Import ZArith List Bool.
From ScV Require Import Base.CInt.
Import ListNotations.
Local Open Scope Z_scope.

Definition inb (lo n x : Z) : bool := (lo <=? x) && (x <? lo + n).

Section Allgather.
  Variable A : Type.
  Variable amax : Z.                       (* SC_ALLGATHER_ALLTOALL_MAX *)
  Definition state := Z -> Z -> option A.  (* rank -> slot -> content *)

  (* tags as in sc_mpi.h *)
  Definition TAG_ALLTOALL := 0.  Definition TAG_A := 1.  Definition TAG_B := 2.  Definition TAG_C := 3.

  (* one message: peer, tag, first slot, number of slots *)
  Record msg := mkmsg { peer : Z; mtag : Z; lo : Z; cnt : Z }.

  (* the receives and sends that rank r posts in the exchange step of group (g, base), g > amax *)
  Definition recvs_level (g base r : Z) : list msg :=
    let g2 := g / 2 in let g2B := g - g2 in let o := r - base in
    if o <? g2 then [mkmsg (r + g2) TAG_B (base + g2) g2B]
    else if (o =? g - 1) && negb (g2 =? g2B) then [mkmsg (r - g2B) TAG_C base g2]
    else [mkmsg (r - g2) TAG_A base g2].
  Definition sends_level (g base r : Z) : list msg :=
    let g2 := g / 2 in let g2B := g - g2 in let o := r - base in
    if o <? g2 then
      mkmsg (r + g2) TAG_A base g2 ::
      (if (o =? g2 - 1) && negb (g2 =? g2B) then [mkmsg (r + g2B) TAG_C base g2] else [])
    else if (o =? g - 1) && negb (g2 =? g2B) then []
    else [mkmsg (r - g2) TAG_B (base + g2) g2B].

  (* all-to-all: rank r receives slot j from rank j and sends its own slot to every other member *)
  Definition recvs_a2a (g base r : Z) : list msg :=
    map (fun j => mkmsg (base + Z.of_nat j) TAG_ALLTOALL (base + Z.of_nat j) 1)
        (filter (fun j => negb (base + Z.of_nat j =? r)) (seq 0 (Z.to_nat g))).
  Definition sends_a2a (g base r : Z) : list msg :=
    map (fun j => mkmsg (base + Z.of_nat j) TAG_ALLTOALL r 1)
        (filter (fun j => negb (base + Z.of_nat j =? r)) (seq 0 (Z.to_nat g))).

  (* delivering the messages of one step: slot i of rank r is overwritten by the sender's slot i
     if one of r's receives covers it (the sender transmits the same absolute slot range) *)
  Definition deliver (rl : Z -> list msg) (g base : Z) (st : state) : state :=
    fun r i =>
      if inb base g r then
        match find (fun m => inb (lo m) (cnt m) i) (rl r) with
        | Some m => st (peer m) i
        | None => st r i
        end
      else st r i.

  Fixpoint ag (fuel : nat) (g base : Z) (st : state) : state :=
    match fuel with
    | O => st
    | S f =>
      if amax <? g then
        let g2 := g / 2 in let g2B := g - g2 in
        let st1 := ag f g2 base st in
        let st2 := ag f g2B (base + g2) st1 in
        deliver (recvs_level g base) g base st2
      else deliver (recvs_a2a g base) g base st
    end.

  Definition init (b : Z -> A) : state := fun r i => if r =? i then Some (b r) else None.
  Definition allgather (P : Z) (b : Z -> A) : state := ag (S (Z.to_nat P)) P 0 (init b).
End Allgather.

(* ---- per-rank program (co-simulated against the trace of the real code; semantics in MPI/Sem.v) ----------
   Each exchange step is one communication window built from the SAME message lists as the global model;
   tags are the model's tag ids 0..3 (the driver maps them to the generated SC_TAG_AG_* values). *)
From ScV Require Import MPI.Prog.

Section AllgatherProg.
  Variable amax : Z.
  Variable sz : nat.                          (* block size in bytes *)

  Definition send_of (buf : buffer) (m : msg) : Z * Z * payload := (peer m, mtag m, slots buf (lo m) (Z.to_nat (cnt m))).
  Definition recv_of (m : msg) : Z * Z := (peer m, mtag m).
  Fixpoint store_all (buf : buffer) (ms : list msg) (ps : list payload) : buffer :=
    match ms, ps with
    | m :: ms', p :: ps' => store_all (store buf (lo m) (Z.to_nat (cnt m)) sz p) ms' ps'
    | _, _ => buf
    end.

  Definition window (sl rl : list msg) (buf : buffer) (k : buffer -> prog) : prog :=
    phase (map (send_of buf) sl) (map recv_of rl) (fun ps => k (store_all buf rl ps)).

  Fixpoint ag_prog (fuel : nat) (g base me : Z) (buf : buffer) (k : buffer -> prog) : prog :=
    match fuel with
    | O => k buf
    | S f =>
      if amax <? g then
        let g2 := g / 2 in let g2B := g - g2 in
        if me - base <? g2 then
          ag_prog f g2 base me buf (fun buf1 => window (sends_level g base me) (recvs_level g base me) buf1 k)
        else
          ag_prog f g2B (base + g2) me buf (fun buf1 => window (sends_level g base me) (recvs_level g base me) buf1 k)
      else window (sends_a2a g base me) (recvs_a2a g base me) buf k
    end.

  Definition allgather_prog (P me : Z) (mine : payload) : prog :=
    ag_prog (S (Z.to_nat P)) P 0 me (upd (fun _ => []) me mine)
            (fun buf => Ret (slots buf 0 (Z.to_nat P))).
End AllgatherProg.
