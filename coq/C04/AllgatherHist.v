(* C04 - HISTORIES: sequences of sc_allgather / sc_allgather_recursive / sc_allgather_alltoall calls on ONE communicator,
   issued back to back with no barrier in between, with arbitrary (different) block sizes - zero included - and arbitrary
   groups, under EVERY interleaving across the calls (a fast rank may be several calls ahead of a slow one; the messages
   of different calls use the SAME four tags and travel through the same channels).

   The single-call theorem (AllgatherSched.ag_sched) is in continuation form and leaves every channel as it found it.
   Hence the calls compose: there is a schedule that runs the calls one after the other.  The confluence theorem of the
   interleaving semantics (MPI/Sem.v: FIFO per (source, destination, tag), named-source receives) then gives the result
   for every schedule: a message of call k+1 that is already waiting in a channel while a receive of call k is pending on
   the same (source, tag) can not be taken by that receive, because the sender issued the message of call k to this
   destination with this tag BEFORE it (program order + FIFO) and exactly one receive of call k matches it (matching
   theorems of AllgatherProofs.v).  The theorem says so for the final state: every call returns ITS blocks.

   Two forms: a fixed list of calls (hist_sched ..), and calls whose parameters (entry point, group, block size, own block) are
   computed from the outputs of the earlier calls (dhist_sched ..: reuse of outputs). *)
From Coq Require Import ZArith Lia List Bool ZifyBool.
From ScV Require Import Base.CInt MPI.Prog MPI.Sem MPI.SemFrame MPI.SemPosted
     C04.AllgatherModel C04.AllgatherProofs C04.AllgatherSched.
Import ListNotations.
Local Open Scope Z_scope.

(* ---- one call ------------------------------------------------------------------------------------------------------ *)
Inductive entry := E_top | E_rec | E_a2a.       (* sc_allgather | sc_allgather_recursive | sc_allgather_alltoall *)
Record call := mkcall { c_entry : entry; c_g : Z; c_base : Z; c_sz : nat; c_blk : Z -> payload }.

(* sc_allgather works on the whole communicator; the two sub-routines on the group (c_g, c_base) *)
Definition grp (P : Z) (c : call) : Z * Z := match c_entry c with E_top => (P, 0) | _ => (c_g c, c_base c) end.

Definition call_ok (P : Z) (c : call) : Prop :=
  let g := fst (grp P c) in let base := snd (grp P c) in
  0 < g /\ 0 <= base /\ base + g <= P /\ forall r, base <= r < base + g -> length (c_blk c r) = c_sz c.

(* what a member does: its buffer holds its own block in slot `me`; sc_allgather and sc_allgather_recursive run the
   bisection above the threshold, sc_allgather_alltoall is the direct exchange whatever the group size *)
Definition member_prog (amax : Z) (c : call) (g base me : Z) (k : payload -> prog) : prog :=
  let buf0 := upd (fun _ => []) me (c_blk c me) in
  let kk := fun buf => k (slots buf base (Z.to_nat g)) in
  match c_entry c with
  | E_a2a => window (c_sz c) (sends_a2a g base me) (recvs_a2a g base me) buf0 kk
  | _ => ag_prog amax (c_sz c) (S (Z.to_nat g)) g base me buf0 kk
  end.

(* ranks outside the group do not take part in the call *)
Definition call_prog (amax P me : Z) (c : call) (k : payload -> prog) : prog :=
  let g := fst (grp P c) in let base := snd (grp P c) in
  if inb base g me then member_prog amax c g base me k else k [].

(* what the call hands to rank me: the blocks of the group in rank order *)
Definition call_out (P me : Z) (c : call) : payload :=
  let g := fst (grp P c) in let base := snd (grp P c) in
  if inb base g me then slots (c_blk c) base (Z.to_nat g) else [].

Lemma slots_length (b : buffer) (sz : nat) : forall n lo, (forall j, lo <= j < lo + Z.of_nat n -> length (b j) = sz) ->
  length (slots b lo n) = (n * sz)%nat.
Proof.
  induction n as [|n IH]; intros lo H; cbn [slots]; [reflexivity|].
  rewrite app_length, H by lia. rewrite IH by (intros j Hj; apply H; lia). reflexivity.
Qed.

(* the output of a call has the length g * sz: the outputs of a history can be cut apart again *)
Lemma call_out_length P me c : call_ok P c ->
  length (call_out P me c) = if inb (snd (grp P c)) (fst (grp P c)) me then (Z.to_nat (fst (grp P c)) * c_sz c)%nat else 0%nat.
Proof.
  intros [Hg [Hb [HP Hl]]]. unfold call_out. cbv zeta. destruct (inb _ _ me); [|reflexivity].
  apply slots_length. intros j Hj. apply Hl. lia.
Qed.

(* the direct exchange is the recursive program with a threshold that is not exceeded *)
Definition eff_amax (amax : Z) (c : call) (g : Z) : Z := match c_entry c with E_a2a => Z.max amax g | _ => amax end.

Lemma member_prog_ag amax c g base me k :
  member_prog amax c g base me k =
  ag_prog (eff_amax amax c g) (c_sz c) (S (Z.to_nat g)) g base me (upd (fun _ => []) me (c_blk c me))
          (fun buf => k (slots buf base (Z.to_nat g))).
Proof.
  unfold member_prog, eff_amax. destruct (c_entry c); try reflexivity.
  cbn [ag_prog]. replace (Z.max amax g <? g) with false by lia. reflexivity.
Qed.

(* ---- ONE CALL inside an arbitrary global state: if every rank of the communicator stands at the call (continuation
   k r), and the channels inside the communicator are empty, the call can be scheduled - nobody outside moves, every
   channel ends as it was - to the point where every rank continues with the output of the call *)
Section OneCall.
  Variable amax : Z.
  Hypothesis amax_pos : 1 <= amax.
  Variable P : Z.

  Theorem call_sched (c : call) (k : Z -> payload -> prog) (s : gs) :
    call_ok P c ->
    (forall r, 0 <= r < P -> pr s r = call_prog amax P r c (k r)) ->
    (forall a d t, 0 <= a < P -> 0 <= d < P -> ch s a d t = []) ->
    exists n s', run n s s' /\
      (forall r, 0 <= r < P -> pr s' r = k r (call_out P r c)) /\
      (forall r, ~ (0 <= r < P) -> pr s' r = pr s r) /\
      (forall a d t, ch s' a d t = ch s a d t).
  Proof.
    intros [Hg [Hb [HP Hl]]] Hp Hemp.
    set (g := fst (grp P c)) in *. set (base := snd (grp P c)) in *.
    set (b := fun r => if base <=? r then c_blk c r else repeat 0 (c_sz c)).
    assert (Hbl : forall r, 0 <= r < base + g -> length (b r) = c_sz c).
    { intros r Hr. unfold b. destruct (base <=? r) eqn:E; [apply Hl; lia|apply repeat_length]. }
    assert (Ha : 1 <= eff_amax amax c g) by (unfold eff_amax; destruct (c_entry c); lia).
    destruct (ag_sched (eff_amax amax c g) Ha (c_sz c) (base + g) b Hbl (S (Z.to_nat g)) g base
                       (fun r => upd (fun _ => []) r (c_blk c r))
                       (fun r buf => k r (slots buf base (Z.to_nat g))) s)
      as [n [s' [buf' [Hrun [Hp' [Hpo Hc]]]]]]; try lia.
    - intros r Hr. rewrite Hp by lia. unfold call_prog. cbv zeta. fold g. fold base.
      replace (inb base g r) with true by (unfold inb; lia). apply member_prog_ag.
    - intros r Hr. unfold upd, b. rewrite Z.eqb_refl. replace (base <=? r) with true by lia. reflexivity.
    - intros a d t Ha' Hd. apply Hemp; lia.
    - exists n, s'. split; [exact Hrun|]. split; [|split; [|exact Hc]].
      + intros r Hr. unfold call_out. cbv zeta. fold g. fold base. destruct (inb base g r) eqn:E.
        * apply inb_true in E. destruct (Hp' r E) as [Hpr Hfill]. rewrite Hpr. f_equal.
          apply slots_ext. intros j Hj. rewrite Hfill. unfold inb, b.
          replace ((base <=? j) && (j <? base + g)) with true by lia. replace (base <=? j) with true by lia. reflexivity.
        * apply inb_false in E. rewrite Hpo by exact E. rewrite Hp by exact Hr. unfold call_prog. cbv zeta. fold g. fold base.
          replace (inb base g r) with false by (unfold inb; lia). reflexivity.
      + intros r Hr. apply Hpo. lia.
  Qed.

  (* ---- HISTORIES whose calls depend on the outputs so far ------------------------------------------------------------
     The k-th call is a function of what the rank has accumulated (its outputs of the calls before).  All ranks of the
     communicator must agree on entry point, group and block size (`same_shape`, judged against rank 0's view); the own
     block of rank r is the one rank r computes. *)
  Definition same_shape (c1 c2 : call) : Prop :=
    c_entry c1 = c_entry c2 /\ c_g c1 = c_g c2 /\ c_base c1 = c_base c2 /\ c_sz c1 = c_sz c2.
  Definition resolve (acc : Z -> payload) (c : payload -> call) : call :=
    let c0 := c (acc 0) in mkcall (c_entry c0) (c_g c0) (c_base c0) (c_sz c0) (fun r => c_blk (c (acc r)) r).

  Lemma call_prog_resolve acc c me k : same_shape (c (acc me)) (c (acc 0)) ->
    call_prog amax P me (c (acc me)) k = call_prog amax P me (resolve acc c) k.
  Proof.
    intros [H1 [H2 [H3 H4]]]. unfold call_prog, grp, member_prog, resolve. cbn [c_entry c_g c_base c_sz c_blk].
    rewrite H1, H2, H3, H4. reflexivity.
  Qed.

  Fixpoint dhist_prog (me : Z) (cs : list (payload -> call)) (acc : payload) : prog :=
    match cs with
    | [] => Ret acc
    | c :: cs' => call_prog amax P me (c acc) (fun out => dhist_prog me cs' (acc ++ out))
    end.
  Fixpoint dhist_ok (cs : list (payload -> call)) (acc : Z -> payload) : Prop :=
    match cs with
    | [] => True
    | c :: cs' => (forall r, 0 <= r < P -> same_shape (c (acc r)) (c (acc 0))) /\ call_ok P (resolve acc c) /\
                  dhist_ok cs' (fun r => acc r ++ call_out P r (resolve acc c))
    end.
  Fixpoint dhist_out (cs : list (payload -> call)) (acc : Z -> payload) : Z -> payload :=
    match cs with
    | [] => acc
    | c :: cs' => dhist_out cs' (fun r => acc r ++ call_out P r (resolve acc c))
    end.

  Theorem dhist_sched : forall cs acc s, dhist_ok cs acc ->
    (forall r, 0 <= r < P -> pr s r = dhist_prog r cs (acc r)) ->
    (forall a d t, 0 <= a < P -> 0 <= d < P -> ch s a d t = []) ->
    exists n s', run n s s' /\
      (forall r, 0 <= r < P -> pr s' r = Ret (dhist_out cs acc r)) /\
      (forall r, ~ (0 <= r < P) -> pr s' r = pr s r) /\
      (forall a d t, ch s' a d t = ch s a d t).
  Proof.
    induction cs as [|c cs IH]; intros acc s Hok Hp Hemp.
    - exists 0%nat, s. split; [apply run_nil|]. split; [exact Hp|]. split; reflexivity.
    - destruct Hok as [Hsh [Hcok Hrest]].
      destruct (call_sched (resolve acc c) (fun r out => dhist_prog r cs (acc r ++ out)) s Hcok)
        as [n1 [s1 [Hrun1 [Hp1 [Hpo1 Hc1]]]]].
      + intros r Hr. rewrite Hp by exact Hr. cbn [dhist_prog]. apply call_prog_resolve. apply Hsh. exact Hr.
      + exact Hemp.
      + destruct (IH (fun r => acc r ++ call_out P r (resolve acc c)) s1 Hrest) as [n2 [s2 [Hrun2 [Hp2 [Hpo2 Hc2]]]]].
        * exact Hp1.
        * intros a d t Ha Hd. rewrite Hc1. apply Hemp; assumption.
        * exists (n1 + n2)%nat, s2. split; [eapply run_app; eauto|]. split; [exact Hp2|]. split.
          -- intros r Hr. rewrite Hpo2 by exact Hr. apply Hpo1. exact Hr.
          -- intros a d t. rewrite Hc2. apply Hc1.
  Qed.

  (* ---- fixed histories -------------------------------------------------------------------------------------------------- *)
  Fixpoint hist_prog (me : Z) (cs : list call) (acc : payload) : prog :=
    match cs with
    | [] => Ret acc
    | c :: cs' => call_prog amax P me c (fun out => hist_prog me cs' (acc ++ out))
    end.
  Definition hist_out (me : Z) (cs : list call) : payload := concat (map (call_out P me) cs).

  Lemma hist_out_cons me c cs : hist_out me (c :: cs) = call_out P me c ++ hist_out me cs.
  Proof. reflexivity. Qed.

  Theorem hist_sched : forall cs (acc : Z -> payload) s, Forall (call_ok P) cs ->
    (forall r, 0 <= r < P -> pr s r = hist_prog r cs (acc r)) ->
    (forall a d t, 0 <= a < P -> 0 <= d < P -> ch s a d t = []) ->
    exists n s', run n s s' /\
      (forall r, 0 <= r < P -> pr s' r = Ret (acc r ++ hist_out r cs)) /\
      (forall r, ~ (0 <= r < P) -> pr s' r = pr s r) /\
      (forall a d t, ch s' a d t = ch s a d t).
  Proof.
    induction cs as [|c cs IH]; intros acc s Hok Hp Hemp.
    - exists 0%nat, s. split; [apply run_nil|]. split; [|split; reflexivity].
      intros r Hr. rewrite Hp by exact Hr. cbn. rewrite app_nil_r. reflexivity.
    - inversion Hok as [|? ? Hcok Hrest]; subst.
      destruct (call_sched c (fun r out => hist_prog r cs (acc r ++ out)) s Hcok) as [n1 [s1 [Hrun1 [Hp1 [Hpo1 Hc1]]]]].
      + intros r Hr. rewrite Hp by exact Hr. reflexivity.
      + exact Hemp.
      + destruct (IH (fun r => acc r ++ call_out P r c) s1 Hrest) as [n2 [s2 [Hrun2 [Hp2 [Hpo2 Hc2]]]]].
        * exact Hp1.
        * intros a d t Ha Hd. rewrite Hc1. apply Hemp; assumption.
        * exists (n1 + n2)%nat, s2. split; [eapply run_app; eauto|]. split; [|split].
          -- intros r Hr. rewrite Hp2 by exact Hr. rewrite hist_out_cons, app_assoc. reflexivity.
          -- intros r Hr. rewrite Hpo2 by exact Hr. apply Hpo1. exact Hr.
          -- intros a d t. rewrite Hc2. apply Hc1.
  Qed.

  (* ---- the whole system: rank r < P runs the history from an empty network ------------------------------------------- *)
  Definition hist_start (cs : list call) : gs :=
    mkgs (fun r => if (0 <=? r) && (r <? P) then hist_prog r cs [] else Ret []) (fun _ _ _ => []).
  Definition hist_end (cs : list call) : gs :=
    mkgs (fun r => if (0 <=? r) && (r <? P) then Ret (hist_out r cs) else Ret []) (fun _ _ _ => []).
  Definition dhist_start (cs : list (payload -> call)) : gs :=
    mkgs (fun r => if (0 <=? r) && (r <? P) then dhist_prog r cs [] else Ret []) (fun _ _ _ => []).
  Definition dhist_end (cs : list (payload -> call)) : gs :=
    mkgs (fun r => if (0 <=? r) && (r <? P) then Ret (dhist_out cs (fun _ => []) r) else Ret []) (fun _ _ _ => []).

  Lemma hist_end_final cs : final (hist_end cs).
  Proof. intros r. unfold hist_end. cbn. destruct ((0 <=? r) && (r <? P)); eauto. Qed.
  Lemma dhist_end_final cs : final (dhist_end cs).
  Proof. intros r. unfold dhist_end. cbn. destruct ((0 <=? r) && (r <? P)); eauto. Qed.

  Theorem hist_one_schedule cs : Forall (call_ok P) cs -> exists n, run n (hist_start cs) (hist_end cs).
  Proof.
    intros Hok. destruct (hist_sched cs (fun _ => []) (hist_start cs) Hok) as [n [s' [Hrun [Hp [Hpo Hc]]]]].
    - intros r Hr. unfold hist_start. cbn [pr]. replace ((0 <=? r) && (r <? P)) with true by lia. reflexivity.
    - reflexivity.
    - exists n. replace (hist_end cs) with s'; [exact Hrun|]. apply gs_eq.
      + intros r. unfold hist_end. cbn [pr]. destruct ((0 <=? r) && (r <? P)) eqn:E.
        * rewrite Hp by lia. reflexivity.
        * rewrite Hpo by lia. unfold hist_start. cbn [pr]. rewrite E. reflexivity.
      + intros a d t. rewrite Hc. reflexivity.
  Qed.

  Theorem dhist_one_schedule cs : dhist_ok cs (fun _ => []) -> exists n, run n (dhist_start cs) (dhist_end cs).
  Proof.
    intros Hok. destruct (dhist_sched cs (fun _ => []) (dhist_start cs) Hok) as [n [s' [Hrun [Hp [Hpo Hc]]]]].
    - intros r Hr. unfold dhist_start. cbn [pr]. replace ((0 <=? r) && (r <? P)) with true by lia. reflexivity.
    - reflexivity.
    - exists n. replace (dhist_end cs) with s'; [exact Hrun|]. apply gs_eq.
      + intros r. unfold dhist_end. cbn [pr]. destruct ((0 <=? r) && (r <? P)) eqn:E.
        * rewrite Hp by lia. reflexivity.
        * rewrite Hpo by lia. unfold dhist_start. cbn [pr]. rewrite E. reflexivity.
      + intros a d t. rewrite Hc. reflexivity.
  Qed.

  (* EVERY schedule, blocking and posted-receive semantics *)
  Theorem hist_all_schedules cs : Forall (call_ok P) cs ->
    exists n, run n (hist_start cs) (hist_end cs) /\ terminal_for (hist_start cs) (hist_end cs) n /\
              terminal_for_p (hist_start cs) (hist_end cs) n.
  Proof.
    intros Hok. destruct (hist_one_schedule cs Hok) as [n Hn]. exists n. split; [exact Hn|]. split.
    - apply one_schedule_all_schedules; [exact Hn|apply hist_end_final].
    - apply blocking_schedule_all_posted_schedules; [exact Hn|apply hist_end_final].
  Qed.

  Theorem dhist_all_schedules cs : dhist_ok cs (fun _ => []) ->
    exists n, run n (dhist_start cs) (dhist_end cs) /\ terminal_for (dhist_start cs) (dhist_end cs) n /\
              terminal_for_p (dhist_start cs) (dhist_end cs) n.
  Proof.
    intros Hok. destruct (dhist_one_schedule cs Hok) as [n Hn]. exists n. split; [exact Hn|]. split.
    - apply one_schedule_all_schedules; [exact Hn|apply dhist_end_final].
    - apply blocking_schedule_all_posted_schedules; [exact Hn|apply dhist_end_final].
  Qed.

  (* A RANK THAT HAS FINISHED HAS THE RIGHT RESULT, whatever the others are still doing: in every reachable state of the history
     (any interleaving, the other ranks anywhere in their calls, messages of later calls already queued), a rank that has returned
     has returned the outputs of ITS calls *)
  Lemma ret_stable : forall n s s' r out, run n s s' -> pr s r = Ret out -> pr s' r = Ret out.
  Proof.
    induction 1 as [|n s r0 s1 s2 Hstep Hrun IH]; intros Hr; [exact Hr|]. apply IH.
    inversion Hstep; subst; cbn [pr]; unfold updp; destruct (Z.eqb_spec r r0); subst; try exact Hr; congruence.
  Qed.

  Theorem hist_finished_rank cs : Forall (call_ok P) cs ->
    forall m s' r out, run m (hist_start cs) s' -> 0 <= r < P -> pr s' r = Ret out -> out = hist_out r cs.
  Proof.
    intros Hok m s' r out Hrun Hr Hret. destruct (hist_all_schedules cs Hok) as [n [_ [H2 _]]].
    destruct (H2 m s' Hrun) as [_ [Hc _]]. pose proof (ret_stable _ _ _ r out Hc Hret) as He.
    unfold hist_end in He. cbn [pr] in He. replace ((0 <=? r) && (r <? P)) with true in He by lia. congruence.
  Qed.

  (* the statements in the form the properties file quotes *)
  Corollary hist_every_schedule cs : Forall (call_ok P) cs ->
    exists n, run n (hist_start cs) (hist_end cs) /\ terminal_for (hist_start cs) (hist_end cs) n.
  Proof. intros Hok. destruct (hist_all_schedules cs Hok) as [n [H1 [H2 _]]]. exists n. split; assumption. Qed.
  Corollary hist_every_posted_schedule cs : Forall (call_ok P) cs ->
    exists n, run_p n (hist_start cs) (hist_end cs) /\ terminal_for_p (hist_start cs) (hist_end cs) n.
  Proof.
    intros Hok. destruct (hist_all_schedules cs Hok) as [n [H1 [_ H3]]]. exists n. split; [apply run_in_run_p; exact H1|exact H3].
  Qed.
  Lemma hist_outputs me c cs :
    hist_out me (c :: cs) = call_out P me c ++ hist_out me cs /\ hist_out me [] = [] /\
    call_out P me c = (if inb (snd (grp P c)) (fst (grp P c)) me then slots (c_blk c) (snd (grp P c)) (Z.to_nat (fst (grp P c))) else []) /\
    (call_ok P c ->
     length (call_out P me c) = if inb (snd (grp P c)) (fst (grp P c)) me then (Z.to_nat (fst (grp P c)) * c_sz c)%nat else 0%nat).
  Proof. split; [reflexivity|]. split; [reflexivity|]. split; [reflexivity|]. apply call_out_length. Qed.
End OneCall.

(* ---- an executable scheduler for the named-source semantics (used by the examples below) -------------------------- *)
Definition xstep (s : gs) (r : Z) : option gs :=
  match pr s r with
  | Do (Send d t m) k => Some (mkgs (updp (pr s) r (k [])) (updc (ch s) r d t (ch s r d t ++ [m])))
  | Do (Recv x t) k =>
    if 0 <=? x then
      match ch s x r t with
      | m :: q => Some (mkgs (updp (pr s) r (k (x :: m))) (updc (ch s) x r t q))
      | [] => None
      end
    else None
  | _ => None
  end.
Fixpoint xrun (l : list Z) (s : gs) : option gs :=
  match l with [] => Some s | r :: l' => match xstep s r with Some s1 => xrun l' s1 | None => None end end.

Lemma xstep_sound s r s' : xstep s r = Some s' -> step s r s'.
Proof.
  unfold xstep. destruct (pr s r) as [o|[d t m|x t|kd rt cb] k] eqn:E; try discriminate.
  - intros H. injection H as <-. apply step_send. exact E.
  - destruct (Z.leb_spec 0 x) as [H0|H0]; [|discriminate].
    destruct (ch s x r t) as [|m q] eqn:Ec; [discriminate|]. intros H. injection H as <-.
    apply step_recv; assumption.
Qed.
Lemma xrun_sound : forall l s s', xrun l s = Some s' -> run (length l) s s'.
Proof.
  induction l as [|r l IH]; intros s s' H; cbn [xrun length] in *.
  - injection H as <-. constructor.
  - destruct (xstep s r) as [s1|] eqn:E; [|discriminate]. econstructor; [apply (xstep_sound _ _ _ E)|apply IH; exact H].
Qed.

(* ---- EXAMPLES (non-vacuity) ----------------------------------------------------------------------------------------- *)
(* a history on 7 ranks, threshold 5: sc_allgather with 2-byte blocks, the direct exchange on the subgroup 2..4 with EMPTY
   blocks, sc_allgather_recursive on the subgroup 1..6 (recursive: 6 > 5) with 1-byte blocks, sc_allgather with empty blocks,
   sc_allgather with 3-byte blocks *)
Definition ex_hist : list call :=
  [ mkcall E_top 0 0 2 (fun r => [r; 100 + r]);
    mkcall E_a2a 3 2 0 (fun _ => []);
    mkcall E_rec 6 1 1 (fun r => [50 + r]);
    mkcall E_top 0 0 0 (fun _ => []);
    mkcall E_top 0 0 3 (fun r => [r; r; 7]) ].

Lemma ex_hist_ok : Forall (call_ok 7) ex_hist.
Proof. unfold ex_hist. repeat constructor; cbn; try lia; intros; reflexivity. Qed.

Example ex_hist_schedules :
  (exists n, run n (hist_start 5 7 ex_hist) (hist_end 7 ex_hist) /\ terminal_for (hist_start 5 7 ex_hist) (hist_end 7 ex_hist) n) /\
  pr (hist_end 7 ex_hist) 3 =
    Ret ([0; 100; 1; 101; 2; 102; 3; 103; 4; 104; 5; 105; 6; 106] ++ [] ++ [51; 52; 53; 54; 55; 56] ++ [] ++
         [0; 0; 7; 1; 1; 7; 2; 2; 7; 3; 3; 7; 4; 4; 7; 5; 5; 7; 6; 6; 7]) /\
  pr (hist_end 7 ex_hist) 0 =
    Ret ([0; 100; 1; 101; 2; 102; 3; 103; 4; 104; 5; 105; 6; 106] ++
         [0; 0; 7; 1; 1; 7; 2; 2; 7; 3; 3; 7; 4; 4; 7; 5; 5; 7; 6; 6; 7]).
Proof.
  split; [|split; vm_compute; reflexivity].
  destruct (hist_all_schedules 5 ltac:(lia) 7 ex_hist ex_hist_ok) as [n [H1 [H2 _]]]. exists n. split; assumption.
Qed.

(* A FAST RANK SEVERAL CALLS AHEAD, two messages of different calls in one channel.  Three ranks, four direct exchanges:
   all ranks (1-byte blocks), ranks 0..1 (2-byte blocks), ranks 0..1 (empty blocks), all ranks (3-byte blocks).  Rank 2 posts
   its sends of the first call and then sleeps; ranks 0 and 1 finish calls 1, 2, 3, and rank 0 posts its sends of call 4.  Now
   channel (0 -> 2, tag ALLTOALL) holds the message of call 1 AND, behind it, the message of call 4 (same tag, other length),
   while rank 2 is still at its first receive of call 1.  The history theorem says that from this state, too, every
   continuation ends with every call having returned its own blocks. *)
Definition ex_fast : list call :=
  [ mkcall E_a2a 3 0 1 (fun r => [10 + r]);
    mkcall E_a2a 2 0 2 (fun r => [20 + r; 30 + r]);
    mkcall E_a2a 2 0 0 (fun _ => []);
    mkcall E_a2a 3 0 3 (fun r => [40 + r; 50 + r; 60 + r]) ].
Definition ex_fast_schedule : list Z := [0; 0; 1; 1; 2; 2; 0; 0; 1; 1;  0; 1; 0; 1;  0; 1; 0; 1;  0; 0].

Lemma ex_fast_ok : Forall (call_ok 3) ex_fast.
Proof. unfold ex_fast. repeat constructor; cbn; try lia; intros; reflexivity. Qed.

Example ex_fast_rank :
  exists s', run 20 (hist_start 5 3 ex_fast) s' /\
    ch s' 0 2 TAG_ALLTOALL = [[10]; [40; 50; 60]] /\            (* call 1 and call 4 in the same channel *)
    (exists k, pr s' 2 = Do (Recv 0 TAG_ALLTOALL) k) /\         (* rank 2: first receive of call 1 still pending *)
    (exists n, run n s' (hist_end 3 ex_fast)) /\                (* ... and the run can only end correctly *)
    pr (hist_end 3 ex_fast) 2 = Ret ([10; 11; 12] ++ [40; 50; 60; 41; 51; 61; 42; 52; 62]).
Proof.
  destruct (xrun ex_fast_schedule (hist_start 5 3 ex_fast)) as [s'|] eqn:E; [|vm_compute in E; discriminate].
  exists s'. pose proof (xrun_sound _ _ _ E) as Hrun. split; [exact Hrun|].
  assert (Hs : Some s' = xrun ex_fast_schedule (hist_start 5 3 ex_fast)) by (symmetry; exact E).
  split; [|split; [|split]].
  - assert (H : option_map (fun s => ch s 0 2 TAG_ALLTOALL) (Some s') = Some [[10]; [40; 50; 60]]) by (rewrite Hs; vm_compute; reflexivity).
    injection H as H. exact H.
  - assert (H : match option_map (fun s => pr s 2) (Some s') with Some (Do (Recv 0 0) _) => True | _ => False end) by (rewrite Hs; vm_compute; exact I).
    cbn [option_map] in H. destruct (pr s' 2) as [|[| x t |] k]; try contradiction.
    destruct x; try contradiction. destruct t; try contradiction. exists k. reflexivity.
  - destruct (hist_all_schedules 5 ltac:(lia) 3 ex_fast ex_fast_ok) as [n [_ [H2 _]]].
    destruct (H2 _ _ Hrun) as [_ [Hc _]]. eexists. exact Hc.
  - vm_compute. reflexivity.
Qed.

(* REUSE OF OUTPUTS: the second call's block size and blocks are computed from the output of the first call (every rank
   contributes the first result scaled by rank + 2, so the block size is P bytes); the third call gathers the LENGTH of what
   has been accumulated so far on the subgroup 1..2 *)
Definition ex_dhist : list (payload -> call) :=
  [ (fun _ => mkcall E_top 0 0 1 (fun r => [r + 1]));
    (fun acc => mkcall E_top 0 0 (length acc) (fun r => map (Z.mul (r + 2)) acc));
    (fun acc => mkcall E_rec 2 1 1 (fun r => [Z.of_nat (length acc) + r])) ].

Example ex_dhist_schedules :
  (exists n, run n (dhist_start 5 3 ex_dhist) (dhist_end 3 ex_dhist) /\
             terminal_for (dhist_start 5 3 ex_dhist) (dhist_end 3 ex_dhist) n) /\
  pr (dhist_end 3 ex_dhist) 1 = Ret ([1; 2; 3] ++ [2; 4; 6; 3; 6; 9; 4; 8; 12] ++ [13; 14]) /\
  pr (dhist_end 3 ex_dhist) 0 = Ret ([1; 2; 3] ++ [2; 4; 6; 3; 6; 9; 4; 8; 12]).
Proof.
  split; [|split; vm_compute; reflexivity].
  assert (Hok : dhist_ok 3 ex_dhist (fun _ => [])).
  { assert (Hr : forall r, 0 <= r < 3 -> r = 0 \/ r = 1 \/ r = 2) by (intros; lia).
    unfold ex_dhist. cbn [dhist_ok]. repeat split.
    all: try (match goal with H : 0 <= ?r < 3 |- _ => destruct (Hr r H) as [->|[->| ->]] end; vm_compute; reflexivity).
    all: try (cbn; lia).
    all: intros r H; cbn [grp resolve c_entry c_g c_base fst snd] in H; assert (H' : 0 <= r < 3) by lia;
      destruct (Hr r H') as [->|[->| ->]]; vm_compute; reflexivity. }
  destruct (dhist_all_schedules 5 ltac:(lia) 3 ex_dhist Hok) as [n [H1 [H2 _]]]. exists n. split; assumption.
Qed.
