(* C17 - tie T1 for iniparser's dictionary: the array model DictModel.v computes exactly what the definitions GENERATED from
   /repo/iniparser/dictionary.c (Gen/DictC17.v, regenerated on every run) compute: the minimal size and the element sizes of
   dictionary_new, mem_double (a zeroed block of twice the bytes, the old bytes copied, the old block freed), the growth step
   of dictionary_set (which arrays, how many bytes each, the new size, when), the three search loops (slot in use, stored hash,
   then the key), the insertion loop (first free slot from d->n on, wrapping), and what set / unset store.
   The C arrays are read through functions d_key / d_val / d_hash : Z -> Z (addresses and hashes by slot index); `rep` says
   what they hold for a list of model cells.  An edit of those lines changes a generated definition and a lemma here stops
   checking; if a function is restructured the group no longer translates. *)
From Coq Require Import ZArith List Bool Lia.
From ScV Require Import Base.CInt Gen.DictC17 C17.OptionsModel C17.IniProofs C17.DictModel C17.DictProofs.
Import ListNotations.
Local Open Scope Z_scope.

Lemma s32_small x : 0 <= x < 2147483648 -> s32 x = x.
Proof. intros H. apply s32_id. unfold in_s32, M32. lia. Qed.
Lemma u64_small x : 0 <= x < 2147483648 -> u64 x = x.
Proof. intros H. apply u64_id. unfold M64. lia. Qed.

(* ---------- dictionary_new ---------- *)
Lemma gen_dict_new_size size : dict_new_size size = new_size size.
Proof. reflexivity. Qed.

Lemma gen_dict_new_arrays size r1 r2 r3 : 0 <= size < 2147483648 ->
  dict_new_arrays size r1 r2 r3 = (size, r1, r2, r3, size, ESZ_VAL, size, ESZ_KEY, size, ESZ_HASH).
Proof. intros H. unfold dict_new_arrays. cbv zeta. rewrite u64_small by exact H. reflexivity. Qed.

(* ---------- mem_double ---------- *)
Lemma gen_dict_mem_double ptr bytes new : 0 <= bytes < 1073741824 ->
  dict_mem_double ptr bytes new = if new =? 0 then (0, 2 * bytes, 1, 0, 0, 0, 0) else (new, 2 * bytes, 1, new, ptr, bytes, ptr).
Proof.
  intros H. unfold dict_mem_double. cbv zeta. rewrite (s32_small (2 * bytes)) by lia. rewrite !u64_small by lia.
  destruct (new =? 0); reflexivity.
Qed.

(* ---------- dictionary_set: when it grows, what it hands to mem_double, the new size ---------- *)
Lemma gen_dict_set_full n size : dict_set_full n size = (n =? size).
Proof. reflexivity. Qed.

Lemma gen_dict_set_grow v k h size r1 r2 r3 : 0 <= size < 134217728 ->
  dict_set_grow v k h size r1 r2 r3 =
  (r1, r2, r3, grow_size size, v, grow_bytes_val size, k, grow_bytes_key size, h, grow_bytes_hash size).
Proof.
  intros H. unfold dict_set_grow, grow_size, grow_bytes_val, grow_bytes_key, grow_bytes_hash, ESZ_VAL, ESZ_KEY, ESZ_HASH. cbv zeta.
  rewrite (u64_small size) by lia. rewrite !u64_small by lia. rewrite !s32_small by lia. rewrite (Z.mul_comm size 2). reflexivity.
Qed.

Lemma gen_dict_set_grow_failed v k h : dict_set_grow_failed v k h = ((v =? 0) || (k =? 0) || (h =? 0)).
Proof. reflexivity. Qed.

Lemma gen_dict_set_conditions d key n i size :
  dict_set_badargs d key = ((d =? 0) || (key =? 0)) /\ dict_set_nonempty n = (0 <? n) /\ dict_unset_notfound i size = (size <=? i).
Proof. repeat split. Qed.

(* ---------- what the arrays hold ---------- *)
Definition rep (l : list cell) (k : str) (dk dh sk : Z -> Z) : Prop :=
  forall i c, nth_error l i = Some c ->
    (dk (Z.of_nat i) =? 0) = negb (occupied c) /\ dh (Z.of_nat i) = c_hash c /\
    (forall k', c_key c = Some k' -> (sk (Z.of_nat i) =? 0) = str_eqb k k').

Definition rep_from (i0 : nat) (l : list cell) (k : str) (dk dh sk : Z -> Z) : Prop :=
  forall j c, nth_error l j = Some c ->
    (dk (Z.of_nat (i0 + j)) =? 0) = negb (occupied c) /\ dh (Z.of_nat (i0 + j)) = c_hash c /\
    (forall k', c_key c = Some k' -> (sk (Z.of_nat (i0 + j)) =? 0) = str_eqb k k').

Lemma rep_from_tail i0 c r k dk dh sk : rep_from i0 (c :: r) k dk dh sk -> rep_from (S i0) r k dk dh sk.
Proof. intros H j x Hj. specialize (H (S j) x Hj). replace (S i0 + j)%nat with (i0 + S j)%nat by lia. exact H. Qed.

Definition found_or (size : nat) (o : option nat) : Z := match o with Some i => Z.of_nat i | None => Z.of_nat size end.

(* the three search loops have the same text; one script proves each of them *)
Ltac search_loop LOOP :=
  intros l; induction l as [|c r IH]; intros i0 Hrep Hb;
  [ cbn [length find_cell LOOP]; rewrite Nat.add_0_r, Z.ltb_irrefl; reflexivity | ];
  cbn [length] in *; cbn [LOOP find_cell];
  destruct (Z.ltb_spec (Z.of_nat i0) (Z.of_nat (i0 + S (length r)))) as [_|]; [|lia];
  destruct (Hrep O c eq_refl) as (Hk & Hh & Hs); rewrite Nat.add_0_r in Hk, Hh, Hs;
  rewrite Hk, Hh; unfold cell_match, occupied in *;
  rewrite (s32_small (Z.of_nat i0 + 1)) by lia;
  replace (Z.of_nat i0 + 1) with (Z.of_nat (S i0)) by lia;
  replace (i0 + S (length r))%nat with (S i0 + length r)%nat in * by lia;
  specialize (IH (S i0) (rep_from_tail _ _ _ _ _ _ _ Hrep));
  destruct (c_key c) as [k'|]; cbn [negb];
  [ destruct (_ =? c_hash c); cbn [andb];
    [ unfold z2b; rewrite (Hs k' eq_refl); destruct (str_eqb _ k'); cbn [negb]; [reflexivity|apply IH; lia] | apply IH; lia ]
  | apply IH; lia ].

Lemma gen_set_find_loop k h dk dh sk : forall l i0, rep_from i0 l k dk dh sk -> Z.of_nat (i0 + length l) < 2147483647 ->
  dict_set_find_loop1 (S (length l)) dk dh sk (Z.of_nat (i0 + length l)) h (Z.of_nat i0) =
  Some (inl (found_or (i0 + length l) (find_cell k h l i0))).
Proof. search_loop dict_set_find_loop1. Qed.

Lemma gen_unset_find_loop k h dk dh sk : forall l i0, rep_from i0 l k dk dh sk -> Z.of_nat (i0 + length l) < 2147483647 ->
  dict_unset_find_loop1 (S (length l)) dk dh sk (Z.of_nat (i0 + length l)) h (Z.of_nat i0) =
  Some (inl (found_or (i0 + length l) (find_cell k h l i0))).
Proof. search_loop dict_unset_find_loop1. Qed.

Lemma gen_get_loop k h dk dh dv sk : forall l i0, rep_from i0 l k dk dh sk -> Z.of_nat (i0 + length l) < 2147483647 ->
  dict_lookup_loop1 (S (length l)) dk dh dv sk (Z.of_nat (i0 + length l)) h (Z.of_nat i0) =
  Some (match find_cell k h l i0 with Some i => inr (dv (Z.of_nat i)) | None => inl (Z.of_nat (i0 + length l)) end).
Proof. search_loop dict_lookup_loop1. Qed.

Lemma rep_rep_from l k dk dh sk : rep l k dk dh sk -> rep_from 0 l k dk dh sk.
Proof. intros H j c Hj. exact (H j c Hj). Qed.

Section Hash.
Variable hash : str -> Z.

(* dictionary_set: the slot the search stops at = the model's find (d->size: not found) *)
Theorem gen_dict_set_find d k dk dh sk : rep (ad_cells d) k dk dh sk -> ad_size d < 2147483647 ->
  dict_set_find (S (length (ad_cells d))) dk dh sk (ad_size d) (hash k) = Some (found_or (length (ad_cells d)) (adict_find hash d k)).
Proof.
  intros Hr Hb. unfold dict_set_find, ad_size, adict_find in *. cbv zeta.
  pose proof (gen_set_find_loop k (hash k) dk dh sk (ad_cells d) 0 (rep_rep_from _ _ _ _ _ Hr)) as L. cbn [plus] in L.
  change 0 with (Z.of_nat 0). rewrite L by exact Hb. reflexivity.
Qed.

Theorem gen_dict_unset_find d k dk dh sk : rep (ad_cells d) k dk dh sk -> ad_size d < 2147483647 ->
  dict_unset_find (S (length (ad_cells d))) dk dh sk (ad_size d) (hash k) = Some (found_or (length (ad_cells d)) (adict_find hash d k)).
Proof.
  intros Hr Hb. unfold dict_unset_find, ad_size, adict_find in *. cbv zeta.
  pose proof (gen_unset_find_loop k (hash k) dk dh sk (ad_cells d) 0 (rep_rep_from _ _ _ _ _ Hr)) as L. cbn [plus] in L.
  change 0 with (Z.of_nat 0). rewrite L by exact Hb. reflexivity.
Qed.

(* dictionary_get: d->val of the model's slot, or `def` *)
Theorem gen_dict_get d k dk dh dv sk def : rep (ad_cells d) k dk dh sk -> ad_size d < 2147483647 ->
  dict_lookup (S (length (ad_cells d))) dk dh dv sk (ad_size d) def (hash k) =
  Some (match adict_find hash d k with Some i => dv (Z.of_nat i) | None => def end).
Proof.
  intros Hr Hb. unfold dict_lookup, ad_size, adict_find in *. cbv zeta.
  pose proof (gen_get_loop k (hash k) dk dh dv sk (ad_cells d) 0 (rep_rep_from _ _ _ _ _ Hr)) as L. cbn [plus] in L.
  change 0 with (Z.of_nat 0). rewrite L by exact Hb. destruct (find_cell k (hash k) (ad_cells d) 0); reflexivity.
Qed.

End Hash.

(* ---------- the insertion loop ---------- *)
Definition keyrep (l : list cell) (dk : Z -> Z) : Prop :=
  forall i c, nth_error l i = Some c -> z2b (dk (Z.of_nat i)) = occupied c.

(* walking over slots in use up to a free one, no wrap on the way *)
Lemma slot_loop_found dk size : forall l i0 j fuel, (forall t c, nth_error l t = Some c -> z2b (dk (Z.of_nat (i0 + t))) = occupied c) ->
  first_free l i0 = Some j -> Z.of_nat (i0 + length l) <= size -> size < 2147483647 -> (j - i0 < fuel)%nat ->
  dict_set_slot_loop1 fuel dk size (Z.of_nat i0) = Some (inl (Z.of_nat j)).
Proof.
  induction l as [|c r IH]; intros i0 j fuel Hrep Hf Hs Hb Hfu; [discriminate Hf|].
  cbn [first_free] in Hf. cbn [length] in Hs. destruct fuel as [|fuel]; [lia|]. cbn [dict_set_slot_loop1].
  pose proof (Hrep O c eq_refl) as Hk. rewrite Nat.add_0_r in Hk. rewrite Hk.
  destruct (occupied c).
  - pose proof (first_free_spec r (S i0) j Hf) as [Hj _].
    rewrite (s32_small (Z.of_nat i0 + 1)) by lia. destruct (Z.eqb_spec (Z.of_nat i0 + 1) size) as [E|_]; [lia|].
    replace (Z.of_nat i0 + 1) with (Z.of_nat (S i0)) by lia. apply (IH (S i0) j fuel); try lia; [|exact Hf].
    intros t x Ht. specialize (Hrep (S t) x Ht). replace (S i0 + t)%nat with (i0 + S t)%nat by lia. exact Hrep.
  - injection Hf as <-. reflexivity.
Qed.

(* all slots from i0 to the end are in use: the loop arrives at slot 0 *)
Lemma slot_loop_wrap dk : forall l i0 fuel, (forall t c, nth_error l t = Some c -> z2b (dk (Z.of_nat (i0 + t))) = occupied c) ->
  first_free l i0 = None -> l <> [] -> Z.of_nat (i0 + length l) < 2147483647 ->
  dict_set_slot_loop1 (length l + fuel) dk (Z.of_nat (i0 + length l)) (Z.of_nat i0) = dict_set_slot_loop1 fuel dk (Z.of_nat (i0 + length l)) 0.
Proof.
  induction l as [|c r IH]; intros i0 fuel Hrep Hf Hne Hb; [contradiction|].
  cbn [first_free] in Hf. cbn [length] in *. cbn [plus dict_set_slot_loop1].
  pose proof (Hrep O c eq_refl) as Hk. rewrite Nat.add_0_r in Hk. rewrite Hk.
  destruct (occupied c); [|discriminate Hf].
  rewrite (s32_small (Z.of_nat i0 + 1)) by lia.
  destruct r as [|c2 r2].
  - cbn [length plus]. destruct (Z.eqb_spec (Z.of_nat i0 + 1) (Z.of_nat (i0 + 1))) as [_|E]; [reflexivity|lia].
  - destruct (Z.eqb_spec (Z.of_nat i0 + 1) (Z.of_nat (i0 + S (length (c2 :: r2))))) as [E|_]; [cbn [length] in E; lia|].
    replace (Z.of_nat i0 + 1) with (Z.of_nat (S i0)) by lia.
    replace (i0 + S (length (c2 :: r2)))%nat with (S i0 + length (c2 :: r2))%nat by lia.
    apply (IH (S i0) fuel); [|exact Hf|discriminate|lia].
    intros t x Ht. specialize (Hrep (S t) x Ht). replace (S i0 + t)%nat with (i0 + S t)%nat by lia. exact Hrep.
Qed.

Theorem gen_dict_set_slot l n j dk : keyrep l dk -> (n < length l)%nat -> Z.of_nat (length l) < 2147483647 -> free_slot l n = Some j ->
  dict_set_slot (2 * length l + 1) dk (Z.of_nat n) (Z.of_nat (length l)) = Some (Z.of_nat j).
Proof.
  intros Hrep Hn Hb Hf. unfold dict_set_slot, free_slot in *. cbv zeta.
  assert (Hlen : length (skipn n l) = (length l - n)%nat) by apply skipn_length.
  assert (Hrs : forall t c, nth_error (skipn n l) t = Some c -> z2b (dk (Z.of_nat (n + t))) = occupied c).
  { intros t c Ht. apply (Hrep (n + t)%nat c). rewrite <- Ht. clear. revert l. induction n as [|n IH]; intros l; [reflexivity|].
    destruct l as [|x r]; [destruct t; reflexivity|]. cbn [plus nth_error skipn]. apply IH. }
  destruct (first_free (skipn n l) n) as [i|] eqn:E1.
  - injection Hf as <-.
    pose proof (first_free_spec _ _ _ E1) as [Hi _]. rewrite Hlen in Hi.
    rewrite (slot_loop_found dk (Z.of_nat (length l)) (skipn n l) n i (2 * length l + 1) Hrs E1); [reflexivity|rewrite Hlen; lia|lia|lia].
  - pose proof (first_free_spec _ _ _ Hf) as [Hj _].
    replace (2 * length l + 1)%nat with (length (skipn n l) + (length l + n + 1))%nat by (rewrite Hlen; lia).
    replace (Z.of_nat (length l)) with (Z.of_nat (n + length (skipn n l))) by (rewrite Hlen; lia).
    rewrite (slot_loop_wrap dk (skipn n l) n (length l + n + 1) Hrs E1).
    + replace (Z.of_nat (n + length (skipn n l))) with (Z.of_nat (length l)) by (rewrite Hlen; lia).
      change 0 with (Z.of_nat 0).
      rewrite (slot_loop_found dk (Z.of_nat (length l)) l 0 j (length l + n + 1)); [reflexivity| |exact Hf|lia|lia|lia].
      intros t c Ht. exact (Hrep t c Ht).
    + intros Hnil. rewrite Hnil in Hlen. cbn in Hlen. lia.
    + rewrite Hlen. lia.
Qed.

(* ---------- what set and unset store ---------- *)
Lemma gen_dict_set_store dk dv dh xs key val h n : 0 <= n < 2147483647 ->
  dict_set_store dk dv dh xs key val h n = (xs key, if z2b val then xs val else 0, h, n + 1).
Proof. intros H. unfold dict_set_store. cbv zeta. rewrite s32_small by lia. reflexivity. Qed.

Lemma gen_dict_set_replace dv xs i val :
  dict_set_replace dv xs i val = (0, if z2b val then xs val else 0, dv i).
Proof. unfold dict_set_replace. cbv zeta. destruct (Z.eqb_spec (dv i) 0) as [E|E]; cbn [negb]; [rewrite E|]; reflexivity. Qed.

Lemma gen_dict_unset_remove dk dv dh i n : 0 < n < 2147483648 ->
  dict_unset_remove dk dv dh i n = (0, if dv i =? 0 then -1 else 0, 0, n - 1, dk i, dv i).
Proof.
  intros H. unfold dict_unset_remove. cbv zeta. rewrite s32_small by lia.
  destruct (Z.eqb_spec (dv i) 0) as [E|E]; cbn [negb]; [rewrite E|]; reflexivity.
Qed.

(* ---------- the statements as Props/Properties_C17.v quotes them ---------- *)
Lemma gen_dict_new size r1 r2 r3 : dict_new_size size = new_size size /\
  (0 <= size < 2147483648 -> dict_new_arrays size r1 r2 r3 = (size, r1, r2, r3, size, ESZ_VAL, size, ESZ_KEY, size, ESZ_HASH)).
Proof. split; [apply gen_dict_new_size|apply gen_dict_new_arrays]. Qed.

Lemma gen_dict_grow v k h n size r1 r2 r3 : dict_set_full n size = (n =? size) /\
  (0 <= size < 134217728 -> dict_set_grow v k h size r1 r2 r3 =
     (r1, r2, r3, grow_size size, v, grow_bytes_val size, k, grow_bytes_key size, h, grow_bytes_hash size)) /\
  dict_set_grow_failed v k h = ((v =? 0) || (k =? 0) || (h =? 0)).
Proof. split; [reflexivity|]. split; [apply gen_dict_set_grow|reflexivity]. Qed.

Lemma gen_dict_stores dk dv dh xs key val h n i :
  (0 <= n < 2147483647 -> dict_set_store dk dv dh xs key val h n = (xs key, if z2b val then xs val else 0, h, n + 1)) /\
  dict_set_replace dv xs i val = (0, if z2b val then xs val else 0, dv i) /\
  (0 < n < 2147483648 -> dict_unset_remove dk dv dh i n = (0, if dv i =? 0 then -1 else 0, 0, n - 1, dk i, dv i)).
Proof. split; [apply gen_dict_set_store|]. split; [apply gen_dict_set_replace|apply gen_dict_unset_remove]. Qed.
