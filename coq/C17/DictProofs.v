(* C17 - the arrays of iniparser's dictionary (DictModel.v) refine the finite map of OptionsModel.v (dict_get / dict_set):
   for EVERY hash function, EVERY initial size and EVERY history of dictionary_set / dictionary_unset, dictionary_get on the
   arrays returns what dict_get returns on the map - across every growth step.  The invariant that carries the proof is
   "the stored hash of every slot in use is the hash of its key" (the search compares the stored hash first) together with
   "d->n counts the slots in use"; growth must keep every (key, value, hash) triple. *)
From Coq Require Import ZArith List Bool Lia.
From ScV Require Import Base.CInt C17.OptionsModel C17.IniProofs C17.DictModel.
Import ListNotations.
Local Open Scope Z_scope.

(* ---------- lists ---------- *)
Lemma upd_length l i c : (i < length l)%nat -> length (upd l i c) = length l.
Proof.
  intros H. unfold upd. rewrite app_length, firstn_length. cbn [length]. rewrite skipn_length. lia.
Qed.

Lemma upd_split l i c : (i < length l)%nat ->
  exists a x b, l = a ++ x :: b /\ length a = i /\ upd l i c = a ++ c :: b /\ nth i l empty_cell = x.
Proof.
  intros H. exists (firstn i l), (nth i l empty_cell), (skipn (S i) l).
  assert (E : skipn i l = nth i l empty_cell :: skipn (S i) l).
  { clear c. revert i H. induction l as [|y r IH]; intros i H; [cbn in H; lia|].
    destruct i; [reflexivity|]. cbn [skipn nth]. apply IH. cbn in H. lia. }
  repeat split.
  - rewrite <- E. symmetry. apply firstn_skipn.
  - rewrite firstn_length. lia.
Qed.

Lemma nth_skipn_c n : forall (l : list cell) i, nth i (skipn n l) empty_cell = nth (n + i) l empty_cell.
Proof.
  induction n as [|n IH]; intros l i; [reflexivity|]. destruct l as [|c r]; [destruct i; reflexivity|]. cbn [skipn plus nth]. apply IH.
Qed.

Lemma upd_cons_0 c r x : upd (c :: r) 0 x = x :: r.
Proof. reflexivity. Qed.
Lemma upd_cons_S c r j x : upd (c :: r) (S j) x = c :: upd r j x.
Proof. reflexivity. Qed.

(* ---------- growth keeps every triple when every array is copied in full ---------- *)
Lemma grow_cells_full l : grow_cells (length l) (length l) (length l) l (2 * length l) = l ++ repeat empty_cell (length l).
Proof.
  apply (nth_ext _ _ empty_cell empty_cell).
  - unfold grow_cells. rewrite map_length, seq_length, app_length, repeat_length. lia.
  - intros i Hi. unfold grow_cells in *. rewrite map_length, seq_length in Hi.
    match goal with |- nth i (map ?g _) _ = _ => set (f := g) end.
    rewrite (nth_indep _ empty_cell (f 0%nat)) by (rewrite map_length, seq_length; exact Hi).
    rewrite map_nth. rewrite seq_nth by exact Hi. cbn [plus]. subst f. cbv beta zeta.
    destruct (Nat.ltb_spec i (length l)) as [Hl|Hl].
    + rewrite app_nth1 by exact Hl. destruct (nth i l empty_cell) as [[k v] h]. reflexivity.
    + rewrite app_nth2 by exact Hl. rewrite nth_repeat. reflexivity.
Qed.

Lemma copied_full n esz : 0 < esz -> copied (Z.of_nat n * esz) esz = n.
Proof. intros H. unfold copied. rewrite Z.div_mul by lia. apply Nat2Z.id. Qed.

Lemma adict_grow_cells d : ad_cells (adict_grow d) = ad_cells d ++ repeat empty_cell (length (ad_cells d)).
Proof.
  unfold adict_grow, adict_grow_with, grow_bytes_val, grow_bytes_key, grow_bytes_hash, grow_size, ad_size. cbn [ad_cells].
  rewrite !copied_full by (unfold ESZ_VAL, ESZ_KEY, ESZ_HASH; lia).
  replace (Z.to_nat (2 * Z.of_nat (length (ad_cells d)))) with (2 * length (ad_cells d))%nat by lia.
  apply grow_cells_full.
Qed.

(* ---------- the abstraction ---------- *)
Lemma abs_cells_app a b : abs_cells (a ++ b) = abs_cells a ++ abs_cells b.
Proof.
  induction a as [|c r IH]; [reflexivity|]. cbn [app abs_cells]. destruct (c_key c); [cbn [app]; f_equal|]; exact IH.
Qed.

Lemma abs_cells_empty n : abs_cells (repeat empty_cell n) = [].
Proof. induction n as [|n IH]; [reflexivity|]. cbn [repeat abs_cells]. exact IH. Qed.

Fixpoint count_occ (l : list cell) : nat :=
  match l with [] => O | c :: r => if occupied c then S (count_occ r) else count_occ r end.

Lemma count_occ_app a b : count_occ (a ++ b) = (count_occ a + count_occ b)%nat.
Proof. induction a as [|c r IH]; [reflexivity|]. cbn [app count_occ]. destruct (occupied c); cbn; rewrite IH; reflexivity. Qed.

Lemma count_occ_empty n : count_occ (repeat empty_cell n) = O.
Proof. induction n as [|n IH]; [reflexivity|]. cbn [repeat count_occ]. exact IH. Qed.

Lemma count_occ_le l : (count_occ l <= length l)%nat.
Proof. induction l as [|c r IH]; [cbn; lia|]. cbn [count_occ length]. destruct (occupied c); lia. Qed.

Section Hash.
Variable hash : str -> Z.

Definition consistent (c : cell) : Prop := match c_key c with Some k => c_hash c = hash k | None => True end.

Record ad_inv (d : adict) : Prop := {
  inv_hash : Forall consistent (ad_cells d);
  inv_n : ad_n d = Z.of_nat (count_occ (ad_cells d));
  inv_size : (0 < length (ad_cells d))%nat
}.

(* ---------- the search: with consistent hashes it finds the first slot holding the key ---------- *)
Lemma find_cell_shift k h l : forall i, find_cell k h l (S i) = option_map S (find_cell k h l i).
Proof.
  induction l as [|c r IH]; intros i; [reflexivity|]. cbn [find_cell]. destruct (cell_match k h c); [reflexivity|]. apply IH.
Qed.

Lemma find_cell_bound k h l : forall i j, find_cell k h l i = Some j -> (i <= j < i + length l)%nat.
Proof.
  induction l as [|c r IH]; intros i j H; [discriminate H|]. cbn [find_cell] in H. cbn [length].
  destruct (cell_match k h c); [injection H as <-; lia|]. apply IH in H. lia.
Qed.

(* get on the arrays = get on the abstraction *)
Lemma get_abs l k : Forall consistent l ->
  match find_cell k (hash k) l 0 with Some i => Some (c_val (nth i l empty_cell)) | None => None end = dict_get (abs_cells l) k.
Proof.
  induction l as [|c r IH]; intros Hc; [reflexivity|].
  inversion Hc as [|c' r' Hc1 Hc2]; subst. cbn [find_cell abs_cells]. unfold cell_match. unfold consistent in Hc1.
  destruct (c_key c) as [k'|] eqn:Ek.
  - cbn [dict_get]. destruct (str_eqb k k') eqn:E.
    + apply str_eqb_eq in E. subst k'. rewrite Hc1, Z.eqb_refl. reflexivity.
    + rewrite andb_false_r. rewrite find_cell_shift. specialize (IH Hc2).
      destruct (find_cell k (hash k) r 0) as [i|]; cbn [option_map nth]; exact IH.
  - rewrite find_cell_shift. specialize (IH Hc2). destruct (find_cell k (hash k) r 0) as [i|]; cbn [option_map nth]; exact IH.
Qed.

Lemma adict_get_abs d k : ad_inv d -> adict_get hash d k = dict_get (abs_cells (ad_cells d)) k.
Proof. intros [H _ _]. unfold adict_get, adict_find. apply get_abs. exact H. Qed.

Lemma find_none_abs l k : Forall consistent l -> find_cell k (hash k) l 0 = None -> dict_get (abs_cells l) k = None.
Proof. intros Hc H. rewrite <- (get_abs l k Hc), H. reflexivity. Qed.

(* a found key: replacing the value in its slot is dict_set on the abstraction *)
Lemma replace_abs l k v : Forall consistent l -> forall i, find_cell k (hash k) l 0 = Some i ->
  let c := nth i l empty_cell in
  abs_cells (upd l i (c_key c, v, c_hash c)) = dict_set (abs_cells l) k v /\ Forall consistent (upd l i (c_key c, v, c_hash c))
  /\ count_occ (upd l i (c_key c, v, c_hash c)) = count_occ l.
Proof.
  induction l as [|c r IH]; intros Hc i H; [discriminate H|].
  inversion Hc as [|c' r' Hc1 Hc2]; subst. cbn [find_cell] in H. unfold cell_match in H.
  destruct (c_key c) as [k'|] eqn:Ek.
  - destruct ((hash k =? c_hash c) && str_eqb k k') eqn:E.
    + injection H as <-. cbn [nth]. rewrite upd_cons_0. apply andb_true_iff in E. destruct E as [_ E].
      cbn [abs_cells c_key c_val c_hash fst snd]. fold (c_key c). rewrite Ek. cbn [dict_set]. rewrite E.
      apply str_eqb_eq in E. subst k'. repeat split.
      * constructor; [|exact Hc2]. unfold consistent in *. cbn [c_key c_hash fst snd]. fold (c_hash c). rewrite Ek in Hc1. exact Hc1.
      * cbn [count_occ]. unfold occupied. cbn [c_key fst snd]. rewrite Ek. reflexivity.
    + rewrite find_cell_shift in H. destruct (find_cell k (hash k) r 0) as [j|] eqn:Ej; [|discriminate H].
      injection H as <-. cbn [nth]. specialize (IH Hc2 j eq_refl). cbv zeta in IH. destruct IH as (I1 & I2 & I3).
      rewrite upd_cons_S. cbn [abs_cells]. rewrite Ek. cbn [dict_set].
      assert (Es : str_eqb k k' = false).
      { destruct (str_eqb k k') eqn:Es; [|reflexivity]. apply str_eqb_eq in Es. subst k'.
        unfold consistent in Hc1. rewrite Ek in Hc1. rewrite Hc1, Z.eqb_refl in E. discriminate E. }
      rewrite Es. rewrite I1. repeat split.
      * constructor; assumption.
      * cbn [count_occ]. rewrite I3. reflexivity.
  - rewrite find_cell_shift in H. destruct (find_cell k (hash k) r 0) as [j|] eqn:Ej; [|discriminate H].
    injection H as <-. cbn [nth]. specialize (IH Hc2 j eq_refl). cbv zeta in IH. destruct IH as (I1 & I2 & I3).
    rewrite upd_cons_S. cbn [abs_cells]. rewrite Ek. rewrite I1. repeat split.
    + constructor; assumption.
    + cbn [count_occ]. rewrite I3. reflexivity.
Qed.

(* ---------- the insertion loop ---------- *)
Lemma first_free_spec l : forall i j, first_free l i = Some j ->
  (i <= j < i + length l)%nat /\ occupied (nth (j - i) l empty_cell) = false.
Proof.
  induction l as [|c r IH]; intros i j H; [discriminate H|]. cbn [first_free] in H. cbn [length].
  destruct (occupied c) eqn:Eo.
  - apply IH in H. destruct H as [H1 H2]. split; [lia|]. replace (j - i)%nat with (S (j - S i)) by lia. exact H2.
  - injection H as <-. split; [lia|]. rewrite Nat.sub_diag. exact Eo.
Qed.

Lemma first_free_none l : forall i, first_free l i = None -> count_occ l = length l.
Proof.
  induction l as [|c r IH]; intros i H; [reflexivity|]. cbn [first_free] in H. cbn [count_occ length].
  destruct (occupied c); [|discriminate H]. f_equal. apply (IH _ H).
Qed.

Lemma free_slot_spec l n : (count_occ l < length l)%nat ->
  exists j, free_slot l n = Some j /\ (j < length l)%nat /\ occupied (nth j l empty_cell) = false.
Proof.
  intros Hlt. unfold free_slot. destruct (first_free (skipn n l) n) as [j|] eqn:E.
  - exists j. apply first_free_spec in E. destruct E as [E1 E2]. rewrite skipn_length in E1. split; [reflexivity|].
    split; [lia|]. rewrite nth_skipn_c in E2. replace (n + (j - n))%nat with j in E2 by lia. exact E2.
  - destruct (first_free l 0) as [j|] eqn:E0.
    + exists j. apply first_free_spec in E0. destruct E0 as [E1 E2]. rewrite Nat.sub_0_r in E2. split; [reflexivity|]. split; [lia|exact E2].
    + apply first_free_none in E0. lia.
Qed.

(* a new key in a free slot: the abstraction gets the pair somewhere; get cannot tell where *)
Lemma insert_abs a c b k v : occupied c = false ->
  abs_cells (@app cell a (@cons cell (Some k, v, hash k) b)) = abs_cells a ++ (k, v) :: abs_cells b /\
  abs_cells (@app cell a (@cons cell c b)) = abs_cells a ++ abs_cells b.
Proof.
  intros Ho. rewrite !abs_cells_app. cbn [abs_cells]. unfold occupied in Ho. unfold c_key at 1. cbn [fst snd].
  destruct (c_key c); [discriminate Ho|]. split; reflexivity.
Qed.

Lemma dict_get_app a b k : dict_get (a ++ b) k = match dict_get a k with Some x => Some x | None => dict_get b k end.
Proof.
  induction a as [|[k' v'] r IH]; [reflexivity|]. cbn [app dict_get]. destruct (str_eqb k k'); [reflexivity|]. exact IH.
Qed.

Lemma dict_get_insert a b k v k' : dict_get (a ++ b) k = None ->
  dict_get (a ++ (k, v) :: b) k' = if str_eqb k' k then Some v else dict_get (a ++ b) k'.
Proof.
  intros Hn. rewrite !dict_get_app. rewrite dict_get_app in Hn. cbn [dict_get].
  destruct (str_eqb k' k) eqn:E.
  - apply str_eqb_eq in E. subst k'. destruct (dict_get a k); [discriminate Hn|]. reflexivity.
  - reflexivity.
Qed.

(* ---------- the finite map: equivalence is kept by set and unset as long as keys are not repeated ---------- *)
Definition keys_nodup (m : dict) : Prop := NoDup (map fst m).

Lemma dict_get_none_notin m k : dict_get m k = None <-> ~ In k (map fst m).
Proof.
  induction m as [|[k' v'] r IH]; [cbn; tauto|]. cbn [dict_get map fst In]. destruct (str_eqb k k') eqn:E.
  - apply str_eqb_eq in E. subst k'. split; [discriminate|]. intros H. exfalso. apply H. left. reflexivity.
  - rewrite IH. split; [intros H [H1|H1]; [subst k'; rewrite str_eqb_refl in E; discriminate E|exact (H H1)]|intros H H1; apply H; right; exact H1].
Qed.

Lemma dict_set_keys m k v : dict_get m k = None -> map fst (dict_set m k v) = map fst m ++ [k].
Proof.
  induction m as [|[k' v'] r IH]; intros H; [reflexivity|]. cbn [dict_get] in H. cbn [dict_set].
  destruct (str_eqb k k'); [discriminate H|]. cbn [map fst app]. f_equal. apply IH. exact H.
Qed.

Lemma dict_set_keys_found m k v x : dict_get m k = Some x -> map fst (dict_set m k v) = map fst m.
Proof.
  induction m as [|[k' v'] r IH]; intros H; [discriminate H|]. cbn [dict_get] in H. cbn [dict_set].
  destruct (str_eqb k k') eqn:E.
  - apply str_eqb_eq in E. subst k'. reflexivity.
  - cbn [map fst]. f_equal. apply IH. exact H.
Qed.

Lemma keys_nodup_set m k v : keys_nodup m -> keys_nodup (dict_set m k v).
Proof.
  unfold keys_nodup. intros H. destruct (dict_get m k) as [x|] eqn:E.
  - rewrite (dict_set_keys_found m k v x E). exact H.
  - rewrite (dict_set_keys m k v E). rewrite <- (app_nil_r (map fst m)) in H.
    apply (NoDup_Add (Add_app k (map fst m) [])). split; [exact H|]. rewrite app_nil_r. apply dict_get_none_notin. exact E.
Qed.

Lemma dict_unset_keys_incl m k : forall x, In x (map fst (dict_unset m k)) -> In x (map fst m).
Proof.
  induction m as [|[k' v'] r IH]; intros x H; [exact H|]. cbn [dict_unset] in H. destruct (str_eqb k k').
  - right. exact H.
  - cbn [map fst In] in *. destruct H as [H|H]; [left; exact H|right; apply IH; exact H].
Qed.

Lemma keys_nodup_unset m k : keys_nodup m -> keys_nodup (dict_unset m k).
Proof.
  unfold keys_nodup. induction m as [|[k' v'] r IH]; intros H; [exact H|]. cbn [dict_unset]. inversion H as [|x l Hx Hl]; subst.
  destruct (str_eqb k k'); [exact Hl|]. cbn [map fst]. constructor; [|apply IH; exact Hl].
  intros Hin. apply Hx. apply (dict_unset_keys_incl r k). exact Hin.
Qed.

Lemma dict_get_unset m k k' : keys_nodup m -> dict_get (dict_unset m k) k' = if str_eqb k' k then None else dict_get m k'.
Proof.
  unfold keys_nodup. induction m as [|[k1 v1] r IH]; intros H; [cbn; destruct (str_eqb k' k); reflexivity|].
  inversion H as [|x l Hx Hl]; subst. cbn [dict_unset]. destruct (str_eqb k k1) eqn:E.
  - apply str_eqb_eq in E. subst k1. cbn [dict_get]. destruct (str_eqb k' k) eqn:E2; [|reflexivity].
    apply str_eqb_eq in E2. subst k'. apply dict_get_none_notin. exact Hx.
  - cbn [dict_get]. destruct (str_eqb k' k1) eqn:E1.
    + apply str_eqb_eq in E1. subst k1. destruct (str_eqb k' k) eqn:E2; [|reflexivity].
      apply str_eqb_eq in E2. subst k'. rewrite str_eqb_refl in E. discriminate E.
    + apply IH. exact Hl.
Qed.

(* ---------- dictionary_set ---------- *)
Definition dict_equiv (a b : dict) : Prop := forall k, dict_get a k = dict_get b k.

Lemma keys_nodup_insert a b k v : keys_nodup (a ++ b) -> dict_get (a ++ b) k = None -> keys_nodup (a ++ (k, v) :: b).
Proof.
  unfold keys_nodup. intros H Hn. rewrite map_app. cbn [map fst]. rewrite map_app in H.
  apply (NoDup_Add (Add_app k (map fst a) (map fst b))). split; [exact H|].
  rewrite <- map_app. apply dict_get_none_notin. exact Hn.
Qed.

Lemma set_step d k v : ad_inv d ->
  ad_inv (adict_set hash d k v) /\
  (forall k', dict_get (abs_cells (ad_cells (adict_set hash d k v))) k' = if str_eqb k' k then Some v else dict_get (abs_cells (ad_cells d)) k') /\
  (keys_nodup (abs_cells (ad_cells d)) -> keys_nodup (abs_cells (ad_cells (adict_set hash d k v)))).
Proof.
  intros [Hc Hn Hs]. unfold adict_set, adict_set_with.
  assert (Hfind : (if 0 <? ad_n d then find_cell k (hash k) (ad_cells d) 0 else None) = find_cell k (hash k) (ad_cells d) 0).
  { destruct (Z.ltb_spec 0 (ad_n d)) as [|Hz]; [reflexivity|].
    (* d->n = 0: no slot is in use, the search finds nothing *)
    assert (Hz0 : count_occ (ad_cells d) = O) by lia. clear - Hz0.
    generalize 0%nat as i. induction (ad_cells d) as [|c r IH]; intros i; [reflexivity|]. cbn [find_cell count_occ] in *.
    unfold cell_match. unfold occupied in Hz0. destruct (c_key c); [discriminate Hz0|]. symmetry. rewrite <- (IH Hz0 (S i)). reflexivity. }
  rewrite Hfind. destruct (find_cell k (hash k) (ad_cells d) 0) as [i|] eqn:Ef.
  - (* replace *)
    destruct (replace_abs (ad_cells d) k v Hc i Ef) as (R1 & R2 & R3). cbv zeta in R1, R2, R3. cbn [ad_cells ad_n]. split.
    + constructor; cbn [ad_cells ad_n]; [exact R2|rewrite R3; exact Hn|].
      apply find_cell_bound in Ef. rewrite upd_length by lia. exact Hs.
    + split; [intros k'; rewrite R1; apply dict_get_set|]. intros Hk. rewrite R1. apply keys_nodup_set. exact Hk.
  - (* insert, after growth if the arrays are full *)
    set (d1 := if ad_n d =? ad_size d then adict_grow d else d).
    assert (H1 : ad_n d1 = ad_n d /\ abs_cells (ad_cells d1) = abs_cells (ad_cells d) /\ Forall consistent (ad_cells d1)
                 /\ count_occ (ad_cells d1) = count_occ (ad_cells d) /\ (count_occ (ad_cells d1) < length (ad_cells d1))%nat).
    { unfold d1. destruct (Z.eqb_spec (ad_n d) (ad_size d)) as [Efull|Enf].
      - rewrite adict_grow_cells. unfold adict_grow, adict_grow_with. cbn [ad_n]. split; [reflexivity|].
        rewrite abs_cells_app, abs_cells_empty, app_nil_r. split; [reflexivity|]. split.
        + apply Forall_app. split; [exact Hc|]. apply Forall_forall. intros c Hin. apply repeat_spec in Hin. subst c. exact I.
        + rewrite count_occ_app, count_occ_empty, app_length, repeat_length. split; [lia|]. pose proof (count_occ_le (ad_cells d)). lia.
      - split; [reflexivity|]. split; [reflexivity|]. split; [exact Hc|]. split; [reflexivity|].
        unfold ad_size in Enf. pose proof (count_occ_le (ad_cells d)). lia. }
    destruct H1 as (N1 & A1 & C1 & O1 & L1).
    destruct (free_slot_spec (ad_cells d1) (Z.to_nat (ad_n d1)) L1) as (j & Ej & Lj & Oj). rewrite Ej.
    destruct (upd_split (ad_cells d1) j (Some k, v, hash k) Lj) as (a & x & b & El & La & Eu & Ex). rewrite Ex in Oj.
    cbn [ad_cells ad_n]. rewrite Eu.
    destruct (insert_abs a x b k v Oj) as [I1 I2]. split.
    + constructor; cbn [ad_cells ad_n].
      * rewrite El in C1. apply Forall_app in C1. destruct C1 as [Ca Cb]. inversion Cb; subst. apply Forall_app. split; [exact Ca|].
        constructor; [|assumption]. unfold consistent, c_key, c_hash. cbn [fst snd]. reflexivity.
      * rewrite N1, Hn, <- O1, El. rewrite !count_occ_app. cbn [count_occ]. rewrite Oj. unfold occupied, c_key. cbn [fst snd]. lia.
      * rewrite app_length. cbn [length]. lia.
    + assert (A2 : abs_cells (ad_cells d) = abs_cells a ++ abs_cells b) by (rewrite <- A1, El; exact I2).
      assert (Hnone : dict_get (abs_cells a ++ abs_cells b) k = None).
      { rewrite <- A2. apply find_none_abs; assumption. }
      split.
      * intros k'. rewrite I1, A2. apply dict_get_insert. exact Hnone.
      * intros Hk. rewrite I1. apply keys_nodup_insert; [rewrite <- A2; exact Hk|exact Hnone].
Qed.

(* ---------- dictionary_unset ---------- *)
Lemma unset_abs l k : Forall consistent l -> forall i, find_cell k (hash k) l 0 = Some i ->
  abs_cells (upd l i empty_cell) = dict_unset (abs_cells l) k /\ Forall consistent (upd l i empty_cell)
  /\ S (count_occ (upd l i empty_cell)) = count_occ l.
Proof.
  induction l as [|c r IH]; intros Hc i H; [discriminate H|].
  inversion Hc as [|c' r' Hc1 Hc2]; subst. cbn [find_cell] in H. unfold cell_match in H.
  destruct (c_key c) as [k'|] eqn:Ek.
  - destruct ((hash k =? c_hash c) && str_eqb k k') eqn:E.
    + injection H as <-. rewrite upd_cons_0. apply andb_true_iff in E. destruct E as [_ E].
      cbn [abs_cells]. rewrite Ek. cbn [c_key empty_cell fst snd dict_unset]. rewrite E. repeat split.
      * constructor; [exact I|exact Hc2].
      * cbn [count_occ]. unfold occupied. rewrite Ek. reflexivity.
    + rewrite find_cell_shift in H. destruct (find_cell k (hash k) r 0) as [j|] eqn:Ej; [|discriminate H].
      injection H as <-. specialize (IH Hc2 j eq_refl). destruct IH as (I1 & I2 & I3).
      rewrite upd_cons_S. cbn [abs_cells]. rewrite Ek. cbn [dict_unset].
      assert (Es : str_eqb k k' = false).
      { destruct (str_eqb k k') eqn:Es; [|reflexivity]. apply str_eqb_eq in Es. subst k'.
        unfold consistent in Hc1. rewrite Ek in Hc1. rewrite Hc1, Z.eqb_refl in E. discriminate E. }
      rewrite Es, I1. repeat split.
      * constructor; assumption.
      * cbn [count_occ]. unfold occupied. rewrite Ek. rewrite <- I3. reflexivity.
  - rewrite find_cell_shift in H. destruct (find_cell k (hash k) r 0) as [j|] eqn:Ej; [|discriminate H].
    injection H as <-. specialize (IH Hc2 j eq_refl). destruct IH as (I1 & I2 & I3).
    rewrite upd_cons_S. cbn [abs_cells]. rewrite Ek, I1. repeat split.
    + constructor; assumption.
    + cbn [count_occ]. unfold occupied. rewrite Ek. exact I3.
Qed.

Lemma dict_unset_none m k : dict_get m k = None -> dict_unset m k = m.
Proof.
  induction m as [|[k' v'] r IH]; intros H; [reflexivity|]. cbn [dict_get] in H. cbn [dict_unset].
  destruct (str_eqb k k'); [discriminate H|]. f_equal. apply IH. exact H.
Qed.

Lemma unset_step d k : ad_inv d ->
  ad_inv (adict_unset hash d k) /\ abs_cells (ad_cells (adict_unset hash d k)) = dict_unset (abs_cells (ad_cells d)) k.
Proof.
  intros [Hc Hn Hs]. unfold adict_unset, adict_find. destruct (find_cell k (hash k) (ad_cells d) 0) as [i|] eqn:Ef.
  - destruct (unset_abs (ad_cells d) k Hc i Ef) as (U1 & U2 & U3). cbn [ad_cells ad_n]. split; [|exact U1].
    constructor; cbn [ad_cells ad_n]; [exact U2|lia|]. apply find_cell_bound in Ef. rewrite upd_length by lia. exact Hs.
  - split; [constructor; assumption|]. symmetry. apply dict_unset_none. apply find_none_abs; assumption.
Qed.

(* ---------- histories ---------- *)
Lemma new_inv size : ad_inv (adict_new size) /\ abs_cells (ad_cells (adict_new size)) = [].
Proof.
  unfold adict_new, new_size, DICTMINSZ. cbn [ad_cells ad_n]. split; [|apply abs_cells_empty].
  constructor; cbn [ad_cells ad_n].
  - apply Forall_forall. intros c Hin. apply repeat_spec in Hin. subst c. exact I.
  - rewrite count_occ_empty. reflexivity.
  - rewrite repeat_length. destruct (size <? 128) eqn:E; [lia|]. apply Z.ltb_ge in E. lia.
Qed.

Lemma run_refines ops : forall d m, ad_inv d -> keys_nodup m -> keys_nodup (abs_cells (ad_cells d)) -> dict_equiv (abs_cells (ad_cells d)) m ->
  ad_inv (arun hash ops d) /\ dict_equiv (abs_cells (ad_cells (arun hash ops d))) (mrun ops m).
Proof.
  induction ops as [|o ops IH]; intros d m Hi Hm Ha He; [cbn; auto|].
  cbn [arun mrun fold_left]. fold (arun hash ops (astep hash d o)). fold (mrun ops (mstep m o)).
  destruct o as [k v|k]; cbn [astep mstep].
  - destruct (set_step d k v Hi) as (Hi' & Hg & Hk). apply IH; [exact Hi'|apply keys_nodup_set; exact Hm|exact (Hk Ha)|].
    intros k'. rewrite Hg, dict_get_set, (He k'). reflexivity.
  - destruct (unset_step d k Hi) as [Hi' Hu]. apply IH; [exact Hi'|apply keys_nodup_unset; exact Hm|rewrite Hu; apply keys_nodup_unset; exact Ha|].
    intros k'. rewrite Hu, !dict_get_unset by assumption. rewrite (He k'). reflexivity.
Qed.

(* THE refinement: every history of dictionary_set / dictionary_unset from dictionary_new (size), then dictionary_get of any key *)
Theorem dict_refines_map size ops k : adict_get hash (arun hash ops (adict_new size)) k = dict_get (mrun ops []) k.
Proof.
  destruct (new_inv size) as [Hi Ha].
  destruct (run_refines ops (adict_new size) [] Hi) as [Hi' He].
  - constructor.
  - rewrite Ha. constructor.
  - rewrite Ha. intros k'. reflexivity.
  - rewrite adict_get_abs by exact Hi'. apply He.
Qed.

End Hash.

(* one step of dictionary_set seen through dictionary_get *)
Theorem set_get_step (hash : str -> Z) d k v : ad_inv hash d ->
  ad_inv hash (adict_set hash d k v) /\
  forall k', adict_get hash (adict_set hash d k v) k' = if str_eqb k' k then Some v else adict_get hash d k'.
Proof.
  intros Hi. destruct (set_step hash d k v Hi) as (H1 & H2 & _). split; [exact H1|].
  intros k'. rewrite !adict_get_abs by assumption. apply H2.
Qed.

(* ---------- growth: every (key, value, hash) triple stays where it was, the new half is empty ---------- *)
Theorem grow_keeps_triples d i : (i < length (ad_cells d))%nat ->
  nth i (ad_cells (adict_grow d)) empty_cell = nth i (ad_cells d) empty_cell /\
  length (ad_cells (adict_grow d)) = (2 * length (ad_cells d))%nat /\ ad_n (adict_grow d) = ad_n d.
Proof.
  intros H. rewrite adict_grow_cells. rewrite app_nth1 by exact H. rewrite app_length, repeat_length. repeat split. lia.
Qed.

(* ---------- regression guard: a growth step that carries over only a quarter of the hash array (d->size bytes instead of
   d->size * sizeof (unsigned)) loses entries: after 129 insertions the key of slot 40 is no longer found ---------- *)
Definition grow_short_hash (d : adict) : adict :=
  adict_grow_with (grow_bytes_val (ad_size d)) (grow_bytes_key (ad_size d)) (ad_size d * 1) d.
Definition wkey (i : Z) : str := [107; 48 + i / 100; 48 + (i / 10) mod 10; 48 + i mod 10].
Definition wfill (grow : adict -> adict) (n : nat) : adict :=
  fold_left (fun d i => adict_set_with dictionary_hash grow d (wkey (Z.of_nat i)) (Some [118; 48 + Z.of_nat i mod 10])) (seq 0 n) (adict_new 0).

Lemma short_hash_copy_refuted :
  adict_get dictionary_hash (wfill grow_short_hash 129) (wkey 40) = None /\
  adict_get dictionary_hash (wfill grow_short_hash 128) (wkey 40) = Some (Some [118; 48]) /\
  adict_get dictionary_hash (wfill adict_grow 129) (wkey 40) = Some (Some [118; 48]) /\
  adict_get dictionary_hash (wfill grow_short_hash 129) (wkey 20) = Some (Some [118; 48]).
Proof. vm_compute. repeat split. Qed.
