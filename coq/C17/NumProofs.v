(* C17 - numeric conversion: strtol (text, NULL, 0) of the model returns the integer the text denotes,
   flags exactly the texts whose value does not fit a long, and "%d"/"%llu" text is read back exactly. *)
From Coq Require Import ZArith List Bool Lia.
From ScV Require Import Base.CInt C17.OptionsModel.
Import ListNotations.
Local Open Scope Z_scope.

Definition horner (base acc : Z) (ds : str) : Z := fold_left (fun a c => a * base + digit_val c) ds acc.

Definition is_digit (base c : Z) : Prop := 0 <= digit_val c < base.
(* the text stops being a numeral here: end of text, or a character that is not a digit of the base *)
Definition stops (base : Z) (rest : str) : Prop :=
  match rest with [] => True | c :: _ => base <= digit_val c end.

Lemma digit_val_nonneg c : 0 <= c -> 0 <= digit_val c.
Proof.
  intros Hc. unfold digit_val.
  destruct ((48 <=? c) && (c <=? 57)) eqn:E1; [lia|].
  destruct ((97 <=? c) && (c <=? 122)) eqn:E2; [lia|].
  destruct ((65 <=? c) && (c <=? 90)) eqn:E3; lia.
Qed.

Lemma digit_val_dec d : 0 <= d <= 9 -> digit_val (48 + d) = d.
Proof. intros H. unfold digit_val. replace ((48 <=? 48 + d) && (48 + d <=? 57)) with true by lia. lia. Qed.

Lemma acc_digits_app base acc ds rest :
  Forall (is_digit base) ds -> acc_digits base acc (ds ++ rest) = acc_digits base (horner base acc ds) rest.
Proof.
  intros H. revert acc. induction H as [|c ds Hc _ IH]; intros acc; [reflexivity|].
  cbn [app acc_digits horner fold_left]. unfold is_digit in Hc.
  replace (digit_val c <? base) with true by lia. apply IH.
Qed.

Lemma acc_digits_stop base acc rest : stops base rest -> acc_digits base acc rest = acc.
Proof. destruct rest as [|c r]; [reflexivity|]. cbn. intros H. replace (digit_val c <? base) with false by lia. reflexivity. Qed.

Lemma horner_app base acc a b : horner base acc (a ++ b) = horner base (horner base acc a) b.
Proof. unfold horner. apply fold_left_app. Qed.

(* the value of a numeral: digits of the base followed by a stop *)
Theorem acc_digits_value base ds rest :
  Forall (is_digit base) ds -> stops base rest -> acc_digits base 0 (ds ++ rest) = horner base 0 ds.
Proof. intros H1 H2. rewrite acc_digits_app by exact H1. apply acc_digits_stop. exact H2. Qed.

(* ---- decimal text ---- *)
Lemma print_u_spec fuel : forall n, 0 <= n < 2 ^ Z.of_nat fuel ->
  horner 10 0 (print_u fuel n) = n /\ Forall (is_digit 10) (print_u fuel n).
Proof.
  induction fuel as [|f IH]; intros n Hn.
  - cbn in *. assert (n = 0) by lia. subst. split; [reflexivity|constructor].
  - cbn [print_u]. destruct (n <? 10) eqn:E.
    + assert (0 <= n <= 9) by lia. split.
      * unfold horner. cbn [fold_left]. unfold c0. rewrite digit_val_dec by lia. lia.
      * constructor; [|constructor]. unfold is_digit, c0. rewrite digit_val_dec by lia. lia.
    + assert (Hq : 0 <= n / 10 < 2 ^ Z.of_nat f).
      { rewrite Nat2Z.inj_succ, Z.pow_succ_r in Hn by lia. split; [apply Z.div_pos; lia|].
        apply Z.div_lt_upper_bound; lia. }
      destruct (IH _ Hq) as [H1 H2]. split.
      * rewrite horner_app, H1. unfold horner. cbn [fold_left]. unfold c0.
        rewrite digit_val_dec by (pose proof (Z.mod_pos_bound n 10); lia).
        pose proof (Z.div_mod n 10). lia.
      * apply Forall_app. split; [exact H2|]. constructor; [|constructor]. unfold is_digit, c0.
        rewrite digit_val_dec by (pose proof (Z.mod_pos_bound n 10); lia).
        pose proof (Z.mod_pos_bound n 10). lia.
Qed.

Lemma print_u_head fuel : forall n, 0 < n < 2 ^ Z.of_nat fuel ->
  exists d r, print_u fuel n = (48 + d) :: r /\ 1 <= d <= 9.
Proof.
  induction fuel as [|f IH]; intros n Hn.
  - cbn in Hn. lia.
  - cbn [print_u]. destruct (n <? 10) eqn:E.
    + exists n, []. unfold c0. split; [reflexivity|lia].
    + assert (Hq : 0 < n / 10 < 2 ^ Z.of_nat f).
      { rewrite Nat2Z.inj_succ, Z.pow_succ_r in Hn by lia. split; [apply Z.div_str_pos; lia|].
        apply Z.div_lt_upper_bound; lia. }
      destruct (IH _ Hq) as (d & r & Hr & Hd). exists d, (r ++ [c0 + n mod 10]). rewrite Hr. split; [reflexivity|exact Hd].
Qed.

Lemma udec_fuel n : 0 <= n -> 0 <= n < 2 ^ Z.of_nat (S (Z.to_nat (Z.log2 n))).
Proof.
  intros H. split; [exact H|]. rewrite Nat2Z.inj_succ, Z2Nat.id by apply Z.log2_nonneg.
  destruct (Z.eq_dec n 0) as [->|Hn]; [reflexivity|]. apply Z.log2_spec. lia.
Qed.

Lemma print_udec_spec n : 0 <= n -> horner 10 0 (print_udec n) = n /\ Forall (is_digit 10) (print_udec n).
Proof. intros H. apply print_u_spec. apply udec_fuel. exact H. Qed.

Lemma print_udec_head n : 0 < n -> exists d r, print_udec n = (48 + d) :: r /\ 1 <= d <= 9.
Proof. intros H. apply print_u_head. pose proof (udec_fuel n). lia. Qed.

Lemma print_udec_0 : print_udec 0 = [48].
Proof. reflexivity. Qed.

Lemma is_space_digit d : 1 <= d <= 9 -> is_space (48 + d) = false.
Proof. intros H. unfold is_space. lia. Qed.

Lemma split_base_dec d r : 1 <= d <= 9 -> split_base ((48 + d) :: r) = (10, (48 + d) :: r).
Proof.
  intros H. unfold split_base, c0. destruct r as [|x [|h t]]; replace (48 + d =? 48) with false by lia; reflexivity.
Qed.

Lemma strtol_steps s s1 neg s2 base s3 :
  lstrip s = s1 -> split_sign s1 = (neg, s2) -> split_base s2 = (base, s3) ->
  strtol s = clamp_long neg (acc_digits base 0 s3).
Proof. intros H1 H2 H3. unfold strtol. rewrite H1, H2, H3. reflexivity. Qed.

Lemma lstrip_nonspace c r : is_space c = false -> lstrip (c :: r) = c :: r.
Proof. intros H. unfold lstrip. cbn [drop_while]. rewrite H. reflexivity. Qed.

Lemma split_sign_none c r : c <> cMINUS -> c <> cPLUS -> split_sign (c :: r) = (false, c :: r).
Proof.
  intros H1 H2. unfold split_sign. destruct (Z.eqb_spec c cMINUS); [contradiction|].
  destruct (Z.eqb_spec c cPLUS); [contradiction|]. reflexivity.
Qed.

Lemma split_sign_minus r : split_sign (cMINUS :: r) = (true, r).
Proof. reflexivity. Qed.

(* unsigned decimal text, followed by anything that is not a decimal digit or a letter *)
Lemma strtol_udec n rest : 0 <= n -> (match rest with [] => True | c :: _ => digit_val c = 99 end) ->
  strtol (print_udec n ++ rest) = clamp_long false n.
Proof.
  intros Hn Hrest.
  assert (Hstop : forall b, b <= 16 -> stops b rest).
  { intros b Hb. destruct rest; [exact I|]. cbn in *. lia. }
  destruct (Z.eq_dec n 0) as [->|Hnz].
  - rewrite print_udec_0. cbn [app].
    assert (Hb : split_base (48 :: rest) = (8, 48 :: rest)).
    { unfold split_base, c0. destruct rest as [|x [|h t]]; try reflexivity. cbn [Z.eqb].
      cbn in Hrest. replace ((x =? 120) || (x =? 88)) with false; [reflexivity|].
      unfold digit_val in Hrest. destruct (Z.eqb_spec x 120) as [->|]; [discriminate Hrest|].
      destruct (Z.eqb_spec x 88) as [->|]; [discriminate Hrest|]. reflexivity. }
    rewrite (strtol_steps _ _ _ _ _ _ (lstrip_nonspace 48 rest eq_refl) (split_sign_none 48 rest ltac:(discriminate) ltac:(discriminate)) Hb).
    cbn [acc_digits]. change (digit_val 48) with 0. change (0 <? 8) with true. cbv iota.
    change (0 * 8 + 0) with 0. rewrite acc_digits_stop by (apply Hstop; lia). reflexivity.
  - destruct (print_udec_head n) as (d & r & Hr & Hd); [lia|].
    destruct (print_udec_spec n Hn) as [Hv Hdig].
    assert (E : print_udec n ++ rest = (48 + d) :: (r ++ rest)) by (rewrite Hr; reflexivity).
    rewrite E.
    assert (Hm : 48 + d <> cMINUS) by (unfold cMINUS; lia).
    assert (Hp : 48 + d <> cPLUS) by (unfold cPLUS; lia).
    rewrite (strtol_steps _ _ _ _ _ _ (lstrip_nonspace _ (r ++ rest) (is_space_digit d Hd))
               (split_sign_none _ _ Hm Hp) (split_base_dec d _ Hd)).
    rewrite <- E. rewrite acc_digits_value; [rewrite Hv; reflexivity|exact Hdig|apply Hstop; lia].
Qed.

Lemma strtol_neg_udec n rest : 0 < n -> (match rest with [] => True | c :: _ => digit_val c = 99 end) ->
  strtol (cMINUS :: print_udec n ++ rest) = clamp_long true n.
Proof.
  intros Hn Hrest.
  assert (Hstop : stops 10 rest).
  { destruct rest; [exact I|]. cbn in *. lia. }
  destruct (print_udec_head n) as (d & r & Hr & Hd); [lia|].
  destruct (print_udec_spec n) as [Hv Hdig]; [lia|].
  assert (E : print_udec n ++ rest = (48 + d) :: (r ++ rest)) by (rewrite Hr; reflexivity).
  rewrite (strtol_steps _ _ _ _ _ _ (lstrip_nonspace cMINUS _ eq_refl) (split_sign_minus _) (eq_trans (f_equal split_base E) (split_base_dec d _ Hd))).
  rewrite <- E. rewrite acc_digits_value; [rewrite Hv; reflexivity|exact Hdig|exact Hstop].
Qed.

(* ---- the text "%d" / "%lld" prints is read back; texts outside long are flagged ---- *)
Theorem strtol_print_dec n rest : (match rest with [] => True | c :: _ => digit_val c = 99 end) ->
  strtol (print_dec n ++ rest) =
  if n <? LONG_MIN then (LONG_MIN, true) else if n >? LONG_MAX then (LONG_MAX, true) else (n, false).
Proof.
  intros Hrest. unfold print_dec. destruct (n <? 0) eqn:E.
  - cbn [app]. rewrite strtol_neg_udec by (lia || exact Hrest). unfold clamp_long, LONG_MIN, LONG_MAX.
    destruct (- n >? - -9223372036854775808) eqn:E1;
      destruct (n <? -9223372036854775808) eqn:E2; destruct (n >? 9223372036854775807) eqn:E3; try lia; try reflexivity.
    f_equal. lia.
  - rewrite strtol_udec by (lia || exact Hrest). unfold clamp_long, LONG_MIN, LONG_MAX.
    destruct (n >? 9223372036854775807) eqn:E1; destruct (n <? -9223372036854775808) eqn:E2; try lia; reflexivity.
Qed.

Corollary strtol_print_dec_fits n : LONG_MIN <= n <= LONG_MAX -> strtol (print_dec n) = (n, false).
Proof.
  intros H. rewrite <- (app_nil_r (print_dec n)). rewrite strtol_print_dec by exact I.
  replace (n <? LONG_MIN) with false by lia. replace (n >? LONG_MAX) with false by lia. reflexivity.
Qed.

(* leading blanks are skipped *)
Lemma strtol_lstrip s : strtol s = strtol (lstrip s).
Proof.
  unfold strtol. f_equal. unfold lstrip.
  induction s as [|c r IH]; [reflexivity|]. cbn [drop_while]. destruct (is_space c) eqn:E; [exact IH|].
  cbn [drop_while]. rewrite E. reflexivity.
Qed.

(* a general numeral: optional sign, then digits of the base selected by the prefix *)
Theorem strtol_hex (neg : bool) (ds rest : str) : ds <> [] -> Forall (is_digit 16) ds -> stops 16 rest ->
  forall x, x = 120 \/ x = 88 ->
  strtol ((if neg then [cMINUS] else []) ++ c0 :: x :: ds ++ rest) = clamp_long neg (horner 16 0 ds).
Proof.
  intros Hne Hds Hrest x Hx. destruct ds as [|h t]; [contradiction|].
  assert (Hh : digit_val h <? 16 = true). { inversion Hds; subst. unfold is_digit in *. lia. }
  assert (Hxx : (x =? 120) || (x =? 88) = true) by (destruct Hx; subst; reflexivity).
  assert (Hb : split_base (c0 :: x :: (h :: t) ++ rest) = (16, (h :: t) ++ rest)).
  { unfold split_base. cbn [app]. change (c0 =? c0) with true. cbv iota. rewrite Hxx, Hh. reflexivity. }
  destruct neg; cbn [app] in *.
  - rewrite (strtol_steps _ _ _ _ _ _ (lstrip_nonspace cMINUS _ eq_refl) (split_sign_minus _) Hb).
    change (h :: t ++ rest) with ((h :: t) ++ rest). rewrite acc_digits_value by assumption. reflexivity.
  - rewrite (strtol_steps _ _ _ _ _ _ (lstrip_nonspace c0 _ eq_refl) (split_sign_none c0 _ ltac:(discriminate) ltac:(discriminate)) Hb).
    change (h :: t ++ rest) with ((h :: t) ++ rest). rewrite acc_digits_value by assumption. reflexivity.
Qed.

Theorem strtol_octal (neg : bool) (ds rest : str) : Forall (is_digit 8) ds -> stops 8 rest ->
  (match ds ++ rest with x :: h :: _ => ((x =? 120) || (x =? 88)) && (digit_val h <? 16) = false | _ => True end) ->
  strtol ((if neg then [cMINUS] else []) ++ c0 :: ds ++ rest) = clamp_long neg (horner 8 0 ds).
Proof.
  intros Hds Hrest Hx.
  assert (Hb : split_base (c0 :: ds ++ rest) = (8, c0 :: ds ++ rest)).
  { unfold split_base. change (c0 =? c0) with true. destruct (ds ++ rest) as [|x [|h t]]; try reflexivity. rewrite Hx. reflexivity. }
  assert (Hv : acc_digits 8 0 (c0 :: ds ++ rest) = horner 8 0 ds).
  { cbn [acc_digits]. change (digit_val c0) with 0. change (0 <? 8) with true. cbv iota. change (0 * 8 + 0) with 0.
    apply acc_digits_value; assumption. }
  destruct neg; cbn [app].
  - rewrite (strtol_steps _ _ _ _ _ _ (lstrip_nonspace cMINUS _ eq_refl) (split_sign_minus _) Hb). rewrite Hv. reflexivity.
  - rewrite (strtol_steps _ _ _ _ _ _ (lstrip_nonspace c0 _ eq_refl) (split_sign_none c0 _ ltac:(discriminate) ltac:(discriminate)) Hb).
    rewrite Hv. reflexivity.
Qed.

(* clamp_long decides exactly "fits a long" *)
Lemma clamp_long_spec (neg : bool) (m : Z) : 0 <= m ->
  let v := if neg then - m else m in
  clamp_long neg m = if v <? LONG_MIN then (LONG_MIN, true) else if v >? LONG_MAX then (LONG_MAX, true) else (v, false).
Proof.
  intros Hm. unfold clamp_long, LONG_MIN, LONG_MAX. destruct neg; cbn zeta.
  - destruct (m >? - -9223372036854775808) eqn:E1; destruct (- m <? -9223372036854775808) eqn:E2;
      destruct (- m >? 9223372036854775807) eqn:E3; try lia; reflexivity.
  - destruct (m >? 9223372036854775807) eqn:E1; destruct (m <? -9223372036854775808) eqn:E2; try lia; reflexivity.
Qed.

(* ---- the conversions of sc_options.c ---- *)
(* sc_iniparser_getint / getsizet on the text "%d" / "%llu" wrote *)
Lemma ini_int_print_dec n : INT_MIN <= n <= INT_MAX -> ini_int (print_dec n) = (n, false).
Proof.
  intros H. unfold ini_int, c_strtol. rewrite strtol_print_dec_fits by (unfold INT_MIN, INT_MAX, LONG_MIN, LONG_MAX in *; lia).
  change (0 =? ERANGE) with false. replace (n <? INT_MIN) with false by lia. replace (n >? INT_MAX) with false by lia. reflexivity.
Qed.

Lemma ini_int_print_dec_out n : n < INT_MIN \/ INT_MAX < n -> snd (ini_int (print_dec n)) = true.
Proof.
  intros H. unfold ini_int, c_strtol. rewrite <- (app_nil_r (print_dec n)), strtol_print_dec by exact I.
  unfold INT_MIN, INT_MAX, LONG_MIN, LONG_MAX, ERANGE in *.
  destruct (n <? -9223372036854775808) eqn:E1; [reflexivity|].
  destruct (n >? 9223372036854775807) eqn:E2; [reflexivity|].
  destruct (n <? -2147483648) eqn:E3; [reflexivity|]. destruct (n >? 2147483647) eqn:E4; [reflexivity|]. lia.
Qed.

Lemma ini_sizet_print_udec n : 0 <= n <= LONG_MAX -> ini_sizet (print_udec n) = (n, false).
Proof.
  intros H. unfold ini_sizet, c_strtol. rewrite <- (app_nil_r (print_udec n)), strtol_udec by (lia || exact I).
  unfold clamp_long. replace (n >? LONG_MAX) with false by lia.
  change (0 =? ERANGE) with false. replace (n <? 0) with false by lia. reflexivity.
Qed.

Lemma ini_sizet_print_dec_out n : n < 0 \/ LONG_MAX < n -> snd (ini_sizet (print_dec n)) = true.
Proof.
  intros H. unfold ini_sizet, c_strtol. rewrite <- (app_nil_r (print_dec n)), strtol_print_dec by exact I.
  unfold LONG_MIN, LONG_MAX, ERANGE in *.
  destruct (n <? -9223372036854775808) eqn:E1; [reflexivity|].
  destruct (n >? 9223372036854775807) eqn:E2; [reflexivity|].
  destruct (n <? 0) eqn:E3; [reflexivity|]. lia.
Qed.

(* sc_options_parse, SC_OPTION_INT: outcome as a function of the option argument alone *)
Definition int_outcome (a : str) : option Z :=
  let '(l, er) := strtol a in if (l <? INT_MIN) || (l >? INT_MAX) || er then None else Some l.
Definition size_outcome (a : str) : option Z :=
  let '(l, er) := strtol a in if (l <? 0) || er then None else Some l.

Section Conv.
Variable strtod : str -> Z * bool.

Lemma apply_int w o k it a : it_type it = TInt ->
  let r := apply_item strtod w o k it (Some a) in
  match int_outcome a with
  | Some v => fst r = 0 /\ w_store (snd r) = st_set (w_store w) (it_var it) (VI v)
  | None => fst r = -1 /\ w_store (snd r) = w_store w
  end.
Proof.
  intros Ht. unfold apply_item, int_outcome, c_strtol. rewrite Ht. destruct (strtol a) as [l er].
  destruct er; cbn.
  - rewrite !orb_true_r. cbn. split; reflexivity.
  - rewrite !orb_false_r. destruct ((l <? INT_MIN) || (l >? INT_MAX)); cbn; split; reflexivity.
Qed.

(* SC_OPTION_DOUBLE (57534b2): the outcome is a function of what strtod says about the text alone; the error return
   exactly for an ERANGE result that is zero or infinite *)
Lemma apply_double w o k it a : it_type it = TDouble ->
  let r := apply_item strtod w o k it (Some a) in
  if dbl_error (fst (strtod a)) (snd (strtod a)) then fst r = -1 /\ w_store (snd r) = w_store w
  else fst r = 0 /\ w_store (snd r) = st_set (w_store w) (it_var it) (VD (fst (strtod a))).
Proof.
  intros Ht. unfold apply_item. rewrite Ht. destruct (strtod a) as [x e]. cbn [fst snd].
  destruct (dbl_error x e); split; reflexivity.
Qed.

Lemma apply_size w o k it a : it_type it = TSize ->
  let r := apply_item strtod w o k it (Some a) in
  match size_outcome a with
  | Some v => fst r = 0 /\ w_store (snd r) = st_set (w_store w) (it_var it) (VI v)
  | None => fst r = -1 /\ w_store (snd r) = w_store w
  end.
Proof.
  intros Ht. unfold apply_item, size_outcome, c_strtol. rewrite Ht. destruct (strtol a) as [l er].
  destruct er; cbn.
  - rewrite !orb_true_r. cbn. split; reflexivity.
  - rewrite !orb_false_r. destruct (l <? 0); cbn; split; reflexivity.
Qed.

End Conv.

(* the decimal text of n as option argument: accepted with value n iff n fits the variable's type *)
Lemma int_outcome_dec n rest : (match rest with [] => True | c :: _ => digit_val c = 99 end) ->
  int_outcome (print_dec n ++ rest) = if (INT_MIN <=? n) && (n <=? INT_MAX) then Some n else None.
Proof.
  intros Hr. unfold int_outcome. rewrite strtol_print_dec by exact Hr.
  unfold INT_MIN, INT_MAX, LONG_MIN, LONG_MAX.
  destruct (n <? -9223372036854775808) eqn:E1.
  { cbn. replace (-2147483648 <=? n) with false by lia. reflexivity. }
  destruct (n >? 9223372036854775807) eqn:E2.
  { cbn. replace (n <=? 2147483647) with false by lia. rewrite andb_false_r. reflexivity. }
  rewrite orb_false_r.
  destruct (n <? -2147483648) eqn:E3; destruct (n >? 2147483647) eqn:E4; destruct (-2147483648 <=? n) eqn:E5;
    destruct (n <=? 2147483647) eqn:E6; try lia; reflexivity.
Qed.

Lemma size_outcome_dec n rest : (match rest with [] => True | c :: _ => digit_val c = 99 end) ->
  size_outcome (print_dec n ++ rest) = if (0 <=? n) && (n <=? LONG_MAX) then Some n else None.
Proof.
  intros Hr. unfold size_outcome. rewrite strtol_print_dec by exact Hr.
  unfold LONG_MIN, LONG_MAX.
  destruct (n <? -9223372036854775808) eqn:E1.
  { cbn. replace (0 <=? n) with false by lia. reflexivity. }
  destruct (n >? 9223372036854775807) eqn:E2.
  { cbn. replace (n <=? 9223372036854775807) with false by lia. rewrite andb_false_r. reflexivity. }
  rewrite orb_false_r.
  destruct (n <? 0) eqn:E3; destruct (0 <=? n) eqn:E5; destruct (n <=? 9223372036854775807) eqn:E6; try lia; reflexivity.
Qed.

(* ---- the range rule for doubles (57534b2) ---- *)
Definition DBL_INF : Z := 0x7FF0000000000000.

Lemma dbl_error_spec x e : dbl_error x e = true <-> e = true /\ (dbl_mag x = 0 \/ dbl_mag x = DBL_INF).
Proof.
  unfold dbl_error, dbl_is_zero, dbl_is_inf, DBL_INF. rewrite andb_true_iff, orb_true_iff, !Z.eqb_eq. tauto.
Qed.

(* every finite nonzero value - normal or subnormal, either sign - is accepted whether or not strtod raised ERANGE *)
Lemma dbl_finite_nonzero_accepted x e : 0 < dbl_mag x < DBL_INF -> dbl_error x e = false.
Proof.
  intros H. destruct (dbl_error x e) eqn:E; [|reflexivity]. apply dbl_error_spec in E. unfold DBL_INF in *. lia.
Qed.

(* subnormals: exponent field 0, mantissa not 0 *)
Lemma dbl_subnormal_accepted x e : 0 < dbl_mag x < 2 ^ 52 -> dbl_error x e = false.
Proof. intros H. apply dbl_finite_nonzero_accepted. unfold DBL_INF. lia. Qed.

(* without ERANGE everything is accepted (inf, nan, 0 as texts denote them) *)
Lemma dbl_no_erange_accepted x : dbl_error x false = false.
Proof. reflexivity. Qed.

(* underflow to +-0 and overflow to +-inf with ERANGE are the errors *)
Lemma dbl_range_errors : dbl_error 0 true = true /\ dbl_error (2 ^ 63) true = true /\
  dbl_error DBL_INF true = true /\ dbl_error (2 ^ 63 + DBL_INF) true = true.
Proof. repeat split; reflexivity. Qed.

(* regression guard: the rule before 57534b2 rejects the smallest and the largest subnormal, the repaired rule accepts them *)
Lemma dbl_old_rule_refuted :
  dbl_error_old 1 true = true /\ dbl_error_old (2 ^ 52 - 1) true = true /\ dbl_error_old (2 ^ 63 + 1) true = true /\
  dbl_error 1 true = false /\ dbl_error (2 ^ 52 - 1) true = false /\ dbl_error (2 ^ 63 + 1) true = false.
Proof. repeat split; reflexivity. Qed.
