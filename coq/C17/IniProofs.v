(* C17 - the ini reader (model of iniparser_load / iniparser_line) applied to text in the layout
   sc_options_save writes:  a document of comment lines, "[section]" lines and "        key = value"
   lines is read back as exactly its sections and entries, provided keys, section names and values
   are in the classes defined here (ini_safe ...).  Outside these classes the format loses
   information; witnesses are in OptionsProofs.v. *)
From Coq Require Import ZArith List Bool Lia.
From ScV Require Import Base.CInt C17.OptionsModel.
Import ListNotations.
Local Open Scope Z_scope.

(* ------------------------------------------------------------------------------------------
   list / string lemmas *)
Lemma str_eqb_refl a : str_eqb a a = true.
Proof. induction a as [|x a IH]; [reflexivity|]. cbn. rewrite Z.eqb_refl. exact IH. Qed.

Lemma str_eqb_eq a b : str_eqb a b = true <-> a = b.
Proof.
  split; [|intros ->; apply str_eqb_refl].
  revert b. induction a as [|x a IH]; intros [|y b] H; try discriminate H; [reflexivity|].
  cbn in H. apply andb_true_iff in H. destruct H as [H1 H2]. apply Z.eqb_eq in H1. subst. f_equal. apply IH. exact H2.
Qed.

Lemma str_eqb_neq a b : a <> b -> str_eqb a b = false.
Proof. intros H. destruct (str_eqb a b) eqn:E; [|reflexivity]. apply str_eqb_eq in E. contradiction. Qed.

Lemma take_while_app p a c r : Forall (fun x => p x = true) a -> p c = false -> take_while p (a ++ c :: r) = a.
Proof.
  intros H Hc. induction H as [|x a Hx _ IH]; cbn; [rewrite Hc; reflexivity|]. rewrite Hx. f_equal. exact IH.
Qed.

Lemma take_while_all p a : Forall (fun x => p x = true) a -> take_while p a = a.
Proof. intros H. induction H as [|x a Hx _ IH]; cbn; [reflexivity|]. rewrite Hx. f_equal. exact IH. Qed.

Lemma drop_while_app p a c r : Forall (fun x => p x = true) a -> p c = false -> drop_while p (a ++ c :: r) = c :: r.
Proof.
  intros H Hc. induction H as [|x a Hx _ IH]; cbn; [rewrite Hc; reflexivity|]. rewrite Hx. exact IH.
Qed.

Lemma drop_while_all p a : Forall (fun x => p x = true) a -> drop_while p a = [].
Proof. intros H. induction H as [|x a Hx _ IH]; cbn; [reflexivity|]. rewrite Hx. exact IH. Qed.

Lemma drop_while_head p c r : p c = false -> drop_while p (c :: r) = c :: r.
Proof. intros H. cbn. rewrite H. reflexivity. Qed.

(* first / last character conditions *)
Definition head_ok (p : Z -> bool) (s : str) : bool := match s with [] => true | c :: _ => p c end.
Definition last_ok (p : Z -> bool) (s : str) : bool := head_ok p (rev s).
Definition nonspace (c : Z) : bool := negb (is_space c).

Lemma lstrip_id s : head_ok nonspace s = true -> lstrip s = s.
Proof.
  destruct s as [|c r]; [reflexivity|]. cbn. unfold nonspace. intros H. apply negb_true_iff in H.
  unfold lstrip. cbn. rewrite H. reflexivity.
Qed.

Lemma rstrip_id s : last_ok nonspace s = true -> rstrip s = s.
Proof.
  unfold last_ok, rstrip. intros H. destruct (rev s) as [|c r] eqn:E.
  - cbn. apply (f_equal (@rev Z)) in E. rewrite rev_involutive in E. symmetry. exact E.
  - cbn in H. unfold nonspace in H. apply negb_true_iff in H. cbn. rewrite H. rewrite <- E. apply rev_involutive.
Qed.

Lemma lstrip_spaces a s : Forall (fun x => is_space x = true) a -> lstrip (a ++ s) = lstrip s.
Proof. intros H. unfold lstrip. induction H as [|x a Hx _ IH]; cbn; [reflexivity|]. rewrite Hx. exact IH. Qed.

Lemma rstrip_spaces s a : Forall (fun x => is_space x = true) a -> rstrip (s ++ a) = rstrip s.
Proof.
  intros H. unfold rstrip. rewrite rev_app_distr. f_equal.
  assert (H' : Forall (fun x => is_space x = true) (rev a)) by (apply Forall_rev; exact H).
  induction H' as [|x b Hx _ IH]; cbn; [reflexivity|]. rewrite Hx. exact IH.
Qed.

Lemma last_ok_app_cons p s c : last_ok p (s ++ [c]) = p c.
Proof. unfold last_ok. rewrite rev_app_distr. reflexivity. Qed.

Lemma last_ok_app p a b : b <> [] -> last_ok p (a ++ b) = last_ok p b.
Proof.
  intros H. unfold last_ok. rewrite rev_app_distr. destruct (rev b) as [|c r] eqn:E; [|reflexivity].
  apply (f_equal (@rev Z)) in E. rewrite rev_involutive in E. contradiction.
Qed.

Lemma firstn_short {A} n (l : list A) : (length l <= n)%nat -> firstn n l = l.
Proof. apply firstn_all2. Qed.

Lemma strstrip_id s : head_ok nonspace s = true -> last_ok nonspace s = true -> (length s <= LINESZ)%nat -> strstrip s = s.
Proof. intros H1 H2 H3. unfold strstrip. rewrite lstrip_id by exact H1. rewrite firstn_short by exact H3. apply rstrip_id. exact H2. Qed.

Lemma strlwc_short s : (length s <= LINESZ)%nat -> strlwc s = map to_lower s.
Proof. intros H. unfold strlwc. rewrite firstn_short by exact H. reflexivity. Qed.

Lemma last_default_app {A} (l : list A) (x d : A) : last (l ++ [x]) d = x.
Proof. apply last_last. Qed.

(* ------------------------------------------------------------------------------------------
   the classes *)
(* a value (string option, key-value key, argument, printed number) that survives the format *)
Definition value_char (c : Z) : bool := negb ((c =? 0) || (c =? cNL) || (c =? cSEMI) || (c =? cHASH)).
Definition ini_safe (v : str) : bool :=
  forallb value_char v
  && head_ok (fun c => nonspace c && negb (c =? cDQ) && negb (c =? cSQ)) v
  && last_ok (fun c => nonspace c && negb (c =? cBSL)) v.

(* a key as the writer emits it: the base name of an option, "-c", "count", an argument number *)
Definition key_char (c : Z) : bool := negb ((c =? 0) || (c =? cNL) || (c =? cEQ)).
Definition key_safe (k : str) : bool :=
  match k with
  | [] => false
  | c :: _ => forallb key_char k && nonspace c && negb (c =? cHASH) && negb (c =? cSEMI) && negb (c =? cLBR)
              && last_ok nonspace k
  end.

(* a section name: the prefix of an option name, "Options", "Arguments" *)
Definition sec_char (c : Z) : bool := negb ((c =? 0) || (c =? cNL) || (c =? cRBR)).
Definition sec_safe (p : str) : bool :=
  match p with
  | [] => false
  | c :: _ => forallb sec_char p && nonspace c && last_ok nonspace p
  end.

(* what "        key = value" looks like once the blanks around it are gone *)
Definition line_core (k v : str) : str := k ++ [cSP; cEQ] ++ match v with [] => [] | _ => cSP :: v end.

Definition entry_line (k v : str) : str := s_indent ++ k ++ s_eq ++ v.
Definition section_line (p : str) : str := cLBR :: p ++ [cRBR].

Lemma forallb_Forall {A} (p : A -> bool) l : forallb p l = true -> Forall (fun x => p x = true) l.
Proof. intros H. apply Forall_forall. apply forallb_forall. exact H. Qed.

Lemma head_ok_and p q s : head_ok (fun c => p c && q c) s = head_ok p s && head_ok q s.
Proof. destruct s; reflexivity. Qed.

Lemma ini_safe_parts v : ini_safe v = true ->
  Forall (fun c => value_char c = true) v /\
  head_ok nonspace v = true /\ last_ok nonspace v = true /\
  head_ok (fun c => negb (c =? cDQ) && negb (c =? cSQ)) v = true /\
  last_ok (fun c => negb (c =? cBSL)) v = true.
Proof.
  unfold ini_safe. intros H. apply andb_true_iff in H. destruct H as [H H3]. apply andb_true_iff in H. destruct H as [H1 H2].
  split; [apply forallb_Forall; exact H1|].
  unfold last_ok in *.
  change (fun c => nonspace c && negb (c =? cDQ) && negb (c =? cSQ))
    with (fun c => (fun c => nonspace c && negb (c =? cDQ)) c && (fun c => negb (c =? cSQ)) c) in H2.
  rewrite head_ok_and in H2. apply andb_true_iff in H2. destruct H2 as [H2 H2c].
  rewrite head_ok_and in H2. apply andb_true_iff in H2. destruct H2 as [H2a H2b].
  rewrite head_ok_and in H3. apply andb_true_iff in H3. destruct H3 as [H3a H3b].
  split; [exact H2a|]. split; [exact H3a|]. split; [|exact H3b].
  rewrite head_ok_and. rewrite H2b, H2c. reflexivity.
Qed.

Lemma rstrip_entry k v : key_safe k = true -> ini_safe v = true ->
  rstrip (entry_line k v) = s_indent ++ line_core k v.
Proof.
  intros Hk Hv. destruct (ini_safe_parts v Hv) as (_ & _ & Hl & _ & _).
  unfold entry_line, line_core. destruct v as [|c r].
  - rewrite app_nil_r. change s_eq with ([cSP; cEQ] ++ [cSP]). rewrite !app_assoc.
    rewrite rstrip_spaces by (repeat constructor). rewrite rstrip_id; [rewrite app_nil_r; reflexivity|].
    rewrite last_ok_app by discriminate. reflexivity.
  - rewrite rstrip_id; [reflexivity|].
    rewrite !app_assoc. rewrite last_ok_app by discriminate. exact Hl.
Qed.

Lemma key_safe_parts k : key_safe k = true ->
  exists c r, k = c :: r /\ Forall (fun x => key_char x = true) k /\ nonspace c = true /\
              c <> cHASH /\ c <> cSEMI /\ c <> cLBR /\ last_ok nonspace k = true.
Proof.
  unfold key_safe. destruct k as [|c r]; [discriminate|]. intros H.
  apply andb_true_iff in H. destruct H as [H H6]. apply andb_true_iff in H. destruct H as [H H5].
  apply andb_true_iff in H. destruct H as [H H4]. apply andb_true_iff in H. destruct H as [H H3].
  apply andb_true_iff in H. destruct H as [H1 H2].
  exists c, r. split; [reflexivity|]. split; [apply forallb_Forall; exact H1|].
  split; [exact H2|]. split; [apply Z.eqb_neq, negb_true_iff; exact H3|].
  split; [apply Z.eqb_neq, negb_true_iff; exact H4|]. split; [apply Z.eqb_neq, negb_true_iff; exact H5|exact H6].
Qed.

Lemma key_char_ne_eq k : Forall (fun x => key_char x = true) k -> Forall (fun x => ne cEQ x = true) k.
Proof.
  apply Forall_impl. intros c H. unfold key_char, ne in *. apply negb_true_iff in H. apply orb_false_iff in H.
  destruct H as [_ H]. rewrite H. reflexivity.
Qed.

Lemma length_core k v : (length (line_core k v) + 8 <= length (entry_line k v))%nat.
Proof.
  unfold line_core, entry_line. rewrite !app_length. destruct v; cbn [length s_indent s_eq app]; lia.
Qed.

(* iniparser_line on an entry line *)
Theorem ini_line_entry k v : key_safe k = true -> ini_safe v = true ->
  (length (entry_line k v) <= LINESZ)%nat ->
  ini_line (rstrip (entry_line k v)) = LValue (map to_lower k) v.
Proof.
  intros Hk Hv Hlen. rewrite rstrip_entry by assumption.
  destruct (key_safe_parts k Hk) as (c & r & -> & Hkc & Hns & Hh & Hs & Hb & Hkl).
  destruct (ini_safe_parts v Hv) as (Hvc & Hvh & Hvl & Hvq & _).
  pose proof (length_core (c :: r) v) as Hlc.
  assert (Hline : strstrip (s_indent ++ line_core (c :: r) v) = line_core (c :: r) v).
  { unfold strstrip. rewrite lstrip_spaces by (repeat constructor).
    rewrite lstrip_id by exact Hns. rewrite firstn_short by lia.
    apply rstrip_id. unfold line_core. destruct v as [|vc vr].
    - rewrite app_nil_r. rewrite last_ok_app by discriminate. reflexivity.
    - rewrite app_assoc. rewrite last_ok_app by discriminate.
      change (cSP :: vc :: vr) with ([cSP] ++ vc :: vr). rewrite last_ok_app by discriminate. exact Hvl. }
  unfold ini_line. rewrite Hline. unfold line_core at 1. cbn [app].
  replace ((c =? cHASH) || (c =? cSEMI)) with false
    by (symmetry; apply orb_false_iff; split; apply Z.eqb_neq; assumption).
  replace (c =? cLBR) with false by (symmetry; apply Z.eqb_neq; assumption). cbn [andb].
  change (c :: r ++ cSP :: cEQ :: match v with [] => [] | _ :: _ => cSP :: v end)
    with (line_core (c :: r) v).
  assert (Hsplit : line_core (c :: r) v = ((c :: r) ++ [cSP]) ++ cEQ :: match v with [] => [] | _ :: _ => cSP :: v end).
  { unfold line_core. rewrite <- app_assoc. reflexivity. }
  assert (Hne : Forall (fun x => ne cEQ x = true) ((c :: r) ++ [cSP])).
  { apply Forall_app. split; [apply key_char_ne_eq; exact Hkc|repeat constructor]. }
  rewrite Hsplit. rewrite take_while_app by (exact Hne || reflexivity). rewrite drop_while_app by (exact Hne || reflexivity).
  cbn [app].
  assert (Hkey : strlwc (strstrip (c :: r ++ [cSP])) = map to_lower (c :: r)).
  { assert (Hss : strstrip (c :: r ++ [cSP]) = c :: r).
    { unfold strstrip. change (c :: r ++ [cSP]) with ((c :: r) ++ [cSP]). rewrite lstrip_id by exact Hns.
      rewrite firstn_short by (unfold line_core in Hlc; rewrite !app_length in *; cbn [length] in *; lia).
      rewrite rstrip_spaces by (repeat constructor). apply rstrip_id. exact Hkl. }
    rewrite Hss. apply strlwc_short. unfold line_core in Hlc. rewrite !app_length in Hlc. cbn [length] in *. lia. }
  rewrite Hkey. f_equal.
  (* the value *)
  unfold ini_value. destruct v as [|vc vr]; [reflexivity|].
  assert (Hl : lstrip (cSP :: vc :: vr) = vc :: vr).
  { change (cSP :: vc :: vr) with ([cSP] ++ vc :: vr). rewrite lstrip_spaces by (repeat constructor). apply lstrip_id. exact Hvh. }
  rewrite Hl. cbn [head_ok] in Hvq. apply andb_true_iff in Hvq. destruct Hvq as [Hq1 Hq2].
  apply negb_true_iff in Hq1, Hq2.
  assert (Hplain : ini_value_plain (vc :: vr) = vc :: vr).
  { unfold ini_value_plain. inversion Hvc as [|? ? Hc0 Hc1]; subst.
    assert (Hnsh : forall x, value_char x = true -> not_semi_hash x = true).
    { intros x Hx. unfold value_char, not_semi_hash in *. apply negb_true_iff in Hx. apply negb_true_iff.
      repeat (apply orb_false_iff in Hx; destruct Hx as [Hx ?]). apply orb_false_iff. split; assumption. }
    rewrite (Hnsh _ Hc0). apply take_while_all. apply Forall_impl with (2 := Hvc). exact Hnsh. }
  assert (Hraw : match vc :: vr with
                 | q :: c1 :: t => if ((q =? cDQ) || (q =? cSQ)) && negb (c1 =? q) then take_while (ne q) (c1 :: t) else ini_value_plain (vc :: vr)
                 | _ => ini_value_plain (vc :: vr) end = vc :: vr).
  { destruct vr as [|c1 t]; [exact Hplain|]. rewrite Hq1, Hq2. cbn [orb andb]. exact Hplain. }
  rewrite Hraw.
  assert (Hst : strstrip (vc :: vr) = vc :: vr).
  { apply strstrip_id; [exact Hvh|exact Hvl|]. unfold line_core in Hlc. rewrite !app_length in Hlc. cbn [length] in *. lia. }
  rewrite Hst.
  replace (str_eqb (vc :: vr) [cDQ; cDQ]) with false by (cbn; rewrite Hq1; reflexivity).
  replace (str_eqb (vc :: vr) [cSQ; cSQ]) with false by (cbn; rewrite Hq2; reflexivity).
  reflexivity.
Qed.

Lemma sec_safe_parts p : sec_safe p = true ->
  exists c r, p = c :: r /\ Forall (fun x => sec_char x = true) p /\ nonspace c = true /\ last_ok nonspace p = true.
Proof.
  unfold sec_safe. destruct p as [|c r]; [discriminate|]. intros H.
  apply andb_true_iff in H. destruct H as [H H3]. apply andb_true_iff in H. destruct H as [H1 H2].
  exists c, r. split; [reflexivity|]. split; [apply forallb_Forall; exact H1|]. split; assumption.
Qed.

(* iniparser_line on a section heading *)
Theorem ini_line_section p : sec_safe p = true -> (length (section_line p) <= LINESZ)%nat ->
  ini_line (rstrip (section_line p)) = LSection (Some (map to_lower p)).
Proof.
  intros Hp Hlen. destruct (sec_safe_parts p Hp) as (c & r & -> & Hpc & Hns & Hpl).
  assert (Hr : rstrip (section_line (c :: r)) = section_line (c :: r)).
  { apply rstrip_id. unfold section_line. change (cLBR :: (c :: r) ++ [cRBR]) with ((cLBR :: c :: r) ++ [cRBR]).
    rewrite last_ok_app_cons. reflexivity. }
  rewrite Hr.
  assert (Hs : strstrip (section_line (c :: r)) = section_line (c :: r)).
  { apply strstrip_id; [reflexivity| |exact Hlen]. unfold section_line.
    change (cLBR :: (c :: r) ++ [cRBR]) with ((cLBR :: c :: r) ++ [cRBR]). rewrite last_ok_app_cons. reflexivity. }
  unfold ini_line. rewrite Hs. unfold section_line at 1. cbn [app].
  change ((cLBR =? cHASH) || (cLBR =? cSEMI)) with false. change (cLBR =? cLBR) with true. cbn [andb].
  assert (Hlast : last (section_line (c :: r)) 0 = cRBR).
  { unfold section_line. change (cLBR :: (c :: r) ++ [cRBR]) with ((cLBR :: c :: r) ++ [cRBR]). apply last_last. }
  rewrite Hlast. change (cRBR =? cRBR) with true. cbv iota. unfold section_line. cbn [tl app].
  assert (Hne : Forall (fun x => ne cRBR x = true) (c :: r)).
  { apply Forall_impl with (2 := Hpc). intros x Hx. unfold sec_char, ne in *. apply negb_true_iff in Hx.
    apply orb_false_iff in Hx. destruct Hx as [_ Hx]. rewrite Hx. reflexivity. }
  change (c :: r ++ [cRBR]) with ((c :: r) ++ cRBR :: []). rewrite take_while_app by (exact Hne || reflexivity).
  unfold section_line in Hlen. cbn [length] in Hlen. rewrite app_length in Hlen. cbn [length] in Hlen.
  rewrite strstrip_id by (assumption || cbn [length] in *; lia).
  rewrite strlwc_short by (cbn [length] in *; lia). reflexivity.
Qed.

(* ------------------------------------------------------------------------------------------
   dictionary *)
Lemma dict_get_set d k v k' : dict_get (dict_set d k v) k' = if str_eqb k' k then Some v else dict_get d k'.
Proof.
  induction d as [|[k0 v0] d IH]; cbn.
  - reflexivity.
  - destruct (str_eqb k k0) eqn:E.
    + apply str_eqb_eq in E. subst k0. cbn. destruct (str_eqb k' k); reflexivity.
    + cbn. destruct (str_eqb k' k0) eqn:E2.
      * apply str_eqb_eq in E2. subst k0. destruct (str_eqb k' k) eqn:E3; [|reflexivity].
        apply str_eqb_eq in E3. subst k'. rewrite str_eqb_refl in E. discriminate E.
      * exact IH.
Qed.

(* one assignment of iniparser_load (cfc9e38): an entry (Some v) is stored, a heading (None) only claims a free slot *)
Definition dict_put (d : dict) (k : str) (v : option str) : dict :=
  match v with
  | Some _ => dict_set d k v
  | None => if dict_mem d k then d else dict_set d k None
  end.

Lemma dict_get_put_other d k v k' : k' <> k -> dict_get (dict_put d k v) k' = dict_get d k'.
Proof.
  intros Hne. unfold dict_put. destruct v as [x|]; [|destruct (dict_mem d k); [reflexivity|]];
  rewrite dict_get_set, str_eqb_neq by exact Hne; reflexivity.
Qed.

Lemma dict_get_put_entry d k x : dict_get (dict_put d k (Some x)) k = Some (Some x).
Proof. unfold dict_put. rewrite dict_get_set, str_eqb_refl. reflexivity. Qed.

(* a heading leaves an existing slot alone - in particular the value of an entry of the same name *)
Lemma dict_get_put_heading_kept d k y : dict_get d k = Some y -> dict_put d k None = d.
Proof. intros H. unfold dict_put, dict_mem. rewrite H. reflexivity. Qed.

Definition set_all (l : list (str * option str)) (d : dict) : dict :=
  fold_left (fun d kv => dict_put d (fst kv) (snd kv)) l d.

Lemma dict_get_set_all_notin l : forall d K, ~ In K (map fst l) -> dict_get (set_all l d) K = dict_get d K.
Proof.
  induction l as [|[k v] l IH]; intros d K H; [reflexivity|].
  cbn in *. unfold set_all in *. cbn. rewrite IH by tauto. apply dict_get_put_other. intros ->. tauto.
Qed.

(* a stored value survives every later assignment that is not an ENTRY of the same key *)
Lemma dict_get_set_all_kept l : forall d K x,
  (forall y, ~ In (K, Some y) l) -> dict_get d K = Some (Some x) -> dict_get (set_all l d) K = Some (Some x).
Proof.
  induction l as [|[k v] l IH]; intros d K x Hno Hd; [exact Hd|].
  unfold set_all in *. cbn [fold_left fst snd]. apply IH.
  - intros y Hy. apply (Hno y). right. exact Hy.
  - destruct (str_eqb K k) eqn:E.
    + apply str_eqb_eq in E. subst k. destruct v as [y|]; [exfalso; apply (Hno y); left; reflexivity|].
      rewrite (dict_get_put_heading_kept d K (Some x)) by exact Hd. exact Hd.
    + rewrite dict_get_put_other; [exact Hd|]. intros ->. rewrite str_eqb_refl in E. discriminate E.
Qed.

(* ------------------------------------------------------------------------------------------
   the loop of iniparser_load on complete physical lines *)
Definition phys_char (c : Z) : bool := negb ((c =? 0) || (c =? cNL)).
Definition phys_ok (l : str) : bool :=
  forallb phys_char l && negb (Nat.eqb (length l) 0) && Nat.leb (length l) (LINESZ - 2)
  && last_ok (fun c => negb (c =? cBSL)) (rstrip l).

Lemma take_line_full l : forall n rest, Forall (fun c => phys_char c = true) l -> (length l < n)%nat ->
  take_line n (l ++ cNL :: rest) = (l ++ [cNL], rest).
Proof.
  induction l as [|c l IH]; intros n rest Hl Hn.
  - destruct n; [cbn in Hn; lia|]. reflexivity.
  - destruct n; [cbn in Hn; lia|]. cbn [app take_line]. inversion Hl as [|? ? Hc Hl']; subst.
    assert (E : c =? cNL = false).
    { unfold phys_char in Hc. apply negb_true_iff in Hc. apply orb_false_iff in Hc. tauto. }
    rewrite E. rewrite IH by (assumption || cbn in Hn; lia). reflexivity.
Qed.

Definition line_effect (sec : str) (d : dict) (errs : Z) (ls : line_status) : str * dict * Z :=
  match ls with
  | LEmpty | LComment => (sec, d, errs)
  | LError => (sec, d, errs + 1)
  | LSection o => let s := match o with Some x => x | None => strlwc (strstrip sec) end in
                  (s, dict_put d s None, if dict_mem d s then errs else 0)
  | LValue k v => (sec, dict_put d (firstn LINESZ (sec ++ cCOLON :: k)) (Some v), 0)
  end.

Lemma ini_line_nil : ini_line [] = LEmpty.
Proof. reflexivity. Qed.

Lemma ini_loop_step f l rest sec d errs : phys_ok l = true ->
  ini_loop (S f) (l ++ cNL :: rest) [] sec d errs =
  let '(sec', d', errs') := line_effect sec d errs (ini_line (rstrip l)) in ini_loop f rest [] sec' d' errs'.
Proof.
  unfold phys_ok. intros H. apply andb_true_iff in H. destruct H as [H H4]. apply andb_true_iff in H. destruct H as [H H3].
  apply andb_true_iff in H. destruct H as [H1 H2]. apply forallb_Forall in H1.
  apply negb_true_iff, Nat.eqb_neq in H2. apply Nat.leb_le in H3.
  cbn [ini_loop]. cbn [length]. rewrite Nat.sub_0_r.
  rewrite take_line_full by (assumption || unfold LINESZ in *; lia).
  destruct (l ++ [cNL]) as [|x y] eqn:El; [destruct l; discriminate El|]. rewrite <- El. clear x y El.
  cbn [app].
  assert (Hz : take_while (ne 0) (l ++ [cNL]) = l ++ [cNL]).
  { apply take_while_all. apply Forall_app. split; [|repeat constructor].
    apply Forall_impl with (2 := H1). intros c Hc. unfold phys_char, ne in *. apply negb_true_iff in Hc.
    apply orb_false_iff in Hc. destruct Hc as [Hc _]. rewrite Hc. reflexivity. }
  rewrite Hz. rewrite app_length. cbn [length].
  replace (Z.of_nat (length l + 1) - 1 <=? 0) with false by lia.
  rewrite last_last. change (cNL =? cNL) with true. cbn [negb].
  rewrite rstrip_spaces by (repeat constructor).
  unfold last_ok in H4. destruct (rev (rstrip l)) as [|b p] eqn:Er.
  - assert (E : rstrip l = []).
    { apply (f_equal (@rev Z)) in Er. rewrite rev_involutive in Er. exact Er. }
    rewrite E, ini_line_nil. reflexivity.
  - cbn [head_ok] in H4. apply negb_true_iff in H4. rewrite H4.
    destruct (ini_line (rstrip l)) as [| | |o|k v]; try reflexivity.
    cbn [line_effect]. unfold dict_put.
    destruct (dict_mem d (match o with Some x => x | None => strlwc (strstrip sec) end)); reflexivity.
Qed.

Definition flat (ls : list str) : list Z := concat (map (fun l => l ++ [cNL]) ls).

Fixpoint lines_effect (ls : list str) (sec : str) (d : dict) (errs : Z) : str * dict * Z :=
  match ls with
  | [] => (sec, d, errs)
  | l :: r => let '(sec', d', errs') := line_effect sec d errs (ini_line (rstrip l)) in lines_effect r sec' d' errs'
  end.

Lemma ini_loop_lines ls : forall f sec d errs, forallb phys_ok ls = true -> (length ls < f)%nat ->
  ini_loop f (flat ls) [] sec d errs = Some (let '(_, d', e') := lines_effect ls sec d errs in (d', e')).
Proof.
  induction ls as [|l r IH]; intros f sec d errs Hok Hf.
  - destruct f; [cbn in Hf; lia|]. reflexivity.
  - destruct f; [cbn in Hf; lia|]. cbn in Hok. apply andb_true_iff in Hok. destruct Hok as [Hl Hr].
    unfold flat. cbn [map concat]. rewrite <- app_assoc. cbn [app].
    rewrite ini_loop_step by exact Hl. cbn [lines_effect].
    destruct (line_effect sec d errs (ini_line (rstrip l))) as [[sec' d'] errs'].
    apply IH; [exact Hr|cbn in Hf; lia].
Qed.

Lemma flat_length ls : (length ls <= length (flat ls))%nat.
Proof.
  induction ls as [|l r IH]; [cbn; lia|]. unfold flat in *. cbn [map concat length]. rewrite !app_length. cbn [length]. lia.
Qed.

(* ------------------------------------------------------------------------------------------
   documents in the writer's layout *)
Inductive iline := ILtitle | ILsection (p : str) | ILentry (k v : str).

Definition render (x : iline) : str :=
  match x with ILtitle => s_title | ILsection p => section_line p | ILentry k v => entry_line k v end.

Definition iline_ok (x : iline) : bool :=
  match x with
  | ILtitle => true
  | ILsection p => sec_safe p && Nat.leb (length (section_line p)) (LINESZ - 2)
  | ILentry k v => key_safe k && ini_safe v && Nat.leb (length (entry_line k v)) (LINESZ - 2)
  end.

Definition lower (s : str) : str := map to_lower s.
Definition full_key (sec k : str) : str := firstn LINESZ (sec ++ cCOLON :: lower k).

Fixpoint doc_assigns (sec : str) (doc : list iline) : list (str * option str) :=
  match doc with
  | [] => []
  | ILtitle :: r => doc_assigns sec r
  | ILsection p :: r => (lower p, None) :: doc_assigns (lower p) r
  | ILentry k v :: r => (full_key sec k, Some v) :: doc_assigns sec r
  end.

Lemma key_char_phys c : key_char c = true -> phys_char c = true.
Proof.
  unfold key_char, phys_char. intros H. apply negb_true_iff in H. apply negb_true_iff.
  apply orb_false_iff in H. destruct H as [H _]. exact H.
Qed.
Lemma value_char_phys c : value_char c = true -> phys_char c = true.
Proof.
  unfold value_char, phys_char. intros H. apply negb_true_iff in H. apply negb_true_iff.
  apply orb_false_iff in H. destruct H as [H _]. apply orb_false_iff in H. destruct H as [H _]. exact H.
Qed.
Lemma sec_char_phys c : sec_char c = true -> phys_char c = true.
Proof.
  unfold sec_char, phys_char. intros H. apply negb_true_iff in H. apply negb_true_iff.
  apply orb_false_iff in H. destruct H as [H _]. exact H.
Qed.

Lemma forallb_app' {A} (p : A -> bool) a b : forallb p (a ++ b) = forallb p a && forallb p b.
Proof. apply forallb_app. Qed.

Lemma render_phys x : iline_ok x = true -> phys_ok (render x) = true.
Proof.
  destruct x as [|p|k v]; cbn [iline_ok render].
  - intros _. reflexivity.
  - intros H. apply andb_true_iff in H. destruct H as [Hp Hl].
    destruct (sec_safe_parts p Hp) as (c & r & -> & Hpc & Hns & Hpl).
    unfold phys_ok. rewrite Hl.
    assert (Hr : rstrip (section_line (c :: r)) = section_line (c :: r)).
    { apply rstrip_id. unfold section_line. change (cLBR :: (c :: r) ++ [cRBR]) with ((cLBR :: c :: r) ++ [cRBR]).
      rewrite last_ok_app_cons. reflexivity. }
    rewrite Hr.
    assert (H1 : forallb phys_char (section_line (c :: r)) = true).
    { unfold section_line. change (cLBR :: (c :: r) ++ [cRBR]) with ([cLBR] ++ (c :: r) ++ [cRBR]).
      rewrite !forallb_app'. apply andb_true_iff. split; [reflexivity|]. apply andb_true_iff. split; [|reflexivity].
      apply forallb_forall. intros x Hx. apply sec_char_phys. rewrite Forall_forall in Hpc. apply Hpc. exact Hx. }
    rewrite H1. unfold section_line at 1. cbn [length Nat.eqb negb andb].
    unfold section_line. change (cLBR :: (c :: r) ++ [cRBR]) with ((cLBR :: c :: r) ++ [cRBR]). rewrite last_ok_app_cons. reflexivity.
  - intros H. apply andb_true_iff in H. destruct H as [H Hl]. apply andb_true_iff in H. destruct H as [Hk Hv].
    unfold phys_ok. rewrite Hl. rewrite rstrip_entry by assumption.
    destruct (key_safe_parts k Hk) as (c & r & -> & Hkc & Hns & Hh & Hs & Hb & Hkl).
    destruct (ini_safe_parts v Hv) as (Hvc & Hvh & Hvl & Hvq & Hvb).
    assert (H1 : forallb phys_char (entry_line (c :: r) v) = true).
    { unfold entry_line. rewrite !forallb_app'. apply andb_true_iff. split; [reflexivity|].
      apply andb_true_iff. split.
      - apply forallb_forall. intros x Hx. apply key_char_phys. rewrite Forall_forall in Hkc. apply Hkc. exact Hx.
      - apply andb_true_iff. split; [reflexivity|].
        apply forallb_forall. intros x Hx. apply value_char_phys. rewrite Forall_forall in Hvc. apply Hvc. exact Hx. }
    rewrite H1.
    assert (H2 : negb (Nat.eqb (length (entry_line (c :: r) v)) 0) = true) by reflexivity.
    rewrite H2. cbn [andb].
    unfold line_core. destruct v as [|vc vr].
    + rewrite app_nil_r. rewrite app_assoc. rewrite last_ok_app by discriminate. reflexivity.
    + rewrite !app_assoc. rewrite last_ok_app by discriminate.
      change (cSP :: vc :: vr) with ([cSP] ++ vc :: vr). rewrite last_ok_app by discriminate. exact Hvb.
Qed.

(* the state after the lines of a document: the dictionary is the list of assignments applied in order *)
Lemma lines_effect_doc doc : forall sec d, forallb iline_ok doc = true ->
  exists sec', lines_effect (map render doc) sec d 0 = (sec', set_all (doc_assigns sec doc) d, 0).
Proof.
  induction doc as [|x doc IH]; intros sec d Hok.
  - exists sec. reflexivity.
  - cbn in Hok. apply andb_true_iff in Hok. destruct Hok as [Hx Hdoc].
    cbn [map lines_effect]. destruct x as [|p|k v]; cbn [render iline_ok] in *.
    + change (ini_line (rstrip s_title)) with LComment. cbn [line_effect doc_assigns]. apply IH. exact Hdoc.
    + apply andb_true_iff in Hx. destruct Hx as [Hp Hl]. apply Nat.leb_le in Hl.
      rewrite ini_line_section by (assumption || unfold LINESZ in *; lia).
      cbn [line_effect doc_assigns]. unfold set_all. cbn [fold_left fst snd].
      destruct (dict_mem d (map to_lower p)); apply IH; exact Hdoc.
    + apply andb_true_iff in Hx. destruct Hx as [Hx Hl]. apply andb_true_iff in Hx. destruct Hx as [Hk Hv].
      apply Nat.leb_le in Hl.
      rewrite ini_line_entry by (assumption || unfold LINESZ in *; lia).
      cbn [line_effect doc_assigns]. unfold set_all. cbn [fold_left fst snd]. apply IH. exact Hdoc.
Qed.

(* iniparser_load on the text of a document *)
Theorem ini_load_doc doc : forallb iline_ok doc = true ->
  ini_load (flat (map render doc)) = Some (set_all (doc_assigns [] doc) []).
Proof.
  intros Hok. unfold ini_load.
  assert (Hphys : forallb phys_ok (map render doc) = true).
  { apply forallb_forall. intros l Hl. apply in_map_iff in Hl. destruct Hl as (x & <- & Hx).
    apply render_phys. rewrite forallb_forall in Hok. apply Hok. exact Hx. }
  rewrite ini_loop_lines; [|exact Hphys|pose proof (flat_length (map render doc)); lia].
  destruct (lines_effect_doc doc [] [] Hok) as (sec' & ->). reflexivity.
Qed.
