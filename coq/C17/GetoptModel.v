(* C17 - executable model of GNU getopt_long as sc_options_parse uses it (glibc 2.36 _getopt_internal_r:
   permuting mode, option string without leading '+', '-' or ':', no "W;", POSIXLY_CORRECT unset,
   every long option with a flag pointer and its own `val`).  It is validated against the libc of the
   machine on every run of the check: for every sc_options_parse call of every history the recorded
   return values, option arguments, final optind and final argv order must equal what this model
   computes from the reset state.  Definitions only. *)
From Coq Require Import ZArith List Bool Lia.
From ScV Require Import Base.CInt C17.OptionsModel.
Import ListNotations.
Local Open Scope Z_scope.

Record gstate := mkG {
  g_optind : Z;
  g_next : str;              (* __nextchar: what is left of the current cluster of short options *)
  g_first : Z;               (* __first_nonopt *)
  g_last : Z;                (* __last_nonopt *)
  g_init : bool              (* __initialized *)
}.

(* the static state of a process that has not called getopt yet: optind = 1, nothing initialised *)
Definition g_start : gstate := mkG 1 [] 0 0 false.
(* `optind = 0;` (the repair 5b6f754): the next call re-initialises everything *)
Definition g_reset (g : gstate) : gstate := mkG 0 (g_next g) (g_first g) (g_last g) (g_init g).

Record lopt := mkL { l_name : str; l_hasarg : Z; l_val : Z }.

Definition znth (l : list str) (i : Z) : str := nth (Z.to_nat i) l [].
Definition zlen {A} (l : list A) : Z := Z.of_nat (length l).
Definition zfirstn {A} (n : Z) (l : list A) : list A := firstn (Z.to_nat n) l.
Definition zskipn {A} (n : Z) (l : list A) : list A := skipn (Z.to_nat n) l.

(* exchange (argv, d): swap the non-options [first, last) with the options [last, optind) *)
Definition exchange (argv : list str) (first last optind : Z) : list str :=
  zfirstn first argv ++ zfirstn (optind - last) (zskipn last argv)
  ++ zfirstn (last - first) (zskipn first argv) ++ zskipn optind argv.

Definition nonoption (a : str) : bool :=
  match a with
  | c :: _ :: _ => negb (c =? cMINUS)
  | _ => true
  end.

Fixpoint skip_nonopts (fuel : nat) (argv : list str) (i : Z) : Z :=
  match fuel with
  | O => i
  | S f => if (i <? zlen argv) && nonoption (znth argv i) then skip_nonopts f argv (i + 1) else i
  end.

Fixpoint is_prefix (p s : str) : bool :=
  match p, s with
  | [], _ => true
  | x :: p', y :: s' => (x =? y) && is_prefix p' s'
  | _ :: _, [] => false
  end.

Fixpoint find_exact (longs : list lopt) (name : str) : option lopt :=
  match longs with
  | [] => None
  | l :: r => if str_eqb (l_name l) name then Some l else find_exact r name
  end.

Definition find_long (longs : list lopt) (name : str) : option lopt :=
  match find_exact longs name with
  | Some l => Some l
  | None => match filter (fun l => is_prefix name (l_name l)) longs with
            | [l] => Some l
            | _ => None                      (* not found, or ambiguous (all `val`s differ) *)
            end
  end.

Fixpoint short_arg (shorts : list (Z * Z)) (c : Z) : option Z :=
  match shorts with
  | [] => None
  | (c', h) :: r => if c' =? c then Some h else short_arg r c
  end.

(* one call of getopt_long: (event, state, argv) *)
Definition getopt_call (shorts : list (Z * Z)) (longs : list lopt) (argv : list str) (g : gstate)
  : gevent * gstate * list str :=
  let argc := zlen argv in
  let g := if (g_optind g =? 0) || negb (g_init g)
           then let oi := if g_optind g =? 0 then 1 else g_optind g in mkG oi [] oi oi true
           else g in
  let short (argv : list str) (optind : Z) (next : str) (first last : Z) :=
      match next with
      | [] => (GEnd, mkG optind [] first last true, argv)          (* not reached *)
      | c :: rest =>
          let optind := match rest with [] => optind + 1 | _ => optind end in
          match short_arg shorts c with
          | None => (GErr c, mkG optind rest first last true, argv)
          | Some h =>
              if (c =? cCOLON) || (c =? cSEMI) then (GErr c, mkG optind rest first last true, argv)
              else if h =? 0 then (GShort c None, mkG optind rest first last true, argv)
              else if h =? 2 then
                match rest with
                | [] => (GShort c None, mkG optind [] first last true, argv)
                | _ => (GShort c (Some rest), mkG (optind + 1) [] first last true, argv)
                end
              else
                match rest with
                | _ :: _ => (GShort c (Some rest), mkG (optind + 1) [] first last true, argv)
                | [] => if optind =? argc then (GErr c, mkG optind [] first last true, argv)
                        else (GShort c (Some (znth argv optind)), mkG (optind + 1) [] first last true, argv)
                end
          end
      end in
  match g_next g with
  | _ :: _ => short argv (g_optind g) (g_next g) (g_first g) (g_last g)
  | [] =>
      let optind := g_optind g in
      let last := if g_last g >? optind then optind else g_last g in
      let first := if g_first g >? optind then optind else g_first g in
      (* permute *)
      let '(argv, first, last) :=
        if negb (first =? last) && negb (last =? optind)
        then (exchange argv first last optind, first + (optind - last), optind)
        else if negb (last =? optind) then (argv, optind, last) else (argv, first, last) in
      let optind := skip_nonopts (length argv) argv optind in
      let last := optind in
      (* the special argument "--" *)
      let '(argv, first, last, optind) :=
        if negb (optind =? argc) && str_eqb (znth argv optind) [cMINUS; cMINUS] then
          let optind := optind + 1 in
          let '(argv, first) :=
            if negb (first =? last) && negb (last =? optind)
            then (exchange argv first last optind, first + (optind - last))
            else if first =? last then (argv, optind) else (argv, first) in
          (argv, first, argc, argc)
        else (argv, first, last, optind) in
      if optind =? argc then
        (GEnd, mkG (if negb (first =? last) then first else optind) [] first last true, argv)
      else
        let a := znth argv optind in
        match a with
        | _ :: d :: body =>
            if d =? cMINUS then
              (* long option *)
              let name := take_while (ne cEQ) body in
              let tail := drop_while (ne cEQ) body in
              match find_long longs name with
              | None => (GErr 0, mkG (optind + 1) [] first last true, argv)
              | Some l =>
                  let optind := optind + 1 in
                  match tail with
                  | _ :: v =>
                      if l_hasarg l =? 0 then (GErr (l_val l), mkG optind [] first last true, argv)
                      else (GLong (l_val l) (Some v), mkG optind [] first last true, argv)
                  | [] =>
                      if l_hasarg l =? 1 then
                        if optind <? argc then (GLong (l_val l) (Some (znth argv optind)), mkG (optind + 1) [] first last true, argv)
                        else (GErr (l_val l), mkG optind [] first last true, argv)
                      else (GLong (l_val l) None, mkG optind [] first last true, argv)
                  end
              end
            else short argv optind (d :: body) first last
        | _ => (GEnd, mkG optind [] first last true, argv)            (* not reached: a is an option word *)
        end
  end.

(* the option table sc_options_parse hands to getopt_long *)
Definition shorts_of (its : list item) : list (Z * Z) :=
  flat_map (fun it => if it_char it =? 0 then [] else [(it_char it, it_hasarg it)]) its.

Fixpoint longs_of (its : list item) (k : Z) : list lopt :=
  match its with
  | [] => []
  | it :: r => match it_name it with
               | Some n => mkL n (it_hasarg it) k :: longs_of r (k + 1)
               | None => longs_of r (k + 1)
               end
  end.

(* n successive calls: the events, the final state and argv *)
Fixpoint getopt_calls (n : nat) (shorts : list (Z * Z)) (longs : list lopt) (argv : list str) (g : gstate)
  : list gevent * gstate * list str :=
  match n with
  | O => ([], g, argv)
  | S n' => let '(ev, g', argv') := getopt_call shorts longs argv g in
            let '(evs, g'', argv'') := getopt_calls n' shorts longs argv' g' in
            (ev :: evs, g'', argv'')
  end.

Section ParseArgv.
Variable strtod : str -> Z * bool.

(* sc_options_parse on an argument vector: `optind = 0;` and then the loop, scanning and applying in
   lock step (the loop stops calling getopt_long after the first failure).  fuel bounds the number of
   getopt calls: 1 + the total length of the words suffices. *)
Fixpoint parse_argv_loop (fuel : nat) (w : world) (o : nat) (argv : list str) (g : gstate)
  : Z * world * gstate * list str :=
  match fuel with
  | O => (R_SHORT, w, g, argv)
  | S f =>
      let its := o_items (get_opts w o) in
      let '(ev, g', argv') := getopt_call (shorts_of its) (longs_of its 0) argv g in
      match parse_loop strtod w o [ev; GEnd] with
      | (rc, w', [GEnd]) => (rc, w', g', argv')                       (* the loop stopped at ev *)
      | (_, w', _) => parse_argv_loop f w' o argv' g'                 (* ev was applied, next call *)
      end
  end.

Definition argv_fuel (argv : list str) : nat := S (length (concat argv) + length argv).

Definition parse_argv (w : world) (o : nat) (argv : list str) (g : gstate) : Z * world * gstate :=
  let '(rc, w', g', argv') := parse_argv_loop (argv_fuel argv) w o argv (g_reset g) in
  let ob := get_opts w' o in
  let first := if rc <? 0 then -1 else g_optind g' in
  (if (rc =? R_CRASH) || (rc =? R_SHORT) then rc else first,
   set_opts w' o (mkOpts (o_items ob) first (map Some argv') false), g').

End ParseArgv.
