(* C17 - options: the save -> load -> load_args round trip, independence of earlier calls, error returns,
   and the witnesses for what the ini format cannot carry. *)
From Coq Require Import ZArith List Bool Lia.
From ScV Require Import Base.CInt C17.OptionsModel C17.NumProofs C17.IniProofs C17.SaveProofs C17.LoadProofs.
Import ListNotations.
Local Open Scope Z_scope.

Section RoundTrip.
Variable strtod : str -> Z * bool.
Variable fmt16 : Z -> str.

(* ---- the argument list ---- *)
Lemma args_assigns_in l : forall i j s, nth_error l j = Some (Some s) ->
  In (full_key s_arguments (print_dec (i + Z.of_nat j)), Some s) (args_assigns i l).
Proof.
  induction l as [|a r IH]; intros i j s H; [destruct j; discriminate H|].
  destruct j as [|j]; cbn [nth_error args_assigns] in *.
  - inversion H; subst. left. rewrite Z.add_0_r. reflexivity.
  - right. replace (i + Z.of_nat (S j)) with (i + 1 + Z.of_nat j) by lia. apply IH. exact H.
Qed.

Lemma args_key_lookup i : strlwc (s_args_key i) = full_key s_arguments (print_dec i).
Proof. unfold s_args_key. rewrite strlwc_key. reflexivity. Qed.

Lemma load_args_loop_ok D l : forall i,
  (forall j s, nth_error l j = Some s -> exists t, s = Some t /\ dict_get D (full_key s_arguments (print_dec (i + Z.of_nat j))) = Some (Some t)) ->
  load_args_loop D (length l) i = (l, true).
Proof.
  induction l as [|a r IH]; intros i H; [reflexivity|].
  cbn [length load_args_loop]. destruct (H O a eq_refl) as (t & -> & Ht). rewrite Z.add_0_r in Ht.
  unfold ini_getstring. rewrite args_key_lookup, Ht. rewrite IH; [reflexivity|].
  intros j s Hj. replace (i + 1 + Z.of_nat j) with (i + Z.of_nat (S j)) by lia. apply H. exact Hj.
Qed.

(* ---- the conditions of the round trip ---- *)
Definition args_good (ob : opts) : Prop :=
  0 <= o_first ob <= Z.of_nat (length (o_args ob)) /\ Z.of_nat (length (o_args ob)) <= INT_MAX /\
  Forall (fun a => a <> None) (saved_args ob).

Definition roundtrip_ok (w : world) (ob : opts) : Prop :=
  (* every line is in the classes the reader reproduces: section names, keys, values, lengths *)
  forallb iline_ok (save_doc fmt16 w ob) = true /\
  (* no two entries share a (case-insensitive) key; a section MAY be named like an entry (cfc9e38) *)
  keys_good (save_assigns fmt16 w ob) /\
  Forall (fun it => file_type (it_type it) = false ->
            (it_name it = None -> it_char it <> 0) /\ value_good strtod fmt16 w it /\
            (forall K, In K (absent_keys w it) -> ~ In K (map fst (save_assigns fmt16 w ob)))) (o_items ob) /\
  (* a variable is shared only between options of one type *)
  (forall it1 it2, In it1 (o_items ob) -> In it2 (o_items ob) -> active w it1 = true -> active w it2 = true ->
     tvar (w_sobjs w) it1 = tvar (w_sobjs w) it2 -> it_type it1 = it_type it2) /\
  args_good ob.

Lemma restored_same w it1 it2 : it_type it1 = it_type it2 -> tvar (w_sobjs w) it1 = tvar (w_sobjs w) it2 ->
  restored strtod fmt16 w it1 = restored strtod fmt16 w it2.
Proof.
  unfold restored, tvar, string_get, sobj_var. intros Ht. rewrite <- Ht.
  destruct (it_type it1); intros Hv; try (rewrite Hv; reflexivity). 
Qed.

Lemma in_save_assigns_item w ob it : In it (o_items ob) -> item_skipped w it = false ->
  In (full_key (lower (fst (save_prefix_base it))) (snd (save_prefix_base it)), Some (save_value fmt16 w it))
     (save_assigns fmt16 w ob).
Proof. intros H1 H2. unfold save_assigns. apply in_or_app. left. apply items_assigns_in; assumption. Qed.

(* sc_options_save, then sc_options_load and sc_options_load_args on a fresh, identically declared object *)
Theorem save_load_roundtrip (w w0 : world) (o o0 : nat) (f : str) :
  let ob := get_opts w o in
  let ob0 := get_opts w0 o0 in
  w_kvs w0 = w_kvs w -> w_sobjs w0 = w_sobjs w -> Forall2 same_decl (o_items ob0) (o_items ob) ->
  roundtrip_ok w ob -> bad_path f = false ->
  let w1 := snd (save fmt16 w o f) in
  let w0' := mkW (w_store w0) (w_sobjs w0) (w_nsobj w0) (w_opts w0) (w_kvs w0) (w_fs w1) (w_errno w0) in
  let r2 := fst (load_ini strtod w0' o0 f) in
  let w2 := snd (load_ini strtod w0' o0 f) in
  let r3 := fst (load_args w2 o0 f) in
  let w3 := snd (load_args w2 o0 f) in
  fst (save fmt16 w o f) = 0 /\ r2 = 0 /\ r3 = 0 /\
  (forall it, In it (o_items ob) -> active w it = true ->
     st_get (w_store w3) (tvar (w_sobjs w) it) = restored strtod fmt16 w it) /\
  o_items (get_opts w3 o0) = o_items ob /\
  o_args (get_opts w3 o0) = saved_args ob /\ o_first (get_opts w3 o0) = 0.
Proof.
  intros ob ob0 Hkv Hso Hdecl (Hlines & Hkeys & Hitems & Hshare & (Hfirst & Hlen & Hsome)) Hpath.
  set (A := save_assigns fmt16 w ob) in *.
  set (D := set_all A []).
  assert (Hsave : save fmt16 w o f = (0, mkW (w_store w) (w_sobjs w) (w_nsobj w) (w_opts w) (w_kvs w)
                                             ((f, save_text fmt16 w ob) :: w_fs w) (w_errno w))).
  { unfold save. rewrite Hpath. reflexivity. }
  rewrite Hsave. cbn [fst snd w_fs].
  assert (Hload : ini_load (save_text fmt16 w ob) = Some D) by (apply ini_load_saved; exact Hlines).
  (* sc_options_load *)
  assert (Hcond : Forall (item_cond strtod fmt16 w D) (o_items ob)).
  { rewrite Forall_forall in *. intros it Hin Hft. destruct (Hitems it Hin Hft) as (H1 & H2 & H3).
    split; [exact H1|]. split; [|split; [|exact H2]].
    - intros Hsk. apply lookup_entry; [exact Hkeys|]. apply in_save_assigns_item; assumption.
    - intros K HK. apply lookup_absent. apply H3. exact HK. }
  set (w0' := mkW (w_store w0) (w_sobjs w0) (w_nsobj w0) (w_opts w0) (w_kvs w0) ((f, save_text fmt16 w ob) :: w_fs w) (w_errno w0)).
  assert (Hli : load_ini strtod w0' o0 f =
                (0, set_store (set_opts w0' o0 (mkOpts (o_items ob) (o_first ob0) (o_args ob0) (o_alloced ob0)))
                              (fold_left (restore_one strtod fmt16 w) (o_items ob) (w_store w0)))).
  { unfold load_ini. cbn [w_fs w0' fs_get]. rewrite str_eqb_refl, Hload.
    change (get_opts w0' o0) with ob0. cbn [w_kvs w_sobjs w_store w0'].
    rewrite Hkv, Hso. rewrite (load_items_saved strtod fmt16 w D _ _ _ Hdecl Hcond). reflexivity. }
  rewrite Hli. cbn [fst snd].
  set (w2 := set_store _ _).
  (* sc_options_load_args *)
  assert (Hcount : dict_get D (full_key s_arguments s_count) = Some (Some (print_dec (saved_count ob)))).
  { apply lookup_entry; [exact Hkeys|]. unfold A, save_assigns. apply in_or_app. right. right. left. reflexivity. }
  assert (Hcnt : saved_count ob = Z.of_nat (length (saved_args ob))).
  { unfold saved_count, saved_args. rewrite skipn_length. lia. }
  assert (Hla : load_args w2 o0 f = (0, set_opts w2 o0 (mkOpts (o_items ob) 0 (saved_args ob) true))).
  { unfold load_args. cbn [w_fs w2 set_store set_opts w0' fs_get]. rewrite str_eqb_refl, Hload.
    unfold ini_getstring. rewrite strlwc_key. fold s_arguments. rewrite Hcount.
    rewrite ini_int_print_dec by (unfold INT_MIN, INT_MAX in *; rewrite Hcnt; unfold saved_args; rewrite skipn_length; lia).
    replace (saved_count ob <? 0) with false by lia. cbn [orb].
    rewrite Hcnt, Nat2Z.id.
    rewrite (load_args_loop_ok D (saved_args ob) 0).
    - assert (Hg : o_items (get_opts w2 o0) = o_items ob).
      { unfold w2, get_opts, set_opts, set_store. cbn [w_opts al_get al_set]. rewrite Nat.eqb_refl. reflexivity. }
      rewrite Hg. reflexivity.
    - intros j s Hj. rewrite Forall_forall in Hsome. destruct s as [t|]; [|exfalso; apply (Hsome None); [eapply nth_error_In; exact Hj|reflexivity]].
      exists t. split; [reflexivity|]. apply lookup_entry; [exact Hkeys|].
      unfold A, save_assigns. apply in_or_app. right. right. right. apply args_assigns_in. exact Hj. }
  rewrite Hla. cbn [fst snd].
  split; [reflexivity|]. split; [reflexivity|]. split; [reflexivity|].
  assert (Hget : get_opts (set_opts w2 o0 (mkOpts (o_items ob) 0 (saved_args ob) true)) o0 = mkOpts (o_items ob) 0 (saved_args ob) true).
  { unfold get_opts, set_opts. cbn [w_opts al_get al_set]. rewrite Nat.eqb_refl. reflexivity. }
  rewrite Hget. cbn [o_items o_args o_first]. split; [|repeat split; reflexivity].
  intros it Hin Hact. cbn [w_store set_opts w2 set_store].
  apply fold_restore_get.
  - apply existsb_exists. exists it. split; [exact Hin|]. unfold targets. rewrite Hact, Nat.eqb_refl. reflexivity.
  - intros it' Hin' Ht. unfold targets in Ht. apply andb_true_iff in Ht. destruct Ht as [Ha Hx]. apply Nat.eqb_eq in Hx.
    apply restored_same; [|exact Hx]. apply Hshare; assumption.
Qed.


(* what "restored" means for each option type, in terms of the variables *)
Lemma restored_meaning w st' it :
  st_get st' (tvar (w_sobjs w) it) = restored strtod fmt16 w it ->
  match it_type it with
  | TSwitch | TInt | TSize | TKeyvalue => st_int st' (it_var it) = st_int (w_store w) (it_var it)
  | TBool => st_int st' (it_var it) = if st_int (w_store w) (it_var it) =? 0 then 0 else 1
  | TString => st_str st' (tvar (w_sobjs w) it) = string_get w (it_var it)
  | TDouble => st_dbl st' (it_var it) = fst (strtod (fmt16 (st_dbl (w_store w) (it_var it))))
  | _ => True
  end.
Proof.
  unfold restored, tvar, st_int, st_str, st_dbl. destruct (it_type it); intros H; try exact I; rewrite H; reflexivity.
Qed.

(* ---- an executable guard: roundtrip_ok_b w ob = true implies the conditions of the theorem ---- *)
Definition value_good_b (w : world) (it : item) : bool :=
  let b := st_int (w_store w) (it_var it) in
  match it_type it with
  | TSwitch => (0 <=? b) && (b <=? INT_MAX)
  | TInt => (INT_MIN <=? b) && (b <=? INT_MAX)
  | TSize => (0 <=? b) && (b <=? LONG_MAX)
  | TDouble => let r := strtod (fmt16 (st_dbl (w_store w) (it_var it))) in negb (dbl_error (fst r) (snd r))
  | TKeyvalue =>
      match it_sval it, al_get (w_kvs w) (it_kv it) with
      | Some key, Some t => match kv_find t key with Some (Some x) => x =? b | _ => false end
      | _, _ => false
      end
  | _ => true
  end.

Lemma value_good_b_ok w it : value_good_b w it = true -> value_good strtod fmt16 w it.
Proof.
  unfold value_good_b, value_good. destruct (it_type it); intros H; try exact I; try lia.
  - apply negb_true_iff in H. exact H.
  - destruct (it_sval it) as [key|]; [|discriminate H]. destruct (al_get (w_kvs w) (it_kv it)) as [t|]; [|discriminate H].
    destruct (kv_find t key) as [[x|]|] eqn:E; try discriminate H. apply Z.eqb_eq in H. subst x.
    exists key, t. repeat split; assumption.
Qed.

(* the guard on a double (57534b2): it is enough that libc reads the "%.16g" text back as a finite nonzero value -
   normal or subnormal, whether or not ERANGE is raised - or does not raise ERANGE at all *)
Lemma double_value_good w it : it_type it = TDouble ->
  let r := strtod (fmt16 (st_dbl (w_store w) (it_var it))) in
  (0 < dbl_mag (fst r) < DBL_INF \/ snd r = false) -> value_good strtod fmt16 w it.
Proof.
  intros Ht r H. unfold value_good. rewrite Ht. fold r. cbv zeta. destruct H as [H|H].
  - apply dbl_finite_nonzero_accepted. exact H.
  - rewrite H. unfold dbl_error. reflexivity.
Qed.

Definition otype_eq_dec (a b : otype) : {a = b} + {a <> b}.
Proof. decide equality. Defined.

Definition item_ok_b (w : world) (ob : opts) (it : item) : bool :=
  if file_type (it_type it) then true else
  (match it_name it with None => negb (it_char it =? 0) | Some _ => true end)
  && value_good_b w it
  && forallb (fun K => negb (mem_b K (map fst (save_assigns fmt16 w ob)))) (absent_keys w it).

Definition share_ok_b (w : world) (its : list item) : bool :=
  forallb (fun it1 => forallb (fun it2 =>
     negb (active w it1 && active w it2 && Nat.eqb (tvar (w_sobjs w) it1) (tvar (w_sobjs w) it2))
     || otype_eqb (it_type it1) (it_type it2)) its) its.

Definition args_good_b (ob : opts) : bool :=
  (0 <=? o_first ob) && (o_first ob <=? Z.of_nat (length (o_args ob))) && (Z.of_nat (length (o_args ob)) <=? INT_MAX)
  && forallb (fun a => match a with Some _ => true | None => false end) (saved_args ob).

Definition roundtrip_ok_b (w : world) (ob : opts) : bool :=
  forallb iline_ok (save_doc fmt16 w ob)
  && keys_good_b (save_assigns fmt16 w ob)
  && forallb (item_ok_b w ob) (o_items ob)
  && share_ok_b w (o_items ob)
  && args_good_b ob.

Lemma otype_eqb_eq a b : otype_eqb a b = true -> a = b.
Proof. destruct a, b; intros H; try discriminate H; reflexivity. Qed.

Theorem roundtrip_ok_b_ok w ob : roundtrip_ok_b w ob = true -> roundtrip_ok w ob.
Proof.
  unfold roundtrip_ok_b. intros H.
  apply andb_true_iff in H. destruct H as [H H5]. apply andb_true_iff in H. destruct H as [H H4].
  apply andb_true_iff in H. destruct H as [H H3]. apply andb_true_iff in H. destruct H as [H1 H2].
  split; [exact H1|]. split; [apply keys_good_b_ok; exact H2|]. split; [|split].
  - apply Forall_forall. intros it Hin Hft. rewrite forallb_forall in H3. specialize (H3 it Hin).
    unfold item_ok_b in H3. rewrite Hft in H3.
    apply andb_true_iff in H3. destruct H3 as [H3 Hc]. apply andb_true_iff in H3. destruct H3 as [Ha Hb].
    split; [|split; [apply value_good_b_ok; exact Hb|]].
    + intros Hn. rewrite Hn in Ha. apply negb_true_iff, Z.eqb_neq in Ha. exact Ha.
    + intros K HK HA. rewrite forallb_forall in Hc. specialize (Hc K HK). apply mem_b_In in HA. rewrite HA in Hc. discriminate Hc.
  - intros it1 it2 Hi1 Hi2 Ha1 Ha2 Hv. unfold share_ok_b in H4. rewrite forallb_forall in H4. specialize (H4 it1 Hi1).
    rewrite forallb_forall in H4. specialize (H4 it2 Hi2). rewrite Ha1, Ha2, Hv, Nat.eqb_refl in H4. cbn in H4.
    apply otype_eqb_eq. exact H4.
  - unfold args_good_b in H5. apply andb_true_iff in H5. destruct H5 as [H5 Hd]. apply andb_true_iff in H5. destruct H5 as [H5 Hc].
    apply andb_true_iff in H5. destruct H5 as [Ha Hb]. split; [lia|]. split; [lia|].
    apply Forall_forall. intros a Hin. rewrite forallb_forall in Hd. specialize (Hd a Hin). destruct a; [discriminate|discriminate Hd].
Qed.

End RoundTrip.
