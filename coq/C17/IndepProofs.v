(* C17 - a successful sc_options_parse / sc_options_load stores what the text denotes, whatever the application's variables
   hold before the call and whatever the library remembers of earlier calls.  Two worlds that agree on the declarations, the
   key-value tables and the files - but hold ARBITRARY values in the variables, arbitrary errno and arbitrary stored key texts
   (item->string_value) - give the same return value, and afterwards every variable is in one of three cases: it holds the same
   value in both worlds (an option of the text assigned it), it was not touched in either, or it was counted up by the same
   number of occurrences (switches, callbacks) from whatever it held.  The model has no stored copy of a string option at all:
   sc_options_string_set writes the variable unconditionally (tie T1: C17_gen_string_holder). *)
From Coq Require Import ZArith List Bool Lia.
From ScV Require Import Base.CInt C17.OptionsModel.
Import ListNotations.
Local Open Scope Z_scope.

Definition int_of (x : value) : Z := match x with VI z => z | _ => 0 end.

Lemma st_int_int_of st v : st_int st v = int_of (st_get st v).
Proof. reflexivity. Qed.

Lemma st_get_set st v x v' : st_get (st_set st v x) v' = if Nat.eqb v v' then x else st_get st v'.
Proof. reflexivity. Qed.

(* one variable: before the call a0 / b0 in the two worlds, now a / b *)
Inductive vrel (a0 b0 a b : value) : Prop :=
| VEq : a = b -> vrel a0 b0 a b                                                   (* assigned by the text *)
| VSame : a = a0 -> b = b0 -> vrel a0 b0 a b                                        (* untouched *)
| VCnt (n : Z) : a = VI (int_of a0 + n) -> b = VI (int_of b0 + n) -> vrel a0 b0 a b. (* counted up n times *)

Definition srel (s10 s20 s1 s2 : store) : Prop := forall v, vrel (st_get s10 v) (st_get s20 v) (st_get s1 v) (st_get s2 v).

Lemma srel_refl s1 s2 : srel s1 s2 s1 s2.
Proof. intros v. apply VSame; reflexivity. Qed.

Lemma srel_set s10 s20 s1 s2 v x : srel s10 s20 s1 s2 -> srel s10 s20 (st_set s1 v x) (st_set s2 v x).
Proof. intros H v'. rewrite !st_get_set. destruct (Nat.eqb v v'); [apply VEq; reflexivity|apply H]. Qed.

Lemma srel_add s10 s20 s1 s2 v n : srel s10 s20 s1 s2 ->
  srel s10 s20 (st_set s1 v (VI (st_int s1 v + n))) (st_set s2 v (VI (st_int s2 v + n))).
Proof.
  intros H v'. rewrite !st_get_set. destruct (Nat.eqb v v') eqn:E; [|apply H].
  apply Nat.eqb_eq in E. subst v'. rewrite !st_int_int_of. destruct (H v) as [He|Ha Hb|m Ha Hb].
  - apply VEq. rewrite He. reflexivity.
  - apply (VCnt _ _ _ _ n); rewrite ?Ha, ?Hb; reflexivity.
  - apply (VCnt _ _ _ _ (m + n)); rewrite ?Ha, ?Hb; cbn [int_of]; f_equal; lia.
Qed.

Lemma srel_keep s10 s20 s1 s2 v : srel s10 s20 s1 s2 ->
  srel s10 s20 (st_set s1 v (VI (st_int s1 v))) (st_set s2 v (VI (st_int s2 v))).
Proof.
  intros H. pose proof (srel_add s10 s20 s1 s2 v 0 H) as K. rewrite !Z.add_0_r in K. exact K.
Qed.

(* ---------- the declarations up to the stored key texts ---------- *)
Definition it_core (a b : item) : Prop :=
  it_type a = it_type b /\ it_char a = it_char b /\ it_name a = it_name b /\ it_var a = it_var b /\ it_hasarg a = it_hasarg b /\ it_kv a = it_kv b.

Definition orel (a b : opts) : Prop :=
  Forall2 it_core (o_items a) (o_items b) /\ o_first a = o_first b /\ o_args a = o_args b /\ o_alloced a = o_alloced b.

Definition olrel (a b : list (nat * opts)) : Prop := Forall2 (fun x y => fst x = fst y /\ orel (snd x) (snd y)) a b.

Definition wrel (w1 w2 : world) : Prop :=
  w_sobjs w1 = w_sobjs w2 /\ w_nsobj w1 = w_nsobj w2 /\ olrel (w_opts w1) (w_opts w2) /\ w_kvs w1 = w_kvs w2 /\ w_fs w1 = w_fs w2.

Lemma it_core_refl a : it_core a a.
Proof. repeat split. Qed.

Lemma orel_empty : orel empty_opts empty_opts.
Proof. repeat split. constructor. Qed.

Lemma get_opts_rel w1 w2 o : olrel (w_opts w1) (w_opts w2) -> orel (get_opts w1 o) (get_opts w2 o).
Proof.
  unfold get_opts. generalize (w_opts w1) (w_opts w2). intros l1 l2 H. induction H as [|[k1 x1] [k2 x2] r1 r2 [Hk Hx] _ IH]; [apply orel_empty|].
  cbn [fst snd] in *. subst k2. cbn [al_get]. destruct (Nat.eqb k1 o); [exact Hx|exact IH].
Qed.

Lemma olrel_set l1 l2 o x1 x2 : olrel l1 l2 -> orel x1 x2 -> olrel (al_set l1 o x1) (al_set l2 o x2).
Proof. intros H Hx. constructor; [split; [reflexivity|exact Hx]|exact H]. Qed.

Lemma find_short_rel its1 its2 c : Forall2 it_core its1 its2 -> find_short its1 c = find_short its2 c.
Proof.
  intros H. induction H as [|a b r1 r2 Hab _ IH]; [reflexivity|]. cbn [find_short].
  destruct Hab as (_ & Hc & _). rewrite Hc, IH. reflexivity.
Qed.

Lemma nth_error_rel its1 its2 k : Forall2 it_core its1 its2 ->
  match nth_error its1 k, nth_error its2 k with
  | Some a, Some b => it_core a b
  | None, None => True
  | _, _ => False
  end.
Proof.
  intros H. revert k. induction H as [|a b r1 r2 Hab _ IH]; intros k; [destruct k; exact I|].
  destruct k; [exact Hab|apply IH].
Qed.

Lemma replace_nth_rel its1 its2 k a b : Forall2 it_core its1 its2 -> it_core a b -> Forall2 it_core (replace_nth its1 k a) (replace_nth its2 k b).
Proof.
  intros H Hab. revert k. induction H as [|x y r1 r2 Hxy Hr IH]; intros k; [constructor|].
  destruct k; cbn [replace_nth]; constructor; auto.
Qed.

Lemma set_sval_core a b s t : it_core a b -> it_core (set_sval a s) (set_sval b t).
Proof. intros (H1 & H2 & H3 & H4 & H5 & H6). repeat split; assumption. Qed.

Section Indep.
Variable strtod : str -> Z * bool.

(* ---------- sc_options_load_ini ---------- *)
Ltac fin Hs := cbn [fst snd]; repeat split; try reflexivity; try assumption;
  try (apply srel_set; exact Hs); try (apply srel_keep; exact Hs); try (apply srel_add; exact Hs); try congruence.

Lemma load_item_rel d kvs sobjs s10 s20 s1 s2 a b : it_core a b -> srel s10 s20 s1 s2 ->
  let r1 := load_item strtod d kvs sobjs s1 a in let r2 := load_item strtod d kvs sobjs s2 b in
  fst (fst r1) = fst (fst r2) /\ srel s10 s20 (snd (fst r1)) (snd (fst r2)) /\ it_core (snd r1) (snd r2).
Proof.
  intros Hc Hs. pose proof Hc as (Ht & Hch & Hn & Hv & Hh & Hk).
  unfold load_item. cbv zeta. rewrite <- Ht, <- Hch, <- Hn, <- Hv, <- Hk.
  destruct (file_type (it_type a)); [fin Hs|].
  set (fs := if it_char a =? 0 then None else _). set (fl := match it_name a with None => None | Some n => _ end).
  destruct fs as [ks|], fl as [kl|]; try solve [fin Hs];
  (match goal with |- context [ini_getstring d ?k] => destruct (ini_getstring d k) as [[v|]|] end; try solve [fin Hs];
   destruct (it_type a) eqn:Ety; try solve [fin Hs];
   [ destruct (ini_int v) as [x e]; destruct ((x <=? 0) || e); [destruct ((ini_boolean v =? -1) || e)|]; fin Hs
   | destruct (ini_boolean v =? -1); fin Hs
   | destruct (ini_int v) as [x e]; fin Hs
   | destruct (ini_sizet v) as [x e]; fin Hs
   | destruct (strtod v) as [x e]; fin Hs
   | unfold kv_get_int_check; destruct (kv_find _ v) as [[x|]|]; cbn [fst snd Z.eqb]; fin Hs ]).
Qed.

Lemma load_items_rel d kvs sobjs s10 s20 : forall its1 its2 s1 s2, Forall2 it_core its1 its2 -> srel s10 s20 s1 s2 ->
  let r1 := load_items strtod d kvs sobjs s1 its1 in let r2 := load_items strtod d kvs sobjs s2 its2 in
  fst (fst r1) = fst (fst r2) /\ srel s10 s20 (snd (fst r1)) (snd (fst r2)) /\ Forall2 it_core (snd r1) (snd r2).
Proof.
  intros its1 its2 s1 s2 H. revert s1 s2. induction H as [|a b r1 r2 Hab Hr IH]; intros s1 s2 Hs; [cbn; repeat split; [exact Hs|constructor]|].
  cbn [load_items]. pose proof (load_item_rel d kvs sobjs s10 s20 s1 s2 a b Hab Hs) as L. cbv zeta in L.
  destruct (load_item strtod d kvs sobjs s1 a) as [[ok1 t1] a']. destruct (load_item strtod d kvs sobjs s2 b) as [[ok2 t2] b'].
  cbn [fst snd] in L. destruct L as (L1 & L2 & L3). subst ok2. destruct ok1.
  - specialize (IH t1 t2 L2). cbv zeta in IH.
    destruct (load_items strtod d kvs sobjs t1 r1) as [[rc1 u1] x1]. destruct (load_items strtod d kvs sobjs t2 r2) as [[rc2 u2] x2].
    cbn [fst snd] in *. destruct IH as (I1 & I2 & I3). repeat split; [exact I1|exact I2|constructor; assumption].
  - cbn [fst snd]. repeat split; [exact L2|constructor; assumption].
Qed.

Lemma load_ini_rel s10 s20 w1 w2 o f : wrel w1 w2 -> srel s10 s20 (w_store w1) (w_store w2) ->
  let r1 := load_ini strtod w1 o f in let r2 := load_ini strtod w2 o f in
  fst r1 = fst r2 /\ wrel (snd r1) (snd r2) /\ srel s10 s20 (w_store (snd r1)) (w_store (snd r2)).
Proof.
  intros Hw Hs. pose proof Hw as (Hso & Hns & Hol & Hkv & Hfs). unfold load_ini. cbv zeta. rewrite <- Hfs.
  destruct (fs_get (w_fs w1) f) as [bytes|]; [|fin Hs].
  destruct (ini_load bytes) as [d|]; [|fin Hs].
  pose proof (get_opts_rel w1 w2 o Hol) as (Hi & Hf & Ha & Hal).
  pose proof (load_items_rel d (w_kvs w1) (w_sobjs w1) s10 s20 _ _ _ _ Hi Hs) as L. cbv zeta in L. rewrite <- Hkv, <- Hso.
  destruct (load_items strtod d (w_kvs w1) (w_sobjs w1) (w_store w1) (o_items (get_opts w1 o))) as [[rc1 t1] x1].
  destruct (load_items strtod d (w_kvs w1) (w_sobjs w1) (w_store w2) (o_items (get_opts w2 o))) as [[rc2 t2] x2].
  cbn [fst snd] in *. destruct L as (L1 & L2 & L3). repeat split; try assumption.
  cbn. apply olrel_set; [exact Hol|]. repeat split; assumption.
Qed.

(* ---------- sc_options_parse ---------- *)
Lemma wrel_set_store w1 w2 t1 t2 : wrel w1 w2 -> wrel (set_store w1 t1) (set_store w2 t2).
Proof. intros H. exact H. Qed.
Lemma wrel_set_errno w1 w2 e1 e2 : wrel w1 w2 -> wrel (set_errno w1 e1) (set_errno w2 e2).
Proof. intros H. exact H. Qed.

Ltac fin3 Hw Hs := cbn [fst snd]; split; [reflexivity|split; [exact Hw|
  first [exact Hs | apply srel_set; exact Hs | apply srel_add; exact Hs | apply srel_keep; exact Hs
        | cbn; first [exact Hs | apply srel_set; exact Hs | apply srel_add; exact Hs | apply srel_keep; exact Hs]]]].

Lemma apply_item_rel s10 s20 w1 w2 o k a b arg : wrel w1 w2 -> srel s10 s20 (w_store w1) (w_store w2) -> it_core a b ->
  let r1 := apply_item strtod w1 o k a arg in let r2 := apply_item strtod w2 o k b arg in
  fst r1 = fst r2 /\ wrel (snd r1) (snd r2) /\ srel s10 s20 (w_store (snd r1)) (w_store (snd r2)).
Proof.
  intros Hw Hs Hc. pose proof Hw as (Hso & Hns & Hol & Hkv & Hfs). pose proof Hc as (Ht & Hch & Hn & Hv & Hh & Hk).
  unfold apply_item. cbv zeta. rewrite <- Ht, <- Hv, <- Hk.
  destruct (it_type a) eqn:Ety.
  - fin3 Hw Hs.
  - destruct arg as [x|]; [destruct (first_in s_yes x); [|destruct (first_in s_no x)]|]; fin3 Hw Hs.
  - destruct arg as [x|]; [|fin3 Hw Hs].
    destruct (c_strtol 0 x) as [l e]. destruct ((l <? INT_MIN) || (l >? INT_MAX) || (e =? ERANGE)); fin3 Hw Hs.
  - destruct arg as [x|]; [|fin3 Hw Hs].
    destruct (c_strtol 0 x) as [l e]. destruct ((l <? 0) || (e =? ERANGE)); fin3 Hw Hs.
  - destruct arg as [x|]; [|fin3 Hw Hs].
    destruct (strtod x) as [y e]. destruct (dbl_error y e); fin3 Hw Hs.
  - unfold string_set. rewrite <- Hso. fin3 Hw Hs.
  - destruct arg as [x|]; [|fin3 Hw Hs].
    pose proof (load_ini_rel s10 s20 w1 w2 o x Hw Hs) as L. cbv zeta in L.
    destruct (load_ini strtod w1 o x) as [rc1 u1]. destruct (load_ini strtod w2 o x) as [rc2 u2]. cbn [fst snd] in L.
    destruct L as (L1 & L2 & L3). subst rc2. destruct (rc1 =? 0); [|destruct (rc1 =? R_CRASH)]; cbn [fst snd]; (split; [reflexivity|split; assumption]).
  - fin3 Hw Hs.
  - destruct (cb_fails arg); fin3 Hw Hs.
  - destruct arg as [x|]; [|fin3 Hw Hs].
    rewrite <- Hkv. unfold kv_get_int_check. destruct (kv_find _ x) as [[y|]|]; cbn [fst snd Z.eqb]; try solve [fin3 Hw Hs].
    split; [reflexivity|]. split; [|cbn; apply srel_set; exact Hs].
    split; [exact Hso|]. split; [exact Hns|]. split; [|split; [exact Hkv|exact Hfs]].
    cbn. apply olrel_set; [exact Hol|].
    pose proof (get_opts_rel w1 w2 o Hol) as (Hi & Hf & Ha & Hal). unfold get_opts in *.
    split; [|split; [exact Hf|split; [exact Ha|exact Hal]]]. cbn. apply replace_nth_rel; [exact Hi|]. apply set_sval_core. exact Hc.
Qed.

Lemma parse_loop_rel s10 s20 o evs : forall w1 w2, wrel w1 w2 -> srel s10 s20 (w_store w1) (w_store w2) ->
  let r1 := parse_loop strtod w1 o evs in let r2 := parse_loop strtod w2 o evs in
  fst (fst r1) = fst (fst r2) /\ snd r1 = snd r2 /\ wrel (snd (fst r1)) (snd (fst r2)) /\ srel s10 s20 (w_store (snd (fst r1))) (w_store (snd (fst r2))).
Proof.
  induction evs as [|ev r IH]; intros w1 w2 Hw Hs; [cbn [parse_loop fst snd]; split; [reflexivity|split; [reflexivity|split; assumption]]|].
  pose proof Hw as (Hso & Hns & Hol & Hkv & Hfs). pose proof (get_opts_rel w1 w2 o Hol) as (Hi & _).
  assert (Step : forall k arg,
    let r1 := match nth_error (o_items (get_opts w1 o)) k with
              | None => (R_CRASH, w1, r)
              | Some it => let '(rc, w') := apply_item strtod w1 o k it arg in if rc =? 0 then parse_loop strtod w' o r else (rc, w', r) end in
    let r2 := match nth_error (o_items (get_opts w2 o)) k with
              | None => (R_CRASH, w2, r)
              | Some it => let '(rc, w') := apply_item strtod w2 o k it arg in if rc =? 0 then parse_loop strtod w' o r else (rc, w', r) end in
    fst (fst r1) = fst (fst r2) /\ snd r1 = snd r2 /\ wrel (snd (fst r1)) (snd (fst r2)) /\ srel s10 s20 (w_store (snd (fst r1))) (w_store (snd (fst r2)))).
  { intros k arg. pose proof (nth_error_rel _ _ k Hi) as N.
    destruct (nth_error (o_items (get_opts w1 o)) k) as [a|], (nth_error (o_items (get_opts w2 o)) k) as [b|]; try contradiction.
    - pose proof (apply_item_rel s10 s20 w1 w2 o k a b arg Hw Hs N) as A. cbv zeta in A.
      destruct (apply_item strtod w1 o k a arg) as [rc1 u1]. destruct (apply_item strtod w2 o k b arg) as [rc2 u2]. cbn [fst snd] in A.
      destruct A as (A1 & A2 & A3). subst rc2. cbv zeta. destruct (rc1 =? 0); [apply IH; assumption|(cbn [fst snd]; split; [reflexivity|split; [reflexivity|split; assumption]])].
    - cbv zeta. (cbn [fst snd]; split; [reflexivity|split; [reflexivity|split; assumption]]). }
  destruct ev as [|c|c arg|idx arg]; cbn [parse_loop]; cbv zeta.
  - (cbn [fst snd]; split; [reflexivity|split; [reflexivity|split; assumption]]).
  - (cbn [fst snd]; split; [reflexivity|split; [reflexivity|split; assumption]]).
  - rewrite <- (find_short_rel _ _ c Hi). destruct (find_short (o_items (get_opts w1 o)) c) as [k|]; [apply Step|(cbn [fst snd]; split; [reflexivity|split; [reflexivity|split; assumption]])].
  - apply Step.
Qed.

(* THE statement for the command line: ANY two worlds with the same declarations, tables and files *)
Theorem parse_independent_of_variables w1 w2 o evs oe av : wrel w1 w2 ->
  let r1 := parse strtod w1 o evs oe av in let r2 := parse strtod w2 o evs oe av in
  fst (fst r1) = fst (fst r2) /\ snd r1 = snd r2 /\ wrel (snd (fst r1)) (snd (fst r2)) /\
  srel (w_store w1) (w_store w2) (w_store (snd (fst r1))) (w_store (snd (fst r2))).
Proof.
  intros Hw. pose proof (parse_loop_rel (w_store w1) (w_store w2) o evs w1 w2 Hw (srel_refl _ _)) as P. cbv zeta in P.
  unfold parse. cbv zeta.
  destruct (parse_loop strtod w1 o evs) as [[rc1 u1] l1]. destruct (parse_loop strtod w2 o evs) as [[rc2 u2] l2]. cbn [fst snd] in P.
  destruct P as (P1 & P2 & P3 & P4). subst rc2 l2. cbn [fst snd]. split; [reflexivity|]. split; [reflexivity|]. split; [|exact P4].
  destruct P3 as (Hso & Hns & Hol & Hkv & Hfs). split; [exact Hso|]. split; [exact Hns|]. split; [|split; [exact Hkv|exact Hfs]].
  cbn. apply olrel_set; [exact Hol|].
  pose proof (get_opts_rel u1 u2 o Hol) as (Hi & _). split; [exact Hi|]. repeat split.
Qed.

(* and for a configuration file *)
Theorem load_independent_of_variables w1 w2 o f : wrel w1 w2 ->
  let r1 := load_ini strtod w1 o f in let r2 := load_ini strtod w2 o f in
  fst r1 = fst r2 /\ wrel (snd r1) (snd r2) /\ srel (w_store w1) (w_store w2) (w_store (snd r1)) (w_store (snd r2)).
Proof. intros Hw. apply load_ini_rel; [exact Hw|apply srel_refl]. Qed.

(* what `assigned by the text` means for a string option: the variable holds the argument, whatever it held *)
Theorem string_option_stores w o k it arg : it_type it = TString ->
  let r := apply_item strtod w o k it arg in
  fst r = 0 /\ st_get (w_store (snd r)) (sobj_var w (it_var it)) = VS arg.
Proof.
  intros Ht. unfold apply_item. rewrite Ht. cbv zeta. cbn [fst snd]. split; [reflexivity|].
  unfold string_set, sobj_var. cbn. rewrite Nat.eqb_refl. reflexivity.
Qed.

End Indep.
