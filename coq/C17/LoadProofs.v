(* C17 - loading the text sc_options_save wrote: the dictionary iniparser builds, the key every item
   looks up, and the value each option type reads back. *)
From Coq Require Import ZArith List Bool Lia.
From ScV Require Import Base.CInt C17.OptionsModel C17.NumProofs C17.IniProofs C17.SaveProofs.
Import ListNotations.
Local Open Scope Z_scope.

(* ---- keys of a list of dictionary assignments ---- *)
Definition is_entry (kv : str * option str) : bool := match snd kv with Some _ => true | None => false end.
Definition entry_keys (a : list (str * option str)) : list str := map fst (filter is_entry a).
Definition section_keys (a : list (str * option str)) : list str := map fst (filter (fun kv => negb (is_entry kv)) a).

(* cfc9e38: a section heading no longer erases an entry of the same name, so all that is needed is that no two
   ENTRIES share a (lower-cased) key; a heading may be named like an entry ("[pre] b = .." and "[pre:B]") *)
Definition keys_good (a : list (str * option str)) : Prop := NoDup (entry_keys a).

Lemma keys_good_tail kv a : keys_good (kv :: a) -> keys_good a.
Proof.
  unfold keys_good, entry_keys. cbn [filter]. destruct (is_entry kv); [|tauto].
  cbn [map]. intros H. inversion H; assumption.
Qed.

Lemma lookup_entry a : forall d K v, keys_good a -> In (K, Some v) a -> dict_get (set_all a d) K = Some (Some v).
Proof.
  induction a as [|[k0 v0] a IH]; intros d K v Hg Hin; [contradiction|].
  destruct Hin as [Heq|Hin].
  - inversion Heq; subst. unfold set_all. cbn [fold_left fst snd].
    unfold keys_good, entry_keys in Hg. cbn [filter is_entry snd map fst] in Hg.
    inversion Hg as [|? ? Hni _]; subst.
    apply (dict_get_set_all_kept a).
    + intros y Hy. apply Hni. apply in_map_iff. exists (K, Some y). split; [reflexivity|].
      apply filter_In. split; [exact Hy|reflexivity].
    + apply dict_get_put_entry.
  - unfold set_all. cbn [fold_left]. apply IH; [apply (keys_good_tail _ _ Hg)|exact Hin].
Qed.

Lemma lookup_absent a K : ~ In K (map fst a) -> dict_get (set_all a []) K = None.
Proof. intros H. rewrite dict_get_set_all_notin by exact H. reflexivity. Qed.

(* boolean versions, for hypotheses that can be evaluated *)
Fixpoint mem_b (k : str) (l : list str) : bool := match l with [] => false | x :: r => str_eqb k x || mem_b k r end.
Fixpoint nodup_b (l : list str) : bool := match l with [] => true | x :: r => negb (mem_b x r) && nodup_b r end.

Lemma mem_b_In k l : mem_b k l = true <-> In k l.
Proof.
  induction l as [|x r IH]; cbn; [split; [discriminate|contradiction]|].
  rewrite orb_true_iff, IH, str_eqb_eq. split; intros [H|H]; auto.
Qed.

Lemma nodup_b_NoDup l : nodup_b l = true -> NoDup l.
Proof.
  induction l as [|x r IH]; cbn; [constructor|]. intros H. apply andb_true_iff in H. destruct H as [H1 H2].
  constructor; [|apply IH; exact H2]. intros Hin. apply mem_b_In in Hin. rewrite Hin in H1. discriminate H1.
Qed.

Definition keys_good_b (a : list (str * option str)) : bool := nodup_b (entry_keys a).

Lemma keys_good_b_ok a : keys_good_b a = true -> keys_good a.
Proof. apply nodup_b_NoDup. Qed.

(* ---- strrchr (name, ':') ---- *)
Lemma rsplit_colon_some s : forall acc p b, rsplit_colon s acc = Some (p, b) -> acc ++ s = p ++ cCOLON :: b.
Proof.
  induction s as [|c r IH]; intros acc p b H; [discriminate H|].
  cbn [rsplit_colon] in H. destruct (rsplit_colon r (acc ++ [c])) as [[p' b']|] eqn:E.
  - inversion H; subst. apply IH in E. rewrite <- app_assoc in E. exact E.
  - destruct (Z.eqb_spec c cCOLON) as [->|]; [|discriminate H]. inversion H; subst. reflexivity.
Qed.

Lemma rsplit_colon_none s : forall acc, rsplit_colon s acc = None -> has_colon s = false.
Proof.
  induction s as [|c r IH]; intros acc H; [reflexivity|].
  cbn [rsplit_colon] in H. destruct (rsplit_colon r (acc ++ [c])) as [[p' b']|] eqn:E; [discriminate H|].
  destruct (Z.eqb_spec c cCOLON) as [->|Hn]; [discriminate H|].
  unfold has_colon in *. cbn [existsb]. rewrite (IH _ E). rewrite orb_false_r. apply Z.eqb_neq. intros Hc. symmetry in Hc. contradiction.
Qed.

Lemma has_colon_app p b : has_colon (p ++ cCOLON :: b) = true.
Proof. unfold has_colon. rewrite existsb_app. cbn. rewrite orb_true_r. reflexivity. Qed.

(* the key an item is found under when the file was written by sc_options_save *)
Definition written_lookup (it : item) : str :=
  match it_name it with Some n => long_key n | None => short_key (it_char it) end.

Lemma written_lookup_spec it p b : save_prefix_base it = (p, b) -> written_lookup it = p ++ cCOLON :: b.
Proof.
  unfold save_prefix_base, written_lookup. destruct (it_name it) as [n|].
  - destruct (rsplit_colon n []) as [[p' b']|] eqn:E; intros H; inversion H; subst.
    + apply rsplit_colon_some in E. cbn [app] in E. subst n. unfold long_key. rewrite has_colon_app. reflexivity.
    + apply rsplit_colon_none in E. unfold long_key. rewrite E. reflexivity.
  - intros H. inversion H; subst. unfold short_key. reflexivity.
Qed.

Lemma to_lower_colon : to_lower cCOLON = cCOLON.
Proof. reflexivity. Qed.

Lemma strlwc_key p b : strlwc (p ++ cCOLON :: b) = full_key (lower p) b.
Proof.
  unfold strlwc, full_key, lower. rewrite <- firstn_map. rewrite map_app. cbn [map]. rewrite to_lower_colon. reflexivity.
Qed.

Lemma lower_idem s : lower (lower s) = lower s.
Proof.
  unfold lower. rewrite map_map. apply map_ext. intros c. unfold to_lower.
  destruct ((65 <=? c) && (c <=? 90)) eqn:E; [|rewrite E; reflexivity].
  replace ((65 <=? c + 32) && (c + 32 <=? 90)) with false by lia. reflexivity.
Qed.

Section Load.
Variable strtod : str -> Z * bool.
Variable fmt16 : Z -> str.

(* ---- the dictionary assignments of a saved file ---- *)
Fixpoint items_assigns (w : world) (its : list item) (last_prefix : option str) : list (str * option str) :=
  match its with
  | [] => []
  | it :: r =>
      if item_skipped w it then items_assigns w r last_prefix else
      let '(p, b) := save_prefix_base it in
      (match last_prefix with
       | Some q => if str_eqb p q then [] else [(lower p, None)]
       | None => [(lower p, None)]
       end) ++ (full_key (lower p) b, Some (save_value fmt16 w it)) :: items_assigns w r (Some p)
  end.

Definition s_arguments : str := lower s_Arguments.

Fixpoint args_assigns (i : Z) (args : list (option str)) : list (str * option str) :=
  match args with
  | [] => []
  | a :: r => (full_key s_arguments (print_dec i), Some (match a with Some s => s | None => s_null end))
              :: args_assigns (i + 1) r
  end.

Definition saved_count (ob : opts) : Z := Z.of_nat (length (o_args ob)) - o_first ob.
Definition saved_args (ob : opts) : list (option str) := skipn (Z.to_nat (o_first ob)) (o_args ob).

Definition save_assigns (w : world) (ob : opts) : list (str * option str) :=
  items_assigns w (o_items ob) None
  ++ (s_arguments, None) :: (full_key s_arguments s_count, Some (print_dec (saved_count ob)))
  :: args_assigns 0 (saved_args ob).

Lemma doc_assigns_items w its : forall lp sec p r,
  (match lp with Some q => sec = lower q | None => True end) ->
  doc_assigns sec (save_doc_items fmt16 w its lp ++ ILsection p :: r)
  = items_assigns w its lp ++ (lower p, None) :: doc_assigns (lower p) r.
Proof.
  induction its as [|it rest IH]; intros lp sec p r Hsec; [reflexivity|].
  cbn [save_doc_items items_assigns]. destruct (item_skipped w it); [apply IH; exact Hsec|].
  destruct (save_prefix_base it) as [p' b].
  destruct lp as [q|].
  - destruct (str_eqb p' q) eqn:E.
    + apply str_eqb_eq in E. subst q sec. cbn [app doc_assigns]. f_equal. apply IH. reflexivity.
    + cbn [app doc_assigns]. f_equal. f_equal. apply IH. reflexivity.
  - cbn [app doc_assigns]. f_equal. f_equal. apply IH. reflexivity.
Qed.

Lemma doc_assigns_args args : forall i, doc_assigns s_arguments (args_doc i args) = args_assigns i args.
Proof. induction args as [|a r IH]; intros i; [reflexivity|]. cbn [args_doc doc_assigns args_assigns]. f_equal. apply IH. Qed.

Lemma doc_assigns_save w ob : doc_assigns [] (save_doc fmt16 w ob) = save_assigns w ob.
Proof.
  unfold save_doc, save_assigns. cbn [doc_assigns]. rewrite doc_assigns_items by exact I. f_equal. f_equal.
  cbn [doc_assigns]. f_equal. apply doc_assigns_args.
Qed.

(* the file sc_options_save wrote, as iniparser reads it *)
Theorem ini_load_saved w ob : forallb iline_ok (save_doc fmt16 w ob) = true ->
  ini_load (save_text fmt16 w ob) = Some (set_all (save_assigns w ob) []).
Proof. intros H. rewrite save_text_doc, ini_load_doc by exact H. rewrite doc_assigns_save. reflexivity. Qed.

(* ---- what load reads back for one item ---- *)
Definition tvar (sobjs : list (nat * sobj)) (it : item) : nat :=
  match it_type it with
  | TString => match al_get sobjs (it_var it) with Some s => so_var s | None => O end
  | _ => it_var it
  end.

Definition restored (w : world) (it : item) : value :=
  let S := w_store w in
  match it_type it with
  | TBool => VI (if st_int S (it_var it) =? 0 then 0 else 1)
  | TDouble => VD (fst (strtod (fmt16 (st_dbl S (it_var it)))))
  | TString => VS (string_get w (it_var it))
  | _ => VI (st_int S (it_var it))
  end.

Definition active (w : world) (it : item) : bool := negb (item_skipped w it).

Definition restore_one (w : world) (st : store) (it : item) : store :=
  if active w it then st_set st (tvar (w_sobjs w) it) (restored w it) else st.

(* conditions on the value an item holds when it is saved *)
Definition value_good (w : world) (it : item) : Prop :=
  let b := st_int (w_store w) (it_var it) in
  match it_type it with
  | TSwitch => 0 <= b <= INT_MAX
  | TInt => INT_MIN <= b <= INT_MAX
  | TSize => 0 <= b <= LONG_MAX
  | TDouble => let r := strtod (fmt16 (st_dbl (w_store w) (it_var it))) in dbl_error (fst r) (snd r) = false
  | TKeyvalue => exists key t, it_sval it = Some key /\ al_get (w_kvs w) (it_kv it) = Some t /\ kv_find t key = Some (Some b)
  | _ => True
  end.

(* keys that must not occur in the file for the item to be read from its own entry only *)
Definition absent_keys (w : world) (it : item) : list str :=
  (match it_name it with Some _ => if it_char it =? 0 then [] else [strlwc (short_key (it_char it))] | None => [] end)
  ++ (if item_skipped w it then [strlwc (written_lookup it)] else []).

Definition same_decl (it0 it : item) : Prop :=
  it_type it0 = it_type it /\ it_char it0 = it_char it /\ it_name it0 = it_name it /\ it_var it0 = it_var it
  /\ it_hasarg it0 = it_hasarg it /\ it_kv it0 = it_kv it
  /\ (it_type it <> TKeyvalue -> it_sval it0 = it_sval it).

Lemma strtol_false : strtol s_false = (0, false).  Proof. reflexivity. Qed.
Lemma strtol_true : strtol s_true = (0, false).  Proof. reflexivity. Qed.

Lemma item_eta it : mkItem (it_type it) (it_char it) (it_name it) (it_var it) (it_hasarg it) (it_kv it) (it_sval it) = it.
Proof. destruct it; reflexivity. Qed.

Lemma same_decl_eq it0 it : same_decl it0 it -> it_type it <> TKeyvalue -> it0 = it.
Proof.
  intros (Ety & Ech & Enm & Evar & Eha & Ekv & Esv) H.
  rewrite <- (item_eta it0), <- (item_eta it). rewrite Ety, Ech, Enm, Evar, Eha, Ekv, Esv by exact H. reflexivity.
Qed.

(* one step of the loop of sc_options_load_ini on the dictionary D of a saved file *)
Lemma load_item_saved (w : world) (D : dict) (st : store) (it0 it : item) (p b : str) :
  same_decl it0 it ->
  file_type (it_type it) = false ->
  (it_name it = None -> it_char it <> 0) ->
  save_prefix_base it = (p, b) ->
  (item_skipped w it = false -> dict_get D (full_key (lower p) b) = Some (Some (save_value fmt16 w it))) ->
  (forall K, In K (absent_keys w it) -> dict_get D K = None) ->
  value_good w it ->
  load_item strtod D (w_kvs w) (w_sobjs w) st it0 = (true, restore_one w st it, it).
Proof.
  intros Hsame Hft Hnc Hpb Hpresent Habsent Hgood.
  pose proof (same_decl_eq it0 it Hsame) as Hsd.
  destruct Hsame as (Ety & Ech & Enm & Evar & Eha & Ekv & Esv).
  pose proof (written_lookup_spec it p b Hpb) as Hwl.
  assert (Hkey : strlwc (written_lookup it) = full_key (lower p) b) by (rewrite Hwl; apply strlwc_key).
  unfold load_item. rewrite Ety, Hft, Ech, Enm. unfold ini_getstring.
  unfold restore_one, active.
  destruct (item_skipped w it) eqn:Esk.
  - (* nothing was written for this item: none of its keys is in the file *)
    cbn [negb].
    assert (Hit : it0 = it).
    { apply Hsd. unfold item_skipped in Esk. rewrite Hft in Esk. cbn [orb] in Esk. destruct (it_type it); try discriminate Esk. discriminate. }
    assert (Hw : dict_get D (strlwc (written_lookup it)) = None).
    { apply Habsent. unfold absent_keys. rewrite Esk. apply in_or_app. right. left. reflexivity. }
    unfold written_lookup in Hw. destruct (it_name it) as [n|] eqn:En.
    + rewrite Hw.
      destruct (it_char it =? 0) eqn:Ec; [rewrite Hit; reflexivity|].
      rewrite (Habsent (strlwc (short_key (it_char it)))); [rewrite Hit; reflexivity|].
      unfold absent_keys. rewrite En, Ec. left. reflexivity.
    + replace (it_char it =? 0) with false by (symmetry; apply Z.eqb_neq; apply Hnc; reflexivity).
      rewrite Hw. rewrite Hit. reflexivity.
  - cbn [negb]. specialize (Hpresent eq_refl). rewrite <- Hkey in Hpresent.
    (* the key the value is taken from *)
    assert (Hsel :
      (let fs := if it_char it =? 0 then None else
                   match dict_get D (strlwc (short_key (it_char it))) with Some _ => Some (short_key (it_char it)) | None => None end in
       let fl := match it_name it with
                 | None => None
                 | Some n => match dict_get D (strlwc (long_key n)) with Some _ => Some (long_key n) | None => None end
                 end in
       (fs = None /\ fl = Some (written_lookup it)) \/ (fs = Some (written_lookup it) /\ fl = None))).
    { unfold written_lookup in *. destruct (it_name it) as [n|] eqn:En.
      - left. rewrite Hpresent. split; [|reflexivity].
        destruct (it_char it =? 0) eqn:Ec; [reflexivity|].
        rewrite (Habsent (strlwc (short_key (it_char it)))); [reflexivity|].
        unfold absent_keys. rewrite En, Ec. left. reflexivity.
      - right. replace (it_char it =? 0) with false by (symmetry; apply Z.eqb_neq; apply Hnc; reflexivity).
        rewrite Hpresent. split; reflexivity. }
    cbv zeta in Hsel.
    assert (Htyped :
      match dict_get D (strlwc (written_lookup it)) with
      | Some (Some v) =>
        match it_type it with
        | TSwitch =>
            let '(b, e) := ini_int v in
            if (b <=? 0) || e then
              let b2 := ini_boolean v in
              if (b2 =? -1) || e then (false, st, it0) else (true, st_set st (it_var it0) (VI b2), it0)
            else (true, st_set st (it_var it0) (VI b), it0)
        | TBool =>
            let b := ini_boolean v in
            if b =? -1 then (false, st, it0) else (true, st_set st (it_var it0) (VI b), it0)
        | TInt => let '(x, e) := ini_int v in (negb e, st_set st (it_var it0) (VI x), it0)
        | TSize => let '(x, e) := ini_sizet v in (negb e, st_set st (it_var it0) (VI x), it0)
        | TDouble => let '(x, e) := strtod v in (negb (dbl_error x e), st_set st (it_var it0) (VD x), it0)
        | TString => (true, string_set (w_sobjs w) st (it_var it0) (Some v), it0)
        | TKeyvalue =>
            let t := match al_get (w_kvs w) (it_kv it0) with Some t => t | None => [] end in
            let '(x, e) := kv_get_int_check t v (st_int st (it_var it0)) in
            if e =? 0 then
              (true, st_set st (it_var it0) (VI x),
               mkItem (it_type it) (it_char it) (it_name it) (it_var it0) (it_hasarg it0) (it_kv it0) (Some v))
            else (false, st_set st (it_var it0) (VI x), it0)
        | _ => (true, st, it0)
        end
      | _ => (true, st, it0)
      end = (true, st_set st (tvar (w_sobjs w) it) (restored w it), it)).
    { rewrite Hpresent. unfold save_value, restored, tvar, value_good in *. rewrite Evar, Ekv.
      destruct (it_type it) eqn:Et; try discriminate Hft.
      - (* switch *)
        assert (Hit : it0 = it) by (apply Hsd; discriminate).
        set (bv := st_int (w_store w) (it_var it)) in *.
        destruct (bv <=? 1) eqn:E1.
        + destruct (bv =? 0) eqn:E0.
          * change (ini_int s_false) with (0, false). change (ini_boolean s_false) with 0. cbn.
            rewrite Hit. replace bv with 0 by lia. reflexivity.
          * change (ini_int s_true) with (0, false). change (ini_boolean s_true) with 1. cbn.
            rewrite Hit. replace bv with 1 by (unfold INT_MAX in *; lia). reflexivity.
        + assert (Hr : INT_MIN <= bv <= INT_MAX) by (unfold INT_MIN, INT_MAX in *; lia).
          rewrite (ini_int_print_dec bv Hr). replace (bv <=? 0) with false by lia. cbn [orb]. rewrite Hit. reflexivity.
      - (* bool *)
        assert (Hit : it0 = it) by (apply Hsd; discriminate).
        destruct (st_int (w_store w) (it_var it) =? 0); cbn; rewrite Hit; reflexivity.
      - (* int *)
        assert (Hit : it0 = it) by (apply Hsd; discriminate).
        rewrite ini_int_print_dec by exact Hgood. cbn [negb]. rewrite Hit. reflexivity.
      - (* size_t *)
        assert (Hit : it0 = it) by (apply Hsd; discriminate).
        rewrite ini_sizet_print_udec by exact Hgood. cbn [negb]. rewrite Hit. reflexivity.
      - (* double *)
        assert (Hit : it0 = it) by (apply Hsd; discriminate).
        destruct (strtod (fmt16 (st_dbl (w_store w) (it_var it)))) as [x e] eqn:Ed. cbn [snd fst] in *. cbv zeta in Hgood. cbn [snd fst] in Hgood.
        rewrite Hgood. cbn [negb]. rewrite Hit. reflexivity.
      - (* string *)
        assert (Hit : it0 = it) by (apply Hsd; discriminate).
        unfold item_skipped in Esk. rewrite Et in Esk. cbn [file_type orb] in Esk.
        destruct (string_get w (it_var it)) as [s|] eqn:Es; [|discriminate Esk].
        unfold string_set. rewrite Hit. reflexivity.
      - (* key-value *)
        destruct Hgood as (key & t & Hsv & Ht & Hfind). rewrite Hsv, Ht.
        unfold kv_get_int_check. rewrite Hfind. cbn [Z.eqb].
        f_equal. rewrite Eha. rewrite <- Hsv. rewrite <- Et. apply item_eta. }
    destruct Hsel as [[Hfs Hfl]|[Hfs Hfl]]; rewrite Hfs, Hfl; cbv beta iota zeta in Htyped |- *; exact Htyped.
Qed.


(* what the loop needs to know about one item and the dictionary *)
Definition item_cond (w : world) (D : dict) (it : item) : Prop :=
  file_type (it_type it) = false ->
  (it_name it = None -> it_char it <> 0) /\
  (item_skipped w it = false ->
   dict_get D (full_key (lower (fst (save_prefix_base it))) (snd (save_prefix_base it))) = Some (Some (save_value fmt16 w it))) /\
  (forall K, In K (absent_keys w it) -> dict_get D K = None) /\
  value_good w it.

Lemma load_items_saved (w : world) (D : dict) : forall its0 its st,
  Forall2 same_decl its0 its -> Forall (item_cond w D) its ->
  load_items strtod D (w_kvs w) (w_sobjs w) st its0 = (0, fold_left (restore_one w) its st, its).
Proof.
  intros its0 its st H. revert st. induction H as [|it0 it r0 r Hs _ IH]; intros st Hc; [reflexivity|].
  inversion Hc as [|? ? Hit Hr]; subst. cbn [load_items fold_left].
  assert (Hstep : load_item strtod D (w_kvs w) (w_sobjs w) st it0 = (true, restore_one w st it, it)).
  { destruct (file_type (it_type it)) eqn:Eft.
    - assert (E0 : it0 = it).
      { apply same_decl_eq; [exact Hs|]. destruct (it_type it); try discriminate Eft; discriminate. }
      unfold load_item. rewrite E0, Eft. unfold restore_one, active, item_skipped. rewrite Eft. reflexivity.
    - destruct (Hit Eft) as (H1 & H2 & H3 & H4).
      destruct (save_prefix_base it) as [p b] eqn:Epb. cbn [fst snd] in H2.
      apply (load_item_saved w D st it0 it p b); assumption. }
  rewrite Hstep. rewrite IH by exact Hr. reflexivity.
Qed.

(* every active item has its entry among the assignments of the saved file *)
Lemma items_assigns_in w it : forall its lp, In it its -> item_skipped w it = false ->
  In (full_key (lower (fst (save_prefix_base it))) (snd (save_prefix_base it)), Some (save_value fmt16 w it))
     (items_assigns w its lp).
Proof.
  induction its as [|x r IH]; intros lp Hin Hsk; [contradiction|].
  cbn [items_assigns]. destruct Hin as [->|Hin].
  - rewrite Hsk. destruct (save_prefix_base it) as [p b]. cbn [fst snd]. apply in_or_app. right. left. reflexivity.
  - destruct (item_skipped w x); [apply IH; assumption|].
    destruct (save_prefix_base x) as [p b]. apply in_or_app. right. right. apply IH; assumption.
Qed.

(* ---- reading a variable after the loop ---- *)
Definition targets (w : world) (x : nat) (it : item) : bool := active w it && Nat.eqb (tvar (w_sobjs w) it) x.

Lemma st_get_set_same st x v : st_get (st_set st x v) x = v.
Proof. unfold st_set. cbn. rewrite Nat.eqb_refl. reflexivity. Qed.

Lemma st_get_set_other st x y v : x <> y -> st_get (st_set st x v) y = st_get st y.
Proof. intros H. unfold st_set. cbn. replace (Nat.eqb x y) with false by (symmetry; apply Nat.eqb_neq; exact H). reflexivity. Qed.

Lemma fold_restore_untouched w x : forall its st, existsb (targets w x) its = false ->
  st_get (fold_left (restore_one w) its st) x = st_get st x.
Proof.
  induction its as [|it r IH]; intros st H; [reflexivity|].
  cbn in H. apply orb_false_iff in H. destruct H as [H1 H2]. cbn [fold_left]. rewrite IH by exact H2.
  unfold restore_one. unfold targets in H1. destruct (active w it); [|reflexivity].
  cbn [andb] in H1. apply Nat.eqb_neq in H1. apply st_get_set_other. exact H1.
Qed.

Lemma fold_restore_get w x r : forall its st,
  existsb (targets w x) its = true ->
  (forall it, In it its -> targets w x it = true -> restored w it = r) ->
  st_get (fold_left (restore_one w) its st) x = r.
Proof.
  induction its as [|it rest IH]; intros st Hex Hall; [discriminate Hex|].
  cbn [fold_left]. destruct (existsb (targets w x) rest) eqn:Er.
  - apply IH; [reflexivity|]. intros it' Hin. apply Hall. right. exact Hin.
  - rewrite fold_restore_untouched by exact Er.
    cbn in Hex. rewrite Er, orb_false_r in Hex.
    pose proof (Hall it (or_introl eq_refl) Hex) as Hr.
    unfold targets in Hex. apply andb_true_iff in Hex. destruct Hex as [Ha Hx]. apply Nat.eqb_eq in Hx.
    unfold restore_one. rewrite Ha. rewrite Hx. rewrite st_get_set_same. exact Hr.
Qed.

End Load.
