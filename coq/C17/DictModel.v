(* C17 - executable model of /repo/iniparser/dictionary.c at the level of its three parallel arrays
   (d->key[i], d->val[i], d->hash[i], d->n, d->size): dictionary_new, dictionary_get, dictionary_set (search by stored
   hash first and key second, growth by mem_double, insertion into the first empty slot from d->n on, wrapping),
   dictionary_unset.  iniparser_load stores every section heading (value NULL) and every key of an ini file in one such
   dictionary; OptionsModel.v works with the finite map `dict` (dict_get / dict_set).  DictProofs.v proves that the arrays
   refine that map for EVERY history of set / unset / get, growth included; DictGen.v proves that the rules written here are
   the ones GENERATED from dictionary.c (Gen/DictC17.v).
   Definitions only.  The hash function is a parameter: nothing below depends on which function of the key it is. *)
From Coq Require Import ZArith List Bool Lia.
From ScV Require Import Base.CInt C17.OptionsModel.
Import ListNotations.
Local Open Scope Z_scope.

(* one slot: d->key[i] (None = NULL = free), d->val[i] (None = NULL), d->hash[i] *)
Definition cell := (option str * option str * Z)%type.
Definition c_key (c : cell) : option str := fst (fst c).
Definition c_val (c : cell) : option str := snd (fst c).
Definition c_hash (c : cell) : Z := snd c.
Definition empty_cell : cell := (None, None, 0).           (* calloc: NULL, NULL, 0 *)
Definition occupied (c : cell) : bool := match c_key c with Some _ => true | None => false end.

Record adict := mkAD { ad_n : Z; ad_cells : list cell }.   (* d->size = length (ad_cells d) *)
Definition ad_size (d : adict) : Z := Z.of_nat (length (ad_cells d)).

Definition DICTMINSZ : Z := 128.
(* element sizes of the three arrays: sizeof (char * ), sizeof (char * ), sizeof (unsigned) *)
Definition ESZ_VAL : Z := 8.
Definition ESZ_KEY : Z := 8.
Definition ESZ_HASH : Z := 4.

(* dictionary_new (size): at least DICTMINSZ slots, all three arrays zeroed *)
Definition new_size (size : Z) : Z := if size <? DICTMINSZ then DICTMINSZ else size.
Definition adict_new (size : Z) : adict := mkAD 0 (repeat empty_cell (Z.to_nat (new_size size))).

(* the write d->key[i] = .., d->val[i] = .., d->hash[i] = .. *)
Definition upd (l : list cell) (i : nat) (c : cell) : list cell := firstn i l ++ c :: skipn (S i) l.

(* mem_double (ptr, bytes): a zeroed block of 2 * bytes bytes whose first `bytes` bytes are those of the old block.  On an
   array of elements of esz bytes: the first bytes / esz elements survive, everything behind them is zero. *)
Definition copied (bytes esz : Z) : nat := Z.to_nat (bytes / esz).
(* the bytes dictionary_set hands to mem_double for the three arrays of a dictionary with `size` slots *)
Definition grow_bytes_val (size : Z) : Z := size * ESZ_VAL.
Definition grow_bytes_key (size : Z) : Z := size * ESZ_KEY.
Definition grow_bytes_hash (size : Z) : Z := size * ESZ_HASH.
Definition grow_size (size : Z) : Z := 2 * size.

(* the three columns after three mem_double calls that carried nv / nk / nh elements over *)
Definition grow_cells (nv nk nh : nat) (l : list cell) (newlen : nat) : list cell :=
  map (fun i => let c := nth i l empty_cell in
                (if (i <? nk)%nat then c_key c else None, if (i <? nv)%nat then c_val c else None, if (i <? nh)%nat then c_hash c else 0))
      (seq 0 newlen).

Definition adict_grow_with (bv bk bh : Z) (d : adict) : adict :=
  mkAD (ad_n d) (grow_cells (copied bv ESZ_VAL) (copied bk ESZ_KEY) (copied bh ESZ_HASH) (ad_cells d) (Z.to_nat (grow_size (ad_size d)))).

Definition adict_grow (d : adict) : adict :=
  adict_grow_with (grow_bytes_val (ad_size d)) (grow_bytes_key (ad_size d)) (grow_bytes_hash (ad_size d)) d.

Section Hash.
Variable hash : str -> Z.        (* dictionary_hash: some function of the key *)

(* the test of the three search loops: slot in use, stored hash equal, then the key itself *)
Definition cell_match (k : str) (h : Z) (c : cell) : bool :=
  match c_key c with None => false | Some k' => (h =? c_hash c) && str_eqb k k' end.

(* for (i = 0; i < d->size; i++): index of the first matching slot *)
Fixpoint find_cell (k : str) (h : Z) (l : list cell) (i : nat) : option nat :=
  match l with
  | [] => None
  | c :: r => if cell_match k h c then Some i else find_cell k h r (S i)
  end.

Definition adict_find (d : adict) (k : str) : option nat := find_cell k (hash k) (ad_cells d) 0.

(* dictionary_get (d, key, def): None = def (not found), Some v = d->val[i] (NULL allowed) *)
Definition adict_get (d : adict) (k : str) : option (option str) :=
  match adict_find d k with
  | Some i => Some (c_val (nth i (ad_cells d) empty_cell))
  | None => None
  end.

(* for (i = d->n; d->key[i]; ) if (++i == d->size) i = 0;   - first free slot from n on, else from 0 on *)
Fixpoint first_free (l : list cell) (i : nat) : option nat :=
  match l with
  | [] => None
  | c :: r => if occupied c then first_free r (S i) else Some i
  end.

Definition free_slot (l : list cell) (n : nat) : option nat :=
  match first_free (skipn n l) n with
  | Some i => Some i
  | None => first_free l 0
  end.

(* dictionary_set with the growth step as a parameter (adict_grow is what the code does) *)
Definition adict_set_with (grow : adict -> adict) (d : adict) (k : str) (v : option str) : adict :=
  let h := hash k in
  match (if 0 <? ad_n d then find_cell k h (ad_cells d) 0 else None) with
  | Some i =>
      let c := nth i (ad_cells d) empty_cell in
      mkAD (ad_n d) (upd (ad_cells d) i (c_key c, v, c_hash c))
  | None =>
      let d1 := if ad_n d =? ad_size d then grow d else d in
      match free_slot (ad_cells d1) (Z.to_nat (ad_n d1)) with
      | Some i => mkAD (ad_n d1 + 1) (upd (ad_cells d1) i (Some k, v, h))
      | None => d1                 (* not reached: d->n < d->size *)
      end
  end.

Definition adict_set := adict_set_with adict_grow.

(* dictionary_unset: key, value and hash of the first matching slot are cleared *)
Definition adict_unset (d : adict) (k : str) : adict :=
  match adict_find d k with
  | Some i => mkAD (ad_n d - 1) (upd (ad_cells d) i empty_cell)
  | None => d
  end.

(* histories *)
Inductive dop := DSet (k : str) (v : option str) | DUnset (k : str).

Definition astep (d : adict) (o : dop) : adict :=
  match o with DSet k v => adict_set d k v | DUnset k => adict_unset d k end.

Definition arun (ops : list dop) (d : adict) : adict := fold_left astep ops d.

End Hash.

(* the finite map of OptionsModel.v, with the removal of a key *)
Fixpoint dict_unset (d : dict) (k : str) : dict :=
  match d with
  | [] => []
  | (k', v) :: r => if str_eqb k k' then r else (k', v) :: dict_unset r k
  end.

Definition mstep (m : dict) (o : dop) : dict :=
  match o with DSet k v => dict_set m k v | DUnset k => dict_unset m k end.

Definition mrun (ops : list dop) (m : dict) : dict := fold_left mstep ops m.

(* what the arrays stand for: the (key, value) pairs of the slots in use, in slot order *)
Fixpoint abs_cells (l : list cell) : dict :=
  match l with
  | [] => []
  | c :: r => match c_key c with Some k => (k, c_val c) :: abs_cells r | None => abs_cells r end
  end.

(* dictionary_hash of dictionary.c (Bob Jenkins' one-at-a-time) on unsigned 32-bit integers; bytes >= 128 are sign-extended
   because `char` is signed on the platform (used by the extracted driver; the theorems hold for every function) *)
Definition hash_step (h c : Z) : Z :=
  let h1 := u32 (h + u32 (if c <? 128 then c else c - 256)) in
  let h2 := u32 (h1 + u32 (Z.shiftl h1 10)) in
  Z.lxor h2 (Z.shiftr h2 6).
Definition dictionary_hash (k : str) : Z :=
  let h := fold_left hash_step k 0 in
  let h1 := u32 (h + u32 (Z.shiftl h 3)) in
  let h2 := Z.lxor h1 (Z.shiftr h1 11) in
  u32 (h2 + u32 (Z.shiftl h2 15)).
