(* C17 - executable model of /repo/src/sc_options.c (with the repairs bb105d5, 5b6f754, ede139e, 69d3f48,
   5918853, 6404e3e, 5a6ac04, bd8c44f, 57534b2; iniparser with cfc9e38), of the ini reader /repo/iniparser/iniparser.c + dictionary.c as far as
   sc_options uses it, and of sc_keyvalue_get_int_check.  Definitions only; proofs are in
   NumProofs.v / IniProofs.v / OptionsProofs.v / GetoptProofs.v.

   Conventions.  A C string is a list of bytes (Z in [1,256), no NUL inside); a nullable string is
   `option str`.  File contents are arbitrary byte lists (NUL allowed).  C `int`/`size_t`/`long`
   values are Z; range decisions are written out where the code makes them.
   libc is represented as follows:
     strtol / strtoll  : the executable function `strtol` below (base 0, 64-bit long; validated
                         against libc on every run of the check, op "strtol");
     strtod, "%.16g"   : Section variables `strtod` / `fmt16` (contract only; the drivers instantiate
                         them with tables computed by the libc of the machine);
     getopt_long       : a recorded event stream (what libc returned for this call) - and,
                         independently, the executable GNU scanner of GetoptModel.v;
     isspace / tolower : "C" locale;
     errno             : explicit state `w_errno`. *)
From Coq Require Import ZArith List Bool Lia.
From ScV Require Import Base.CInt.
Import ListNotations.
Local Open Scope Z_scope.

Definition str := list Z.

(* ------------------------------------------------------------------------------------------
   characters and strings *)
Definition is_space (c : Z) : bool := (c =? 32) || ((9 <=? c) && (c <=? 13)).
Definition to_lower (c : Z) : Z := if (65 <=? c) && (c <=? 90) then c + 32 else c.

Fixpoint drop_while (p : Z -> bool) (s : str) : str :=
  match s with [] => [] | c :: r => if p c then drop_while p r else s end.
Fixpoint take_while (p : Z -> bool) (s : str) : str :=
  match s with [] => [] | c :: r => if p c then c :: take_while p r else [] end.

Fixpoint str_eqb (a b : str) : bool :=
  match a, b with
  | [], [] => true
  | x :: a', y :: b' => (x =? y) && str_eqb a' b'
  | _, _ => false
  end.

Definition ostr_eqb (a b : option str) : bool :=
  match a, b with
  | None, None => true
  | Some x, Some y => str_eqb x y
  | _, _ => false
  end.

Definition LINESZ : nat := 1024.            (* ASCIILINESZ *)

Definition lstrip (s : str) : str := drop_while is_space s.
Definition rstrip (s : str) : str := rev (drop_while is_space (rev s)).
(* iniparser.c strstrip: skip leading blanks, copy into a buffer of ASCIILINESZ+1, cut trailing blanks *)
Definition strstrip (s : str) : str := rstrip (firstn LINESZ (lstrip s)).
(* iniparser.c strlwc *)
Definition strlwc (s : str) : str := map to_lower (firstn LINESZ s).

Definition ne (x : Z) : Z -> bool := fun c => negb (c =? x).

(* character constants *)
Definition cNL := 10.   Definition cSP := 32.   Definition cDQ := 34.   Definition cHASH := 35.
Definition cSQ := 39.   Definition cPLUS := 43. Definition cMINUS := 45. Definition c0 := 48.
Definition cCOLON := 58. Definition cSEMI := 59. Definition cEQ := 61.  Definition cLBR := 91.
Definition cBSL := 92.  Definition cRBR := 93.

(* string literals of the C source *)
Definition s_Options : str := [79; 112; 116; 105; 111; 110; 115].                   (* "Options" *)
Definition s_Arguments : str := [65; 114; 103; 117; 109; 101; 110; 116; 115].       (* "Arguments" *)
Definition s_count : str := [99; 111; 117; 110; 116].                               (* "count" *)
Definition s_true : str := [116; 114; 117; 101].
Definition s_false : str := [102; 97; 108; 115; 101].
Definition s_indent : str := [32; 32; 32; 32; 32; 32; 32; 32].                      (* 8 blanks *)
Definition s_eq : str := [32; 61; 32].                                              (* " = " *)
Definition s_title : str :=                                     (* "# written by sc_options_save" *)
  [35; 32; 119; 114; 105; 116; 116; 101; 110; 32; 98; 121; 32; 115; 99; 95; 111; 112; 116; 105; 111; 110;
   115; 95; 115; 97; 118; 101].
Definition s_destroyed : str :=            (* "corresponding options structure has been destroyed" *)
  [99; 111; 114; 114; 101; 115; 112; 111; 110; 100; 105; 110; 103; 32; 111; 112; 116; 105; 111; 110; 115; 32;
   115; 116; 114; 117; 99; 116; 117; 114; 101; 32; 104; 97; 115; 32; 98; 101; 101; 110; 32; 100; 101; 115;
   116; 114; 111; 121; 101; 100].
Definition s_null : str := [40; 110; 117; 108; 108; 41].                            (* glibc "%s" of NULL *)

(* ------------------------------------------------------------------------------------------
   strtol (str, NULL, 0) on an LP64 platform; result (value, ERANGE raised) *)
Definition LONG_MAX : Z := 9223372036854775807.
Definition LONG_MIN : Z := -9223372036854775808.
Definition INT_MAX : Z := 2147483647.
Definition INT_MIN : Z := -2147483648.
Definition ERANGE : Z := 34.
Definition ENOENT : Z := 2.

Definition digit_val (c : Z) : Z :=
  if (48 <=? c) && (c <=? 57) then c - 48
  else if (97 <=? c) && (c <=? 122) then c - 87
  else if (65 <=? c) && (c <=? 90) then c - 55
  else 99.

Fixpoint acc_digits (base acc : Z) (s : str) : Z :=
  match s with
  | [] => acc
  | c :: r => if digit_val c <? base then acc_digits base (acc * base + digit_val c) r else acc
  end.

Definition split_sign (s : str) : bool * str :=
  match s with
  | c :: r => if c =? cMINUS then (true, r) else if c =? cPLUS then (false, r) else (false, s)
  | [] => (false, s)
  end.

(* base 0: "0x"/"0X" followed by a hexadecimal digit selects 16, another leading 0 selects 8 *)
Definition split_base (s : str) : Z * str :=
  match s with
  | z :: x :: h :: r =>
      if z =? c0 then
        if ((x =? 120) || (x =? 88)) && (digit_val h <? 16) then (16, h :: r) else (8, s)
      else (10, s)
  | z :: _ => if z =? c0 then (8, s) else (10, s)
  | [] => (10, s)
  end.

Definition clamp_long (neg : bool) (m : Z) : Z * bool :=
  if neg then (if m >? - LONG_MIN then (LONG_MIN, true) else (- m, false))
  else (if m >? LONG_MAX then (LONG_MAX, true) else (m, false)).

Definition strtol (s : str) : Z * bool :=
  let '(neg, s2) := split_sign (lstrip s) in
  let '(base, s3) := split_base s2 in
  clamp_long neg (acc_digits base 0 s3).

(* libc semantics of errno: left alone unless the conversion overflows *)
Definition c_strtol (errno : Z) (s : str) : Z * Z :=
  let '(v, er) := strtol s in (v, if er then ERANGE else errno).

(* "%d" / "%llu" *)
Fixpoint print_u (fuel : nat) (n : Z) : str :=
  match fuel with
  | O => []
  | S f => if n <? 10 then [c0 + n] else print_u f (n / 10) ++ [c0 + n mod 10]
  end.
Definition print_udec (n : Z) : str := print_u (S (Z.to_nat (Z.log2 n))) n.
Definition print_dec (n : Z) : str := if n <? 0 then cMINUS :: print_udec (- n) else print_udec n.

(* ------------------------------------------------------------------------------------------
   iniparser: dictionary, iniparser_line, iniparser_load *)
Definition dict := list (str * option str).       (* NULL value = section heading *)

Fixpoint dict_get (d : dict) (k : str) : option (option str) :=
  match d with
  | [] => None
  | (k', v) :: r => if str_eqb k k' then Some v else dict_get r k
  end.

Fixpoint dict_set (d : dict) (k : str) (v : option str) : dict :=
  match d with
  | [] => [(k, v)]
  | (k', v') :: r => if str_eqb k k' then (k, v) :: r else (k', v') :: dict_set r k v
  end.

(* iniparser_getstring: the key is lowercased (and cut to ASCIILINESZ) before the lookup *)
(* iniparser_find_entry: the key is there, with or without a value *)
Definition dict_mem (d : dict) (k : str) : bool := match dict_get d k with Some _ => true | None => false end.

Definition ini_getstring (d : dict) (key : str) : option (option str) := dict_get d (strlwc key).

Inductive line_status :=
| LEmpty | LComment | LError
| LSection (s : option str)          (* None: "[]", sscanf converts nothing, the old name stays *)
| LValue (k v : str).

Definition not_semi_hash (c : Z) : bool := negb ((c =? cSEMI) || (c =? cHASH)).

(* third sscanf pattern "%[^;#]" and the special cases "key=", "key=;", "key=#" *)
Definition ini_value_plain (r : str) : str :=
  match r with
  | [] => []
  | c :: _ => if not_semi_hash c then take_while not_semi_hash r else []
  end.

(* value part of a line, `rest` = everything after the first '=' *)
Definition ini_value (rest : str) : str :=
  let r := lstrip rest in
  let raw :=
    match r with
    | q :: c :: t =>
        if ((q =? cDQ) || (q =? cSQ)) && negb (c =? q) then take_while (ne q) (c :: t)
        else ini_value_plain r
    | _ => ini_value_plain r
    end in
  let v := strstrip raw in
  if str_eqb v [cDQ; cDQ] || str_eqb v [cSQ; cSQ] then [] else v.

Definition ini_line (input : str) : line_status :=
  let line := strstrip input in
  match line with
  | [] => LEmpty
  | a :: _ =>
      if (a =? cHASH) || (a =? cSEMI) then LComment
      else if (a =? cLBR) && (last line 0 =? cRBR) then
        match take_while (ne cRBR) (tl line) with
        | [] => LSection None
        | s => LSection (Some (strlwc (strstrip s)))
        end
      else
        match take_while (ne cEQ) line, drop_while (ne cEQ) line with
        | (_ :: _) as k, _ :: rest => LValue (strlwc (strstrip k)) (ini_value rest)
        | _, _ => LError
        end
  end.

(* fgets (buf, n + 1, f): at most n bytes, stops behind a newline *)
Fixpoint take_line (n : nat) (l : list Z) : list Z * list Z :=
  match n, l with
  | O, _ => ([], l)
  | _, [] => ([], [])
  | S n', c :: r => if c =? cNL then ([c], r) else let '(a, b) := take_line n' r in (c :: a, b)
  end.

(* the loop of iniparser_load.  pre = line[0..last) kept from a continued line; errs is ASSIGNED by
   dictionary_set (0) on every section/value line and incremented by a syntax error, as in the code.
   Result None = "input line too long". *)
Fixpoint ini_loop (fuel : nat) (rest : list Z) (pre : str) (section : str) (d : dict) (errs : Z)
  : option (dict * Z) :=
  match fuel with
  | O => Some (d, errs)
  | S f =>
      let '(chunk, rest') := take_line (LINESZ - 1 - length pre) rest in
      match chunk with
      | [] => Some (d, errs)                                        (* fgets returns NULL *)
      | _ :: _ =>
          let s := pre ++ take_while (ne 0) chunk in                (* what strlen sees *)
          if Z.of_nat (length s) - 1 <=? 0 then ini_loop f rest' pre section d errs
          else if negb (last s 0 =? cNL) then None
          else
            let s' := rstrip s in
            match rev s' with
            | b :: p =>
                if b =? cBSL then ini_loop f rest' (rev p) section d errs       (* multi-line *)
                else
                  match ini_line s' with
                  | LEmpty | LComment => ini_loop f rest' [] section d errs
                  | LError => ini_loop f rest' [] section d (errs + 1)
                  | LSection o =>
                      (* cfc9e38: a heading does not touch a slot that exists (it would erase the value of an entry
                         of the same name); `errs` is then not assigned either *)
                      let sec := match o with Some x => x | None => strlwc (strstrip section) end in
                      if dict_mem d sec then ini_loop f rest' [] sec d errs
                      else ini_loop f rest' [] sec (dict_set d sec None) 0
                  | LValue k v =>
                      ini_loop f rest' [] section
                               (dict_set d (firstn LINESZ (section ++ cCOLON :: k)) (Some v)) 0
                  end
            | [] => ini_loop f rest' [] section d errs                        (* blank line *)
            end
      end
  end.

Definition ini_load (bytes : list Z) : option dict :=
  match ini_loop (S (length bytes)) bytes [] [] [] 0 with
  | Some (d, e) => if e =? 0 then Some d else None
  | None => None
  end.

(* ------------------------------------------------------------------------------------------
   option items, values, objects *)
Inductive otype := TSwitch | TBool | TInt | TSize | TDouble | TString | TIni | TJson | TCallback | TKeyvalue.

Definition otype_eqb (a b : otype) : bool :=
  match a, b with
  | TSwitch, TSwitch | TBool, TBool | TInt, TInt | TSize, TSize | TDouble, TDouble | TString, TString
  | TIni, TIni | TJson, TJson | TCallback, TCallback | TKeyvalue, TKeyvalue => true
  | _, _ => false
  end.

Record item := mkItem {
  it_type : otype;
  it_char : Z;                 (* 0 = no short name *)
  it_name : option str;
  it_var : nat;                (* user variable; string object for TString; call counter for TCallback *)
  it_hasarg : Z;
  it_kv : nat;                 (* key-value table (TKeyvalue) *)
  it_sval : option str         (* item->string_value: current key of a TKeyvalue item *)
}.

Inductive value :=
| VI (z : Z)                   (* int and size_t variables *)
| VD (bits : Z)                (* double, as its bit pattern *)
| VS (s : option str).         (* const char * *)

Definition store := list (nat * value).
Fixpoint st_get (s : store) (v : nat) : value :=
  match s with [] => VI 0 | (k, x) :: r => if Nat.eqb k v then x else st_get r v end.
Definition st_set (s : store) (v : nat) (x : value) : store := (v, x) :: s.
Definition st_int (s : store) (v : nat) : Z := match st_get s v with VI z => z | _ => 0 end.
Definition st_dbl (s : store) (v : nat) : Z := match st_get s v with VD z => z | _ => 0 end.
Definition st_str (s : store) (v : nat) : option str := match st_get s v with VS z => z | _ => None end.

Fixpoint al_get {A} (l : list (nat * A)) (k : nat) : option A :=
  match l with [] => None | (k', x) :: r => if Nat.eqb k' k then Some x else al_get r k end.
Definition al_set {A} (l : list (nat * A)) (k : nat) (x : A) : list (nat * A) := (k, x) :: l.

(* sc_option_string_t: user variable and reference count; the text itself is what the user
   variable holds (sc_options_string_get re-reads it, sc_options_string_set writes both) *)
Record sobj := mkSobj { so_var : nat; so_rc : Z }.

Record opts := mkOpts {
  o_items : list item;
  o_first : Z;                 (* first_arg *)
  o_args : list (option str);  (* argv[0..argc) *)
  o_alloced : bool
}.

Definition kvtab := list (str * option Z).     (* None: entry of another type than int *)

Fixpoint kv_find (t : kvtab) (k : str) : option (option Z) :=
  match t with [] => None | (k', v) :: r => if str_eqb k k' then Some v else kv_find r k end.

(* sc_keyvalue_get_int_check (kv, key, &status) with *status preloaded by `old`: (result, status) *)
Definition kv_get_int_check (t : kvtab) (k : str) (old : Z) : Z * Z :=
  match kv_find t k with
  | Some (Some v) => (v, 0)
  | Some None => (old, 2)
  | None => (old, 1)
  end.

Record world := mkW {
  w_store : store;
  w_sobjs : list (nat * sobj);
  w_nsobj : nat;
  w_opts : list (nat * opts);
  w_kvs : list (nat * kvtab);
  w_fs : list (str * list Z);
  w_errno : Z
}.

Fixpoint fs_get (fs : list (str * list Z)) (n : str) : option (list Z) :=
  match fs with [] => None | (k, x) :: r => if str_eqb k n then Some x else fs_get r n end.

Definition R_CRASH : Z := -99.                 (* the C code would dereference NULL *)
Definition R_SHORT : Z := -98.                 (* the recorded getopt stream ended before the loop did *)

(* ------------------------------------------------------------------------------------------
   getopt_long as seen by sc_options_parse *)
Inductive gevent :=
| GEnd                                   (* -1 *)
| GErr (optopt : Z)                      (* '?' *)
| GShort (c : Z) (arg : option str)      (* option character *)
| GLong (idx : Z) (arg : option str).    (* 0, *flag = val = item index *)

(* IEEE-754 binary64 bit patterns (0 <= x < 2^64): magnitude = everything but the sign bit *)
Definition dbl_mag (x : Z) : Z := x mod 2 ^ 63.
Definition dbl_is_zero (x : Z) : bool := dbl_mag x =? 0.                            (* dbl == 0. : +0 and -0 *)
Definition dbl_is_inf (x : Z) : bool := dbl_mag x =? 0x7FF0000000000000.            (* dbl == HUGE_VAL || dbl == -HUGE_VAL *)
(* 57534b2: `errno == ERANGE && (dbl == 0. || dbl == HUGE_VAL || dbl == -HUGE_VAL)` - a subnormal result (glibc raises
   ERANGE for it as well) is representable and accepted; underflow to zero and overflow are the errors *)
Definition dbl_error (x : Z) (erange : bool) : bool := erange && (dbl_is_zero x || dbl_is_inf x).
(* the rule before 57534b2 (`errno == ERANGE`), kept for the regression witness only *)
Definition dbl_error_old (x : Z) (erange : bool) : bool := erange.

Section Model.
Variable strtod : str -> Z * bool.       (* bit pattern, ERANGE raised *)
Variable fmt16 : Z -> str.               (* "%.16g" of the double with this bit pattern *)

Definition sobj_var (w : world) (id : nat) : nat :=
  match al_get (w_sobjs w) id with Some s => so_var s | None => O end.

(* sc_options_string_get / _set *)
Definition string_get (w : world) (id : nat) : option str := st_str (w_store w) (sobj_var w id).
Definition string_set (sobjs : list (nat * sobj)) (st : store) (id : nat) (v : option str) : store :=
  st_set st (match al_get sobjs id with Some s => so_var s | None => O end) (VS v).

Definition first_in (set : str) (a : str) : bool :=
  match a with [] => false | c :: _ => existsb (Z.eqb c) set end.
Definition s_yes : str := [49; 116; 84; 121; 89].       (* "1tTyY" *)
Definition s_no : str := [48; 102; 70; 110; 78].        (* "0fFnN" *)

(* iniparser_getboolean (d, key, -1) on a found, non-NULL value *)
Definition ini_boolean (v : str) : Z := if first_in s_yes v then 1 else if first_in s_no v then 0 else -1.

(* sc_iniparser_getint on a found value: (result, iserror) *)
Definition ini_int (v : str) : Z * bool :=
  let '(l, e) := c_strtol 0 v in                       (* errno = 0; strtol *)
  let er := e =? ERANGE in
  if l <? INT_MIN then (INT_MIN, true) else if l >? INT_MAX then (INT_MAX, true) else (l, er).

(* sc_iniparser_getsizet *)
Definition ini_sizet (v : str) : Z * bool :=
  let '(l, e) := c_strtol 0 v in
  let er := e =? ERANGE in
  if l <? 0 then (0, true) else (l, er).

(* ---- sc_options_load_ini ----------------------------------------------------------------- *)
Definition has_colon (s : str) : bool := existsb (Z.eqb cCOLON) s.
Definition short_key (c : Z) : str := s_Options ++ [cCOLON; cMINUS; c].
Definition long_key (n : str) : str := if has_colon n then n else s_Options ++ cCOLON :: n.

Definition file_type (t : otype) : bool :=     (* not loaded from / saved to files *)
  match t with TIni | TJson | TCallback => true | _ => false end.

(* one item: (ok, store, item); ok = false is the error return -1.  The code stores the converted
   int / size_t / double BEFORE it tests iserror, so a failing item leaves the clamped value behind. *)
Definition load_item (d : dict) (kvs : list (nat * kvtab)) (sobjs : list (nat * sobj))
           (st : store) (it : item) : bool * store * item :=
  if file_type (it_type it) then (true, st, it) else
  let fs := if it_char it =? 0 then None else
              match ini_getstring d (short_key (it_char it)) with Some _ => Some (short_key (it_char it)) | None => None end in
  let fl := match it_name it with
            | None => None
            | Some n => match ini_getstring d (long_key n) with Some _ => Some (long_key n) | None => None end
            end in
  match fs, fl with
  | Some _, Some _ => (false, st, it)                             (* duplicates *)
  | None, None => (true, st, it)
  | _, _ =>
    let key := match fl with Some k => k | None => match fs with Some k => k | None => [] end end in
    match ini_getstring d key with
    | Some (Some v) =>
      match it_type it with
      | TSwitch =>
          let '(b, e) := ini_int v in
          if (b <=? 0) || e then
            let b2 := ini_boolean v in
            if (b2 =? -1) || e then (false, st, it) else (true, st_set st (it_var it) (VI b2), it)
          else (true, st_set st (it_var it) (VI b), it)
      | TBool =>
          let b := ini_boolean v in
          if b =? -1 then (false, st, it) else (true, st_set st (it_var it) (VI b), it)
      | TInt => let '(x, e) := ini_int v in (negb e, st_set st (it_var it) (VI x), it)
      | TSize => let '(x, e) := ini_sizet v in (negb e, st_set st (it_var it) (VI x), it)
      | TDouble => let '(x, e) := strtod v in (negb (dbl_error x e), st_set st (it_var it) (VD x), it)
      | TString => (true, string_set sobjs st (it_var it) (Some v), it)
      | TKeyvalue =>
          let t := match al_get kvs (it_kv it) with Some t => t | None => [] end in
          let '(x, e) := kv_get_int_check t v (st_int st (it_var it)) in
          if e =? 0 then
            (true, st_set st (it_var it) (VI x),
             mkItem (it_type it) (it_char it) (it_name it) (it_var it) (it_hasarg it) (it_kv it) (Some v))
          else (false, st_set st (it_var it) (VI x), it)
      | _ => (true, st, it)
      end
    | _ => (true, st, it)                                         (* NULL value: a section heading *)
    end
  end.

Fixpoint load_items (d : dict) (kvs : list (nat * kvtab)) (sobjs : list (nat * sobj))
         (st : store) (its : list item) : Z * store * list item :=
  match its with
  | [] => (0, st, [])
  | it :: r =>
      let '(ok, st', it') := load_item d kvs sobjs st it in
      if ok then let '(rc, st'', r') := load_items d kvs sobjs st' r in (rc, st'', it' :: r')
      else (-1, st', it' :: r)
  end.

Definition set_opts (w : world) (o : nat) (x : opts) : world :=
  mkW (w_store w) (w_sobjs w) (w_nsobj w) (al_set (w_opts w) o x) (w_kvs w) (w_fs w) (w_errno w).
Definition set_store (w : world) (s : store) : world :=
  mkW s (w_sobjs w) (w_nsobj w) (w_opts w) (w_kvs w) (w_fs w) (w_errno w).
Definition set_errno (w : world) (e : Z) : world :=
  mkW (w_store w) (w_sobjs w) (w_nsobj w) (w_opts w) (w_kvs w) (w_fs w) e.

Definition empty_opts : opts := mkOpts [] (-1) [] false.
Definition get_opts (w : world) (o : nat) : opts :=
  match al_get (w_opts w) o with Some x => x | None => empty_opts end.

(* does the file contain a numeric value that reaches strtol/strtod?  errno afterwards is the one of
   the last conversion; it is not an observable, the model simply keeps 0 or ERANGE out of reach of
   later operations because every conversion clears it first *)
Definition load_ini (w : world) (o : nat) (file : str) : Z * world :=
  match fs_get (w_fs w) file with
  | None => (-1, set_errno w ENOENT)
  | Some bytes =>
      match ini_load bytes with
      | None => (-1, w)
      | Some d =>
          let ob := get_opts w o in
          let '(rc, st, its) := load_items d (w_kvs w) (w_sobjs w) (w_store w) (o_items ob) in
          (rc, set_store (set_opts w o (mkOpts its (o_first ob) (o_args ob) (o_alloced ob))) st)
      end
  end.

(* ---- sc_options_save --------------------------------------------------------------------- *)
Fixpoint rsplit_colon (s : str) (acc : str) : option (str * str) :=
  (* strrchr (s, ':'): (text before the last colon, text behind it) *)
  match s with
  | [] => None
  | c :: r =>
      match rsplit_colon r (acc ++ [c]) with
      | Some x => Some x
      | None => if c =? cCOLON then Some (acc, r) else None
      end
  end.

Definition save_value (w : world) (it : item) : str :=
  match it_type it with
  | TSwitch => let b := st_int (w_store w) (it_var it) in
               if b <=? 1 then (if b =? 0 then s_false else s_true) else print_dec b
  | TBool => if st_int (w_store w) (it_var it) =? 0 then s_false else s_true
  | TInt => print_dec (st_int (w_store w) (it_var it))
  | TSize => print_udec (st_int (w_store w) (it_var it))
  | TDouble => fmt16 (st_dbl (w_store w) (it_var it))
  | TString => match string_get w (it_var it) with Some s => s | None => [] end
  | TKeyvalue => match it_sval it with Some s => s | None => s_null end
  | _ => []
  end.

Definition item_skipped (w : world) (it : item) : bool :=
  file_type (it_type it) ||
  (match it_type it with TString => match string_get w (it_var it) with None => true | Some _ => false end | _ => false end).

(* prefix and base name of an item as sc_options_save determines them *)
Definition save_prefix_base (it : item) : str * str :=
  match it_name it with
  | Some n => match rsplit_colon n [] with
              | Some (p, b) => (p, b)
              | None => (s_Options, n)
              end
  | None => (s_Options, [cMINUS; it_char it])
  end.

Fixpoint save_items (w : world) (its : list item) (last_prefix : option str) : list Z :=
  match its with
  | [] => []
  | it :: r =>
      if item_skipped w it then save_items w r last_prefix else
      let '(p, b) := save_prefix_base it in
      let head := match last_prefix with
                  | Some q => if str_eqb p q then [] else cLBR :: p ++ [cRBR; cNL]
                  | None => cLBR :: p ++ [cRBR; cNL]
                  end in
      head ++ s_indent ++ b ++ s_eq ++ save_value w it ++ [cNL] ++ save_items w r (Some p)
  end.

Fixpoint save_args (i : Z) (args : list (option str)) : list Z :=
  match args with
  | [] => []
  | a :: r => s_indent ++ print_dec i ++ s_eq ++ (match a with Some s => s | None => s_null end) ++ [cNL]
              ++ save_args (i + 1) r
  end.

Definition save_text (w : world) (ob : opts) : list Z :=
  let rest := skipn (Z.to_nat (o_first ob)) (o_args ob) in
  s_title ++ [cNL] ++ save_items w (o_items ob) None
  ++ cLBR :: s_Arguments ++ [cRBR; cNL]
  ++ s_indent ++ s_count ++ s_eq ++ print_dec (Z.of_nat (length (o_args ob)) - o_first ob) ++ [cNL]
  ++ save_args 0 rest.

Definition bad_path (f : str) : bool := match f with 47 :: _ => true | _ => false end.  (* harness convention: "/..." cannot be opened *)

Definition save (w : world) (o : nat) (file : str) : Z * world :=
  if bad_path file then (-1, set_errno w ENOENT)
  else (0, mkW (w_store w) (w_sobjs w) (w_nsobj w) (w_opts w) (w_kvs w)
               ((file, save_text w (get_opts w o)) :: w_fs w) (w_errno w)).

(* ---- sc_options_load_args ---------------------------------------------------------------- *)
Definition s_args_key (i : Z) : str := s_Arguments ++ cCOLON :: print_dec i.

Fixpoint load_args_loop (d : dict) (n : nat) (i : Z) : list (option str) * bool :=
  (* entries read so far (the rest stays NULL), complete? *)
  match n with
  | O => ([], true)
  | S n' =>
      match ini_getstring d (s_args_key i) with
      | Some (Some s) => let '(l, ok) := load_args_loop d n' (i + 1) in (Some s :: l, ok)
      | _ => (repeat None n, false)
      end
  end.

Definition load_args (w : world) (o : nat) (file : str) : Z * world :=
  match fs_get (w_fs w) file with
  | None => (-1, set_errno w ENOENT)
  | Some bytes =>
      match ini_load bytes with
      | None => (-1, w)
      | Some d =>
          match ini_getstring d (s_Arguments ++ cCOLON :: s_count) with
          | Some (Some v) =>
              let '(cnt, e) := ini_int v in
              if (cnt <? 0) || e then (-1, w) else
              let '(l, ok) := load_args_loop d (Z.to_nat cnt) 0 in
              let ob := get_opts w o in
              ((if ok then 0 else -1), set_opts w o (mkOpts (o_items ob) 0 l true))
          | Some None => (-1, w)               (* "[Arguments:count]" heading: NULL value = not found (5a6ac04) *)
          | None => (-1, w)
          end
      end
  end.

(* ---- sc_options_parse -------------------------------------------------------------------- *)
Fixpoint find_short (its : list item) (c : Z) : option nat :=
  match its with
  | [] => None
  | it :: r => if it_char it =? c then Some O else match find_short r c with Some k => Some (S k) | None => None end
  end.

Definition set_sval (it : item) (s : option str) : item :=
  mkItem (it_type it) (it_char it) (it_name it) (it_var it) (it_hasarg it) (it_kv it) s.

Fixpoint replace_nth {A} (l : list A) (k : nat) (x : A) : list A :=
  match l, k with
  | [], _ => []
  | _ :: r, O => x :: r
  | y :: r, S k' => y :: replace_nth r k' x
  end.

Definition cb_fails (arg : option str) : bool :=          (* the harness callback: fails on "!..." *)
  match arg with Some (33 :: _) => true | _ => false end.

(* the switch statement of sc_options_parse for one recognised item; result code 0 / -1 / R_CRASH *)
Definition apply_item (w : world) (o : nat) (k : nat) (it : item) (arg : option str) : Z * world :=
  let st := w_store w in
  let ok (s : store) := (0, set_store w s) in
  match it_type it with
  | TSwitch => ok (st_set st (it_var it) (VI (st_int st (it_var it) + 1)))
  | TBool =>
      match arg with
      | None => ok (st_set st (it_var it) (VI 1))
      | Some a => if first_in s_yes a then ok (st_set st (it_var it) (VI 1))
                  else if first_in s_no a then ok (st_set st (it_var it) (VI 0))
                  else (-1, w)
      end
  | TInt =>
      match arg with
      | None => (R_CRASH, w)
      | Some a =>
          let '(l, e) := c_strtol 0 a in                         (* errno = 0; strtol *)
          if (l <? INT_MIN) || (l >? INT_MAX) || (e =? ERANGE) then (-1, set_errno w e)
          else (0, set_errno (set_store w (st_set st (it_var it) (VI l))) e)
      end
  | TSize =>
      match arg with
      | None => (R_CRASH, w)
      | Some a =>
          let '(l, e) := c_strtol 0 a in
          if (l <? 0) || (e =? ERANGE) then (-1, set_errno w e)
          else (0, set_errno (set_store w (st_set st (it_var it) (VI l))) e)
      end
  | TDouble =>
      match arg with
      | None => (R_CRASH, w)
      | Some a =>
          let '(x, e) := strtod a in
          let en := if e then ERANGE else 0 in
          if dbl_error x e then (-1, set_errno w en) else (0, set_errno (set_store w (st_set st (it_var it) (VD x))) en)
      end
  | TString => ok (string_set (w_sobjs w) st (it_var it) arg)
  | TIni =>
      match arg with
      | None => (R_CRASH, w)
      | Some a => let '(rc, w') := load_ini w o a in
                  if rc =? 0 then (0, w') else if rc =? R_CRASH then (R_CRASH, w') else (-1, w')
      end
  | TJson => (-1, w)                                            (* JSON support is not configured *)
  | TCallback =>
      let w' := set_store w (st_set st (it_var it) (VI (st_int st (it_var it) + 1))) in
      if cb_fails arg then (-1, w') else (0, w')
  | TKeyvalue =>
      match arg with
      | None => (R_CRASH, w)
      | Some a =>
          let t := match al_get (w_kvs w) (it_kv it) with Some t => t | None => [] end in
          let '(x, e) := kv_get_int_check t a (st_int st (it_var it)) in
          let w' := set_store w (st_set st (it_var it) (VI x)) in
          if e =? 0 then
            let ob := get_opts w' o in
            (0, set_opts w' o (mkOpts (replace_nth (o_items ob) k (set_sval it (Some a)))
                                      (o_first ob) (o_args ob) (o_alloced ob)))
          else (-1, w')
      end
  end.

(* the getopt loop: consumes the events libc produced; (retval, world, events left over).
   retval R_SHORT = the recorded stream ended before the loop did (cannot happen for a faithful record) *)
Fixpoint parse_loop (w : world) (o : nat) (evs : list gevent) : Z * world * list gevent :=
  match evs with
  | [] => (R_SHORT, w, [])
  | GEnd :: r => (0, w, r)
  | GErr _ :: r => (-1, w, r)
  | ev :: r =>
      let its := o_items (get_opts w o) in
      let sel := match ev with
                 | GLong idx arg => Some (Z.to_nat idx, arg)
                 | GShort c arg => match find_short its c with Some k => Some (k, arg) | None => None end
                 | _ => None
                 end in
      match sel with
      | None => (-1, w, r)                                      (* "Encountered invalid short option" *)
      | Some (k, arg) =>
          match nth_error its k with
          | None => (R_CRASH, w, r)
          | Some it =>
              let '(rc, w') := apply_item w o k it arg in
              if rc =? 0 then parse_loop w' o r else (rc, w', r)
          end
      end
  end.

(* sc_options_parse: optind_end / argv_end = optind and the (permuted) argv when the loop stopped *)
Definition parse (w : world) (o : nat) (evs : list gevent) (optind_end : Z) (argv_end : list str)
  : Z * world * list gevent :=
  let '(rc, w', rest_evs) := parse_loop w o evs in
  let ob := get_opts w' o in
  let first := if rc <? 0 then -1 else optind_end in
  let ret := if (rc =? R_CRASH) || (rc =? R_SHORT) then rc else first in
  (ret, set_opts w' o (mkOpts (o_items ob) first (map Some argv_end) false), rest_evs).

(* ---- declarations ------------------------------------------------------------------------ *)
Definition add_item (w : world) (o : nat) (it : item) : world :=
  let ob := get_opts w o in
  set_opts w o (mkOpts (o_items ob ++ [it]) (o_first ob) (o_args ob) (o_alloced ob)).

Inductive initv := INone | IInt (z : Z) | IDbl (bits : Z) | IStr (s : option str).

(* sc_options_add_switch / bool / int / size_t / double / string / inifile / jsonfile / callback / keyvalue *)
Definition add_option (w : world) (o : nat) (ty : otype) (c : Z) (name : option str) (var : nat)
           (hasarg : Z) (kv : nat) (init : initv) : world :=
  let st := w_store w in
  match ty with
  | TSwitch => add_item (set_store w (st_set st var (VI 0))) o (mkItem ty c name var 0 0 None)
  | TBool => add_item (set_store w (st_set st var (VI (match init with IInt z => z | _ => 0 end)))) o
                      (mkItem ty c name var 2 0 None)
  | TInt | TSize => add_item (set_store w (st_set st var (VI (match init with IInt z => z | _ => 0 end)))) o
                             (mkItem ty c name var 1 0 None)
  | TDouble => add_item (set_store w (st_set st var (VD (match init with IDbl z => z | _ => 0 end)))) o
                        (mkItem ty c name var 1 0 None)
  | TString =>
      let id := w_nsobj w in
      let v := match init with IStr s => s | _ => None end in
      let w1 := mkW (st_set st var (VS v)) (al_set (w_sobjs w) id (mkSobj var 1)) (S id)
                    (w_opts w) (w_kvs w) (w_fs w) (w_errno w) in
      add_item w1 o (mkItem ty c name id 1 0 None)
  | TIni | TJson => add_item w o (mkItem ty c name O 1 0 None)
  | TCallback => add_item w o (mkItem ty c name var hasarg 0 None)
  | TKeyvalue =>
      let t := match al_get (w_kvs w) kv with Some t => t | None => [] end in
      let key := match init with IStr (Some s) => s | _ => [] end in
      let x := fst (kv_get_int_check t key INT_MIN) in
      add_item (set_store w (st_set st var (VI x))) o (mkItem ty c name var 1 kv (Some key))
  end.

(* sc_options_add_suboptions *)
Definition sub_name (prefix : str) (it : item) : str :=
  match it_name it with
  | Some n => prefix ++ cCOLON :: n
  | None => prefix ++ [cCOLON; cMINUS; it_char it]
  end.

Definition add_sub_item (w : world) (o : nat) (prefix : str) (it : item) : world :=
  let nm := Some (sub_name prefix it) in
  let st := w_store w in
  match it_type it with
  | TSwitch => add_item (set_store w (st_set st (it_var it) (VI 0))) o (mkItem TSwitch 0 nm (it_var it) 0 0 None)
  | TBool => add_item w o (mkItem TBool 0 nm (it_var it) 2 0 None)
  | TInt => add_item w o (mkItem TInt 0 nm (it_var it) 1 0 None)
  | TSize => add_item w o (mkItem TSize 0 nm (it_var it) 1 0 None)
  | TDouble => add_item w o (mkItem TDouble 0 nm (it_var it) 1 0 None)
  | TString =>
      let sobjs := match al_get (w_sobjs w) (it_var it) with
                   | Some s => al_set (w_sobjs w) (it_var it) (mkSobj (so_var s) (so_rc s + 1))
                   | None => w_sobjs w end in
      add_item (mkW st sobjs (w_nsobj w) (w_opts w) (w_kvs w) (w_fs w) (w_errno w)) o
               (mkItem TString 0 nm (it_var it) 1 0 None)
  | TIni => add_item w o (mkItem TIni 0 nm O 1 0 None)
  | TJson => add_item w o (mkItem TJson 0 nm O 1 0 None)
  | TCallback => add_item w o (mkItem TCallback 0 nm (it_var it) (it_hasarg it) 0 None)
  | TKeyvalue =>
      let t := match al_get (w_kvs w) (it_kv it) with Some t => t | None => [] end in
      let key := match it_sval it with Some s => s | None => [] end in
      let x := fst (kv_get_int_check t key INT_MIN) in
      add_item (set_store w (st_set st (it_var it) (VI x))) o (mkItem TKeyvalue 0 nm (it_var it) 1 (it_kv it) (Some key))
  end.

Definition add_suboptions (w : world) (o sub : nat) (prefix : str) : world :=
  fold_left (fun w' it => add_sub_item w' o prefix it) (o_items (get_opts w sub)) w.

(* sc_options_destroy: the strings are unreferenced; the last owner overwrites the user variable *)
Definition destroy_item (w : world) (it : item) : world :=
  match it_type it with
  | TString =>
      match al_get (w_sobjs w) (it_var it) with
      | Some s =>
          if so_rc s <=? 1 then
            mkW (st_set (w_store w) (so_var s) (VS (Some s_destroyed))) (al_set (w_sobjs w) (it_var it) (mkSobj (so_var s) 0))
                (w_nsobj w) (w_opts w) (w_kvs w) (w_fs w) (w_errno w)
          else
            mkW (w_store w) (al_set (w_sobjs w) (it_var it) (mkSobj (so_var s) (so_rc s - 1)))
                (w_nsobj w) (w_opts w) (w_kvs w) (w_fs w) (w_errno w)
      | None => w
      end
  | _ => w
  end.

Definition destroy (w : world) (o : nat) : world :=
  let w' := fold_left destroy_item (o_items (get_opts w o)) w in
  set_opts w' o empty_opts.

(* ---- histories --------------------------------------------------------------------------- *)
Inductive op :=
| ONew (o : nat)
| OKv (k : nat) (t : kvtab)
| OAdd (o : nat) (ty : otype) (c : Z) (name : option str) (var : nat) (hasarg : Z) (kv : nat) (init : initv)
| OSub (o sub : nat) (prefix : str)
| OParse (o : nat) (evs : list gevent) (optind_end : Z) (argv_end : list str)
| OLoad (o : nat) (f : str)
| OLoadArgs (o : nat) (f : str)
| OSave (o : nat) (f : str)
| OFile (f : str) (bytes : list Z)
| OErrno (e : Z)
| OSetVar (v : nat) (x : value)
| ODestroy (o : nat).

Definition empty_world : world := mkW [] [] O [] [] [] 0.

(* one step: (return value, new world, 0 or the number of recorded getopt events not consumed) *)
Definition step (w : world) (x : op) : Z * world * Z :=
  match x with
  | ONew o => (0, set_opts w o empty_opts, 0)
  | OKv k t => (0, mkW (w_store w) (w_sobjs w) (w_nsobj w) (w_opts w) (al_set (w_kvs w) k t) (w_fs w) (w_errno w), 0)
  | OAdd o ty c name var hasarg kv init => (0, add_option w o ty c name var hasarg kv init, 0)
  | OSub o sub prefix => (0, add_suboptions w o sub prefix, 0)
  | OParse o evs oe av => let '(r, w', rest_evs) := parse w o evs oe av in (r, w', Z.of_nat (length rest_evs))
  | OLoad o f => let '(r, w') := load_ini w o f in (r, w', 0)
  | OLoadArgs o f => let '(r, w') := load_args w o f in (r, w', 0)
  | OSave o f => let '(r, w') := save w o f in (r, w', 0)
  | OFile f b => (0, mkW (w_store w) (w_sobjs w) (w_nsobj w) (w_opts w) (w_kvs w) ((f, b) :: w_fs w) (w_errno w), 0)
  | OErrno e => (0, set_errno w e, 0)
  | OSetVar v x => (0, set_store w (st_set (w_store w) v x), 0)
  | ODestroy o => (0, destroy w o, 0)
  end.

Fixpoint run (w : world) (l : list op) : list Z * world :=
  match l with
  | [] => ([], w)
  | x :: r => let '(rc, w', _) := step w x in let '(rs, w'') := run w' r in (rc :: rs, w'')
  end.

End Model.
