(* C17 - the getopt side of sc_options_parse: with the scan state reset at the start of every call
   (repair 5b6f754) the scan is a function of the argument vector alone; without the reset it is not
   (witnesses); and, end to end on the argument vector, "-i TEXT" / "--int=TEXT" / "--int TEXT" set the
   variable to the integer TEXT denotes or return -1. *)
From Coq Require Import ZArith List Bool Lia.
From ScV Require Import Base.CInt C17.OptionsModel C17.NumProofs C17.GetoptModel.
Import ListNotations.
Local Open Scope Z_scope.

(* after `optind = 0` the next call does not depend on anything an earlier scan left behind *)
Theorem getopt_reset_independent shorts longs argv g1 g2 :
  getopt_call shorts longs argv (g_reset g1) = getopt_call shorts longs argv (g_reset g2).
Proof. reflexivity. Qed.

Section P.
Variable strtod : str -> Z * bool.

Theorem parse_argv_history_independent w o argv g1 g2 :
  fst (parse_argv strtod w o argv g1) = fst (parse_argv strtod w o argv g2).
Proof.
  unfold parse_argv. destruct (argv_fuel argv) as [|f]; [reflexivity|].
  cbn [parse_argv_loop]. rewrite (getopt_reset_independent _ _ argv g1 g2). reflexivity.
Qed.

(* ---- witnesses: what the missing reset did (F-C17b) ---- *)
Definition ex_shorts : list (Z * Z) := [(105, 1); (120, 0); (113, 0)].          (* "i:xq" *)
Definition w_prog : str := [112; 114; 111; 103].
Definition ex_argv : list str := [w_prog; [45; 105]; [55]; [45; 120]; [114; 101; 115; 116]].   (* prog -i 7 -x rest *)

(* the state a complete first scan leaves behind *)
Definition g_after_first : gstate := snd (fst (getopt_calls 3 ex_shorts [] ex_argv g_start)).

(* scanning the same vector again without the reset returns -1 at once: the arguments are ignored *)
Theorem stale_optind_refuted :
  fst (fst (getopt_calls 3 ex_shorts [] ex_argv g_start)) = [GShort 105 (Some [55]); GShort 120 None; GEnd] /\
  fst (fst (getopt_call ex_shorts [] ex_argv g_after_first)) = GEnd /\
  fst (fst (getopt_calls 3 ex_shorts [] ex_argv (g_reset g_after_first))) = [GShort 105 (Some [55]); GShort 120 None; GEnd].
Proof. vm_compute. repeat split; reflexivity. Qed.

(* a scan that is abandoned inside the clustered word "-xZq" leaves "q" pending; `optind = 1` alone
   does not clear it, `optind = 0` does *)
Definition ex_argv_bad : list str := [w_prog; [45; 120; 90; 113]; [45; 105]; [53]].           (* prog -xZq -i 5 *)
Definition ex_argv_next : list str := [w_prog; [45; 105]; [57]; [45; 120]].                  (* prog -i 9 -x *)
Definition g_after_failure : gstate := snd (fst (getopt_calls 2 ex_shorts [] ex_argv_bad g_start)).
Definition set_optind (g : gstate) (i : Z) : gstate := mkG i (g_next g) (g_first g) (g_last g) (g_init g).

Theorem stale_cluster_refuted :
  fst (fst (getopt_calls 2 ex_shorts [] ex_argv_bad g_start)) = [GShort 120 None; GErr 90] /\
  fst (fst (getopt_call ex_shorts [] ex_argv_next (set_optind g_after_failure 1))) = GShort 113 None /\
  fst (fst (getopt_call ex_shorts [] ex_argv_next (g_reset g_after_failure))) = GShort 105 (Some [57]).
Proof. vm_compute. repeat split; reflexivity. Qed.

(* ---- end to end on the argument vector ---- *)
Definition s_int : str := [105; 110; 116].                                                    (* "int" *)
Definition int_item : item := mkItem TInt 105 (Some s_int) 0%nat 1 0 None.
Definition size_item : item := mkItem TSize 122 (Some [115; 105; 122; 101]) 1%nat 1 0 None.      (* -z / --size *)
Definition sw_item : item := mkItem TSwitch 120 None 2%nat 0 0 None.                          (* -x *)
Definition ex_items : list item := [int_item; size_item; sw_item].
Definition ex_world (st : store) : world := mkW st [] 0%nat [(0%nat, mkOpts ex_items (-1) [] false)] [] [] 0.

Lemma ex_get st : get_opts (ex_world st) 0 = mkOpts ex_items (-1) [] false.
Proof. reflexivity. Qed.

Lemma parse_argv_loop_S f w o argv g :
  parse_argv_loop strtod (S f) w o argv g =
  let its := o_items (get_opts w o) in
  let '(ev, g', argv') := getopt_call (shorts_of its) (longs_of its 0) argv g in
  match parse_loop strtod w o [ev; GEnd] with
  | (rc, w', [GEnd]) => (rc, w', g', argv')
  | (_, w', _) => parse_argv_loop strtod f w' o argv' g'
  end.
Proof. reflexivity. Qed.

Lemma fuel3 (p q a : str) : exists f, argv_fuel [p; q; a] = S (S (S f)).
Proof. unfold argv_fuel. cbn [length]. rewrite Nat.add_comm. eexists. reflexivity. Qed.
Lemma fuel2 (p a : str) : exists f, argv_fuel [p; a] = S (S f).
Proof. unfold argv_fuel. cbn [length]. rewrite Nat.add_comm. eexists. reflexivity. Qed.

(* the three spellings of an option with argument, for an arbitrary argument text *)
Lemma call_short_sep a g :
  getopt_call (shorts_of ex_items) (longs_of ex_items 0) [w_prog; [45; 105]; a] (g_reset g)
  = (GShort 105 (Some a), mkG 3 [] 1 1 true, [w_prog; [45; 105]; a]).
Proof. vm_compute. reflexivity. Qed.

Lemma call_end3 p q a : getopt_call (shorts_of ex_items) (longs_of ex_items 0) [p; q; a] (mkG 3 [] 1 1 true)
  = (GEnd, mkG 3 [] 3 3 true, [p; q; a]).
Proof. vm_compute. reflexivity. Qed.

Lemma call_long_eq a g :
  getopt_call (shorts_of ex_items) (longs_of ex_items 0) [w_prog; 45 :: 45 :: s_int ++ cEQ :: a] (g_reset g)
  = (GLong 0 (Some a), mkG 2 [] 1 1 true, [w_prog; 45 :: 45 :: s_int ++ cEQ :: a]).
Proof. vm_compute. reflexivity. Qed.

Lemma call_end2 p a : getopt_call (shorts_of ex_items) (longs_of ex_items 0) [p; a] (mkG 2 [] 1 1 true)
  = (GEnd, mkG 2 [] 2 2 true, [p; a]).
Proof. vm_compute. reflexivity. Qed.

Lemma call_unknown g :
  getopt_call (shorts_of ex_items) (longs_of ex_items 0) [w_prog; [45; 90]] (g_reset g)
  = (GErr 90, mkG 2 [] 1 1 true, [w_prog; [45; 90]]).
Proof. vm_compute. reflexivity. Qed.

Lemma apply_keeps_opts w o k it a : it_type it = TInt ->
  get_opts (snd (apply_item strtod w o k it (Some a))) o = get_opts w o.
Proof.
  intros Ht. unfold apply_item. rewrite Ht. destruct (c_strtol 0 a) as [l e].
  destruct ((l <? INT_MIN) || (l >? INT_MAX) || (e =? ERANGE)); reflexivity.
Qed.

Lemma ploop_short_i st a :
  parse_loop strtod (ex_world st) 0%nat [GShort 105 (Some a); GEnd] =
  let '(rc, w') := apply_item strtod (ex_world st) 0%nat 0%nat int_item (Some a) in
  if rc =? 0 then (0, w', []) else (rc, w', [GEnd]).
Proof. reflexivity. Qed.

Lemma ploop_long_i st a :
  parse_loop strtod (ex_world st) 0%nat [GLong 0 (Some a); GEnd] =
  let '(rc, w') := apply_item strtod (ex_world st) 0%nat 0%nat int_item (Some a) in
  if rc =? 0 then (0, w', []) else (rc, w', [GEnd]).
Proof. reflexivity. Qed.

Lemma ploop_end w o : parse_loop strtod w o [GEnd; GEnd] = (0, w, [GEnd]).
Proof. reflexivity. Qed.

(* "-i TEXT": for EVERY text the result is the one int_outcome describes *)
Theorem parse_argv_short_int (st : store) (a : str) (g : gstate) :
  let r := parse_argv strtod (ex_world st) 0%nat [w_prog; [45; 105]; a] g in
  match int_outcome a with
  | Some v => fst (fst r) = 3 /\ w_store (snd (fst r)) = st_set st 0%nat (VI v)
  | None => fst (fst r) = -1 /\ w_store (snd (fst r)) = st
  end.
Proof.
  unfold parse_argv. set (n := argv_fuel _).
  assert (Hn : exists f, n = S (S (S f))) by (subst n; apply fuel3). destruct Hn as [f ->].
  rewrite parse_argv_loop_S. cbv zeta. rewrite ex_get. cbn [o_items]. rewrite call_short_sep.
  rewrite ploop_short_i.
  pose proof (apply_int strtod (ex_world st) 0%nat 0%nat int_item a eq_refl) as H. cbv zeta in H.
  pose proof (apply_keeps_opts (ex_world st) 0%nat 0%nat int_item a eq_refl) as Hk.
  revert H Hk. destruct (apply_item strtod (ex_world st) 0%nat 0%nat int_item (Some a)) as [rc w1]. cbn [fst snd].
  intros H Hk. destruct (int_outcome a) as [v|]; destruct H as [-> Hst].
  - change (0 =? 0) with true. cbv iota. rewrite parse_argv_loop_S. cbv zeta. rewrite Hk, ex_get. cbn [o_items]. rewrite call_end3.
    rewrite ploop_end. cbv iota. cbn [g_optind fst snd]. split; [reflexivity|exact Hst].
  - change (-1 =? 0) with false. cbv iota. cbn [g_optind fst snd]. split; [reflexivity|exact Hst].
Qed.

(* "--int=TEXT" *)
Theorem parse_argv_long_int (st : store) (a : str) (g : gstate) :
  let r := parse_argv strtod (ex_world st) 0%nat [w_prog; 45 :: 45 :: s_int ++ cEQ :: a] g in
  match int_outcome a with
  | Some v => fst (fst r) = 2 /\ w_store (snd (fst r)) = st_set st 0%nat (VI v)
  | None => fst (fst r) = -1 /\ w_store (snd (fst r)) = st
  end.
Proof.
  unfold parse_argv. set (n := argv_fuel _).
  assert (Hn : exists f, n = S (S f)) by (subst n; apply fuel2). destruct Hn as [f ->].
  rewrite parse_argv_loop_S. cbv zeta. rewrite ex_get. cbn [o_items]. rewrite call_long_eq.
  rewrite ploop_long_i.
  pose proof (apply_int strtod (ex_world st) 0%nat 0%nat int_item a eq_refl) as H. cbv zeta in H.
  pose proof (apply_keeps_opts (ex_world st) 0%nat 0%nat int_item a eq_refl) as Hk.
  revert H Hk. destruct (apply_item strtod (ex_world st) 0%nat 0%nat int_item (Some a)) as [rc w1]. cbn [fst snd].
  intros H Hk. destruct (int_outcome a) as [v|]; destruct H as [-> Hst].
  - change (0 =? 0) with true. cbv iota. rewrite parse_argv_loop_S. cbv zeta. rewrite Hk, ex_get. cbn [o_items]. rewrite call_end2.
    rewrite ploop_end. cbv iota. cbn [g_optind fst snd]. split; [reflexivity|exact Hst].
  - change (-1 =? 0) with false. cbv iota. cbn [g_optind fst snd]. split; [reflexivity|exact Hst].
Qed.

(* an option that was not declared: error return, nothing assigned *)
Theorem parse_argv_unknown st g :
  let r := parse_argv strtod (ex_world st) 0%nat [w_prog; [45; 90]] g in
  fst (fst r) = -1 /\ w_store (snd (fst r)) = st.
Proof.
  unfold parse_argv. set (n := argv_fuel _).
  assert (Hn : exists f, n = S (S f)) by (subst n; apply fuel2). destruct Hn as [f ->].
  rewrite parse_argv_loop_S. cbv zeta. rewrite ex_get. cbn [o_items]. rewrite call_unknown.
  change (parse_loop strtod (ex_world st) 0%nat [GErr 90; GEnd]) with (-1, ex_world st, [GEnd]).
  cbv iota. cbn [g_optind fst snd]. split; reflexivity.
Qed.

End P.
