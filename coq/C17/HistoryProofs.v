(* C17 - histories: no operation of the model reads errno (every conversion clears it first, as the
   repaired code does), so return values, variables, option tables, argument lists and files of a
   history do not depend on the errno left behind by earlier calls or set from outside; error returns;
   the loader never reaches a NULL dereference. *)
From Coq Require Import ZArith List Bool Lia.
From ScV Require Import Base.CInt C17.OptionsModel C17.NumProofs.
Import ListNotations.
Local Open Scope Z_scope.

Section History.
Variable strtod : str -> Z * bool.
Variable fmt16 : Z -> str.

(* "the same world up to errno" *)
Definition eqv (w1 w2 : world) : Prop := exists e, w1 = set_errno w2 e.

Lemma set_errno_twice w a b : set_errno (set_errno w a) b = set_errno w b.
Proof. reflexivity. Qed.
Lemma set_errno_self w : set_errno w (w_errno w) = w.
Proof. destruct w; reflexivity. Qed.
Lemma eqv_refl w : eqv w w.
Proof. exists (w_errno w). symmetry. apply set_errno_self. Qed.
Lemma eqv_set w e : eqv (set_errno w e) w.
Proof. exists e. reflexivity. Qed.
Lemma eqv_sym w1 w2 : eqv w1 w2 -> eqv w2 w1.
Proof. intros [e ->]. exists (w_errno w2). rewrite set_errno_twice. symmetry. apply set_errno_self. Qed.
Lemma eqv_trans w1 w2 w3 : eqv w1 w2 -> eqv w2 w3 -> eqv w1 w3.
Proof. intros [a ->] [b ->]. exists a. reflexivity. Qed.

(* a function of the world that does not look at errno *)
Definition blind {A} (f : world -> A * world) : Prop :=
  forall w e, fst (f (set_errno w e)) = fst (f w) /\ eqv (snd (f (set_errno w e))) (snd (f w)).

Lemma load_ini_blind o f : blind (fun w => load_ini strtod w o f).
Proof.
  intros w e. unfold load_ini. cbn [w_fs set_errno].
  destruct (fs_get (w_fs w) f) as [bytes|]; [|split; [reflexivity|exists ENOENT; reflexivity]].
  destruct (ini_load bytes) as [d|]; [|split; [reflexivity|apply eqv_set]].
  change (get_opts (set_errno w e) o) with (get_opts w o). cbn [w_kvs w_sobjs w_store set_errno].
  destruct (load_items strtod d (w_kvs w) (w_sobjs w) (w_store w) (o_items (get_opts w o))) as [[rc st] its].
  split; [reflexivity|]. exists e. reflexivity.
Qed.

Lemma apply_item_blind o k it arg : blind (fun w => apply_item strtod w o k it arg).
Proof.
  intros w e. unfold apply_item. cbn [w_store set_errno].
  destruct (it_type it).
  - split; [reflexivity|exists e; reflexivity].
  - destruct arg as [a|]; [|split; [reflexivity|exists e; reflexivity]].
    destruct (first_in s_yes a); [split; [reflexivity|exists e; reflexivity]|].
    destruct (first_in s_no a); split; try reflexivity; exists e; reflexivity.
  - destruct arg as [a|]; [|split; [reflexivity|apply eqv_set]].
    destruct (c_strtol 0 a) as [l e1]. destruct ((l <? INT_MIN) || (l >? INT_MAX) || (e1 =? ERANGE));
      (split; [reflexivity|exists e1; reflexivity]).
  - destruct arg as [a|]; [|split; [reflexivity|apply eqv_set]].
    destruct (c_strtol 0 a) as [l e1]. destruct ((l <? 0) || (e1 =? ERANGE));
      (split; [reflexivity|exists e1; reflexivity]).
  - destruct arg as [a|]; [|split; [reflexivity|apply eqv_set]].
    destruct (strtod a) as [x er]. destruct (dbl_error x er); split; try reflexivity; exists (if er then ERANGE else 0); reflexivity.
  - split; [reflexivity|exists e; reflexivity].
  - destruct arg as [a|]; [|split; [reflexivity|apply eqv_set]].
    destruct (load_ini_blind o a w e) as [H1 H2].
    destruct (load_ini strtod (set_errno w e) o a) as [rc1 w1]. destruct (load_ini strtod w o a) as [rc2 w2].
    cbn [fst snd] in *. subst rc2. destruct (rc1 =? 0); [split; [reflexivity|exact H2]|].
    destruct (rc1 =? R_CRASH); split; try reflexivity; exact H2.
  - split; [reflexivity|apply eqv_set].
  - destruct (cb_fails arg); split; try reflexivity; exists e; reflexivity.
  - destruct arg as [a|]; [|split; [reflexivity|apply eqv_set]].
    cbn [w_kvs set_errno].
    destruct (kv_get_int_check match al_get (w_kvs w) (it_kv it) with Some t => t | None => [] end a (st_int (w_store w) (it_var it))) as [x e1].
    destruct (e1 =? 0); split; try reflexivity; exists e; reflexivity.
Qed.

Lemma parse_loop_blind o evs : forall w e,
  fst (fst (parse_loop strtod (set_errno w e) o evs)) = fst (fst (parse_loop strtod w o evs)) /\
  eqv (snd (fst (parse_loop strtod (set_errno w e) o evs))) (snd (fst (parse_loop strtod w o evs))) /\
  snd (parse_loop strtod (set_errno w e) o evs) = snd (parse_loop strtod w o evs).
Proof.
  induction evs as [|ev r IH]; intros w e.
  - cbn. split; [reflexivity|]. split; [apply eqv_set|reflexivity].
  - cbn [parse_loop]. change (get_opts (set_errno w e) o) with (get_opts w o).
    destruct ev as [|c|c arg|idx arg]; try (cbn; split; [reflexivity|split; [apply eqv_set|reflexivity]]).
    + destruct (find_short (o_items (get_opts w o)) c) as [k|]; [|cbn; split; [reflexivity|split; [apply eqv_set|reflexivity]]].
      destruct (nth_error (o_items (get_opts w o)) k) as [it|]; [|cbn; split; [reflexivity|split; [apply eqv_set|reflexivity]]].
      destruct (apply_item_blind o k it arg w e) as [H1 H2].
      destruct (apply_item strtod (set_errno w e) o k it arg) as [rc1 w1]. destruct (apply_item strtod w o k it arg) as [rc2 w2].
      cbn [fst snd] in *. subst rc2. destruct H2 as [e' ->].
      destruct (rc1 =? 0); [apply IH|]. cbn. split; [reflexivity|split; [apply eqv_set|reflexivity]].
    + destruct (nth_error (o_items (get_opts w o)) (Z.to_nat idx)) as [it|]; [|cbn; split; [reflexivity|split; [apply eqv_set|reflexivity]]].
      destruct (apply_item_blind o (Z.to_nat idx) it arg w e) as [H1 H2].
      destruct (apply_item strtod (set_errno w e) o (Z.to_nat idx) it arg) as [rc1 w1].
      destruct (apply_item strtod w o (Z.to_nat idx) it arg) as [rc2 w2].
      cbn [fst snd] in *. subst rc2. destruct H2 as [e' ->].
      destruct (rc1 =? 0); [apply IH|]. cbn. split; [reflexivity|split; [apply eqv_set|reflexivity]].
Qed.

Lemma save_items_errno w e its : forall lp, save_items fmt16 (set_errno w e) its lp = save_items fmt16 w its lp.
Proof.
  induction its as [|it r IH]; intros lp; [reflexivity|]. cbn [save_items].
  change (item_skipped (set_errno w e) it) with (item_skipped w it).
  change (save_value fmt16 (set_errno w e) it) with (save_value fmt16 w it).
  destruct (item_skipped w it); [apply IH|]. destruct (save_prefix_base it) as [p b]. rewrite IH. reflexivity.
Qed.

Lemma save_text_errno w e ob : save_text fmt16 (set_errno w e) ob = save_text fmt16 w ob.
Proof. unfold save_text. rewrite save_items_errno. reflexivity. Qed.

(* one operation of a history *)
Theorem step_blind x w e :
  fst (fst (step strtod fmt16 (set_errno w e) x)) = fst (fst (step strtod fmt16 w x)) /\
  snd (step strtod fmt16 (set_errno w e) x) = snd (step strtod fmt16 w x) /\
  eqv (snd (fst (step strtod fmt16 (set_errno w e) x))) (snd (fst (step strtod fmt16 w x))).
Proof.
  destruct x; cbn [step].
  - split; [reflexivity|split; [reflexivity|exists e; reflexivity]].
  - split; [reflexivity|split; [reflexivity|exists e; reflexivity]].
  - split; [reflexivity|split; [reflexivity|]]. cbn [fst snd]. unfold add_option.
    destruct ty; cbn [w_store w_kvs w_nsobj w_sobjs w_opts w_fs set_errno]; exists e; reflexivity.
  - split; [reflexivity|split; [reflexivity|]]. cbn [fst snd]. unfold add_suboptions.
    change (get_opts (set_errno w e) sub) with (get_opts w sub).
    generalize (o_items (get_opts w sub)). intros l. revert w. induction l as [|it r IH]; intros w; [exists e; reflexivity|].
    cbn [fold_left].
    assert (H : add_sub_item (set_errno w e) o prefix it = set_errno (add_sub_item w o prefix it) e).
    { unfold add_sub_item. destruct (it_type it); try reflexivity;
        cbn [w_sobjs set_errno]; destruct (al_get (w_sobjs w) (it_var it)); reflexivity. }
    rewrite H. apply IH.
  - unfold parse. destruct (parse_loop_blind o evs w e) as (H1 & H2 & H3).
    destruct (parse_loop strtod (set_errno w e) o evs) as [[rc1 w1] l1]. destruct (parse_loop strtod w o evs) as [[rc2 w2] l2].
    cbn [fst snd] in *. subst rc2 l2. destruct H2 as [e' ->].
    change (get_opts (set_errno w2 e') o) with (get_opts w2 o).
    split; [reflexivity|split; [reflexivity|exists e'; reflexivity]].
  - destruct (load_ini_blind o f w e) as [H1 H2].
    destruct (load_ini strtod (set_errno w e) o f) as [r1 w1]. destruct (load_ini strtod w o f) as [r2 w2].
    cbn [fst snd] in *. subst. split; [reflexivity|split; [reflexivity|exact H2]].
  - unfold load_args. cbn [w_fs set_errno].
    destruct (fs_get (w_fs w) f) as [bytes|]; [|split; [reflexivity|split; [reflexivity|exists ENOENT; reflexivity]]].
    destruct (ini_load bytes) as [d|]; [|split; [reflexivity|split; [reflexivity|apply eqv_set]]].
    destruct (ini_getstring d (s_Arguments ++ cCOLON :: s_count)) as [[v|]|]; try (split; [reflexivity|split; [reflexivity|apply eqv_set]]).
    destruct (ini_int v) as [cnt er]. destruct ((cnt <? 0) || er); [split; [reflexivity|split; [reflexivity|apply eqv_set]]|].
    destruct (load_args_loop d (Z.to_nat cnt) 0) as [l ok].
    change (get_opts (set_errno w e) o) with (get_opts w o).
    split; [reflexivity|split; [reflexivity|exists e; reflexivity]].
  - unfold save. destruct (bad_path f); [split; [reflexivity|split; [reflexivity|exists ENOENT; reflexivity]]|].
    change (get_opts (set_errno w e) o) with (get_opts w o). rewrite save_text_errno.
    split; [reflexivity|split; [reflexivity|exists e; reflexivity]].
  - split; [reflexivity|split; [reflexivity|exists e; reflexivity]].
  - split; [reflexivity|split; [reflexivity|exists e0; reflexivity]].
  - split; [reflexivity|split; [reflexivity|exists e; reflexivity]].
  - split; [reflexivity|split; [reflexivity|]]. cbn [fst snd]. unfold destroy.
    change (get_opts (set_errno w e) o) with (get_opts w o).
    assert (H : forall l w, fold_left destroy_item l (set_errno w e) = set_errno (fold_left destroy_item l w) e).
    { induction l as [|it r IH]; intros w'; [reflexivity|]. cbn [fold_left].
      assert (H1 : destroy_item (set_errno w' e) it = set_errno (destroy_item w' it) e).
      { unfold destroy_item. destruct (it_type it); try reflexivity. cbn [w_sobjs set_errno].
        destruct (al_get (w_sobjs w') (it_var it)) as [s|]; [|reflexivity]. destruct (so_rc s <=? 1); reflexivity. }
      rewrite H1. apply IH. }
    rewrite H. exists e. reflexivity.
Qed.

(* whole histories: the return values do not depend on the errno the history starts with *)
Theorem run_blind l : forall w e,
  fst (run strtod fmt16 (set_errno w e) l) = fst (run strtod fmt16 w l) /\
  eqv (snd (run strtod fmt16 (set_errno w e) l)) (snd (run strtod fmt16 w l)).
Proof.
  induction l as [|x r IH]; intros w e; [cbn; split; [reflexivity|apply eqv_set]|].
  cbn [run]. destruct (step_blind x w e) as (H1 & H2 & [e' H3]).
  destruct (step strtod fmt16 (set_errno w e) x) as [[rc1 w1] k1]. destruct (step strtod fmt16 w x) as [[rc2 w2] k2].
  cbn [fst snd] in *. subst. destruct (IH w2 e') as [I1 I2].
  destruct (run strtod fmt16 (set_errno w2 e') r) as [rs1 wf1]. destruct (run strtod fmt16 w2 r) as [rs2 wf2].
  cbn [fst snd] in *. subst. split; [reflexivity|exact I2].
Qed.

(* an errno perturbation anywhere in a history changes nothing but errno *)
Lemma run_app l1 : forall w l2,
  run strtod fmt16 w (l1 ++ l2) =
  (fst (run strtod fmt16 w l1) ++ fst (run strtod fmt16 (snd (run strtod fmt16 w l1)) l2),
   snd (run strtod fmt16 (snd (run strtod fmt16 w l1)) l2)).
Proof.
  induction l1 as [|x r IH]; intros w l2.
  - cbn. destruct (run strtod fmt16 w l2); reflexivity.
  - cbn [app run]. destruct (step strtod fmt16 w x) as [[rc w'] k]. rewrite IH.
    destruct (run strtod fmt16 w' r) as [rs w'']. cbn [fst snd]. reflexivity.
Qed.

Theorem history_errno_independent w l1 e l2 :
  fst (run strtod fmt16 w (l1 ++ OErrno e :: l2)) =
  fst (run strtod fmt16 w l1) ++ 0 :: fst (run strtod fmt16 (snd (run strtod fmt16 w l1)) l2)
  /\ eqv (snd (run strtod fmt16 w (l1 ++ OErrno e :: l2))) (snd (run strtod fmt16 w (l1 ++ l2))).
Proof.
  rewrite !run_app. cbn [fst snd]. set (w1 := snd (run strtod fmt16 w l1)).
  cbn [run step]. destruct (run_blind l2 w1 e) as [H1 H2].
  destruct (run strtod fmt16 (set_errno w1 e) l2) as [rs1 wf1]. destruct (run strtod fmt16 w1 l2) as [rs2 wf2].
  cbn [fst snd] in *. subst. split; [reflexivity|exact H2].
Qed.

(* ---- error returns ---- *)
Lemma parse_loop_unknown w o c r : parse_loop strtod w o (GErr c :: r) = (-1, w, r).
Proof. reflexivity. Qed.

Theorem parse_unknown_option w o c r oe av : fst (fst (parse strtod w o (GErr c :: r) oe av)) = -1.
Proof. reflexivity. Qed.

(* after any prefix of accepted options *)
Lemma parse_loop_app o evs1 : forall w w' evs2,
  parse_loop strtod w o (evs1 ++ [GEnd]) = (0, w', []) ->
  parse_loop strtod w o (evs1 ++ evs2) = parse_loop strtod w' o evs2.
Proof.
  induction evs1 as [|ev r IH]; intros w w' evs2 H.
  - cbn in H. inversion H; subst. reflexivity.
  - cbn [app parse_loop] in *. destruct ev as [|c|c arg|idx arg].
    + destruct r; discriminate H.
    + discriminate H.
    + destruct (find_short (o_items (get_opts w o)) c) as [k|]; [|discriminate H].
      destruct (nth_error (o_items (get_opts w o)) k) as [it|]; [|discriminate H].
      destruct (apply_item strtod w o k it arg) as [rc w1]. destruct (rc =? 0) eqn:E; [apply IH; exact H|].
      inversion H; subst. discriminate E.
    + destruct (nth_error (o_items (get_opts w o)) (Z.to_nat idx)) as [it|]; [|discriminate H].
      destruct (apply_item strtod w o (Z.to_nat idx) it arg) as [rc w1]. destruct (rc =? 0) eqn:E; [apply IH; exact H|].
      inversion H; subst. discriminate E.
Qed.

Theorem parse_unknown_after_prefix w w' o evs1 c r oe av :
  parse_loop strtod w o (evs1 ++ [GEnd]) = (0, w', []) ->
  fst (fst (parse strtod w o (evs1 ++ GErr c :: r) oe av)) = -1 /\
  o_first (get_opts (snd (fst (parse strtod w o (evs1 ++ GErr c :: r) oe av))) o) = -1.
Proof.
  intros H. unfold parse. rewrite (parse_loop_app o evs1 w w' _ H). rewrite parse_loop_unknown.
  cbn [fst snd]. change (-1 <? 0) with true. cbv iota. change ((-1 =? R_CRASH) || (-1 =? R_SHORT)) with false. cbv iota.
  split; [reflexivity|]. unfold get_opts at 1. unfold set_opts. cbn [w_opts al_get al_set]. rewrite Nat.eqb_refl. reflexivity.
Qed.

(* bad boolean, unknown key-value choice: error return, variable untouched *)
Lemma apply_bool_bad w o k it a : it_type it = TBool -> first_in s_yes a = false -> first_in s_no a = false ->
  apply_item strtod w o k it (Some a) = (-1, w).
Proof. intros Ht H1 H2. unfold apply_item. rewrite Ht, H1, H2. reflexivity. Qed.

Lemma apply_bool_good w o k it a : it_type it = TBool ->
  (first_in s_yes a = true -> apply_item strtod w o k it (Some a) = (0, set_store w (st_set (w_store w) (it_var it) (VI 1)))) /\
  (first_in s_yes a = false -> first_in s_no a = true ->
   apply_item strtod w o k it (Some a) = (0, set_store w (st_set (w_store w) (it_var it) (VI 0)))).
Proof. intros Ht. unfold apply_item. rewrite Ht. split; [intros ->; reflexivity|intros -> ->; reflexivity]. Qed.

Lemma apply_keyvalue_unknown w o k it a t : it_type it = TKeyvalue -> al_get (w_kvs w) (it_kv it) = Some t ->
  (kv_find t a = None \/ kv_find t a = Some None) ->
  fst (apply_item strtod w o k it (Some a)) = -1 /\
  st_int (w_store (snd (apply_item strtod w o k it (Some a)))) (it_var it) = st_int (w_store w) (it_var it).
Proof.
  intros Ht Hk Hf. unfold apply_item. rewrite Ht, Hk. unfold kv_get_int_check.
  destruct Hf as [-> | ->]; cbn; unfold st_int, st_set; cbn; rewrite Nat.eqb_refl; split; reflexivity.
Qed.

Lemma apply_keyvalue_known w o k it a t x : it_type it = TKeyvalue -> al_get (w_kvs w) (it_kv it) = Some t ->
  kv_find t a = Some (Some x) ->
  fst (apply_item strtod w o k it (Some a)) = 0 /\
  st_int (w_store (snd (apply_item strtod w o k it (Some a)))) (it_var it) = x.
Proof.
  intros Ht Hk Hf. unfold apply_item. rewrite Ht, Hk. unfold kv_get_int_check. rewrite Hf. cbn.
  unfold st_int, st_set; cbn; rewrite Nat.eqb_refl; split; reflexivity.
Qed.

(* ---- the loader does not reach a NULL dereference, whatever the file ---- *)
Lemma load_items_rc d kvs sobjs : forall its st, fst (fst (load_items strtod d kvs sobjs st its)) = 0 \/ fst (fst (load_items strtod d kvs sobjs st its)) = -1.
Proof.
  induction its as [|it r IH]; intros st; [left; reflexivity|].
  cbn [load_items]. destruct (load_item strtod d kvs sobjs st it) as [[ok st'] it']. destruct ok; [|right; reflexivity].
  specialize (IH st'). destruct (load_items strtod d kvs sobjs st' r) as [[rc st''] r']. exact IH.
Qed.

Theorem load_never_crashes w o f : fst (load_ini strtod w o f) = 0 \/ fst (load_ini strtod w o f) = -1.
Proof.
  unfold load_ini. destruct (fs_get (w_fs w) f) as [bytes|]; [|right; reflexivity].
  destruct (ini_load bytes) as [d|]; [|right; reflexivity].
  pose proof (load_items_rc d (w_kvs w) (w_sobjs w) (o_items (get_opts w o)) (w_store w)) as H.
  destruct (load_items strtod d (w_kvs w) (w_sobjs w) (w_store w) (o_items (get_opts w o))) as [[rc st] its]. exact H.
Qed.

Theorem load_args_never_crashes w o f : fst (load_args w o f) = 0 \/ fst (load_args w o f) = -1.
Proof.
  unfold load_args. destruct (fs_get (w_fs w) f) as [bytes|]; [|right; reflexivity].
  destruct (ini_load bytes) as [d|]; [|right; reflexivity].
  destruct (ini_getstring d (s_Arguments ++ cCOLON :: s_count)) as [[v|]|]; try (right; reflexivity).
  destruct (ini_int v) as [cnt er]. destruct ((cnt <? 0) || er); [right; reflexivity|].
  destruct (load_args_loop d (Z.to_nat cnt) 0) as [l ok]. destruct ok; [left|right]; reflexivity.
Qed.

End History.

(* ---- the loop of iniparser_load ends: more fuel than bytes + 1 changes nothing ---- *)
Lemma take_line_length n : forall l, (length (fst (take_line n l)) + length (snd (take_line n l)) = length l)%nat.
Proof.
  induction n as [|n IH]; intros l; [reflexivity|]. destruct l as [|c r]; [reflexivity|].
  cbn [take_line]. destruct (c =? cNL); [reflexivity|]. specialize (IH r). destruct (take_line n r) as [a b]. cbn [fst snd length] in *. lia.
Qed.

Theorem ini_loop_fuel f1 : forall f2 rest pre sec d errs, (length rest < f1)%nat -> (length rest < f2)%nat ->
  ini_loop f1 rest pre sec d errs = ini_loop f2 rest pre sec d errs.
Proof.
  induction f1 as [|f1 IH]; intros f2 rest pre sec d errs H1 H2; [lia|].
  destruct f2 as [|f2]; [lia|]. cbn [ini_loop].
  pose proof (take_line_length (LINESZ - 1 - length pre) rest) as Hl.
  destruct (take_line (LINESZ - 1 - length pre) rest) as [chunk rest']. cbn [fst snd] in Hl.
  destruct chunk as [|c0 ch]; [reflexivity|]. cbn [length] in Hl.
  assert (Hr1 : (length rest' < f1)%nat) by lia. assert (Hr2 : (length rest' < f2)%nat) by lia.
  destruct (Z.of_nat (length (pre ++ take_while (ne 0) (c0 :: ch))) - 1 <=? 0); [apply IH; assumption|].
  destruct (negb (last (pre ++ take_while (ne 0) (c0 :: ch)) 0 =? cNL)); [reflexivity|].
  destruct (rev (rstrip (pre ++ take_while (ne 0) (c0 :: ch)))) as [|b p]; [apply IH; assumption|].
  destruct (b =? cBSL); [apply IH; assumption|].
  destruct (ini_line (rstrip (pre ++ take_while (ne 0) (c0 :: ch)))) as [| | |o|k v]; try (apply IH; assumption).
  destruct (dict_mem d (match o with Some x => x | None => strlwc (strstrip sec) end)); apply IH; assumption.
Qed.
