(* C17 - concrete histories: the hypotheses of the round-trip theorem are satisfiable (nested prefixes,
   shared variables, every file-typed option kind), and witnesses for what does NOT survive:
   strings outside the ini-safe class (F-C17c), the stale key-value text of a sub-options copy
   (F-C17h), options whose keys differ only in case; and the repaired F-C17k (an entry named like a heading).  strtod / "%.16g" are instantiated with toy
   functions here; the theorems themselves quantify over all of them. *)
From Coq Require Import ZArith List Bool Lia.
From ScV Require Import Base.CInt C17.OptionsModel C17.NumProofs C17.IniProofs C17.SaveProofs C17.LoadProofs C17.OptionsProofs.
Import ListNotations.
Local Open Scope Z_scope.

Definition toy_strtod (s : str) : Z * bool := (strtol s).      (* a stand-in: integers only *)
Definition toy_fmt (b : Z) : str := print_dec b.

Definition t_ab : str := [97; 98].            Definition t_cd : str := [99; 100].
Definition t_kk : str := [107; 107].          Definition t_choice : str := [99; 104; 111; 105; 99; 101].
Definition t_pre : str := [112; 114; 101].    Definition t_in : str := [105; 110].
Definition t_alias : str := [65; 108; 105; 97; 115].          (* "Alias": keys are lowercased *)
Definition t_text : str := [116; 101; 120; 116; 32; 119; 105; 116; 104; 32; 61; 32; 97; 110; 100; 32; 91; 93].  (* "text with = and []" *)
Definition t_prog : str := [112].             Definition t_f : str := [102].
Definition kv0 : kvtab := [(t_ab, Some 5); (t_cd, Some (-7)); ([122; 122], None)].

(* declarations: object 2 (leaf) inside object 1 under "in", object 1 inside object 0 under "pre";
   object 0 also has options without long name, a switch, and an alias sharing a variable *)
Definition decl (base : nat) (vb : nat) : list op :=
  [ ONew (base + 2);
    OAdd (base + 2) TInt 107 (Some t_kk) (vb + 0) 0 0 (IInt 3);
    OAdd (base + 2) TKeyvalue 99 (Some t_choice) (vb + 1) 0 0 (IStr (Some t_ab));
    ONew (base + 1);
    OAdd (base + 1) TString 115 None (vb + 2) 0 0 (IStr None);
    OAdd (base + 1) TDouble 100 (Some [100; 98; 108]) (vb + 7) 0 0 (IDbl 0);
    OSub (base + 1) (base + 2) t_in;
    ONew base;
    OAdd base TInt 105 None (vb + 3) 0 0 (IInt 0);
    OSub base (base + 1) t_pre;
    OAdd base TSwitch 118 None (vb + 4) 0 0 INone;
    OAdd base TInt 0 (Some t_alias) (vb + 3) 0 0 (IInt 0);
    OAdd base TSize 122 (Some [115; 122]) (vb + 5) 0 0 (IInt 0);
    OAdd base TBool 98 (Some [98; 111]) (vb + 6) 0 0 (IInt 0);
    OAdd base TString 116 (Some [117; 110; 115; 101; 116]) (vb + 8) 0 0 (IStr None);
    OAdd base TCallback 67 None (vb + 9) 1 0 INone ].

(* a parse of:  p -i -2147483648 --pre:in:choice=cd --pre:-s "text with = and []" -vvvvvvvvvvvv --sz 9223372036854775807 -b rest1 rest2 *)
Definition the_parse : op :=
  OParse 0
    [ GShort 105 (Some (print_dec INT_MIN)); GLong 4 (Some t_cd); GLong 1 (Some t_text);
      GShort 118 None; GShort 118 None; GShort 118 None; GShort 118 None; GShort 118 None; GShort 118 None;
      GShort 118 None; GShort 118 None; GShort 118 None; GShort 118 None; GShort 118 None; GShort 118 None;
      GLong 7 (Some (print_dec LONG_MAX)); GShort 98 None; GEnd ] 3
    [t_prog; t_f; t_f; [114; 49]; [114; 50]].

Definition history : list op := OKv 0 kv0 :: decl 0 0 ++ decl 4 32 ++ [the_parse].
Definition wx : world := snd (run toy_strtod toy_fmt empty_world history).

(* the hypotheses of the round-trip theorem hold in this state ... *)
Example roundtrip_hypotheses_satisfiable : roundtrip_ok toy_strtod toy_fmt wx (get_opts wx 0).
Proof. apply roundtrip_ok_b_ok. vm_compute. reflexivity. Qed.

Example fresh_copy_identically_declared :
  w_kvs wx = w_kvs wx /\ Forall2 same_decl (map (fun it => it) (o_items (get_opts wx 0))) (o_items (get_opts wx 0)).
Proof.
  split; [reflexivity|]. rewrite map_id. induction (o_items (get_opts wx 0)); constructor; [|assumption].
  unfold same_decl. repeat split; reflexivity.
Qed.

(* ... and the state is not trivial: INT_MIN, a switch count that starts with the digit 1, LONG_MAX,
   a string with blanks, '=' and brackets, a key-value choice set through two prefixes *)
Example state_values :
  st_int (w_store wx) 3 = INT_MIN /\ st_int (w_store wx) 4 = 12 /\ st_int (w_store wx) 5 = LONG_MAX /\
  st_int (w_store wx) 1 = -7 /\ st_str (w_store wx) 2 = Some t_text /\ st_int (w_store wx) 6 = 1.
Proof. vm_compute. repeat split; reflexivity. Qed.

(* the saved text of this state, loaded into the second, identically declared object 4 (variables 32..),
   computed by the model: every file-typed variable and the argument list are reproduced *)
Definition after_roundtrip : world :=
  snd (run toy_strtod toy_fmt wx [OSave 0 t_f; OLoad 4 t_f; OLoadArgs 4 t_f]).

Example roundtrip_computed :
  fst (run toy_strtod toy_fmt wx [OSave 0 t_f; OLoad 4 t_f; OLoadArgs 4 t_f]) = [0; 0; 0] /\
  map (st_get (w_store after_roundtrip)) [32; 33; 34; 35; 36; 37; 38]%nat =
  map (st_get (w_store wx)) [0; 1; 2; 3; 4; 5; 6]%nat /\
  o_args (get_opts after_roundtrip 4) = [Some [114; 49]; Some [114; 50]].
Proof. vm_compute. repeat split; reflexivity. Qed.

(* ---- F-C17c: strings outside the ini-safe class do not come back ---- *)
Definition str_decl : list op :=
  [ ONew 0; OAdd 0 TString 115 (Some [115]) 0 0 0 (IStr None); OAdd 0 TInt 105 (Some [105]) 1 0 0 (IInt 0);
    ONew 4; OAdd 4 TString 115 (Some [115]) 32 0 0 (IStr None); OAdd 4 TInt 105 (Some [105]) 33 0 0 (IInt 0) ].

Definition str_roundtrip (s : str) : list Z * option str :=
  let r := run toy_strtod toy_fmt empty_world
             (str_decl ++ [OParse 0 [GShort 115 (Some s); GEnd] 3 [t_prog; t_f; s]; OSave 0 t_f; OLoad 4 t_f]) in
  (skipn 7 (fst r), st_str (w_store (snd r)) 32).

Definition unsafe_witnesses : list str :=
  [ [97; 59; 98];            (* a;b    -> a          *)
    [97; 35; 98];            (* a#b    -> a          *)
    [32; 120];               (* " x"   -> x          *)
    [120; 32];               (* "x "   -> x          *)
    [34; 113; 34];           (* "q"    -> q          *)
    [39; 113];               (* 'q     -> q          *)
    [101; 92];               (* e\     -> the next line is swallowed *)
    [110; 10; 108];          (* n<newline>l -> n, and the file no longer parses cleanly *)
    [34; 34] ].              (* ""     -> empty      *)

Theorem roundtrip_unsafe_refuted :
  forallb (fun s => negb (ini_safe s) && negb (ostr_eqb (snd (str_roundtrip s)) (Some s))) unsafe_witnesses = true.
Proof. vm_compute. reflexivity. Qed.

(* the same history with strings of the class: they do come back (instances of the theorem) *)
Example roundtrip_safe_examples :
  forallb (fun s => ini_safe s && ostr_eqb (snd (str_roundtrip s)) (Some s))
          [ [97; 61; 98]; [97; 32; 98]; [91; 120; 93]; [97; 34; 98]; [105; 116; 39; 115]; [97; 92; 98]; []; [200; 255] ] = true.
Proof. vm_compute. reflexivity. Qed.

(* ---- F-C17h: the key text of a sub-options copy goes stale ---- *)
Definition kv_history : list op :=
  [ OKv 0 kv0;
    ONew 1; OAdd 1 TKeyvalue 99 (Some t_choice) 0 0 0 (IStr (Some t_ab));
    ONew 0; OSub 0 1 t_pre;
    ONew 5; OAdd 5 TKeyvalue 99 (Some t_choice) 32 0 0 (IStr (Some t_ab));
    ONew 4; OSub 4 5 t_pre;
    OParse 1 [GShort 99 (Some t_cd); GEnd] 3 [t_prog; t_f; t_cd];     (* through the sub-options object: -c cd *)
    OParse 0 [GEnd] 1 [t_prog];
    OSave 0 t_f; OLoad 4 t_f ].

Theorem keyvalue_stale_copy_refuted :
  let r := run toy_strtod toy_fmt empty_world kv_history in
  skipn 9 (fst r) = [3; 1; 0; 0] /\
  st_int (w_store (snd r)) 0 = -7 /\            (* the shared variable holds the value of "cd" *)
  st_int (w_store (snd r)) 32 = 5 /\            (* the fresh copy got the value of "ab" *)
  roundtrip_ok_b toy_strtod toy_fmt (snd (run toy_strtod toy_fmt empty_world (firstn 11 kv_history)))
                 (get_opts (snd (run toy_strtod toy_fmt empty_world (firstn 11 kv_history))) 0) = false.
Proof. vm_compute. repeat split; reflexivity. Qed.

(* ---- keys are case-insensitive: -i and -I are one key ---- *)
Definition case_history : list op :=
  [ ONew 0; OAdd 0 TInt 105 None 0 0 0 (IInt 0); OAdd 0 TInt 73 None 1 0 0 (IInt 0);
    ONew 4; OAdd 4 TInt 105 None 32 0 0 (IInt 0); OAdd 4 TInt 73 None 33 0 0 (IInt 0);
    OParse 0 [GShort 105 (Some [49]); GShort 73 (Some [50]); GEnd] 5 [t_prog; t_f; t_f; t_f; t_f];
    OSave 0 t_f; OLoad 4 t_f ].

Theorem key_case_collision_refuted :
  let r := run toy_strtod toy_fmt empty_world case_history in
  skipn 6 (fst r) = [5; 0; 0] /\
  (st_int (w_store (snd r)) 0, st_int (w_store (snd r)) 1) = (1, 2) /\
  (st_int (w_store (snd r)) 32, st_int (w_store (snd r)) 33) = (2, 2) /\
  roundtrip_ok_b toy_strtod toy_fmt (snd (run toy_strtod toy_fmt empty_world (firstn 7 case_history)))
                 (get_opts (snd (run toy_strtod toy_fmt empty_world (firstn 7 case_history))) 0) = false.
Proof. vm_compute. repeat split; reflexivity. Qed.

(* ---- F-C17k (repaired cfc9e38): an entry and a section heading in one dictionary slot ----
   object 2 {-k/--kk} inside object 1 {-b/--b, a switch} under "B", object 1 inside object 0 under "pre":
   object 0 saves the entry b of [pre] and, after it, the heading [pre:B].  iniparser lower-cases both and
   keeps headings and entries in one dictionary.  Before the repair the heading put NULL into the slot
   "pre:b" and sc_options_load left the switch of the fresh copy alone; now the heading leaves the slot alone. *)
Definition sec_decl (base vb : nat) : list op :=
  [ ONew (base + 2); OAdd (base + 2) TInt 107 (Some t_kk) (vb + 0) 0 0 (IInt 0);
    ONew (base + 1); OAdd (base + 1) TSwitch 98 (Some [98]) (vb + 1) 0 0 INone; OSub (base + 1) (base + 2) [66];
    ONew base; OSub base (base + 1) t_pre ].

Definition sec_history : list op :=
  sec_decl 0 0 ++ sec_decl 4 32 ++
  [ OParse 0 [GLong 0 None; GLong 1 (Some [55]); GEnd] 4 [t_prog; t_f; t_f; [55]];     (* p --pre:b --pre:B:kk 7 *)
    OSave 0 t_f; OLoad 4 t_f ].

(* the state is inside the guard of the round-trip theorem, and the model computes what the theorem promises *)
Theorem key_section_collision_roundtrip :
  let r := run toy_strtod toy_fmt empty_world sec_history in
  skipn 14 (fst r) = [4; 0; 0] /\                                                  (* parse, save, load succeed *)
  (st_int (w_store (snd r)) 1, st_int (w_store (snd r)) 0) = (1, 7) /\            (* saved: switch 1, kk 7 *)
  (st_int (w_store (snd r)) 33, st_int (w_store (snd r)) 32) = (1, 7) /\          (* reloaded: switch 1, kk 7 *)
  roundtrip_ok_b toy_strtod toy_fmt (snd (run toy_strtod toy_fmt empty_world (firstn 15 sec_history)))
                 (get_opts (snd (run toy_strtod toy_fmt empty_world (firstn 15 sec_history))) 0) = true.
Proof. vm_compute. repeat split; reflexivity. Qed.

(* the dictionary after "[pre]", "b = true", "[pre:B]": the value is still there *)
Definition k_pre_b : str := t_pre ++ [58; 98].                      (* "pre:b" *)
Definition k_true : str := [116; 114; 117; 101].
Definition sec_assigns : list (str * option str) := [(t_pre, None); (k_pre_b, Some k_true); (k_pre_b, None)].

Theorem heading_keeps_entry : dict_get (set_all sec_assigns []) k_pre_b = Some (Some k_true).
Proof. reflexivity. Qed.

(* regression guard: the reader as it was before cfc9e38 (every heading stored with dictionary_set (.., NULL)) loses it *)
Definition set_all_old (l : list (str * option str)) (d : dict) : dict :=
  fold_left (fun d kv => dict_set d (fst kv) (snd kv)) l d.

Theorem heading_erases_entry_old_refuted : dict_get (set_all_old sec_assigns []) k_pre_b = Some None.
Proof. reflexivity. Qed.

(* ---- F-C17j (repaired 57534b2): a subnormal double ----
   a libc that reads every text as the largest subnormal 0x000FFFFFFFFFFFFF (2.2250738585072009e-308, what the
   16-digit text of DBL_MIN denotes) and raises ERANGE, as glibc does for subnormal results *)
Definition sub_bits : Z := 2 ^ 52 - 1.
Definition sub_strtod (s : str) : Z * bool := (sub_bits, true).
Definition sub_text : str := [50; 46; 50; 101; 45; 51; 48; 56].                 (* "2.2e-308" *)
Definition sub_fmt (b : Z) : str := sub_text.
Definition dbl_history : list op :=
  [ ONew 0; OAdd 0 TDouble 100 (Some [100; 98; 108]) 0 0 0 (IDbl 0);
    ONew 4; OAdd 4 TDouble 100 (Some [100; 98; 108]) 32 0 0 (IDbl 0);
    OParse 0 [GShort 100 (Some sub_text); GEnd] 3 [t_prog; t_f; sub_text];       (* p -d 2.2e-308 *)
    OSave 0 t_f; OLoad 4 t_f ].

Theorem double_subnormal_roundtrip :
  let r := run sub_strtod sub_fmt empty_world dbl_history in
  skipn 4 (fst r) = [3; 0; 0] /\                                           (* accepted on the command line, saved, loaded *)
  st_dbl (w_store (snd r)) 0 = sub_bits /\ st_dbl (w_store (snd r)) 32 = sub_bits /\
  roundtrip_ok_b sub_strtod sub_fmt (snd (run sub_strtod sub_fmt empty_world (firstn 5 dbl_history)))
                 (get_opts (snd (run sub_strtod sub_fmt empty_world (firstn 5 dbl_history))) 0) = true.
Proof. vm_compute. repeat split; reflexivity. Qed.

(* underflow to zero with ERANGE (1e-400) and overflow (1e400) remain errors: command line -1, variable untouched *)
Definition zero_strtod (s : str) : Z * bool := (0, true).
Definition inf_strtod (s : str) : Z * bool := (DBL_INF, true).
Theorem double_range_error_witness :
  (let r := run zero_strtod sub_fmt empty_world (firstn 5 dbl_history) in skipn 4 (fst r) = [-1] /\ st_dbl (w_store (snd r)) 0 = 0) /\
  (let r := run inf_strtod sub_fmt empty_world (firstn 5 dbl_history) in skipn 4 (fst r) = [-1] /\ st_dbl (w_store (snd r)) 0 = 0).
Proof. vm_compute. repeat split; reflexivity. Qed.


(* ---- F-C17n: a string variable that holds NULL has no representation in the file ---- *)
(* The option is declared with the default "d"; the application sets its variable to NULL (legal: NULL is also a legal default);
   sc_options_save writes nothing for it (5918853), so the fresh identically declared object keeps "d".  The state is INSIDE the
   executable guard: the round-trip theorem speaks about the items that are written (`active`), an unset string is not one. *)
Definition nullstr_history : list op :=
  [ ONew 0; OAdd 0 TString 115 (Some [115]) 0 0 0 (IStr (Some [100])); OAdd 0 TInt 105 (Some [105]) 1 0 0 (IInt 0);
    ONew 4; OAdd 4 TString 115 (Some [115]) 32 0 0 (IStr (Some [100])); OAdd 4 TInt 105 (Some [105]) 33 0 0 (IInt 0);
    OParse 0 [GShort 105 (Some [55]); GEnd] 3 [t_prog; t_f; [55]]; OSetVar 0 (VS None) ].

Theorem null_string_roundtrip_refuted :
  let w := snd (run toy_strtod toy_fmt empty_world nullstr_history) in
  let r := run toy_strtod toy_fmt w [OSave 0 t_f; OLoad 4 t_f] in
  roundtrip_ok_b toy_strtod toy_fmt w (get_opts w 0) = true /\ fst r = [0; 0] /\
  st_str (w_store w) 0 = None /\ st_str (w_store (snd r)) 32 = Some [100] /\ st_int (w_store (snd r)) 33 = 7.
Proof. vm_compute. repeat split; reflexivity. Qed.
