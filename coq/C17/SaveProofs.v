(* C17 - sc_options_save writes a document in the layout of IniProofs.v; the decimal text of numbers
   is in the ini-safe class. *)
From Coq Require Import ZArith List Bool Lia.
From ScV Require Import Base.CInt C17.OptionsModel C17.NumProofs C17.IniProofs.
Import ListNotations.
Local Open Scope Z_scope.

(* ---- decimal digits ---- *)
Definition is_dec (c : Z) : bool := (48 <=? c) && (c <=? 57).

Lemma print_u_dec fuel : forall n, 0 <= n -> forallb is_dec (print_u fuel n) = true.
Proof.
  induction fuel as [|f IH]; intros n Hn; [reflexivity|].
  cbn [print_u]. destruct (n <? 10) eqn:E.
  - cbn [forallb]. unfold is_dec, c0. rewrite andb_true_r. lia.
  - rewrite forallb_app. rewrite IH by (apply Z.div_pos; lia). cbn [forallb]. unfold is_dec, c0.
    pose proof (Z.mod_pos_bound n 10). rewrite andb_true_r. lia.
Qed.

Lemma print_u_nonempty fuel n : print_u (S fuel) n <> [].
Proof. cbn [print_u]. destruct (n <? 10); [discriminate|]. intros H. apply app_eq_nil in H. destruct H as [_ H]. discriminate H. Qed.

Lemma print_udec_dec n : 0 <= n -> forallb is_dec (print_udec n) = true.
Proof. apply print_u_dec. Qed.

Lemma print_udec_nonempty n : print_udec n <> [].
Proof. apply print_u_nonempty. Qed.

(* a nonempty text of digits, possibly behind a minus sign, is a safe value and a safe key *)
Definition num_char (c : Z) : bool := is_dec c || (c =? cMINUS).

Lemma num_char_value c : num_char c = true -> value_char c = true.
Proof. unfold num_char, is_dec, value_char, cMINUS, cNL, cSEMI, cHASH. intros H. lia. Qed.
Lemma num_char_key c : num_char c = true -> key_char c = true.
Proof. unfold num_char, is_dec, key_char, cMINUS, cNL, cEQ. intros H. lia. Qed.
Lemma num_char_edge c : num_char c = true ->
  nonspace c = true /\ c <> cDQ /\ c <> cSQ /\ c <> cBSL /\ c <> cHASH /\ c <> cSEMI /\ c <> cLBR /\ to_lower c = c.
Proof.
  unfold num_char, is_dec, nonspace, is_space, to_lower, cMINUS, cDQ, cSQ, cBSL, cHASH, cSEMI, cLBR. intros H.
  repeat split; try lia.
  destruct ((65 <=? c) && (c <=? 90)) eqn:E; lia.
Qed.

Lemma head_ok_forall (p q : Z -> bool) s : (forall c, p c = true -> q c = true) -> forallb p s = true -> head_ok q s = true.
Proof. intros H Hs. destruct s as [|c r]; [reflexivity|]. cbn in *. apply andb_true_iff in Hs. apply H. tauto. Qed.

Lemma last_ok_forall (p q : Z -> bool) s : (forall c, p c = true -> q c = true) -> forallb p s = true -> last_ok q s = true.
Proof.
  intros H Hs. unfold last_ok. apply head_ok_forall with (p := p); [exact H|].
  apply forallb_forall. intros x Hx. apply in_rev in Hx. rewrite forallb_forall in Hs. apply Hs. exact Hx.
Qed.

Lemma num_safe s : forallb num_char s = true -> ini_safe s = true.
Proof.
  intros H. unfold ini_safe. apply andb_true_iff. split; [apply andb_true_iff; split|].
  - apply forallb_forall. intros x Hx. apply num_char_value. rewrite forallb_forall in H. apply H. exact Hx.
  - apply head_ok_forall with (p := num_char); [|exact H]. intros c Hc. destruct (num_char_edge c Hc) as (H1 & H2 & H3 & _).
    rewrite H1. apply Z.eqb_neq in H2, H3. rewrite H2, H3. reflexivity.
  - apply last_ok_forall with (p := num_char); [|exact H]. intros c Hc. destruct (num_char_edge c Hc) as (H1 & _ & _ & H4 & _).
    rewrite H1. apply Z.eqb_neq in H4. rewrite H4. reflexivity.
Qed.

Lemma num_key s : s <> [] -> forallb num_char s = true -> key_safe s = true.
Proof.
  intros Hne H. unfold key_safe. destruct s as [|c r]; [contradiction|].
  assert (Hc : num_char c = true) by (cbn in H; apply andb_true_iff in H; tauto).
  destruct (num_char_edge c Hc) as (H1 & _ & _ & _ & H5 & H6 & H7 & _).
  apply Z.eqb_neq in H5, H6, H7. rewrite H1, H5, H6, H7. cbn [negb andb]. rewrite !andb_true_r.
  apply andb_true_iff. split.
  - apply forallb_forall. intros x Hx. apply num_char_key. rewrite forallb_forall in H. apply H. exact Hx.
  - apply last_ok_forall with (p := num_char); [|exact H]. intros x Hx. apply (num_char_edge x Hx).
Qed.

Lemma num_lower s : forallb num_char s = true -> lower s = s.
Proof.
  intros H. unfold lower. induction s as [|c r IH]; [reflexivity|]. cbn in *. apply andb_true_iff in H. destruct H as [Hc Hr].
  rewrite IH by exact Hr. f_equal. apply (num_char_edge c Hc).
Qed.

Lemma is_dec_num c : is_dec c = true -> num_char c = true.
Proof. unfold num_char. intros ->. reflexivity. Qed.

Lemma print_udec_num n : 0 <= n -> forallb num_char (print_udec n) = true.
Proof.
  intros H. apply forallb_forall. intros x Hx. apply is_dec_num.
  pose proof (print_udec_dec n H) as Hd. rewrite forallb_forall in Hd. apply Hd. exact Hx.
Qed.

Lemma print_dec_num n : forallb num_char (print_dec n) = true.
Proof.
  unfold print_dec. destruct (n <? 0) eqn:E.
  - cbn [forallb]. rewrite print_udec_num by lia. reflexivity.
  - apply print_udec_num. lia.
Qed.

Lemma print_dec_nonempty n : print_dec n <> [].
Proof. unfold print_dec. destruct (n <? 0); [discriminate|apply print_udec_nonempty]. Qed.

Lemma print_dec_safe n : ini_safe (print_dec n) = true.
Proof. apply num_safe, print_dec_num. Qed.
Lemma print_udec_safe n : 0 <= n -> ini_safe (print_udec n) = true.
Proof. intros H. apply num_safe, print_udec_num. exact H. Qed.
Lemma print_dec_key n : key_safe (print_dec n) = true.
Proof. apply num_key; [apply print_dec_nonempty|apply print_dec_num]. Qed.
Lemma print_dec_lower n : lower (print_dec n) = print_dec n.
Proof. apply num_lower, print_dec_num. Qed.

(* the decimal text determines the number *)
Lemma print_dec_inj a b : 0 <= a -> 0 <= b -> print_dec a = print_dec b -> a = b.
Proof.
  intros Ha Hb H. unfold print_dec in H. replace (a <? 0) with false in H by lia. replace (b <? 0) with false in H by lia.
  destruct (print_udec_spec a Ha) as [H1 _]. destruct (print_udec_spec b Hb) as [H2 _]. rewrite H in H1. lia.
Qed.

(* ---- the document sc_options_save writes ---- *)
Section Save.
Variable strtod : str -> Z * bool.
Variable fmt16 : Z -> str.

Fixpoint save_doc_items (w : world) (its : list item) (last_prefix : option str) : list iline :=
  match its with
  | [] => []
  | it :: r =>
      if item_skipped w it then save_doc_items w r last_prefix else
      let '(p, b) := save_prefix_base it in
      (match last_prefix with
       | Some q => if str_eqb p q then [] else [ILsection p]
       | None => [ILsection p]
       end) ++ ILentry b (save_value fmt16 w it) :: save_doc_items w r (Some p)
  end.

Fixpoint args_doc (i : Z) (args : list (option str)) : list iline :=
  match args with
  | [] => []
  | a :: r => ILentry (print_dec i) (match a with Some s => s | None => s_null end) :: args_doc (i + 1) r
  end.

Definition save_doc (w : world) (ob : opts) : list iline :=
  ILtitle :: save_doc_items w (o_items ob) None
  ++ ILsection s_Arguments
  :: ILentry s_count (print_dec (Z.of_nat (length (o_args ob)) - o_first ob))
  :: args_doc 0 (skipn (Z.to_nat (o_first ob)) (o_args ob)).

Lemma flat_app a b : flat (a ++ b) = flat a ++ flat b.
Proof. unfold flat. rewrite map_app, concat_app. reflexivity. Qed.

Lemma flat_cons l r : flat (l :: r) = l ++ cNL :: flat r.
Proof. unfold flat. cbn [map concat]. rewrite <- app_assoc. reflexivity. Qed.

Lemma save_items_doc w its : forall last_prefix,
  save_items fmt16 w its last_prefix = flat (map render (save_doc_items w its last_prefix)).
Proof.
  induction its as [|it r IH]; intros lp; [reflexivity|].
  cbn [save_items save_doc_items]. destruct (item_skipped w it); [apply IH|].
  destruct (save_prefix_base it) as [p b].
  assert (Hent : forall hd, hd ++ s_indent ++ b ++ s_eq ++ save_value fmt16 w it ++ [cNL] ++ save_items fmt16 w r (Some p)
                 = hd ++ flat (map render (ILentry b (save_value fmt16 w it) :: save_doc_items w r (Some p)))).
  { intros hd. f_equal. cbn [map render]. rewrite flat_cons. unfold entry_line. rewrite IH.
    rewrite <- !app_assoc. reflexivity. }
  assert (Hsec : forall Y, (cLBR :: p ++ [cRBR; cNL]) ++ Y = section_line p ++ cNL :: Y).
  { intros Y. unfold section_line. cbn [app]. f_equal. rewrite <- !app_assoc. reflexivity. }
  assert (Hflat : forall D, flat (map render (ILsection p :: D)) = section_line p ++ cNL :: flat (map render D)).
  { intros D. cbn [map render]. apply flat_cons. }
  destruct lp as [q|].
  - destruct (str_eqb p q).
    + apply (Hent []).
    + rewrite Hent, Hsec. exact (eq_sym (Hflat _)).
  - rewrite Hent, Hsec. exact (eq_sym (Hflat _)).
Qed.

Lemma save_args_doc args : forall i, save_args i args = flat (map render (args_doc i args)).
Proof.
  induction args as [|a r IH]; intros i; [reflexivity|].
  cbn [save_args args_doc map render]. rewrite flat_cons. unfold entry_line. rewrite IH. rewrite <- !app_assoc. reflexivity.
Qed.

Theorem save_text_doc w ob : save_text fmt16 w ob = flat (map render (save_doc w ob)).
Proof.
  unfold save_text, save_doc. cbn [map render]. rewrite flat_cons. f_equal. cbn [app]. f_equal.
  rewrite map_app, flat_app. rewrite save_items_doc. f_equal.
  cbn [map render]. rewrite !flat_cons. unfold section_line, entry_line. rewrite save_args_doc.
  rewrite <- !app_assoc. reflexivity.
Qed.

End Save.
