(* C17 - tie T1: the hand-written model of sc_options (OptionsModel.v) computes exactly what the definitions GENERATED from
   /repo/src/sc_options.c (Gen/OptionsC17.v, regenerated on every run) compute: the range rules of the int / size_t / double
   conversions in the .ini reader and on the command line (incl. the repaired double rule), the boolean spellings, the switch
   increment, the getopt reset constants, the "name carries its own section" test of the loader, the section-heading
   decision and the prefix / base-name split of sc_options_save.
   An edit of those rules in sc_options.c changes a generated definition and one of these lemmas stops checking. *)
From Coq Require Import ZArith Lia List Bool.
From ScV Require Import Base.CInt Gen.OptionsC17 C17.OptionsModel C17.GetoptModel.
Import ListNotations.
Local Open Scope Z_scope.

Lemma int_min_gen : s32 (-2147483647 - 1) = INT_MIN.
Proof. reflexivity. Qed.

(* ---------- sc_iniparser_getint ------------------------------------------------------------------------------------------------ *)
(* for EVERY value string: with l, e = what strtol returns and leaves in errno (started from errno = 0), the generated code
   returns the model's clamped value and stores the model's error flag through a non-NULL iserror; a NULL iserror is untouched *)
Lemma gen_ini_getint v p old s : p <> 0 ->
  let '(l, e) := c_strtol 0 v in
  ini_getint p l e old s = (fst (ini_int v), b2z (snd (ini_int v))) /\ fst (ini_getint 0 l e old s) = fst (ini_int v) /\ snd (ini_getint 0 l e old s) = old.
Proof.
  intros Hp. unfold ini_int. destruct (c_strtol 0 v) as [l e]. unfold ini_getint. cbv zeta.
  rewrite int_min_gen. destruct (Z.eqb_spec p 0) as [|_]; [contradiction|]. change (0 =? 0) with true. cbn [negb].
  change 34 with ERANGE. change 2147483647 with INT_MAX. rewrite Z.gtb_ltb.
  destruct (l <? INT_MIN) eqn:E1; [repeat split; reflexivity|].
  destruct (INT_MAX <? l) eqn:E2; [repeat split; reflexivity|].
  apply Z.ltb_ge in E1. apply Z.ltb_ge in E2.
  rewrite s32_id by (unfold in_s32, M32, INT_MIN, INT_MAX in *; lia). repeat split; reflexivity.
Qed.

(* ---------- sc_iniparser_getsizet ---------------------------------------------------------------------------------------------- *)
Lemma gen_ini_getsizet v p old s : p <> 0 ->
  let '(l, e) := c_strtol 0 v in l <= LONG_MAX ->
  ini_getsizet p l e old s = (fst (ini_sizet v), b2z (snd (ini_sizet v))) /\ fst (ini_getsizet 0 l e old s) = fst (ini_sizet v) /\ snd (ini_getsizet 0 l e old s) = old.
Proof.
  intros Hp. unfold ini_sizet. destruct (c_strtol 0 v) as [l e]. intros Hl. unfold ini_getsizet. cbv zeta.
  destruct (Z.eqb_spec p 0) as [|_]; [contradiction|]. change (0 =? 0) with true. cbn [negb]. change 34 with ERANGE.
  destruct (l <? 0) eqn:E1; [repeat split; reflexivity|]. apply Z.ltb_ge in E1.
  rewrite u64_id by (unfold M64, LONG_MAX in *; lia). repeat split; reflexivity.
Qed.

(* ---------- the double rule ------------------------------------------------------------------------------------------------------- *)
(* The generated rule is over exact numbers: dv = the value strtod returns, H = HUGE_VAL.  The model works on the bit pattern x.
   Whenever the two readings agree on "is zero" and "is plus or minus HUGE_VAL", the generated rule (57534b2:
   errno == ERANGE && (dbl == 0. || dbl == HUGE_VAL || dbl == -HUGE_VAL)) is the model's dbl_error. *)
Lemma gen_double_rule x (e : bool) dv H :
  (dv =? 0) = dbl_is_zero x -> ((dv =? H) || (dv =? - H)) = dbl_is_inf x ->
  parse_double_error dv (if e then ERANGE else 0) H = dbl_error x e.
Proof.
  intros Hz Hi. unfold parse_double_error, dbl_error. rewrite <- orb_assoc, Hi, Hz.
  destruct e; reflexivity.
Qed.

Lemma gen_ini_getdouble x (e : bool) dv H p old s : p <> 0 ->
  (dv =? 0) = dbl_is_zero x -> ((dv =? H) || (dv =? - H)) = dbl_is_inf x ->
  ini_getdouble p dv (if e then ERANGE else 0) H old s = (dv, b2z (dbl_error x e)) /\ ini_getdouble 0 dv (if e then ERANGE else 0) H old s = (dv, old).
Proof.
  intros Hp Hz Hi. unfold ini_getdouble. cbv zeta.
  destruct (Z.eqb_spec p 0) as [|_]; [contradiction|]. change (0 =? 0) with true. cbn [negb].
  pose proof (gen_double_rule x e dv H Hz Hi) as R. unfold parse_double_error in R. rewrite R. split; reflexivity.
Qed.

(* ---------- sc_options_parse -------------------------------------------------------------------------------------------------------- *)
(* the tests of apply_item, literally *)
Lemma gen_parse_int l e : parse_int_error l e = ((l <? INT_MIN) || (l >? INT_MAX) || (e =? ERANGE)) /\
  (INT_MIN <= l <= INT_MAX -> parse_int_value l = l).
Proof.
  unfold parse_int_error, parse_int_value. rewrite int_min_gen, Z.gtb_ltb. split; [reflexivity|].
  intros H. cbv zeta. apply s32_id. unfold in_s32, M32, INT_MIN, INT_MAX in *. lia.
Qed.

Lemma gen_parse_sizet l e : parse_sizet_error l e = ((l <? 0) || (e =? ERANGE)) /\ (0 <= l <= LONG_MAX -> parse_sizet_value l = l).
Proof.
  unfold parse_sizet_error, parse_sizet_value. split; [reflexivity|]. intros H. cbv zeta. apply u64_id. unfold M64, LONG_MAX in *. lia.
Qed.

Lemma gen_parse_switch x : INT_MIN <= x < INT_MAX -> parse_switch x = x + 1.
Proof. intros H. unfold parse_switch. cbv zeta. apply s32_id. unfold in_s32, M32, INT_MIN, INT_MAX in *. lia. Qed.

(* the boolean spellings: the two character sets are the model's, and with n1 / n2 = strspn (optarg, set1 / set2) - positive
   exactly when the first character is in the set - the chain stores what the model stores, or ends the processing *)
Lemma gen_bool_sets : parse_bool_set1 = s_yes /\ parse_bool_set2 = s_no.
Proof. split; reflexivity. Qed.

Lemma gen_parse_bool a p n1 n2 old rv : p <> 0 -> (0 <? n1) = first_in s_yes a -> (0 <? n2) = first_in s_no a ->
  parse_bool p n1 n2 old rv = (if ini_boolean a =? -1 then (old, -1) else (ini_boolean a, rv)) /\
  parse_bool 0 n1 n2 old rv = (1, rv).
Proof.
  intros Hp H1 H2. unfold parse_bool, ini_boolean. destruct (Z.eqb_spec p 0) as [|_]; [contradiction|].
  change (0 =? 0) with true. cbv iota. rewrite H1, H2.
  destruct (first_in s_yes a); [split; reflexivity|]. destruct (first_in s_no a); split; reflexivity.
Qed.

(* `optind = 0` is the model's g_reset; `optstring[0] = '\0'`: the option string starts empty *)
Lemma gen_getopt_reset g : g_optind (g_reset g) = parse_optind_reset /\ parse_optstring_init = 0.
Proof. split; reflexivity. Qed.

(* ---------- sc_options_load_ini ------------------------------------------------------------------------------------------------------ *)
(* p = strchr (opt_name, ':'): not NULL exactly when the name contains a colon; then the name is the key as it is *)
Lemma gen_load_has_colon n p : (p =? 0) = negb (has_colon n) ->
  load_has_colon p = has_colon n /\ long_key n = (if load_has_colon p then n else s_Options ++ cCOLON :: n).
Proof. intros H. unfold load_has_colon, long_key. rewrite H, negb_involutive. split; reflexivity. Qed.

(* ---------- sc_options_save ------------------------------------------------------------------------------------------------------------- *)
(* the heading decision over the symbolic strncmp result: tp / lp = this_prefix / last_prefix as pointers, n1 / n2 the two prefix
   lengths; "same length and strncmp = 0" is what str_eqb p q means for the prefixes p and q *)
Lemma gen_save_heading p (last : option str) tp lp n1 n2 cmp : tp <> 0 ->
  (lp =? 0) = (match last with None => true | Some _ => false end) ->
  (forall q, last = Some q -> ((n1 =? n2) && (cmp =? 0)) = str_eqb p q) ->
  save_heading tp lp n1 n2 cmp = match last with Some q => negb (str_eqb p q) | None => true end /\
  save_heading_keep tp n1 = (tp, n1).
Proof.
  intros Ht Hl Hq. unfold save_heading, save_heading_keep. destruct (Z.eqb_spec tp 0) as [|_]; [contradiction|]. cbn [negb andb].
  split; [|reflexivity]. rewrite Hl. destruct last as [q|]; [|reflexivity].
  rewrite <- (Hq q eq_refl). cbn [orb]. destruct (n1 =? n2); destruct (cmp =? 0); reflexivity.
Qed.

(* base name, section prefix and prefix length: no long name -> the default section; no colon in the name -> the default section
   and the whole name; otherwise the part behind the LAST colon and the part in front of it (model: rsplit_colon) *)
Lemma gen_save_prefix_base name dflt sl colon tp tn sl2 : 0 <= colon - name < 2 ^ 62 ->
  OptionsC17.save_prefix_base name dflt sl colon tp tn sl2 =
  if name =? 0 then (0, dflt, sl2) else if colon =? 0 then (name, dflt, sl) else (colon + 1, name, colon - name).
Proof.
  intros H. unfold OptionsC17.save_prefix_base. cbv zeta. destruct (name =? 0); [reflexivity|]. cbn [negb].
  destruct (colon =? 0); [reflexivity|].
  rewrite s64_id by (unfold in_s64, M64; change (2 ^ 62) with 4611686018427387904 in H; lia).
  rewrite u64_id by (unfold M64; change (2 ^ 62) with 4611686018427387904 in H; lia). reflexivity.
Qed.

Lemma gen_save_switch b : save_switch_boolean b = (b <=? 1).
Proof. reflexivity. Qed.

(* ---------- the string holder (sc_option_string_t) ---------------------------------------------------------------------------- *)
(* sc_options_string_set - the one place where sc_options_parse, sc_options_load_ini and sc_options_load_json store a string
   option: the old copy is freed, the new text duplicated, and the duplicate is stored in s->string_value AND in the user's
   variable - unconditionally: nothing is compared with what the library remembers.  This is the model's string_set, which
   writes the variable whatever it holds (the model keeps no copy at all). *)
Lemma gen_holder_set old newv dup : holder_set old newv dup = (dup, dup, old, newv).
Proof. reflexivity. Qed.

Lemma model_string_set_stores sobjs st id v :
  st_get (string_set sobjs st id v) (match al_get sobjs id with Some s => so_var s | None => O end) = VS v.
Proof. unfold string_set, st_set. cbn [st_get]. rewrite Nat.eqb_refl. reflexivity. Qed.

(* sc_options_string_get (what save and print_summary read): the variable is compared with the stored copy - both NULL, or both
   set and strcmp = 0 - and when they differ the copy is replaced by a duplicate of the VARIABLE; the copy is returned.  With an
   interpretation txt of addresses as texts (NULL = no text; strcmp = 0 iff the texts are equal; the duplicate holds the text of
   its argument) the returned text is the text of the variable: the model's string_get, which reads the variable. *)
Lemma gen_holder_get var val cmp dup :
  holder_get var val cmp dup =
  if (negb (Bool.eqb (var =? 0) (val =? 0))) || (negb (var =? 0) && negb (val =? 0) && negb (cmp =? 0))
  then (dup, dup, val, var) else (val, val, 0, 0).
Proof.
  unfold holder_get, z2b, b2z. destruct (var =? 0), (val =? 0), (cmp =? 0); reflexivity.
Qed.

Lemma gen_holder_get_text (txt : Z -> option str) var val cmp dup :
  (forall p, txt p = None <-> p = 0) -> (var <> 0 -> val <> 0 -> (cmp = 0 <-> txt var = txt val)) -> txt dup = txt var ->
  txt (fst (fst (fst (holder_get var val cmp dup)))) = txt var.
Proof.
  intros Hnull Hcmp Hdup. rewrite gen_holder_get.
  destruct (Z.eqb_spec var 0) as [Ev|Ev], (Z.eqb_spec val 0) as [El|El]; cbn [Bool.eqb negb orb andb fst].
  - subst. reflexivity.
  - exact Hdup.
  - exact Hdup.
  - destruct (Z.eqb_spec cmp 0) as [Ec|Ec]; cbn [negb fst]; [|exact Hdup]. symmetry. apply (Hcmp Ev El). exact Ec.
Qed.

Lemma gen_string_holder old newv dup var val cmp :
  holder_set old newv dup = (dup, dup, old, newv) /\
  holder_get var val cmp dup =
    (if (negb (Bool.eqb (var =? 0) (val =? 0))) || (negb (var =? 0) && negb (val =? 0) && negb (cmp =? 0))
     then (dup, dup, val, var) else (val, val, 0, 0)) /\
  (forall txt : Z -> option str, (forall p, txt p = None <-> p = 0) -> (var <> 0 -> val <> 0 -> (cmp = 0 <-> txt var = txt val)) ->
     txt dup = txt var -> txt (fst (fst (fst (holder_get var val cmp dup)))) = txt var) /\
  (forall sobjs st id v, st_get (string_set sobjs st id v) (match al_get sobjs id with Some s => so_var s | None => O end) = VS v).
Proof.
  split; [apply gen_holder_set|]. split; [apply gen_holder_get|]. split; [intros txt; apply gen_holder_get_text|apply model_string_set_stores].
Qed.
