(* Histories on ONE libb64 encoder state: any number of base64_encode_block calls with chunks of any length (empty chunks,
   one-byte chunks, chunks that end inside a 3-byte group) followed by base64_encode_blockend write RFC 4648 of the concatenation.
   The carry (step and 6-bit `result`) across the calls is the point: seeded change C06c reset it when a call's input ended while a
   group left open by an earlier call was being completed. *)
From Coq Require Import ZArith List Bool Lia.
From ScV Require Import Base.CInt Gen.Codec C06.Res C06.ResProofs C06.B64Model C06.B64Spec C06.B64Proofs C06.ArmorModel C06.ArmorProofs.
Import ListNotations.
Local Open Scope Z_scope.

Lemma bytes_concat chunks : Forall bytes chunks -> bytes (concat chunks).
Proof. induction 1 as [|c cs Hc _ IH]; [apply bytes_nil|]. cbn [concat]. apply bytes_app; auto. Qed.

(* every chunking: the characters of all calls, then blockend *)
Theorem b64_any_chunking : forall chunks, Forall bytes chunks ->
  (let '(st, o) := enc_blocks e_init chunks in o ++ enc_end st) = rfc4648 (concat chunks).
Proof.
  intros chunks H. rewrite enc_blocks_concat. rewrite <- (b64_is_rfc4648 _ (bytes_concat _ H)). reflexivity.
Qed.

(* every partition of the same input gives the same text *)
Theorem b64_partition_independent : forall l chunks, bytes l -> concat chunks = l ->
  (let '(st, o) := enc_blocks e_init chunks in o ++ enc_end st) = rfc4648 l /\
  enc_blocks e_init chunks = enc_block e_init l.
Proof.
  intros l chunks Hl Hc. subst l. split; [|apply enc_blocks_concat].
  rewrite enc_blocks_concat. rewrite <- (b64_is_rfc4648 _ Hl). reflexivity.
Qed.

(* the state between the calls: the step is the number of bytes so far modulo 3, and what blockend would write now completes
   the RFC 4648 text of the bytes so far - after EVERY prefix of the history (so a later call finds the open group intact) *)
Theorem b64_history_state : forall chunks, Forall bytes chunks ->
  let '(st, o) := enc_blocks e_init chunks in
  e_step st = match len (concat chunks) mod 3 with 0 => StepA | 1 => StepB | _ => StepC end /\
  o ++ enc_end st = rfc4648 (concat chunks) /\ 0 <= e_result st.
Proof.
  intros chunks H. pose proof (b64_any_chunking chunks H) as Ha. rewrite enc_blocks_concat in *.
  pose proof (enc_block_step 0 (concat chunks) (bytes_concat _ H)) as Hs. fold e_init in Hs.
  destruct (enc_block e_init (concat chunks)) as [st o] eqn:E. cbn [fst] in Hs. split; [exact Hs|]. split; [exact Ha|].
  clear Ha Hs. revert st o E. generalize (bytes_concat _ H). generalize (concat chunks). clear.
  intros l Hl. assert (G : forall st0, 0 <= e_result st0 -> forall st o, enc_block st0 l = (st, o) -> 0 <= e_result st).
  { induction l as [|x l IH]; intros st0 H0 st o E.
    - cbn in E. inversion E; subst; exact H0.
    - apply bytes_cons in Hl. destruct Hl as [Hx Hl]. cbn [enc_block] in E. destruct (enc_byte st0 x) as [s1 o1] eqn:E1.
      destruct (enc_block s1 l) as [s2 o2] eqn:E2. inversion E; subst. apply (IH Hl s1) with (o := o2); [|exact E2].
      unfold enc_byte in E1. unfold byte in Hx.
      assert (Hn : forall m k, 0 <= Z.land x m * 2 ^ k) by (intros; apply Z.mul_nonneg_nonneg; [apply Z.land_nonneg; lia|apply Z.pow_nonneg; lia]).
      destruct (e_step st0); inversion E1; subst; cbn [e_result]; unfold shl, shr; try apply Hn.
      apply Z.div_pos; [apply Z.land_nonneg; lia|reflexivity]. }
  intros st o E. exact (G e_init (Z.le_refl 0) st o E).
Qed.

(* an empty chunk anywhere in the history changes nothing *)
Theorem b64_empty_chunk : forall st a b, enc_blocks st (a ++ [] :: b) = enc_blocks st (a ++ b).
Proof. intros. rewrite !enc_blocks_concat, !concat_app. reflexivity. Qed.

(* the case of the seeded change: the state is in step B (a group is open), a call with exactly one byte, then blockend *)
Theorem b64_one_byte_in_step_B : forall a b, byte a -> byte b ->
  (let '(st, o) := enc_blocks e_init [[a]; [b]] in o ++ enc_end st) = rfc4648 [a; b] /\
  e_step (fst (enc_blocks e_init [[a]; [b]])) = StepC.
Proof.
  intros a b Ha Hb. split.
  - apply (b64_any_chunking [[a]; [b]]). constructor; [apply bytes_cons; split; [assumption|apply bytes_nil]|]. constructor; [apply bytes_cons; split; [assumption|apply bytes_nil]|constructor].
  - reflexivity.
Qed.

(* sc_vtk_write_binary's history (4-byte length word, then chunks of 32768) is an instance: for EVERY data length *)
Theorem vtk_binary_history : forall d, bytes d -> len d < M32 ->
  vtk_write_binary d = rfc4648 (le4 (len d) ++ d).
Proof. exact vtk_write_binary_spec. Qed.
