(* sc_puff against RFC 1951, stage (e): dynamic() - the header of a block with dynamic Huffman codes (HLIT, HDIST,
   HCLEN, the code length code in the order 16,17,18,0,8,..., the run-length coded code lengths with 16/17/18), the
   construction of the two codes with sc_puff's checks, and the symbols - against bk_dynamic of DeflateSpec.v. *)
From Coq Require Import ZArith List Bool Lia.
From ScV Require Import Base.CInt C06.Res C06.ResProofs C07.PuffModel C07.PuffSafe C07.PuffHuffman
                        C06.DeflateSpec C06.DeflateCanon C06.DeflateBits C06.DeflateDecode C06.DeflateConstruct
                        C06.DeflateCodes.
Import ListNotations.
Local Open Scope Z_scope.

(* ---- list updates ------------------------------------------------------------------------------------------- *)
Definition updf (acc : list Z) (ov : Z * Z) : list Z := upd acc (fst ov) (snd ov).

Lemma cl_of_fold vs : cl_of vs = fold_left updf (combine cl_order vs) (repeat 0 19).
Proof. reflexivity. Qed.

Lemma upd_app_l a b i v : 0 <= i < len a -> upd (a ++ b) i v = upd a i v ++ b.
Proof.
  intros H. unfold upd, len in *. rewrite firstn_app, skipn_app.
  replace (Z.to_nat i - length a)%nat with 0%nat by lia. replace (S (Z.to_nat i) - length a)%nat with 0%nat by lia.
  cbn [firstn skipn]. rewrite app_nil_r, <- app_assoc. reflexivity.
Qed.

Lemma upd_same l i : 0 <= i < len l -> upd l i (nth (Z.to_nat i) l 0) = l.
Proof. intros H. unfold upd. symmetry. apply nth_split_Z. exact H. Qed.

Lemma firstn_upd_snoc l i v : 0 <= i < len l -> firstn (Z.to_nat (i + 1)) (upd l i v) = firstn (Z.to_nat i) l ++ [v].
Proof.
  intros H. unfold upd, len in *. rewrite firstn_app, firstn_length.
  replace (Nat.min (Z.to_nat i) (length l)) with (Z.to_nat i) by lia.
  replace (Z.to_nat (i + 1) - Z.to_nat i)%nat with 1%nat by lia.
  rewrite firstn_firstn. replace (Nat.min (Z.to_nat (i + 1)) (Z.to_nat i)) with (Z.to_nat i) by lia. reflexivity.
Qed.

Lemma fold_updf_len ovs : forall l, (forall ov, In ov ovs -> 0 <= fst ov < len l) -> len (fold_left updf ovs l) = len l.
Proof.
  induction ovs as [|ov ovs IH]; intros l H; [reflexivity|]. cbn [fold_left].
  assert (Hl : len (updf l ov) = len l) by (unfold updf; apply len_upd; apply H; now left).
  rewrite IH; [exact Hl|]. intros ov' Hin. rewrite Hl. apply H. now right.
Qed.

Lemma fold_updf_app ovs : forall a b, (forall ov, In ov ovs -> 0 <= fst ov < len a) ->
  fold_left updf ovs (a ++ b) = fold_left updf ovs a ++ b.
Proof.
  induction ovs as [|ov ovs IH]; intros a b H; [reflexivity|]. cbn [fold_left].
  unfold updf at 2. rewrite upd_app_l by (apply H; now left). fold (updf a ov). apply IH.
  intros ov' Hin. unfold updf. rewrite len_upd by (apply H; now left). apply H. now right.
Qed.

Lemma fold_updf_Forall (P : Z -> Prop) ovs : forall l, Forall P l -> (forall ov, In ov ovs -> P (snd ov)) ->
  Forall P (fold_left updf ovs l).
Proof.
  induction ovs as [|ov ovs IH]; intros l Hl H; [exact Hl|]. cbn [fold_left]. apply IH.
  - unfold updf. apply Forall_upd; [exact Hl|apply H; now left].
  - intros ov' Hin. apply H. now right.
Qed.

Lemma fold_updf_nth_other ovs j : 0 <= j -> forall l, (forall ov, In ov ovs -> 0 <= fst ov < len l /\ fst ov <> j) ->
  nth (Z.to_nat j) (fold_left updf ovs l) 0 = nth (Z.to_nat j) l 0.
Proof.
  intros Hj. induction ovs as [|ov ovs IH]; intros l H; [reflexivity|]. cbn [fold_left].
  destruct (H ov ltac:(now left)) as [H1 H2].
  rewrite IH.
  - unfold updf. apply nth_upd_other; auto.
  - intros ov' Hin. unfold updf. rewrite len_upd by exact H1. apply H. now right.
Qed.

Lemma in_combine_nth {A B} (l : list A) : forall (vs : list B) o v d, In (o, v) (combine l vs) ->
  exists k, (k < length vs)%nat /\ (k < length l)%nat /\ nth k l d = o.
Proof.
  induction l as [|x l IH]; intros [|w vs] o v d H; cbn [combine In] in H; try contradiction.
  destruct H as [H|H].
  - inversion H; subst. exists 0%nat. cbn [length nth]. repeat split; lia.
  - destruct (IH vs o v d H) as (k & K1 & K2 & K3). exists (S k). cbn [length nth]. repeat split; auto; lia.
Qed.

Lemma skipn_nth_cons (l : list Z) i : (i < length l)%nat -> skipn i l = nth i l 0 :: skipn (S i) l.
Proof.
  revert i; induction l as [|x l IH]; intros [|i] H; cbn [length] in H; try lia; [reflexivity|].
  cbn [skipn nth]. apply IH. lia.
Qed.

(* ---- the order of the code length code lengths ------------------------------------------------------------------ *)
Lemma order_is_rfc : order = cl_order.  Proof. reflexivity. Qed.

Lemma order_nodup : NoDup order.
Proof. unfold order. repeat (constructor; [cbn [In]; intuition discriminate|]). constructor. Qed.

Lemma order_len : length order = 19%nat.  Proof. reflexivity. Qed.

Lemma order_val k : (k < 19)%nat -> 0 <= nth k order 0 < 19.
Proof.
  intros H. pose proof (order_range (Z.of_nat k) ltac:(lia)) as R. rewrite Nat2Z.id in R. lia.
Qed.

Lemma combine_order_valid (vs : list Z) (ov : Z * Z) : In ov (combine order vs) -> 0 <= fst ov < 19.
Proof.
  destruct ov as [o v]. intros H. destruct (in_combine_nth order vs o v 0 H) as (k & _ & K2 & <-).
  cbn [fst]. apply order_val. rewrite order_len in K2. exact K2.
Qed.

Lemma cl_of_len vs : len (cl_of vs) = 19.
Proof.
  rewrite cl_of_fold, <- order_is_rfc. rewrite fold_updf_len; [reflexivity|].
  intros ov H. rewrite len_repeat. apply (combine_order_valid vs ov H).
Qed.

Lemma cl_of_range vs : Forall (fun v => 0 <= v < 8) vs -> Forall (fun v => 0 <= v <= 15) (cl_of vs).
Proof.
  intros Hv. rewrite cl_of_fold. apply fold_updf_Forall.
  - apply Forall_repeat. lia.
  - intros [o v] H. apply in_combine_r in H. rewrite Forall_forall in Hv. specialize (Hv v H). cbn [snd]. lia.
Qed.

(* symbols of the code length alphabet whose length is not transmitted have length 0 *)
Lemma cl_of_untouched vs i : (length vs <= i < 19)%nat -> nth (Z.to_nat (nth i order 0)) (cl_of vs) 0 = 0.
Proof.
  intros Hi. pose proof (order_val i ltac:(lia)) as Ho.
  rewrite cl_of_fold, <- order_is_rfc. rewrite fold_updf_nth_other; [|lia|].
  - apply nth_repeat.
  - intros [o v] H. rewrite len_repeat. split; [apply (combine_order_valid vs (o, v) H)|].
    destruct (in_combine_nth order vs o v 0 H) as (k & K1 & K2 & K3). cbn [fst]. intros E. subst o.
    assert (k = i); [|lia].
    apply (proj1 (NoDup_nth order 0) order_nodup); [exact K2|rewrite order_len; lia|exact E].
Qed.

(* ---- reading the code length code lengths -------------------------------------------------------------------- *)
Lemma read_cl_spec c tail : forall vs index s lengths rest,
  0 <= index -> index + len vs <= 19 -> Forall (fun v => 0 <= v < 8) vs -> 19 <= len lengths ->
  inrep c s (flat_map (bitsZ 3) vs ++ rest) tail ->
  exists s', read_cl (length vs) index c s lengths =
               Ok (s', fold_left updf (combine (skipn (Z.to_nat index) order) vs) lengths) /\
             inrep c s' rest tail /\ sameout s s'.
Proof.
  induction vs as [|v vs IH]; intros index s lengths rest Hi Hlen Hv Hl Hin.
  - exists s. cbn [length read_cl]. rewrite combine_nil. cbn [fold_left flat_map app] in *. split; [reflexivity|]. split; [exact Hin|apply sameout_refl].
  - rewrite len_cons in Hlen. pose proof (len_nonneg vs) as Hn. inversion Hv as [|v' vs' Hv0 Hvs]; subst.
    cbn [length read_cl]. cbn [flat_map] in Hin. rewrite <- app_assoc in Hin.
    destruct (bits_spec c s 3 v _ tail Hin ltac:(lia) ltac:(change (2 ^ 3) with 8; lia)) as (s1 & E1 & R1 & O1).
    rewrite E1. cbn [bind].
    pose proof (order_val (Z.to_nat index) ltac:(lia)) as Ho.
    rewrite rd_ok by (unfold len; rewrite order_len; lia). cbn [bind].
    rewrite wr_ok by lia. cbn [bind].
    destruct (IH (index + 1) s1 (upd lengths (nth (Z.to_nat index) order 0) v) rest) as (s2 & E2 & R2 & O2); auto; try lia.
    { rewrite len_upd by lia. exact Hl. }
    rewrite E2. exists s2. split; [|split; [exact R2|eapply sameout_trans; eauto]].
    rewrite (skipn_nth_cons order (Z.to_nat index)) by (rewrite order_len; lia).
    cbn [combine fold_left]. replace (Z.to_nat (index + 1)) with (S (Z.to_nat index)) by lia. reflexivity.
Qed.

Lemma zero_cl_id : forall k index lengths, 0 <= index -> index + Z.of_nat k <= 19 -> 19 <= len lengths ->
  (forall i, (Z.to_nat index <= i < Z.to_nat index + k)%nat -> nth (Z.to_nat (nth i order 0)) lengths 0 = 0) ->
  zero_cl k index lengths = Ok lengths.
Proof.
  induction k as [|k IH]; intros index lengths Hi Hk Hl Hz; [reflexivity|].
  cbn [zero_cl]. pose proof (order_val (Z.to_nat index) ltac:(lia)) as Ho.
  rewrite rd_ok by (unfold len; rewrite order_len; lia). cbn [bind].
  rewrite wr_ok by lia. cbn [bind].
  pose proof (upd_same lengths (nth (Z.to_nat index) order 0) ltac:(lia)) as Hu.
  rewrite (Hz (Z.to_nat index)) in Hu by lia. rewrite Hu.
  apply IH; auto; try lia. intros i Hi'. apply Hz. lia.
Qed.

(* ---- the run-length coded code lengths --------------------------------------------------------------------------- *)
Lemma repeat_len_spec v : forall k index lengths, 0 <= index -> index + Z.of_nat k <= len lengths ->
  exists l', repeat_len k index v lengths = Ok l' /\ len l' = len lengths /\
             firstn (Z.to_nat (index + Z.of_nat k)) l' = firstn (Z.to_nat index) lengths ++ repeat v k.
Proof.
  induction k as [|k IH]; intros index lengths Hi Hk.
  - exists lengths. cbn [repeat_len repeat]. rewrite Z.add_0_r, app_nil_r. auto.
  - cbn [repeat_len]. rewrite wr_ok by lia. cbn [bind].
    destruct (IH (index + 1) (upd lengths index v)) as (l' & E & L & F); try lia.
    { rewrite len_upd by lia. lia. }
    exists l'. rewrite len_upd in L by lia. split; [exact E|]. split; [exact L|].
    replace (index + Z.of_nat (S k)) with (index + 1 + Z.of_nat k) by lia. rewrite F.
    rewrite firstn_upd_snoc by lia. rewrite <- app_assoc. reflexivity.
Qed.

Lemma last_nth (l : list Z) : l <> [] -> last l 0 = nth (length l - 1) l 0.
Proof.
  intros H. rewrite (app_removelast_last 0 H) at 2 3. rewrite app_length. cbn [length].
  rewrite app_nth2 by lia. replace (length (removelast l) + 1 - 1 - length (removelast l))%nat with 0%nat by lia. reflexivity.
Qed.

Lemma last_Forall (P : Z -> Prop) (l : list Z) : l <> [] -> Forall P l -> P (last l 0).
Proof.
  intros H F. rewrite (app_removelast_last 0 H) in F. apply Forall_app in F. destruct F as [_ F]. now inversion F.
Qed.

Lemma cl_lengths_range cl total acc bs r : cl_lengths cl total acc bs r ->
  Forall (fun v => 0 <= v <= 15) acc -> Forall (fun v => 0 <= v <= 15) r /\ len r = total.
Proof.
  induction 1 as [acc H|acc v bs r Hl Hv Hc Hs IH|acc e bs r Hl Hne Hc He Hle Hs IH|acc e bs r Hl Hc He Hle Hs IH|acc e bs r Hl Hc He Hle Hs IH];
    intros Hf.
  - auto.
  - apply IH. apply Forall_app. split; [exact Hf|]. constructor; [lia|constructor].
  - apply IH. apply Forall_app. split; [exact Hf|]. apply Forall_repeat. now apply last_Forall.
  - apply IH. apply Forall_app. split; [exact Hf|]. apply Forall_repeat. lia.
  - apply IH. apply Forall_app. split; [exact Hf|]. apply Forall_repeat. lia.
Qed.

Section ReadLengths.
Variables (c : pcfg) (lc : huff) (cl : list Z) (tail : list Z) (nlen ndist : Z).
Hypothesis Hlc : huff_for cl lc.
Hypothesis Hno : not_over cl.
Hypothesis Htot : nlen + ndist <= 316.

Lemma read_lengths_spec acc bs r : cl_lengths cl (nlen + ndist) acc bs r ->
  forall fuel s lengths rest,
  len lengths = 316 -> firstn (Z.to_nat (len acc)) lengths = acc -> nlen + ndist - len acc <= Z.of_nat fuel ->
  inrep c s (bs ++ rest) tail ->
  exists s' lengths', read_lengths fuel c lc s lengths (len acc) nlen ndist = Ok (s', lengths') /\
    len lengths' = 316 /\ firstn (Z.to_nat (nlen + ndist)) lengths' = r /\ inrep c s' rest tail /\ sameout s s'.
Proof.
  induction 1 as [acc H|acc v bs r Hl Hv Hc Hs IH|acc e bs r Hl Hne Hc He Hle Hs IH|acc e bs r Hl Hc He Hle Hs IH|acc e bs r Hl Hc He Hle Hs IH];
    intros fuel s lengths rest Hlen Hfirst Hfuel Hin; pose proof (len_nonneg acc) as Hacc.
  - (* all lengths read *)
    exists s, lengths. rewrite <- H, Hfirst.
    assert (E : read_lengths fuel c lc s lengths (len acc) nlen ndist = Ok (s, lengths)).
    { destruct fuel; cbn [read_lengths]; destruct (Z.ltb_spec (len acc) (nlen + ndist)); try lia; reflexivity. }
    rewrite E. repeat split; auto.
  - (* a code length 0..15 *)
    destruct fuel as [|fuel]; [lia|]. cbn [read_lengths].
    destruct (Z.ltb_spec (len acc) (nlen + ndist)); [|lia].
    rewrite <- app_assoc in Hin.
    destruct (decode_spec c lc cl v tail _ Hlc Hno Hc s Hin) as (s1 & E1 & R1 & O1). rewrite E1. cbn [bind].
    destruct (Z.ltb_spec v 0); [lia|]. destruct (Z.ltb_spec v 16); [|lia].
    rewrite wr_ok by lia. cbn [bind].
    destruct (IH fuel s1 (upd lengths (len acc) v) rest) as (s2 & l2 & E2 & L2 & F2 & R2 & O2); auto.
    + rewrite len_upd by lia. exact Hlen.
    + rewrite len_app. change (len [v]) with 1. rewrite firstn_upd_snoc by lia. rewrite Hfirst. reflexivity.
    + rewrite len_app. change (len [v]) with 1. lia.
    + rewrite len_app in E2. change (len [v]) with 1 in E2. rewrite E2.
      exists s2, l2. repeat split; auto; try apply O2; eapply sameout_trans; eauto.
  - (* 16: repeat the previous length *)
    destruct fuel as [|fuel]; [lia|]. cbn [read_lengths].
    destruct (Z.ltb_spec (len acc) (nlen + ndist)); [|lia].
    rewrite <- !app_assoc in Hin.
    destruct (decode_spec c lc cl 16 tail _ Hlc Hno Hc s Hin) as (s1 & E1 & R1 & O1). rewrite E1. cbn [bind].
    change (16 <? 0) with false. change (16 <? 16) with false. change (16 =? 16) with true. cbv iota.
    assert (Hpos : 0 < len acc) by (destruct acc; [contradiction|rewrite len_cons; pose proof (len_nonneg acc); lia]).
    destruct (Z.eqb_spec (len acc) 0); [lia|].
    rewrite rd_ok by lia. cbn [bind].
    assert (Eprev : nth (Z.to_nat (len acc - 1)) lengths 0 = last acc 0).
    { rewrite last_nth by exact Hne.
      transitivity (nth (length acc - 1) (firstn (Z.to_nat (len acc)) lengths) 0); [|rewrite Hfirst; reflexivity].
      rewrite nth_firstn' by (unfold len in *; lia). f_equal. unfold len in *. lia. }
    rewrite Eprev.
    destruct (bits_spec c s1 2 e _ tail R1 ltac:(lia) ltac:(change (2 ^ 2) with 4; lia)) as (s2 & E2 & R2 & O2).
    rewrite E2. cbn [bind].
    destruct (Z.ltb_spec (nlen + ndist) (len acc + (3 + e))); [lia|].
    destruct (repeat_len_spec (last acc 0) (Z.to_nat (3 + e)) (len acc) lengths ltac:(lia) ltac:(lia)) as (l1 & E3 & L3 & F3).
    rewrite E3. cbn [bind]. rewrite Z2Nat.id in F3 by lia.
    destruct (IH fuel s2 l1 rest) as (s3 & l3 & E4 & L4 & F4 & R4 & O4); auto.
    + lia.
    + rewrite len_app, len_repeat, Z2Nat.id by lia. rewrite F3, Hfirst. reflexivity.
    + rewrite len_app, len_repeat, Z2Nat.id by lia. lia.
    + rewrite len_app, len_repeat, Z2Nat.id in E4 by lia. rewrite E4.
      exists s3, l3. repeat split; auto; try apply O4; eapply sameout_trans; eauto; eapply sameout_trans; eauto.
  - (* 17: 3..10 zeros *)
    destruct fuel as [|fuel]; [lia|]. cbn [read_lengths].
    destruct (Z.ltb_spec (len acc) (nlen + ndist)); [|lia].
    rewrite <- !app_assoc in Hin.
    destruct (decode_spec c lc cl 17 tail _ Hlc Hno Hc s Hin) as (s1 & E1 & R1 & O1). rewrite E1. cbn [bind].
    change (17 <? 0) with false. change (17 <? 16) with false. change (17 =? 16) with false. change (17 =? 17) with true. cbv iota.
    destruct (bits_spec c s1 3 e _ tail R1 ltac:(lia) ltac:(change (2 ^ 3) with 8; lia)) as (s2 & E2 & R2 & O2).
    rewrite E2. cbn [bind].
    destruct (Z.ltb_spec (nlen + ndist) (len acc + (3 + e))); [lia|].
    destruct (repeat_len_spec 0 (Z.to_nat (3 + e)) (len acc) lengths ltac:(lia) ltac:(lia)) as (l1 & E3 & L3 & F3).
    rewrite E3. cbn [bind]. rewrite Z2Nat.id in F3 by lia.
    destruct (IH fuel s2 l1 rest) as (s3 & l3 & E4 & L4 & F4 & R4 & O4); auto.
    + lia.
    + rewrite len_app, len_repeat, Z2Nat.id by lia. rewrite F3, Hfirst. reflexivity.
    + rewrite len_app, len_repeat, Z2Nat.id by lia. lia.
    + rewrite len_app, len_repeat, Z2Nat.id in E4 by lia. rewrite E4.
      exists s3, l3. repeat split; auto; try apply O4; eapply sameout_trans; eauto; eapply sameout_trans; eauto.
  - (* 18: 11..138 zeros *)
    destruct fuel as [|fuel]; [lia|]. cbn [read_lengths].
    destruct (Z.ltb_spec (len acc) (nlen + ndist)); [|lia].
    rewrite <- !app_assoc in Hin.
    destruct (decode_spec c lc cl 18 tail _ Hlc Hno Hc s Hin) as (s1 & E1 & R1 & O1). rewrite E1. cbn [bind].
    change (18 <? 0) with false. change (18 <? 16) with false. change (18 =? 16) with false. change (18 =? 17) with false. cbv iota.
    destruct (bits_spec c s1 7 e _ tail R1 ltac:(lia) ltac:(change (2 ^ 7) with 128; lia)) as (s2 & E2 & R2 & O2).
    rewrite E2. cbn [bind].
    destruct (Z.ltb_spec (nlen + ndist) (len acc + (11 + e))); [lia|].
    destruct (repeat_len_spec 0 (Z.to_nat (11 + e)) (len acc) lengths ltac:(lia) ltac:(lia)) as (l1 & E3 & L3 & F3).
    rewrite E3. cbn [bind]. rewrite Z2Nat.id in F3 by lia.
    destruct (IH fuel s2 l1 rest) as (s3 & l3 & E4 & L4 & F4 & R4 & O4); auto.
    + lia.
    + rewrite len_app, len_repeat, Z2Nat.id by lia. rewrite F3, Hfirst. reflexivity.
    + rewrite len_app, len_repeat, Z2Nat.id by lia. lia.
    + rewrite len_app, len_repeat, Z2Nat.id in E4 by lia. rewrite E4.
      exists s3, l3. repeat split; auto; try apply O4; eapply sameout_trans; eauto; eapply sameout_trans; eauto.
Qed.
End ReadLengths.

(* ---- the checks sc_puff makes on the two codes --------------------------------------------------------------------- *)
Lemma code_ok_not_over ls : code_ok ls -> not_over ls.
Proof. intros [_ [H|[H _]]]; unfold not_over, complete in *; lia. Qed.

Lemma cnt_01 ls : Forall (fun l => l = 0 \/ l = 1) ls -> cnt ls 0 + cnt ls 1 = len ls.
Proof.
  induction 1 as [|x ls Hx _ IH]; [reflexivity|]. rewrite !cnt_cons, len_cons.
  destruct (Z.eqb_spec x 0); destruct (Z.eqb_spec x 1); lia.
Qed.

Lemma construct_check ls n err : code_ok ls -> len ls = n ->
  (cnt ls 0 = n -> err = 0) -> (cnt ls 0 <> n -> err = 2 ^ 15 - kraft ls) ->
  negb (err =? 0) && ((err <? 0) || negb (n =? cnt ls 0 + cnt ls 1)) = false.
Proof.
  intros [_ Hok] Hn H0 H1. destruct (Z.eq_dec (cnt ls 0) n) as [E|E].
  - rewrite (H0 E). reflexivity.
  - rewrite (H1 E). destruct Hok as [Hc|[Hi H01]].
    + unfold complete in Hc. rewrite Hc, Z.sub_diag. reflexivity.
    + rewrite (cnt_01 ls H01), Hn, Z.eqb_refl.
      destruct (Z.ltb_spec (2 ^ 15 - kraft ls) 0); [lia|]. cbn [negb orb]. apply andb_false_r.
Qed.

Lemma firstn_app_len {A} (a b : list A) n : n = length a -> firstn n (a ++ b) = a.
Proof. intros ->. rewrite firstn_app, Nat.sub_diag, firstn_all. cbn [firstn]. apply app_nil_r. Qed.

(* (e) dynamic() decodes a block with dynamic Huffman codes *)
Theorem dynamic_spec c s o hlit hdist hclen vs lens bs1 bs2 o' rest tail N :
  0 <= hlit <= 29 -> 0 <= hdist <= 29 -> 0 <= hclen <= 15 ->
  len vs = hclen + 4 -> Forall (fun v => 0 <= v < 8) vs ->
  complete (cl_of vs) ->
  cl_lengths (cl_of vs) (hlit + 257 + (hdist + 1)) [] bs1 lens ->
  code_ok (firstn (Z.to_nat (hlit + 257)) lens) ->
  code_ok (skipn (Z.to_nat (hlit + 257)) lens) ->
  symbols (firstn (Z.to_nat (hlit + 257)) lens) (skipn (Z.to_nat (hlit + 257)) lens) o bs2 o' ->
  len o' <= N -> N < M64 -> (c_nil c = false -> N <= c_outlen c /\ N <= c_outcap c) ->
  inrep c s (bitsZ 5 hlit ++ bitsZ 5 hdist ++ bitsZ 4 hclen ++ flat_map (bitsZ 3) vs ++ bs1 ++ bs2 ++ rest) tail ->
  outrep c s o ->
  exists s', dynamic c s = Ok s' /\ inrep c s' rest tail /\ outrep c s' o'.
Proof.
  intros Hhl Hhd Hhc Hvl Hvs Hcomp Hcl Hlit Hdist Hsym HN' HN Hroom Hin Ho.
  set (nlen := hlit + 257) in *. set (ndist := hdist + 1) in *.
  unfold dynamic.
  destruct (bits_spec c s 5 hlit _ tail Hin ltac:(lia) ltac:(change (2 ^ 5) with 32; lia)) as (s1 & E1 & R1 & O1).
  rewrite E1. cbn [bind].
  destruct (bits_spec c s1 5 hdist _ tail R1 ltac:(lia) ltac:(change (2 ^ 5) with 32; lia)) as (s2 & E2 & R2 & O2).
  rewrite E2. cbn [bind].
  destruct (bits_spec c s2 4 hclen _ tail R2 ltac:(lia) ltac:(change (2 ^ 4) with 16; lia)) as (s3 & E3 & R3 & O3).
  rewrite E3. cbn [bind]. fold nlen ndist.
  destruct (Z.ltb_spec MAXLCODES nlen); [unfold MAXLCODES, nlen in *; lia|].
  destruct (Z.ltb_spec MAXDCODES ndist); [unfold MAXDCODES, ndist in *; lia|]. cbn [orb].
  (* the code length code *)
  replace (Z.to_nat (hclen + 4)) with (length vs) by (unfold len in Hvl; lia).
  destruct (read_cl_spec c tail vs 0 s3 (repeat 0 316) _ ltac:(lia) ltac:(lia) Hvs ltac:(rewrite len_repeat; lia) R3) as (s4 & E4 & R4 & O4).
  rewrite E4. cbn [bind]. change (skipn (Z.to_nat 0) order) with cl_order.
  assert (Elen1 : fold_left updf (combine cl_order vs) (repeat 0 316) = cl_of vs ++ repeat 0 297).
  { change (repeat 0 316) with (repeat 0 19 ++ repeat 0 297). rewrite fold_updf_app; [reflexivity|].
    intros ov Hov. rewrite len_repeat. apply (combine_order_valid vs ov Hov). }
  rewrite Elen1.
  pose proof (cl_of_len vs) as Hcll.
  rewrite zero_cl_id; try lia.
  2:{ rewrite len_app, Hcll, len_repeat. lia. }
  2:{ intros i Hi. pose proof (order_val i ltac:(lia)) as Hov.
      rewrite app_nth1 by (unfold len in Hcll; lia). apply cl_of_untouched. unfold len in Hvl. lia. }
  cbn [bind].
  assert (Els : lens_at (cl_of vs ++ repeat 0 297) 0 19 = cl_of vs).
  { unfold lens_at. cbn [skipn Z.to_nat]. apply firstn_app_len. unfold len in Hcll. lia. }
  pose proof (cl_of_range vs Hvs) as Hclr.
  assert (Hclno : not_over (cl_of vs)) by (unfold not_over, complete in *; lia).
  destruct (construct_spec (cl_of vs ++ repeat 0 297) 0 19 ltac:(lia) ltac:(lia)
              ltac:(rewrite len_app, Hcll, len_repeat; lia) ltac:(rewrite Els; exact Hclr)
              (mkH (repeat 0 16) (repeat 0 286)) ltac:(reflexivity) ltac:(cbn [h_symbol]; rewrite len_repeat; lia)
              ltac:(rewrite Els; exact Hclno)) as (err1 & lc1 & E5 & H5 & C5 & S5 & Z5 & K5).
  rewrite Els in *. rewrite E5. cbn [bind].
  assert (Eerr1 : err1 = 0).
  { destruct (Z.eq_dec (cnt (cl_of vs) 0) 19) as [A|A]; [auto|]. rewrite (K5 A). unfold complete in Hcomp. lia. }
  subst err1. cbn [Z.eqb negb].
  (* the code lengths of the two codes *)
  destruct (read_lengths_spec c lc1 (cl_of vs) tail nlen ndist H5 Hclno ltac:(unfold nlen, ndist; lia) [] bs1 lens Hcl
              320%nat s4 (cl_of vs ++ repeat 0 297) (bs2 ++ rest))
    as (s5 & lengths3 & E6 & L6 & F6 & R6 & O6).
  { rewrite len_app, Hcll, len_repeat. reflexivity. }
  { reflexivity. }
  { change (len (@nil Z)) with 0. unfold nlen, ndist. lia. }
  { exact R4. }
  change (len (@nil Z)) with 0 in E6. rewrite E6. cbn [bind].
  destruct (cl_lengths_range _ _ _ _ _ Hcl ltac:(constructor)) as [Hlr Hll].
  set (lit := firstn (Z.to_nat nlen) lens) in *. set (dist := skipn (Z.to_nat nlen) lens) in *.
  assert (Hlitlen : len lit = nlen) by (unfold lit; rewrite len_firstn by (unfold nlen, ndist in *; lia); reflexivity).
  assert (Hdistlen : len dist = ndist) by (unfold dist; rewrite len_skipn by (unfold nlen, ndist in *; lia); lia).
  assert (Elit : lens_at lengths3 0 nlen = lit).
  { unfold lens_at, lit. cbn [skipn Z.to_nat]. rewrite <- F6. rewrite firstn_firstn. f_equal. unfold nlen, ndist. lia. }
  assert (Edist : lens_at lengths3 nlen ndist = dist).
  { unfold lens_at, dist. rewrite <- F6. rewrite skipn_firstn_comm. f_equal. unfold nlen, ndist. lia. }
  assert (Hlitr : Forall (fun v => 0 <= v <= 15) lit) by (unfold lit; now apply Forall_firstn).
  assert (Hdistr : Forall (fun v => 0 <= v <= 15) dist) by (unfold dist; now apply Forall_skipn).
  (* end-of-block must have a code *)
  pose proof (symbols_has_eob _ _ _ _ _ Hsym) as [Heob1 Heob2].
  rewrite rd_ok by (unfold nlen in *; lia). cbn [bind].
  assert (E256 : nth (Z.to_nat 256) lengths3 0 = nth (Z.to_nat 256) lit 0).
  { unfold lit. rewrite <- F6. rewrite firstn_firstn. rewrite nth_firstn' by (unfold nlen, ndist; lia). reflexivity. }
  rewrite E256. destruct (Z.eqb_spec (nth (Z.to_nat 256) lit 0) 0); [lia|].
  (* the literal/length code *)
  destruct H5 as (H5a & _).
  destruct (construct_spec lengths3 0 nlen ltac:(lia) ltac:(unfold nlen; lia) ltac:(unfold nlen, ndist in *; lia)
              ltac:(rewrite Elit; exact Hlitr) lc1 H5a ltac:(rewrite S5; cbn [h_symbol]; rewrite len_repeat; unfold nlen; lia)
              ltac:(rewrite Elit; apply code_ok_not_over; exact Hlit)) as (err2 & lc2 & E7 & H7 & C7 & S7 & Z7 & K7).
  rewrite Elit in *. rewrite E7. cbn [bind].
  pose proof H7 as (H7a & _).
  rewrite !rd_ok by lia. cbn [bind]. rewrite (C7 0), (C7 1) by lia.
  rewrite (construct_check lit nlen err2 Hlit Hlitlen Z7 K7).
  (* the distance code *)
  destruct (construct_spec lengths3 nlen ndist ltac:(unfold nlen; lia) ltac:(unfold ndist; lia) ltac:(unfold nlen, ndist in *; lia)
              ltac:(rewrite Edist; exact Hdistr) (mkH (repeat 0 16) (repeat 0 30)) ltac:(reflexivity)
              ltac:(cbn [h_symbol]; rewrite len_repeat; unfold ndist; lia)
              ltac:(rewrite Edist; apply code_ok_not_over; exact Hdist)) as (err3 & dc & E8 & H8 & C8 & S8 & Z8 & K8).
  rewrite Edist in *. rewrite E8. cbn [bind].
  pose proof H8 as (H8a & _).
  rewrite !rd_ok by lia. cbn [bind]. rewrite (C8 0), (C8 1) by lia.
  rewrite (construct_check dist ndist err3 Hdist Hdistlen Z8 K8).
  (* the symbols *)
  apply (codes_spec c lc2 dc lit dist tail H7 H8 (code_ok_not_over _ Hlit) (code_ok_not_over _ Hdist) N HN Hroom s5 o bs2 o' rest Hsym HN' R6).
  eapply outrep_sameout; [|exact Ho].
  eapply sameout_trans; [|exact O6]. eapply sameout_trans; [|exact O4]. eapply sameout_trans; [|exact O3].
  eapply sameout_trans; [exact O1|exact O2].
Qed.
