(* libb64 as adapted by libsc (libb64/cencode.c, libb64/cdecode.c): the exact state machines.
   The value functions and their tables are the GENERATED ones (Gen/Codec.v, tie T1).
   Bytes are Z in [0,256); a C `char` c is the byte (c mod 256).  Definitions only. *)
From Coq Require Import ZArith List Bool.
From ScV Require Import Base.CInt Gen.Codec C06.Res.
Import ListNotations.
Local Open Scope Z_scope.

(* ---- encoder (cencode.c) -------------------------------------------------------------------- *)
Inductive estep := StepA | StepB | StepC.
Record estate := mkE { e_step : estep; e_result : Z }.
Definition e_init : estate := mkE StepA 0.           (* base64_init_encodestate *)

(* base64_encode_value on a `char` argument, result as a byte *)
Definition enc_value (v : Z) : Z := u8 (base64_encode_value (s8 v)).

(* one plaintext byte: the code between two `if (plainchar == plaintextend)` tests *)
Definition enc_byte (st : estate) (x : Z) : estate * list Z :=
  match e_step st with
  | StepA => let r := shr (Z.land x 252) 2 in
             (mkE StepB (shl (Z.land x 3) 4), [enc_value r])
  | StepB => let r := Z.lor (e_result st) (shr (Z.land x 240) 4) in
             (mkE StepC (shl (Z.land x 15) 2), [enc_value r])
  | StepC => let r := Z.lor (e_result st) (shr (Z.land x 192) 6) in
             let r2 := shr (Z.land x 63) 0 in
             (mkE StepA r2, [enc_value r; enc_value r2])
  end.

(* base64_encode_block: returns the new state and the code characters written *)
Fixpoint enc_block (st : estate) (l : list Z) : estate * list Z :=
  match l with
  | [] => (st, [])
  | x :: r => let '(st1, o1) := enc_byte st x in
              let '(st2, o2) := enc_block st1 r in (st2, o1 ++ o2)
  end.

(* base64_encode_blockend (SC_BASE64_WRAP undefined) *)
Definition enc_end (st : estate) : list Z :=
  match e_step st with
  | StepB => [enc_value (e_result st); 61; 61]
  | StepC => [enc_value (e_result st); 61]
  | StepA => []
  end.

(* a complete encoding: init, one block, end *)
Definition b64_encode_all (l : list Z) : list Z :=
  let '(st, o) := enc_block e_init l in o ++ enc_end st.

(* ---- decoder (cdecode.c), instrumented ------------------------------------------------------- *)
Inductive dstep := Sa | Sb | Sc | Sd.
Record dstate := mkD { d_step : dstep; d_plain : Z }.
Definition d_init : dstate := mkD Sa 0.              (* base64_init_decodestate *)

Definition dec_value (c : Z) : Z := base64_decode_value (s8 c).

(* one code byte c; pc = plainchar - plaintext_out; pt = the plaintext buffer.
   A byte whose value is negative (not in the alphabet, or '=') is skipped. *)
Definition dec_char (stp : dstep) (pc : Z) (pt : list Z) (c : Z) : res (dstep * Z * list Z) :=
  let f := dec_value c in
  if f <? 0 then Ok (stp, pc, pt) else
  match stp with
  | Sa => pt1 <- wr pt pc (u8 (shl (Z.land f 63) 2)) ;;
          Ok (Sb, pc, pt1)
  | Sb => v <- rd pt pc ;;
          pt1 <- wr pt pc (u8 (Z.lor v (shr (Z.land f 48) 4))) ;;
          pt2 <- wr pt1 (pc + 1) (u8 (shl (Z.land f 15) 4)) ;;
          Ok (Sc, pc + 1, pt2)
  | Sc => v <- rd pt pc ;;
          pt1 <- wr pt pc (u8 (Z.lor v (shr (Z.land f 60) 2))) ;;
          pt2 <- wr pt1 (pc + 1) (u8 (shl (Z.land f 3) 6)) ;;
          Ok (Sd, pc + 1, pt2)
  | Sd => v <- rd pt pc ;;
          pt1 <- wr pt pc (u8 (Z.lor v (Z.land f 63))) ;;
          Ok (Sa, pc + 1, pt1)
  end.

Fixpoint dec_chars (cs : list Z) (stp : dstep) (pc : Z) (pt : list Z) : res (dstep * Z * list Z) :=
  match cs with
  | [] => Ok (stp, pc, pt)
  | c :: r => '(s1, pc1, pt1) <- dec_char stp pc pt c ;; dec_chars r s1 pc1 pt1
  end.

(* base64_decode_block (code, length_in, plaintext_out, state): `code` is the list of the
   length_in bytes the function reads (the caller's bounds check of code_in[0..length_in) is the
   caller's `slice`); returns (bytes decoded, plaintext buffer, new state). *)
Definition decode_block (code : list Z) (pt : list Z) (st : dstate) : res (Z * list Z * dstate) :=
  pt0 <- wr pt 0 (d_plain st) ;;                       (* *plainchar = state_in->plainchar *)
  '(s1, pc1, pt1) <- dec_chars code (d_step st) 0 pt0 ;;
  v <- rd pt1 pc1 ;;                                   (* state_in->plainchar = *plainchar *)
  Ok (pc1, pt1, mkD s1 v).
