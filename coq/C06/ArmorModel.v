(* sc_io_encode_zlib (sc_io.c): 9-byte info header, compression (a parameter: zlib's compress2 in one
   build, sc_io_noncompress in the other), base 64 in lines of 57 data bytes -> 76 code characters
   followed by [line break byte; '\n'], final NUL.  VTK writers as streaming encoders.
   The size formulas are the GENERATED slices of the C function (Gen/Codec.v).  Definitions only. *)
From Coq Require Import ZArith List Bool.
From ScV Require Import Base.CInt Gen.Codec C06.Res C06.B64Model C06.StoredModel.
Import ListNotations.
Local Open Scope Z_scope.

(* original_size[i] = (input_size >> ((7 - i) * 8)) & 0xFF, i = 0..7 *)
Definition be8 (n : Z) : list Z :=
  map (fun i => Z.land (shr n ((7 - i) * 8)) 255) [0; 1; 2; 3; 4; 5; 6; 7].

Definition info_header (input_size : Z) : list Z := be8 input_size ++ [122].   (* 'z' *)

(* the for loop over the lines; k = lines still to write, zlin = lines - k *)
Fixpoint enc_lines (k : nat) (zlin lines : Z) (ipos : list Z) (irem : Z) (st : estate) (lb : Z) : list Z :=
  match k with
  | O => []
  | S k' =>
    let lein := enc_lein irem in
    let '(st1, code) := enc_block st (firstn (Z.to_nat lein) ipos) in
    if zlin <? u64 (lines - 1) then
      code ++ [lb; 10] ++ enc_lines k' (zlin + 1) lines (skipn 57 ipos) (u64 (irem - 57)) st1 lb
    else
      code ++ enc_end st1 ++ [lb; 10; 0]
  end.

Definition armor (lb : Z) (payload : list Z) : list Z :=
  let input_size := len payload in
  let lines := enc_base64_lines input_size in
  if lines =? 0 then [0]                                  (* opos[0] = '\0'; the loop does not run *)
  else enc_lines (Z.to_nat lines) 0 lines payload input_size e_init (u8 lb).

(* sc_io_encode_zlib (data, out, level, line_break_character) with `compress` for the deflate stage *)
Definition sc_encode_with (compress : list Z -> list Z) (lb : Z) (d : list Z) : list Z :=
  armor lb (info_header (len d) ++ compress d).

(* the build without zlib *)
Definition sc_encode_stored (lb : Z) (d : list Z) : list Z := sc_encode_with noncompress lb d.

(* the text size the C code allocates *)
Definition sc_encoded_size (payload_len : Z) : Z :=
  enc_encoded_size payload_len (enc_base64_lines payload_len).

(* ---- sc_vtk_write_binary: 4-byte little-endian length, then chunks of 32768 bytes, one encoder state *)
Definition le4 (n : Z) : list Z :=
  [ Z.land n 255; Z.land (shr n 8) 255; Z.land (shr n 16) 255; Z.land (shr n 24) 255 ].

Fixpoint vtk_chunks (fuel : nat) (data : list Z) (remaining : Z) (st : estate) : estate * list Z :=
  match fuel with
  | O => (st, [])
  | S f =>
    if 0 <? remaining then
      let writenow := if remaining <? 32768 then remaining else 32768 in
      let '(st1, o1) := enc_block st (firstn (Z.to_nat writenow) data) in
      let '(st2, o2) := vtk_chunks f (skipn (Z.to_nat writenow) data) (remaining - writenow) st1 in
      (st2, o1 ++ o2)
    else (st, [])
  end.

Definition vtk_write_binary (d : list Z) : list Z :=
  let n := len d in
  let '(st0, o0) := enc_block e_init (le4 (u32 n)) in
  let '(st1, o1) := vtk_chunks (S (Z.to_nat (n / 32768))) d n st0 in
  o0 ++ o1 ++ enc_end st1.

(* ---- sc_vtk_write_compressed: header words, then the compressed blocks, two encoder runs -------- *)
Fixpoint vtk_blocks (fuel : nat) (compress : list Z -> list Z) (data : list Z) (remaining : Z) : list (list Z) :=
  match fuel with
  | O => []
  | S f =>
    if 0 <? remaining then
      let now := if remaining <? 32768 then remaining else 32768 in
      compress (firstn (Z.to_nat now) data) :: vtk_blocks f compress (skipn (Z.to_nat now) data) (remaining - now)
    else []
  end.

(* successive base64_encode_block calls on one encoder state *)
Fixpoint enc_blocks (st : estate) (bs : list (list Z)) : estate * list Z :=
  match bs with
  | [] => (st, [])
  | b :: r => let '(s1, o1) := enc_block st b in
              let '(s2, o2) := enc_blocks s1 r in (s2, o1 ++ o2)
  end.

(* the stream as a function of the byte length and the compressed blocks *)
Definition vtk_compressed_of_blocks (n : Z) (blocks : list (list Z)) : list Z :=
  let lastsize := n mod 32768 in
  let numregular := n / 32768 in
  let numfull := numregular + (if 0 <? lastsize then 1 else 0) in
  let h2 := if (0 <? lastsize) || (n =? 0) then lastsize else 32768 in
  let header := le4 (u32 numfull) ++ le4 32768 ++ le4 (u32 h2) ++ concat (map (fun b => le4 (u32 (len b))) blocks) in
  let '(sh, oh) := enc_block e_init header in
  let '(sd, od) := enc_blocks e_init blocks in
  oh ++ enc_end sh ++ od ++ enc_end sd.

Definition vtk_write_compressed (compress : list Z -> list Z) (d : list Z) : list Z :=
  let n := len d in
  vtk_compressed_of_blocks n (vtk_blocks (S (Z.to_nat (n / 32768))) compress d n).
