(* sc_puff against RFC 1951, stage (b): the tables built by construct() describe the canonical Huffman code
   of RFC 1951 3.2.2 for the given code lengths, and decode() returns the symbol whose code the unread
   bits start with - for every length vector that is not over-subscribed, complete or not. *)
From Coq Require Import ZArith List Bool Lia.
From ScV Require Import Base.CInt C06.Res C06.ResProofs C07.PuffModel C07.PuffSafe C07.PuffHuffman
                        C06.DeflateSpec C06.DeflateCanon C06.DeflateBits.
Import ListNotations.
Local Open Scope Z_scope.

(* the tables (count[], symbol[]) of sc_puff.c represent the canonical code of the lengths ls:
   count[l] symbols have length l; symbol[] lists the symbols ordered by length, then by value *)
Definition huff_for (ls : list Z) (h : huff) : Prop :=
  len (h_count h) = 16 /\
  (forall l, 1 <= l <= 15 -> nth (Z.to_nat l) (h_count h) 0 = cnt ls l) /\
  (forall sym, has_code ls sym ->
     rd (h_symbol h) (psum (h_count h) (nth (Z.to_nat sym) ls 0) +
                      cnt (firstn (Z.to_nat sym) ls) (nth (Z.to_nat sym) ls 0)) = Ok sym).

(* ---- decode ------------------------------------------------------------------------------------------ *)
Lemma bitsZ_succ k v : 1 <= k -> bitsZ k v = Z.odd v :: bitsZ (k - 1) (v / 2).
Proof. intros Hk. unfold bitsZ. replace (Z.to_nat k) with (S (Z.to_nat (k - 1))) by lia. reflexivity. Qed.

Lemma div_pow2_step v m : 0 <= m -> v / 2 ^ m = 2 * (v / 2 ^ (m + 1)) + (v / 2 ^ m) mod 2.
Proof.
  intros Hm. rewrite Z.pow_add_r by lia. change (2 ^ 1) with 2.
  rewrite <- Z.div_div by (try apply pow2_pos; lia). apply Z.div_mod. lia.
Qed.

Section Decode.
Variables (c : pcfg) (h : huff) (ls : list Z) (sym : Z) (tail : list Z) (rest : list bool).
Hypothesis Hh : huff_for ls h.
Hypothesis Hno : not_over ls.
Hypothesis Hsym : has_code ls sym.
Let l := nth (Z.to_nat sym) ls 0.
Let v := code_val ls sym.

Lemma decode_loop_spec : forall (m : nat) fuel s bitbuf lft k avail ln,
  ln = l - Z.of_nat m -> 1 <= ln ->
  (2 * m + 2 <= fuel)%nat ->
  p_in s = avail ++ tail -> bytes avail -> len avail = c_inlen c - p_incnt s -> 0 <= p_incnt s -> c_inlen c < M64 ->
  0 <= k <= 8 -> 0 <= bitbuf < 2 ^ k -> lft = Z.min k (16 - ln) ->
  (p_bitcnt s - (ln - 1)) mod 8 = k mod 8 ->
  bitsZ k bitbuf ++ bytes_bits avail = code_bits (Z.of_nat m + 1) v ++ rest ->
  exists s',
    decode_loop fuel c h s bitbuf lft (2 * (v / 2 ^ (Z.of_nat m + 1))) (next_code ls (Z.to_nat ln))
                (psum (h_count h) ln) ln ln = Ok (sym, s') /\
    inrep c s' rest tail /\ sameout s s'.
Proof.
  destruct Hh as (Hlc & Hcnt & Hst). pose proof Hsym as [Hs1 Hs2]. fold l in Hs2.
  pose proof (code_val_fits ls sym Hno Hsym) as Hfit. fold l v in Hfit.
  pose proof (code_val_range ls sym Hsym) as Hrange. cbv zeta in Hrange. fold l v in Hrange.
  induction m as [|m IH]; intros fuel s bitbuf lft k avail ln Eln Hln Hfuel Ein Hb La Hi Hm Hk Hbb Hlft Hmod Ebs.
  - (* the last bit of the code *)
    assert (Hstep : forall fuel s bitbuf k avail, (1 <= fuel)%nat ->
              p_in s = avail ++ tail -> bytes avail -> len avail = c_inlen c - p_incnt s -> 0 <= p_incnt s ->
              1 <= k <= 8 -> 0 <= bitbuf < 2 ^ k -> (p_bitcnt s - (ln - 1)) mod 8 = k mod 8 ->
              bitsZ k bitbuf ++ bytes_bits avail = code_bits (0 + 1) v ++ rest ->
              exists s', decode_loop fuel c h s bitbuf (Z.min k (16 - ln)) (2 * (v / 2 ^ (0 + 1))) (next_code ls (Z.to_nat ln))
                           (psum (h_count h) ln) ln ln = Ok (sym, s') /\ inrep c s' rest tail /\ sameout s s').
    { clear fuel s bitbuf lft k avail Hfuel Ein Hb La Hi Hk Hbb Hlft Hmod Ebs.
      intros fuel s bitbuf k avail Hfuel Ein Hb La Hi Hk Hbb Hmod Ebs.
      destruct fuel as [|fuel]; [lia|]. cbn [decode_loop].
      destruct (Z.eqb_spec (Z.min k (16 - ln)) 0) as [|_]; [lia|]. cbn [negb].
      rewrite code_bits_succ in Ebs by lia. rewrite bitsZ_succ in Ebs by lia. cbn [app] in Ebs.
      inversion Ebs as [[Eodd Erest]]. change (code_bits 0 v) with (@nil bool) in Erest. cbn [app] in Erest.
      change (2 ^ 0) with 1 in Eodd. rewrite Z.div_1_r in Eodd.
      destruct (lor_bit (2 * (v / 2 ^ (0 + 1))) bitbuf) as [Elor _].
      { apply Z.mul_nonneg_nonneg; [lia|]. apply Z.div_pos; [lia|]. apply pow2_pos; lia. }
      { rewrite Z.mul_comm. apply Z.mod_mul. lia. }
      rewrite Elor. rewrite (Zmod_odd bitbuf), Eodd, <- Zmod_odd.
      replace (2 * (v / 2 ^ (0 + 1)) + v mod 2) with v
        by (pose proof (div_pow2_step v 0 ltac:(lia)) as D; change (2 ^ 0) with 1 in D; rewrite !Z.div_1_r in D; lia).
      rewrite rd_ok by lia. cbn [bind]. rewrite Hcnt by lia.
      replace ln with l in * by lia.
      destruct (Z.ltb_spec (v - cnt ls l) (next_code ls (Z.to_nat l))) as [_|Hge];
        [|exfalso; rewrite <- (next_code_end ls l) in Hrange by lia; lia].
      replace (psum (h_count h) l + (v - next_code ls (Z.to_nat l))) with (psum (h_count h) l + cnt (firstn (Z.to_nat sym) ls) l)
        by (unfold v, code_val; fold l; lia).
      unfold l. rewrite (Hst sym Hsym). fold l. cbn [bind].
      eexists. split; [reflexivity|]. split; [|unfold sameout, set_bits; cbn; auto].
      exists avail. unfold set_bits. cbn [p_out p_outcnt p_in p_incnt p_bitbuf p_bitcnt].
      change 7 with (2 ^ 3 - 1). rewrite land_ones_mod by lia. change (2 ^ 3) with 8.
      assert (Ebc : (p_bitcnt s - l) mod 8 = k - 1) by lia.
      rewrite Ebc. unfold shr. change (2 ^ 1) with 2.
      assert (Hp : 2 ^ k = 2 * 2 ^ (k - 1)) by (rewrite <- Z.pow_succ_r by lia; f_equal; lia).
      repeat split; auto; try lia. }
    replace (Z.of_nat 0) with 0 in * by reflexivity.
    destruct (Z.eq_dec k 0) as [Hk0|Hk0].
    + (* the bit buffer is empty: load the next byte *)
      subst k. destruct fuel as [|fuel]; [lia|]. cbn [decode_loop].
      replace lft with 0 by lia. cbn [Z.eqb negb].
      destruct (Z.eqb_spec (MAXBITS + 1 - ln) 0) as [|_]; [unfold MAXBITS in *; lia|].
      rewrite bitsZ_0 in Ebs. cbn [app] in Ebs.
      destruct avail as [|b avail1]; [rewrite code_bits_succ in Ebs by lia; discriminate|].
      rewrite len_cons in La. pose proof (len_nonneg avail1).
      destruct (Z.eqb_spec (p_incnt s) (c_inlen c)) as [|_]; [lia|].
      unfold in_byte. rewrite Ein. cbn [app bind]. rewrite (u64_id (p_incnt s + 1)) by lia.
      apply bytes_cons in Hb. destruct Hb as [Hb0 Hb1]. unfold byte in Hb0.
      replace (if 8 <? MAXBITS + 1 - ln then 8 else MAXBITS + 1 - ln) with (Z.min 8 (16 - ln))
        by (unfold MAXBITS; destruct (Z.ltb_spec 8 (15 + 1 - ln)); lia).
      destruct (Hstep fuel (mkSt (p_out s) (p_outcnt s) (avail1 ++ tail) (p_incnt s + 1) (p_bitbuf s) (p_bitcnt s)) b 8 avail1)
        as (s' & E & R & O); cbn [p_out p_outcnt p_in p_incnt p_bitbuf p_bitcnt]; auto; try lia.
      exists s'. split; [exact E|]. split; [exact R|]. exact O.
    + subst lft. apply (Hstep fuel s bitbuf k avail); auto; lia.
  - (* a bit that is not the last: the code read so far lies behind all codes of this length *)
    remember (Z.of_nat (S m)) as M eqn:EM. assert (HM : M = Z.of_nat m + 1) by lia.
    assert (Hstep : forall fuel s bitbuf k avail, (2 * S m + 1 <= fuel)%nat ->
              p_in s = avail ++ tail -> bytes avail -> len avail = c_inlen c - p_incnt s -> 0 <= p_incnt s ->
              1 <= k <= 8 -> 0 <= bitbuf < 2 ^ k -> (p_bitcnt s - (ln - 1)) mod 8 = k mod 8 ->
              bitsZ k bitbuf ++ bytes_bits avail = code_bits (M + 1) v ++ rest ->
              exists s', decode_loop fuel c h s bitbuf (Z.min k (16 - ln)) (2 * (v / 2 ^ (M + 1))) (next_code ls (Z.to_nat ln))
                           (psum (h_count h) ln) ln ln = Ok (sym, s') /\ inrep c s' rest tail /\ sameout s s').
    { clear fuel s bitbuf lft k avail Hfuel Ein Hb La Hi Hk Hbb Hlft Hmod Ebs.
      intros fuel s bitbuf k avail Hfuel Ein Hb La Hi Hk Hbb Hmod Ebs.
      destruct fuel as [|fuel]; [clear - Hfuel; lia|]. cbn [decode_loop].
      destruct (Z.eqb_spec (Z.min k (16 - ln)) 0) as [Hz|_]; [clear - Hz Hk Hln Eln HM Hs2; lia|]. cbn [negb].
      assert (HM0 : 0 <= M) by (clear - HM; lia).
      rewrite code_bits_succ in Ebs by exact HM0. rewrite bitsZ_succ in Ebs by (clear - Hk; lia). cbn [app] in Ebs.
      inversion Ebs as [[Eodd Erest]]. clear Ebs.
      pose proof (div_pow2_step v M HM0) as Hdiv.
      assert (Hlnl : 0 <= ln < l) by (clear - Hln Eln HM; lia).
      pose proof (code_val_above ls sym ln Hsym Hlnl) as Habove. fold l v in Habove.
      replace (l - ln) with M in Habove by (clear - Eln; lia).
      rewrite <- (next_code_end ls ln) in Habove by exact Hln.
      assert (Hq1 : 0 <= v / 2 ^ (M + 1)).
      { apply Z.div_pos; [clear - Hfit; lia|]. apply pow2_pos. clear - HM0; lia. }
      remember (v / 2 ^ M) as q eqn:Eq. remember (v / 2 ^ (M + 1)) as q1 eqn:Eq1.
      destruct (lor_bit (2 * q1) bitbuf) as [Elor _].
      { clear - Hq1; lia. }
      { rewrite Z.mul_comm. apply Z.mod_mul. lia. }
      rewrite Elor. rewrite (Zmod_odd bitbuf), Eodd, <- Zmod_odd.
      rewrite <- Hdiv.
      assert (Hln15 : 1 <= ln <= 15) by (clear - Hln Hlnl Hs2; lia).
      rewrite rd_ok by (rewrite Hlc; clear - Hln15; lia). cbn [bind]. rewrite Hcnt by exact Hln15.
      destruct (Z.ltb_spec (q - cnt ls ln) (next_code ls (Z.to_nat ln))) as [Hlt|_]; [clear - Hlt Habove; lia|].
      assert (Hp : 2 ^ k = 2 * 2 ^ (k - 1)) by (rewrite <- Z.pow_succ_r by (clear - Hk; lia); f_equal; clear; lia).
      replace (Z.min k (16 - ln) - 1) with (Z.min (k - 1) (16 - (ln + 1))) by (clear; lia).
      replace (shl q 1) with (2 * (v / 2 ^ (Z.of_nat m + 1))) by (unfold shl; change (2 ^ 1) with 2; rewrite Eq, HM; clear; lia).
      replace (shl (next_code ls (Z.to_nat ln) + cnt ls ln) 1) with (next_code ls (Z.to_nat (ln + 1))).
      2:{ replace (Z.to_nat (ln + 1)) with (S (Z.to_nat ln)) by (clear - Hln; lia). cbn [next_code]. unfold shl. change (2 ^ 1) with 2.
          replace (bl_count ls (Z.to_nat ln)) with (cnt ls ln); [clear; lia|].
          unfold bl_count. destruct (Z.to_nat ln) as [|q'] eqn:Eq'; [clear - Hln Eq'; lia|]. rewrite <- Eq'. rewrite Z2Nat.id by (clear - Hln; lia). reflexivity. }
      replace (psum (h_count h) ln + cnt ls ln) with (psum (h_count h) (ln + 1))
        by (rewrite psum_succ by (auto; clear - Hln15; lia); rewrite Hcnt by exact Hln15; reflexivity).
      apply (IH fuel s (shr bitbuf 1) (Z.min (k - 1) (16 - (ln + 1))) (k - 1) avail (ln + 1)); auto.
      - clear - Eln HM. lia.
      - clear - Hln. lia.
      - clear - Hfuel. lia.
      - clear - Hk. lia.
      - unfold shr. change (2 ^ 1) with 2. clear - Hbb Hp. lia.
      - clear - Hmod Hk. replace (ln + 1 - 1) with (ln - 1 + 1) by lia. lia.
      - unfold shr. change (2 ^ 1) with 2. replace (Z.of_nat m + 1) with M by (clear - HM; lia). exact Erest. }
    destruct (Z.eq_dec k 0) as [Hk0|Hk0].
    + subst k. destruct fuel as [|fuel]; [lia|]. cbn [decode_loop].
      replace lft with 0 by lia. cbn [Z.eqb negb].
      destruct (Z.eqb_spec (MAXBITS + 1 - ln) 0) as [|_]; [unfold MAXBITS in *; lia|].
      rewrite bitsZ_0 in Ebs. cbn [app] in Ebs.
      destruct avail as [|b avail1]; [rewrite code_bits_succ in Ebs by lia; discriminate|].
      rewrite len_cons in La. pose proof (len_nonneg avail1).
      destruct (Z.eqb_spec (p_incnt s) (c_inlen c)) as [|_]; [lia|].
      unfold in_byte. rewrite Ein. cbn [app bind]. rewrite (u64_id (p_incnt s + 1)) by lia.
      apply bytes_cons in Hb. destruct Hb as [Hb0 Hb1]. unfold byte in Hb0.
      replace (if 8 <? MAXBITS + 1 - ln then 8 else MAXBITS + 1 - ln) with (Z.min 8 (16 - ln))
        by (unfold MAXBITS; destruct (Z.ltb_spec 8 (15 + 1 - ln)); lia).
      destruct (Hstep fuel (mkSt (p_out s) (p_outcnt s) (avail1 ++ tail) (p_incnt s + 1) (p_bitbuf s) (p_bitcnt s)) b 8 avail1)
        as (s' & E & R & O); cbn [p_out p_outcnt p_in p_incnt p_bitbuf p_bitcnt]; auto; try lia.
      exists s'. split; [exact E|]. split; [exact R|]. exact O.
    + subst lft. apply (Hstep fuel s bitbuf k avail); auto; lia.
Qed.

(* (b) decode() returns the symbol whose canonical code the unread bits start with *)
Theorem decode_spec s :
  inrep c s (code_of ls sym ++ rest) tail ->
  exists s', decode c h s = Ok (sym, s') /\ inrep c s' rest tail /\ sameout s s'.
Proof.
  intros (avail & Ein & Hb & La & Hi & Hm & Hbc & Hbb & Ebs).
  pose proof Hsym as [Hs1 Hs2]. fold l in Hs2.
  pose proof (code_val_fits ls sym Hno Hsym) as Hfit. fold l v in Hfit.
  unfold decode.
  destruct (decode_loop_spec (Z.to_nat (l - 1)) 40 s (p_bitbuf s) (p_bitcnt s) (p_bitcnt s) avail 1) as (s' & E & R & O);
    auto; try lia.
  - rewrite Z2Nat.id by lia. replace (l - 1 + 1) with l by lia. symmetry. exact Ebs.
  - rewrite Z2Nat.id in E by lia. replace (l - 1 + 1) with l in E by lia.
    rewrite (Z.div_small v (2 ^ l)) in E by lia. change (Z.to_nat 1) with 1%nat in E.
    change (next_code ls 1) with (2 * (0 + 0)) in E. rewrite psum_1 in E.
    exists s'. auto.
Qed.
End Decode.
