(* The reader of builds without zlib (sc_io_nonuncompress = zlib header checks + sc_puff + Adler-32
   check, C07/DecodeModel.v, C07/PuffModel.v) accepts EVERY stream that conforms to the stored format
   of RFC 1950 / RFC 1951 as specified by zlib_stored_stream (C06/StoredProofs.v), and returns the
   data.  Hence it inverts libsc's own writer sc_io_noncompress (C06/StoredModel.v).
   The data is unbounded; the only size hypothesis is that the stream is an object in memory
   (its length is below 2^64). *)
From Coq Require Import ZArith List Bool Lia.
From ScV Require Import Base.CInt C06.Res C06.ResProofs C06.StoredModel C06.AdlerProofs C06.StoredProofs
                        C07.PuffModel C07.PuffSafe C07.DecodeModel.
Import ListNotations.
Local Open Scope Z_scope.

(* ---- facts about single bytes, decided by running through 0..255 -------------------------------- *)
Lemma byte_all (P : Z -> bool) :
  forallb P (map Z.of_nat (seq 0 256)) = true -> forall x, byte x -> P x = true.
Proof.
  intros H x Hx. rewrite forallb_forall in H. apply H.
  replace x with (Z.of_nat (Z.to_nat x)) by (unfold byte in Hx; lia).
  apply in_map. apply in_seq. unfold byte in Hx. lia.
Qed.

(* the first bit of a byte (BFINAL) and the next two (BTYPE) as `bits` extracts them *)
Lemma hdr_bit_final h : byte h -> Z.land (Z.lor 0 (shl h 0)) (shl 1 1 - 1) = h mod 2.
Proof.
  intros H. apply Z.eqb_eq.
  apply (byte_all (fun h => Z.land (Z.lor 0 (shl h 0)) (shl 1 1 - 1) =? h mod 2)); [vm_compute; reflexivity|exact H].
Qed.

Lemma hdr_bit_type h : byte h -> Z.land (shr (Z.lor 0 (shl h 0)) 1) (shl 1 2 - 1) = (h / 2) mod 4.
Proof.
  intros H. apply Z.eqb_eq.
  apply (byte_all (fun h => Z.land (shr (Z.lor 0 (shl h 0)) 1) (shl 1 2 - 1) =? (h / 2) mod 4)); [vm_compute; reflexivity|exact H].
Qed.

(* the checks of the zlib header *)
Lemma cmf_check cmf : byte cmf -> cmf mod 16 = 8 -> cmf / 16 <= 7 -> Z.land cmf 143 = 8.
Proof.
  intros H H1 H2.
  assert (E : (negb ((cmf mod 16 =? 8) && (cmf / 16 <=? 7)) || (Z.land cmf 143 =? 8)) = true).
  { apply (byte_all (fun cmf => negb ((cmf mod 16 =? 8) && (cmf / 16 <=? 7)) || (Z.land cmf 143 =? 8))); [vm_compute; reflexivity|exact H]. }
  apply Z.eqb_eq in H1. apply Z.leb_le in H2. rewrite H1, H2 in E. cbn [andb negb orb] in E. now apply Z.eqb_eq.
Qed.

Lemma flg_check flg : byte flg -> (flg / 32) mod 2 = 0 -> Z.land flg 32 = 0.
Proof.
  intros H H1.
  assert (E : (negb ((flg / 32) mod 2 =? 0) || (Z.land flg 32 =? 0)) = true).
  { apply (byte_all (fun flg => negb ((flg / 32) mod 2 =? 0) || (Z.land flg 32 =? 0))); [vm_compute; reflexivity|exact H]. }
  apply Z.eqb_eq in H1. rewrite H1 in E. cbn [negb orb] in E. now apply Z.eqb_eq.
Qed.

Lemma fcheck_check cmf flg : byte cmf -> byte flg -> (cmf * 256 + flg) mod 31 = 0 ->
  (u32 (shl cmf 8) + flg) mod 31 = 0.
Proof.
  intros Hc Hf H. unfold byte in *. unfold shl. change (2 ^ 8) with 256.
  rewrite u32_id by (unfold M32; lia). exact H.
Qed.

(* LEN and NLEN of a stored block *)
Lemma len_lor lo hi : byte lo -> byte hi -> Z.lor lo (shl hi 8) = lo + 256 * hi.
Proof.
  intros H0 H1. unfold byte, shl in *. change (2 ^ 8) with 256.
  rewrite Z.lor_comm. rewrite (lor_disjoint_add (hi * 256) lo 8); change (2 ^ 8) with 256; lia.
Qed.

Lemma lnot_u32 ln : 0 <= ln < 65536 -> u32 (Z.lnot ln) = 4294967295 - ln.
Proof. intros H. unfold u32, wrapu, M32, Z.lnot. lia. Qed.

Lemma nlen_lo lo hi : byte lo -> byte hi -> Z.land (u32 (Z.lnot (lo + 256 * hi))) 255 = 255 - lo.
Proof.
  intros H0 H1. unfold byte in *. rewrite lnot_u32 by lia.
  change 255 with (2 ^ 8 - 1) at 1. rewrite land_ones_mod by lia. change (2 ^ 8) with 256. lia.
Qed.

Lemma nlen_hi lo hi : byte lo -> byte hi -> Z.land (shr (u32 (Z.lnot (lo + 256 * hi))) 8) 255 = 255 - hi.
Proof.
  intros H0 H1. unfold byte in *. rewrite lnot_u32 by lia. unfold shr. change (2 ^ 8) with 256.
  change 255 with (2 ^ 8 - 1) at 1. rewrite land_ones_mod by lia. change (2 ^ 8) with 256. lia.
Qed.

(* ---- lists ---------------------------------------------------------------------------------------- *)
Lemma firstn_len_app {A} (d r : list A) : firstn (Z.to_nat (len d)) (d ++ r) = d.
Proof.
  unfold len. rewrite Nat2Z.id. rewrite firstn_app, Nat.sub_diag, firstn_all. cbn [firstn]. apply app_nil_r.
Qed.

Lemma skipn_len_app {A} (d r : list A) : skipn (Z.to_nat (len d)) (d ++ r) = r.
Proof.
  unfold len. rewrite Nat2Z.id. rewrite skipn_app, Nat.sub_diag, skipn_all. reflexivity.
Qed.

(* ---- one stored block through sc_puff's block loop ------------------------------------------------ *)
(* the block header: `bits` loads the byte h, takes BFINAL, then BTYPE *)
Lemma bits_final c o oc h r ic : byte h -> ic <> c_inlen c ->
  bits c (mkSt o oc (h :: r) ic 0 0) 1 = Ok (h mod 2, mkSt o oc r (u64 (ic + 1)) (shr (Z.lor 0 (shl h 0)) 1) 7).
Proof.
  intros Hh Hne. unfold bits. cbn [bits_loop p_bitcnt p_incnt p_bitbuf].
  change (0 <? 1) with true. cbv iota.
  apply Z.eqb_neq in Hne. rewrite Hne.
  cbn [in_byte p_in p_out p_outcnt p_incnt p_bitbuf p_bitcnt bind set_bits].
  change (0 + 8 <? 1) with false. cbv iota. cbn [bind p_in p_out p_outcnt p_incnt p_bitbuf p_bitcnt set_bits].
  rewrite hdr_bit_final by exact Hh. reflexivity.
Qed.

Lemma bits_type c o oc r ic bb :
  bits c (mkSt o oc r ic bb 7) 2 = Ok (Z.land bb (shl 1 2 - 1), mkSt o oc r ic (shr bb 2) 5).
Proof.
  unfold bits. cbn [bits_loop p_bitcnt p_incnt p_bitbuf].
  change (7 <? 2) with false. cbv iota. cbn [bind p_in p_out p_outcnt p_incnt p_bitbuf p_bitcnt set_bits].
  reflexivity.
Qed.

(* the body of a stored block: LEN, NLEN, LEN literal bytes *)
Lemma stored_copy c o oc lo hi d rest ic bb bc :
  byte lo -> byte hi -> len d = lo + 256 * hi ->
  0 <= ic -> ic + 4 + len d <= c_inlen c -> c_inlen c < M64 ->
  0 <= oc -> oc + len d < M64 ->
  (c_nil c = false -> oc + len d <= c_outlen c /\ oc + len d <= c_outcap c) ->
  stored c (mkSt o oc ([lo; hi; 255 - lo; 255 - hi] ++ d ++ rest) ic bb bc) =
  Ok (mkSt (if c_nil c then o else rev d ++ o) (oc + len d) rest (ic + 4 + len d) 0 0).
Proof.
  intros Hlo Hhi Hlen Hic Hin Hmax Hoc Hout Hcap. pose proof (len_nonneg d) as Hd.
  unfold stored, set_bits. cbn [p_in p_out p_outcnt p_incnt p_bitbuf p_bitcnt app].
  rewrite (u64_id (ic + 4)) by (unfold M64 in *; lia).
  destruct (Z.ltb_spec (c_inlen c) (ic + 4)) as [|_]; [lia|].
  unfold in_byte. cbn [bind p_in p_out p_outcnt p_incnt p_bitbuf p_bitcnt].
  rewrite (u64_id (ic + 1)) by (unfold M64 in *; lia).
  rewrite (u64_id (ic + 1 + 1)) by (unfold M64 in *; lia).
  rewrite (u64_id (ic + 1 + 1 + 1)) by (unfold M64 in *; lia).
  rewrite (u64_id (ic + 1 + 1 + 1 + 1)) by (unfold M64 in *; lia).
  rewrite (len_lor lo hi Hlo Hhi). rewrite (nlen_lo lo hi Hlo Hhi), (nlen_hi lo hi Hlo Hhi).
  rewrite !Z.eqb_refl. cbn [negb]. rewrite <- Hlen.
  rewrite (u64_id (ic + 1 + 1 + 1 + 1 + len d)) by (unfold M64 in *; lia).
  destruct (Z.ltb_spec (c_inlen c) (ic + 1 + 1 + 1 + 1 + len d)) as [|_]; [lia|].
  rewrite (u64_id (oc + len d)) by (unfold M64 in *; lia).
  rewrite firstn_len_app, skipn_len_app.
  replace (ic + 1 + 1 + 1 + 1 + len d) with (ic + 4 + len d) by lia.
  destruct (c_nil c) eqn:Hnil; cbn [negb]; [reflexivity|].
  destruct (Hcap eq_refl) as [Hc1 Hc2].
  destruct (Z.ltb_spec (c_outlen c) (oc + len d)) as [|_]; [lia|].
  rewrite len_app. pose proof (len_nonneg rest).
  destruct (Z.ltb_spec (len d + len rest) (len d)) as [|_]; [lia|].
  destruct (Z.ltb_spec (c_outcap c) (oc + len d)) as [|_]; [lia|].
  cbn [orb]. rewrite rev_append_rev. reflexivity.
Qed.

(* one iteration of the block loop on a stored block with header byte h (bits 1-2 clear) *)
Lemma block_step_stored c o oc h lo hi d rest ic :
  byte h -> (h / 2) mod 4 = 0 -> byte lo -> byte hi -> len d = lo + 256 * hi ->
  0 <= ic -> ic + 5 + len d <= c_inlen c -> c_inlen c < M64 ->
  0 <= oc -> oc + len d < M64 ->
  (c_nil c = false -> oc + len d <= c_outlen c /\ oc + len d <= c_outcap c) ->
  block_step c (mkSt o oc ([h; lo; hi; 255 - lo; 255 - hi] ++ d ++ rest) ic 0 0) =
  Ok (negb (h mod 2 =? 0), mkSt (if c_nil c then o else rev d ++ o) (oc + len d) rest (ic + 5 + len d) 0 0).
Proof.
  intros Hh Hty Hlo Hhi Hlen Hic Hin Hmax Hoc Hout Hcap. pose proof (len_nonneg d) as Hd.
  unfold block_step. cbn [app].
  rewrite bits_final by (auto; lia). cbn [bind].
  rewrite bits_type. cbn [bind]. rewrite (hdr_bit_type h Hh), Hty. cbn [Z.eqb].
  rewrite (u64_id (ic + 1)) by (unfold M64 in *; lia).
  change (lo :: hi :: 255 - lo :: 255 - hi :: d ++ rest) with ([lo; hi; 255 - lo; 255 - hi] ++ d ++ rest).
  rewrite stored_copy; auto; try lia.
  cbn [bind]. replace (ic + 1 + 4 + len d) with (ic + 5 + len d) by lia. reflexivity.
Qed.

(* ---- the block loop on a sequence of stored blocks ------------------------------------------------ *)
Lemma stored_blocks_len blocks d : stored_blocks blocks d -> len d + 5 <= len blocks.
Proof.
  induction 1 as [h lo hi d Hh Hm Hlo Hhi Hl | h lo hi d rest drest Hh Hm Hlo Hhi Hl Hr IH].
  - rewrite len_app. unfold len at 2. cbn [List.length]. lia.
  - rewrite !len_app. unfold len at 3. cbn [List.length]. pose proof (len_nonneg drest). lia.
Qed.

Lemma stored_blocks_bytes blocks d : stored_blocks blocks d -> bytes blocks -> bytes d.
Proof.
  induction 1 as [h lo hi d Hh Hm Hlo Hhi Hl | h lo hi d rest drest Hh Hm Hlo Hhi Hl Hr IH]; intros Hb.
  - apply bytes_app in Hb. tauto.
  - apply bytes_app in Hb. destruct Hb as [_ Hb]. apply bytes_app in Hb. destruct Hb as [Hb1 Hb2].
    apply bytes_app; split; [exact Hb1|apply IH; exact Hb2].
Qed.

Lemma loop_stored_blocks c blocks d : stored_blocks blocks d -> c_inlen c < M64 ->
  forall o oc ic tail,
  0 <= ic -> ic + len blocks <= c_inlen c ->
  0 <= oc -> oc + len d < M64 ->
  (c_nil c = false -> oc + len d <= c_outlen c /\ oc + len d <= c_outcap c) ->
  exists n, (0 < n)%nat /\ 5 * Z.of_nat n <= len blocks /\
    loop_nat n (fun s => lift_step (block_step c s) (fun s => s)) (mkSt o oc (blocks ++ tail) ic 0 0) =
    inr (Ok (mkSt (if c_nil c then o else rev d ++ o) (oc + len d) tail (ic + len blocks) 0 0)).
Proof.
  intros Hsb Hmax.
  induction Hsb as [h lo hi d Hh Hm Hlo Hhi Hl | h lo hi d rest drest Hh Hm Hlo Hhi Hl Hr IH];
    intros o oc ic tail Hic Hin Hoc Hout Hcap.
  - (* the final block *)
    pose proof (len_nonneg d) as Hd.
    rewrite len_app in *. unfold len in Hin at 1. cbn [List.length] in Hin.
    exists 1%nat. split; [lia|]. split; [unfold len at 1; cbn [List.length]; lia|].
    cbn [loop_nat]. rewrite <- app_assoc.
    rewrite block_step_stored; auto; try lia.
    replace (h mod 2 =? 0) with false by (symmetry; apply Z.eqb_neq; lia).
    cbn [negb lift_step]. change (len [h; lo; hi; 255 - lo; 255 - hi]) with 5.
    do 3 f_equal. lia.
  - (* a block followed by more *)
    pose proof (len_nonneg d) as Hd. pose proof (len_nonneg drest) as Hdr. pose proof (len_nonneg rest) as Hre.
    rewrite !len_app in *. unfold len in Hin at 1. cbn [List.length] in Hin.
    destruct (IH (if c_nil c then o else rev d ++ o) (oc + len d) (ic + 5 + len d) tail) as (n & Hn & Hn5 & E); try lia.
    exists (S n). split; [lia|]. split; [unfold len at 1; cbn [List.length]; lia|].
    cbn [loop_nat]. rewrite <- !app_assoc.
    rewrite block_step_stored; auto; try lia.
    replace (h mod 2 =? 0) with true by (symmetry; apply Z.eqb_eq; lia).
    cbn [negb lift_step]. rewrite E. change (len [h; lo; hi; 255 - lo; 255 - hi]) with 5.
    do 2 f_equal. f_equal; [|lia|lia].
    destruct (c_nil c); [reflexivity|]. rewrite rev_app_distr, app_assoc. reflexivity.
Qed.

(* ---- sc_puff decodes any RFC 1951 sequence of stored blocks, whatever follows it in memory --------- *)
(* In scanning mode (dest == NIL) no bytes are produced, only counted. *)
Theorem puff_stored_blocks blocks d tail dnil cap :
  stored_blocks blocks d -> len blocks < M64 ->
  (dnil = false -> len d <= cap) ->
  puff dnil cap (len d) (blocks ++ tail) (len blocks) = Ok (0, len d, len blocks, if dnil then [] else d).
Proof.
  intros Hsb Hmax Hcap. pose proof (stored_blocks_len blocks d Hsb) as Hlen. pose proof (len_nonneg d) as Hd.
  unfold puff.
  set (c := mkCfg dnil (len d) cap (len blocks)).
  destruct (loop_stored_blocks c blocks d Hsb) with (o := ([] : list Z)) (oc := 0) (ic := 0) (tail := tail)
    as (n & Hn & Hn5 & E); cbn [c c_inlen c_nil c_outlen c_outcap]; try lia.
  rewrite (run_loop_eq _ _ _ n _ E); [|lia|exact Hn].
  cbn [c c_nil p_out p_outcnt p_incnt]. rewrite !Z.add_0_l.
  destruct dnil; [reflexivity|].
  rewrite rev_append_rev, !app_nil_r, rev_involutive. reflexivity.
Qed.

(* ---- the reader accepts every conforming stored stream --------------------------------------------- *)
(* dest == NIL is passed by libsc only when the declared size is 0 *)
Theorem nonuncompress_accepts_rfc s d cap dnil :
  zlib_stored_stream s d -> bytes s -> len s < M64 ->
  (dnil = false -> len d <= cap) -> (dnil = true -> d = []) ->
  nonuncompress s (len d) cap dnil = Ok d.
Proof.
  intros (cmf & flg & blocks & Es & Hcm & Hci & Hfc & Hfd & Hsb) Hb Hmax Hcap Hnil.
  subst s.
  apply bytes_app in Hb. destruct Hb as [Hh Hb].
  apply bytes_cons in Hh. destruct Hh as [Hcmf Hh]. apply bytes_cons in Hh. destruct Hh as [Hflg _].
  apply bytes_app in Hb. destruct Hb as [Hbl _].
  pose proof (stored_blocks_len blocks d Hsb) as Hlen. pose proof (len_nonneg d) as Hd.
  pose proof (stored_blocks_bytes blocks d Hsb Hbl) as Hdb.
  rewrite !len_app, be32_len in Hmax. change (len [cmf; flg]) with 2 in Hmax.
  unfold nonuncompress. cbv zeta.
  rewrite !len_app, be32_len. change (len [cmf; flg]) with 2.
  destruct (Z.ltb_spec (2 + (len blocks + 4)) 2) as [|_]; [lia|].
  rewrite rd_ok by (rewrite !len_app, be32_len; change (len [cmf; flg]) with 2; lia).
  rewrite rd_ok by (rewrite !len_app, be32_len; change (len [cmf; flg]) with 2; lia).
  change (Z.to_nat 0) with 0%nat. change (Z.to_nat 1) with 1%nat.
  cbn [app nth skipn bind].
  rewrite (cmf_check cmf Hcmf Hcm Hci). rewrite (fcheck_check cmf flg Hcmf Hflg Hfc). rewrite (flg_check flg Hflg Hfd).
  cbn [Z.eqb Pos.eqb negb].
  destruct (Z.ltb_spec (2 + (len blocks + 4) - 2) 5) as [|_]; [lia|].
  replace (2 + (len blocks + 4) - 2 - 4) with (len blocks) by lia.
  rewrite (u64_id (len blocks)) by (unfold M64 in *; lia).
  rewrite puff_stored_blocks; [|exact Hsb|unfold M64 in *; lia|exact Hcap].
  cbn [bind Z.eqb negb]. rewrite !Z.eqb_refl. cbn [negb orb].
  assert (Eo : (if dnil then [] else d) = d) by (destruct dnil; [symmetry; now apply Hnil|reflexivity]).
  rewrite Eo.
  rewrite slice_ok by (rewrite ?len_app, ?be32_len; lia). cbn [bind].
  rewrite skipn_len_app. change (firstn (Z.to_nat 4) (be32 (adler32 d))) with (be32 (adler32 d)).
  rewrite adler_update_spec by (auto; unfold adler_init, M32; lia).
  rewrite be4_be32 by apply adler32_from_range.
  change (adler32_from adler_init d) with (adler32 d).
  destruct (list_eq_dec Z.eq_dec (be32 (adler32 d)) (be32 (adler32 d))) as [_|Hne]; [reflexivity|].
  exfalso; apply Hne; reflexivity.
Qed.

(* ---- round trip of libsc's own writer and reader --------------------------------------------------- *)
Theorem stored_roundtrip d cap dnil : bytes d -> len d < M64 / 2 ->
  (dnil = false -> len d <= cap) -> (dnil = true -> d = []) ->
  nonuncompress (noncompress d) (len d) cap dnil = Ok d.
Proof.
  intros Hd Hmax Hcap Hnil.
  apply nonuncompress_accepts_rfc; auto.
  - now apply noncompress_is_zlib_stored.
  - now apply noncompress_bytes.
  - destruct (noncompress_spec d Hd) as (bl & E & _ & L & _). rewrite E.
    rewrite !len_app, L, be32_len. change (len [120; 1]) with 2.
    pose proof (len_nonneg d) as Hn. unfold nblocks, M64 in *.
    change (18446744073709551616 / 2) with 9223372036854775808 in Hmax.
    assert (Hq : 0 <= (len d + 65530) / 65531 <= len d + 65530) by lia. lia.
Qed.

(* the sizes of objects in memory used elsewhere (BIG = 2^62, PuffSafe.v) are covered *)
Lemma BIG_M64 : BIG < M64 / 2.  Proof. reflexivity. Qed.
