(* RFC 1951 (DEFLATE) and RFC 1950 (zlib wrapper) as a declarative specification, written from the
   RFCs and independent of sc_puff.c / zlib:  which bit strings encode which byte strings.
   Definitions only (the facts about them are in DeflateCanon.v; the theorem that the model of
   sc_puff.c decodes every conforming stream is in DeflateCorrect.v).

   Bit order (RFC 1951, 3.1.1): the bits of a byte are taken from the least significant bit on;
   "data elements" (header fields, extra bits) are packed starting with their least significant
   bit; Huffman codes are packed starting with their MOST significant bit. *)
From Coq Require Import ZArith List Bool Lia.
From ScV Require Import Base.CInt C06.Res C06.AdlerProofs C06.StoredProofs.
Import ListNotations.
Local Open Scope Z_scope.

(* ---- 3.1.1 bits ------------------------------------------------------------------------------------ *)
(* the n low bits of v, least significant first *)
Fixpoint bits_n (n : nat) (v : Z) : list bool :=
  match n with
  | O => []
  | S k => Z.odd v :: bits_n k (v / 2)
  end.
Definition bitsZ (n v : Z) : list bool := bits_n (Z.to_nat n) v.
Definition byte_bits (x : Z) : list bool := bits_n 8 x.
Definition bytes_bits (l : list Z) : list bool := flat_map byte_bits l.
(* a Huffman code of n bits with numerical value v: most significant bit first *)
Definition code_bits (n v : Z) : list bool := rev (bitsZ n v).

(* ---- 3.2.2 the canonical Huffman code of a vector of code lengths ------------------------------------ *)
(* number of symbols with code length l *)
Definition cnt (ls : list Z) (l : Z) : Z := Z.of_nat (count_occ Z.eq_dec ls l).
(* "bl_count[0] = 0" *)
Definition bl_count (ls : list Z) (b : nat) : Z :=
  match b with O => 0 | S _ => cnt ls (Z.of_nat b) end.
(* "code = (code + bl_count[bits-1]) << 1; next_code[bits] = code" *)
Fixpoint next_code (ls : list Z) (b : nat) : Z :=
  match b with
  | O => 0
  | S k => 2 * (next_code ls k + bl_count ls k)
  end.
(* a symbol takes part in the code iff its length is not zero *)
Definition has_code (ls : list Z) (sym : Z) : Prop :=
  0 <= sym < len ls /\ 1 <= nth (Z.to_nat sym) ls 0 <= 15.
(* "codes of the same length are assigned consecutive values in the order of the symbols" *)
Definition code_val (ls : list Z) (sym : Z) : Z :=
  let l := nth (Z.to_nat sym) ls 0 in
  next_code ls (Z.to_nat l) + cnt (firstn (Z.to_nat sym) ls) l.
Definition code_of (ls : list Z) (sym : Z) : list bool :=
  code_bits (nth (Z.to_nat sym) ls 0) (code_val ls sym).

(* Kraft sum in units of 2^-15: a prefix code exists iff it is at most 2^15 *)
Definition kraft (ls : list Z) : Z :=
  fold_right (fun l a => a + (if (1 <=? l) && (l <=? 15) then 2 ^ (15 - l) else 0)) 0 ls.
Definition lengths_valid (ls : list Z) : Prop := Forall (fun l => 0 <= l <= 15) ls.
Definition not_over (ls : list Z) : Prop := kraft ls <= 2 ^ 15.     (* not over-subscribed *)
Definition complete (ls : list Z) : Prop := kraft ls = 2 ^ 15.
(* The codes a decoder has to accept: complete ones, and - RFC 1951, 3.2.7: "If only one distance
   code is used, it is encoded using one bit, not zero bits; in this case there is a single code
   length of one, with one unused code.  One distance code of zero bits means that there are no
   distance codes used at all" - the incomplete ones all of whose lengths are 0 or 1.
   (Other incomplete codes are not forbidden by the RFC's text; zlib's inflate and sc_puff both
   refuse them, zlib's deflate never emits them - see docs/C06.md.) *)
Definition code_ok (ls : list Z) : Prop :=
  lengths_valid ls /\ (complete ls \/ (kraft ls < 2 ^ 15 /\ Forall (fun l => l = 0 \/ l = 1) ls)).

(* ---- 3.2.5 length and distance symbols ---------------------------------------------------------------- *)
(* length symbol 257 + i, i = 0..28: number of extra bits and base length *)
Definition len_extra (i : Z) : Z := if (i <? 8) || (i =? 28) then 0 else i / 4 - 1.
Definition len_base (i : Z) : Z :=
  if i <? 8 then 3 + i else if i =? 28 then 258 else 3 + (4 + i mod 4) * 2 ^ (i / 4 - 1).
(* distance symbol j = 0..29 *)
Definition dist_extra (j : Z) : Z := if j <? 4 then 0 else j / 2 - 1.
Definition dist_base (j : Z) : Z := if j <? 4 then 1 + j else 1 + (2 + j mod 2) * 2 ^ (j / 2 - 1).

(* the tables as printed in the RFC *)
Definition rfc_len_table : list (Z * Z) :=    (* (extra bits, first length) for codes 257 .. 285 *)
  [(0,3);(0,4);(0,5);(0,6);(0,7);(0,8);(0,9);(0,10);(1,11);(1,13);(1,15);(1,17);(2,19);(2,23);(2,27);(2,31);
   (3,35);(3,43);(3,51);(3,59);(4,67);(4,83);(4,99);(4,115);(5,131);(5,163);(5,195);(5,227);(0,258)].
Definition rfc_dist_table : list (Z * Z) :=   (* (extra bits, first distance) for codes 0 .. 29 *)
  [(0,1);(0,2);(0,3);(0,4);(1,5);(1,7);(2,9);(2,13);(3,17);(3,25);(4,33);(4,49);(5,65);(5,97);(6,129);(6,193);
   (7,257);(7,385);(8,513);(8,769);(9,1025);(9,1537);(10,2049);(10,3073);(11,4097);(11,6145);(12,8193);
   (12,12289);(13,16385);(13,24577)].

(* "move backward distance bytes in the output stream, and copy length bytes from this position to
   the output stream" - one byte at a time, so that the copy may overlap its own output *)
Fixpoint lz_copy (n d : nat) (o : list Z) : list Z :=
  match n with
  | O => o
  | S k => lz_copy k d (o ++ [nth (length o - d) o 0])
  end.

(* ---- the compressed data of one Huffman block --------------------------------------------------------- *)
(* symbols lit dist o bs o': with the output o produced so far (by all earlier blocks and this one),
   the bits bs are the symbols of the rest of a block, up to and including end-of-block, and the
   output after them is o' *)
Section Symbols.
Variables lit dist : list Z.
Inductive symbols : list Z -> list bool -> list Z -> Prop :=
| sy_end o :
    has_code lit 256 -> symbols o (code_of lit 256) o
| sy_lit o x bs o' :
    0 <= x < 256 -> has_code lit x ->
    symbols (o ++ [x]) bs o' ->
    symbols o (code_of lit x ++ bs) o'
| sy_match o i e j f bs o' :
    0 <= i < 29 -> has_code lit (257 + i) -> 0 <= e < 2 ^ len_extra i ->
    0 <= j < 30 -> has_code dist j -> 0 <= f < 2 ^ dist_extra j ->
    dist_base j + f <= len o ->           (* "a distance cannot refer past the beginning of the output" *)
    symbols (lz_copy (Z.to_nat (len_base i + e)) (Z.to_nat (dist_base j + f)) o) bs o' ->
    symbols o (code_of lit (257 + i) ++ bitsZ (len_extra i) e ++
               code_of dist j ++ bitsZ (dist_extra j) f ++ bs) o'.
End Symbols.

(* ---- 3.2.6 fixed Huffman codes -------------------------------------------------------------------------- *)
Definition fixed_lit : list Z := repeat 8 144 ++ repeat 9 112 ++ repeat 7 24 ++ repeat 8 8.   (* 0..287 *)
Definition fixed_dist : list Z := repeat 5 32.       (* "distance codes 0-31 are represented by 5-bit codes" *)

(* ---- 3.2.7 dynamic Huffman codes ------------------------------------------------------------------------ *)
Definition cl_order : list Z := [16; 17; 18; 0; 8; 7; 9; 6; 10; 5; 11; 4; 12; 3; 13; 2; 14; 1; 15].
(* the code lengths of the code length alphabet 0..18 from the HCLEN + 4 values in the stream *)
Definition cl_of (vs : list Z) : list Z :=
  fold_left (fun acc ov => upd acc (fst ov) (snd ov)) (combine cl_order vs) (repeat 0 19).

(* the HLIT + 257 + HDIST + 1 code lengths, run-length encoded with the code length code cl:
   cl_lengths cl total acc bs r: acc are the lengths decoded so far, bs encodes the remaining ones,
   r is the complete sequence *)
Section CodeLengths.
Variables (cl : list Z) (total : Z).
Inductive cl_lengths : list Z -> list bool -> list Z -> Prop :=
| cl_done acc : len acc = total -> cl_lengths acc [] acc
| cl_len acc v bs r :               (* 0 - 15: a code length *)
    len acc < total -> 0 <= v <= 15 -> has_code cl v ->
    cl_lengths (acc ++ [v]) bs r ->
    cl_lengths acc (code_of cl v ++ bs) r
| cl_rep acc e bs r :               (* 16: copy the previous code length 3 - 6 times, 2 extra bits *)
    len acc < total -> acc <> [] -> has_code cl 16 -> 0 <= e < 4 -> len acc + (3 + e) <= total ->
    cl_lengths (acc ++ repeat (last acc 0) (Z.to_nat (3 + e))) bs r ->
    cl_lengths acc (code_of cl 16 ++ bitsZ 2 e ++ bs) r
| cl_z3 acc e bs r :                (* 17: repeat a code length of 0 for 3 - 10 times, 3 extra bits *)
    len acc < total -> has_code cl 17 -> 0 <= e < 8 -> len acc + (3 + e) <= total ->
    cl_lengths (acc ++ repeat 0 (Z.to_nat (3 + e))) bs r ->
    cl_lengths acc (code_of cl 17 ++ bitsZ 3 e ++ bs) r
| cl_z11 acc e bs r :               (* 18: repeat a code length of 0 for 11 - 138 times, 7 extra bits *)
    len acc < total -> has_code cl 18 -> 0 <= e < 128 -> len acc + (11 + e) <= total ->
    cl_lengths (acc ++ repeat 0 (Z.to_nat (11 + e))) bs r ->
    cl_lengths acc (code_of cl 18 ++ bitsZ 7 e ++ bs) r.
End CodeLengths.

(* ---- 3.2.3 blocks ------------------------------------------------------------------------------------------ *)
(* block k o fin bs o': bs is one block with BFINAL = fin that starts k bits behind a byte boundary of the
   stream (only k mod 8 matters: a stored block skips to the next byte boundary), o the output before the
   block, o' behind it.  BTYPE is a 2-bit data element: 00 stored, 01 fixed = bits [1;0], 10 dynamic = [0;1]. *)
Inductive block (k : Z) (o : list Z) : bool -> list bool -> list Z -> Prop :=
| bk_stored fin pad lo hi d :       (* 3.2.4; the skipped bits are arbitrary *)
    (k + 3 + len pad) mod 8 = 0 -> len pad < 8 ->
    byte lo -> byte hi -> len d = lo + 256 * hi -> bytes d ->
    block k o fin (fin :: false :: false :: pad ++ bytes_bits [lo; hi; 255 - lo; 255 - hi] ++ bytes_bits d) (o ++ d)
| bk_fixed fin bs o' :
    symbols fixed_lit fixed_dist o bs o' ->
    block k o fin (fin :: true :: false :: bs) o'
| bk_dynamic fin hlit hdist hclen vs lens bs1 bs2 o' :
    0 <= hlit <= 29 ->                (* HLIT + 257 = 257 .. 286 literal/length codes *)
    0 <= hdist <= 29 ->               (* HDIST + 1 = 1 .. 30 distance codes (30, 31 "will never actually occur") *)
    0 <= hclen <= 15 ->               (* HCLEN + 4 = 4 .. 19 code length codes *)
    len vs = hclen + 4 -> Forall (fun v => 0 <= v < 8) vs ->
    complete (cl_of vs) ->
    cl_lengths (cl_of vs) (hlit + 257 + (hdist + 1)) [] bs1 lens ->
    code_ok (firstn (Z.to_nat (hlit + 257)) lens) ->
    code_ok (skipn (Z.to_nat (hlit + 257)) lens) ->
    symbols (firstn (Z.to_nat (hlit + 257)) lens) (skipn (Z.to_nat (hlit + 257)) lens) o bs2 o' ->
    block k o fin (fin :: false :: true :: bitsZ 5 hlit ++ bitsZ 5 hdist ++ bitsZ 4 hclen ++
                   flat_map (bitsZ 3) vs ++ bs1 ++ bs2) o'.

(* a sequence of blocks, the last one (and only the last one) with BFINAL = 1 *)
Inductive blocks : Z -> list Z -> list bool -> list Z -> Prop :=
| bs_last k o bs o' : block k o true bs o' -> blocks k o bs o'
| bs_more k o bs1 o1 bs2 o' :
    block k o false bs1 o1 -> blocks (k + len bs1) o1 bs2 o' -> blocks k o (bs1 ++ bs2) o'.

(* the bit string bs is a deflate stream for the data d *)
Definition deflate_bits (bs : list bool) (d : list Z) : Prop := blocks 0 [] bs d.
(* the byte string s is a deflate stream for d: its bits, with fewer than 8 unused bits in the last byte *)
Definition deflate_stream (s : list Z) (d : list Z) : Prop :=
  exists bs pad, bytes_bits s = bs ++ pad /\ len pad < 8 /\ deflate_bits bs d.

(* ---- RFC 1950 ------------------------------------------------------------------------------------------------ *)
(* CMF (CM = 8 in the low nibble, CINFO <= 7 in the high one), FLG with (CMF * 256 + FLG) mod 31 = 0 and
   FDICT (bit 5) clear, the deflate data, ADLER32 of the uncompressed data big-endian *)
Definition zlib_stream (z d : list Z) : Prop :=
  exists cmf flg body,
    z = [cmf; flg] ++ body ++ be32 (adler32 d) /\
    cmf mod 16 = 8 /\ cmf / 16 <= 7 /\ (cmf * 256 + flg) mod 31 = 0 /\ (flg / 32) mod 2 = 0 /\
    deflate_stream body d.
