(* A fact about the deflate format itself, from the specification DeflateSpec.v: a deflate stream of n bytes
   encodes at most 1032 n bytes (a <length, distance> pair yields at most 258 bytes and takes at least two bits).
   This is the constant of the guard `size / 1032 > ocnt` of sc_io_decode (commit 5c6a588); with it the
   configuration independence theorem needs no assumption on the compression ratio. *)
From Coq Require Import ZArith List Bool Lia.
From ScV Require Import Base.CInt Gen.Codec C06.Res C06.ResProofs C06.StoredModel C06.AdlerProofs C06.StoredProofs
                        C07.PuffModel C07.DecodeModel C06.ArmorModel C06.RoundTrip
                        C06.DeflateSpec C06.DeflateCanon C06.DeflateCodes C06.DeflateCorrect.
Import ListNotations.
Local Open Scope Z_scope.

Lemma match_len_max i e : 0 <= i < 29 -> 0 <= e < 2 ^ len_extra i -> len_base i + e <= 258.
Proof.
  intros Hi He.
  pose proof (range_all (fun i => len_base i + 2 ^ len_extra i - 1 <=? 258) 29 ltac:(vm_compute; reflexivity) i Hi) as E.
  cbv beta in E. apply Z.leb_le in E. lia.
Qed.

Lemma len_bytes_bits l : len (bytes_bits l) = 8 * len l.
Proof. unfold len at 1. apply bytes_bits_length. Qed.

Lemma symbols_expand lit dist o bs o' : symbols lit dist o bs o' -> len o' <= len o + 129 * len bs.
Proof.
  induction 1 as [o H|o x bs o' Hx Hc Hs IH|o i e j f bs o' Hi Hc He Hj Hd Hf Hdist Hs IH].
  - pose proof (len_nonneg (code_of lit 256)). lia.
  - rewrite len_app in IH. change (len [x]) with 1 in IH. rewrite len_app. pose proof (has_code_len lit x Hc).
    pose proof (len_nonneg bs). lia.
  - rewrite lz_copy_len in IH. pose proof (match_len_max i e Hi He).
    destruct (len_tables i Hi) as (_ & _ & _ & T4). rewrite Z2Nat.id in IH by lia.
    rewrite !len_app. pose proof (has_code_len lit (257 + i) Hc). pose proof (has_code_len dist j Hd).
    pose proof (len_nonneg (bitsZ (len_extra i) e)). pose proof (len_nonneg (bitsZ (dist_extra j) f)). lia.
Qed.

Lemma block_expand k o fin bs o' : block k o fin bs o' -> len o' <= len o + 129 * len bs.
Proof.
  destruct 1 as [fin pad lo hi d Hal Hp Hlo Hhi Hl Hd | fin bs o' Hs | fin hlit hdist hclen vs lens bs1 bs2 o' H1 H2 H3 H4 H5 H6 H7 H8 H9 Hs].
  - rewrite !len_cons, !len_app, !len_bytes_bits. pose proof (len_nonneg pad).
    pose proof (len_nonneg [lo; hi; 255 - lo; 255 - hi]). pose proof (len_nonneg d). lia.
  - pose proof (symbols_expand _ _ _ _ _ Hs). rewrite !len_cons. lia.
  - pose proof (symbols_expand _ _ _ _ _ Hs). rewrite !len_cons, !len_app.
    pose proof (len_nonneg (bitsZ 5 hlit)). pose proof (len_nonneg (bitsZ 5 hdist)). pose proof (len_nonneg (bitsZ 4 hclen)).
    pose proof (len_nonneg (flat_map (bitsZ 3) vs)). pose proof (len_nonneg bs1). lia.
Qed.

Lemma blocks_expand k o bs o' : blocks k o bs o' -> len o' <= len o + 129 * len bs.
Proof.
  induction 1 as [k o bs o' Hb|k o bs1 o1 bs2 o' Hb Hr IH].
  - now apply (block_expand k o true).
  - pose proof (block_expand _ _ _ _ _ Hb). rewrite len_app. lia.
Qed.

Theorem deflate_expansion s d : deflate_stream s d -> len d <= 1032 * len s.
Proof.
  intros (bs & pad & Ebits & Hpad & Hbl). pose proof (blocks_expand _ _ _ _ Hbl) as H. change (len (@nil Z)) with 0 in H.
  apply (f_equal (@len bool)) in Ebits. rewrite len_bytes_bits, len_app in Ebits.
  pose proof (len_nonneg pad). lia.
Qed.

Section ZlibConforms.
  Variable deflate : Z -> list Z -> list Z.
  Hypothesis deflate_bytes : forall l d, bytes d -> bytes (deflate l d).
  Hypothesis deflate_conforms : forall l d, bytes d -> zlib_stream (deflate l d) d.

  (* configuration independence without any assumption on the compression ratio *)
  Theorem cross_decode_zlib_to_nozlib_all lvl lb d out maxsz :
    bytes d -> 9 + len (deflate lvl d) < M64 / 4 -> len d < M64 / 2 ->
    0 < o_esz out -> (len d) mod (o_esz out) = 0 ->
    (maxsz <= 0 \/ len d <= maxsz) ->
    (o_owner out = false -> len d <= o_cnt out * o_esz out < M64) ->
    sc_decode (sc_encode_with (deflate lvl) lb d) out maxsz = Ok (len d / o_esz out, d).
  Proof.
    intros Hd Hc Hn. apply (cross_decode_zlib_to_nozlib deflate deflate_bytes deflate_conforms); auto.
    destruct (deflate_conforms lvl d Hd) as (cmf & flg & body & Es & _ & _ & _ & _ & Hds).
    pose proof (deflate_expansion body d Hds) as He. rewrite Es, !len_app, be32_len. change (len [cmf; flg]) with 2.
    pose proof (len_nonneg body).
    assert (len d / 1032 <= len body) by (apply Z.div_le_upper_bound; lia). lia.
  Qed.
End ZlibConforms.
