(* sc_puff against RFC 1951, stages (c) and (d): codes() - the loop over the literal/length/distance symbols of a
   Huffman block with their extra bits and the (possibly overlapping) copy - against `symbols` of DeflateSpec.v,
   the extra-bits tables of sc_puff.c against the RFC's, and fixed() against the fixed code of RFC 1951 3.2.6. *)
From Coq Require Import ZArith List Bool Lia.
From ScV Require Import Base.CInt C06.Res C06.ResProofs C07.PuffModel C07.PuffSafe C07.PuffHuffman
                        C06.DeflateSpec C06.DeflateCanon C06.DeflateBits C06.DeflateDecode C06.DeflateConstruct.
Import ListNotations.
Local Open Scope Z_scope.

(* ---- facts decided by running through a range ------------------------------------------------------------- *)
Lemma range_all (P : Z -> bool) (n : nat) :
  forallb P (map Z.of_nat (seq 0 n)) = true -> forall x, 0 <= x < Z.of_nat n -> P x = true.
Proof.
  intros H x Hx. rewrite forallb_forall in H. apply H.
  replace x with (Z.of_nat (Z.to_nat x)) by lia. apply in_map. apply in_seq. lia.
Qed.

(* the tables lens/lext/dists/dext of sc_puff.c are the RFC's (DeflateSpec: by formula, and as printed) *)
Lemma len_tables i : 0 <= i < 29 ->
  nth (Z.to_nat i) lens 0 = len_base i /\ nth (Z.to_nat i) lext 0 = len_extra i /\
  0 <= len_extra i <= 5 /\ 3 <= len_base i <= 258.
Proof.
  intros H.
  pose proof (range_all (fun i => (nth (Z.to_nat i) lens 0 =? len_base i) && (nth (Z.to_nat i) lext 0 =? len_extra i) &&
                                  (0 <=? len_extra i) && (len_extra i <=? 5) && (3 <=? len_base i) && (len_base i <=? 258)) 29
                        ltac:(vm_compute; reflexivity) i H) as E.
  cbv beta in E. rewrite !andb_true_iff in E. destruct E as (((((E1 & E2) & E3) & E4) & E5) & E6).
  apply Z.eqb_eq in E1, E2. apply Z.leb_le in E3, E4, E5, E6. lia.
Qed.

Lemma dist_tables j : 0 <= j < 30 ->
  nth (Z.to_nat j) dists 0 = dist_base j /\ nth (Z.to_nat j) dext 0 = dist_extra j /\
  0 <= dist_extra j <= 13 /\ 1 <= dist_base j <= 24577.
Proof.
  intros H.
  pose proof (range_all (fun i => (nth (Z.to_nat i) dists 0 =? dist_base i) && (nth (Z.to_nat i) dext 0 =? dist_extra i) &&
                                  (0 <=? dist_extra i) && (dist_extra i <=? 13) && (1 <=? dist_base i) && (dist_base i <=? 24577)) 30
                        ltac:(vm_compute; reflexivity) j H) as E.
  cbv beta in E. rewrite !andb_true_iff in E. destruct E as (((((E1 & E2) & E3) & E4) & E5) & E6).
  apply Z.eqb_eq in E1, E2. apply Z.leb_le in E3, E4, E5, E6. lia.
Qed.

Lemma tables_are_rfc :
  combine lext lens = rfc_len_table /\ combine dext dists = rfc_dist_table /\
  map (fun i => (len_extra i, len_base i)) (map Z.of_nat (seq 0 29)) = rfc_len_table /\
  map (fun j => (dist_extra j, dist_base j)) (map Z.of_nat (seq 0 30)) = rfc_dist_table.
Proof. repeat split; vm_compute; reflexivity. Qed.

(* ---- the output side ------------------------------------------------------------------------------------------ *)
(* the output produced so far is o (sc_puff keeps only its length when dest == NIL) *)
Definition outrep (c : pcfg) (s : pstate) (o : list Z) : Prop :=
  p_outcnt s = len o /\ p_out s = (if c_nil c then [] else rev o) /\ bytes o.

Definition samein (s s' : pstate) : Prop :=
  p_in s' = p_in s /\ p_incnt s' = p_incnt s /\ p_bitbuf s' = p_bitbuf s /\ p_bitcnt s' = p_bitcnt s.

Lemma inrep_samein c s s' bs tail : samein s s' -> inrep c s bs tail -> inrep c s' bs tail.
Proof.
  intros (A & B & C & D) (avail & H). exists avail. rewrite A, B, C, D. exact H.
Qed.

Lemma outrep_sameout c s s' o : sameout s s' -> outrep c s o -> outrep c s' o.
Proof. intros [A B] (C & D & E). unfold outrep. rewrite A, B. auto. Qed.

Lemma lz_copy_len k d o : len (lz_copy k d o) = len o + Z.of_nat k.
Proof.
  revert o; induction k as [|k IH]; intros o; cbn [lz_copy]; [lia|].
  rewrite IH, len_app. change (len [nth (length o - d) o 0]) with 1. lia.
Qed.

Lemma lz_copy_bytes k d o : bytes o -> bytes (lz_copy k d o).
Proof.
  revert o; induction k as [|k IH]; intros o Ho; cbn [lz_copy]; [exact Ho|].
  apply IH. apply bytes_app. split; [exact Ho|]. apply bytes_cons. split; [apply bytes_nth; exact Ho|apply bytes_nil].
Qed.

Lemma u8_byte x : byte x -> u8 x = x.
Proof. intros H. unfold u8, wrapu, M8, byte in *. apply Z.mod_small. lia. Qed.

(* the byte-by-byte copy of codes() is the RFC's overlapping copy *)
Lemma copy_back_spec c dist : c_nil c = false -> 1 <= dist ->
  forall k s o, outrep c s o -> dist <= len o -> len o + Z.of_nat k <= c_outcap c -> len o + Z.of_nat k < M64 ->
  exists s', copy_back k c s dist = Ok s' /\ outrep c s' (lz_copy k (Z.to_nat dist) o) /\ samein s s'.
Proof.
  intros Hnil Hd. induction k as [|k IH]; intros s o Ho Hdo Hcap Hm.
  - exists s. cbn [copy_back lz_copy]. split; [reflexivity|]. split; [exact Ho|]. unfold samein; auto.
  - cbn [copy_back lz_copy]. destruct Ho as (Hc & Hout & Hb). rewrite Hnil in Hout.
    unfold out_back. rewrite Hc.
    destruct (Z.leb_spec 0 (len o - dist)); [|lia]. destruct (Z.ltb_spec (len o - dist) (len o)); [|lia]. cbn [andb].
    rewrite Hout.
    rewrite (nth_error_nth' (rev o) 0) by (rewrite rev_length; unfold len in *; lia).
    rewrite rev_nth by (unfold len in *; lia).
    replace (length o - S (Z.to_nat (dist - 1)))%nat with (length o - Z.to_nat dist)%nat by lia.
    cbn [bind]. set (v := nth (length o - Z.to_nat dist) o 0).
    assert (Hv : byte v) by (apply bytes_nth; exact Hb).
    unfold out_put. rewrite Hc. pose proof (len_nonneg o) as Hn.
    destruct (Z.leb_spec 0 (len o)); [|lia]. destruct (Z.ltb_spec (len o) (c_outcap c)); [|lia]. cbn [andb bind].
    rewrite u8_byte by exact Hv. rewrite (u64_id (len o + 1)) by lia. rewrite Hout.
    destruct (IH (mkSt (v :: rev o) (len o + 1) (p_in s) (p_incnt s) (p_bitbuf s) (p_bitcnt s)) (o ++ [v])) as (s' & E & R & I).
    + unfold outrep. cbn [p_out p_outcnt]. rewrite Hnil, len_app, rev_app_distr. repeat split; auto.
      apply bytes_app. split; [exact Hb|]. apply bytes_cons. split; [exact Hv|apply bytes_nil].
    + rewrite len_app. change (len [v]) with 1. lia.
    + rewrite len_app. change (len [v]) with 1. lia.
    + rewrite len_app. change (len [v]) with 1. lia.
    + exists s'. split; [exact E|]. split; [exact R|]. exact I.
Qed.

(* ---- the symbols of a block ------------------------------------------------------------------------------------ *)
Lemma symbols_len lit dist o bs o' : symbols lit dist o bs o' -> len o <= len o'.
Proof.
  induction 1 as [o H|o x bs o' Hx Hc Hs IH|o i e j f bs o' Hi Hc He Hj Hd Hf Hdist Hs IH]; [lia| |].
  - rewrite len_app in IH. change (len [x]) with 1 in IH. lia.
  - rewrite lz_copy_len in IH. lia.
Qed.

Lemma symbols_nonempty lit dist o bs o' : symbols lit dist o bs o' -> 1 <= len bs.
Proof.
  induction 1 as [o H|o x bs o' Hx Hc Hs IH|o i e j f bs o' Hi Hc He Hj Hd Hf Hdist Hs IH].
  - apply has_code_len; exact H.
  - rewrite len_app. pose proof (has_code_len lit x Hc). lia.
  - rewrite len_app. pose proof (has_code_len lit (257 + i) Hc). pose proof (len_nonneg (bitsZ (len_extra i) e ++ code_of dist j ++ bitsZ (dist_extra j) f ++ bs)). lia.
Qed.

Lemma symbols_has_eob lit dist o bs o' : symbols lit dist o bs o' -> has_code lit 256.
Proof. induction 1; auto. Qed.

(* the distance code may be extended by symbols that are never used *)
Lemma symbols_dist_ext lit d1 d2 o bs o' :
  (forall j, 0 <= j < 30 -> has_code d1 j -> has_code d2 j /\ code_of d2 j = code_of d1 j) ->
  symbols lit d1 o bs o' -> symbols lit d2 o bs o'.
Proof.
  intros Hext. induction 1 as [o H|o x bs o' Hx Hc Hs IH|o i e j f bs o' Hi Hc He Hj Hd Hf Hdist Hs IH].
  - now apply sy_end.
  - now apply sy_lit.
  - destruct (Hext j Hj Hd) as [Hd2 Ec]. rewrite <- Ec. now apply sy_match.
Qed.

Section Codes.
Variables (c : pcfg) (lc dc : huff) (lit dist : list Z) (tail : list Z).
Hypothesis Hlc : huff_for lit lc.
Hypothesis Hdc : huff_for dist dc.
Hypothesis Hlno : not_over lit.
Hypothesis Hdno : not_over dist.
Variable N : Z.                       (* the length of the complete output *)
Hypothesis HN : N < M64.
Hypothesis Hroom : c_nil c = false -> N <= c_outlen c /\ N <= c_outcap c.

Let body := fun s => lift_step (codes_step c lc dc s) (fun s : pstate => s).

Lemma codes_step_end s o rest :
  has_code lit 256 -> inrep c s (code_of lit 256 ++ rest) tail -> outrep c s o ->
  exists s', codes_step c lc dc s = Ok (true, s') /\ inrep c s' rest tail /\ outrep c s' o.
Proof.
  intros Hc Hi Ho. unfold codes_step.
  destruct (decode_spec c lc lit 256 tail rest Hlc Hlno Hc s Hi) as (s1 & E & R & O). rewrite E. cbn [bind].
  change (256 <? 0) with false. change (256 <? 256) with false. cbv iota.
  exists s1. split; [reflexivity|]. split; [exact R|]. eapply outrep_sameout; eauto.
Qed.

Lemma codes_step_lit s o x rest :
  0 <= x < 256 -> has_code lit x -> inrep c s (code_of lit x ++ rest) tail -> outrep c s o -> len o + 1 <= N ->
  exists s', codes_step c lc dc s = Ok (false, s') /\ inrep c s' rest tail /\ outrep c s' (o ++ [x]).
Proof.
  intros Hx Hc Hi Ho Hlen. unfold codes_step.
  destruct (decode_spec c lc lit x tail rest Hlc Hlno Hc s Hi) as (s1 & E & R & O). rewrite E. cbn [bind].
  destruct (Z.ltb_spec x 0); [lia|]. destruct (Z.ltb_spec x 256); [|lia].
  pose proof (outrep_sameout c s s1 o O Ho) as (Hcnt & Hout & Hb). pose proof (len_nonneg o) as Hn.
  assert (Hbx : bytes (o ++ [x])).
  { apply bytes_app. split; [exact Hb|]. apply bytes_cons. split; [unfold byte; lia|apply bytes_nil]. }
  destruct (c_nil c) eqn:Hnil; cbn [negb].
  - eexists. split; [reflexivity|]. split.
    + eapply inrep_samein; [|exact R]. unfold samein, add_outcnt; cbn; auto.
    + unfold outrep, add_outcnt. cbn [p_out p_outcnt]. rewrite Hnil, Hcnt, len_app. change (len [x]) with 1.
      rewrite u64_id by lia. auto.
  - destruct (Hroom eq_refl) as [Hr1 Hr2].
    destruct (Z.eqb_spec (p_outcnt s1) (c_outlen c)); [lia|].
    unfold out_put. rewrite Hcnt.
    destruct (Z.leb_spec 0 (len o)); [|lia]. destruct (Z.ltb_spec (len o) (c_outcap c)); [|lia]. cbn [andb bind].
    rewrite u8_byte by (unfold byte; lia). rewrite (u64_id (len o + 1)) by lia.
    eexists. split; [reflexivity|]. split.
    + eapply inrep_samein; [|exact R]. unfold samein; cbn; auto.
    + unfold outrep. cbn [p_out p_outcnt]. rewrite Hnil, Hout, len_app, rev_app_distr. change (len [x]) with 1. auto.
Qed.

Lemma codes_step_match s o i e j f rest :
  0 <= i < 29 -> has_code lit (257 + i) -> 0 <= e < 2 ^ len_extra i ->
  0 <= j < 30 -> has_code dist j -> 0 <= f < 2 ^ dist_extra j ->
  dist_base j + f <= len o -> len o + (len_base i + e) <= N ->
  inrep c s (code_of lit (257 + i) ++ bitsZ (len_extra i) e ++ code_of dist j ++ bitsZ (dist_extra j) f ++ rest) tail ->
  outrep c s o ->
  exists s', codes_step c lc dc s = Ok (false, s') /\ inrep c s' rest tail /\
             outrep c s' (lz_copy (Z.to_nat (len_base i + e)) (Z.to_nat (dist_base j + f)) o).
Proof.
  intros Hi Hc He Hj Hd Hf Hdist Hlen Hin Ho. unfold codes_step.
  destruct (len_tables i Hi) as (T1 & T2 & T3 & T4). destruct (dist_tables j Hj) as (D1 & D2 & D3 & D4).
  destruct (decode_spec c lc lit (257 + i) tail _ Hlc Hlno Hc s Hin) as (s1 & E1 & R1 & O1). rewrite E1. cbn [bind].
  destruct (Z.ltb_spec (257 + i) 0); [lia|]. destruct (Z.ltb_spec (257 + i) 256); [lia|].
  destruct (Z.ltb_spec 256 (257 + i)); [|lia]. replace (257 + i - 257) with i by lia.
  destruct (Z.leb_spec 29 i); [lia|].
  rewrite !rd_ok by (unfold lens, lext, len; cbn [length]; lia). cbn [bind]. rewrite T1, T2.
  destruct (bits_spec c s1 (len_extra i) e _ tail R1 ltac:(lia) He) as (s2 & E2 & R2 & O2). rewrite E2. cbn [bind].
  destruct (decode_spec c dc dist j tail _ Hdc Hdno Hd s2 R2) as (s3 & E3 & R3 & O3). rewrite E3. cbn [bind].
  destruct (Z.ltb_spec j 0); [lia|].
  rewrite !rd_ok by (unfold dists, dext, len; cbn [length]; lia). cbn [bind]. rewrite D1, D2.
  destruct (bits_spec c s3 (dist_extra j) f _ tail R3 ltac:(lia) Hf) as (s4 & E4 & R4 & O4). rewrite E4. cbn [bind].
  assert (Hf13 : f < 2 ^ 13) by (pose proof (Z.pow_le_mono_r 2 (dist_extra j) 13 ltac:(lia) ltac:(lia)); lia).
  change (2 ^ 13) with 8192 in Hf13.
  rewrite u32_id by (unfold M32; lia).
  pose proof (outrep_sameout c s s4 o (sameout_trans _ _ _ (sameout_trans _ _ _ (sameout_trans _ _ _ O1 O2) O3) O4) Ho) as Ho4.
  pose proof Ho4 as (Hcnt & Hout & Hb). pose proof (len_nonneg o) as Hn.
  destruct (Z.ltb_spec (p_outcnt s4) (dist_base j + f)); [lia|].
  destruct (c_nil c) eqn:Hnil; cbn [negb].
  - eexists. split; [reflexivity|]. split.
    + eapply inrep_samein; [|exact R4]. unfold samein, add_outcnt; cbn; auto.
    + unfold outrep, add_outcnt. cbn [p_out p_outcnt]. rewrite Hnil, Hcnt, lz_copy_len.
      rewrite u64_id by lia. rewrite Z2Nat.id by lia. repeat split; auto. now apply lz_copy_bytes.
  - destruct (Hroom eq_refl) as [Hr1 Hr2].
    rewrite Hcnt. rewrite u64_id by lia.
    destruct (Z.ltb_spec (c_outlen c) (len o + (len_base i + e))); [lia|].
    destruct (copy_back_spec c (dist_base j + f) Hnil ltac:(lia) (Z.to_nat (len_base i + e)) s4 o Ho4 Hdist) as (s5 & E5 & R5 & I5);
      try (rewrite Z2Nat.id by lia; lia).
    rewrite E5. cbn [bind]. exists s5. split; [reflexivity|]. split; [|exact R5].
    eapply inrep_samein; [exact I5|exact R4].
Qed.

(* the do-while loop of codes() over the symbols of a block *)
Lemma codes_loop o bs o' : symbols lit dist o bs o' -> len o' <= N ->
  forall s rest, inrep c s (bs ++ rest) tail -> outrep c s o ->
  exists n s', (0 < n)%nat /\ Z.of_nat n <= len bs /\
    loop_nat n body s = inr (Ok s') /\ inrep c s' rest tail /\ outrep c s' o'.
Proof.
  induction 1 as [o H|o x bs o' Hx Hc Hs IH|o i e j f bs o' Hi Hc He Hj Hd Hf Hdist Hs IH]; intros HN' s rest Hin Ho.
  - destruct (codes_step_end s o rest H Hin Ho) as (s' & E & R & O).
    exists 1%nat, s'. split; [lia|]. split; [pose proof (has_code_len lit 256 H); lia|].
    cbn [loop_nat]. unfold body. rewrite E. cbn [lift_step]. auto.
  - rewrite <- app_assoc in Hin.
    pose proof (symbols_len _ _ _ _ _ Hs) as Hl. rewrite len_app in Hl. change (len [x]) with 1 in Hl.
    destruct (codes_step_lit s o x (bs ++ rest) Hx Hc Hin Ho ltac:(lia)) as (s1 & E & R & O).
    destruct (IH HN' s1 rest R O) as (n & s' & Hn & Hnb & El & R' & O').
    exists (S n), s'. split; [lia|]. split; [rewrite len_app; pose proof (has_code_len lit x Hc); lia|].
    cbn [loop_nat]. unfold body at 1. rewrite E. cbn [lift_step]. auto.
  - rewrite <- !app_assoc in Hin.
    pose proof (symbols_len _ _ _ _ _ Hs) as Hl. rewrite lz_copy_len in Hl.
    destruct (len_tables i Hi) as (T1 & T2 & T3 & T4).
    rewrite Z2Nat.id in Hl by lia.
    destruct (codes_step_match s o i e j f (bs ++ rest) Hi Hc He Hj Hd Hf Hdist ltac:(lia) Hin Ho) as (s1 & E & R & O).
    destruct (IH HN' s1 rest R O) as (n & s' & Hn & Hnb & El & R' & O').
    exists (S n), s'. split; [lia|]. split.
    { rewrite !len_app. pose proof (has_code_len lit (257 + i) Hc). pose proof (has_code_len dist j Hd).
      pose proof (len_nonneg (bitsZ (len_extra i) e)). pose proof (len_nonneg (bitsZ (dist_extra j) f)). lia. }
    cbn [loop_nat]. unfold body at 1. rewrite E. cbn [lift_step]. auto.
Qed.

(* (c) codes() decodes the symbols of a block *)
Theorem codes_spec s o bs o' rest :
  symbols lit dist o bs o' -> len o' <= N -> inrep c s (bs ++ rest) tail -> outrep c s o ->
  exists s', codes c lc dc s = Ok s' /\ inrep c s' rest tail /\ outrep c s' o'.
Proof.
  intros Hs HN' Hin Ho.
  destruct (codes_loop o bs o' Hs HN' s rest Hin Ho) as (n & s' & Hn & Hnb & El & R & O).
  exists s'. split; [|auto]. unfold codes.
  apply (run_loop_eq _ _ _ n _ El); [|exact Hn].
  pose proof (inrep_len _ _ _ _ Hin) as Hl. rewrite len_app in Hl. pose proof (len_nonneg rest).
  destruct Hin as (avail & _ & _ & _ & Hi0 & _ & Hbc & _). lia.
Qed.
End Codes.

(* ---- (d) the fixed code ------------------------------------------------------------------------------------------ *)
Lemma fixed_lit_is : lens_at fixed_lengths 0 FIXLCODES = fixed_lit.
Proof. vm_compute. reflexivity. Qed.
Lemma fixed_dist30_is : lens_at fixed_dlengths 0 MAXDCODES = repeat 5 30.
Proof. vm_compute. reflexivity. Qed.
Lemma fixed_lit_complete : complete fixed_lit.
Proof. vm_compute. reflexivity. Qed.
Lemma fixed_dist_complete : complete fixed_dist.
Proof. vm_compute. reflexivity. Qed.

Lemma Forall_dec_range (l : list Z) : forallb (fun v => (0 <=? v) && (v <=? 15)) l = true -> Forall (fun v => 0 <= v <= 15) l.
Proof.
  intros H. rewrite forallb_forall in H. apply Forall_forall. intros x Hx. specialize (H x Hx).
  apply andb_true_iff in H. destruct H as [H1 H2]. apply Z.leb_le in H1, H2. lia.
Qed.

Lemma fixed_tables :
  exists e1 lc e2 dc, fixed_lencode = Ok (e1, lc) /\ fixed_distcode = Ok (e2, dc) /\
                      huff_for fixed_lit lc /\ huff_for (repeat 5 30) dc.
Proof.
  unfold fixed_lencode, fixed_distcode.
  destruct (construct_spec fixed_lengths 0 FIXLCODES ltac:(lia) ltac:(unfold FIXLCODES; lia) ltac:(vm_compute; discriminate))
    with (h := mkH (repeat 0 16) (repeat 0 288)) as (e1 & lc & E1 & H1 & _).
  { apply Forall_dec_range. vm_compute. reflexivity. }
  { reflexivity. }
  { vm_compute. discriminate. }
  { rewrite fixed_lit_is. unfold not_over. rewrite fixed_lit_complete. lia. }
  destruct (construct_spec fixed_dlengths 0 MAXDCODES ltac:(lia) ltac:(unfold MAXDCODES; lia) ltac:(vm_compute; discriminate))
    with (h := mkH (repeat 0 16) (repeat 0 30)) as (e2 & dc & E2 & H2 & _).
  { apply Forall_dec_range. vm_compute. reflexivity. }
  { reflexivity. }
  { vm_compute. discriminate. }
  { rewrite fixed_dist30_is. vm_compute. discriminate. }
  rewrite fixed_lit_is in H1. rewrite fixed_dist30_is in H2.
  exists e1, lc, e2, dc. auto.
Qed.

(* distance symbols 30 and 31 of the 5-bit code never occur: the 30 symbols sc_puff knows have the same codes *)
Lemma fixed_dist_30 j : 0 <= j < 30 -> has_code fixed_dist j ->
  has_code (repeat 5 30) j /\ code_of (repeat 5 30) j = code_of fixed_dist j.
Proof.
  intros Hj _.
  pose proof (range_all (fun j => (nth (Z.to_nat j) (repeat 5 30) 0 =? 5) &&
                                  (if list_eq_dec bool_dec (code_of (repeat 5 30) j) (code_of fixed_dist j) then true else false)) 30
                        ltac:(vm_compute; reflexivity) j Hj) as E.
  cbv beta in E. apply andb_true_iff in E. destruct E as [E1 E2]. apply Z.eqb_eq in E1.
  split.
  - split; [rewrite len_repeat; lia|lia].
  - destruct (list_eq_dec bool_dec (code_of (repeat 5 30) j) (code_of fixed_dist j)); [assumption|discriminate].
Qed.

(* (d) fixed() decodes a block coded with the fixed Huffman codes of RFC 1951 3.2.6 *)
Theorem fixed_spec c s o bs o' rest tail N :
  symbols fixed_lit fixed_dist o bs o' -> len o' <= N -> N < M64 ->
  (c_nil c = false -> N <= c_outlen c /\ N <= c_outcap c) ->
  inrep c s (bs ++ rest) tail -> outrep c s o ->
  exists s', fixed c s = Ok s' /\ inrep c s' rest tail /\ outrep c s' o'.
Proof.
  intros Hs HN' HN Hroom Hin Ho.
  destruct fixed_tables as (e1 & lc & e2 & dc & E1 & E2 & H1 & H2).
  unfold fixed. rewrite E1, E2. cbn [bind].
  apply (codes_spec c lc dc fixed_lit (repeat 5 30) tail H1 H2) with (N := N) (o := o) (bs := bs); auto.
  - unfold not_over. rewrite fixed_lit_complete. lia.
  - vm_compute. discriminate.
  - apply (symbols_dist_ext fixed_lit fixed_dist (repeat 5 30)); [|exact Hs].
    intros j Hj Hd. destruct (fixed_dist_30 j Hj Hd) as [A B]. split; [exact A|exact B].
Qed.
