(* The static state of sc_puff.c and the statelessness of the decoder.

   sc_puff.c keeps state across calls: `fixed ()` has `static int virgin = 1` and static tables (lencnt, lensym, distcnt, distsym,
   lencode, distcode) that it builds on its first call and reuses afterwards.  The model of C07 (PuffModel.fixed) rebuilds the
   tables in every call, i.e. it describes a FRESH process.  Here the static state is made explicit (pstatic), `fixed_st` is the C
   function with its cache, and a process is any history of sc_puff calls on that state.  Theorems: in every state a process can
   reach, sc_puff / sc_io_nonuncompress / sc_io_decode return what a fresh process returns; hence one process decoding many texts
   in any order gives for each text the result of a fresh process.
   Tie: Gen/StaticC06.v (census of the objects with static storage duration in sc_puff.c, generated from the current source) is
   proved to be exactly the state modelled here: written only in fixed (), only under `if (virgin)`. (Seeded change C06d moved the
   tables of dynamic () into file-scope storage shared with fixed (): the census changes.) *)
From Coq Require Import ZArith List Bool Lia String.
From ScV Require Import Base.CInt C06.Res C06.ResProofs C06.StoredModel C07.PuffModel C07.DecodeModel Gen.StaticC06.
Import ListNotations.
Local Open Scope Z_scope.

(* ---- the static state ------------------------------------------------------------------------------------------------ *)
Record pstatic := mkS { s_virgin : bool; s_lencode : huff; s_distcode : huff }.
(* static storage is zero-initialised; virgin = 1 *)
Definition static0 : pstatic := mkS true (mkH (repeat 0 16) (repeat 0 288)) (mkH (repeat 0 16) (repeat 0 30)).

(* fixed (): `if (virgin) { build lencode, distcode; virgin = 0; } return codes (s, &lencode, &distcode);` *)
Definition fixed_st (c : pcfg) (s : pstate) (st : pstatic) : res pstate * pstatic :=
  let st1 := if s_virgin st then
               match fixed_lencode, fixed_distcode with
               | Ok (_, lc), Ok (_, dc) => mkS false lc dc
               | _, _ => st
               end
             else st in
  (codes c (s_lencode st1) (s_distcode st1) s, st1).

(* one block of sc_puff's loop with the static state threaded through (only fixed () touches it) *)
Definition block_body_st (c : pcfg) (a : pstate * pstatic) : (pstate * pstatic) + (res pstate * pstatic) :=
  let '(s, st) := a in
  match bits c s 1 with
  | Ok (last, s1) =>
    match bits c s1 2 with
    | Ok (type, s2) =>
      let '(r, st') := if type =? 0 then (stored c s2, st)
                       else if type =? 1 then fixed_st c s2 st
                       else if type =? 2 then (dynamic c s2, st)
                       else (Err (-1), st) in
      match r with
      | Ok s3 => if negb (last =? 0) then inr (Ok s3, st') else inl (s3, st')
      | Err e => inr (Err e, st')
      | Oob => inr (Oob, st')
      | NoFuel => inr (NoFuel, st')
      end
    | Err e => inr (Err e, st)
    | Oob => inr (Oob, st)
    | NoFuel => inr (NoFuel, st)
    end
  | Err e => inr (Err e, st)
  | Oob => inr (Oob, st)
  | NoFuel => inr (NoFuel, st)
  end.

(* sc_puff in a process whose static state is st: the result and the static state afterwards *)
Definition puff_st (st : pstatic) (nil : bool) (outcap destlen : Z) (src : list Z) (sourcelen : Z) : res (Z * Z * Z * list Z) * pstatic :=
  let c := mkCfg nil destlen outcap sourcelen in
  let s0 := mkSt [] 0 src 0 0 0 in
  match 8 * sourcelen + 8 with
  | Zpos p =>
    match loop_pos p (block_body_st c) (s0, st) with
    | inl (_, st') => (NoFuel, st')
    | inr (r, st') =>
      (match r with
       | Ok s => Ok (0, p_outcnt s, p_incnt s, rev_append (p_out s) [])
       | Err e => Ok (e, destlen, sourcelen, [])
       | Oob => Oob
       | NoFuel => NoFuel
       end, st')
    end
  | _ => (NoFuel, st)
  end.

(* the states a process can be in: the initial one, and whatever any call of sc_puff (any arguments) leaves behind *)
Inductive reachable : pstatic -> Prop :=
| reach_init : reachable static0
| reach_call : forall st nil outcap destlen src sourcelen,
    reachable st -> reachable (snd (puff_st st nil outcap destlen src sourcelen)).

(* ---- the invariant: the cache is empty, or it holds exactly the tables a fresh call would build ------------------------ *)
Definition good (st : pstatic) : Prop :=
  s_virgin st = true \/ (exists a b, fixed_lencode = Ok (a, s_lencode st) /\ fixed_distcode = Ok (b, s_distcode st)).

Lemma fixed_tables : exists a lc b dc, fixed_lencode = Ok (a, lc) /\ fixed_distcode = Ok (b, dc).
Proof. do 4 eexists. split; vm_compute; reflexivity. Qed.

Lemma fixed_st_ok c s st : good st -> fst (fixed_st c s st) = fixed c s /\ good (snd (fixed_st c s st)).
Proof.
  intros Hg. destruct fixed_tables as (a & lc & b & dc & E1 & E2). unfold fixed_st, fixed.
  assert (Hv : forall st1, (exists a b, fixed_lencode = Ok (a, s_lencode st1) /\ fixed_distcode = Ok (b, s_distcode st1)) ->
                           codes c (s_lencode st1) (s_distcode st1) s = ('(_, lc) <- fixed_lencode ;; '(_, dc) <- fixed_distcode ;; codes c lc dc s)).
  { intros st1 (a' & b' & F1 & F2). rewrite F1, F2. reflexivity. }
  destruct (s_virgin st) eqn:V.
  - rewrite E1, E2. cbn [fst snd bind s_lencode s_distcode]. split; [reflexivity|]. right. exists a, b. split; [exact E1|exact E2].
  - cbn [fst snd]. destruct Hg as [Hg|Hg]; [congruence|]. split; [apply Hv; exact Hg|right; exact Hg].
Qed.

Lemma block_body_sim c s st : good st ->
  exists st', good st' /\
    block_body_st c (s, st) = match lift_step (block_step c s) (fun s => s) with inl s' => inl (s', st') | inr r => inr (r, st') end.
Proof.
  intros Hg. unfold block_body_st, block_step.
  destruct (bits c s 1) as [[last s1]| | |]; cbn [bind lift_step]; try (exists st; split; [exact Hg|reflexivity]).
  destruct (bits c s1 2) as [[type s2]| | |]; cbn [bind lift_step]; try (exists st; split; [exact Hg|reflexivity]).
  destruct (type =? 0).
  { exists st. split; [exact Hg|]. destruct (stored c s2); cbn [bind lift_step]; try reflexivity. destruct (negb (last =? 0)); reflexivity. }
  destruct (type =? 1).
  { destruct (fixed_st_ok c s2 st Hg) as [Hf Hg']. destruct (fixed_st c s2 st) as [r st'] eqn:E. cbn [fst snd] in *. subst r.
    exists st'. split; [exact Hg'|]. destruct (fixed c s2); cbn [bind lift_step]; try reflexivity. destruct (negb (last =? 0)); reflexivity. }
  destruct (type =? 2).
  { exists st. split; [exact Hg|]. destruct (dynamic c s2); cbn [bind lift_step]; try reflexivity. destruct (negb (last =? 0)); reflexivity. }
  exists st. split; [exact Hg|reflexivity].
Qed.

Lemma loop_sim {A R S} (body : A -> A + R) (body_st : A * S -> A * S + R * S) (inv : S -> Prop) :
  (forall a st, inv st -> exists st', inv st' /\ body_st (a, st) = match body a with inl a' => inl (a', st') | inr r => inr (r, st') end) ->
  forall n a st, inv st ->
    exists st', inv st' /\ loop_nat n body_st (a, st) = match loop_nat n body a with inl a' => inl (a', st') | inr r => inr (r, st') end.
Proof.
  intros Hb. induction n as [|n IH]; intros a st Hi; cbn [loop_nat]; [exists st; split; [exact Hi|reflexivity]|].
  destruct (Hb a st Hi) as (st1 & Hi1 & E). rewrite E. destruct (body a) as [a'|r]; [apply IH; exact Hi1|exists st1; split; [exact Hi1|reflexivity]].
Qed.

Theorem puff_st_ok st nil outcap destlen src sourcelen : good st ->
  fst (puff_st st nil outcap destlen src sourcelen) = puff nil outcap destlen src sourcelen /\
  good (snd (puff_st st nil outcap destlen src sourcelen)).
Proof.
  intros Hg. unfold puff_st, puff, run_loop. destruct (8 * sourcelen + 8) as [|p|p]; cbn [fst snd]; try (split; [reflexivity|exact Hg]).
  rewrite !loop_pos_nat.
  destruct (loop_sim _ (block_body_st (mkCfg nil destlen outcap sourcelen)) good (fun a st0 => block_body_sim _ a st0)
              (Pos.to_nat p) (mkSt [] 0 src 0 0 0) st Hg) as (st' & Hg' & E).
  rewrite E. destruct (loop_nat (Pos.to_nat p) _ (mkSt [] 0 src 0 0 0)) as [s'|r]; cbn [fst snd]; split; try exact Hg'; reflexivity.
Qed.

Lemma good_init : good static0.  Proof. left; reflexivity. Qed.
Lemma reachable_good st : reachable st -> good st.
Proof. induction 1; [exact good_init|]. apply puff_st_ok; assumption. Qed.

(* sc_puff is stateless in every reachable state *)
Theorem puff_stateless : forall st, reachable st -> forall nil outcap destlen src sourcelen,
  fst (puff_st st nil outcap destlen src sourcelen) = puff nil outcap destlen src sourcelen.
Proof. intros st H nil outcap destlen src sourcelen. apply puff_st_ok, reachable_good, H. Qed.

(* a fresh process: *)
Theorem puff_fresh : forall nil outcap destlen src sourcelen, fst (puff_st static0 nil outcap destlen src sourcelen) = puff nil outcap destlen src sourcelen.
Proof. intros. apply puff_stateless, reach_init. Qed.

(* ---- sc_io_nonuncompress and sc_io_decode on top ----------------------------------------------------------------------- *)
(* sc_io_nonuncompress with the inflate function as a parameter; with PuffModel.puff it IS DecodeModel.nonuncompress *)
Definition nonuncompress_with (pf : bool -> Z -> Z -> list Z -> Z -> res (Z * Z * Z * list Z))
           (src : list Z) (dest_size dest_cap : Z) (dest_nil : bool) : res (list Z) :=
  let src_size := len src in
  if src_size <? 2 then Err (-1) else
  uca <- rd src 0 ;;
  if negb (Z.land uca 143 =? 8) then Err (-1) else
  ucb <- rd src 1 ;;
  if negb ((u32 (shl uca 8) + ucb) mod 31 =? 0) then Err (-1) else
  if negb (Z.land ucb 32 =? 0) then Err (-1) else
  let src := skipn 2 src in
  let src_size := src_size - 2 in
  if src_size <? 5 then Err (-1) else
  let sourcelen := u64 (src_size - 4) in
  '(err, destlen, srclen, outb) <- pf dest_nil dest_cap dest_size src sourcelen ;;
  if negb (err =? 0) then Err (-1) else
  if negb (destlen =? dest_size) || negb (srclen =? u64 (src_size - 4)) then Err (-1) else
  let adler := adler_update adler_init outb in
  tail <- slice src srclen 4 ;;
  if list_eq_dec Z.eq_dec tail (be4 adler) then Ok outb else Err (-1).

Lemma nonuncompress_with_puff : forall src ds dc dn, nonuncompress_with puff src ds dc dn = nonuncompress src ds dc dn.
Proof. reflexivity. Qed.

(* the decompressor of a process in static state st *)
Definition nonuncompress_in (st : pstatic) := nonuncompress_with (fun a b c d e => fst (puff_st st a b c d e)).

Lemma bind_ext {A B} (r : res A) (f g : A -> res B) : (forall a, f a = g a) -> bind r f = bind r g.
Proof. intros H. destruct r; cbn [bind]; auto. Qed.

Theorem nonuncompress_stateless : forall st, reachable st -> forall src ds dc dn,
  nonuncompress_in st src ds dc dn = nonuncompress src ds dc dn.
Proof.
  intros st Hr src ds dc dn. rewrite <- nonuncompress_with_puff. unfold nonuncompress_in, nonuncompress_with.
  repeat first [ reflexivity
               | match goal with
                 | |- (if ?b then _ else _) = (if ?b then _ else _) => destruct b
                 | |- bind ?r _ = bind ?r _ => apply bind_ext; intros
                 end ].
  cbv beta. rewrite (puff_stateless st Hr). reflexivity.
Qed.

Lemma sc_decode_with_ext u1 u2 data out maxsz : (forall a b c d, u1 a b c d = u2 a b c d) ->
  sc_decode_with u1 data out maxsz = sc_decode_with u2 data out maxsz.
Proof.
  intros H. unfold sc_decode_with.
  repeat first [ reflexivity
               | match goal with
                 | |- (if ?b then _ else _) = (if ?b then _ else _) => destruct b
                 | |- bind ?r _ = bind ?r _ => apply bind_ext; intros
                 | |- (let '(x, y) := ?p in _) = _ => destruct p
                 end ].
  rewrite H. reflexivity.
Qed.

(* sc_io_decode in a process whose static state is st *)
Definition sc_decode_in (st : pstatic) (data : list Z) (out : outdesc) (maxsz : Z) : res (Z * list Z) :=
  sc_decode_with (nonuncompress_in st) data out maxsz.

Theorem decode_stateless : forall st, reachable st -> forall data out maxsz,
  sc_decode_in st data out maxsz = sc_decode data out maxsz.
Proof. intros st Hr data out maxsz. apply sc_decode_with_ext. intros. apply nonuncompress_stateless, Hr. Qed.

(* ---- one process, many texts ------------------------------------------------------------------------------------------- *)
Definition job := (list Z * outdesc * Z)%type.
Definition run_job (st : pstatic) (j : job) : res (Z * list Z) := let '(data, out, maxsz) := j in sc_decode_in st data out maxsz.
Definition fresh_job (j : job) : res (Z * list Z) := run_job static0 j.

(* static states reachable from st by further calls of sc_puff *)
Inductive reach_from (st : pstatic) : pstatic -> Prop :=
| rf_refl : reach_from st st
| rf_call : forall st' nil outcap destlen src sourcelen,
    reach_from st st' -> reach_from st (snd (puff_st st' nil outcap destlen src sourcelen)).

(* a run of the process over a list of decode jobs: each job runs in the state left by the calls before it (sc_io_decode calls
   sc_puff at most once; the relation allows ANY number of calls with ANY arguments between two jobs, e.g. other decodes) *)
Inductive process_run : pstatic -> list job -> list (res (Z * list Z)) -> Prop :=
| run_nil : forall st, process_run st [] []
| run_cons : forall st st' j js rs, reach_from st st' -> process_run st' js rs -> process_run st (j :: js) (run_job st j :: rs).

Lemma reach_from_reachable st st' : reachable st -> reach_from st st' -> reachable st'.
Proof. intros H; induction 1; [exact H|]. apply reach_call; assumption. Qed.

Theorem process_is_stateless : forall st jobs results, reachable st -> process_run st jobs results -> results = map fresh_job jobs.
Proof.
  intros st jobs results Hr Hp. induction Hp as [st|st st' j js rs Hf Hp IH]; [reflexivity|].
  assert (E : run_job st j = fresh_job j).
  { destruct j as [[data out] maxsz]. change (sc_decode_in st data out maxsz = sc_decode_in static0 data out maxsz).
    transitivity (sc_decode data out maxsz); [apply decode_stateless; exact Hr|symmetry; apply decode_stateless; exact reach_init]. }
  rewrite E, (IH (reach_from_reachable _ _ Hr Hf)). reflexivity.
Qed.

(* any order: the result of a job does not depend on its position, nor on what was decoded before *)
Theorem process_any_order : forall jobs jobs' results results',
  process_run static0 jobs results -> process_run static0 jobs' results' ->
  forall j i i', nth_error jobs i = Some j -> nth_error jobs' i' = Some j ->
  nth_error results i = Some (fresh_job j) /\ nth_error results' i' = Some (fresh_job j).
Proof.
  intros jobs jobs' results results' H1 H2 j i i' N1 N2.
  rewrite (process_is_stateless _ _ _ reach_init H1), (process_is_stateless _ _ _ reach_init H2).
  split; apply map_nth_error; assumption.
Qed.

(* ---- tie T1: the static state of sc_puff.c is exactly the modelled one --------------------------------------------------- *)
Local Open Scope string_scope.
(* the generated census (tools/c2g/groups_C06.py `census`): four constant tables in codes (), one in dynamic (), and the cache of
   fixed (): the flag virgin (read; written only under `if (virgin)`), the four table arrays (their addresses leave fixed () only
   under `if (virgin)`), lencode / distcode (written and handed to construct () only under `if (virgin)`; handed to codes () through
   a pointer to const). *)
Definition puff_census_expected : census_t :=
  [("lens", "codes", true, [("codes", "read", "")]);
   ("lext", "codes", true, [("codes", "read", "")]);
   ("dists", "codes", true, [("codes", "read", "")]);
   ("dext", "codes", true, [("codes", "read", "")]);
   ("virgin", "fixed", false, [("fixed", "read", ""); ("fixed", "write", "virgin")]);
   ("lencnt", "fixed", false, [("fixed", "escape", "virgin")]);
   ("lensym", "fixed", false, [("fixed", "escape", "virgin")]);
   ("distcnt", "fixed", false, [("fixed", "escape", "virgin")]);
   ("distsym", "fixed", false, [("fixed", "escape", "virgin")]);
   ("lencode", "fixed", false, [("fixed", "write", "virgin"); ("fixed", "arg:construct:mut", "virgin"); ("fixed", "arg:codes:const", "")]);
   ("distcode", "fixed", false, [("fixed", "write", "virgin"); ("fixed", "arg:construct:mut", "virgin"); ("fixed", "arg:codes:const", "")]);
   ("order", "dynamic", true, [("dynamic", "read", "")])].

(* a use that can change the object (or lets someone else change it) *)
Definition mutating (kind : string) : bool :=
  negb (String.eqb kind "read") && negb (String.eqb (substring 0 4 kind) "arg:" && String.eqb (substring (String.length kind - 6) 6 kind) ":const").

(* every non-constant static object is local to fixed (), and every mutating use of it is in fixed () under `if (virgin)` *)
Definition census_confined (c : census_t) : bool :=
  forallb (fun e => let '(v, fn, cst, sites) := e in
                    cst || (String.eqb fn "fixed" &&
                            forallb (fun s => let '(f, kind, guard) := s in
                                              String.eqb f "fixed" && (negb (mutating kind) || String.eqb guard "virgin")) sites)) c.

Theorem gen_puff_census : puff_static_census = puff_census_expected /\ census_confined puff_static_census = true.
Proof. split; vm_compute; reflexivity. Qed.

(* libb64: no mutable static state at all (the tables are only read) *)
Theorem gen_b64_census :
  forallb (fun e => let '(v, fn, cst, sites) := e in forallb (fun s => let '(f, kind, guard) := s in String.eqb kind "read") sites)
          (cencode_static_census ++ cdecode_static_census) = true.
Proof. vm_compute; reflexivity. Qed.
