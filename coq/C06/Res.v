(* Shared basics of the codec models (C06/C07): byte lists, the result monad of the instrumented
   models (a buffer access outside its buffer is the distinguished result Oob, never silently
   absorbed), index-checked buffer operations, and a loop combinator whose fuel is a binary
   positive (so that no large unary number is ever built). Definitions only. *)
From Coq Require Import ZArith List Bool.
From ScV Require Import Base.CInt.
Import ListNotations.
Local Open Scope Z_scope.

Definition len {A} (l : list A) : Z := Z.of_nat (length l).
Definition byte (x : Z) : Prop := 0 <= x < 256.
Definition bytes (l : list Z) : Prop := Forall byte l.

(* result of an instrumented computation *)
Inductive res (A : Type) : Type :=
| Ok (a : A)          (* normal completion *)
| Err (code : Z)      (* the C code returns an error (code as in the source) *)
| Oob                 (* a read or write outside the bounds of its buffer *)
| NoFuel.             (* the model's iteration bound was exhausted (theorems show: never) *)
Arguments Ok {A} a.
Arguments Err {A} code.
Arguments Oob {A}.
Arguments NoFuel {A}.

Definition bind {A B} (r : res A) (f : A -> res B) : res B :=
  match r with Ok a => f a | Err c => Err c | Oob => Oob | NoFuel => NoFuel end.
Notation "x <- e ;; f" := (bind e (fun x => f)) (at level 61, e at next level, right associativity).
Notation "' p <- e ;; f" := (bind e (fun p => f)) (at level 61, p pattern, e at next level, right associativity).

(* index-checked access to a buffer of known size *)
Definition rd (b : list Z) (i : Z) : res Z :=
  if (0 <=? i) && (i <? len b) then Ok (nth (Z.to_nat i) b 0) else Oob.
Definition upd (b : list Z) (i : Z) (v : Z) : list Z :=
  firstn (Z.to_nat i) b ++ v :: skipn (S (Z.to_nat i)) b.
Definition wr (b : list Z) (i : Z) (v : Z) : res (list Z) :=
  if (0 <=? i) && (i <? len b) then Ok (upd b i v) else Oob.

(* bulk read of b[i .. i+n): every index is inside the buffer, or Oob *)
Definition slice (b : list Z) (i n : Z) : res (list Z) :=
  if (0 <=? i) && (0 <=? n) && (i + n <=? len b) then Ok (firstn (Z.to_nat n) (skipn (Z.to_nat i) b)) else Oob.

(* loop with a binary iteration bound: body returns inl (continue) or inr (final result) *)
Fixpoint loop_pos {A R} (p : positive) (body : A -> A + R) (a : A) : A + R :=
  match p with
  | xH => body a
  | xO q => match loop_pos q body a with inl a' => loop_pos q body a' | inr r => inr r end
  | xI q => match body a with
            | inl a1 => match loop_pos q body a1 with inl a2 => loop_pos q body a2 | inr r => inr r end
            | inr r => inr r
            end
  end.

Fixpoint loop_nat {A R} (n : nat) (body : A -> A + R) (a : A) : A + R :=
  match n with
  | O => inl a
  | S m => match body a with inl a' => loop_nat m body a' | inr r => inr r end
  end.

Definition run_loop {A B} (bound : Z) (body : A -> A + res B) (a : A) : res B :=
  match bound with
  | Zpos p => match loop_pos p body a with inl _ => NoFuel | inr r => r end
  | _ => NoFuel
  end.
