(* Lemmas about the shared basics of C06/Res.v. *)
From Coq Require Import ZArith List Bool Lia.
From ScV Require Import Base.CInt C06.Res.
Import ListNotations.
Local Open Scope Z_scope.

Lemma len_nonneg {A} (l : list A) : 0 <= len l.
Proof. unfold len; lia. Qed.
Lemma len_nil {A} : len (@nil A) = 0.  Proof. reflexivity. Qed.
Lemma len_cons {A} (x : A) l : len (x :: l) = len l + 1.
Proof. unfold len; cbn [length]; lia. Qed.
Lemma len_app {A} (a b : list A) : len (a ++ b) = len a + len b.
Proof. unfold len; rewrite app_length; lia. Qed.
Lemma len_repeat {A} (x : A) n : len (repeat x n) = Z.of_nat n.
Proof. unfold len; now rewrite repeat_length. Qed.
Lemma len_firstn {A} (l : list A) n : 0 <= n <= len l -> len (firstn (Z.to_nat n) l) = n.
Proof. unfold len; intros; rewrite firstn_length; lia. Qed.
Lemma len_skipn {A} (l : list A) n : 0 <= n <= len l -> len (skipn (Z.to_nat n) l) = len l - n.
Proof. unfold len; intros; rewrite skipn_length; lia. Qed.
Lemma len_skipn_nat {A} (l : list A) n : len (skipn n l) = Z.max 0 (len l - Z.of_nat n).
Proof. unfold len; rewrite skipn_length; lia. Qed.
Lemma len_firstn_nat {A} (l : list A) n : len (firstn n l) = Z.min (Z.of_nat n) (len l).
Proof. unfold len; rewrite firstn_length; lia. Qed.
Lemma len_rev {A} (l : list A) : len (rev l) = len l.
Proof. unfold len; now rewrite rev_length. Qed.
Lemma len_map {A B} (f : A -> B) l : len (map f l) = len l.
Proof. unfold len; now rewrite map_length. Qed.
Lemma len_0_nil {A} (l : list A) : len l = 0 -> l = [].
Proof. destruct l; [reflexivity|]. rewrite len_cons. pose proof (len_nonneg l). lia. Qed.

Lemma bytes_app a b : bytes (a ++ b) <-> bytes a /\ bytes b.
Proof. unfold bytes; apply Forall_app. Qed.
Lemma bytes_cons x l : bytes (x :: l) <-> byte x /\ bytes l.
Proof. unfold bytes; split; [intros H; inversion H; auto | intros [? ?]; constructor; auto]. Qed.
Lemma bytes_nil : bytes [].  Proof. constructor. Qed.
Lemma In_firstn {A} n (l : list A) x : In x (firstn n l) -> In x l.
Proof. revert l; induction n; intros [|y l]; cbn; try tauto. intros [?|?]; auto. Qed.
Lemma bytes_firstn n l : bytes l -> bytes (firstn n l).
Proof. unfold bytes; rewrite !Forall_forall; intros H x Hx; apply H; eapply In_firstn; eauto. Qed.
Lemma In_skipn {A} n (l : list A) x : In x (skipn n l) -> In x l.
Proof. revert l; induction n; intros [|y l]; cbn; auto. Qed.
Lemma bytes_skipn n l : bytes l -> bytes (skipn n l).
Proof. unfold bytes; rewrite !Forall_forall; intros H x Hx; apply H; eapply In_skipn; eauto. Qed.
Lemma bytes_rev l : bytes l -> bytes (rev l).
Proof. unfold bytes; rewrite !Forall_forall; intros H x Hx; apply H; now apply in_rev. Qed.
Lemma bytes_repeat x n : byte x -> bytes (repeat x n).
Proof. intros; unfold bytes; apply Forall_forall; intros y Hy; apply repeat_spec in Hy; now subst. Qed.
Lemma bytes_nth l i : bytes l -> byte (nth i l 0).
Proof.
  intros H; destruct (Nat.lt_ge_cases i (length l)).
  - unfold bytes in H; rewrite Forall_forall in H; apply H; now apply nth_In.
  - rewrite nth_overflow by lia; unfold byte; lia.
Qed.

Lemma nth_firstn' {A} (l : list A) n i d : (i < n)%nat -> nth i (firstn n l) d = nth i l d.
Proof. revert l i; induction n; intros [|x l] [|i] H; cbn; try lia; auto. apply IHn; lia. Qed.
Lemma nth_skipn' {A} (l : list A) n i d : nth i (skipn n l) d = nth (n + i) l d.
Proof. revert l; induction n; intros [|x l]; cbn; auto. destruct i; reflexivity. Qed.

Lemma rev_append_rev' {A} (l a : list A) : rev_append l a = rev l ++ a.
Proof. apply rev_append_rev. Qed.

(* ---- rd / wr / slice -------------------------------------------------------------------------- *)
Lemma rd_ok b i : 0 <= i < len b -> rd b i = Ok (nth (Z.to_nat i) b 0).
Proof. intros; unfold rd. replace ((0 <=? i) && (i <? len b)) with true; [reflexivity|]. symmetry; apply andb_true_iff; split; [apply Z.leb_le|apply Z.ltb_lt]; lia. Qed.

Lemma rd_cases b i : (0 <= i < len b /\ rd b i = Ok (nth (Z.to_nat i) b 0)) \/ (~ (0 <= i < len b) /\ rd b i = Oob).
Proof.
  unfold rd. destruct (Z.leb_spec 0 i); destruct (Z.ltb_spec i (len b)); cbn [andb]; [left|right|right|right]; split; auto; lia.
Qed.

Lemma len_upd b i v : 0 <= i < len b -> len (upd b i v) = len b.
Proof.
  unfold upd, len; intros. rewrite app_length; cbn [length]. rewrite firstn_length, skipn_length. lia.
Qed.

Lemma wr_ok b i v : 0 <= i < len b -> wr b i v = Ok (upd b i v).
Proof. intros; unfold wr. replace ((0 <=? i) && (i <? len b)) with true; [reflexivity|]. symmetry; apply andb_true_iff; split; [apply Z.leb_le|apply Z.ltb_lt]; lia. Qed.

Lemma wr_cases b i v : (0 <= i < len b /\ wr b i v = Ok (upd b i v)) \/ (~ (0 <= i < len b) /\ wr b i v = Oob).
Proof.
  unfold wr. destruct (Z.leb_spec 0 i); destruct (Z.ltb_spec i (len b)); cbn [andb]; [left|right|right|right]; split; auto; lia.
Qed.

Lemma nth_upd_same b i v : 0 <= i < len b -> nth (Z.to_nat i) (upd b i v) 0 = v.
Proof.
  unfold upd, len; intros. rewrite app_nth2; rewrite firstn_length; [|lia].
  replace (Z.to_nat i - Nat.min (Z.to_nat i) (length b))%nat with 0%nat by lia. reflexivity.
Qed.

Lemma nth_upd_other b i j v : 0 <= i < len b -> 0 <= j -> j <> i -> nth (Z.to_nat j) (upd b i v) 0 = nth (Z.to_nat j) b 0.
Proof.
  unfold upd, len; intros Hi Hj Hne.
  destruct (Z.lt_ge_cases j i).
  - rewrite app_nth1 by (rewrite firstn_length; lia). apply nth_firstn'; lia.
  - rewrite app_nth2 by (rewrite firstn_length; lia). rewrite firstn_length.
    replace (Nat.min (Z.to_nat i) (length b)) with (Z.to_nat i) by lia.
    remember (Z.to_nat j - Z.to_nat i)%nat as d. destruct d as [|d]; [lia|]. cbn [nth].
    rewrite nth_skipn'. f_equal; lia.
Qed.

Lemma firstn_upd_ge b i v n : 0 <= i < len b -> (n <= Z.to_nat i)%nat -> firstn n (upd b i v) = firstn n b.
Proof.
  unfold upd, len; intros. rewrite firstn_app. rewrite firstn_length.
  replace (n - Nat.min (Z.to_nat i) (length b))%nat with 0%nat by lia. cbn [firstn]. rewrite app_nil_r.
  rewrite firstn_firstn. f_equal; lia.
Qed.

Lemma bytes_upd b i v : bytes b -> byte v -> bytes (upd b i v).
Proof.
  intros; unfold upd. apply bytes_app; split; [now apply bytes_firstn|]. apply bytes_cons; split; [auto|now apply bytes_skipn].
Qed.

Lemma slice_ok b i n : 0 <= i -> 0 <= n -> i + n <= len b -> slice b i n = Ok (firstn (Z.to_nat n) (skipn (Z.to_nat i) b)).
Proof.
  intros; unfold slice.
  replace ((0 <=? i) && (0 <=? n) && (i + n <=? len b)) with true; [reflexivity|].
  symmetry; rewrite !andb_true_iff; repeat split; apply Z.leb_le; lia.
Qed.

Lemma slice_cases b i n :
  (0 <= i /\ 0 <= n /\ i + n <= len b /\ slice b i n = Ok (firstn (Z.to_nat n) (skipn (Z.to_nat i) b)))
  \/ (~ (0 <= i /\ 0 <= n /\ i + n <= len b) /\ slice b i n = Oob).
Proof.
  unfold slice. destruct (Z.leb_spec 0 i); destruct (Z.leb_spec 0 n); destruct (Z.leb_spec (i + n) (len b)); cbn [andb];
    [left; repeat split; auto | right | right | right | right | right | right | right]; split; auto; lia.
Qed.

Lemma len_slice b i n l : slice b i n = Ok l -> len l = n.
Proof.
  destruct (slice_cases b i n) as [(Hi & Hn & Hb & E)|[_ E]]; rewrite E; intros H; inversion H; subst.
  rewrite len_firstn; [reflexivity|]. rewrite len_skipn; lia.
Qed.

(* ---- loops ------------------------------------------------------------------------------------ *)
Section Loops.
Context {A R : Type} (body : A -> A + R).

Lemma loop_nat_add n m a :
  loop_nat (n + m) body a = match loop_nat n body a with inl a' => loop_nat m body a' | inr r => inr r end.
Proof.
  revert a; induction n; intros a; cbn [loop_nat Nat.add]; [reflexivity|].
  destruct (body a); [apply IHn|reflexivity].
Qed.

Lemma loop_pos_nat p a : loop_pos p body a = loop_nat (Pos.to_nat p) body a.
Proof.
  revert a; induction p; intros a; cbn [loop_pos].
  - rewrite Pos2Nat.inj_xI. cbn [loop_nat]. destruct (body a) as [a1|r]; [|reflexivity].
    replace (2 * Pos.to_nat p)%nat with (Pos.to_nat p + Pos.to_nat p)%nat by lia.
    rewrite loop_nat_add, IHp. destruct (loop_nat (Pos.to_nat p) body a1); [apply IHp|reflexivity].
  - rewrite Pos2Nat.inj_xO. replace (2 * Pos.to_nat p)%nat with (Pos.to_nat p + Pos.to_nat p)%nat by lia.
    rewrite loop_nat_add, IHp. destruct (loop_nat (Pos.to_nat p) body a); [apply IHp|reflexivity].
  - change (Pos.to_nat 1) with 1%nat. cbn [loop_nat]. destruct (body a); reflexivity.
Qed.

(* invariant rule: I is preserved by continuing iterations, Q holds of every final result *)
Lemma loop_nat_inv (I : A -> Prop) (Q : R -> Prop) :
  (forall a, I a -> match body a with inl a' => I a' | inr r => Q r end) ->
  forall n a, I a -> match loop_nat n body a with inl a' => I a' | inr r => Q r end.
Proof.
  intros Hb; induction n; intros a Ha; cbn [loop_nat]; [exact Ha|].
  specialize (Hb a Ha). destruct (body a); [now apply IHn|exact Hb].
Qed.

(* termination rule: a measure that decreases with every continuing iteration *)
Lemma loop_nat_measure (I : A -> Prop) (m : A -> Z) :
  (forall a, I a -> match body a with inl a' => I a' /\ 0 <= m a' < m a | inr r => True end) ->
  forall n a, I a -> 0 <= m a < Z.of_nat n -> exists r, loop_nat n body a = inr r.
Proof.
  intros Hb; induction n; intros a Ha Hm; cbn [loop_nat]; [lia|].
  specialize (Hb a Ha). destruct (body a) as [a'|r]; [|eauto].
  destruct Hb as [Ha' Hd]. apply IHn; [exact Ha'|lia].
Qed.

Lemma loop_nat_more n m a r : loop_nat n body a = inr r -> loop_nat (n + m) body a = inr r.
Proof. intros H; rewrite loop_nat_add, H; reflexivity. Qed.
End Loops.

Lemma run_loop_inv {A B} (body : A -> A + res B) (I : A -> Prop) (Q : res B -> Prop) (m : A -> Z) bound a :
  (forall a, I a -> match body a with inl a' => I a' /\ 0 <= m a' < m a | inr r => Q r end) ->
  I a -> 0 <= m a < bound -> Q (run_loop bound body a).
Proof.
  intros Hb Ha Hm. unfold run_loop. destruct bound as [|p|p]; try lia.
  rewrite loop_pos_nat.
  destruct (loop_nat_measure body I m) with (n := Pos.to_nat p) (a := a) as [r Hr]; auto.
  - intros a0 Ha0. specialize (Hb a0 Ha0). destruct (body a0); tauto.
  - lia.
  - rewrite Hr. pose proof (loop_nat_inv body I Q) as Hi.
    specialize (Hi (fun a0 Ha0 => match body a0 as b return (match b with inl a' => I a' /\ 0 <= m a' < m a0 | inr r0 => Q r0 end -> match b with inl a' => I a' | inr r0 => Q r0 end) with inl _ => fun H => proj1 H | inr _ => fun H => H end (Hb a0 Ha0)) (Pos.to_nat p) a Ha).
    rewrite Hr in Hi. exact Hi.
Qed.

Lemma run_loop_eq {A B} (body : A -> A + res B) bound a n r :
  loop_nat n body a = inr r -> Z.of_nat n <= bound -> (0 < n)%nat -> run_loop bound body a = r.
Proof.
  intros H Hb Hn. unfold run_loop. destruct bound as [|p|p]; try lia.
  rewrite loop_pos_nat. replace (Pos.to_nat p) with (n + (Pos.to_nat p - n))%nat by lia.
  now rewrite (loop_nat_more body n _ a r H).
Qed.

Lemma firstn_succ_nth' (l : list Z) (n : nat) : (n < length l)%nat -> firstn (S n) l = firstn n l ++ [nth n l 0].
Proof.
  revert l; induction n; intros [|x l] H; cbn [length] in H; try lia; [reflexivity|].
  cbn [firstn nth app]. f_equal. apply IHn. lia.
Qed.
