(* sc_puff against RFC 1951, stage (f) and the result: the block loop of sc_puff, the zlib wrapper handling of
   sc_io_nonuncompress, and configuration independence of sc_io_decode:

     puff_inflates_deflate      sc_puff inflates every byte string that is a deflate stream (DeflateSpec.v) for d
                                to exactly d and reports exactly its length as consumed;
     nonuncompress_inflates     sc_io_nonuncompress returns d for every zlib stream (RFC 1950 + RFC 1951) for d;
     cross_decode_zlib_to_nozlib  the build WITHOUT zlib decodes every text of the build WITH zlib, provided zlib's
                                compress2 emits a conforming stream. *)
From Coq Require Import ZArith List Bool Lia.
From ScV Require Import Base.CInt Gen.Codec C06.Res C06.ResProofs C06.StoredModel C06.AdlerProofs C06.StoredProofs
                        C07.PuffModel C07.PuffSafe C07.PuffHuffman C07.DecodeModel C06.StoredRoundtrip
                        C06.ArmorModel C06.RoundTrip
                        C06.DeflateSpec C06.DeflateCanon C06.DeflateBits C06.DeflateDecode C06.DeflateConstruct
                        C06.DeflateCodes C06.DeflateDynamic.
Import ListNotations.
Local Open Scope Z_scope.

Lemma block_len_out k o fin bs o' : block k o fin bs o' -> len o <= len o' /\ 3 <= len bs.
Proof.
  destruct 1 as [fin pad lo hi d Hal Hp Hlo Hhi Hl Hd | fin bs o' Hs | fin hlit hdist hclen vs lens bs1 bs2 o' H1 H2 H3 H4 H5 H6 H7 H8 H9 Hs].
  - rewrite len_app. pose proof (len_nonneg d). split; [lia|].
    rewrite !len_cons. pose proof (len_nonneg (pad ++ bytes_bits [lo; hi; 255 - lo; 255 - hi] ++ bytes_bits d)). lia.
  - split; [eapply symbols_len; eauto|]. rewrite !len_cons. pose proof (len_nonneg bs). lia.
  - split; [eapply symbols_len; eauto|]. rewrite !len_cons.
    pose proof (len_nonneg (bitsZ 5 hlit ++ bitsZ 5 hdist ++ bitsZ 4 hclen ++ flat_map (bitsZ 3) vs ++ bs1 ++ bs2)). lia.
Qed.

Lemma blocks_len_out k o bs o' : blocks k o bs o' -> len o <= len o'.
Proof.
  induction 1 as [k o bs o' Hb|k o bs1 o1 bs2 o' Hb Hr IH].
  - apply (block_len_out _ _ _ _ _ Hb).
  - pose proof (block_len_out _ _ _ _ _ Hb). lia.
Qed.

Section Blocks.
Variables (c : pcfg) (tail : list Z) (N : Z).
Hypothesis HN : N < M64.
Hypothesis Hroom : c_nil c = false -> N <= c_outlen c /\ N <= c_outcap c.

(* one iteration of the block loop of sc_puff: BFINAL, BTYPE, then the block;
   k + (number of unread bits) is a multiple of 8, i.e. k is the position in the stream modulo 8 *)
Lemma block_step_spec k o fin bs o' : block k o fin bs o' -> len o' <= N ->
  forall s rest, inrep c s (bs ++ rest) tail -> outrep c s o -> (k + len (bs ++ rest)) mod 8 = 0 ->
  exists s', block_step c s = Ok (fin, s') /\ inrep c s' rest tail /\ outrep c s' o'.
Proof.
  destruct 1 as [fin pad lo hi d Hal Hp Hlo Hhi Hl Hd | fin bs o' Hs | fin hlit hdist hclen vs lens bs1 bs2 o' H1 H2 H3 H4 H5 H6 H7 H8 H9 Hs];
    intros HN' s rest Hin Ho Hk; unfold block_step.
  - (* stored *)
    cbn [app] in Hin.
    destruct (bits_spec_1 c s fin _ tail Hin) as (s1 & E1 & R1 & O1). rewrite E1. cbn [bind].
    change (false :: false :: pad ++ bytes_bits [lo; hi; 255 - lo; 255 - hi] ++ bytes_bits d ++ rest)
      with (bitsZ 2 0 ++ pad ++ bytes_bits [lo; hi; 255 - lo; 255 - hi] ++ bytes_bits d ++ rest) in R1.
    rewrite <- !app_assoc in R1.
    destruct (bits_spec c s1 2 0 _ tail R1 ltac:(lia) ltac:(cbn; lia)) as (s2 & E2 & R2 & O2). rewrite E2. cbn [bind].
    change (0 =? 0) with true. cbv iota.
    pose proof (outrep_sameout c s s2 o (sameout_trans _ _ _ O1 O2) Ho) as (Hcnt & Hout & Hbo).
    pose proof (inrep_len _ _ _ _ R2) as Hl2.
    destruct R2 as (avail & Ein & Hb & La & Hi & Hm & Hbc & Hbb & Ebs).
    (* the padding is what is left of the current byte *)
    assert (Hpad : len pad = p_bitcnt s2).
    { cbn [app] in Hk. rewrite !len_cons in Hk. rewrite <- !app_assoc in Hk. pose proof (len_nonneg pad). lia. }
    symmetry in Ebs. apply app_inv_len in Ebs; [|apply Nat2Z.inj; fold (len (bitsZ (p_bitcnt s2) (p_bitbuf s2))); fold (len pad); rewrite bitsZ_length by lia; lia].
    destruct Ebs as [_ Ebs]. rewrite app_assoc, <- bytes_bits_app in Ebs.
    assert (Hbhd : bytes ([lo; hi; 255 - lo; 255 - hi] ++ d)).
    { apply bytes_app. split; [|exact Hd]. unfold byte in *. repeat (apply bytes_cons; split; [unfold byte; lia|]). apply bytes_nil. }
    destruct (bytes_bits_prefix _ _ _ Hb Hbhd Ebs) as (a' & Ea & Er). subst avail rest.
    rewrite !len_app in La. change (len [lo; hi; 255 - lo; 255 - hi]) with 4 in La.
    pose proof (len_nonneg a') as Ha'. pose proof (len_nonneg d) as Hd0. pose proof (len_nonneg o) as Ho0.
    rewrite len_app in HN'.
    destruct s2 as [po poc pin pic pbb pbc]. cbn [p_out p_outcnt p_in p_incnt p_bitbuf p_bitcnt] in *.
    rewrite Ein. rewrite <- !app_assoc.
    rewrite stored_copy; auto; try lia.
    cbn [bind]. replace (negb (b2z fin =? 0)) with fin by (destruct fin; reflexivity).
    eexists. split; [reflexivity|]. split.
    + exists a'. cbn [p_out p_outcnt p_in p_incnt p_bitbuf p_bitcnt]. repeat split; auto; try lia.
      apply bytes_app in Hb. tauto.
    + unfold outrep. cbn [p_out p_outcnt]. rewrite len_app, Hcnt, Hout. split; [reflexivity|]. split.
      * destruct (c_nil c); [reflexivity|]. now rewrite rev_app_distr.
      * apply bytes_app. auto.
  - (* fixed *)
    cbn [app] in Hin.
    destruct (bits_spec_1 c s fin _ tail Hin) as (s1 & E1 & R1 & O1). rewrite E1. cbn [bind].
    change (true :: false :: bs ++ rest) with (bitsZ 2 1 ++ bs ++ rest) in R1.
    destruct (bits_spec c s1 2 1 _ tail R1 ltac:(lia) ltac:(cbn; lia)) as (s2 & E2 & R2 & O2). rewrite E2. cbn [bind].
    change (1 =? 0) with false. change (1 =? 1) with true. cbv iota.
    destruct (fixed_spec c s2 o bs o' rest tail N Hs HN' HN Hroom R2) as (s3 & E3 & R3 & O3).
    { eapply outrep_sameout; [|exact Ho]. eapply sameout_trans; eauto. }
    rewrite E3. cbn [bind]. replace (negb (b2z fin =? 0)) with fin by (destruct fin; reflexivity).
    exists s3. auto.
  - (* dynamic *)
    cbn [app] in Hin.
    destruct (bits_spec_1 c s fin _ tail Hin) as (s1 & E1 & R1 & O1). rewrite E1. cbn [bind].
    match type of R1 with inrep _ _ (false :: true :: ?r) _ => change (false :: true :: r) with (bitsZ 2 2 ++ r) in R1 end.
    destruct (bits_spec c s1 2 2 _ tail R1 ltac:(lia) ltac:(cbn; lia)) as (s2 & E2 & R2 & O2). rewrite E2. cbn [bind].
    change (2 =? 0) with false. change (2 =? 1) with false. change (2 =? 2) with true. cbv iota.
    rewrite <- !app_assoc in R2.
    destruct (dynamic_spec c s2 o hlit hdist hclen vs lens bs1 bs2 o' rest tail N H1 H2 H3 H4 H5 H6 H7 H8 H9 Hs HN' HN Hroom R2) as (s3 & E3 & R3 & O3).
    { eapply outrep_sameout; [|exact Ho]. eapply sameout_trans; eauto. }
    rewrite E3. cbn [bind]. replace (negb (b2z fin =? 0)) with fin by (destruct fin; reflexivity).
    exists s3. auto.
Qed.

Let body := fun s => lift_step (block_step c s) (fun s : pstate => s).

(* the block loop on a sequence of blocks *)
Lemma blocks_loop k o bs o' : blocks k o bs o' -> len o' <= N ->
  forall s rest, inrep c s (bs ++ rest) tail -> outrep c s o -> (k + len (bs ++ rest)) mod 8 = 0 ->
  exists n s', (0 < n)%nat /\ Z.of_nat n <= len bs /\
    loop_nat n body s = inr (Ok s') /\ inrep c s' rest tail /\ outrep c s' o'.
Proof.
  induction 1 as [k o bs o' Hb|k o bs1 o1 bs2 o' Hb Hr IH]; intros HN' s rest Hin Ho Hk.
  - destruct (block_step_spec k o true bs o' Hb HN' s rest Hin Ho Hk) as (s' & E & R & O).
    exists 1%nat, s'. split; [lia|]. split; [pose proof (block_len_out _ _ _ _ _ Hb); lia|].
    cbn [loop_nat]. unfold body. rewrite E. cbn [lift_step]. auto.
  - rewrite <- app_assoc in Hin, Hk.
    pose proof (blocks_len_out _ _ _ _ Hr) as Hlo.
    destruct (block_step_spec k o false bs1 o1 Hb ltac:(lia) s (bs2 ++ rest) Hin Ho Hk) as (s1 & E & R & O).
    destruct (IH HN' s1 rest R O) as (n & s' & Hn & Hnb & El & R' & O').
    { rewrite len_app in Hk. rewrite <- Z.add_assoc. exact Hk. }
    exists (S n), s'. split; [lia|]. split; [rewrite len_app; pose proof (block_len_out _ _ _ _ _ Hb); lia|].
    cbn [loop_nat]. unfold body at 1. rewrite E. cbn [lift_step]. auto.
Qed.
End Blocks.

(* ---- sc_puff ---------------------------------------------------------------------------------------------------- *)
(* THE THEOREM: sc_puff inflates every deflate stream.  s: the sourcelen bytes handed to sc_puff, tail: whatever
   follows them in memory (the Adler-32 trailer), dnil: dest == NIL (scanning only), cap: the memory at dest. *)
Theorem puff_inflates_deflate_gen s d tail dnil cap destlen :
  deflate_stream s d -> bytes s -> len s < M64 -> len d <= destlen < M64 -> (dnil = false -> destlen <= cap) ->
  puff dnil cap destlen (s ++ tail) (len s) = Ok (0, len d, len s, if dnil then [] else d) /\ bytes d.
Proof.
  intros (bs & pad & Ebits & Hpad & Hbl) Hb Hs Hd Hcap. unfold deflate_bits in Hbl.
  unfold puff. set (c := mkCfg dnil destlen cap (len s)).
  set (s0 := mkSt [] 0 (s ++ tail) 0 0 0).
  pose proof (len_nonneg s) as Hs0. pose proof (len_nonneg d) as Hd0.
  assert (Hin : inrep c s0 (bs ++ pad) tail).
  { exists s. unfold c, s0. cbn [p_in p_incnt p_bitbuf p_bitcnt c_inlen]. repeat split; auto; try lia. }
  assert (Ho : outrep c s0 []).
  { unfold outrep, c, s0. cbn [p_out p_outcnt c_nil]. repeat split; [destruct dnil; reflexivity|apply bytes_nil]. }
  assert (Hk : (0 + len (bs ++ pad)) mod 8 = 0).
  { rewrite <- Ebits. unfold len. rewrite bytes_bits_length. rewrite Z.add_0_l, Z.mul_comm. apply Z.mod_mul. lia. }
  destruct (blocks_loop c tail destlen ltac:(lia) ltac:(unfold c; cbn [c_nil c_outlen c_outcap]; intros H; specialize (Hcap H); lia)
              0 [] bs d Hbl ltac:(lia) s0 pad Hin Ho Hk) as (n & s' & Hn & Hnb & El & R & O).
  assert (Hbound : len bs <= 8 * len s).
  { apply (f_equal (@len bool)) in Ebits. unfold len at 1 in Ebits. rewrite bytes_bits_length, len_app in Ebits.
    pose proof (len_nonneg pad). lia. }
  rewrite (run_loop_eq _ _ _ n _ El) by lia.
  pose proof (inrep_len _ _ _ _ R) as Hl'. destruct R as (avail & _ & _ & La & Hi' & _ & Hbc & _).
  pose proof (len_nonneg avail). unfold c in Hl', La. cbn [c_inlen] in Hl', La.
  destruct O as (Oc & Oo & Ob). unfold c in Oo. cbn [c_nil] in Oo.
  assert (Einc : p_incnt s' = len s) by lia.
  rewrite Oc, Einc, Oo. split; [|exact Ob]. destruct dnil; [reflexivity|].
  rewrite rev_append_rev, app_nil_r, rev_involutive. reflexivity.
Qed.

Theorem puff_inflates_deflate s d tail dnil cap :
  deflate_stream s d -> bytes s -> len s < M64 -> len d < M64 -> (dnil = false -> len d <= cap) ->
  puff dnil cap (len d) (s ++ tail) (len s) = Ok (0, len d, len s, if dnil then [] else d) /\ bytes d.
Proof. intros. apply puff_inflates_deflate_gen; auto. lia. Qed.

(* consequently the specification is functional: a byte string is a deflate stream for at most one data string *)
Corollary deflate_stream_functional s d d' : bytes s -> len s < M64 -> len d < M64 -> len d' < M64 ->
  deflate_stream s d -> deflate_stream s d' -> d = d'.
Proof.
  intros Hb Hs Hd Hd' H1 H2.
  destruct (puff_inflates_deflate_gen s d [] false (Z.max (len d) (len d')) (Z.max (len d) (len d')) H1 Hb Hs ltac:(lia) ltac:(lia)) as [E1 _].
  destruct (puff_inflates_deflate_gen s d' [] false (Z.max (len d) (len d')) (Z.max (len d) (len d')) H2 Hb Hs ltac:(lia) ltac:(lia)) as [E2 _].
  rewrite E1 in E2. now inversion E2.
Qed.

(* only the position modulo 8 matters *)
Lemma block_shift k1 k2 o fin bs o' : block k1 o fin bs o' -> (k2 - k1) mod 8 = 0 -> block k2 o fin bs o'.
Proof.
  intros Hb Hk. destruct Hb.
  - apply bk_stored; auto. lia.
  - now apply bk_fixed.
  - eapply bk_dynamic; eauto.
Qed.

(* the stored-block specification of StoredProofs.v is a special case of the new one *)
Lemma stored_blocks_are_blocks bl d : stored_blocks bl d -> bytes bl -> forall o, blocks 0 o (bytes_bits bl) (o ++ d).
Proof.
  induction 1 as [h lo hi d Hh Hm Hlo Hhi Hl | h lo hi d rest drest Hh Hm Hlo Hhi Hl Hr IH]; intros Hb o.
  - apply bytes_app in Hb. destruct Hb as [_ Hd].
    apply bs_last. rewrite bytes_bits_app.
    change (bytes_bits [h; lo; hi; 255 - lo; 255 - hi]) with (byte_bits h ++ bytes_bits [lo; hi; 255 - lo; 255 - hi]).
    assert (Eh : byte_bits h = true :: false :: false :: bits_n 5 (h / 8)).
    { apply (byte_all (fun h => negb (h mod 8 =? 1) || (if list_eq_dec bool_dec (byte_bits h) (true :: false :: false :: bits_n 5 (h / 8)) then true else false)))
        with (x := h) in Hh; [|vm_compute; reflexivity].
      rewrite Hm in Hh. cbn [Z.eqb Pos.eqb negb orb] in Hh.
      destruct (list_eq_dec bool_dec (byte_bits h) (true :: false :: false :: bits_n 5 (h / 8))); [assumption|discriminate]. }
    rewrite Eh. cbn [app]. rewrite <- app_assoc.
    apply (bk_stored 0 o true (bits_n 5 (h / 8)) lo hi d); auto. unfold len. rewrite bits_n_length. reflexivity.
  - apply bytes_app in Hb. destruct Hb as [_ Hb]. apply bytes_app in Hb. destruct Hb as [Hd Hrest].
    rewrite !bytes_bits_app.
    change (bytes_bits [h; lo; hi; 255 - lo; 255 - hi]) with (byte_bits h ++ bytes_bits [lo; hi; 255 - lo; 255 - hi]).
    assert (Eh : byte_bits h = false :: false :: false :: bits_n 5 (h / 8)).
    { apply (byte_all (fun h => negb (h mod 8 =? 0) || (if list_eq_dec bool_dec (byte_bits h) (false :: false :: false :: bits_n 5 (h / 8)) then true else false)))
        with (x := h) in Hh; [|vm_compute; reflexivity].
      rewrite Hm in Hh. cbn [Z.eqb negb orb] in Hh.
      destruct (list_eq_dec bool_dec (byte_bits h) (false :: false :: false :: bits_n 5 (h / 8))); [assumption|discriminate]. }
    rewrite Eh. rewrite (app_assoc _ (bytes_bits d)). rewrite (app_assoc o).
    apply (bs_more 0 o _ (o ++ d)).
    + cbn [app]. rewrite <- app_assoc.
      apply (bk_stored 0 o false (bits_n 5 (h / 8)) lo hi d); auto; unfold len; rewrite bits_n_length; first [reflexivity|lia].
    + specialize (IH Hrest (o ++ d)). rewrite <- app_assoc in IH.
      assert (Ek : (0 + len (((false :: false :: false :: bits_n 5 (h / 8)) ++ bytes_bits [lo; hi; 255 - lo; 255 - hi]) ++ bytes_bits d)) mod 8 = 0).
      { rewrite !len_app. unfold len. rewrite !bytes_bits_length. cbn [length]. rewrite bits_n_length. unfold len. cbn [length]. lia. }
      (* only k mod 8 matters *)
      revert IH Ek. generalize (0 + len (((false :: false :: false :: bits_n 5 (h / 8)) ++ bytes_bits [lo; hi; 255 - lo; 255 - hi]) ++ bytes_bits d)).
      intros k IH Ek. clear - IH Ek.
      assert (Hgen : forall k1 o bs o', blocks k1 o bs o' -> forall k2, (k2 - k1) mod 8 = 0 -> blocks k2 o bs o').
      { clear. induction 1 as [k o bs o' Hb|k o bs1 o1 bs2 o' Hb Hr IH]; intros k2 Hk.
        - apply bs_last. apply (block_shift k k2); auto.
        - apply bs_more with (o1 := o1); [apply (block_shift k k2); auto|]. apply IH. lia. }
      rewrite app_assoc in IH. apply (Hgen 0); [exact IH|lia].
Qed.

Lemma zlib_stored_is_zlib s d : zlib_stored_stream s d -> bytes s -> zlib_stream s d.
Proof.
  intros (cmf & flg & bl & Es & H1 & H2 & H3 & H4 & Hsb) Hb. exists cmf, flg, bl. repeat split; auto.
  exists (bytes_bits bl), []. rewrite app_nil_r. split; [reflexivity|]. split; [unfold len; cbn; lia|].
  subst s. apply bytes_app in Hb. destruct Hb as [_ Hb]. apply bytes_app in Hb. destruct Hb as [Hb _].
  apply (stored_blocks_are_blocks bl d Hsb Hb []).
Qed.

(* ---- sc_io_nonuncompress ------------------------------------------------------------------------------------------ *)
(* the reader of the build without zlib accepts every zlib stream - stored, fixed and dynamic blocks in any mixture -
   and returns the data; dnil: the destination pointer is NULL, which libsc passes only for a declared size 0 *)
Theorem nonuncompress_inflates z d cap dnil :
  zlib_stream z d -> bytes z -> len z < M64 -> len d < M64 ->
  (dnil = false -> len d <= cap) -> (dnil = true -> d = []) ->
  nonuncompress z (len d) cap dnil = Ok d.
Proof.
  intros (cmf & flg & body & Es & Hcm & Hci & Hfc & Hfd & Hds) Hb Hmax Hdmax Hcap Hnil.
  subst z.
  apply bytes_app in Hb. destruct Hb as [Hh Hb].
  apply bytes_cons in Hh. destruct Hh as [Hcmf Hh]. apply bytes_cons in Hh. destruct Hh as [Hflg _].
  apply bytes_app in Hb. destruct Hb as [Hbody _].
  rewrite !len_app, be32_len in Hmax. change (len [cmf; flg]) with 2 in Hmax.
  pose proof (len_nonneg body) as Hb0. pose proof (len_nonneg d) as Hd0.
  destruct (puff_inflates_deflate body d (be32 (adler32 d)) dnil cap Hds Hbody ltac:(lia) Hdmax Hcap) as [Epuff Hdb].
  assert (Hlen5 : 1 <= len body).
  { destruct Hds as (bs & pad & Ebits & Hpad & Hbl). unfold deflate_bits in Hbl.
    assert (3 <= len bs).
    { inversion Hbl as [k o bs' o' Hblk|k o bs1 o1 bs2 o' Hblk Hr]; subst.
      - apply (block_len_out _ _ _ _ _ Hblk).
      - rewrite len_app. pose proof (block_len_out _ _ _ _ _ Hblk). pose proof (len_nonneg bs2). lia. }
    apply (f_equal (@len bool)) in Ebits. unfold len at 1 in Ebits. rewrite bytes_bits_length, len_app in Ebits.
    pose proof (len_nonneg pad). lia. }
  unfold nonuncompress. cbv zeta.
  rewrite !len_app, be32_len. change (len [cmf; flg]) with 2.
  destruct (Z.ltb_spec (2 + (len body + 4)) 2) as [|_]; [lia|].
  rewrite rd_ok by (rewrite !len_app, be32_len; change (len [cmf; flg]) with 2; lia).
  rewrite rd_ok by (rewrite !len_app, be32_len; change (len [cmf; flg]) with 2; lia).
  change (Z.to_nat 0) with 0%nat. change (Z.to_nat 1) with 1%nat.
  cbn [app nth skipn bind].
  rewrite (cmf_check cmf Hcmf Hcm Hci). rewrite (fcheck_check cmf flg Hcmf Hflg Hfc). rewrite (flg_check flg Hflg Hfd).
  cbn [Z.eqb Pos.eqb negb].
  destruct (Z.ltb_spec (2 + (len body + 4) - 2) 5) as [|_]; [lia|].
  replace (2 + (len body + 4) - 2 - 4) with (len body) by lia.
  rewrite (u64_id (len body)) by lia.
  rewrite Epuff. cbn [bind Z.eqb negb]. rewrite !Z.eqb_refl. cbn [negb orb].
  assert (Eo : (if dnil then [] else d) = d) by (destruct dnil; [symmetry; now apply Hnil|reflexivity]).
  rewrite Eo.
  rewrite slice_ok by (rewrite ?len_app, ?be32_len; lia). cbn [bind].
  rewrite skipn_len_app. change (firstn (Z.to_nat 4) (be32 (adler32 d))) with (be32 (adler32 d)).
  rewrite adler_update_spec by (auto; unfold adler_init, M32; lia).
  rewrite be4_be32 by apply adler32_from_range.
  change (adler32_from adler_init d) with (adler32 d).
  destruct (list_eq_dec Z.eq_dec (be32 (adler32 d)) (be32 (adler32 d))) as [_|Hne]; [reflexivity|].
  exfalso; apply Hne; reflexivity.
Qed.

(* ---- configuration independence: text of the build with zlib, reader of the build without --------------------------- *)
(* compress2 of the build with zlib is external code.  Its contract here is CONFORMANCE, not a round trip with some
   inflate: at every level it emits a byte string that is a zlib stream (RFC 1950 wrapper around an RFC 1951 deflate
   stream, DeflateSpec.v) for its input.  Then sc_io_decode of the build WITHOUT zlib (sc_io_nonuncompress + sc_puff)
   returns the data, for every level, all 256 break bytes, every element size dividing the length, owner or view. *)
Section ZlibConforms.
  Variable deflate : Z -> list Z -> list Z.                 (* compress2 at a level *)
  Hypothesis deflate_bytes : forall l d, bytes d -> bytes (deflate l d).
  Hypothesis deflate_conforms : forall l d, bytes d -> zlib_stream (deflate l d) d.

  Theorem cross_decode_zlib_to_nozlib lvl lb d out maxsz :
    bytes d -> 9 + len (deflate lvl d) < M64 / 4 -> len d < M64 / 2 ->
    len d / 1032 <= 9 + len (deflate lvl d) ->      (* the ratio guard of the decoder (commit 5c6a588) *)
    0 < o_esz out -> (len d) mod (o_esz out) = 0 ->
    (maxsz <= 0 \/ len d <= maxsz) ->
    (o_owner out = false -> len d <= o_cnt out * o_esz out < M64) ->
    sc_decode (sc_encode_with (deflate lvl) lb d) out maxsz = Ok (len d / o_esz out, d).
  Proof.
    intros Hd Hc Hn Hratio Hesz Hmod Hmax Hview.
    (* decode_encode wants the decompressor contract for all inputs: streams that are no objects in memory
       (2^64 bytes or more) are replaced by libsc's own stored stream, which never happens for d itself *)
    set (compress := fun d0 => if len (deflate lvl d0) <? M64 then deflate lvl d0 else noncompress d0).
    assert (Ec : compress d = deflate lvl d).
    { unfold compress. destruct (Z.ltb_spec (len (deflate lvl d)) M64); [reflexivity|].
      unfold M64 in *. change (18446744073709551616 / 4) with 4611686018427387904 in Hc. lia. }
    unfold sc_decode. replace (sc_encode_with (deflate lvl) lb d) with (sc_encode_with compress lb d)
      by (unfold sc_encode_with; rewrite Ec; reflexivity).
    apply (decode_encode compress nonuncompress); try rewrite Ec; auto.
    - intros d0 Hd0. unfold compress. destruct (len (deflate lvl d0) <? M64); [now apply deflate_bytes|now apply noncompress_bytes].
    - intros d0 cap nil Hd0 Hn0 Hcap Hnil. unfold compress.
      destruct (Z.ltb_spec (len (deflate lvl d0)) M64) as [Hsmall|Hbig].
      + apply nonuncompress_inflates; auto.
        unfold M64 in *. change (18446744073709551616 / 2) with 9223372036854775808 in Hn0. lia.
      + apply stored_roundtrip; auto.
  Qed.
End ZlibConforms.
