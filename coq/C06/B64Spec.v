(* RFC 4648 base 64, written independently of libb64: 24-bit groups by division, alphabet by ranges,
   '=' padding.  Also the line-wrapping specification of the sc_io armor.  Definitions only. *)
From Coq Require Import ZArith List Bool.
Import ListNotations.
Local Open Scope Z_scope.

(* the alphabet of RFC 4648 section 4: A-Z a-z 0-9 + / *)
Definition b64char (v : Z) : Z :=
  if v <? 26 then 65 + v
  else if v <? 52 then 97 + (v - 26)
  else if v <? 62 then 48 + (v - 52)
  else if v =? 62 then 43 else 47.

Fixpoint rfc4648 (l : list Z) : list Z :=
  match l with
  | a :: b :: c :: r =>
      b64char (a / 4) :: b64char (a mod 4 * 16 + b / 16) :: b64char (b mod 16 * 4 + c / 64) :: b64char (c mod 64)
      :: rfc4648 r
  | [a; b] => [b64char (a / 4); b64char (a mod 4 * 16 + b / 16); b64char (b mod 16 * 4); 61]
  | [a] => [b64char (a / 4); b64char (a mod 4 * 16); 61; 61]
  | [] => []
  end.

(* lines of at most 76 characters, each followed by the two break bytes [lb; '\n'];
   the fuel only makes the recursion structural (any fuel > length / 76 gives the same result) *)
Fixpoint wrap76 (fuel : nat) (lb : Z) (code : list Z) : list Z :=
  match fuel with
  | O => []
  | S f => if (length code <=? 76)%nat then code ++ [lb; 10]
           else firstn 76 code ++ [lb; 10] ++ wrap76 f lb (skipn 76 code)
  end.
