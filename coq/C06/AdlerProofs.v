(* sc_io_adler32_update: the reduction deferred for 5000 bytes in 32-bit arithmetic equals the
   mathematical Adler-32 of RFC 1950 (needs the no-overflow bound), and the list version used by the
   models is the GENERATED loop (Gen/Codec.v). *)
From Coq Require Import ZArith List Bool Lia.
From ScV Require Import Base.CInt Gen.Codec C06.Res C06.ResProofs C06.StoredModel.
Import ListNotations.
Local Open Scope Z_scope.

Definition ADLER_P : Z := 65521.

(* RFC 1950: s1 = 1 + sum of all bytes, s2 = sum of all s1 values, both modulo 65521;
   here the sums themselves, without any reduction *)
Fixpoint adler_sums (l : list Z) (a b : Z) : Z * Z :=
  match l with
  | [] => (a, b)
  | x :: r => adler_sums r (a + x) (b + (a + x))
  end.

Definition adler32_from (adler : Z) (l : list Z) : Z :=
  let '(a, b) := adler_sums l (adler mod 65536) (adler / 65536) in
  (b mod ADLER_P) * 65536 + a mod ADLER_P.

Definition adler32 (l : list Z) : Z := adler32_from 1 l.

(* loop invariant: congruent to the unreduced sums, and small enough not to overflow 32 bits *)
Definition adler_inv (st : Z * Z * Z) (a b : Z) : Prop :=
  let '(cn, s1, s2) := st in
  0 <= cn <= 5000 /\ 0 <= s1 <= 65535 + 255 * cn /\
  0 <= s2 /\ 2 * s2 <= 2 * 65535 + 2 * 65535 * cn + 255 * (cn * (cn + 1)) /\
  s1 mod ADLER_P = a mod ADLER_P /\ s2 mod ADLER_P = b mod ADLER_P.

Lemma adler_step_inv cn s1 s2 a b x : byte x -> adler_inv (cn, s1, s2) a b ->
  adler_inv (adler_step (cn, s1, s2) x) (a + x) (b + (a + x)).
Proof.
  intros Hx (Hcn & Hs1 & Hs2 & Hb2 & E1 & E2). unfold byte in Hx. unfold adler_step, ADLER_P in *.
  assert (Hsq : cn * (cn + 1) <= 5000 * 5001) by nia.
  destruct (Z.eqb_spec cn 5000) as [->|Hne].
  - (* reduce *)
    assert (R1 : 0 <= s1 mod 65521 < 65521) by (apply Z.mod_pos_bound; lia).
    assert (R2 : 0 <= s2 mod 65521 < 65521) by (apply Z.mod_pos_bound; lia).
    unfold adler_inv, ADLER_P, u32, wrapu, s16, wraps, M32, M16.
    rewrite (Z.mod_small (s1 mod 65521 + x)) by lia.
    rewrite (Z.mod_small (s2 mod 65521 + (s1 mod 65521 + x))) by lia.
    change ((0 + 1 + 65536 / 2) mod 65536 - 65536 / 2) with 1.
    repeat split; lia.
  - unfold adler_inv, ADLER_P, u32, wrapu, s16, wraps, M32, M16.
    assert (Hsq2 : (cn + 1) * (cn + 1 + 1) <= 5000 * 5001) by nia.
    rewrite (Z.mod_small (s1 + x)) by lia.
    rewrite (Z.mod_small (s2 + (s1 + x))) by nia.
    replace ((cn + 1 + 65536 / 2) mod 65536 - 65536 / 2) with (cn + 1)
      by (change (65536 / 2) with 32768; rewrite Z.mod_small by lia; lia).
    repeat split; try lia; nia.
Qed.

Lemma adler_fold_inv l : forall st a b, bytes l -> adler_inv st a b ->
  adler_inv (fold_left adler_step l st) (fst (adler_sums l a b)) (snd (adler_sums l a b)).
Proof.
  induction l as [|x l IH]; intros [[cn s1] s2] a b Hl Hi; [exact Hi|].
  apply bytes_cons in Hl. destruct Hl as [Hx Hl]. cbn [fold_left adler_sums].
  apply IH; [exact Hl|]. now apply adler_step_inv.
Qed.

(* deferred reduction = mathematical Adler-32, from any 32-bit start value *)
Theorem adler_update_spec adler l : bytes l -> 0 <= adler < M32 ->
  adler_update adler l = adler32_from adler l.
Proof.
  intros Hl Ha. unfold adler_update, adler32_from. unfold M32 in Ha.
  assert (H1 : Z.land adler 65535 = adler mod 65536) by (apply (land_ones_mod adler 16); lia).
  assert (H2 : shr adler 16 = adler / 65536) by reflexivity.
  rewrite H1, H2.
  assert (R1 : 0 <= adler mod 65536 < 65536) by (apply Z.mod_pos_bound; lia).
  assert (R2 : 0 <= adler / 65536 < 65536) by (split; [apply Z.div_pos; lia | apply Z.div_lt_upper_bound; lia]).
  pose proof (adler_fold_inv l (0, adler mod 65536, adler / 65536) (adler mod 65536) (adler / 65536) Hl) as Hi.
  destruct (fold_left adler_step l (0, adler mod 65536, adler / 65536)) as [[cn s1] s2].
  destruct (adler_sums l (adler mod 65536) (adler / 65536)) as [a b]. cbn [fst snd] in Hi.
  destruct Hi as (_ & _ & _ & _ & E1 & E2).
  { unfold adler_inv. repeat split; try lia. }
  unfold ADLER_P in *. rewrite E1, E2.
  assert (Q1 : 0 <= a mod 65521 < 65521) by (apply Z.mod_pos_bound; lia).
  assert (Q2 : 0 <= b mod 65521 < 65521) by (apply Z.mod_pos_bound; lia).
  unfold shl, u32, wrapu, M32. change (2 ^ 16) with 65536.
  rewrite (Z.mod_small (b mod 65521 * 65536)) by lia. rewrite Z.mod_small by lia. reflexivity.
Qed.

Lemma adler_sums_app a1 b1 x y :
  adler_sums (x ++ y) a1 b1 = adler_sums y (fst (adler_sums x a1 b1)) (snd (adler_sums x a1 b1)).
Proof. revert a1 b1; induction x as [|c x IH]; intros; cbn [app adler_sums fst snd]; [reflexivity|apply IH]. Qed.

Lemma adler_sums_mod l : forall a b a' b',
  a mod ADLER_P = a' mod ADLER_P -> b mod ADLER_P = b' mod ADLER_P ->
  fst (adler_sums l a b) mod ADLER_P = fst (adler_sums l a' b') mod ADLER_P /\
  snd (adler_sums l a b) mod ADLER_P = snd (adler_sums l a' b') mod ADLER_P.
Proof.
  unfold ADLER_P. induction l as [|x l IH]; intros a b a' b' Ea Eb; cbn [adler_sums fst snd]; [auto|].
  apply IH.
  - rewrite Z.add_mod by lia. rewrite Ea. rewrite <- Z.add_mod by lia. reflexivity.
  - rewrite Z.add_mod by lia. rewrite Eb. rewrite (Z.add_mod a x) by lia. rewrite Ea.
    rewrite <- (Z.add_mod a' x) by lia. rewrite <- Z.add_mod by lia. reflexivity.
Qed.

Lemma adler32_from_range adler l : 0 <= adler32_from adler l < M32 /\
  adler32_from adler l mod 65536 = fst (adler_sums l (adler mod 65536) (adler / 65536)) mod ADLER_P /\
  adler32_from adler l / 65536 = snd (adler_sums l (adler mod 65536) (adler / 65536)) mod ADLER_P.
Proof.
  unfold adler32_from, ADLER_P, M32. destruct (adler_sums l (adler mod 65536) (adler / 65536)) as [a b]. cbn [fst snd].
  assert (Q1 : 0 <= a mod 65521 < 65521) by (apply Z.mod_pos_bound; lia).
  assert (Q2 : 0 <= b mod 65521 < 65521) by (apply Z.mod_pos_bound; lia).
  repeat split; lia.
Qed.

(* block-wise computation = computation in one piece (what the writer does vs what the reader does) *)
Theorem adler32_from_app adler x y :
  adler32_from (adler32_from adler x) y = adler32_from adler (x ++ y).
Proof.
  destruct (adler32_from_range adler x) as (_ & M & D).
  unfold adler32_from at 1. rewrite M, D. unfold adler32_from. rewrite adler_sums_app.
  destruct (adler_sums x (adler mod 65536) (adler / 65536)) as [a b]. cbn [fst snd].
  destruct (adler_sums_mod y (a mod ADLER_P) (b mod ADLER_P) a b) as [F S].
  - unfold ADLER_P; apply Z.mod_mod; lia.
  - unfold ADLER_P; apply Z.mod_mod; lia.
  - destruct (adler_sums y (a mod ADLER_P) (b mod ADLER_P)) as [a1 b1].
    destruct (adler_sums y a b) as [a2 b2]. cbn [fst snd] in *. now rewrite F, S.
Qed.

Theorem adler_update_app adler x y : bytes x -> bytes y -> 0 <= adler < M32 ->
  adler_update (adler_update adler x) y = adler_update adler (x ++ y).
Proof.
  intros Hx Hy Ha. rewrite (adler_update_spec adler x Hx Ha).
  rewrite adler_update_spec; [|exact Hy|apply adler32_from_range].
  rewrite adler_update_spec; [|apply bytes_app; auto|exact Ha]. apply adler32_from_app.
Qed.

Lemma adler_update_range adler l : bytes l -> 0 <= adler < M32 -> 0 <= adler_update adler l < M32.
Proof. intros Hl Ha. rewrite adler_update_spec by assumption. apply adler32_from_range. Qed.

(* ---- tie to the generated loop ------------------------------------------------------------------ *)
Lemma gen_adler_loop rest : forall fuel f length cn iz s1 s2,
  0 <= iz -> length = iz + len rest -> length < M64 ->
  (forall j, (j < List.length rest)%nat -> u8 (f (iz + Z.of_nat j)) = nth j rest 0) ->
  (List.length rest < fuel)%nat ->
  sc_io_adler32_update_loop1 fuel f length cn iz s1 s2 =
  Some (inl (let '(cn', s1', s2') := fold_left adler_step rest (cn, s1, s2) in (cn', length, s1', s2'))).
Proof.
  induction rest as [|x rest IH]; intros fuel f length cn iz s1 s2 Hiz Hlen Hmax Hf Hfuel.
  - destruct fuel; [cbn in Hfuel; lia|]. cbn [sc_io_adler32_update_loop1 fold_left].
    rewrite len_nil in Hlen. destruct (Z.ltb_spec iz length); [lia|]. subst; repeat f_equal; lia.
  - destruct fuel; [cbn in Hfuel; lia|]. cbn [sc_io_adler32_update_loop1 fold_left].
    rewrite len_cons in Hlen. pose proof (len_nonneg rest).
    destruct (Z.ltb_spec iz length); [|lia].
    pose proof (Hf 0%nat ltac:(cbn; lia)) as Hf0. cbn [nth] in Hf0. rewrite Z.add_0_r in Hf0. rewrite Hf0.
    unfold M64 in *.
    replace (u64 (iz + 1)) with (iz + 1) by (unfold u64, wrapu, M64; rewrite Z.mod_small; lia).
    unfold adler_step at 2.
    destruct (cn =? 5000).
    + rewrite IH; [reflexivity|lia|lia|unfold M64; lia| |cbn in Hfuel; lia].
      intros j Hj. specialize (Hf (S j) ltac:(cbn; lia)). cbn [nth] in Hf. rewrite <- Hf. f_equal. f_equal. lia.
    + rewrite IH; [reflexivity|lia|lia|unfold M64; lia| |cbn in Hfuel; lia].
      intros j Hj. specialize (Hf (S j) ltac:(cbn; lia)). cbn [nth] in Hf. rewrite <- Hf. f_equal. f_equal. lia.
Qed.

(* the generated C function on a buffer whose bytes (as `char` values, reduced modulo 256) are l *)
Theorem gen_adler_update fuel adler f l : len l < M64 ->
  (forall j, (j < List.length l)%nat -> u8 (f (Z.of_nat j)) = nth j l 0) -> (List.length l < fuel)%nat ->
  sc_io_adler32_update fuel adler f (len l) = Some (adler_update adler l).
Proof.
  intros Hmax Hf Hfuel. unfold sc_io_adler32_update.
  rewrite (gen_adler_loop l fuel f (len l) 0 0 (Z.land adler 65535) (shr adler 16)); auto; try lia.
  unfold adler_update. destruct (fold_left adler_step l (0, Z.land adler 65535, shr adler 16)) as [[cn s1] s2]. reflexivity.
Qed.

(* the generated C function computes the mathematical Adler-32 (both steps together) *)
Theorem gen_adler_is_spec fuel adler f l : bytes l -> 0 <= adler < M32 -> len l < M64 ->
  (forall j, (j < List.length l)%nat -> u8 (f (Z.of_nat j)) = nth j l 0) -> (List.length l < fuel)%nat ->
  sc_io_adler32_update fuel adler f (len l) = Some (adler32_from adler l).
Proof.
  intros Hl Ha Hmax Hf Hfuel. rewrite (gen_adler_update fuel adler f l Hmax Hf Hfuel).
  now rewrite adler_update_spec.
Qed.
