(* sc_io_noncompress: the stream it writes is a zlib stream (RFC 1950) of stored deflate blocks
   (RFC 1951 section 3.2.4) for the input, with the mathematical Adler-32; its length is the generated
   sc_io_noncompress_bound. *)
From Coq Require Import ZArith List Bool Lia.
From ScV Require Import Base.CInt Gen.Codec C06.Res C06.ResProofs C06.StoredModel C06.AdlerProofs.
Import ListNotations.
Local Open Scope Z_scope.

(* ---- the format, written from the RFCs ---------------------------------------------------------- *)
(* RFC 1951: a block header has BFINAL in bit 0 and BTYPE in bits 1-2; a stored block (BTYPE = 00)
   skips the remaining bits of that byte and continues with LEN and NLEN = one's complement of LEN,
   both 16-bit little-endian, then LEN literal bytes. *)
Inductive stored_blocks : list Z -> list Z -> Prop :=
| sb_last h lo hi d :
    byte h -> h mod 8 = 1 -> byte lo -> byte hi -> len d = lo + 256 * hi ->
    stored_blocks ([h; lo; hi; 255 - lo; 255 - hi] ++ d) d
| sb_more h lo hi d rest drest :
    byte h -> h mod 8 = 0 -> byte lo -> byte hi -> len d = lo + 256 * hi ->
    stored_blocks rest drest ->
    stored_blocks ([h; lo; hi; 255 - lo; 255 - hi] ++ d ++ rest) (d ++ drest).

Definition be32 (a : Z) : list Z := [a / 16777216; a / 65536 mod 256; a / 256 mod 256; a mod 256].

(* RFC 1950: CMF (CM = 8 deflate in the low nibble, CINFO <= 7 in the high one), FLG with
   (CMF * 256 + FLG) mod 31 = 0 and FDICT (bit 5) clear, the deflate data, ADLER32 big-endian *)
Definition zlib_stored_stream (s d : list Z) : Prop :=
  exists cmf flg blocks,
    s = [cmf; flg] ++ blocks ++ be32 (adler32 d) /\
    cmf mod 16 = 8 /\ cmf / 16 <= 7 /\ (cmf * 256 + flg) mod 31 = 0 /\ (flg / 32) mod 2 = 0 /\
    stored_blocks blocks d.

(* ---- the writer ---------------------------------------------------------------------------------- *)
Definition nblocks (size : Z) : Z := Z.max 1 ((size + 65530) / 65531).

Lemma be4_be32 a : 0 <= a < M32 -> be4 a = be32 a.
Proof.
  intros H. unfold be4, be32, shr, u8, wrapu, M8, M32 in *.
  change (2 ^ 24) with 16777216. change (2 ^ 16) with 65536. change (2 ^ 8) with 256.
  rewrite (Z.mod_small (a / 16777216)) by lia.
  change 255 with (2 ^ 8 - 1). rewrite !land_ones_mod by lia. reflexivity.
Qed.

Lemma noncompress_loop_spec fuel : forall src size adler,
  size = len src -> bytes src -> 0 <= adler < M32 -> (0 < fuel)%nat -> size <= Z.of_nat fuel * 65531 ->
  exists blocks, noncompress_loop fuel src size adler = (blocks, adler_update adler src) /\
                 stored_blocks blocks src /\ len blocks = 5 * nblocks size + size /\ bytes blocks.
Proof.
  induction fuel as [|fuel IH]; intros src size adler Hsize Hb Ha Hf Hfuel; [lia|].
  pose proof (len_nonneg src) as Hn.
  cbn [noncompress_loop]. unfold noncompress_block.
  destruct (Z.ltb_spec NONCOMP_BLOCK size) as [Hbig|Hsmall]; unfold NONCOMP_BLOCK in *; cbn [negb].
  - (* a full block of 65531 bytes, not the last *)
    assert (Hrest : 0 < size - 65531) by lia.
    destruct (Z.ltb_spec 0 (size - 65531)); [|lia].
    destruct fuel as [|fuel']; [lia|].
    destruct (IH (skipn (Z.to_nat 65531) src) (size - 65531) (adler_update adler (firstn (Z.to_nat 65531) src))) as (bl & E & Sb & L & B).
    + rewrite len_skipn by lia. lia.
    + now apply bytes_skipn.
    + apply adler_update_range; [now apply bytes_firstn|exact Ha].
    + lia.
    + lia.
    + rewrite E. eexists. split; [|split; [|split]].
      * f_equal. rewrite adler_update_app; [|now apply bytes_firstn|now apply bytes_skipn|exact Ha].
        now rewrite firstn_skipn.
      * rewrite <- (firstn_skipn (Z.to_nat 65531) src) at 2. rewrite <- app_assoc.
        change (Z.land 65531 255) with 251. change (shr 65531 8) with 255.
        change (Z.land (u16 (Z.lnot 65531)) 255) with (255 - 251). change (shr (u16 (Z.lnot 65531)) 8) with (255 - 255).
        apply sb_more; unfold byte; try lia; try reflexivity; try exact Sb.
        rewrite len_firstn by lia. lia.
      * rewrite !len_app, L. rewrite len_firstn by lia. cbn [List.length len]. unfold len at 1. cbn [List.length].
        unfold nblocks.
        replace (size + 65530) with (size - 65531 + 65530 + 1 * 65531) by lia. rewrite Z.div_add by lia.
        assert (0 <= (size - 65531 + 65530) / 65531) by (apply Z.div_pos; lia). lia.
      * apply bytes_app; split; [apply bytes_app; split|exact B]; [|now apply bytes_firstn].
        repeat (apply bytes_cons; split; [unfold byte; cbn; lia|]). apply bytes_nil.
  - (* the last block *)
    assert (Hu : u16 size = size) by (unfold u16, wrapu, M16; apply Z.mod_small; lia).
    rewrite Hu. replace (size - size) with 0 by lia. cbn [Z.ltb Z.compare].
    assert (Hfn : firstn (Z.to_nat size) src = src) by (apply firstn_all2; unfold len in *; lia).
    rewrite Hfn. eexists. split; [reflexivity|].
    assert (Hns : u16 (Z.lnot size) = 65535 - size) by (unfold u16, wrapu, M16, Z.lnot; lia).
    rewrite Hns.
    assert (L1 : Z.land size 255 = size mod 256) by (change 255 with (2 ^ 8 - 1); apply land_ones_mod; lia).
    assert (L2 : Z.land (65535 - size) 255 = 255 - size mod 256) by (change 255 with (2 ^ 8 - 1) at 1; rewrite land_ones_mod by lia; change (2 ^ 8) with 256; lia).
    assert (L3 : shr size 8 = size / 256) by reflexivity.
    assert (L4 : shr (65535 - size) 8 = 255 - size / 256) by (unfold shr; change (2 ^ 8) with 256; lia).
    rewrite L1, L2, L3, L4.
    split; [|split].
    + apply sb_last; unfold byte; try lia; reflexivity.
    + rewrite len_app. unfold len at 1. cbn [List.length]. unfold nblocks.
      clear L1 L2 L3 L4 Hns Hu. assert ((size + 65530) / 65531 <= 1) by lia. lia.
    + apply bytes_app; split; [|exact Hb].
      repeat (apply bytes_cons; split; [unfold byte; lia|]). apply bytes_nil.
Qed.

Theorem noncompress_spec d : bytes d ->
  exists blocks, noncompress d = [120; 1] ++ blocks ++ be32 (adler32 d) /\ stored_blocks blocks d /\
                 len blocks = 5 * nblocks (len d) + len d /\ bytes blocks.
Proof.
  intros Hd. unfold noncompress. pose proof (len_nonneg d) as Hn.
  destruct (noncompress_loop_spec (S (Z.to_nat (len d / NONCOMP_BLOCK))) d (len d) adler_init) as (bl & E & Sb & L & B); auto.
  - unfold adler_init, M32; lia.
  - lia.
  - unfold NONCOMP_BLOCK. assert (0 <= len d / 65531) by (apply Z.div_pos; lia). lia.
  - rewrite E. exists bl. split; [|auto].
    rewrite adler_update_spec by (auto; unfold adler_init, M32; lia).
    rewrite be4_be32 by apply adler32_from_range. reflexivity.
Qed.

Theorem noncompress_is_zlib_stored d : bytes d -> zlib_stored_stream (noncompress d) d.
Proof.
  intros Hd. destruct (noncompress_spec d Hd) as (bl & E & Sb & _).
  exists 120, 1, bl. repeat split; auto; try reflexivity; cbn; lia.
Qed.

Lemma be32_len a : len (be32 a) = 4.  Proof. reflexivity. Qed.

Lemma be32_bytes a : 0 <= a < M32 -> bytes (be32 a).
Proof.
  intros H. unfold be32, M32 in *. repeat (apply bytes_cons; split; [unfold byte; lia|]). apply bytes_nil.
Qed.

(* the length is what the generated sc_io_noncompress_bound computes *)
Theorem noncompress_len d : bytes d -> len d < M64 / 2 ->
  len (noncompress d) = sc_io_noncompress_bound (len d).
Proof.
  intros Hd Hmax. destruct (noncompress_spec d Hd) as (bl & E & _ & L & _). rewrite E.
  rewrite !len_app, L, be32_len. unfold len at 1. cbn [List.length].
  pose proof (len_nonneg d) as Hn. unfold M64 in Hmax. change (18446744073709551616 / 2) with 9223372036854775808 in Hmax.
  unfold sc_io_noncompress_bound, nblocks.
  assert (Hs : u64 (s32 (65531 - 1)) = 65530) by reflexivity. rewrite Hs.
  assert (H1 : u64 (len d + 65530) = len d + 65530) by (apply u64_id; unfold M64; lia). rewrite H1.
  assert (Hq : 0 <= (len d + 65530) / 65531 /\ 65531 * ((len d + 65530) / 65531) <= len d + 65530) by lia.
  remember ((len d + 65530) / 65531) as q.
  destruct (Z.ltb_spec 1 q).
  - rewrite Z.max_r by lia. rewrite (u64_id (5 * q)) by (unfold M64; lia). rewrite (u64_id (2 + 5 * q)) by (unfold M64; lia).
    rewrite (u64_id (2 + 5 * q + len d)) by (unfold M64; lia). rewrite u64_id by (unfold M64; lia). lia.
  - rewrite Z.max_l by lia. rewrite (u64_id (5 * 1)) by (unfold M64; lia). rewrite (u64_id (2 + 5 * 1)) by (unfold M64; lia).
    rewrite (u64_id (2 + 5 * 1 + len d)) by (unfold M64; lia). rewrite u64_id by (unfold M64; lia). lia.
Qed.

Lemma noncompress_bytes d : bytes d -> bytes (noncompress d).
Proof.
  intros Hd. destruct (noncompress_spec d Hd) as (bl & E & _ & _ & B). rewrite E.
  apply bytes_app; split; [repeat (apply bytes_cons; split; [unfold byte; lia|]); apply bytes_nil|].
  apply bytes_app; split; [exact B|]. apply be32_bytes. apply adler32_from_range.
Qed.
