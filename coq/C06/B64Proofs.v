(* libb64 state machines: the encoder is RFC 4648, decode (encode x) = x, streaming law,
   the decoder skips bytes outside the alphabet, bounds of the instrumented block decoder. *)
From Coq Require Import ZArith List Bool Lia.
From ScV Require Import Base.CInt Gen.Codec C06.Res C06.ResProofs C06.B64Model C06.B64Spec.
Import ListNotations.
Local Open Scope Z_scope.

(* ---- finite checks over bytes / 6-bit values ------------------------------------------------- *)
Definition upto (n : nat) : list Z := map Z.of_nat (seq 0 n).

Lemma in_upto n x : 0 <= x < Z.of_nat n -> In x (upto n).
Proof.
  intros. unfold upto. replace x with (Z.of_nat (Z.to_nat x)) by lia. apply in_map. apply in_seq. lia.
Qed.

Lemma all_upto n (P : Z -> bool) : forallb P (upto n) = true -> forall x, 0 <= x < Z.of_nat n -> P x = true.
Proof. intros H x Hx. rewrite forallb_forall in H. apply H, in_upto, Hx. Qed.

Lemma all2_upto n m (P : Z -> Z -> bool) :
  forallb (fun a => forallb (P a) (upto m)) (upto n) = true ->
  forall a b, 0 <= a < Z.of_nat n -> 0 <= b < Z.of_nat m -> P a b = true.
Proof. intros H a b Ha Hb. apply (all_upto m (P a)); [|exact Hb]. apply (all_upto n (fun a => forallb (P a) (upto m))); assumption. Qed.

Lemma enc_value_char v : 0 <= v < 64 -> enc_value v = b64char v.
Proof. intros H. apply Z.eqb_eq. apply (all_upto 64 (fun v => enc_value v =? b64char v)); [vm_compute; reflexivity|exact H]. Qed.

Lemma dec_enc_char v : 0 <= v < 64 -> dec_value (b64char v) = v.
Proof. intros H. apply Z.eqb_eq. apply (all_upto 64 (fun v => dec_value (b64char v) =? v)); [vm_compute; reflexivity|exact H]. Qed.

Lemma dec_value_range c : 0 <= c < 256 -> -2 <= dec_value c < 64.
Proof.
  intros H. assert (E : ((-2 <=? dec_value c) && (dec_value c <? 64)) = true).
  { apply (all_upto 256 (fun c => (-2 <=? dec_value c) && (dec_value c <? 64))); [vm_compute; reflexivity|exact H]. }
  apply andb_true_iff in E. destruct E as [E1 E2]. apply Z.leb_le in E1. apply Z.ltb_lt in E2. lia.
Qed.

Lemma b64char_byte v : 0 <= v < 64 -> 0 <= b64char v < 128.
Proof.
  intros H. assert (E : ((0 <=? b64char v) && (b64char v <? 128)) = true).
  { apply (all_upto 64 (fun v => (0 <=? b64char v) && (b64char v <? 128))); [vm_compute; reflexivity|exact H]. }
  apply andb_true_iff in E. destruct E as [E1 E2]. apply Z.leb_le in E1. apply Z.ltb_lt in E2. lia.
Qed.

(* the alphabet characters are exactly the bytes with a non-negative value; '=' is skipped *)
Lemma dec_value_pad : dec_value 61 = -2.  Proof. reflexivity. Qed.
Lemma dec_value_alphabet c : 0 <= c < 256 -> 0 <= dec_value c -> b64char (dec_value c) = c.
Proof.
  intros H. assert (E : ((dec_value c <? 0) || (b64char (dec_value c) =? c)) = true).
  { apply (all_upto 256 (fun c => (dec_value c <? 0) || (b64char (dec_value c) =? c))); [vm_compute; reflexivity|exact H]. }
  intros Hv. apply orb_true_iff in E. destruct E as [E|E]; [apply Z.ltb_lt in E; lia|now apply Z.eqb_eq].
Qed.

(* bit operations of the encoder as arithmetic *)
Lemma E1 x : byte x -> shr (Z.land x 252) 2 = x / 4.
Proof. intros H. apply Z.eqb_eq. apply (all_upto 256 (fun x => shr (Z.land x 252) 2 =? x / 4)); [vm_compute; reflexivity|exact H]. Qed.
Lemma E2 x : byte x -> shl (Z.land x 3) 4 = x mod 4 * 16.
Proof. intros H. apply Z.eqb_eq. apply (all_upto 256 (fun x => shl (Z.land x 3) 4 =? x mod 4 * 16)); [vm_compute; reflexivity|exact H]. Qed.
Lemma E3 x : byte x -> shr (Z.land x 63) 0 = x mod 64.
Proof. intros H. apply Z.eqb_eq. apply (all_upto 256 (fun x => shr (Z.land x 63) 0 =? x mod 64)); [vm_compute; reflexivity|exact H]. Qed.
Lemma E4 x : byte x -> shl (Z.land x 15) 2 = x mod 16 * 4.
Proof. intros H. apply Z.eqb_eq. apply (all_upto 256 (fun x => shl (Z.land x 15) 2 =? x mod 16 * 4)); [vm_compute; reflexivity|exact H]. Qed.
Lemma E12 a b : byte a -> byte b -> Z.lor (shl (Z.land a 3) 4) (shr (Z.land b 240) 4) = a mod 4 * 16 + b / 16.
Proof.
  intros Ha Hb. apply Z.eqb_eq.
  apply (all2_upto 256 256 (fun a b => Z.lor (shl (Z.land a 3) 4) (shr (Z.land b 240) 4) =? a mod 4 * 16 + b / 16)); [vm_compute; reflexivity|exact Ha|exact Hb].
Qed.
Lemma E23 b c : byte b -> byte c -> Z.lor (shl (Z.land b 15) 2) (shr (Z.land c 192) 6) = b mod 16 * 4 + c / 64.
Proof.
  intros Ha Hb. apply Z.eqb_eq.
  apply (all2_upto 256 256 (fun b c => Z.lor (shl (Z.land b 15) 2) (shr (Z.land c 192) 6) =? b mod 16 * 4 + c / 64)); [vm_compute; reflexivity|exact Ha|exact Hb].
Qed.

(* bit operations of the decoder as arithmetic (f, g 6-bit values) *)
Lemma D1 f g : 0 <= f < 64 -> 0 <= g < 64 ->
  u8 (Z.lor (u8 (shl (Z.land f 63) 2)) (shr (Z.land g 48) 4)) = f * 4 + g / 16.
Proof.
  intros Ha Hb. apply Z.eqb_eq.
  apply (all2_upto 64 64 (fun f g => u8 (Z.lor (u8 (shl (Z.land f 63) 2)) (shr (Z.land g 48) 4)) =? f * 4 + g / 16)); [vm_compute; reflexivity|exact Ha|exact Hb].
Qed.
Lemma D2 f g : 0 <= f < 64 -> 0 <= g < 64 ->
  u8 (Z.lor (u8 (shl (Z.land f 15) 4)) (shr (Z.land g 60) 2)) = f mod 16 * 16 + g / 4.
Proof.
  intros Ha Hb. apply Z.eqb_eq.
  apply (all2_upto 64 64 (fun f g => u8 (Z.lor (u8 (shl (Z.land f 15) 4)) (shr (Z.land g 60) 2)) =? f mod 16 * 16 + g / 4)); [vm_compute; reflexivity|exact Ha|exact Hb].
Qed.
Lemma D3 f g : 0 <= f < 64 -> 0 <= g < 64 ->
  u8 (Z.lor (u8 (shl (Z.land f 3) 6)) (Z.land g 63)) = f mod 4 * 64 + g.
Proof.
  intros Ha Hb. apply Z.eqb_eq.
  apply (all2_upto 64 64 (fun f g => u8 (Z.lor (u8 (shl (Z.land f 3) 6)) (Z.land g 63)) =? f mod 4 * 64 + g)); [vm_compute; reflexivity|exact Ha|exact Hb].
Qed.

(* ---- encoder = RFC 4648 ------------------------------------------------------------------------ *)
Lemma list_ind3 {A} (P : list A -> Prop) :
  P [] -> (forall a, P [a]) -> (forall a b, P [a; b]) -> (forall a b c l, P l -> P (a :: b :: c :: l)) ->
  forall l, P l.
Proof.
  intros H0 H1 H2 H3. fix IH 1. intros [|a [|b [|c l]]]; [exact H0|apply H1|apply H2|apply H3, IH].
Qed.

Definition b64_from (st : estate) (l : list Z) : list Z :=
  let '(s, o) := enc_block st l in o ++ enc_end s.

Lemma enc_block_cons st x l :
  enc_block st (x :: l) = (fst (enc_block (fst (enc_byte st x)) l), snd (enc_byte st x) ++ snd (enc_block (fst (enc_byte st x)) l)).
Proof. cbn [enc_block]. destruct (enc_byte st x) as [s1 o1]. cbn [fst snd]. destruct (enc_block s1 l); reflexivity. Qed.

Lemma enc_block_group r a b c l : byte a -> byte b -> byte c ->
  enc_block (mkE StepA r) (a :: b :: c :: l) =
  (fst (enc_block (mkE StepA (c mod 64)) l),
   b64char (a / 4) :: b64char (a mod 4 * 16 + b / 16) :: b64char (b mod 16 * 4 + c / 64) :: b64char (c mod 64)
   :: snd (enc_block (mkE StepA (c mod 64)) l)).
Proof.
  intros Ha Hb Hc. unfold byte in *.
  rewrite !enc_block_cons. cbn [enc_byte e_step e_result fst snd app].
  rewrite (E1 a), (E12 a b), (E23 b c), (E3 c) by assumption.
  rewrite !enc_value_char by lia. reflexivity.
Qed.

Theorem b64_from_rfc r l : bytes l -> b64_from (mkE StepA r) l = rfc4648 l.
Proof.
  revert r. induction l as [|a|a b|a b c l IH] using list_ind3; intros r Hl.
  - reflexivity.
  - apply bytes_cons in Hl. destruct Hl as [Ha _]. unfold byte in Ha.
    unfold b64_from. cbn [enc_block enc_byte e_step e_result enc_end app rfc4648].
    rewrite (E1 a), (E2 a) by assumption. rewrite !enc_value_char by lia. reflexivity.
  - apply bytes_cons in Hl. destruct Hl as [Ha Hl]. apply bytes_cons in Hl. destruct Hl as [Hb _]. unfold byte in *.
    unfold b64_from. cbn [enc_block enc_byte e_step e_result enc_end app rfc4648].
    rewrite (E1 a), (E12 a b), (E4 b) by assumption. rewrite !enc_value_char by lia. reflexivity.
  - apply bytes_cons in Hl. destruct Hl as [Ha Hl]. apply bytes_cons in Hl. destruct Hl as [Hb Hl].
    apply bytes_cons in Hl. destruct Hl as [Hc Hl].
    unfold b64_from. rewrite enc_block_group by assumption.
    specialize (IH (c mod 64) Hl). unfold b64_from in IH.
    destruct (enc_block (mkE StepA (c mod 64)) l) as [s o]. cbn [fst snd rfc4648]. rewrite <- IH. reflexivity.
Qed.

Theorem b64_is_rfc4648 x : bytes x -> b64_encode_all x = rfc4648 x.
Proof. intros H. exact (b64_from_rfc 0 x H). Qed.

(* ---- streaming law ----------------------------------------------------------------------------- *)
Theorem enc_block_app st a b :
  enc_block st (a ++ b) =
  let '(s1, o1) := enc_block st a in let '(s2, o2) := enc_block s1 b in (s2, o1 ++ o2).
Proof.
  revert st; induction a as [|x a IH]; intros st.
  - cbn [app enc_block]. destruct (enc_block st b); reflexivity.
  - cbn [app enc_block]. destruct (enc_byte st x) as [s1 o1]. rewrite IH.
    destruct (enc_block s1 a) as [s2 o2]. destruct (enc_block s2 b) as [s3 o3]. now rewrite app_assoc.
Qed.

(* after a multiple of 3 bytes from step A the encoder is in step A again *)
Lemma enc_block_step r l : bytes l ->
  e_step (fst (enc_block (mkE StepA r) l)) =
  match len l mod 3 with 0 => StepA | 1 => StepB | _ => StepC end.
Proof.
  revert r. induction l as [|a|a b|a b c l IH] using list_ind3; intros r Hl; try reflexivity.
  apply bytes_cons in Hl. destruct Hl as [Ha Hl]. apply bytes_cons in Hl. destruct Hl as [Hb Hl].
  apply bytes_cons in Hl. destruct Hl as [Hc Hl].
  rewrite enc_block_group by assumption. cbn [fst]. rewrite IH by assumption.
  rewrite !len_cons. replace (len l + 1 + 1 + 1) with (len l + 1 * 3) by lia. now rewrite Z.mod_add by lia.
Qed.

Lemma len_rfc4648 l : len (rfc4648 l) = 4 * ((len l + 2) / 3).
Proof.
  induction l as [|a|a b|a b c l IH] using list_ind3; try reflexivity.
  cbn [rfc4648]. rewrite !len_cons, IH. replace (len l + 1 + 1 + 1 + 2) with (len l + 2 + 1 * 3) by lia.
  rewrite Z.div_add by lia. lia.
Qed.

Lemma rfc4648_app a b : len a mod 3 = 0 -> rfc4648 (a ++ b) = rfc4648 a ++ rfc4648 b.
Proof.
  induction a as [|x|x y|x y z a IH] using list_ind3; intros H.
  - reflexivity.
  - rewrite len_cons, len_nil in H. cbn in H. lia.
  - rewrite !len_cons, len_nil in H. cbn in H. lia.
  - cbn [app rfc4648]. rewrite IH; [reflexivity|]. rewrite !len_cons in H.
    replace (len a + 1 + 1 + 1) with (len a + 1 * 3) in H by lia. now rewrite Z.mod_add in H by lia.
Qed.

(* a block that starts in step A and has a multiple of 3 bytes is an RFC 4648 text on its own *)
Lemma enc_block_aligned r l : bytes l -> len l mod 3 = 0 ->
  exists r', enc_block (mkE StepA r) l = (mkE StepA r', rfc4648 l).
Proof.
  intros Hl Hm. pose proof (b64_from_rfc r l Hl) as H. pose proof (enc_block_step r l Hl) as Hs.
  unfold b64_from in H. destruct (enc_block (mkE StepA r) l) as [[s r'] o]. cbn [fst e_step] in Hs.
  rewrite Hm in Hs. subst s. cbn [enc_end e_step] in H. rewrite app_nil_r in H. subst o. now exists r'.
Qed.

(* ---- pure decoder and refinement of the instrumented one ---------------------------------------- *)
Inductive pst := PA | PB (cur : Z) | PC (cur : Z) | PD (cur : Z).

Definition abs_st (stp : dstep) (v : Z) : pst :=
  match stp with Sa => PA | Sb => PB v | Sc => PC v | Sd => PD v end.

Definition pdec_char (st : pst) (c : Z) : pst * list Z :=
  let f := dec_value c in
  if f <? 0 then (st, []) else
  match st with
  | PA => (PB (u8 (shl (Z.land f 63) 2)), [])
  | PB cur => (PC (u8 (shl (Z.land f 15) 4)), [u8 (Z.lor cur (shr (Z.land f 48) 4))])
  | PC cur => (PD (u8 (shl (Z.land f 3) 6)), [u8 (Z.lor cur (shr (Z.land f 60) 2))])
  | PD cur => (PA, [u8 (Z.lor cur (Z.land f 63))])
  end.

Fixpoint pdec (cs : list Z) (st : pst) : pst * list Z :=
  match cs with
  | [] => (st, [])
  | c :: r => let '(s1, o1) := pdec_char st c in let '(s2, o2) := pdec r s1 in (s2, o1 ++ o2)
  end.

Lemma pdec_app a b st :
  pdec (a ++ b) st = let '(s1, o1) := pdec a st in let '(s2, o2) := pdec b s1 in (s2, o1 ++ o2).
Proof.
  revert st; induction a as [|x a IH]; intros st.
  - cbn [app pdec]. destruct (pdec b st); reflexivity.
  - cbn [app pdec]. destruct (pdec_char st x) as [s1 o1]. rewrite IH.
    destruct (pdec a s1) as [s2 o2]. destruct (pdec b s2) as [s3 o3]. now rewrite app_assoc.
Qed.

(* bytes outside the alphabet (and '=') do not matter *)
Theorem pdec_skip a c b st : dec_value c < 0 -> pdec (a ++ c :: b) st = pdec (a ++ b) st.
Proof.
  intros Hc. rewrite !pdec_app. destruct (pdec a st) as [s1 o1]. cbn [pdec]. unfold pdec_char.
  destruct (Z.ltb_spec (dec_value c) 0); [|lia]. destruct (pdec b s1); reflexivity.
Qed.

(* potential: how far the write position may still run ahead *)
Definition psi (stp : dstep) : Z := match stp with Sa => 0 | Sb => 3 | Sc => 2 | Sd => 1 end.
Definition step_of (p : pst) : dstep := match p with PA => Sa | PB _ => Sb | PC _ => Sc | PD _ => Sd end.

Lemma firstn_succ_nth (l : list Z) (n : nat) : (n < length l)%nat -> firstn (S n) l = firstn n l ++ [nth n l 0].
Proof.
  revert l; induction n; intros [|x l] H; cbn [length] in H; try lia; [reflexivity|].
  cbn [firstn nth app]. f_equal. apply IHn. lia.
Qed.

(* one code byte *)
Lemma dec_char_refine c stp pc pt cur :
  0 <= pc -> 4 * (len pt - pc) >= 3 + psi stp + 1 -> (stp <> Sa -> nth (Z.to_nat pc) pt 0 = cur) ->
  exists stp' pc' pt',
    dec_char stp pc pt c = Ok (stp', pc', pt') /\ len pt' = len pt /\
    pc' = pc + len (snd (pdec_char (abs_st stp cur) c)) /\
    firstn (Z.to_nat pc') pt' = firstn (Z.to_nat pc) pt ++ snd (pdec_char (abs_st stp cur) c) /\
    (exists cur', fst (pdec_char (abs_st stp cur) c) = abs_st stp' cur' /\ (stp' <> Sa -> nth (Z.to_nat pc') pt' 0 = cur')) /\
    4 * pc' + psi stp' <= 4 * pc + psi stp + 3.
Proof.
  intros Hpc Hcap Hcur. unfold dec_char, pdec_char.
  destruct (Z.ltb_spec (dec_value c) 0) as [Hneg|Hpos].
  - exists stp, pc, pt. cbn [snd fst]. rewrite len_nil, app_nil_r, Z.add_0_r. repeat split; auto; [|lia].
    exists cur. split; [reflexivity|exact Hcur].
  - destruct stp; cbn [abs_st psi] in *.
    + (* Sa *)
      rewrite wr_ok by lia. cbn [bind snd fst]. do 3 eexists. split; [reflexivity|].
      rewrite len_upd by lia. rewrite len_nil, app_nil_r, Z.add_0_r. repeat split; auto.
      * apply firstn_upd_ge; lia.
      * eexists. split; [reflexivity|]. intros _. apply nth_upd_same; lia.
      * cbn [psi]; lia.
    + (* Sb *)
      rewrite rd_ok by lia. cbn [bind]. rewrite wr_ok by lia. cbn [bind].
      rewrite wr_ok by (rewrite len_upd by lia; lia). cbn [bind snd fst].
      do 3 eexists. split; [reflexivity|]. rewrite !len_upd by (rewrite ?len_upd by lia; lia).
      rewrite len_cons, len_nil. repeat split; auto.
      * replace (Z.to_nat (pc + 1)) with (S (Z.to_nat pc)) by lia.
        rewrite firstn_upd_ge by (rewrite ?len_upd by lia; lia).
        rewrite firstn_succ_nth by (pose proof (len_upd pt pc (u8 (Z.lor (nth (Z.to_nat pc) pt 0) (shr (Z.land (dec_value c) 48) 4)))); unfold len in *; lia).
        rewrite nth_upd_same by lia. rewrite firstn_upd_ge by lia. rewrite Hcur by discriminate. reflexivity.
      * eexists. split; [reflexivity|]. intros _. apply nth_upd_same. rewrite len_upd by lia; lia.
      * cbn [psi]; lia.
    + (* Sc *)
      rewrite rd_ok by lia. cbn [bind]. rewrite wr_ok by lia. cbn [bind].
      rewrite wr_ok by (rewrite len_upd by lia; lia). cbn [bind snd fst].
      do 3 eexists. split; [reflexivity|]. rewrite !len_upd by (rewrite ?len_upd by lia; lia).
      rewrite len_cons, len_nil. repeat split; auto.
      * replace (Z.to_nat (pc + 1)) with (S (Z.to_nat pc)) by lia.
        rewrite firstn_upd_ge by (rewrite ?len_upd by lia; lia).
        rewrite firstn_succ_nth by (pose proof (len_upd pt pc (u8 (Z.lor (nth (Z.to_nat pc) pt 0) (shr (Z.land (dec_value c) 60) 2)))); unfold len in *; lia).
        rewrite nth_upd_same by lia. rewrite firstn_upd_ge by lia. rewrite Hcur by discriminate. reflexivity.
      * eexists. split; [reflexivity|]. intros _. apply nth_upd_same. rewrite len_upd by lia; lia.
      * cbn [psi]; lia.
    + (* Sd *)
      rewrite rd_ok by lia. cbn [bind]. rewrite wr_ok by lia. cbn [bind snd fst].
      do 3 eexists. split; [reflexivity|]. rewrite !len_upd by lia.
      rewrite len_cons, len_nil. repeat split; auto.
      * replace (Z.to_nat (pc + 1)) with (S (Z.to_nat pc)) by lia.
        rewrite firstn_succ_nth by (pose proof (len_upd pt pc (u8 (Z.lor (nth (Z.to_nat pc) pt 0) (Z.land (dec_value c) 63)))); unfold len in *; lia).
        rewrite nth_upd_same by lia. rewrite firstn_upd_ge by lia. rewrite Hcur by discriminate. reflexivity.
      * exists 0. split; [reflexivity|]. intros H; now elim H.
      * cbn [psi]; lia.
Qed.

(* a run of code bytes *)
Lemma dec_chars_refine cs : forall stp pc pt cur,
  0 <= pc -> 4 * (len pt - pc) >= 3 * len cs + psi stp + 1 -> (stp <> Sa -> nth (Z.to_nat pc) pt 0 = cur) ->
  exists stp' pc' pt',
    dec_chars cs stp pc pt = Ok (stp', pc', pt') /\ len pt' = len pt /\
    pc' = pc + len (snd (pdec cs (abs_st stp cur))) /\
    firstn (Z.to_nat pc') pt' = firstn (Z.to_nat pc) pt ++ snd (pdec cs (abs_st stp cur)) /\
    (exists cur', fst (pdec cs (abs_st stp cur)) = abs_st stp' cur' /\ (stp' <> Sa -> nth (Z.to_nat pc') pt' 0 = cur')) /\
    4 * pc' + psi stp' <= 4 * pc + psi stp + 3 * len cs /\
    4 * (len pt - pc') >= psi stp' + 1.
Proof.
  induction cs as [|c cs IH]; intros stp pc pt cur Hpc Hcap Hcur.
  - exists stp, pc, pt. cbn [dec_chars pdec snd fst]. rewrite len_nil in *. rewrite app_nil_r, Z.add_0_r.
    repeat split; auto; try lia. exists cur; split; [reflexivity|exact Hcur].
  - rewrite len_cons in Hcap. pose proof (len_nonneg cs) as Hn.
    destruct (dec_char_refine c stp pc pt cur Hpc ltac:(lia) Hcur) as (s1 & pc1 & pt1 & E1' & L1 & P1 & F1 & (cur1 & A1 & C1) & Q1).
    cbn [dec_chars]. rewrite E1'. cbn [bind].
    assert (Hpc1 : 0 <= pc1) by (pose proof (len_nonneg (snd (pdec_char (abs_st stp cur) c))); lia).
    destruct (IH s1 pc1 pt1 cur1 Hpc1 ltac:(lia) C1) as (s2 & pc2 & pt2 & E2' & L2 & P2 & F2 & (cur2 & A2 & C2) & Q2 & R2).
    exists s2, pc2, pt2. split; [exact E2'|]. split; [lia|].
    cbn [pdec]. destruct (pdec_char (abs_st stp cur) c) as [q1 o1] eqn:Ec. cbn [fst snd] in *. subst q1.
    destruct (pdec cs (abs_st s1 cur1)) as [q2 o2] eqn:Ed. cbn [fst snd] in *.
    rewrite len_app. repeat split; try lia.
    + rewrite F2, F1. now rewrite app_assoc.
    + exists cur2. split; assumption.
    + rewrite len_cons. lia.
Qed.

(* the block decoder: no access outside the plaintext buffer when 4 * size >= 3 * length + 4 *)
Theorem decode_block_refine code pt st :
  4 * len pt >= 3 * len code + 4 ->
  exists lout pt' st',
    decode_block code pt st = Ok (lout, pt', st') /\ len pt' = len pt /\
    lout = len (snd (pdec code (abs_st (d_step st) (d_plain st)))) /\
    firstn (Z.to_nat lout) pt' = snd (pdec code (abs_st (d_step st) (d_plain st))) /\
    abs_st (d_step st') (d_plain st') = fst (pdec code (abs_st (d_step st) (d_plain st))) /\
    4 * lout + psi (d_step st') <= psi (d_step st) + 3 * len code /\ 0 <= lout < len pt.
Proof.
  intros Hcap. pose proof (len_nonneg code) as Hn. unfold decode_block.
  assert (Hp : 0 < len pt) by lia.
  rewrite wr_ok by lia. cbn [bind].
  assert (Hps : psi (d_step st) <= 3) by (destruct (d_step st); cbn; lia).
  destruct (dec_chars_refine code (d_step st) 0 (upd pt 0 (d_plain st)) (d_plain st)) as (s1 & pc1 & pt1 & E & L & P & F & (cur1 & A & C) & Q & R).
  - lia.
  - rewrite len_upd by lia. lia.
  - intros _. apply nth_upd_same. lia.
  - rewrite E. cbn [bind]. rewrite len_upd in L by lia.
    assert (Hpc1 : 0 <= pc1) by (pose proof (len_nonneg (snd (pdec code (abs_st (d_step st) (d_plain st))))); lia).
    assert (Hps1 : 0 <= psi s1) by (destruct s1; cbn; lia).
    rewrite rd_ok by lia. cbn [bind]. do 3 eexists. split; [reflexivity|]. cbn [d_step d_plain].
    split; [exact L|]. split; [lia|]. split; [rewrite F; reflexivity|]. split; [|lia].
    rewrite A. destruct s1; cbn [abs_st]; try reflexivity; f_equal; apply C; discriminate.
Qed.

(* ---- round trip ------------------------------------------------------------------------------- *)
Lemma pdec_group st0 a b c l : st0 = PA -> byte a -> byte b -> byte c ->
  pdec (b64char (a / 4) :: b64char (a mod 4 * 16 + b / 16) :: b64char (b mod 16 * 4 + c / 64) :: b64char (c mod 64) :: l) st0
  = (fst (pdec l PA), a :: b :: c :: snd (pdec l PA)).
Proof.
  intros -> Ha Hb Hc. unfold byte in *.
  cbn [pdec]. unfold pdec_char.
  rewrite !dec_enc_char by lia.
  destruct (Z.ltb_spec (a / 4) 0); [lia|].
  destruct (Z.ltb_spec (a mod 4 * 16 + b / 16) 0); [lia|].
  destruct (Z.ltb_spec (b mod 16 * 4 + c / 64) 0); [lia|].
  destruct (Z.ltb_spec (c mod 64) 0); [lia|].
  destruct (pdec l PA) as [s o]. cbn [fst snd app].
  rewrite D1, D2, D3 by lia. repeat f_equal; lia.
Qed.

Definition pst_final (p : pst) : Prop := True.

Theorem pdec_rfc4648 x : bytes x -> snd (pdec (rfc4648 x) PA) = x.
Proof.
  induction x as [|a|a b|a b c l IH] using list_ind3; intros Hx.
  - reflexivity.
  - apply bytes_cons in Hx. destruct Hx as [Ha _]. unfold byte in Ha.
    cbn [rfc4648 pdec]. unfold pdec_char. rewrite !dec_enc_char by lia. rewrite dec_value_pad.
    destruct (Z.ltb_spec (a / 4) 0); [lia|]. destruct (Z.ltb_spec (a mod 4 * 16) 0); [lia|].
    cbn [Z.ltb Z.compare snd app]. rewrite D1 by lia. f_equal; lia.
  - apply bytes_cons in Hx. destruct Hx as [Ha Hx]. apply bytes_cons in Hx. destruct Hx as [Hb _]. unfold byte in *.
    cbn [rfc4648 pdec]. unfold pdec_char. rewrite !dec_enc_char by lia. rewrite dec_value_pad.
    destruct (Z.ltb_spec (a / 4) 0); [lia|]. destruct (Z.ltb_spec (a mod 4 * 16 + b / 16) 0); [lia|].
    destruct (Z.ltb_spec (b mod 16 * 4) 0); [lia|].
    cbn [Z.ltb Z.compare snd app]. rewrite D1, D2 by lia. repeat f_equal; lia.
  - apply bytes_cons in Hx. destruct Hx as [Ha Hx]. apply bytes_cons in Hx. destruct Hx as [Hb Hx].
    apply bytes_cons in Hx. destruct Hx as [Hc Hx].
    cbn [rfc4648]. rewrite pdec_group by auto. cbn [snd]. now rewrite IH.
Qed.

(* complete groups leave the decoder in step a *)
Lemma pdec_rfc4648_aligned x : bytes x -> len x mod 3 = 0 -> pdec (rfc4648 x) PA = (PA, x).
Proof.
  induction x as [|a|a b|a b c l IH] using list_ind3; intros Hx Hm.
  - reflexivity.
  - rewrite len_cons, len_nil in Hm; cbn in Hm; lia.
  - rewrite !len_cons, len_nil in Hm; cbn in Hm; lia.
  - apply bytes_cons in Hx. destruct Hx as [Ha Hx]. apply bytes_cons in Hx. destruct Hx as [Hb Hx].
    apply bytes_cons in Hx. destruct Hx as [Hc Hx].
    cbn [rfc4648]. rewrite pdec_group by auto. rewrite IH; [reflexivity|assumption|].
    rewrite !len_cons in Hm. replace (len l + 1 + 1 + 1) with (len l + 1 * 3) in Hm by lia. now rewrite Z.mod_add in Hm by lia.
Qed.

(* decoding a whole text into a buffer that is large enough *)
Definition b64_decode_all (code : list Z) : res (list Z) :=
  '(n, pt, _) <- decode_block code (repeat 0 (S (length code))) d_init ;; Ok (firstn (Z.to_nat n) pt).

Theorem b64_roundtrip x : bytes x -> b64_decode_all (b64_encode_all x) = Ok x.
Proof.
  intros Hx. unfold b64_decode_all. rewrite (b64_is_rfc4648 x Hx).
  destruct (decode_block_refine (rfc4648 x) (repeat 0 (S (length (rfc4648 x)))) d_init) as (lout & pt' & st' & E & L & P & F & _).
  - rewrite len_repeat. unfold len. lia.
  - rewrite E. cbn [bind]. rewrite F. cbn [d_init d_step d_plain abs_st]. now rewrite pdec_rfc4648.
Qed.

(* ... also when arbitrary bytes outside the alphabet are inserted anywhere *)
Theorem b64_roundtrip_with_junk x a b c : bytes x -> b64_encode_all x = a ++ b -> dec_value c < 0 ->
  b64_decode_all (a ++ c :: b) = Ok x.
Proof.
  intros Hx Hab Hc. unfold b64_decode_all.
  destruct (decode_block_refine (a ++ c :: b) (repeat 0 (S (length (a ++ c :: b)))) d_init) as (lout & pt' & st' & E & L & P & F & _).
  - rewrite len_repeat. unfold len. lia.
  - rewrite E. cbn [bind]. rewrite F. cbn [d_init d_step d_plain abs_st]. rewrite pdec_skip by assumption.
    rewrite <- Hab, (b64_is_rfc4648 x Hx). now rewrite pdec_rfc4648.
Qed.
