(* sc_puff against RFC 1951, stage (a): the state of the model of sc_puff.c (C07/PuffModel.v) seen as
   "the bits not yet consumed", and the bit reader `bits` against the LSB-first packing of RFC 1951 3.1.1:
   if the unread bits start with the n-bit data element v, bits(s, n) returns v and leaves the rest. *)
From Coq Require Import ZArith List Bool Lia.
From ScV Require Import Base.CInt C06.Res C06.ResProofs C07.PuffModel C06.DeflateSpec C06.DeflateCanon.
Import ListNotations.
Local Open Scope Z_scope.

(* inrep c s bs tail: the bits not yet consumed are bs - the p_bitcnt s (0..7) low bits of the bit buffer,
   then the bits of the bytes up to s.inlen; behind s.inlen the memory holds `tail` *)
Definition inrep (c : pcfg) (s : pstate) (bs : list bool) (tail : list Z) : Prop :=
  exists avail,
    p_in s = avail ++ tail /\ bytes avail /\ len avail = c_inlen c - p_incnt s /\ 0 <= p_incnt s /\
    c_inlen c < M64 /\
    0 <= p_bitcnt s <= 7 /\ 0 <= p_bitbuf s < 2 ^ p_bitcnt s /\
    bs = bitsZ (p_bitcnt s) (p_bitbuf s) ++ bytes_bits avail.

Definition sameout (s s' : pstate) : Prop := p_out s' = p_out s /\ p_outcnt s' = p_outcnt s.

Lemma sameout_refl s : sameout s s.  Proof. split; reflexivity. Qed.
Lemma sameout_trans s1 s2 s3 : sameout s1 s2 -> sameout s2 s3 -> sameout s1 s3.
Proof. unfold sameout. intros [A B] [C D]. split; congruence. Qed.

Lemma inrep_len c s bs tail : inrep c s bs tail -> len bs = p_bitcnt s + 8 * (c_inlen c - p_incnt s).
Proof.
  intros (avail & _ & _ & La & _ & _ & Hbc & _ & ->). rewrite len_app, bitsZ_length by lia.
  unfold len at 1. rewrite bytes_bits_length. lia.
Qed.

Lemma inrep_incnt c s bs tail : inrep c s bs tail -> 0 <= p_incnt s <= c_inlen c /\ c_inlen c < M64.
Proof. intros (avail & _ & _ & La & Hi & Hm & _). pose proof (len_nonneg avail). lia. Qed.

Lemma lor_shl val b k : 0 <= k -> 0 <= val < 2 ^ k -> Z.lor val (shl b k) = val + b * 2 ^ k.
Proof.
  intros Hk Hv. unfold shl. rewrite Z.lor_comm. rewrite (lor_disjoint_add (b * 2 ^ k) val k); try lia.
  apply Z.mod_mul. pose proof (pow2_pos k Hk). lia.
Qed.

(* the loop of bits(): bytes are loaded until `need` bits are there; the bit string does not change *)
Lemma bits_loop_spec c tail need : forall fuel s val avail,
  p_in s = avail ++ tail -> bytes avail -> len avail = c_inlen c - p_incnt s -> 0 <= p_incnt s -> c_inlen c < M64 ->
  0 <= p_bitcnt s <= need + 7 -> 0 <= val < 2 ^ p_bitcnt s ->
  need <= p_bitcnt s + 8 * len avail -> need <= p_bitcnt s + 8 * Z.of_nat fuel ->
  exists s' val' avail',
    bits_loop fuel c s val need = Ok (s', val') /\
    p_in s' = avail' ++ tail /\ bytes avail' /\ len avail' = c_inlen c - p_incnt s' /\ 0 <= p_incnt s' /\
    need <= p_bitcnt s' <= need + 7 /\ 0 <= val' < 2 ^ p_bitcnt s' /\
    bitsZ (p_bitcnt s') val' ++ bytes_bits avail' = bitsZ (p_bitcnt s) val ++ bytes_bits avail /\
    sameout s s'.
Proof.
  induction fuel as [|fuel IH]; intros s val avail Ein Hb La Hi Hm Hbc Hv Hav Hf.
  - cbn [bits_loop]. destruct (Z.ltb_spec (p_bitcnt s) need); [lia|].
    exists s, val, avail. repeat split; auto; lia.
  - cbn [bits_loop]. destruct (Z.ltb_spec (p_bitcnt s) need) as [Hlt|Hge].
    + destruct avail as [|b avail1]; [change (len (@nil Z)) with 0 in Hav; lia|].
      rewrite len_cons in La. pose proof (len_nonneg avail1) as Hn1.
      destruct (Z.eqb_spec (p_incnt s) (c_inlen c)) as [He|_]; [lia|].
      unfold in_byte. rewrite Ein. cbn [app bind]. rewrite (u64_id (p_incnt s + 1)) by lia.
      apply bytes_cons in Hb. destruct Hb as [Hb0 Hb1]. unfold byte in Hb0.
      unfold set_bits. cbn [p_out p_outcnt p_in p_incnt p_bitbuf p_bitcnt].
      rewrite lor_shl by lia.
      assert (Hp : 0 < 2 ^ p_bitcnt s) by (apply pow2_pos; lia).
      destruct (IH (mkSt (p_out s) (p_outcnt s) (avail1 ++ tail) (p_incnt s + 1) (p_bitbuf s) (p_bitcnt s + 8))
                   (val + b * 2 ^ p_bitcnt s) avail1) as (s' & val' & avail' & E & I1 & I2 & I3 & I4 & I5 & I6 & I7 & I8);
        cbn [p_out p_outcnt p_in p_incnt p_bitbuf p_bitcnt]; auto; try lia.
      * rewrite Z.pow_add_r by lia. change (2 ^ 8) with 256. nia.
      * rewrite len_cons in Hav. lia.
      * exists s', val', avail'. rewrite E. repeat split; auto; try lia.
        -- cbn [p_bitcnt] in I7. rewrite I7. rewrite bitsZ_add by lia. rewrite bytes_bits_cons, <- app_assoc. reflexivity.
        -- apply I8.
        -- apply I8.
    + exists s, val, avail. repeat split; auto; lia.
Qed.

(* (a) the bit reader *)
Theorem bits_spec c s need v rest tail :
  inrep c s (bitsZ need v ++ rest) tail -> 0 <= need <= 16 -> 0 <= v < 2 ^ need ->
  exists s', bits c s need = Ok (v, s') /\ inrep c s' rest tail /\ sameout s s'.
Proof.
  intros Hr Hn Hv. pose proof (inrep_len _ _ _ _ Hr) as Hl.
  destruct Hr as (avail & Ein & Hb & La & Hi & Hm & Hbc & Hbb & Ebs).
  rewrite len_app, bitsZ_length in Hl by lia. pose proof (len_nonneg rest) as Hrest.
  destruct (bits_loop_spec c tail need 4 s (p_bitbuf s) avail) as (s' & val' & avail' & E & I1 & I2 & I3 & I4 & I5 & I6 & I7 & I8);
    auto; try lia.
  unfold bits. rewrite E. cbn [bind].
  rewrite <- Ebs in I7.
  replace (p_bitcnt s') with (need + (p_bitcnt s' - need)) in I7 at 1 by lia.
  rewrite bitsZ_app, <- app_assoc in I7 by lia.
  apply app_inv_len in I7; [|apply Nat2Z.inj; fold (len (bitsZ need val')); fold (len (bitsZ need v)); rewrite !bitsZ_length by lia; reflexivity].
  destruct I7 as [Ev Er].
  assert (Hp : 0 < 2 ^ need) by (apply pow2_pos; lia).
  assert (Hv' : val' mod 2 ^ need = v).
  { rewrite <- bitsZ_mod in Ev by lia. apply (bitsZ_inj need); [lia|apply Z.mod_pos_bound; lia|lia|exact Ev]. }
  unfold shl. rewrite Z.mul_1_l, land_ones_mod by lia. rewrite Hv'.
  eexists. split; [reflexivity|]. split.
  - exists avail'. cbn [set_bits p_out p_outcnt p_in p_incnt p_bitbuf p_bitcnt]. repeat split; auto; try lia.
    + unfold shr. apply Z.div_pos; lia.
    + unfold shr. apply Z.div_lt_upper_bound; [lia|]. rewrite <- Z.pow_add_r by lia.
      replace (need + (p_bitcnt s' - need)) with (p_bitcnt s') by lia. lia.
  - unfold sameout, set_bits; cbn [p_out p_outcnt]. exact I8.
Qed.

(* a single bit *)
Lemma bitsZ_1 (b : bool) : bitsZ 1 (b2z b) = [b].
Proof. destruct b; reflexivity. Qed.

Lemma bits_spec_1 c s (b : bool) rest tail :
  inrep c s (b :: rest) tail ->
  exists s', bits c s 1 = Ok (b2z b, s') /\ inrep c s' rest tail /\ sameout s s'.
Proof.
  intros Hr. apply (bits_spec c s 1 (b2z b) rest tail); [rewrite bitsZ_1; exact Hr|lia|destruct b; cbn; lia].
Qed.
