(* Tie T1 for the ENCODER side: the hand-written models (C06/B64Model.v encoder, C06/StoredModel.v, C06/ArmorModel.v) compute
   what the slices generated from the CURRENT source compute (Gen/EncodeC06.v, tools/c2g/groups_C06.py group EncodeC06).
   A C `char` is signed: the slices read and store chars (s8), the models bytes (u8): `pt_at p = s8 (the byte at p)`, a stored
   character c corresponds to the byte u8 c.  Pointers are integers; `mem_widx` is the ADDRESS of a store. *)
From Coq Require Import ZArith List Bool Lia.
From ScV Require Import Base.CInt Gen.Codec Gen.EncodeC06 C06.Res C06.ResProofs C06.B64Model C06.B64Proofs C06.StoredModel C06.ArmorModel.
Import ListNotations.
Local Open Scope Z_scope.

(* ---- chars and bytes -------------------------------------------------------------------------------- *)
Ltac Zify.zify_post_hook ::= Z.div_mod_to_equations.
Lemma s8_s8 x : s8 (s8 x) = s8 x.
Proof. unfold s8, wraps, M8. change (256 / 2) with 128. lia. Qed.
Lemma s8_u8 x : s8 (u8 x) = s8 x.
Proof. unfold u8, s8, wrapu, wraps, M8. change (256 / 2) with 128. lia. Qed.
Lemma s8_small x : -128 <= x < 128 -> s8 x = x.
Proof. intros. unfold s8, wraps, M8. change (256 / 2) with 128. lia. Qed.
Lemma enc_value_s8 v : s8 (enc_value v) = base64_encode_value (s8 v).
Proof. unfold enc_value. rewrite s8_u8. unfold base64_encode_value. apply s8_s8. Qed.

(* the enumerators step_A, step_B, step_C are parameters of the slices: any three values *)
Section Steps.
Variables sA sB sC : Z.
Definition step_code (s : estep) : Z := match s with StepA => sA | StepB => sB | StepC => sC end.

(* base64_init_encodestate *)
Theorem gen_b64e_init : b64e_init sA = (u32 (step_code (e_step e_init)), e_result e_init, 0, 0).
Proof. reflexivity. Qed.

(* result = state_in->result; the pointers *)
Theorem gen_b64e_enter : forall st pin n co,
  b64e_enter (e_result st) = (e_result st, 0) /\ b64e_plainchar_init pin = pin /\ b64e_plaintextend_init pin n = pin + n /\
  b64e_codechar_init co = co /\ b64e_switch_on (step_code (e_step st)) = step_code (e_step st) /\
  b64e_end_switch_on (step_code (e_step st)) = step_code (e_step st).
Proof. intros. repeat split. Qed.

(* end of the input in front of any of the three labels: the carry and the step are saved, the number of characters is returned *)
Theorem gen_b64e_input_end : forall pt_at p r cc co frag sr ss sc,
  b64e_step_A pt_at p p r sA cc co frag sr ss = (u64 (s64 (cc - co)), 1, 0, 0, r, u32 sA, frag, p, r, cc, 1) /\
  b64e_step_B pt_at p p r sB cc co frag sr ss = (u64 (s64 (cc - co)), 1, 0, 0, r, u32 sB, frag, p, r, cc, 1) /\
  b64e_step_C pt_at p p r sC cc co frag sc sr ss = (u64 (s64 (cc - co)), 1, 0, 0, 0, 0, r, u32 sC, frag, p, r, cc, sc, 1).
Proof. intros. unfold b64e_step_A, b64e_step_B, b64e_step_C. rewrite Z.eqb_refl. repeat split. Qed.

Lemma stepA_c x : byte x -> base64_encode_value (s8 (shr (Z.land (s8 x) 252) 2)) = s8 (enc_value (shr (Z.land x 252) 2)).
Proof. intros H. apply Z.eqb_eq. apply (all_upto 256 (fun x => base64_encode_value (s8 (shr (Z.land (s8 x) 252) 2)) =? s8 (enc_value (shr (Z.land x 252) 2)))); [vm_compute; reflexivity|exact H]. Qed.
Lemma stepA_r x : byte x -> s8 (s32 (shl (Z.land (s8 x) 3) 4)) = shl (Z.land x 3) 4.
Proof. intros H. apply Z.eqb_eq. apply (all_upto 256 (fun x => s8 (s32 (shl (Z.land (s8 x) 3) 4)) =? shl (Z.land x 3) 4)); [vm_compute; reflexivity|exact H]. Qed.
Lemma stepB_c x r : byte x -> 0 <= r < 64 -> base64_encode_value (s8 (Z.lor r (shr (Z.land (s8 x) 240) 4))) = s8 (enc_value (Z.lor r (shr (Z.land x 240) 4))).
Proof. intros Hx Hr. apply Z.eqb_eq. apply (all2_upto 256 64 (fun x r => base64_encode_value (s8 (Z.lor r (shr (Z.land (s8 x) 240) 4))) =? s8 (enc_value (Z.lor r (shr (Z.land x 240) 4))))); [vm_compute; reflexivity|exact Hx|exact Hr]. Qed.
Lemma stepB_r x : byte x -> s8 (s32 (shl (Z.land (s8 x) 15) 2)) = shl (Z.land x 15) 2.
Proof. intros H. apply Z.eqb_eq. apply (all_upto 256 (fun x => s8 (s32 (shl (Z.land (s8 x) 15) 2)) =? shl (Z.land x 15) 2)); [vm_compute; reflexivity|exact H]. Qed.
Lemma stepC_c x r : byte x -> 0 <= r < 64 -> base64_encode_value (s8 (Z.lor r (shr (Z.land (s8 x) 192) 6))) = s8 (enc_value (Z.lor r (shr (Z.land x 192) 6))).
Proof. intros Hx Hr. apply Z.eqb_eq. apply (all2_upto 256 64 (fun x r => base64_encode_value (s8 (Z.lor r (shr (Z.land (s8 x) 192) 6))) =? s8 (enc_value (Z.lor r (shr (Z.land x 192) 6))))); [vm_compute; reflexivity|exact Hx|exact Hr]. Qed.
Lemma stepC_r x : byte x -> s8 (shr (Z.land (s8 x) 63) 0) = shr (Z.land x 63) 0.
Proof. intros H. apply Z.eqb_eq. apply (all_upto 256 (fun x => s8 (shr (Z.land (s8 x) 63) 0) =? shr (Z.land x 63) 0)); [vm_compute; reflexivity|exact H]. Qed.
Lemma stepC_c2 x : byte x -> base64_encode_value (shr (Z.land x 63) 0) = s8 (enc_value (shr (Z.land x 63) 0)).
Proof. intros H. apply Z.eqb_eq. apply (all_upto 256 (fun x => base64_encode_value (shr (Z.land x 63) 0) =? s8 (enc_value (shr (Z.land x 63) 0)))); [vm_compute; reflexivity|exact H]. Qed.

(* the carry the model keeps is a 6-bit value in every state *)
Lemma carry_ranges x : byte x ->
  0 <= shl (Z.land x 3) 4 < 64 /\ 0 <= shl (Z.land x 15) 2 < 64 /\ 0 <= shr (Z.land x 63) 0 < 64.
Proof.
  intros Hx.
  pose proof (all_upto 256 (fun x => (0 <=? shl (Z.land x 3) 4) && (shl (Z.land x 3) 4 <? 64) && ((0 <=? shl (Z.land x 15) 2) && (shl (Z.land x 15) 2 <? 64)) &&
                                      ((0 <=? shr (Z.land x 63) 0) && (shr (Z.land x 63) 0 <? 64))) eq_refl x Hx) as H.
  cbv beta in H. lia.
Qed.
Lemma enc_byte_carry st x : byte x -> 0 <= e_result (fst (enc_byte st x)) < 64.
Proof. intros Hx. pose proof (carry_ranges x Hx). unfold enc_byte. destruct (e_step st); cbn [fst e_result]; lia. Qed.

(* one plaintext byte x at plainchar (pt_at p = the char there) in each of the three steps: the characters stored at codechar,
   the new carry and the next label are the model's enc_byte *)
Theorem gen_b64e_step_A : forall pt_at p pend r cc co frag sr ss x, byte x -> pt_at p = s8 x -> p <> pend ->
  (b64e_step_A pt_at p pend r sA cc co frag sr ss =
    let '(st', out) := enc_byte (mkE StepA r) x in
    (0, 0, cc, s8 (nth 0 out 0), sr, ss, s8 x, p + 1, e_result st', cc + Z.of_nat (length out), 0)) /\ e_step (fst (enc_byte (mkE StepA r) x)) = StepB.
Proof.
  intros pt_at p pend r cc co frag sr ss x Hx Hp Hne. unfold b64e_step_A, enc_byte. cbn [e_step e_result nth length].
  destruct (Z.eqb_spec p pend); [contradiction|]. rewrite Hp, stepA_c, stepA_r by exact Hx. split; reflexivity.
Qed.

Theorem gen_b64e_step_B : forall pt_at p pend r cc co frag sr ss x, byte x -> 0 <= r < 64 -> pt_at p = s8 x -> p <> pend ->
  (b64e_step_B pt_at p pend r sB cc co frag sr ss =
    let '(st', out) := enc_byte (mkE StepB r) x in
    (0, 0, cc, s8 (nth 0 out 0), sr, ss, s8 x, p + 1, e_result st', cc + Z.of_nat (length out), 0)) /\ e_step (fst (enc_byte (mkE StepB r) x)) = StepC.
Proof.
  intros pt_at p pend r cc co frag sr ss x Hx Hr Hp Hne. unfold b64e_step_B, enc_byte. cbn [e_step e_result nth length].
  destruct (Z.eqb_spec p pend); [contradiction|]. rewrite Hp, stepB_c, stepB_r by assumption. split; reflexivity.
Qed.

Theorem gen_b64e_step_C : forall pt_at p pend r cc co frag sc sr ss x, byte x -> 0 <= r < 64 -> pt_at p = s8 x -> p <> pend ->
  (b64e_step_C pt_at p pend r sC cc co frag sc sr ss =
    let '(st', out) := enc_byte (mkE StepC r) x in
    (0, 0, cc, s8 (nth 0 out 0), cc + 1, s8 (nth 1 out 0), sr, ss, s8 x, p + 1, e_result st', cc + Z.of_nat (length out), s32 (sc + 1), 0)) /\
    e_step (fst (enc_byte (mkE StepC r) x)) = StepA.
Proof.
  intros pt_at p pend r cc co frag sc sr ss x Hx Hr Hp Hne. unfold b64e_step_C, enc_byte. cbn [e_step e_result nth length].
  destruct (Z.eqb_spec p pend); [contradiction|]. rewrite Hp, stepC_c, stepC_r, stepC_c2 by assumption.
  replace (cc + 1 + 1) with (cc + Z.of_nat 2) by lia. split; reflexivity.
Qed.

(* base64_encode_blockend: the characters of the three cases are the model's enc_end (r = the carry, a 6-bit value) *)
Theorem gen_b64e_end : forall cc co r, 0 <= r < 64 ->
  (let out := enc_end (mkE StepB r) in
   b64e_end_step_B cc r = (cc, s8 (nth 0 out 0), cc + 1, nth 1 out 0, cc + 1 + 1, nth 2 out 0, cc + 1 + 1 + 1, 0) /\ length out = 3%nat) /\
  (let out := enc_end (mkE StepC r) in
   b64e_end_step_C cc r = (cc, s8 (nth 0 out 0), cc + 1, nth 1 out 0, cc + 1 + 1, 0) /\ length out = 2%nat) /\
  (b64e_end_step_A = 0 /\ enc_end (mkE StepA r) = []) /\
  b64e_end_return cc co = (u64 (s64 (cc - co)), 1, 1) /\ b64e_unreachable_return cc co = (u64 (s64 (cc - co)), 1, 1).
Proof.
  intros cc co r Hr. unfold b64e_end_step_B, b64e_end_step_C, enc_end. cbn [e_step e_result nth length]. rewrite enc_value_s8, (s8_small r) by lia.
  repeat split.
Qed.
End Steps.

(* ---- sc_io_adler32_init, sc_io_noncompress ------------------------------------------------------------------------ *)
Theorem gen_adler32_init : adler32_init = (adler_init, 0).
Proof. reflexivity. Qed.

(* the two header bytes and the pointer moves: the model's [120; 1] *)
Theorem gen_nonc_header : forall dest dsz,
  nonc_header dest dsz = (u64 (dest + 0), s8 (nth 0 (firstn 2 (noncompress [])) 0), u64 (dest + 1), s8 (nth 1 (firstn 2 (noncompress [])) 0), dest + 2, u64 (dsz - 2), 0).
Proof. intros. reflexivity. Qed.

(* one iteration of the do loop against the model's noncompress_block: n = src_size, l = the source bytes from src on.
   The five header bytes are stored at dest .. dest + 4, memcpy copies bsize bytes from src to dest + 5, the checksum is
   extended by these bytes, the loop goes on iff bytes remain. *)
Theorem gen_nonc_block : forall l n adler dest dsz src b0, 0 <= n < M64 ->
  let '(o, l', n', a') := noncompress_block l n adler in
  let bs := if negb (NONCOMP_BLOCK <? n) then u16 n else NONCOMP_BLOCK in
  nonc_block n b0 dest dsz src adler =
    (1, dest + 5, src, bs, 1, src, bs,
     u64 (dest + 0), s8 (nth 0 o 0), u64 (dest + 1), s8 (nth 1 o 0), u64 (dest + 2), s8 (nth 2 o 0), u64 (dest + 3), s8 (nth 3 o 0), u64 (dest + 4), s8 (nth 4 o 0),
     bs, u16 (Z.lnot bs), dest + 5 + bs, u64 (u64 (dsz - 5) - bs), adler, src + bs, n', if 0 <? n' then 0 else 1) /\
  o = firstn 5 o ++ firstn (Z.to_nat bs) l /\ l' = skipn (Z.to_nat bs) l /\ a' = adler_update adler (firstn (Z.to_nat bs) l) /\ 0 <= bs <= n /\ n' = n - bs.
Proof.
  intros l n adler dest dsz src b0 Hn. unfold noncompress_block, nonc_block, NONCOMP_BLOCK. unfold M64 in Hn.
  destruct (Z.ltb_spec 65531 n); cbn [negb nth app firstn].
  - rewrite (u64_id (n - 65531)) by (unfold M64; lia). change (u16 (s32 (Z.lnot 65531))) with (u16 (Z.lnot 65531)).
    destruct (Z.ltb_spec 0 (n - 65531)); cbn [negb]; (split; [reflexivity|]); repeat split; lia.
  - assert (Hu : u16 n = n) by (unfold u16, wrapu, M16; rewrite Z.mod_small; lia). rewrite Hu.
    rewrite (u64_id (n - n)) by (unfold M64; lia).
    assert (Hl : u16 (s32 (Z.lnot n)) = u16 (Z.lnot n)).
    { unfold Z.lnot, Z.pred. unfold s32, wraps, M32. change (4294967296 / 2) with 2147483648. rewrite Z.mod_small by lia. f_equal. lia. }
    rewrite Hl. destruct (Z.ltb_spec 0 (n - n)); cbn [negb]; try lia.
    split; [reflexivity|]. repeat split; lia.
Qed.

(* the four trailing bytes: the model's be4 *)
Theorem gen_nonc_trailer : forall dest adler, 0 <= adler < M32 ->
  nonc_trailer dest adler = (u64 (dest + 0), s8 (nth 0 (be4 adler) 0), u64 (dest + 1), s8 (nth 1 (be4 adler) 0),
                             u64 (dest + 2), s8 (nth 2 (be4 adler) 0), u64 (dest + 3), s8 (nth 3 (be4 adler) 0), 0).
Proof. intros. unfold nonc_trailer, be4. cbn [nth]. rewrite s8_u8. reflexivity. Qed.

(* ---- sc_io_encode, sc_io_encode_zlib -------------------------------------------------------------------------------- *)
(* sc_io_encode = sc_io_encode_zlib (data, out, level, break byte) with LEGAL arguments (the documented precondition: level in
   -1..9, a byte); which legal values - today Z_BEST_COMPRESSION and '=' - does not matter for the property *)
Theorem gen_enc_defaults : -1 <= enc_default_level <= 9 /\ 0 <= enc_default_break < 256.
Proof. vm_compute. intuition discriminate. Qed.

(* the size loop stores the model's be8: byte i of the header in iteration i, leaves at i = 8; the ninth byte is 'z' *)
Theorem gen_enc_size_step : forall i n, 0 <= i < 8 -> 0 <= n < M64 ->
  enc_size_step i n = (i, nth (Z.to_nat i) (info_header n) 0, i + 1, 0).
Proof.
  intros i n Hi Hn. unfold enc_size_step.
  assert (Hc : i = 0 \/ i = 1 \/ i = 2 \/ i = 3 \/ i = 4 \/ i = 5 \/ i = 6 \/ i = 7) by lia.
  assert (Hb : forall k, 0 <= k -> u8 (Z.land (shr n k) 255) = Z.land (shr n k) 255).
  { intros k Hk. unfold u8, wrapu, M8. change 255 with (2 ^ 8 - 1). rewrite land_ones_mod by lia. rewrite Z.mod_mod by lia. reflexivity. }
  destruct Hc as [->|[->|[->|[->|[->|[->|[->| ->]]]]]]]; cbn -[shr Z.land u8]; rewrite Hb by lia; reflexivity.
Qed.

Theorem gen_enc_size_loop_end : forall n, enc_size_init = (0, 0) /\ enc_size_step 8 n = (0, 0, 8, 1) /\ len (info_header n) = 9.
Proof. intros. repeat split. Qed.

Theorem gen_enc_input_size : forall out cnt esz, enc_input_size out cnt esz = (u64 (cnt * esz), 0).
Proof. reflexivity. Qed.

(* the build without zlib: 'z' at index 8, the temporary array has 9 + bound bytes, the header is copied to its front, the stored
   stream is written behind it with the bound as its capacity; d = the input bytes *)
Theorem gen_enc_compress_nz : forall n ca os da,
  enc_compress_nz n ca os da =
    (1, 1, u64 (len (info_header n) + sc_io_noncompress_bound n), 1, ca, os, len (info_header n),
     1, ca + len (info_header n), sc_io_noncompress_bound n, da, n, 8, nth 8 (info_header n) 0, sc_io_noncompress_bound n, 0).
Proof. reflexivity. Qed.

(* the build with zlib: compressBound (input_size), compress2 into the same place with the given level; its output length is
   what compress2 leaves in input_compress_bound (parameter zlen) *)
Theorem gen_enc_compress_z : forall n cb ca os da lvl zret zlen,
  enc_compress_z n cb ca os da lvl zret zlen =
    (1, n, 1, 1, u64 (len (info_header n) + cb), 1, ca, os, len (info_header n),
     1, ca + len (info_header n), da, n, lvl, 8, nth 8 (info_header n) 0, zlen, cb, zret, 0).
Proof. reflexivity. Qed.

(* the payload has 9 + (compressed length) bytes; line count and text size are the formulas of Gen/Codec.v the model uses; the
   output array (the input array itself when out == NULL) is resized to the text size; the text of an empty payload is the NUL *)
Theorem gen_enc_prepare : forall out data clen ca oa,
  let plen := u64 (9 + clen) in
  enc_prepare out data clen ca oa =
    (1, (if out =? 0 then data else out), sc_encoded_size plen, 1, u64 (oa + 0), 0, (if out =? 0 then data else out), plen,
     enc_base64_lines plen, sc_encoded_size plen, ca, plen, oa, 0).
Proof. intros. unfold enc_prepare. destruct (out =? 0); reflexivity. Qed.

(* one iteration of the line loop against one unfolding of the model's enc_lines: the same test for the last line, the same
   number of bytes handed to base64_encode_block, 57 bytes / 78 characters forward, break byte and newline behind the 76 code
   characters (the NUL behind them is overwritten by the next line), resp. behind the end of the code on the last line *)
Theorem gen_enc_line_step : forall zlin lines opos ipos irem lout0 bo ret lb retend, zlin < lines ->
  enc_line_step zlin lines opos ipos irem lout0 bo ret lb retend =
    if zlin <? u64 (lines - 1) then
      (1, ipos, enc_lein irem, bo, 1, opos, bo, 76, 0, 0, 0, 0, 0, 0, 0, 0, 0, 0,
       u64 (opos + 76), s8 lb, u64 (opos + 77), 10, u64 (opos + 78), 0, opos + 78, ipos + 57, u64 (irem - 57), ret, u64 (zlin + 1), 0)
    else
      (1, ipos, enc_lein irem, bo, 0, 0, 0, 0, 1, opos, bo, ret, 1, bo, 1, opos + ret, bo, retend,
       u64 (opos + ret + retend + 0), s8 lb, u64 (opos + ret + retend + 1), 10, u64 (opos + ret + retend + 2), 0, 0, 0, 0, retend, u64 (zlin + 1), 0).
Proof.
  intros. unfold enc_line_step. destruct (Z.ltb_spec zlin lines); [|lia]. cbn [negb].
  destruct (zlin <? u64 (lines - 1)); reflexivity.
Qed.

Theorem gen_enc_line_loop : forall zlin lines opos ipos irem lout0 bo ret lb retend, lines <= zlin ->
  enc_line_init = (0, 0) /\
  enc_line_step zlin lines opos ipos irem lout0 bo ret lb retend =
    (0, 0, 0, 0, 0, 0, 0, 0, 0, 0, 0, 0, 0, 0, 0, 0, 0, 0, 0, 0, 0, 0, 0, 0, opos, ipos, irem, lout0, zlin, 1) /\ enc_finish = (1, 0).
Proof. intros. unfold enc_line_step. destruct (Z.ltb_spec zlin lines); [lia|]. repeat split. Qed.

(* what one unfolding of the model's line loop is (by computation): the shape the previous theorem is compared with *)
Theorem enc_lines_unfold : forall k zlin lines ipos irem st lb,
  enc_lines (S k) zlin lines ipos irem st lb =
    let '(st1, code) := enc_block st (firstn (Z.to_nat (enc_lein irem)) ipos) in
    if zlin <? u64 (lines - 1) then code ++ [lb; 10] ++ enc_lines k (zlin + 1) lines (skipn 57 ipos) (u64 (irem - 57)) st1 lb
    else code ++ enc_end st1 ++ [lb; 10; 0].
Proof. reflexivity. Qed.

(* ---- sc_vtk_write_binary ----------------------------------------------------------------------------------------------- *)
(* chunks of 32768 bytes; the buffer holds 2 * 32768 + 1 characters; the first call of the encoder reads the 4 bytes of the
   32-bit length word (value u32 n: on a little-endian machine the bytes le4 (u32 n) of the model) *)
Theorem gen_vtkb_header : forall n pkg mret ahdr eret file,
  vtkb_header n pkg mret ahdr eret file =
    (1, pkg, 65537, 1, 1, ahdr, len (le4 (u32 n)), mret, 1, mret, 1, eret, file, eret, 0, 32768, u32 n, 65537, mret, u32 n, eret, 0, n, 0).
Proof. reflexivity. Qed.

(* one iteration of the chunk loop against one unfolding of the model's vtk_chunks: the same test, the same chunk length, the
   chunk starts at numeric_data + chunks * 32768, the same encoder state goes on (base64_init_encodestate is not called) *)
Theorem gen_vtkb_chunk_step : forall remaining w0 bl0 chunks data bd eret file, 0 < remaining < M64 ->
  vtkb_chunk_step remaining w0 bl0 chunks 32768 data bd eret file =
    let writenow := if remaining <? 32768 then remaining else 32768 in
    (1, data + u64 (chunks * 32768), writenow, bd, 1, bd, 1, eret, file, eret, 0, writenow, eret, remaining - writenow, u64 (chunks + 1), 0).
Proof.
  intros. unfold vtkb_chunk_step. destruct (Z.ltb_spec 0 remaining); [|lia]. cbn [negb].
  destruct (Z.ltb_spec remaining 32768); [rewrite (u64_id (remaining - remaining))|rewrite (u64_id (remaining - 32768))]; try reflexivity; unfold M64 in *; lia.
Qed.

Theorem gen_vtkb_chunk_loop_end : forall w0 bl0 chunks cs data bd eret file,
  vtkb_chunk_step 0 w0 bl0 chunks cs data bd eret file = (0, 0, 0, 0, 0, 0, 0, 0, 0, 0, 0, w0, bl0, 0, chunks, 1).
Proof. reflexivity. Qed.

Theorem vtk_chunks_unfold : forall f data remaining st,
  vtk_chunks (S f) data remaining st =
    if 0 <? remaining then
      let writenow := if remaining <? 32768 then remaining else 32768 in
      let '(st1, o1) := enc_block st (firstn (Z.to_nat writenow) data) in
      let '(st2, o2) := vtk_chunks f (skipn (Z.to_nat writenow) data) (remaining - writenow) st1 in (st2, o1 ++ o2)
    else (st, []).
Proof. reflexivity. Qed.

(* blockend on the same state, then the buffer is freed; the return value is -1 iff ferror *)
Theorem gen_vtkb_finish : forall bd eret file pkg fe,
  vtkb_finish bd eret file pkg fe = (1, bd, 1, bd, 1, eret, file, 1, pkg, bd, eret, 0, (if z2b fe then -1 else 0), 1, eret, 1).
Proof. intros. unfold vtkb_finish. destruct (z2b fe); reflexivity. Qed.

(* ---- sc_vtk_write_compressed ------------------------------------------------------------------------------------------- *)
(* the block arithmetic and the first three header words are the model's (vtk_compressed_of_blocks) *)
Theorem gen_vtkc_sizes : forall n pkg m1 m2 m3, 0 <= n < M32 ->
  let lastsize := n mod 32768 in
  let numregular := n / 32768 in
  let numfull := numregular + (if 0 <? lastsize then 1 else 0) in
  let h2 := if (0 <? lastsize) || (n =? 0) then lastsize else 32768 in
  let hsize := 4 * (3 + numfull) in
  let cl := 2 * (if hsize <? 32768 then 32768 else hsize) + 4 + 1 in
  vtkc_sizes n pkg m1 m2 m3 =
    (1, pkg, cl, 1, pkg, cl, 1, pkg, hsize, 0, u32 numfull, 1, 32768, 2, u32 h2,
     32768, lastsize, numregular, numfull, 3 + numfull, hsize, cl, m1, m2, m3, 0) /\
  hsize = len (le4 (u32 numfull) ++ le4 32768 ++ le4 (u32 h2)) + 4 * numfull.
Proof.
  intros n pkg m1 m2 m3 Hn. unfold M32 in Hn. cbv zeta. unfold vtkc_sizes. change (u64 (s32 (shl 1 15))) with 32768.
  assert (H1 : 0 <= n mod 32768 < 32768) by (apply Z.mod_pos_bound; lia).
  assert (H2 : 0 <= n / 32768 <= 131072) by (split; [apply Z.div_pos; lia|apply Z.div_le_upper_bound; lia]).
  set (ls := n mod 32768) in *. set (nr := n / 32768) in *.
  assert (Hb : u64 (if 0 <? ls then 1 else 0) = (if 0 <? ls then 1 else 0)) by (destruct (0 <? ls); reflexivity).
  rewrite Hb. set (e := if 0 <? ls then 1 else 0) in *. assert (He : 0 <= e <= 1) by (unfold e; destruct (0 <? ls); lia).
  rewrite (u64_id (nr + e)) by (unfold M64; lia). rewrite (u64_id (3 + (nr + e))) by (unfold M64; lia).
  rewrite (u64_id ((3 + (nr + e)) * 4)) by (unfold M64; lia).
  replace ((3 + (nr + e)) * 4) with (4 * (3 + (nr + e))) by lia.
  set (hs := 4 * (3 + (nr + e))) in *.
  assert (Hm : 0 <= (if hs <? 32768 then 32768 else hs) <= 4 * 131080) by (destruct (hs <? 32768); lia).
  set (mx := if hs <? 32768 then 32768 else hs) in *.
  rewrite (u64_id (2 * mx)), (u64_id (2 * mx + 4)), (u64_id (2 * mx + 4 + 1)) by (unfold M64; lia).
  rewrite (u64_id ((2 * mx + 4 + 1) * 1)) by (unfold M64; lia). rewrite Z.mul_1_r.
  split; [reflexivity|]. unfold len, le4. cbn [length app]. lia.
Qed.

(* the size words 3 .. header_entries - 1 are cleared *)
Theorem gen_vtkc_zero : forall iz he,
  vtkc_zero_init = (3, 0) /\ vtkc_zero_step iz he = if iz <? he then (iz, 0, u64 (iz + 1), 0) else (0, 0, iz, 1).
Proof. intros. split; [reflexivity|]. unfold vtkc_zero_step. destruct (iz <? he); reflexivity. Qed.

(* the dummy header: a fresh encoder state, ONE block of header_size bytes from the header words, blockend directly behind it;
   its position in the file is remembered; the state is initialised AGAIN for the data *)
Theorem gen_vtkc_dummy_header : forall ch hs bd e1 e2 file ft,
  vtkc_dummy_header ch hs bd e1 e2 file ft = (1, 1, ch, hs, bd, 1, bd + e1, 1, file, 1, bd, 1, u64 (e1 + e2), file, 1, u64 (e1 + e2), 0, u64 (e1 + e2), e2, ft, 0).
Proof. reflexivity. Qed.

(* one regular block: 32768 bytes from numeric_data + theblock * 32768 at level 9 into a buffer of code_length bytes; the length
   compress2 leaves in comp_length (clen) is header word 3 + theblock and the length of the block handed to the SAME encoder state *)
Theorem gen_vtkc_block_step : forall tb nreg clen cin0 rv0 bl0 cl cd data zret bd eret file, tb < nreg ->
  vtkc_block_init = (0, 0) /\
  vtkc_block_step tb nreg clen cin0 rv0 bl0 cl cd data 32768 zret bd eret file =
    (1, cd, data + u64 (tb * 32768), 32768, 9, 1, cd, clen, bd, 1, bd, 1, eret, file, u64 (3 + tb), u32 clen, eret, 0, clen, cl, zret, eret, u64 (tb + 1), 0).
Proof. intros. split; [reflexivity|]. unfold vtkc_block_step. destruct (Z.ltb_spec tb nreg); [|lia]. reflexivity. Qed.

Theorem gen_vtkc_block_loop_end : forall tb nreg clen cin0 rv0 bl0 cl cd data bs zret bd eret file, nreg <= tb ->
  vtkc_block_step tb nreg clen cin0 rv0 bl0 cl cd data bs zret bd eret file = (0, 0, 0, 0, 0, 0, 0, 0, 0, 0, 0, 0, 0, 0, 0, 0, 0, 0, clen, cin0, rv0, bl0, tb, 1).
Proof. intros. unfold vtkc_block_step. destruct (Z.ltb_spec tb nreg); [lia|]. reflexivity. Qed.

(* the last block: lastsize bytes, iff lastsize > 0 - the model's `if 0 <? lastsize` *)
Theorem gen_vtkc_last_block : forall cl cd data tb ls zret clen bd eret file,
  vtkc_has_last ls = (0 <? ls) /\
  vtkc_last_block cl cd data tb 32768 ls zret clen bd eret file =
    (1, cd, data + u64 (tb * 32768), ls, 9, 1, cd, clen, bd, 1, bd, 1, eret, file, u64 (3 + tb), u32 clen, eret, 0, clen, cl, zret, eret, 0).
Proof. intros. split; reflexivity. Qed.

(* the end: blockend of the data state; a FRESH state for the real header (header_size bytes from the header words, blockend
   directly behind), written at the remembered position; three buffers freed; -1 iff a seek failed or ferror *)
Theorem gen_vtkc_finish : forall bd e0 file ft ch hs e1 e2 hp s1 s2 pkg cd fe,
  vtkc_finish bd e0 file ft ch hs e1 e2 hp s1 s2 pkg cd fe =
    (1, bd, 1, bd, 1, e0, file, 1, file, 1, 1, ch, hs, bd, 1, bd + e1, 1, file, hp, 0, 1, bd, 1, u64 (e1 + e2), file, 1, file, ft, 0,
     1, pkg, ch, 1, pkg, cd, 1, pkg, bd, e0, 0, u64 (e1 + e2), 0,
     (if negb (s1 =? 0) || negb (s2 =? 0) || z2b fe then -1 else 0), 1, u64 (e1 + e2), ft, e2, s1, s2, 1).
Proof. intros. unfold vtkc_finish. destruct (negb (s1 =? 0) || negb (s2 =? 0) || z2b fe); reflexivity. Qed.
