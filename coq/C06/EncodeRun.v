(* The whole control flow of base64_encode_block from the generated slices: `switch (step) { while (1) { case A: .. case B: ..
   case C: .. } }` is "enter at the saved step, then A -> B -> C -> A -> .. until a slice returns" (the shape is checked by the
   generator).  gen_block runs the GENERATED slices in that order on a memory function; the theorem says that for every
   input and every entry state it stores exactly the model's characters, saves the model's state and returns their number. *)
From Coq Require Import ZArith List Bool Lia.
From ScV Require Import Base.CInt Gen.Codec Gen.EncodeC06 C06.Res C06.ResProofs C06.B64Model C06.B64Proofs C06.EncodeGen.
Import ListNotations.
Local Open Scope Z_scope.

Section Run.
Variables sA sB sC : Z.

(* result: (returned count, saved step as the enumerator value, saved carry, characters stored at code_out, code_out+1, ..) *)
Fixpoint gen_block (fuel : nat) (stp : estep) (pt_at : Z -> Z) (p pend r cc co : Z) (out : list Z) : option (Z * Z * Z * list Z) :=
  match fuel with
  | O => None
  | S f =>
    match stp with
    | StepA =>
      let '(retv, returned, w1, v1, sr, ss, frag, p', r', cc', stop) := b64e_step_A pt_at p pend r sA cc co 0 0 0 in
      if returned =? 1 then Some (retv, ss, sr, out) else gen_block f StepB pt_at p' pend r' cc' co (out ++ [v1])
    | StepB =>
      let '(retv, returned, w1, v1, sr, ss, frag, p', r', cc', stop) := b64e_step_B pt_at p pend r sB cc co 0 0 0 in
      if returned =? 1 then Some (retv, ss, sr, out) else gen_block f StepC pt_at p' pend r' cc' co (out ++ [v1])
    | StepC =>
      let '(retv, returned, w1, v1, w2, v2, sr, ss, frag, p', r', cc', sc', stop) := b64e_step_C pt_at p pend r sC cc co 0 0 0 0 in
      if returned =? 1 then Some (retv, ss, sr, out) else gen_block f StepA pt_at p' pend r' cc' co (out ++ [v1; v2])
    end
  end.

Theorem gen_block_is_enc_block : forall l st pt_at p cc co out,
  bytes l -> 0 <= e_result st < 64 ->
  (forall i, 0 <= i < len l -> pt_at (p + i) = s8 (nth (Z.to_nat i) l 0)) ->
  gen_block (S (length l)) (e_step st) pt_at p (p + len l) (e_result st) cc co out =
    let '(st', o) := enc_block st l in
    Some (u64 (s64 (cc + len o - co)), u32 (step_code sA sB sC (e_step st')), e_result st', out ++ map s8 o).
Proof.
  induction l as [|x l IH]; intros st pt_at p cc co out Hl Hr Hm.
  - cbn [length enc_block len]. change (Z.of_nat 0) with 0. rewrite Z.add_0_r.
    destruct (gen_b64e_input_end sA sB sC pt_at p (e_result st) cc co 0 0 0 0) as (EA & EB & EC).
    destruct st as [stp r]; cbn [e_step e_result] in *. rewrite app_nil_r.
    change (len (@nil Z)) with 0. rewrite Z.add_0_r.
    destruct stp; cbn [gen_block]; [rewrite EA|rewrite EB|rewrite EC]; cbn [Z.eqb Pos.eqb step_code]; reflexivity.
  - apply bytes_cons in Hl. destruct Hl as [Hx Hl].
    assert (Hlen : len (x :: l) = len l + 1) by apply len_cons. pose proof (len_nonneg l) as Hn.
    assert (Hp : pt_at p = s8 x). { specialize (Hm 0). rewrite Z.add_0_r in Hm. apply Hm. lia. }
    assert (Hne : p <> p + len (x :: l)) by lia.
    assert (Hm' : forall i, 0 <= i < len l -> pt_at (p + 1 + i) = s8 (nth (Z.to_nat i) l 0)).
    { intros i Hi. replace (p + 1 + i) with (p + (i + 1)) by lia. rewrite Hm by lia.
      replace (Z.to_nat (i + 1)) with (S (Z.to_nat i)) by lia. reflexivity. }
    assert (Hpe : p + len (x :: l) = p + 1 + len l) by lia.
    pose proof (enc_byte_carry st x Hx) as Hc.
    destruct st as [stp r]; cbn [e_step e_result] in *.
    cbn [enc_block]. destruct stp.
    + destruct (gen_b64e_step_A sA pt_at p (p + len (x :: l)) r cc co 0 0 0 x Hx Hp Hne) as [E Es].
      change (length (x :: l)) with (S (length l)). set (f := S (length l)) in *. cbn [gen_block]. rewrite E. clear E. subst f.
      destruct (enc_byte (mkE StepA r) x) as [st1 o1] eqn:E1. cbn [fst] in *.
      assert (Ho : exists c, o1 = [c]) by (unfold enc_byte in E1; cbn [e_step] in E1; inversion E1; eauto). destruct Ho as [c ->].
      cbn [Z.eqb nth length]. rewrite Hpe. change (Z.of_nat 1) with 1.
      specialize (IH st1 pt_at (p + 1) (cc + 1) co (out ++ [s8 c]) Hl Hc Hm'). rewrite Es in IH. rewrite IH.
      destruct (enc_block st1 l) as [st2 o2]. cbn [app map]. rewrite len_cons, <- app_assoc. cbn [app].
      replace (cc + 1 + len o2 - co) with (cc + (len o2 + 1) - co) by lia. reflexivity.
    + destruct (gen_b64e_step_B sB pt_at p (p + len (x :: l)) r cc co 0 0 0 x Hx Hr Hp Hne) as [E Es].
      change (length (x :: l)) with (S (length l)). set (f := S (length l)) in *. cbn [gen_block]. rewrite E. clear E. subst f.
      destruct (enc_byte (mkE StepB r) x) as [st1 o1] eqn:E1. cbn [fst] in *.
      assert (Ho : exists c, o1 = [c]) by (unfold enc_byte in E1; cbn [e_step] in E1; inversion E1; eauto). destruct Ho as [c ->].
      cbn [Z.eqb nth length]. rewrite Hpe. change (Z.of_nat 1) with 1.
      specialize (IH st1 pt_at (p + 1) (cc + 1) co (out ++ [s8 c]) Hl Hc Hm'). rewrite Es in IH. rewrite IH.
      destruct (enc_block st1 l) as [st2 o2]. cbn [app map]. rewrite len_cons, <- app_assoc. cbn [app].
      replace (cc + 1 + len o2 - co) with (cc + (len o2 + 1) - co) by lia. reflexivity.
    + destruct (gen_b64e_step_C sC pt_at p (p + len (x :: l)) r cc co 0 0 0 0 x Hx Hr Hp Hne) as [E Es].
      change (length (x :: l)) with (S (length l)). set (f := S (length l)) in *. cbn [gen_block]. rewrite E. clear E. subst f.
      destruct (enc_byte (mkE StepC r) x) as [st1 o1] eqn:E1. cbn [fst] in *.
      assert (Ho : exists c d, o1 = [c; d]) by (unfold enc_byte in E1; cbn [e_step] in E1; inversion E1; eauto). destruct Ho as (c & d & ->).
      cbn [Z.eqb nth length]. rewrite Hpe. change (Z.of_nat 2) with 2.
      specialize (IH st1 pt_at (p + 1) (cc + 2) co (out ++ [s8 c; s8 d]) Hl Hc Hm'). rewrite Es in IH. rewrite IH.
      destruct (enc_block st1 l) as [st2 o2]. cbn [app map]. rewrite !len_cons, <- app_assoc. cbn [app].
      replace (cc + 2 + len o2 - co) with (cc + (len o2 + 1 + 1) - co) by lia. reflexivity.
Qed.
End Run.
