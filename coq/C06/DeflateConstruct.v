(* sc_puff against RFC 1951, stage (b), second half: construct() builds the tables of the canonical code
   (huff_for, DeflateDecode.v) for every length vector that is not over-subscribed, and its return value is
   the RFC's measure of incompleteness 2^15 - Kraft sum (0 iff the code is complete). *)
From Coq Require Import ZArith List Bool Lia.
From ScV Require Import Base.CInt C06.Res C06.ResProofs C07.PuffModel C07.PuffSafe C07.PuffHuffman
                        C06.DeflateSpec C06.DeflateCanon C06.DeflateBits C06.DeflateDecode.
Import ListNotations.
Local Open Scope Z_scope.

Lemma cnt_all ls x : cnt ls x = len ls -> Forall (fun y => y = x) ls.
Proof.
  induction ls as [|y ls IH]; intros H; [constructor|].
  rewrite cnt_cons, len_cons in H. pose proof (cnt_le_len ls x).
  destruct (Z.eqb_spec y x); [|lia]. constructor; [auto|apply IH; lia].
Qed.

Lemma psum_le ct a b : len ct = 16 -> Forall (fun v => 0 <= v) ct -> 1 <= a <= b -> b <= 16 -> psum ct a <= psum ct b.
Proof.
  intros Hl Hf Ha Hb. replace b with (a + Z.of_nat (Z.to_nat (b - a))) by lia.
  assert (Hd : a + Z.of_nat (Z.to_nat (b - a)) <= 16) by lia.
  induction (Z.to_nat (b - a)) as [|d IH]; [rewrite Z.add_0_r; lia|].
  rewrite Nat2Z.inj_succ in *. unfold Z.succ in *. rewrite Z.add_assoc.
  rewrite psum_succ by (auto; lia).
  assert (0 <= nth (Z.to_nat (a + Z.of_nat d)) ct 0) by (apply (Forall_nth_Z ct _ Hf); lia). lia.
Qed.

Section Construct.
Variables (lengths : list Z) (loff n : Z).
Hypothesis Hloff : 0 <= loff.
Hypothesis Hn : 0 <= n <= 1000.
Hypothesis Hfit : loff + n <= len lengths.
Let ls := lens_at lengths loff n.
Hypothesis Hrange : Forall (fun v => 0 <= v <= 15) ls.

Let Hlen : len ls = n := ls_len lengths loff n Hloff Hn Hfit.

(* the over-subscription loop computes 2^l - K ls l *)
Lemma check_left_spec ct : len ct = 16 -> (forall l, 0 <= l < 16 -> nth (Z.to_nat l) ct 0 = cnt ls l) ->
  not_over ls ->
  forall k ln, 1 <= ln -> ln + Z.of_nat k = 16 ->
  check_left k ln ct (2 ^ (ln - 1) - K ls (ln - 1)) = Ok (inr (2 ^ 15 - kraft ls)).
Proof.
  intros Hl Hct Hno. induction k as [|k IH]; intros ln Hln Hk.
  - cbn [check_left]. replace (ln - 1) with 15 by lia. rewrite kraft_K. reflexivity.
  - cbn [check_left]. rewrite rd_ok by lia. cbn [bind]. rewrite Hct by lia.
    pose proof (K_succ ls (ln - 1) ltac:(lia)) as Hs. replace (ln - 1 + 1) with ln in Hs by lia.
    pose proof (K_fits ls ln Hno ltac:(lia)) as Hf.
    assert (Hp : 2 ^ ln = 2 * 2 ^ (ln - 1)) by (rewrite <- Z.pow_succ_r by lia; f_equal; lia).
    replace (shl (2 ^ (ln - 1) - K ls (ln - 1)) 1 - cnt ls ln) with (2 ^ ln - K ls ln) by (unfold shl; change (2 ^ 1) with 2; lia).
    destruct (Z.ltb_spec (2 ^ ln - K ls ln) 0); [lia|].
    specialize (IH (ln + 1) ltac:(lia) ltac:(lia)). replace (ln + 1 - 1) with ln in IH by lia. exact IH.
Qed.

Section Fill.
Variable ct : list Z.
Hypothesis Hl : len ct = 16.
Hypothesis Hct : forall l, 0 <= l < 16 -> nth (Z.to_nat l) ct 0 = cnt ls l.

Lemma ct_nonneg : Forall (fun v => 0 <= v) ct.
Proof.
  apply Forall_forall. intros x Hx. destruct (In_nth ct x 0 Hx) as (i & Hi & <-).
  replace i with (Z.to_nat (Z.of_nat i)) by lia. rewrite Hct by (unfold len in Hl; lia). apply cnt_nonneg.
Qed.

(* the place of symbol m in symbol[] *)
Let pos (m : Z) : Z := psum ct (nth (Z.to_nat m) ls 0) + cnt (firstn (Z.to_nat m) ls) (nth (Z.to_nat m) ls 0).

Lemma pos_range m : 0 <= m < n -> nth (Z.to_nat m) ls 0 <> 0 ->
  1 <= nth (Z.to_nat m) ls 0 <= 15 /\
  psum ct (nth (Z.to_nat m) ls 0) <= pos m < psum ct (nth (Z.to_nat m) ls 0 + 1).
Proof.
  intros Hm Hnz. pose proof (ls_nth_range lengths loff n Hloff Hn Hfit Hrange m Hm) as Hr. fold ls in Hr.
  split; [lia|]. unfold pos. set (l := nth (Z.to_nat m) ls 0) in *.
  rewrite psum_succ by (auto; lia). rewrite Hct by lia.
  pose proof (cnt_rank ls m ltac:(rewrite Hlen; lia)) as Hk. fold l in Hk.
  pose proof (cnt_nonneg (firstn (Z.to_nat m) ls) l). lia.
Qed.

Lemma pos_inj a b : 0 <= a < b -> b < n -> nth (Z.to_nat a) ls 0 <> 0 -> nth (Z.to_nat b) ls 0 <> 0 -> pos a <> pos b.
Proof.
  intros Hab Hb Ha0 Hb0.
  destruct (pos_range a ltac:(lia) Ha0) as [Ra Pa]. destruct (pos_range b ltac:(lia) Hb0) as [Rb Pb].
  pose proof ct_nonneg as Hnn.
  destruct (Z.lt_trichotomy (nth (Z.to_nat a) ls 0) (nth (Z.to_nat b) ls 0)) as [Hlt|[He|Hgt]].
  - pose proof (psum_le ct (nth (Z.to_nat a) ls 0 + 1) (nth (Z.to_nat b) ls 0) Hl Hnn ltac:(lia) ltac:(lia)). lia.
  - pose proof (cnt_rank_lt ls a b Hab ltac:(rewrite Hlen; lia) He) as Hr. unfold pos. rewrite He in *. lia.
  - pose proof (psum_le ct (nth (Z.to_nat b) ls 0 + 1) (nth (Z.to_nat a) ls 0) Hl Hnn ltac:(lia) ltac:(lia)). lia.
Qed.

Lemma fill_symbols_spec : psum ct 16 <= n ->
  forall k sym offs symtab, 0 <= sym -> sym + Z.of_nat k = n -> len offs = 16 -> n <= len symtab ->
  (forall l, 1 <= l <= 15 -> nth (Z.to_nat l) offs 0 = psum ct l + cnt (firstn (Z.to_nat sym) ls) l) ->
  (forall m, 0 <= m < sym -> nth (Z.to_nat m) ls 0 <> 0 -> nth (Z.to_nat (pos m)) symtab 0 = m) ->
  exists symtab', fill_symbols k sym lengths loff offs symtab = Ok symtab' /\ len symtab' = len symtab /\
    (forall m, 0 <= m < n -> nth (Z.to_nat m) ls 0 <> 0 -> nth (Z.to_nat (pos m)) symtab' 0 = m).
Proof.
  intros Htot. pose proof ct_nonneg as Hnn.
  induction k as [|k IH]; intros sym offs symtab Hs Hk Hlo Hcap Hp Hdone.
  - exists symtab. cbn [fill_symbols]. repeat split; auto. intros m Hm. apply Hdone. lia.
  - cbn [fill_symbols]. rewrite (rd_lengths lengths loff n Hloff Hfit) by lia. cbn [bind]. fold ls.
    pose proof (ls_nth_range lengths loff n Hloff Hn Hfit Hrange sym ltac:(lia)) as Hr. fold ls in Hr.
    pose proof (firstn_ls_succ lengths loff n Hloff Hn Hfit sym ltac:(lia)) as Hfs. fold ls in Hfs.
    destruct (Z.eqb_spec (nth (Z.to_nat sym) ls 0) 0) as [Hz|Hnz]; cbn [negb].
    + apply IH; auto; try lia.
      * intros l Hl'. rewrite Hfs, cnt_app, cnt_cons, cnt_nil. destruct (Z.eqb_spec (nth (Z.to_nat sym) ls 0) l); [lia|]. rewrite Hp by lia. lia.
      * intros m Hm Hm0. destruct (Z.eq_dec m sym) as [->|Hne]; [contradiction|]. apply Hdone; [lia|exact Hm0].
    + destruct (pos_range sym ltac:(lia) Hnz) as [Rl Rp].
      set (l := nth (Z.to_nat sym) ls 0) in *.
      rewrite rd_ok by lia. cbn [bind]. rewrite Hp by lia. fold (pos sym) in *. unfold pos at 1. fold l.
      change (psum ct l + cnt (firstn (Z.to_nat sym) ls) l) with (pos sym).
      pose proof (psum_le ct (l + 1) 16 Hl Hnn ltac:(lia) ltac:(lia)) as Hle.
      pose proof (psum_le ct 1 l Hl Hnn ltac:(lia) ltac:(lia)) as Hge. rewrite psum_1 in Hge.
      rewrite wr_ok by lia. cbn [bind].
      rewrite s16_small by lia.
      rewrite wr_ok by lia. cbn [bind].
      destruct (IH (sym + 1) (upd offs l (pos sym + 1)) (upd symtab (pos sym) sym)) as (st' & E & L & F); try lia.
      * rewrite len_upd by lia. exact Hlo.
      * rewrite len_upd by lia. exact Hcap.
      * intros l' Hl'. rewrite Hfs, cnt_app, cnt_cons, cnt_nil. fold l.
        destruct (Z.eqb_spec l l') as [<-|Hne].
        -- rewrite nth_upd_same by lia. unfold pos. fold l. lia.
        -- rewrite nth_upd_other by lia. rewrite Hp by lia. lia.
      * intros m Hm Hm0. destruct (Z.eq_dec m sym) as [->|Hne].
        -- apply nth_upd_same. lia.
        -- destruct (pos_range m ltac:(lia) Hm0) as [Rlm Rpm].
           pose proof (psum_le ct 1 (nth (Z.to_nat m) ls 0) Hl Hnn ltac:(lia) ltac:(lia)) as Hgem. rewrite psum_1 in Hgem.
           rewrite nth_upd_other; [apply Hdone; [lia|exact Hm0]|lia|lia|].
           apply (pos_inj m sym); auto; lia.
      * exists st'. rewrite len_upd in L by lia. auto.
Qed.
End Fill.

(* (b) construct() *)
Theorem construct_spec h : len (h_count h) = 16 -> n <= len (h_symbol h) -> not_over ls ->
  exists err h', construct h lengths loff n = Ok (err, h') /\ huff_for ls h' /\
    (forall l, 0 <= l < 16 -> nth (Z.to_nat l) (h_count h') 0 = cnt ls l) /\
    len (h_symbol h') = len (h_symbol h) /\
    (cnt ls 0 = n -> err = 0) /\ (cnt ls 0 <> n -> err = 2 ^ 15 - kraft ls).
Proof.
  intros Hl Hcap Hno. unfold construct.
  destruct (zero_counts_ok 16 0 (h_count h)) as (c0 & E0 & L0 & Z0); try lia.
  rewrite E0. cbn [bind]. rewrite Hl in L0.
  destruct (count_lengths_ok lengths loff n Hloff Hn Hfit Hrange (Z.to_nat n) 0 c0) as (ct & E1 & L1 & O1 & S1); try lia.
  { intros l Hl'. rewrite Z0 by lia. cbn [Z.to_nat firstn]. reflexivity. }
  { apply all_zero_sum. intros j Hj. apply Z0. lia. }
  rewrite E1. cbn [bind]. fold ls in O1. change occ with cnt in O1.
  pose proof (ct_nonneg ct L1 O1) as Hnn.
  pose proof (sumZ_psum ct L1) as Hsp. rewrite S1 in Hsp.
  assert (Hc0 : nth 0 ct 0 = cnt ls 0) by (apply (O1 0); lia).
  pose proof (cnt_nonneg ls 0) as Hc0n.
  rewrite rd_ok by lia. cbn [bind]. change (Z.to_nat 0) with 0%nat. rewrite Hc0.
  destruct (Z.eqb_spec (cnt ls 0) n) as [Hall|Hsome].
  { (* no codes at all *)
    do 2 eexists. split; [reflexivity|]. cbn [h_count h_symbol].
    split; [|repeat split; auto; lia].
    split; [exact L1|]. split; [intros l Hl'; apply O1; lia|].
    intros sym [Hs1 Hs2]. rewrite <- Hlen in Hall. apply cnt_all in Hall.
    rewrite Forall_forall in Hall. specialize (Hall (nth (Z.to_nat sym) ls 0)).
    rewrite Hall in Hs2; [lia|]. apply nth_In. unfold len in Hs1. lia. }
  pose proof (check_left_spec ct L1 O1 Hno 15 1 ltac:(lia) ltac:(lia)) as Ecl.
  change (2 ^ (1 - 1) - K ls (1 - 1)) with (1 - K ls 0) in Ecl. rewrite K_0 in Ecl. change (1 - 0) with 1 in Ecl.
  rewrite Ecl. cbn [bind].
  rewrite wr_ok by (rewrite len_repeat; lia). cbn [bind].
  destruct (make_offs_ok n Hn ct L1 Hnn ltac:(lia) 14 1 (upd (repeat 0 16) 1 0)) as (offs & E2 & L2 & P2); try lia.
  { rewrite len_upd by (rewrite len_repeat; lia). now rewrite len_repeat. }
  { intros j Hj. replace j with 1 by lia. rewrite nth_upd_same by (rewrite len_repeat; lia). reflexivity. }
  rewrite E2. cbn [bind].
  destruct (fill_symbols_spec ct L1 O1 ltac:(lia) (Z.to_nat n) 0 offs (h_symbol h)) as (st & E3 & L3 & F3); try lia; auto.
  { intros l Hl'. rewrite P2 by lia. cbn [Z.to_nat firstn]. rewrite cnt_nil. lia. }
  rewrite E3. cbn [bind]. do 2 eexists. split; [reflexivity|]. cbn [h_count h_symbol].
  split; [|repeat split; auto; lia].
  split; [exact L1|]. split; [intros l Hl'; apply O1; lia|].
  intros sym [Hs1 Hs2]. rewrite Hlen in Hs1.
  destruct (pos_range ct L1 O1 sym Hs1 ltac:(lia)) as [_ Rp].
  pose proof (psum_le ct (nth (Z.to_nat sym) ls 0 + 1) 16 L1 Hnn ltac:(lia) ltac:(lia)) as Hle.
  pose proof (psum_le ct 1 (nth (Z.to_nat sym) ls 0) L1 Hnn ltac:(lia) ltac:(lia)) as Hge. rewrite psum_1 in Hge.
  cbn [h_count h_symbol]. rewrite rd_ok by lia. f_equal. apply F3; [exact Hs1|lia].
Qed.
End Construct.
