(* sc_io_encode_zlib: geometry of the armored text, for every line-break byte; VTK writers as
   streaming encoders. *)
From Coq Require Import ZArith List Bool Lia.
From ScV Require Import Base.CInt Gen.Codec C06.Res C06.ResProofs C06.B64Model C06.B64Spec C06.B64Proofs
  C06.StoredModel C06.ArmorModel.
Import ListNotations.
Local Open Scope Z_scope.

Lemma firstn_app_exact {A} (a b : list A) n : length a = n -> firstn n (a ++ b) = a.
Proof. intros <-. rewrite firstn_app, Nat.sub_diag, firstn_all. cbn. apply app_nil_r. Qed.
Lemma skipn_app_exact {A} (a b : list A) n : length a = n -> skipn n (a ++ b) = b.
Proof. intros <-. rewrite skipn_app, Nat.sub_diag, skipn_all. reflexivity. Qed.

Lemma rfc4648_nonempty l : l <> [] -> rfc4648 l <> [].
Proof. destruct l as [|a [|b [|c l]]]; cbn; congruence. Qed.

(* ---- the line loop writes wrap76 of the RFC 4648 text, then NUL ------------------------------------ *)
Lemma enc_lines_spec k : forall zlin lines ipos irem r lb fuel,
  bytes ipos -> irem = len ipos -> 0 < irem < M64 / 4 -> Z.of_nat k = (irem + 56) / 57 ->
  lines = zlin + Z.of_nat k -> 0 <= zlin -> lines < M64 / 4 -> (k <= fuel)%nat ->
  enc_lines k zlin lines ipos irem (mkE StepA r) lb = wrap76 fuel lb (rfc4648 ipos) ++ [0].
Proof.
  induction k as [|k IH]; intros zlin lines ipos irem r lb fuel Hb Hirem Hpos Hk Hlines Hz Hmax Hfuel.
  - exfalso. lia.
  - destruct fuel as [|fuel]; [lia|].
    cbn [enc_lines wrap76]. unfold enc_lein. unfold M64 in *.
    change (18446744073709551616 / 4) with 4611686018427387904 in *.
    assert (Hu : u64 (lines - 1) = lines - 1) by (apply u64_id; unfold M64; lia). rewrite Hu.
    destruct (Z.ltb_spec irem 57) as [Hsmall|Hbig].
    + (* fewer than 57 bytes: the last line *)
      assert (Hk1 : Z.of_nat (S k) = 1) by lia.
      destruct (Z.ltb_spec zlin (lines - 1)); [lia|].
      assert (Hfn : firstn (Z.to_nat irem) ipos = ipos) by (apply firstn_all2; unfold len in *; lia).
      rewrite Hfn. pose proof (b64_from_rfc r ipos Hb) as Hr. unfold b64_from in Hr.
      destruct (enc_block (mkE StepA r) ipos) as [st1 code].
      pose proof (len_rfc4648 ipos) as Hl. rewrite <- Hr in *.
      assert (Hle : (length (code ++ enc_end st1) <=? 76)%nat = true).
      { apply Nat.leb_le. unfold len in Hl, Hirem. lia. }
      rewrite Hle. rewrite <- !app_assoc. reflexivity.
    + destruct (Z.eqb_spec irem 57) as [He|Hne].
      * (* exactly 57 bytes: the last line *)
        assert (Hk1 : Z.of_nat (S k) = 1) by lia.
        destruct (Z.ltb_spec zlin (lines - 1)); [lia|].
        assert (Hfn : firstn (Z.to_nat 57) ipos = ipos) by (apply firstn_all2; unfold len in *; lia).
        rewrite Hfn. pose proof (b64_from_rfc r ipos Hb) as Hr. unfold b64_from in Hr.
        destruct (enc_block (mkE StepA r) ipos) as [st1 code].
        pose proof (len_rfc4648 ipos) as Hl. rewrite <- Hr in *.
        assert (Hle : (length (code ++ enc_end st1) <=? 76)%nat = true).
        { apply Nat.leb_le. unfold len in Hl, Hirem. lia. }
        rewrite Hle. rewrite <- !app_assoc. reflexivity.
      * (* a full line of 57 bytes, more to come *)
        assert (Hk2 : 2 <= Z.of_nat (S k)) by lia.
        destruct (Z.ltb_spec zlin (lines - 1)); [|lia].
        set (chunk := firstn (Z.to_nat 57) ipos). set (rest := skipn (Z.to_nat 57) ipos).
        assert (Hsplit : ipos = chunk ++ rest) by (symmetry; apply firstn_skipn).
        assert (Hlc : len chunk = 57) by (unfold chunk; apply len_firstn; lia).
        assert (Hlr : len rest = irem - 57) by (unfold rest; rewrite len_skipn by lia; lia).
        assert (Hbc : bytes chunk) by (now apply bytes_firstn).
        assert (Hbr : bytes rest) by (now apply bytes_skipn).
        destruct (enc_block_aligned r chunk Hbc) as [r' Er]; [rewrite Hlc; reflexivity|].
        rewrite Er.
        assert (Hcode : rfc4648 ipos = rfc4648 chunk ++ rfc4648 rest) by (rewrite Hsplit at 1; apply rfc4648_app; rewrite Hlc; reflexivity).
        assert (Hl76 : length (rfc4648 chunk) = 76%nat).
        { pose proof (len_rfc4648 chunk) as Hl. rewrite Hlc in Hl. change (4 * ((57 + 2) / 3)) with 76 in Hl. unfold len in Hl. lia. }
        assert (Hne2 : rfc4648 rest <> []) by (apply rfc4648_nonempty; intros ->; rewrite len_nil in Hlr; lia).
        assert (Hgt : (length (rfc4648 ipos) <=? 76)%nat = false).
        { apply Nat.leb_gt. rewrite Hcode, app_length, Hl76. destruct (rfc4648 rest); [congruence|cbn; lia]. }
        rewrite Hgt, Hcode. rewrite (firstn_app_exact _ _ 76 Hl76), (skipn_app_exact _ _ 76 Hl76).
        change (skipn 57 ipos) with rest.
        replace (u64 (irem - 57)) with (irem - 57) by (symmetry; apply u64_id; unfold M64; lia).
        rewrite (IH (zlin + 1) lines rest (irem - 57) r' lb fuel); auto; try lia.
        rewrite <- !app_assoc. reflexivity.
Qed.

(* the armored text: RFC 4648 code of the payload in lines of 76, break bytes, NUL *)
Theorem armor_spec lb p : bytes p -> 0 < len p < M64 / 4 ->
  armor lb p = wrap76 (Z.to_nat ((len p + 56) / 57)) (u8 lb) (rfc4648 p) ++ [0].
Proof.
  intros Hb Hn. unfold armor, enc_base64_lines. unfold M64 in *.
  change (18446744073709551616 / 4) with 4611686018427387904 in *.
  assert (H1 : u64 (len p + 57) = len p + 57) by (apply u64_id; unfold M64; lia). rewrite H1.
  assert (H2 : u64 (len p + 57 - 1) = len p + 57 - 1) by (apply u64_id; unfold M64; lia). rewrite H2.
  replace (len p + 57 - 1) with (len p + 56) by lia.
  assert (Hq : 0 < (len p + 56) / 57 <= len p) by lia.
  destruct (Z.eqb_spec ((len p + 56) / 57) 0); [lia|].
  apply enc_lines_spec; auto; unfold M64; try lia.
Qed.

(* ---- shape of wrap76 ------------------------------------------------------------------------------ *)
Definition with_breaks (lb : Z) (ls : list (list Z)) : list Z := concat (map (fun l => l ++ [lb; 10]) ls).

Lemma wrap76_lines fuel : forall lb code, code <> [] -> len code <= 76 * Z.of_nat fuel ->
  exists ls, code = concat ls /\ wrap76 fuel lb code = with_breaks lb ls /\
             Forall (fun l => len l = 76) (removelast ls) /\ ls <> [] /\ 1 <= len (last ls []) <= 76 /\
             len ls = (len code + 75) / 76.
Proof.
  induction fuel as [|fuel IH]; intros lb code Hne Hlen.
  - destruct code; [congruence|]. rewrite len_cons in Hlen. pose proof (len_nonneg code). lia.
  - cbn [wrap76]. destruct (Nat.leb_spec (length code) 76) as [Hs|Hb].
    + exists [code]. unfold with_breaks. cbn [concat map removelast last]. rewrite !app_nil_r.
      repeat split; auto; try discriminate.
      * destruct code; [congruence|]. rewrite len_cons. pose proof (len_nonneg code). lia.
      * unfold len; lia.
      * assert (0 < len code <= 76) by (destruct code; [congruence|]; unfold len in *; cbn [length] in *; lia).
        unfold len at 1. cbn [length]. lia.
    + set (a := firstn 76 code). set (b := skipn 76 code).
      assert (Hab : code = a ++ b) by (symmetry; apply firstn_skipn).
      assert (Hla : length a = 76%nat) by (unfold a; rewrite firstn_length; lia).
      assert (Hlb : length b = (length code - 76)%nat) by (unfold b; apply skipn_length).
      destruct (IH lb b) as (ls & Hc & Hw & Hf & Hn & Hl & Hcount).
      * intros E. rewrite E in Hlb. cbn in Hlb. lia.
      * unfold len in *. lia.
      * exists (a :: ls). unfold with_breaks in *. cbn [concat map]. rewrite Hw, <- Hc.
        repeat split; auto; try discriminate.
        -- now rewrite <- app_assoc.
        -- destruct ls as [|l ls]; [congruence|]. cbn [removelast]. constructor; [unfold len; lia|exact Hf].
        -- destruct ls as [|l ls]; [congruence|]. exact (proj1 Hl).
        -- destruct ls as [|l ls]; [congruence|]. exact (proj2 Hl).
        -- rewrite len_cons, Hcount. unfold len. rewrite Hlb.
           replace (Z.of_nat (length code) + 75) with (Z.of_nat (length code - 76) + 75 + 1 * 76) by lia.
           rewrite Z.div_add by lia. lia.
Qed.

Lemma with_breaks_len lb ls : len (with_breaks lb ls) = len (concat ls) + 2 * len ls.
Proof.
  unfold with_breaks. induction ls as [|l ls IH]; [reflexivity|].
  cbn [map concat]. rewrite !len_app, IH, (len_cons l ls). change (len [lb; 10]) with 2. lia.
Qed.

(* ---- the geometry theorem --------------------------------------------------------------------------- *)
Theorem armor_geometry lb p : bytes p -> 0 < len p < M64 / 4 ->
  exists ls,
    rfc4648 p = concat ls /\                                    (* the code characters, cut into lines *)
    armor lb p = with_breaks (u8 lb) ls ++ [0] /\               (* each line + [break byte; '\n'], final NUL *)
    Forall (fun l => len l = 76) (removelast ls) /\             (* every line but the last: 76 characters *)
    ls <> [] /\ 1 <= len (last ls []) <= 76 /\                  (* the last line: 1..76 characters *)
    len ls = (len p + 56) / 57 /\                               (* one line per 57 payload bytes *)
    len (armor lb p) = 4 * ((len p + 2) / 3) + 2 * ((len p + 56) / 57) + 1 /\
    len (armor lb p) = sc_encoded_size (len p).                 (* = the size the C code allocates *)
Proof.
  intros Hb Hn. rewrite (armor_spec lb p Hb Hn). unfold M64 in *.
  change (18446744073709551616 / 4) with 4611686018427387904 in *.
  pose proof (len_rfc4648 p) as Hl.
  destruct (wrap76_lines (Z.to_nat ((len p + 56) / 57)) (u8 lb) (rfc4648 p)) as (ls & Hc & Hw & Hf & Hne & Hlast & Hcount).
  - apply rfc4648_nonempty. intros ->. cbn in Hn. lia.
  - rewrite Hl. lia.
  - assert (Hlines : (len (rfc4648 p) + 75) / 76 = (len p + 56) / 57) by (rewrite Hl; lia).
    exists ls. rewrite Hw. repeat split; auto; try lia.
    + rewrite len_app, with_breaks_len, <- Hc, Hl, Hcount, Hlines. unfold len at 3. cbn [length]. lia.
    + rewrite len_app, with_breaks_len, <- Hc, Hl, Hcount, Hlines. unfold len at 3. cbn [length].
      unfold sc_encoded_size, enc_encoded_size, enc_base64_lines.
      assert (H1 : u64 (len p + 57) = len p + 57) by (apply u64_id; unfold M64; lia). rewrite H1.
      assert (H2 : u64 (len p + 57 - 1) = len p + 57 - 1) by (apply u64_id; unfold M64; lia). rewrite H2.
      replace (len p + 57 - 1) with (len p + 56) by lia.
      assert (H3 : u64 (len p + 2) = len p + 2) by (apply u64_id; unfold M64; lia). rewrite H3.
      set (m := (len p + 2) / 3) in *. set (q := (len p + 56) / 57) in *.
      assert (Hm : 0 <= m <= len p + 2) by (unfold m; lia).
      assert (Hq : 0 <= q <= len p + 56) by (unfold q; lia).
      rewrite (u64_id (4 * m)) by (unfold M64; lia). rewrite (u64_id (2 * q)) by (unfold M64; lia).
      rewrite (u64_id (4 * m + 2 * q)) by (unfold M64; lia). rewrite u64_id by (unfold M64; lia). lia.
Qed.

(* the first 12 characters are the RFC 4648 code of the first 9 payload bytes *)
Theorem armor_first12 lb p : bytes p -> 9 <= len p < M64 / 4 ->
  firstn 12 (armor lb p) = rfc4648 (firstn 9 p).
Proof.
  intros Hb Hn. rewrite (armor_spec lb p Hb ltac:(lia)).
  assert (Hsplit : p = firstn 9 p ++ skipn 9 p) by (symmetry; apply firstn_skipn).
  assert (Hl9 : len (firstn 9 p) = 9) by (apply (len_firstn p 9); lia).
  assert (Hcode : rfc4648 p = rfc4648 (firstn 9 p) ++ rfc4648 (skipn 9 p)).
  { rewrite Hsplit at 1. apply rfc4648_app. rewrite Hl9. reflexivity. }
  assert (Hl12 : length (rfc4648 (firstn 9 p)) = 12%nat).
  { pose proof (len_rfc4648 (firstn 9 p)) as Hl. rewrite Hl9 in Hl. change (4 * ((9 + 2) / 3)) with 12 in Hl. unfold len in Hl. lia. }
  remember (Z.to_nat ((len p + 56) / 57)) as fuel. destruct fuel as [|fuel].
  - exfalso. unfold M64 in Hn. assert (0 < (len p + 56) / 57) by lia. lia.
  - cbn [wrap76]. rewrite Hcode.
    set (h := rfc4648 (firstn 9 p)) in *. set (t := rfc4648 (skipn 9 p)) in *.
    destruct (length (h ++ t) <=? 76)%nat eqn:E.
    + rewrite <- !app_assoc. apply firstn_app_exact. exact Hl12.
    + apply Nat.leb_gt in E. rewrite <- app_assoc. rewrite firstn_app.
      rewrite firstn_firstn. rewrite firstn_length. replace (Nat.min 12 76) with 12%nat by reflexivity.
      replace (12 - Nat.min 76 (length (h ++ t)))%nat with 0%nat by lia.
      rewrite firstn_O, app_nil_r. apply firstn_app_exact. exact Hl12.
Qed.

(* ---- VTK binary writer: chunking does not matter ---------------------------------------------------- *)
Lemma vtk_chunks_spec fuel : forall data remaining st,
  remaining = len data -> remaining <= Z.of_nat fuel * 32768 ->
  vtk_chunks fuel data remaining st = enc_block st data.
Proof.
  induction fuel as [|fuel IH]; intros data remaining st Hr Hf.
  - assert (data = []) by (apply len_0_nil; pose proof (len_nonneg data); lia). subst data. reflexivity.
  - cbn [vtk_chunks]. pose proof (len_nonneg data) as Hn.
    destruct (Z.ltb_spec 0 remaining) as [Hpos|Hz].
    + set (w := if remaining <? 32768 then remaining else 32768).
      assert (Hw : 0 < w <= remaining /\ w <= 32768) by (unfold w; destruct (Z.ltb_spec remaining 32768); lia).
      pattern data at 3. rewrite <- (firstn_skipn (Z.to_nat w) data). rewrite enc_block_app.
      destruct (enc_block st (firstn (Z.to_nat w) data)) as [st1 o1].
      rewrite IH; [reflexivity| |].
      * rewrite len_skipn by lia. lia.
      * unfold w in *. destruct (Z.ltb_spec remaining 32768); lia.
    + assert (data = []) by (apply len_0_nil; lia). subst data. reflexivity.
Qed.

Theorem vtk_write_binary_spec d : bytes d -> len d < M32 ->
  vtk_write_binary d = rfc4648 (le4 (len d) ++ d).
Proof.
  intros Hb Hn. unfold vtk_write_binary. pose proof (len_nonneg d) as Hp.
  rewrite (u32_id (len d)) by (unfold M32 in *; lia).
  assert (Hb4 : bytes (le4 (len d))).
  { unfold le4, shr. repeat (apply bytes_cons; split; [unfold byte; change 255 with (2 ^ 8 - 1); rewrite land_ones_mod by lia; apply Z.mod_pos_bound; lia|]). apply bytes_nil. }
  rewrite <- (b64_is_rfc4648 (le4 (len d) ++ d)) by (apply bytes_app; auto).
  unfold b64_encode_all. rewrite enc_block_app.
  destruct (enc_block e_init (le4 (len d))) as [st0 o0].
  rewrite vtk_chunks_spec; [| reflexivity |].
  - destruct (enc_block st0 d) as [st1 o1]. now rewrite <- app_assoc.
  - assert (0 <= len d / 32768) by (apply Z.div_pos; lia). lia.
Qed.

(* ---- VTK compressed writer: two RFC 4648 texts, whatever the compressor ------------------------------ *)
Lemma enc_blocks_concat st bs : enc_blocks st bs = enc_block st (concat bs).
Proof.
  revert st; induction bs as [|b bs IH]; intros st; [reflexivity|].
  cbn [enc_blocks concat]. rewrite enc_block_app. destruct (enc_block st b) as [s1 o1]. now rewrite IH.
Qed.

Theorem vtk_compressed_spec n blocks : Forall bytes blocks -> 0 <= n ->
  let header := le4 (u32 (n / 32768 + (if 0 <? n mod 32768 then 1 else 0))) ++ le4 32768
                ++ le4 (u32 (if (0 <? n mod 32768) || (n =? 0) then n mod 32768 else 32768))
                ++ concat (map (fun b => le4 (u32 (len b))) blocks) in
  vtk_compressed_of_blocks n blocks = rfc4648 header ++ rfc4648 (concat blocks).
Proof.
  intros Hb Hn header. unfold vtk_compressed_of_blocks. fold header.
  assert (Hle4 : forall v, bytes (le4 v)).
  { intros v. unfold le4, shr. repeat (apply bytes_cons; split; [unfold byte; change 255 with (2 ^ 8 - 1); rewrite land_ones_mod by lia; apply Z.mod_pos_bound; lia|]). apply bytes_nil. }
  assert (Hh : bytes header).
  { unfold header. repeat (apply bytes_app; split; [apply Hle4|]).
    induction blocks as [|b bl IH]; [apply bytes_nil|]. cbn [map concat]. apply bytes_app; split; [apply Hle4|].
    apply IH. now inversion Hb. }
  assert (Hc : bytes (concat blocks)).
  { clear header Hh. induction blocks as [|b bl IH]; [apply bytes_nil|]. cbn [concat]. inversion Hb; subst. apply bytes_app; auto. }
  rewrite <- (b64_is_rfc4648 header Hh), <- (b64_is_rfc4648 (concat blocks) Hc).
  unfold b64_encode_all. rewrite enc_blocks_concat.
  destruct (enc_block e_init header) as [sh oh]. destruct (enc_block e_init (concat blocks)) as [sd od].
  now rewrite <- !app_assoc.
Qed.
