(* sc_io_decode inverts sc_io_encode_zlib: for all data, all 256 line-break bytes, every element size
   dividing the length, any maximum not below the length, owner arrays and views of sufficient
   capacity.  The compressor / decompressor pair is abstract (Section variables with the round-trip
   contract), so that the theorem covers zlib (trusted contract) and, by instantiation, libsc's own
   stored-block writer / reader. *)
From Coq Require Import ZArith List Bool Lia.
From ScV Require Import Base.CInt Gen.Codec C06.Res C06.ResProofs C06.B64Model C06.B64Spec C06.B64Proofs
  C06.StoredModel C06.ArmorModel C06.ArmorProofs C07.DecodeModel.
Import ListNotations.
Local Open Scope Z_scope.

(* ---- the header: 8 big-endian bytes ------------------------------------------------------------- *)
Fixpoint be_num (l : list Z) : Z :=
  match l with
  | [] => 0
  | x :: r => x * 2 ^ (8 * len r) + be_num r
  end.

Lemma be_num_range l : bytes l -> 0 <= be_num l < 2 ^ (8 * len l).
Proof.
  induction l as [|x l IH]; intros Hb.
  - cbn. lia.
  - apply bytes_cons in Hb. destruct Hb as [Hx Hl]. specialize (IH Hl). unfold byte in Hx.
    cbn [be_num]. rewrite len_cons. pose proof (len_nonneg l) as Hn.
    replace (8 * (len l + 1)) with (8 * len l + 8) by lia.
    rewrite pow2_split by lia. change (2 ^ 8) with 256.
    pose proof (pow2_pos (8 * len l) ltac:(lia)) as Hp. nia.
Qed.

Lemma be_value_num l : forall acc c, bytes l -> len l <= 8 -> 0 <= c -> acc = c * 2 ^ (8 * len l) ->
  be_value l acc = acc + be_num l.
Proof.
  induction l as [|x l IH]; intros acc c Hb Hlen Hc Hacc.
  - cbn. lia.
  - apply bytes_cons in Hb. destruct Hb as [Hx Hl]. unfold byte in Hx.
    rewrite len_cons in *. pose proof (len_nonneg l) as Hn.
    cbn [be_value be_num]. fold (len l). replace (len l * 8) with (8 * len l) by lia.
    pose proof (pow2_pos (8 * len l) ltac:(lia)) as Hp.
    replace (8 * (len l + 1)) with (8 * len l + 8) in Hacc by lia.
    rewrite pow2_split in Hacc by lia. change (2 ^ 8) with 256 in Hacc.
    assert (Hle : 2 ^ (8 * len l) * 256 <= M64).
    { rewrite M64_eq. change 256 with (2 ^ 8). rewrite <- pow2_split by lia. apply Z.pow_le_mono_r; lia. }
    unfold shl. rewrite u64_id by nia.
    rewrite (lor_disjoint_add acc (x * 2 ^ (8 * len l)) (8 * len l + 8)); [| lia | | ].
    + rewrite (IH (acc + x * 2 ^ (8 * len l)) (c * 256 + x)); auto; try lia.
    + rewrite pow2_split by lia. change (2 ^ 8) with 256. nia.
    + rewrite pow2_split by lia. change (2 ^ 8) with 256. subst acc.
      replace (c * (2 ^ (8 * len l) * 256)) with (c * (2 ^ (8 * len l) * 256)) by lia.
      apply Z_mod_mult.
Qed.

Lemma be8_bytes n : bytes (be8 n).
Proof.
  unfold be8. cbn [map].
  repeat (apply bytes_cons; split; [unfold byte; change 255 with (2 ^ 8 - 1); rewrite land_ones_mod by lia; apply Z.mod_pos_bound; lia|]).
  apply bytes_nil.
Qed.

Lemma len_be8 n : len (be8 n) = 8.
Proof. reflexivity. Qed.

Lemma be_num_be8 n : 0 <= n < M64 -> be_num (be8 n) = n.
Proof.
  intros Hn.
  pose (A := fun j => Z.land (shr n (8 * j)) 255 * 2 ^ (8 * j)).
  assert (S : forall j j', 0 <= j -> j' = j + 1 -> A j + n mod 2 ^ (8 * j) = n mod 2 ^ (8 * j')).
  { intros j j' Hj ->. unfold A, shr. change 255 with (2 ^ 8 - 1). rewrite land_ones_mod by lia.
    replace (8 * (j + 1)) with (8 * j + 8) by lia. rewrite pow2_split by lia.
    pose proof (pow2_pos (8 * j) ltac:(lia)) as Hp.
    rewrite Z.rem_mul_r by lia. lia. }
  transitivity (A 7 + (A 6 + (A 5 + (A 4 + (A 3 + (A 2 + (A 1 + (A 0 + n mod 2 ^ (8 * 0))))))))).
  { change (2 ^ (8 * 0)) with 1. rewrite Z.mod_1_r. reflexivity. }
  rewrite (S 0 1), (S 1 2), (S 2 3), (S 3 4), (S 4 5), (S 5 6), (S 6 7), (S 7 8) by lia.
  apply Z.mod_small. exact Hn.
Qed.

Lemma be_value_be8 n : 0 <= n < M64 -> be_value (be8 n) 0 = n.
Proof.
  intros Hn. rewrite (be_value_num (be8 n) 0 0); [rewrite be_num_be8 by assumption; lia | apply be8_bytes | rewrite len_be8; lia | lia | lia].
Qed.

(* ---- the generated index formulas of sc_io_decode, as plain arithmetic ---------------------------- *)
Lemma dec_lein_eq irem : dec_lein irem = if irem <? 76 then irem else 76.
Proof. reflexivity. Qed.

Lemma dec_base64_lines_eq E : 0 < E < M64 - 77 -> dec_base64_lines E = (E + 76) / 78.
Proof.
  intros H. unfold dec_base64_lines.
  change (u64 (s32 (s32 (s32 (cdiv 57 3) * 4) + 1))) with 77.
  change (u64 (s32 (s32 (s32 (s32 (cdiv 57 3) * 4) + 1) + 1))) with 78.
  rewrite (u64_id (E - 1)) by lia. rewrite u64_id by lia. f_equal. lia.
Qed.

(* sizes of the armored text of a payload of n bytes *)
Section Geometry.
  Variable n : Z.
  Hypothesis Hn : 0 < n < M64 / 4.
  Let m := (n + 2) / 3.
  Let L := (n + 56) / 57.
  Let E := 4 * m + 2 * L + 1.

  Lemma geo_lines : dec_base64_lines E = L.
  Proof.
    unfold M64 in Hn. change (18446744073709551616 / 4) with 4611686018427387904 in Hn.
    rewrite dec_base64_lines_eq by (unfold M64, E, m, L; lia). unfold E, m, L. lia.
  Qed.

  Lemma geo_guard : dec_guard_short E L = false.
  Proof.
    unfold M64 in Hn. change (18446744073709551616 / 4) with 4611686018427387904 in Hn.
    unfold dec_guard_short. rewrite !u64_id by (unfold M64, E, m, L; lia).
    apply Z.ltb_ge. unfold E, m, L. lia.
  Qed.

  Lemma geo_irem : dec_irem E L = 4 * m.
  Proof.
    unfold M64 in Hn. change (18446744073709551616 / 4) with 4611686018427387904 in Hn.
    unfold dec_irem. rewrite (u64_id (E - 1)), (u64_id (2 * L)) by (unfold M64, E, m, L; lia).
    rewrite u64_id by (unfold M64, E, m, L; lia). unfold E. lia.
  Qed.

  Lemma geo_csize : dec_compressed_size L = 57 * L.
  Proof.
    unfold M64 in Hn. change (18446744073709551616 / 4) with 4611686018427387904 in Hn.
    unfold dec_compressed_size. rewrite u64_id by (unfold M64, L; lia). lia.
  Qed.
End Geometry.

(* ---- one line of the decoder ------------------------------------------------------------------------ *)
Lemma comp_append_ok rcomp ocnt csize pt n blk :
  0 <= n <= len pt -> firstn (Z.to_nat n) pt = blk -> ocnt + n <= csize ->
  comp_append rcomp ocnt csize pt n = Ok (rev blk ++ rcomp).
Proof.
  intros Hn Hf Hc. unfold comp_append. rewrite slice_ok by lia. cbn [bind].
  change (Z.to_nat 0) with 0%nat. cbn [skipn]. rewrite Hf.
  destruct (Z.ltb_spec csize (ocnt + n)); [lia|]. now rewrite rev_append_rev.
Qed.

(* the RFC 4648 code of at most 57 bytes, decoded from step a into the 76-byte line buffer *)
Lemma decode_line x pt v : bytes x -> len pt = 76 -> len x <= 57 ->
  exists pt' st', decode_block (rfc4648 x) pt (mkD Sa v) = Ok (len x, pt', st') /\ len pt' = 76 /\
                  firstn (Z.to_nat (len x)) pt' = x /\ (len x mod 3 = 0 -> exists v', st' = mkD Sa v').
Proof.
  intros Hb Hpt Hx. pose proof (len_nonneg x) as Hn.
  destruct (decode_block_refine (rfc4648 x) pt (mkD Sa v)) as (lout & pt' & st' & E & L & P & F & A & _).
  - rewrite len_rfc4648, Hpt. lia.
  - cbn [d_step d_plain abs_st] in *. rewrite pdec_rfc4648 in P, F by assumption. subst lout.
    exists pt', st'. split; [exact E|]. split; [lia|]. split; [exact F|].
    intros Hm. rewrite pdec_rfc4648_aligned in A by assumption. cbn [fst] in A.
    destruct st' as [s v']. destruct s; cbn [abs_st d_step d_plain] in A; try discriminate. now exists v'.
Qed.

(* ---- the line loop on a wrapped RFC 4648 text ------------------------------------------------------- *)
Lemma dec_lines_wrap k : forall fuel p tail lb dlen ipos zlin lines rcomp ocnt csize pt v,
  bytes p -> 0 < len p -> Z.of_nat k = (len p + 56) / 57 -> (k <= fuel)%nat ->
  lines = zlin + Z.of_nat k -> 0 <= zlin -> lines < M64 ->
  len pt = 76 -> 0 <= ipos -> ipos + 4 * ((len p + 2) / 3) + 2 * Z.of_nat k <= dlen ->
  0 <= ocnt -> ocnt + len p <= csize -> csize < M64 ->
  dec_lines k dlen (wrap76 fuel lb (rfc4648 p) ++ tail) ipos (4 * ((len p + 2) / 3)) zlin lines
            rcomp ocnt csize pt (mkD Sa v)
  = Ok (rev rcomp ++ p, ocnt + len p).
Proof.
  induction k as [|k IH]; intros fuel p tail lb dlen ipos zlin lines rcomp ocnt csize pt v
    Hb Hpos Hk Hfuel Hlines Hz Hmax Hpt Hip Hdlen Hoc Hcs Hcsm.
  - exfalso. lia.
  - destruct fuel as [|fuel]; [lia|].
    cbn [dec_lines wrap76]. rewrite dec_lein_eq.
    pose proof (len_rfc4648 p) as Hlc.
    assert (Hu : u64 (lines - 1) = lines - 1) by (apply u64_id; lia). rewrite Hu.
    destruct (Z.leb_spec (len p) 57) as [Hs|Hbig].
    + (* the last line *)
      assert (Hk0 : k = 0%nat) by lia. subst k.
      assert (Hle : (length (rfc4648 p) <=? 76)%nat = true) by (apply Nat.leb_le; unfold len in *; lia).
      rewrite Hle.
      assert (Hlein : (if 4 * ((len p + 2) / 3) <? 76 then 4 * ((len p + 2) / 3) else 76) = len (rfc4648 p)).
      { rewrite Hlc. destruct (Z.ltb_spec (4 * ((len p + 2) / 3)) 76); lia. }
      rewrite Hlein.
      assert (Hchk : negb ((0 <=? ipos) && (ipos + len (rfc4648 p) <=? dlen)) = false).
      { apply negb_false_iff, andb_true_iff. split; [apply Z.leb_le|apply Z.leb_le]; lia. }
      rewrite Hchk.
      assert (Hfn : firstn (Z.to_nat (len (rfc4648 p))) ((rfc4648 p ++ [lb; 10]) ++ tail) = rfc4648 p).
      { rewrite <- app_assoc. apply firstn_app_exact. unfold len. lia. }
      rewrite Hfn.
      destruct (decode_line p pt v Hb Hpt Hs) as (pt' & st' & E & L & F & _).
      rewrite E. cbn [bind].
      destruct (Z.eqb_spec (len p) 0); [lia|].
      destruct (Z.ltb_spec zlin (lines - 1)); [lia|].
      rewrite (comp_append_ok rcomp ocnt csize pt' (len p) p) by (auto; lia). cbn [bind dec_lines].
      rewrite rev_append_rev, rev_app_distr, rev_involutive, app_nil_r.
      rewrite u64_id by lia. reflexivity.
    + (* a full line, more to come *)
      set (chunk := firstn (Z.to_nat 57) p). set (rest := skipn (Z.to_nat 57) p).
      assert (Hsplit : p = chunk ++ rest) by (symmetry; apply firstn_skipn).
      assert (Hlch : len chunk = 57) by (unfold chunk; apply len_firstn; lia).
      assert (Hlr : len rest = len p - 57) by (unfold rest; rewrite len_skipn by lia; lia).
      assert (Hbc : bytes chunk) by (now apply bytes_firstn).
      assert (Hbr : bytes rest) by (now apply bytes_skipn).
      assert (Hcode : rfc4648 p = rfc4648 chunk ++ rfc4648 rest).
      { rewrite Hsplit at 1. apply rfc4648_app. rewrite Hlch. reflexivity. }
      assert (Hl76 : length (rfc4648 chunk) = 76%nat).
      { pose proof (len_rfc4648 chunk) as Hl. rewrite Hlch in Hl. change (4 * ((57 + 2) / 3)) with 76 in Hl.
        unfold len in Hl. lia. }
      assert (Hne2 : rfc4648 rest <> []) by (apply rfc4648_nonempty; intros E0; rewrite E0, len_nil in Hlr; lia).
      assert (Hgt : (length (rfc4648 p) <=? 76)%nat = false).
      { apply Nat.leb_gt. rewrite Hcode, app_length, Hl76. destruct (rfc4648 rest); [congruence|cbn; lia]. }
      rewrite Hgt.
      assert (Hre : (firstn 76 (rfc4648 p) ++ [lb; 10] ++ wrap76 fuel lb (skipn 76 (rfc4648 p))) ++ tail
                    = rfc4648 chunk ++ [lb; 10] ++ (wrap76 fuel lb (rfc4648 rest) ++ tail)).
      { rewrite Hcode, (firstn_app_exact _ _ 76 Hl76), (skipn_app_exact _ _ 76 Hl76).
        rewrite <- !app_assoc. reflexivity. }
      rewrite Hre.
      destruct (Z.ltb_spec (4 * ((len p + 2) / 3)) 76) as [Hlt|_]; [exfalso; lia|].
      assert (Hchk : negb ((0 <=? ipos) && (ipos + 76 <=? dlen)) = false).
      { apply negb_false_iff, andb_true_iff. split; [apply Z.leb_le|apply Z.leb_le]; lia. }
      rewrite Hchk.
      assert (Hfn : firstn (Z.to_nat 76) (rfc4648 chunk ++ [lb; 10] ++ (wrap76 fuel lb (rfc4648 rest) ++ tail)) = rfc4648 chunk).
      { apply firstn_app_exact. exact Hl76. }
      rewrite Hfn.
      assert (Hsk : skipn 78 (rfc4648 chunk ++ [lb; 10] ++ (wrap76 fuel lb (rfc4648 rest) ++ tail))
                    = wrap76 fuel lb (rfc4648 rest) ++ tail).
      { rewrite app_assoc. apply skipn_app_exact. rewrite app_length, Hl76. reflexivity. }
      rewrite Hsk.
      destruct (decode_line chunk pt v Hbc Hpt ltac:(lia)) as (pt' & st' & E & L & F & A).
      destruct A as [v' ->]; [rewrite Hlch; reflexivity|].
      rewrite Hlch in E, F. rewrite E. cbn [bind].
      change (57 =? 0) with false. change (57 =? 57) with true. cbn [negb].
      destruct (Z.ltb_spec zlin (lines - 1)); [|lia].
      rewrite (comp_append_ok rcomp ocnt csize pt' 57 chunk) by (auto; lia). cbn [bind].
      rewrite (u64_id (ocnt + 57)) by lia.
      replace (u64 (4 * ((len p + 2) / 3) - 76)) with (4 * ((len rest + 2) / 3))
        by (rewrite u64_id by lia; rewrite Hlr; lia).
      rewrite (IH fuel rest tail lb dlen (ipos + 78) (zlin + 1) lines (rev chunk ++ rcomp) (ocnt + 57) csize pt' v');
        auto; try lia.
      rewrite rev_app_distr, rev_involutive, <- app_assoc, <- Hsplit. do 2 f_equal. lia.
Qed.
