(* sc_io_decode inverts sc_io_encode_zlib: for all data, all 256 line-break bytes, every element size
   dividing the length, any maximum not below the length, owner arrays and views of sufficient
   capacity.  The compressor / decompressor pair is abstract (Section variables with the round-trip
   contract), so that the theorem covers zlib (trusted contract) and, by instantiation, libsc's own
   stored-block writer / reader. *)
From Coq Require Import ZArith List Bool Lia.
From ScV Require Import Base.CInt Gen.Codec C06.Res C06.ResProofs C06.B64Model C06.B64Spec C06.B64Proofs
  C06.StoredModel C06.ArmorModel C06.ArmorProofs C07.PuffModel C07.DecodeModel C06.StoredProofs C06.StoredRoundtrip.
Import ListNotations.
Local Open Scope Z_scope.

(* ---- the header: 8 big-endian bytes ------------------------------------------------------------- *)
Fixpoint be_num (l : list Z) : Z :=
  match l with
  | [] => 0
  | x :: r => x * 2 ^ (8 * len r) + be_num r
  end.

Lemma be_num_range l : bytes l -> 0 <= be_num l < 2 ^ (8 * len l).
Proof.
  induction l as [|x l IH]; intros Hb.
  - cbn. lia.
  - apply bytes_cons in Hb. destruct Hb as [Hx Hl]. specialize (IH Hl). unfold byte in Hx.
    cbn [be_num]. rewrite len_cons. pose proof (len_nonneg l) as Hn.
    replace (8 * (len l + 1)) with (8 * len l + 8) by lia.
    rewrite pow2_split by lia. change (2 ^ 8) with 256.
    pose proof (pow2_pos (8 * len l) ltac:(lia)) as Hp. nia.
Qed.

Lemma be_value_num l : forall acc c, bytes l -> len l <= 8 -> 0 <= c -> acc = c * 2 ^ (8 * len l) ->
  be_value l acc = acc + be_num l.
Proof.
  induction l as [|x l IH]; intros acc c Hb Hlen Hc Hacc.
  - cbn. lia.
  - apply bytes_cons in Hb. destruct Hb as [Hx Hl]. unfold byte in Hx.
    rewrite len_cons in *. pose proof (len_nonneg l) as Hn.
    cbn [be_value be_num]. fold (len l). replace (len l * 8) with (8 * len l) by lia.
    pose proof (pow2_pos (8 * len l) ltac:(lia)) as Hp.
    replace (8 * (len l + 1)) with (8 * len l + 8) in Hacc by lia.
    rewrite pow2_split in Hacc by lia. change (2 ^ 8) with 256 in Hacc.
    assert (Hle : 2 ^ (8 * len l) * 256 <= M64).
    { rewrite M64_eq. change 256 with (2 ^ 8). rewrite <- pow2_split by lia. apply Z.pow_le_mono_r; lia. }
    unfold shl. rewrite u64_id by nia.
    rewrite (lor_disjoint_add acc (x * 2 ^ (8 * len l)) (8 * len l + 8)); [| lia | | ].
    + rewrite (IH (acc + x * 2 ^ (8 * len l)) (c * 256 + x)); auto; try lia.
    + rewrite pow2_split by lia. change (2 ^ 8) with 256. nia.
    + rewrite pow2_split by lia. change (2 ^ 8) with 256. subst acc.
      apply Z_mod_mult.
Qed.

Lemma be8_bytes n : bytes (be8 n).
Proof.
  unfold be8. cbn [map].
  repeat (apply bytes_cons; split; [unfold byte; change 255 with (2 ^ 8 - 1); rewrite land_ones_mod by lia; apply Z.mod_pos_bound; lia|]).
  apply bytes_nil.
Qed.

Lemma len_be8 n : len (be8 n) = 8.
Proof. reflexivity. Qed.

Lemma be_num_be8 n : 0 <= n < M64 -> be_num (be8 n) = n.
Proof.
  intros Hn.
  pose (A := fun j => Z.land (shr n (8 * j)) 255 * 2 ^ (8 * j)).
  assert (S : forall j j', 0 <= j -> j' = j + 1 -> A j + n mod 2 ^ (8 * j) = n mod 2 ^ (8 * j')).
  { intros j j' Hj ->. unfold A, shr. change 255 with (2 ^ 8 - 1). rewrite land_ones_mod by lia.
    replace (8 * (j + 1)) with (8 * j + 8) by lia. rewrite pow2_split by lia.
    pose proof (pow2_pos (8 * j) ltac:(lia)) as Hp.
    rewrite Z.rem_mul_r by lia. lia. }
  transitivity (A 7 + (A 6 + (A 5 + (A 4 + (A 3 + (A 2 + (A 1 + (A 0 + n mod 2 ^ (8 * 0))))))))).
  { change (2 ^ (8 * 0)) with 1. rewrite Z.mod_1_r. reflexivity. }
  rewrite (S 0 1), (S 1 2), (S 2 3), (S 3 4), (S 4 5), (S 5 6), (S 6 7), (S 7 8) by lia.
  apply Z.mod_small. exact Hn.
Qed.

Lemma be_value_be8 n : 0 <= n < M64 -> be_value (be8 n) 0 = n.
Proof.
  intros Hn. rewrite (be_value_num (be8 n) 0 0); [rewrite be_num_be8 by assumption; lia | apply be8_bytes | rewrite len_be8; lia | lia | lia].
Qed.

(* ---- the generated index formulas of sc_io_decode, as plain arithmetic ---------------------------- *)
Lemma dec_lein_eq irem : dec_lein irem = if irem <? 76 then irem else 76.
Proof. reflexivity. Qed.

Lemma dec_base64_lines_eq E : 0 < E < M64 - 77 -> dec_base64_lines E = (E + 76) / 78.
Proof.
  intros H. unfold dec_base64_lines.
  change (u64 (s32 (s32 (s32 (cdiv 57 3) * 4) + 1))) with 77.
  change (u64 (s32 (s32 (s32 (s32 (cdiv 57 3) * 4) + 1) + 1))) with 78.
  rewrite (u64_id (E - 1)) by lia. rewrite u64_id by lia. f_equal. lia.
Qed.

(* sizes of the armored text of a payload of n bytes *)
Section Geometry.
  Variable n : Z.
  Hypothesis Hn : 0 < n < M64 / 4.
  Let m := (n + 2) / 3.
  Let L := (n + 56) / 57.
  Let E := 4 * m + 2 * L + 1.

  Lemma geo_lines : dec_base64_lines E = L.
  Proof.
    unfold M64 in Hn. change (18446744073709551616 / 4) with 4611686018427387904 in Hn.
    rewrite dec_base64_lines_eq by (unfold M64, E, m, L; lia). unfold E, m, L. lia.
  Qed.

  Lemma geo_guard : dec_guard_short E L = false.
  Proof.
    unfold M64 in Hn. change (18446744073709551616 / 4) with 4611686018427387904 in Hn.
    unfold dec_guard_short. rewrite !u64_id by (unfold M64, E, m, L; lia).
    apply Z.ltb_ge. unfold E, m, L. lia.
  Qed.

  Lemma geo_irem : dec_irem E L = 4 * m.
  Proof.
    unfold M64 in Hn. change (18446744073709551616 / 4) with 4611686018427387904 in Hn.
    unfold dec_irem. rewrite (u64_id (E - 1)), (u64_id (2 * L)) by (unfold M64, E, m, L; lia).
    rewrite u64_id by (unfold M64, E, m, L; lia). unfold E. lia.
  Qed.

  Lemma geo_csize : dec_compressed_size L = 57 * L.
  Proof.
    unfold M64 in Hn. change (18446744073709551616 / 4) with 4611686018427387904 in Hn.
    unfold dec_compressed_size. rewrite u64_id by (unfold M64, L; lia). lia.
  Qed.
End Geometry.

(* ---- one line of the decoder ------------------------------------------------------------------------ *)
Lemma comp_append_ok rcomp ocnt csize pt n blk :
  0 <= n <= len pt -> firstn (Z.to_nat n) pt = blk -> ocnt + n <= csize ->
  comp_append rcomp ocnt csize pt n = Ok (rev blk ++ rcomp).
Proof.
  intros Hn Hf Hc. unfold comp_append. rewrite slice_ok by lia. cbn [bind].
  change (Z.to_nat 0) with 0%nat. cbn [skipn]. rewrite Hf.
  destruct (Z.ltb_spec csize (ocnt + n)); [lia|]. now rewrite rev_append_rev.
Qed.

(* the RFC 4648 code of at most 57 bytes, decoded from step a into the 76-byte line buffer *)
Lemma decode_line x pt v : bytes x -> len pt = 76 -> len x <= 57 ->
  exists pt' st', decode_block (rfc4648 x) pt (mkD Sa v) = Ok (len x, pt', st') /\ len pt' = 76 /\
                  firstn (Z.to_nat (len x)) pt' = x /\ (len x mod 3 = 0 -> exists v', st' = mkD Sa v').
Proof.
  intros Hb Hpt Hx. pose proof (len_nonneg x) as Hn.
  destruct (decode_block_refine (rfc4648 x) pt (mkD Sa v)) as (lout & pt' & st' & E & L & P & F & A & _).
  - rewrite len_rfc4648, Hpt. lia.
  - cbn [d_step d_plain abs_st] in *. rewrite pdec_rfc4648 in P, F by assumption. subst lout.
    exists pt', st'. split; [exact E|]. split; [lia|]. split; [exact F|].
    intros Hm. rewrite pdec_rfc4648_aligned in A by assumption. cbn [fst] in A.
    destruct st' as [s v']. destruct s; cbn [abs_st d_step d_plain] in A; try discriminate. now exists v'.
Qed.

(* ---- the line loop on a wrapped RFC 4648 text ------------------------------------------------------- *)
Lemma dec_lines_wrap k : forall fuel p tail lb dlen ipos zlin lines rcomp ocnt csize pt v,
  bytes p -> 0 < len p -> Z.of_nat k = (len p + 56) / 57 -> (k <= fuel)%nat ->
  lines = zlin + Z.of_nat k -> 0 <= zlin -> lines < M64 ->
  len pt = 76 -> 0 <= ipos -> ipos + 4 * ((len p + 2) / 3) + 2 * Z.of_nat k <= dlen -> dlen < M64 ->
  0 <= ocnt -> ocnt + len p <= csize -> csize < M64 ->
  dec_lines k dlen (wrap76 fuel lb (rfc4648 p) ++ tail) ipos (4 * ((len p + 2) / 3)) zlin lines
            rcomp ocnt csize pt (mkD Sa v)
  = Ok (rev rcomp ++ p, ocnt + len p).
Proof.
  induction k as [|k IH]; intros fuel p tail lb dlen ipos zlin lines rcomp ocnt csize pt v
    Hb Hpos Hk Hfuel Hlines Hz Hmax Hpt Hip Hdlen Hdm Hoc Hcs Hcsm.
  - exfalso. lia.
  - destruct fuel as [|fuel]; [lia|].
    cbn [dec_lines wrap76]. rewrite dec_lein_eq.
    pose proof (len_rfc4648 p) as Hlc.
    assert (Hu : u64 (lines - 1) = lines - 1) by (apply u64_id; lia). rewrite Hu.
    destruct (Z.leb_spec (len p) 57) as [Hs|Hbig].
    + (* the last line *)
      assert (Hk0 : k = 0%nat) by lia. subst k.
      assert (Hle : (length (rfc4648 p) <=? 76)%nat = true) by (apply Nat.leb_le; unfold len in *; lia).
      rewrite Hle.
      assert (Hlein : (if 4 * ((len p + 2) / 3) <? 76 then 4 * ((len p + 2) / 3) else 76) = len (rfc4648 p)).
      { rewrite Hlc. destruct (Z.ltb_spec (4 * ((len p + 2) / 3)) 76); lia. }
      rewrite Hlein.
      assert (Hchk : negb ((0 <=? ipos) && (ipos + len (rfc4648 p) <=? dlen)) = false).
      { apply negb_false_iff, andb_true_iff. split; [apply Z.leb_le|apply Z.leb_le]; lia. }
      rewrite Hchk.
      assert (Hfn : firstn (Z.to_nat (len (rfc4648 p))) ((rfc4648 p ++ [lb; 10]) ++ tail) = rfc4648 p).
      { rewrite <- app_assoc. apply firstn_app_exact. unfold len. lia. }
      rewrite Hfn.
      destruct (decode_line p pt v Hb Hpt Hs) as (pt' & st' & E & L & F & _).
      rewrite E. cbn [bind].
      destruct (Z.eqb_spec (len p) 0); [lia|].
      destruct (Z.ltb_spec zlin (lines - 1)); [lia|].
      rewrite (comp_append_ok rcomp ocnt csize pt' (len p) p) by (auto; lia). cbn [bind dec_lines].
      rewrite rev_append_rev, rev_app_distr, rev_involutive, app_nil_r.
      rewrite u64_id by lia. reflexivity.
    + (* a full line, more to come *)
      set (chunk := firstn (Z.to_nat 57) p). set (rest := skipn (Z.to_nat 57) p).
      assert (Hsplit : p = chunk ++ rest) by (symmetry; apply firstn_skipn).
      assert (Hlch : len chunk = 57) by (unfold chunk; apply len_firstn; lia).
      assert (Hlr : len rest = len p - 57) by (unfold rest; rewrite len_skipn by lia; lia).
      assert (Hbc : bytes chunk) by (now apply bytes_firstn).
      assert (Hbr : bytes rest) by (now apply bytes_skipn).
      assert (Hcode : rfc4648 p = rfc4648 chunk ++ rfc4648 rest).
      { rewrite Hsplit at 1. apply rfc4648_app. rewrite Hlch. reflexivity. }
      assert (Hl76 : length (rfc4648 chunk) = 76%nat).
      { pose proof (len_rfc4648 chunk) as Hl. rewrite Hlch in Hl. change (4 * ((57 + 2) / 3)) with 76 in Hl.
        unfold len in Hl. lia. }
      assert (Hne2 : rfc4648 rest <> []) by (apply rfc4648_nonempty; intros E0; rewrite E0, len_nil in Hlr; lia).
      assert (Hgt : (length (rfc4648 p) <=? 76)%nat = false).
      { apply Nat.leb_gt. rewrite Hcode, app_length, Hl76. destruct (rfc4648 rest); [congruence|cbn; lia]. }
      rewrite Hgt.
      assert (Hre : (firstn 76 (rfc4648 p) ++ [lb; 10] ++ wrap76 fuel lb (skipn 76 (rfc4648 p))) ++ tail
                    = rfc4648 chunk ++ [lb; 10] ++ (wrap76 fuel lb (rfc4648 rest) ++ tail)).
      { rewrite Hcode, (firstn_app_exact _ _ 76 Hl76), (skipn_app_exact _ _ 76 Hl76).
        rewrite <- !app_assoc. reflexivity. }
      rewrite Hre.
      destruct (Z.ltb_spec (4 * ((len p + 2) / 3)) 76) as [Hlt|_]; [exfalso; lia|].
      assert (Hchk : negb ((0 <=? ipos) && (ipos + 76 <=? dlen)) = false).
      { apply negb_false_iff, andb_true_iff. split; [apply Z.leb_le|apply Z.leb_le]; lia. }
      rewrite Hchk.
      assert (Hfn : firstn (Z.to_nat 76) (rfc4648 chunk ++ [lb; 10] ++ (wrap76 fuel lb (rfc4648 rest) ++ tail)) = rfc4648 chunk).
      { apply firstn_app_exact. exact Hl76. }
      rewrite Hfn.
      assert (Hsk : skipn 78 (rfc4648 chunk ++ [lb; 10] ++ (wrap76 fuel lb (rfc4648 rest) ++ tail))
                    = wrap76 fuel lb (rfc4648 rest) ++ tail).
      { rewrite app_assoc. apply skipn_app_exact. rewrite app_length, Hl76. reflexivity. }
      rewrite Hsk.
      destruct (decode_line chunk pt v Hbc Hpt ltac:(lia)) as (pt' & st' & E & L & F & A).
      destruct A as [v' ->]; [rewrite Hlch; reflexivity|].
      rewrite Hlch in E, F. rewrite E. cbn [bind].
      change (57 =? 0) with false. change (57 =? 57) with true. cbn [negb].
      destruct (Z.ltb_spec zlin (lines - 1)); [|lia].
      rewrite (comp_append_ok rcomp ocnt csize pt' 57 chunk) by (auto; lia). cbn [bind].
      rewrite (u64_id (ocnt + 57)) by lia.
      replace (u64 (4 * ((len p + 2) / 3) - 76)) with (4 * ((len rest + 2) / 3))
        by (rewrite u64_id by lia; rewrite Hlr; lia).
      rewrite (IH fuel rest tail lb dlen (ipos + 78) (zlin + 1) lines (rev chunk ++ rcomp) (ocnt + 57) csize pt' v');
        auto; try lia.
      rewrite rev_app_distr, rev_involutive, <- app_assoc, <- Hsplit. do 2 f_equal. lia.
Qed.

(* ---- 1. the line loop of the decoder applied to an armored payload returns the payload -------------- *)
Lemma armor_len lb p : bytes p -> 0 < len p < M64 / 4 ->
  len (armor lb p) = 4 * ((len p + 2) / 3) + 2 * ((len p + 56) / 57) + 1.
Proof.
  intros Hb Hn. destruct (armor_geometry lb p Hb Hn) as (ls & _ & _ & _ & _ & _ & _ & H & _). exact H.
Qed.

Theorem dec_lines_armor lb p : bytes p -> 0 < len p < M64 / 4 ->
  let t := armor lb p in
  let E := len t in
  let lines := dec_base64_lines E in
  dec_guard_short E lines = false /\
  dec_lines (Z.to_nat lines) E t 0 (dec_irem E lines) 0 lines [] 0 (dec_compressed_size lines)
            (repeat 0 76) d_init = Ok (p, len p).
Proof.
  intros Hb Hn t E lines. unfold lines, E, t. rewrite (armor_len lb p Hb Hn).
  rewrite (geo_lines (len p) Hn). split; [apply geo_guard; exact Hn|].
  rewrite (geo_irem (len p) Hn), (geo_csize (len p) Hn).
  rewrite (armor_spec lb p Hb Hn).
  unfold M64 in Hn. change (18446744073709551616 / 4) with 4611686018427387904 in Hn.
  unfold d_init.
  rewrite (dec_lines_wrap (Z.to_nat ((len p + 56) / 57)) (Z.to_nat ((len p + 56) / 57)) p [0] (u8 lb));
    auto; unfold M64; lia.
Qed.

(* ---- the payload: info header, then the compressed bytes -------------------------------------------- *)
Lemma rd_last w x : rd (w ++ [x]) (len (w ++ [x]) - 1) = Ok x.
Proof.
  rewrite len_app. change (len [x]) with 1. pose proof (len_nonneg w) as Hn.
  rewrite rd_ok by (rewrite len_app; change (len [x]) with 1; lia).
  replace (Z.to_nat (len w + 1 - 1)) with (length w) by (unfold len; lia).
  rewrite app_nth2 by lia. rewrite Nat.sub_diag. reflexivity.
Qed.

Lemma info_header_bytes n : bytes (info_header n).
Proof. unfold info_header. apply bytes_app. split; [apply be8_bytes|]. apply bytes_cons. split; [unfold byte; lia|apply bytes_nil]. Qed.

Lemma len_info_header n : len (info_header n) = 9.
Proof. reflexivity. Qed.

Section Payload.
  Variables (n : Z) (c : list Z).
  Let p := info_header n ++ c.

  Lemma payload_len : len p = 9 + len c.
  Proof. unfold p. rewrite len_app, len_info_header. reflexivity. Qed.

  Lemma payload_bytes : bytes c -> bytes p.
  Proof. intros H. unfold p. apply bytes_app. split; [apply info_header_bytes|exact H]. Qed.

  Lemma payload_fc : rd p 8 = Ok 122.
  Proof.
    pose proof (len_nonneg c) as Hc. rewrite rd_ok by (rewrite payload_len; lia). reflexivity.
  Qed.

  Lemma payload_hdr : slice p 0 8 = Ok (be8 n).
  Proof.
    pose proof (len_nonneg c) as Hc. rewrite slice_ok by (rewrite ?payload_len; lia). reflexivity.
  Qed.

  Lemma payload_src : slice p 9 (len p - 9) = Ok c.
  Proof.
    pose proof (len_nonneg c) as Hc. rewrite slice_ok by (rewrite ?payload_len; lia).
    rewrite payload_len. replace (9 + len c - 9) with (len c) by lia.
    change (skipn (Z.to_nat 9) p) with c. unfold len. rewrite Nat2Z.id. now rewrite firstn_all.
  Qed.
End Payload.

(* ---- 3. the general round trip ------------------------------------------------------------------------ *)
Section Codec.
  Variable compress : list Z -> list Z.
  Variable unc : list Z -> Z -> Z -> bool -> res (list Z).
  Hypothesis compress_bytes : forall d, bytes d -> bytes (compress d).
  (* cap = the bytes really available at the destination, nil = the destination pointer is NULL *)
  Hypothesis unc_compress : forall d cap nil, bytes d -> len d < M64 / 2 ->
    len d <= cap -> (nil = true -> d = []) ->
    unc (compress d) (len d) cap nil = Ok d.

  Theorem decode_encode lb d out maxsz :
    bytes d -> 9 + len (compress d) < M64 / 4 -> len d < M64 / 2 ->
    len d / 1032 <= 9 + len (compress d) ->       (* the ratio guard of the decoder (commit 5c6a588) *)
    0 < o_esz out -> (len d) mod (o_esz out) = 0 ->
    (maxsz <= 0 \/ len d <= maxsz) ->
    (o_owner out = false -> len d <= o_cnt out * o_esz out < M64) ->
    sc_decode_with unc (sc_encode_with compress lb d) out maxsz = Ok (len d / o_esz out, d).
  Proof.
    intros Hd Hc Hn Hratio Hesz Hmod Hmax Hview.
    unfold M64 in Hn. change (18446744073709551616 / 2) with 9223372036854775808 in Hn.
    pose proof (len_nonneg d) as Hd0. pose proof (len_nonneg (compress d)) as Hc0.
    unfold sc_encode_with. set (p := info_header (len d) ++ compress d).
    assert (Hlp : len p = 9 + len (compress d)) by apply payload_len.
    assert (Hbp : bytes p) by (apply payload_bytes, compress_bytes, Hd).
    assert (Hp : 0 < len p < M64 / 4) by lia.
    destruct (dec_lines_armor lb p Hbp Hp) as [G D]. cbv zeta in G, D.
    unfold sc_decode_with. cbv zeta.
    pose proof (armor_len lb p Hbp Hp) as HE.
    destruct (Z.eqb_spec (len (armor lb p)) 0) as [E0|_]; [exfalso; lia|].
    assert (Hlast : rd (armor lb p) (len (armor lb p) - 1) = Ok 0).
    { rewrite (armor_spec lb p Hbp Hp). apply rd_last. }
    rewrite Hlast. cbn [bind]. change (negb (0 =? 0)) with false. cbv iota.
    rewrite G, D. cbn [bind].
    destruct (Z.ltb_spec (len p) 9); [lia|].
    unfold p at 1. rewrite payload_fc. cbn [bind]. change (negb (122 =? 122)) with false. cbv iota.
    unfold p at 1. rewrite payload_hdr. cbn [bind].
    rewrite be_value_be8 by (unfold M64; lia).
    assert (Hg : dec_guard_ratio (len d) (len p) = false).
    { unfold dec_guard_ratio. apply Z.ltb_ge. rewrite Hlp. exact Hratio. }
    rewrite Hg.
    rewrite Hmod. change (negb (0 =? 0)) with false. cbv iota.
    assert (Hm : (0 <? maxsz) && (maxsz <? len d) = false).
    { destruct (Z.ltb_spec 0 maxsz); destruct (Z.ltb_spec maxsz (len d)); cbn [andb]; auto; lia. }
    rewrite Hm.
    assert (Hv : negb (o_owner out) && (u64 (o_cnt out * o_esz out) <? len d) = false).
    { destruct (o_owner out); [reflexivity|]. cbn [negb andb]. specialize (Hview eq_refl).
      rewrite u64_id by lia. apply Z.ltb_ge. lia. }
    rewrite Hv.
    rewrite (u64_id (len p - 9)) by (unfold M64 in *; lia).
    unfold p at 1 2. rewrite payload_src. cbn [bind].
    rewrite unc_compress; [reflexivity|exact Hd|unfold M64; change (18446744073709551616 / 2) with 9223372036854775808; lia| |].
    - destruct (o_owner out); [|specialize (Hview eq_refl); lia].
      unfold owner_capacity. destruct (Z.ltb_spec 9223372036854775808 (len d)); lia.
    - intros Hnil. apply andb_true_iff in Hnil. destruct Hnil as [_ Hz]. apply Z.eqb_eq in Hz. now apply len_0_nil.
  Qed.
End Codec.

(* ---- 4. the build with zlib: deflate / inflate abstract, contract = zlib's documented round trip ------- *)
Section Zlib.
  Variable deflate : Z -> list Z -> list Z.                 (* compress2 at a level *)
  Variable inflate : list Z -> Z -> option (list Z).        (* uncompress into a buffer of the given size *)
  Hypothesis deflate_bytes : forall l d, bytes d -> bytes (deflate l d).
  Hypothesis zlib_ok : forall l d, bytes d -> inflate (deflate l d) (len d) = Some d.

  Theorem decode_encode_zlib lvl lb d out maxsz :
    bytes d -> 9 + len (deflate lvl d) < M64 / 4 -> len d < M64 / 2 ->
    len d / 1032 <= 9 + len (deflate lvl d) ->    (* deflate expands at most 1032 : 1 (a fact about the format, assumed) *)
    0 < o_esz out -> (len d) mod (o_esz out) = 0 ->
    (maxsz <= 0 \/ len d <= maxsz) ->
    (o_owner out = false -> len d <= o_cnt out * o_esz out < M64) ->
    sc_decode_with (zlib_unc inflate) (sc_encode_with (deflate lvl) lb d) out maxsz = Ok (len d / o_esz out, d).
  Proof.
    apply (decode_encode (deflate lvl) (zlib_unc inflate)).
    - apply deflate_bytes.
    - intros d0 cap nil Hd0 _ Hcap _. unfold zlib_unc.
      destruct (Z.ltb_spec cap (len d0)); [lia|]. rewrite zlib_ok by assumption.
      now rewrite Z.eqb_refl.
  Qed.
End Zlib.

(* ---- 4b. the build without zlib: everything is libsc's own code, no hypothesis ------------------------- *)
Theorem decode_encode_stored lb d out maxsz :
  bytes d -> len d < M64 / 8 ->
  0 < o_esz out -> (len d) mod (o_esz out) = 0 ->
  (maxsz <= 0 \/ len d <= maxsz) ->
  (o_owner out = false -> len d <= o_cnt out * o_esz out < M64) ->
  sc_decode (sc_encode_stored lb d) out maxsz = Ok (len d / o_esz out, d).
Proof.
  intros Hd Hn. unfold sc_decode, sc_encode_stored.
  assert (Hn2 : len d < M64 / 2) by (unfold M64 in *; change (18446744073709551616 / 8) with 2305843009213693952 in Hn; change (18446744073709551616 / 2) with 9223372036854775808; lia).
  assert (Hb : len d <= len (noncompress d) /\ 9 + len (noncompress d) < M64 / 4).
  { rewrite (noncompress_len d Hd Hn2). pose proof (len_nonneg d) as H0.
    unfold sc_io_noncompress_bound. unfold M64 in *. change (18446744073709551616 / 8) with 2305843009213693952 in Hn.
    change (18446744073709551616 / 4) with 4611686018427387904.
    change (s32 (65531 - 1)) with 65530. change (u64 65530) with 65530.
    rewrite (u64_id (len d + 65530)) by (unfold M64; lia).
    assert (Hq : 0 <= (len d + 65530) / 65531 <= len d + 65530) by (split; [apply Z.div_pos; lia|apply Z.div_le_upper_bound; lia]).
    set (q := (len d + 65530) / 65531) in *.
    destruct (Z.ltb_spec 1 q).
    + rewrite (u64_id (5 * q)) by (unfold M64; lia). rewrite (u64_id (2 + 5 * q)) by (unfold M64; lia).
      assert (Hq2 : 65531 * q <= len d + 65530) by (unfold q; apply Z.mul_div_le; lia).
      rewrite (u64_id (2 + 5 * q + len d)) by (unfold M64; lia). rewrite u64_id by (unfold M64; lia). lia.
    + change (u64 (5 * 1)) with 5. change (u64 (2 + 5)) with 7.
      rewrite (u64_id (7 + len d)) by (unfold M64; lia). rewrite u64_id by (unfold M64; lia). lia. }
  destruct Hb as [Hge Hlt].
  apply (decode_encode noncompress nonuncompress).
  - exact noncompress_bytes.
  - intros d0 cap nil Hd0 Hl Hcap Hnil. apply stored_roundtrip; auto.
  - exact Hd.
  - exact Hlt.
  - exact Hn2.
  - (* the ratio guard: the stored format never shrinks the data *)
    pose proof (len_nonneg d) as H0.
    assert (len d / 1032 <= len d) by (apply Z.div_le_upper_bound; lia). lia.
Qed.

(* ---- 5. sc_io_decode_info reads the original size and the format character ---------------------------- *)
Theorem decode_info_encode compress lb d :
  bytes d -> bytes (compress d) -> len d < M64 -> 9 + len (compress d) < M64 / 4 ->
  sc_decode_info (sc_encode_with compress lb d) = Ok (len d, 122).
Proof.
  intros Hd Hbc Hn Hc.
  pose proof (len_nonneg d) as Hd0. pose proof (len_nonneg (compress d)) as Hc0.
  unfold sc_encode_with. set (p := info_header (len d) ++ compress d).
  assert (Hlp : len p = 9 + len (compress d)) by apply payload_len.
  assert (Hbp : bytes p) by (apply payload_bytes, Hbc).
  assert (Hp : 0 < len p < M64 / 4) by lia.
  pose proof (armor_len lb p Hbp Hp) as HE.
  pose proof (armor_first12 lb p Hbp ltac:(lia)) as H12.
  change (firstn 9 p) with (info_header (len d)) in H12.
  unfold sc_decode_info.
  destruct (Z.ltb_spec (len (armor lb p)) 12) as [Hlt|_]; [exfalso; lia|].
  rewrite slice_ok by lia. cbn [bind]. change (Z.to_nat 0) with 0%nat. cbn [skipn].
  change (Z.to_nat 12) with 12%nat. rewrite H12.
  destruct (decode_block_refine (rfc4648 (info_header (len d))) (repeat 0 12) d_init)
    as (lout & pt' & st' & E & L & P & F & _).
  - rewrite len_rfc4648, len_info_header. change (len (repeat 0 12)) with 12. lia.
  - cbn [d_init d_step d_plain abs_st] in P, F.
    rewrite pdec_rfc4648 in P, F by apply info_header_bytes.
    rewrite len_info_header in P. subst lout.
    rewrite E. cbn [bind]. change (negb (9 =? 9)) with false. cbv iota.
    change (len (repeat 0 12)) with 12 in L.
    assert (H8 : firstn 8 pt' = be8 (len d)).
    { replace (firstn 8 pt') with (firstn 8 (firstn (Z.to_nat 9) pt')) by (rewrite firstn_firstn; reflexivity).
      rewrite F. reflexivity. }
    assert (Hfc : nth 8 pt' 0 = 122).
    { rewrite <- (nth_firstn' pt' (Z.to_nat 9) 8 0) by (change (Z.to_nat 9) with 9%nat; lia).
      rewrite F. reflexivity. }
    rewrite slice_ok by lia. cbn [bind]. change (Z.to_nat 0) with 0%nat. cbn [skipn].
    change (Z.to_nat 8) with 8%nat. rewrite H8.
    rewrite rd_ok by lia. cbn [bind]. change (Z.to_nat 8) with 8%nat. rewrite Hfc.
    rewrite be_value_be8 by lia. reflexivity.
Qed.
