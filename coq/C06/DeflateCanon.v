(* Facts about the specification DeflateSpec.v: bit strings, and the canonical Huffman code of
   RFC 1951 3.2.2 - the codes fit into their lengths and form a prefix code whenever the lengths
   are not over-subscribed (Kraft sum <= 1). *)
From Coq Require Import ZArith List Bool Lia.
From ScV Require Import Base.CInt C06.Res C06.ResProofs C06.DeflateSpec.
Import ListNotations.
Local Open Scope Z_scope.

(* ---- lists ------------------------------------------------------------------------------------------ *)
Lemma app_inv_len {A} (a c b d : list A) : a ++ b = c ++ d -> length a = length c -> a = c /\ b = d.
Proof.
  revert c; induction a as [|x a IH]; intros [|y c] H L; cbn in *; try discriminate; [auto|].
  inversion H; subst. destruct (IH c H2) as [-> ->]; [lia|auto].
Qed.

(* ---- bits_n ------------------------------------------------------------------------------------------- *)
Lemma bits_n_length n v : length (bits_n n v) = n.
Proof. revert v; induction n; intros v; cbn [bits_n length]; [reflexivity|now rewrite IHn]. Qed.

Lemma bitsZ_length n v : 0 <= n -> len (bitsZ n v) = n.
Proof. intros; unfold bitsZ, len; rewrite bits_n_length; lia. Qed.

Lemma bits_n_app a b v : bits_n (a + b) v = bits_n a v ++ bits_n b (v / 2 ^ Z.of_nat a).
Proof.
  revert v; induction a as [|a IH]; intros v.
  - cbn [Nat.add bits_n app]. change (2 ^ Z.of_nat 0) with 1. now rewrite Z.div_1_r.
  - cbn [Nat.add bits_n app]. f_equal. rewrite IH. f_equal. f_equal.
    rewrite Nat2Z.inj_succ, Z.pow_succ_r by lia. rewrite Z.div_div by (try apply pow2_pos; lia). reflexivity.
Qed.

Lemma bits_n_mod n v : bits_n n (v mod 2 ^ Z.of_nat n) = bits_n n v.
Proof.
  revert v; induction n as [|n IH]; intros v; [reflexivity|].
  cbn [bits_n]. rewrite Nat2Z.inj_succ, Z.pow_succ_r by lia.
  assert (Hp : 0 < 2 ^ Z.of_nat n) by (apply pow2_pos; lia).
  rewrite Z.rem_mul_r by lia.
  f_equal.
  - rewrite Z.odd_add_mul_2. rewrite Zmod_odd. destruct (Z.odd v); reflexivity.
  - rewrite <- (IH (v / 2)). f_equal.
    rewrite (Z.mul_comm 2), Z.div_add by lia.
    rewrite (Z.div_small (v mod 2) 2) by (apply Z.mod_pos_bound; lia). apply Z.add_0_l.
Qed.

Lemma bits_n_inj n v w : 0 <= v < 2 ^ Z.of_nat n -> 0 <= w < 2 ^ Z.of_nat n -> bits_n n v = bits_n n w -> v = w.
Proof.
  revert v w; induction n as [|n IH]; intros v w Hv Hw E.
  - change (2 ^ Z.of_nat 0) with 1 in *. lia.
  - rewrite Nat2Z.inj_succ, Z.pow_succ_r in * by lia. cbn [bits_n] in E. inversion E as [[E1 E2]].
    assert (v / 2 = w / 2) by (apply IH; auto; lia).
    rewrite (Z.div_mod v 2), (Z.div_mod w 2) by lia. rewrite !Zmod_odd, E1. lia.
Qed.

Lemma bits_n_add a b x y : 0 <= x < 2 ^ Z.of_nat a ->
  bits_n (a + b) (x + y * 2 ^ Z.of_nat a) = bits_n a x ++ bits_n b y.
Proof.
  intros Hx. rewrite bits_n_app. f_equal.
  - rewrite <- bits_n_mod. rewrite Z.mod_add by lia. rewrite Z.mod_small by lia. reflexivity.
  - rewrite Z.div_add by lia. rewrite Z.div_small by lia. reflexivity.
Qed.

Lemma bits_n_snoc n v : bits_n (S n) v = bits_n n v ++ [Z.odd (v / 2 ^ Z.of_nat n)].
Proof. replace (S n) with (n + 1)%nat by lia. rewrite bits_n_app. reflexivity. Qed.

Lemma bitsZ_app a b v : 0 <= a -> 0 <= b -> bitsZ (a + b) v = bitsZ a v ++ bitsZ b (v / 2 ^ a).
Proof.
  intros Ha Hb. unfold bitsZ. rewrite Z2Nat.inj_add by lia. rewrite bits_n_app. rewrite Z2Nat.id by lia. reflexivity.
Qed.

Lemma bitsZ_mod n v : 0 <= n -> bitsZ n (v mod 2 ^ n) = bitsZ n v.
Proof. intros Hn. unfold bitsZ. rewrite <- (bits_n_mod _ v). rewrite Z2Nat.id by lia. reflexivity. Qed.

Lemma bitsZ_inj n v w : 0 <= n -> 0 <= v < 2 ^ n -> 0 <= w < 2 ^ n -> bitsZ n v = bitsZ n w -> v = w.
Proof. intros Hn Hv Hw. unfold bitsZ. apply bits_n_inj; rewrite Z2Nat.id by lia; assumption. Qed.

Lemma bitsZ_add a b x y : 0 <= a -> 0 <= b -> 0 <= x < 2 ^ a ->
  bitsZ (a + b) (x + y * 2 ^ a) = bitsZ a x ++ bitsZ b y.
Proof.
  intros Ha Hb Hx. unfold bitsZ. rewrite Z2Nat.inj_add by lia.
  rewrite <- (Z2Nat.id a) at 2 by lia. apply bits_n_add. rewrite Z2Nat.id by lia. exact Hx.
Qed.

Lemma bitsZ_0 v : bitsZ 0 v = [].
Proof. reflexivity. Qed.

(* a code, most significant bit first *)
Lemma code_bits_succ n v : 0 <= n -> code_bits (n + 1) v = Z.odd (v / 2 ^ n) :: code_bits n v.
Proof.
  intros Hn. unfold code_bits, bitsZ. replace (Z.to_nat (n + 1)) with (S (Z.to_nat n)) by lia.
  rewrite bits_n_snoc, rev_app_distr. rewrite Z2Nat.id by lia. reflexivity.
Qed.

Lemma code_bits_length n v : 0 <= n -> len (code_bits n v) = n.
Proof. intros. unfold code_bits. rewrite len_rev. now apply bitsZ_length. Qed.

(* the first a bits of a code of a + b bits are the code of its value divided by 2^b *)
Lemma code_bits_app a b v : 0 <= a -> 0 <= b -> code_bits (a + b) v = code_bits a (v / 2 ^ b) ++ code_bits b v.
Proof.
  intros Ha Hb. unfold code_bits. rewrite Z.add_comm. rewrite bitsZ_app by lia. apply rev_app_distr.
Qed.

Lemma code_bits_inj n v w : 0 <= n -> 0 <= v < 2 ^ n -> 0 <= w < 2 ^ n -> code_bits n v = code_bits n w -> v = w.
Proof.
  intros Hn Hv Hw E. unfold code_bits in E. apply (f_equal (@rev bool)) in E. rewrite !rev_involutive in E.
  eapply bitsZ_inj; eauto.
Qed.

(* ---- bytes as bits ---------------------------------------------------------------------------------------- *)
Lemma bytes_bits_app a b : bytes_bits (a ++ b) = bytes_bits a ++ bytes_bits b.
Proof. unfold bytes_bits. apply flat_map_app. Qed.

Lemma bytes_bits_cons x l : bytes_bits (x :: l) = byte_bits x ++ bytes_bits l.
Proof. reflexivity. Qed.

Lemma bytes_bits_length l : Z.of_nat (length (bytes_bits l)) = 8 * len l.
Proof.
  induction l as [|x l IH]; [reflexivity|]. rewrite bytes_bits_cons, app_length, len_cons.
  unfold byte_bits. rewrite bits_n_length. lia.
Qed.

Lemma byte_bits_inj x y : byte x -> byte y -> byte_bits x = byte_bits y -> x = y.
Proof. unfold byte, byte_bits. intros Hx Hy. apply bits_n_inj; change (2 ^ Z.of_nat 8) with 256; lia. Qed.

(* if the bits of a byte string start with the bits of another one, so do the bytes *)
Lemma bytes_bits_prefix x : forall a r, bytes a -> bytes x -> bytes_bits a = bytes_bits x ++ r ->
  exists a', a = x ++ a' /\ r = bytes_bits a'.
Proof.
  induction x as [|y x IH]; intros a r Ha Hx E.
  - exists a. auto.
  - destruct a as [|z a].
    + cbn in E. discriminate.
    + rewrite !bytes_bits_cons, <- app_assoc in E.
      apply app_inv_len in E; [|unfold byte_bits; now rewrite !bits_n_length].
      destruct E as [E1 E2]. apply bytes_cons in Ha. apply bytes_cons in Hx.
      apply byte_bits_inj in E1; [|tauto|tauto]. subst z.
      destruct (IH a r) as (a' & -> & ->); try tauto. exists a'. auto.
Qed.

(* ---- counting code lengths ------------------------------------------------------------------------------- *)
Lemma cnt_nil l : cnt [] l = 0.  Proof. reflexivity. Qed.

Lemma cnt_cons x ls l : cnt (x :: ls) l = cnt ls l + (if x =? l then 1 else 0).
Proof.
  unfold cnt. cbn [count_occ]. destruct (Z.eq_dec x l) as [->|Hne]; [rewrite Z.eqb_refl|destruct (Z.eqb_spec x l); [contradiction|]]; lia.
Qed.

Lemma cnt_app a b l : cnt (a ++ b) l = cnt a l + cnt b l.
Proof. unfold cnt. rewrite count_occ_app. lia. Qed.

Lemma cnt_nonneg ls l : 0 <= cnt ls l.  Proof. unfold cnt; lia. Qed.

Lemma cnt_le_len ls l : cnt ls l <= len ls.
Proof. unfold cnt, len. pose proof (count_occ_bound Z.eq_dec l ls). lia. Qed.

(* the rank of a symbol among those of its own length is below their number *)
Lemma cnt_rank ls sym : 0 <= sym < len ls ->
  cnt (firstn (Z.to_nat sym) ls) (nth (Z.to_nat sym) ls 0) + 1 <= cnt ls (nth (Z.to_nat sym) ls 0).
Proof.
  intros H. set (l := nth (Z.to_nat sym) ls 0).
  rewrite <- (firstn_skipn (Z.to_nat sym) ls) at 2. rewrite cnt_app.
  assert (E : skipn (Z.to_nat sym) ls = l :: skipn (S (Z.to_nat sym)) ls).
  { unfold l. clear l. remember (Z.to_nat sym) as k. assert (Hk : (k < length ls)%nat) by (unfold len in H; lia).
    clear Heqk H. revert k Hk. induction ls as [|x ls IH]; intros [|k] Hk; cbn [length] in Hk; try lia; [reflexivity|].
    cbn [skipn nth]. apply IH. lia. }
  rewrite E, cnt_cons, Z.eqb_refl. pose proof (cnt_nonneg (skipn (S (Z.to_nat sym)) ls) l). lia.
Qed.

(* two symbols of the same length have different ranks *)
Lemma cnt_rank_lt ls a b : 0 <= a < b -> b < len ls -> nth (Z.to_nat a) ls 0 = nth (Z.to_nat b) ls 0 ->
  cnt (firstn (Z.to_nat a) ls) (nth (Z.to_nat a) ls 0) < cnt (firstn (Z.to_nat b) ls) (nth (Z.to_nat b) ls 0).
Proof.
  intros Hab Hb E. rewrite <- E. set (l := nth (Z.to_nat a) ls 0).
  pose proof (cnt_rank (firstn (Z.to_nat b) ls) a) as H.
  rewrite len_firstn in H by lia. specialize (H ltac:(lia)).
  rewrite firstn_firstn in H. replace (Nat.min (Z.to_nat a) (Z.to_nat b)) with (Z.to_nat a) in H by lia.
  rewrite nth_firstn' in H by lia. fold l in H. lia.
Qed.

(* ---- K ls b: the codes of lengths 1..b occupy the first K ls b of the 2^b values of b bits ------------------ *)
Definition K (ls : list Z) (b : Z) : Z :=
  fold_right (fun l a => a + (if (1 <=? l) && (l <=? b) then 2 ^ (b - l) else 0)) 0 ls.

Lemma kraft_K ls : kraft ls = K ls 15.  Proof. reflexivity. Qed.

Lemma K_nil b : K [] b = 0.  Proof. reflexivity. Qed.
Lemma K_cons x ls b : K (x :: ls) b = K ls b + (if (1 <=? x) && (x <=? b) then 2 ^ (b - x) else 0).
Proof. reflexivity. Qed.

Lemma K_nonneg ls b : 0 <= K ls b.
Proof.
  induction ls as [|x ls IH]; [rewrite K_nil; lia|]. rewrite K_cons.
  destruct ((1 <=? x) && (x <=? b)) eqn:E; [|lia].
  apply andb_true_iff in E. destruct E as [E1 E2]. apply Z.leb_le in E1, E2.
  pose proof (pow2_pos (b - x) ltac:(lia)). lia.
Qed.

Lemma K_0 ls : K ls 0 = 0.
Proof.
  induction ls as [|x ls IH]; [reflexivity|]. rewrite K_cons, IH.
  destruct (Z.leb_spec 1 x); destruct (Z.leb_spec x 0); cbn [andb]; lia.
Qed.

Lemma K_succ ls b : 0 <= b -> K ls (b + 1) = 2 * K ls b + cnt ls (b + 1).
Proof.
  intros Hb. induction ls as [|x ls IH]; [reflexivity|]. rewrite !K_cons, cnt_cons, IH.
  destruct (Z.leb_spec 1 x); destruct (Z.leb_spec x b); destruct (Z.leb_spec x (b + 1)); destruct (Z.eqb_spec x (b + 1));
    cbn [andb]; try lia.
  - replace (b + 1 - x) with (Z.succ (b - x)) by lia. rewrite Z.pow_succ_r by lia. lia.
  - subst x. replace (b + 1 - (b + 1)) with 0 by lia. change (2 ^ 0) with 1. lia.
Qed.

(* K grows at least by the factor 2 per bit *)
Lemma K_mono ls b d : 0 <= b -> 0 <= d -> 2 ^ d * K ls b <= K ls (b + d).
Proof.
  intros Hb Hd. revert d Hd. apply natlike_ind.
  - rewrite Z.add_0_r. change (2 ^ 0) with 1. lia.
  - intros d Hd IH. replace (b + Z.succ d) with (b + d + 1) by lia. rewrite K_succ by lia.
    rewrite Z.pow_succ_r by lia. pose proof (cnt_nonneg ls (b + d + 1)). lia.
Qed.

Lemma K_fits ls b : not_over ls -> 0 <= b <= 15 -> K ls b <= 2 ^ b.
Proof.
  intros Hn Hb. unfold not_over in Hn. rewrite kraft_K in Hn.
  pose proof (K_mono ls b (15 - b) ltac:(lia) ltac:(lia)) as H. replace (b + (15 - b)) with 15 in H by lia.
  assert (E : 2 ^ 15 = 2 ^ (15 - b) * 2 ^ b) by (rewrite <- Z.pow_add_r by lia; f_equal; lia).
  pose proof (pow2_pos (15 - b) ltac:(lia)). nia.
Qed.

(* the RFC's next_code in terms of K *)
Lemma next_code_K ls k : next_code ls (S k) = 2 * K ls (Z.of_nat k).
Proof.
  induction k as [|k IH].
  - cbn [next_code bl_count]. rewrite K_0. reflexivity.
  - change (next_code ls (S (S k))) with (2 * (next_code ls (S k) + bl_count ls (S k))).
    rewrite IH. cbn [bl_count]. rewrite Nat2Z.inj_succ. unfold Z.succ. rewrite K_succ by lia. reflexivity.
Qed.

Lemma next_code_K' ls l : 1 <= l -> next_code ls (Z.to_nat l) = 2 * K ls (l - 1).
Proof.
  intros Hl. replace (Z.to_nat l) with (S (Z.to_nat (l - 1))) by lia. rewrite next_code_K. rewrite Z2Nat.id by lia. reflexivity.
Qed.

Lemma next_code_end ls l : 1 <= l -> next_code ls (Z.to_nat l) + cnt ls l = K ls l.
Proof. intros Hl. rewrite next_code_K' by lia. replace l with (l - 1 + 1) at 2 3 by lia. rewrite K_succ by lia. reflexivity. Qed.

(* ---- the code values -------------------------------------------------------------------------------------------- *)
Lemma code_val_range ls sym : has_code ls sym ->
  let l := nth (Z.to_nat sym) ls 0 in
  next_code ls (Z.to_nat l) <= code_val ls sym < K ls l.
Proof.
  intros [Hs Hl] l. unfold code_val. fold l. pose proof (cnt_rank ls sym Hs) as Hr. fold l in Hr.
  pose proof (cnt_nonneg (firstn (Z.to_nat sym) ls) l). rewrite <- (next_code_end ls l) by (unfold l; lia). lia.
Qed.

Lemma code_val_nonneg ls sym : has_code ls sym -> 0 <= code_val ls sym.
Proof.
  intros H. pose proof (code_val_range ls sym H) as Hr. cbv zeta in Hr. destruct H as [Hs Hl].
  rewrite next_code_K' in Hr by lia. pose proof (K_nonneg ls (nth (Z.to_nat sym) ls 0 - 1)). lia.
Qed.

(* the codes fit into their number of bits *)
Theorem code_val_fits ls sym : not_over ls -> has_code ls sym ->
  0 <= code_val ls sym < 2 ^ nth (Z.to_nat sym) ls 0.
Proof.
  intros Hn H. split; [now apply code_val_nonneg|].
  pose proof (code_val_range ls sym H) as Hr. cbv zeta in Hr. destruct H as [Hs Hl].
  pose proof (K_fits ls (nth (Z.to_nat sym) ls 0) Hn ltac:(lia)). lia.
Qed.

(* seen with only j < l bits, a code of length l lies behind all codes of length <= j *)
Lemma code_val_above ls sym j : has_code ls sym -> 0 <= j < nth (Z.to_nat sym) ls 0 ->
  K ls j <= code_val ls sym / 2 ^ (nth (Z.to_nat sym) ls 0 - j).
Proof.
  intros H Hj. pose proof (code_val_range ls sym H) as Hr. cbv zeta in Hr. destruct H as [Hs Hl].
  set (l := nth (Z.to_nat sym) ls 0) in *.
  rewrite next_code_K' in Hr by lia.
  pose proof (K_mono ls j (l - 1 - j) ltac:(lia) ltac:(lia)) as Hm. replace (j + (l - 1 - j)) with (l - 1) in Hm by lia.
  apply Z.div_le_lower_bound; [apply pow2_pos; lia|].
  replace (l - j) with (Z.succ (l - 1 - j)) by lia. rewrite Z.pow_succ_r by lia. lia.
Qed.

(* ---- prefix code ------------------------------------------------------------------------------------------------- *)
Definition prefix (p q : list bool) : Prop := exists r, q = p ++ r.

Theorem canonical_prefix_free ls a b : not_over ls -> has_code ls a -> has_code ls b ->
  prefix (code_of ls a) (code_of ls b) -> a = b.
Proof.
  intros Hn Ha Hb [r E].
  pose proof (code_val_fits ls a Hn Ha) as Fa. pose proof (code_val_fits ls b Hn Hb) as Fb.
  pose proof (code_val_range ls a Ha) as Ra. pose proof (code_val_range ls b Hb) as Rb. cbv zeta in Ra, Rb.
  unfold code_of in E. pose proof Ha as [Ha1 Ha2]. pose proof Hb as [Hb1 Hb2].
  set (la := nth (Z.to_nat a) ls 0) in *. set (lb := nth (Z.to_nat b) ls 0) in *.
  assert (Hle : la <= lb).
  { apply (f_equal (@len bool)) in E. rewrite len_app, !code_bits_length in E by lia. pose proof (len_nonneg r). lia. }
  replace lb with (la + (lb - la)) in E by lia. rewrite code_bits_app in E by lia.
  apply app_inv_len in E; [|apply Nat2Z.inj; fold (len (code_bits la (code_val ls b / 2 ^ (lb - la)))); fold (len (code_bits la (code_val ls a))); rewrite !code_bits_length by lia; reflexivity].
  destruct E as [E _].
  assert (Hq : 0 <= code_val ls b / 2 ^ (lb - la) < 2 ^ la).
  { split; [apply Z.div_pos; [lia|apply pow2_pos; lia]|].
    apply Z.div_lt_upper_bound; [apply pow2_pos; lia|]. rewrite <- Z.pow_add_r by lia. replace (lb - la + la) with lb by lia. lia. }
  apply code_bits_inj in E; try lia.
  destruct (Z.eq_dec la lb) as [El|Hne].
  - (* same length: the ranks coincide *)
    rewrite El, Z.sub_diag in E. change (2 ^ 0) with 1 in E. rewrite Z.div_1_r in E.
    unfold code_val in E. fold la lb in E. rewrite El in E.
    destruct (Z.lt_trichotomy a b) as [Hlt|[He|Hgt]]; [|exact He|].
    + pose proof (cnt_rank_lt ls a b ltac:(lia) ltac:(lia) El) as Hr. fold la lb in Hr. rewrite El in Hr. lia.
    + pose proof (cnt_rank_lt ls b a ltac:(lia) ltac:(lia) (eq_sym El)) as Hr. fold la lb in Hr. rewrite El in Hr. lia.
  - (* a shorter: b's leading bits lie behind every code of a's length *)
    pose proof (code_val_above ls b la Hb ltac:(fold lb; lia)) as Hab. fold lb in Hab. lia.
Qed.

(* ---- lengths of code lengths ------------------------------------------------------------------------------------- *)
Lemma has_code_len ls sym : has_code ls sym -> 1 <= len (code_of ls sym) <= 15.
Proof. intros [Hs Hl]. unfold code_of. rewrite code_bits_length by lia. exact Hl. Qed.
