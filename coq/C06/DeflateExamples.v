(* The specification DeflateSpec.v relates real zlib output to its input: streams produced by zlib 1.x
   (python3 zlib.compress) with a fixed-code block (with and without matches) and with a dynamic block are
   shown to satisfy zlib_stream, and the model of sc_io_nonuncompress / sc_puff decodes them (by the theorem,
   and again by computation).  The derivations are found by tactics that compute the next token with an
   (unverified) helper parser; the kernel checks every constructor application. *)
From Coq Require Import ZArith List Bool Lia.
From ScV Require Import Base.CInt C06.Res C06.ResProofs C06.AdlerProofs C06.StoredProofs C07.PuffModel C07.DecodeModel
                        C06.DeflateSpec C06.DeflateCanon C06.DeflateCorrect.
Import ListNotations.
Local Open Scope Z_scope.

(* ---- helper functions (oracles for the tactics only) -------------------------------------------------------- *)
Fixpoint is_prefix (p q : list bool) : bool :=
  match p, q with
  | [], _ => true
  | a :: p', b :: q' => Bool.eqb a b && is_prefix p' q'
  | _, [] => false
  end.

Definition has_codeb (ls : list Z) (sym : Z) : bool :=
  (0 <=? sym) && (sym <? len ls) && (1 <=? nth (Z.to_nat sym) ls 0) && (nth (Z.to_nat sym) ls 0 <=? 15).

Lemma has_codeb_ok ls sym : has_codeb ls sym = true -> has_code ls sym.
Proof. unfold has_codeb, has_code. rewrite !andb_true_iff, !Z.leb_le, Z.ltb_lt. lia. Qed.

Fixpoint find_sym_from (ls : list Z) (bs : list bool) (sym : Z) (n : nat) : option Z :=
  match n with
  | O => None
  | S k => if has_codeb ls sym && is_prefix (code_of ls sym) bs then Some sym else find_sym_from ls bs (sym + 1) k
  end.
Definition find_sym (ls : list Z) (bs : list bool) : option Z := find_sym_from ls bs 0 (length ls).

Fixpoint val_bits (bs : list bool) : Z :=
  match bs with [] => 0 | b :: r => b2z b + 2 * val_bits r end.

Inductive token := TEnd | TLit (x : Z) (rest : list bool) | TMatch (i e j f : Z) (rest : list bool) | TBad.

Definition next_token (lit dist : list Z) (bs : list bool) : token :=
  match find_sym lit bs with
  | Some x =>
    let bs1 := skipn (length (code_of lit x)) bs in
    if x =? 256 then TEnd else if x <? 256 then TLit x bs1 else
    let i := x - 257 in
    let ne := Z.to_nat (len_extra i) in
    let bs2 := skipn ne bs1 in
    match find_sym dist bs2 with
    | Some j => let bs3 := skipn (length (code_of dist j)) bs2 in
                let nf := Z.to_nat (dist_extra j) in
                TMatch i (val_bits (firstn ne bs1)) j (val_bits (firstn nf bs3)) (skipn nf bs3)
    | None => TBad
    end
  | None => TBad
  end.

(* bits left behind the end-of-block symbol *)
Fixpoint parse_symbols (fuel : nat) (lit dist : list Z) (bs : list bool) : option (list bool) :=
  match fuel with
  | O => None
  | S f => match next_token lit dist bs with
           | TEnd => Some (skipn (length (code_of lit 256)) bs)
           | TLit _ r => parse_symbols f lit dist r
           | TMatch _ _ _ _ r => parse_symbols f lit dist r
           | TBad => None
           end
  end.

Inductive cltoken := CLen (v : Z) (rest : list bool) | CRep (e : Z) (rest : list bool) | CZ3 (e : Z) (rest : list bool)
                   | CZ11 (e : Z) (rest : list bool) | CBad.
Definition next_cl (cl : list Z) (bs : list bool) : cltoken :=
  match find_sym cl bs with
  | Some v =>
    let bs1 := skipn (length (code_of cl v)) bs in
    if v <? 16 then CLen v bs1
    else if v =? 16 then CRep (val_bits (firstn 2 bs1)) (skipn 2 bs1)
    else if v =? 17 then CZ3 (val_bits (firstn 3 bs1)) (skipn 3 bs1)
    else CZ11 (val_bits (firstn 7 bs1)) (skipn 7 bs1)
  | None => CBad
  end.
Fixpoint parse_cl (fuel : nat) (cl : list Z) (total : Z) (acc : list Z) (bs : list bool) : option (list Z * list bool) :=
  if len acc =? total then Some (acc, bs) else
  match fuel with
  | O => None
  | S f => match next_cl cl bs with
           | CLen v r => parse_cl f cl total (acc ++ [v]) r
           | CRep e r => parse_cl f cl total (acc ++ repeat (last acc 0) (Z.to_nat (3 + e))) r
           | CZ3 e r => parse_cl f cl total (acc ++ repeat 0 (Z.to_nat (3 + e))) r
           | CZ11 e r => parse_cl f cl total (acc ++ repeat 0 (Z.to_nat (11 + e))) r
           | CBad => None
           end
  end.

Fixpoint take3 (n : nat) (bs : list bool) : list Z :=
  match n with O => [] | S k => val_bits (firstn 3 bs) :: take3 k (skipn 3 bs) end.

(* ---- the constructors with their indices as equations ---------------------------------------------------------- *)
Lemma sy_end' lit dist o bs o' : has_codeb lit 256 = true -> bs = code_of lit 256 -> o' = o -> symbols lit dist o bs o'.
Proof. intros H -> ->. apply sy_end. now apply has_codeb_ok. Qed.

Lemma sy_lit' lit dist o x bs bs' o1 o' :
  ((0 <=? x) && (x <? 256) && has_codeb lit x) = true -> bs = code_of lit x ++ bs' -> o1 = o ++ [x] ->
  symbols lit dist o1 bs' o' -> symbols lit dist o bs o'.
Proof.
  rewrite !andb_true_iff, Z.leb_le, Z.ltb_lt. intros [[H1 H2] H3] -> -> Hs. apply sy_lit; auto. now apply has_codeb_ok.
Qed.

Lemma sy_match' lit dist o i e j f bs bs' o1 o' :
  ((0 <=? i) && (i <? 29) && has_codeb lit (257 + i) && (0 <=? e) && (e <? 2 ^ len_extra i) &&
   (0 <=? j) && (j <? 30) && has_codeb dist j && (0 <=? f) && (f <? 2 ^ dist_extra j) && (dist_base j + f <=? len o)) = true ->
  bs = code_of lit (257 + i) ++ bitsZ (len_extra i) e ++ code_of dist j ++ bitsZ (dist_extra j) f ++ bs' ->
  o1 = lz_copy (Z.to_nat (len_base i + e)) (Z.to_nat (dist_base j + f)) o ->
  symbols lit dist o1 bs' o' -> symbols lit dist o bs o'.
Proof.
  rewrite !andb_true_iff, !Z.leb_le, !Z.ltb_lt. intros H -> -> Hs.
  apply sy_match; try lia; try (apply has_codeb_ok; tauto). exact Hs.
Qed.

Lemma cl_done' cl total acc bs r : (len acc =? total) = true -> bs = [] -> r = acc -> cl_lengths cl total acc bs r.
Proof. intros H -> ->. apply cl_done. now apply Z.eqb_eq. Qed.

Lemma cl_len' cl total acc v bs bs' acc1 r :
  ((len acc <? total) && (0 <=? v) && (v <=? 15) && has_codeb cl v) = true -> bs = code_of cl v ++ bs' -> acc1 = acc ++ [v] ->
  cl_lengths cl total acc1 bs' r -> cl_lengths cl total acc bs r.
Proof.
  rewrite !andb_true_iff, !Z.leb_le, Z.ltb_lt. intros H -> -> Hs. apply cl_len; try lia; [apply has_codeb_ok; tauto|exact Hs].
Qed.

Lemma cl_rep' cl total acc e bs bs' acc1 r :
  ((len acc <? total) && (1 <=? len acc) && has_codeb cl 16 && (0 <=? e) && (e <? 4) && (len acc + (3 + e) <=? total)) = true ->
  bs = code_of cl 16 ++ bitsZ 2 e ++ bs' -> acc1 = acc ++ repeat (last acc 0) (Z.to_nat (3 + e)) ->
  cl_lengths cl total acc1 bs' r -> cl_lengths cl total acc bs r.
Proof.
  rewrite !andb_true_iff, !Z.leb_le, !Z.ltb_lt. intros H -> -> Hs. apply cl_rep; try lia; [|apply has_codeb_ok; tauto|exact Hs].
  intros ->. change (len (@nil Z)) with 0 in H. lia.
Qed.

Lemma cl_z3' cl total acc e bs bs' acc1 r :
  ((len acc <? total) && has_codeb cl 17 && (0 <=? e) && (e <? 8) && (len acc + (3 + e) <=? total)) = true ->
  bs = code_of cl 17 ++ bitsZ 3 e ++ bs' -> acc1 = acc ++ repeat 0 (Z.to_nat (3 + e)) ->
  cl_lengths cl total acc1 bs' r -> cl_lengths cl total acc bs r.
Proof.
  rewrite !andb_true_iff, !Z.leb_le, !Z.ltb_lt. intros H -> -> Hs. apply cl_z3; try lia; [apply has_codeb_ok; tauto|exact Hs].
Qed.

Lemma cl_z11' cl total acc e bs bs' acc1 r :
  ((len acc <? total) && has_codeb cl 18 && (0 <=? e) && (e <? 128) && (len acc + (11 + e) <=? total)) = true ->
  bs = code_of cl 18 ++ bitsZ 7 e ++ bs' -> acc1 = acc ++ repeat 0 (Z.to_nat (11 + e)) ->
  cl_lengths cl total acc1 bs' r -> cl_lengths cl total acc bs r.
Proof.
  rewrite !andb_true_iff, !Z.leb_le, !Z.ltb_lt. intros H -> -> Hs. apply cl_z11; try lia; [apply has_codeb_ok; tauto|exact Hs].
Qed.

Definition code_okb (ls : list Z) : bool :=
  forallb (fun l => (0 <=? l) && (l <=? 15)) ls &&
  ((kraft ls =? 2 ^ 15) || ((kraft ls <? 2 ^ 15) && forallb (fun l => (l =? 0) || (l =? 1)) ls)).

Lemma code_okb_ok ls : code_okb ls = true -> code_ok ls.
Proof.
  unfold code_okb, code_ok. rewrite andb_true_iff, orb_true_iff, andb_true_iff. intros [H1 H2]. split.
  - apply Forall_forall. intros x Hx. rewrite forallb_forall in H1. specialize (H1 x Hx).
    apply andb_true_iff in H1. destruct H1 as [A B]. apply Z.leb_le in A, B. lia.
  - destruct H2 as [H2|[H2 H3]]; [left; now apply Z.eqb_eq|right]. split; [now apply Z.ltb_lt|].
    apply Forall_forall. intros x Hx. rewrite forallb_forall in H3. specialize (H3 x Hx).
    apply orb_true_iff in H3. destruct H3 as [A|A]; apply Z.eqb_eq in A; auto.
Qed.

Lemma bk_dynamic' k o fin hlit hdist hclen vs lens bs bs1 bs2 o' :
  ((0 <=? hlit) && (hlit <=? 29) && (0 <=? hdist) && (hdist <=? 29) && (0 <=? hclen) && (hclen <=? 15) &&
   (len vs =? hclen + 4) && forallb (fun v => (0 <=? v) && (v <? 8)) vs && (kraft (cl_of vs) =? 2 ^ 15) &&
   code_okb (firstn (Z.to_nat (hlit + 257)) lens) && code_okb (skipn (Z.to_nat (hlit + 257)) lens)) = true ->
  bs = fin :: false :: true :: bitsZ 5 hlit ++ bitsZ 5 hdist ++ bitsZ 4 hclen ++ flat_map (bitsZ 3) vs ++ bs1 ++ bs2 ->
  cl_lengths (cl_of vs) (hlit + 257 + (hdist + 1)) [] bs1 lens ->
  symbols (firstn (Z.to_nat (hlit + 257)) lens) (skipn (Z.to_nat (hlit + 257)) lens) o bs2 o' ->
  block k o fin bs o'.
Proof.
  rewrite !andb_true_iff, !Z.leb_le, !Z.eqb_eq. intros H -> Hcl Hs.
  apply (bk_dynamic k o fin hlit hdist hclen vs lens bs1 bs2 o'); try lia; try tauto; try (apply code_okb_ok; tauto).
  apply Forall_forall. intros x Hx. destruct H as [[[[_ H] _] _] _]. rewrite forallb_forall in H. specialize (H x Hx).
  apply andb_true_iff in H. destruct H as [A B]. apply Z.leb_le in A. apply Z.ltb_lt in B. lia.
Qed.

Lemma bytesb_ok l : forallb (fun x => (0 <=? x) && (x <? 256)) l = true -> bytes l.
Proof.
  intros H. apply Forall_forall. intros x Hx. rewrite forallb_forall in H. specialize (H x Hx).
  apply andb_true_iff in H. destruct H as [A B]. apply Z.leb_le in A. apply Z.ltb_lt in B. unfold byte. lia.
Qed.

(* ---- tactics ------------------------------------------------------------------------------------------------------ *)
Ltac vmr := vm_compute; reflexivity.
(* the side conditions of nonuncompress_inflates on concrete data *)
Ltac side := first [ apply bytesb_ok; vmr | vmr | intros _; vm_compute; discriminate | discriminate ].

Ltac sym_steps :=
  repeat lazymatch goal with
  | |- symbols ?lit ?dist ?o ?bs ?o' =>
    let r := eval vm_compute in (next_token lit dist bs) in
    lazymatch r with
    | TEnd => apply sy_end'; vmr
    | TLit ?x ?bs' =>
      let o1 := eval vm_compute in (o ++ [x]) in
      apply (sy_lit' lit dist o x bs bs' o1 o'); [vmr|vmr|vmr|]
    | TMatch ?i ?e ?j ?f ?bs' =>
      let o1 := eval vm_compute in (lz_copy (Z.to_nat (len_base i + e)) (Z.to_nat (dist_base j + f)) o) in
      apply (sy_match' lit dist o i e j f bs bs' o1 o'); [vmr|vmr|vmr|]
    end
  end.

Ltac cl_steps :=
  repeat lazymatch goal with
  | |- cl_lengths ?cl ?total ?acc ?bs ?r =>
    let fin := eval vm_compute in (len acc =? total) in
    lazymatch fin with
    | true => apply cl_done'; vmr
    | false =>
      let t := eval vm_compute in (next_cl cl bs) in
      lazymatch t with
      | CLen ?v ?bs' => let a1 := eval vm_compute in (acc ++ [v]) in
                        apply (cl_len' cl total acc v bs bs' a1 r); [vmr|vmr|vmr|]
      | CRep ?e ?bs' => let a1 := eval vm_compute in (acc ++ repeat (last acc 0) (Z.to_nat (3 + e))) in
                        apply (cl_rep' cl total acc e bs bs' a1 r); [vmr|vmr|vmr|]
      | CZ3 ?e ?bs' => let a1 := eval vm_compute in (acc ++ repeat 0 (Z.to_nat (3 + e))) in
                       apply (cl_z3' cl total acc e bs bs' a1 r); [vmr|vmr|vmr|]
      | CZ11 ?e ?bs' => let a1 := eval vm_compute in (acc ++ repeat 0 (Z.to_nat (11 + e))) in
                        apply (cl_z11' cl total acc e bs bs' a1 r); [vmr|vmr|vmr|]
      end
    end
  end.

(* a stream that consists of one fixed-code block *)
Ltac fixed_stream body d :=
  let bits := eval vm_compute in (bytes_bits body) in
  let sb := eval vm_compute in (skipn 3 bits) in
  let rem := eval vm_compute in (parse_symbols 5000 fixed_lit fixed_dist sb) in
  lazymatch rem with
  | Some ?pad =>
    let bs := eval vm_compute in (firstn (length bits - length pad) bits) in
    exists bs, pad; split; [vmr|]; split; [vmr|];
    apply bs_last;
    lazymatch bs with
    | true :: true :: false :: ?syms => apply (bk_fixed 0 [] true syms d); sym_steps
    end
  end.

(* a stream that consists of one dynamic block *)
Ltac dynamic_stream body d :=
  let bits := eval vm_compute in (bytes_bits body) in
  let hlit := eval vm_compute in (val_bits (firstn 5 (skipn 3 bits))) in
  let hdist := eval vm_compute in (val_bits (firstn 5 (skipn 8 bits))) in
  let hclen := eval vm_compute in (val_bits (firstn 4 (skipn 13 bits))) in
  let vs := eval vm_compute in (take3 (Z.to_nat (hclen + 4)) (skipn 17 bits)) in
  let b1 := eval vm_compute in (skipn (17 + 3 * Z.to_nat (hclen + 4)) bits) in
  let pc := eval vm_compute in (parse_cl 400 (cl_of vs) (hlit + 257 + (hdist + 1)) [] b1) in
  lazymatch pc with
  | Some (?lens, ?b2) =>
    let bs1 := eval vm_compute in (firstn (length b1 - length b2) b1) in
    let rem := eval vm_compute in (parse_symbols 5000 (firstn (Z.to_nat (hlit + 257)) lens) (skipn (Z.to_nat (hlit + 257)) lens) b2) in
    lazymatch rem with
    | Some ?pad =>
      let bs := eval vm_compute in (firstn (length bits - length pad) bits) in
      let bs2 := eval vm_compute in (firstn (length b2 - length pad) b2) in
      exists bs, pad; split; [vmr|]; split; [vmr|];
      apply bs_last;
      apply (bk_dynamic' 0 [] true hlit hdist hclen vs lens bs bs1 bs2 d); [vmr|vmr|cl_steps|];
      let lit := eval vm_compute in (firstn (Z.to_nat (hlit + 257)) lens) in
      let dist := eval vm_compute in (skipn (Z.to_nat (hlit + 257)) lens) in
      change (symbols lit dist [] bs2 d); sym_steps
    end
  end.

Ltac zlib_example cmf flg body d tac :=
  exists cmf, flg, body; split; [vmr|]; split; [vmr|]; split; [vm_compute; discriminate|]; split; [vmr|]; split; [vmr|];
  tac body d.

(* ---- zlib.compress(b"aaaaaaaaaa", 6): fixed code, one literal, one overlapping match of length 9 ------------------- *)
Definition ex1_d : list Z := repeat 97 10.
Definition ex1_z : list Z := [120; 156; 75; 76; 132; 1; 0; 20; 225; 3; 203].

Example ex1_conforms : zlib_stream ex1_z ex1_d.
Proof. zlib_example 120 156 [75; 76; 132; 1; 0] ex1_d fixed_stream. Qed.

Example ex1_decoded : nonuncompress ex1_z (len ex1_d) 10 false = Ok ex1_d.
Proof. apply nonuncompress_inflates; [exact ex1_conforms|side|side|side|side|side]. Qed.
(* ---- zlib.compress(bytes(1000), 9): fixed code, matches of length 258 at distance 1 (overlapping) *)
Definition ex2_d : list Z := repeat 0 1000.
Definition ex2_z : list Z := [120; 218; 99; 96; 24; 5; 163; 96; 20; 12; 119; 0; 0; 3; 232; 0; 1].

Example ex2_conforms : zlib_stream ex2_z ex2_d.
Proof. zlib_example 120 218 [99; 96; 24; 5; 163; 96; 20; 12; 119; 0; 0] ex2_d fixed_stream. Qed.
Example ex2_decoded : nonuncompress ex2_z (len ex2_d) 1000 false = Ok ex2_d.
Proof. apply nonuncompress_inflates; [exact ex2_conforms|side|side|side|side|side]. Qed.

(* ---- zlib.compress(b"The quick brown fox jumps over the lazy dog. " * 8, 6): fixed code, literals and matches at distance 45 *)
Definition ex3_d : list Z := [84; 104; 101; 32; 113; 117; 105; 99; 107; 32; 98; 114; 111; 119; 110; 32; 102; 111; 120; 32; 106; 117; 109; 112; 115; 32; 111; 118; 101; 114; 32; 116; 104; 101; 32; 108; 97; 122; 121; 32; 100; 111; 103; 46; 32; 84; 104; 101; 32; 113; 117; 105; 99; 107; 32; 98; 114; 111; 119; 110; 32; 102; 111; 120; 32; 106; 117; 109; 112; 115; 32; 111; 118; 101; 114; 32; 116; 104; 101; 32; 108; 97; 122; 121; 32; 100; 111; 103; 46; 32; 84; 104; 101; 32; 113; 117; 105; 99; 107; 32; 98; 114; 111; 119; 110; 32; 102; 111; 120; 32; 106; 117; 109; 112; 115; 32; 111; 118; 101; 114; 32; 116; 104; 101; 32; 108; 97; 122; 121; 32; 100; 111; 103; 46; 32; 84; 104; 101; 32; 113; 117; 105; 99; 107; 32; 98; 114; 111; 119; 110; 32; 102; 111; 120; 32; 106; 117; 109; 112; 115; 32; 111; 118; 101; 114; 32; 116; 104; 101; 32; 108; 97; 122; 121; 32; 100; 111; 103; 46; 32; 84; 104; 101; 32; 113; 117; 105; 99; 107; 32; 98; 114; 111; 119; 110; 32; 102; 111; 120; 32; 106; 117; 109; 112; 115; 32; 111; 118; 101; 114; 32; 116; 104; 101; 32; 108; 97; 122; 121; 32; 100; 111; 103; 46; 32; 84; 104; 101; 32; 113; 117; 105; 99; 107; 32; 98; 114; 111; 119; 110; 32; 102; 111; 120; 32; 106; 117; 109; 112; 115; 32; 111; 118; 101; 114; 32; 116; 104; 101; 32; 108; 97; 122; 121; 32; 100; 111; 103; 46; 32; 84; 104; 101; 32; 113; 117; 105; 99; 107; 32; 98; 114; 111; 119; 110; 32; 102; 111; 120; 32; 106; 117; 109; 112; 115; 32; 111; 118; 101; 114; 32; 116; 104; 101; 32; 108; 97; 122; 121; 32; 100; 111; 103; 46; 32; 84; 104; 101; 32; 113; 117; 105; 99; 107; 32; 98; 114; 111; 119; 110; 32; 102; 111; 120; 32; 106; 117; 109; 112; 115; 32; 111; 118; 101; 114; 32; 116; 104; 101; 32; 108; 97; 122; 121; 32; 100; 111; 103; 46; 32].
Definition ex3_z : list Z := [120; 156; 11; 201; 72; 85; 40; 44; 205; 76; 206; 86; 72; 42; 202; 47; 207; 83; 72; 203; 175; 80; 200; 42; 205; 45; 40; 86; 200; 47; 75; 45; 82; 40; 1; 74; 231; 36; 86; 85; 42; 164; 228; 167; 235; 41; 132; 140; 42; 38; 87; 49; 0; 101; 49; 129; 57].
Example ex3_conforms : zlib_stream ex3_z ex3_d.
Proof. zlib_example 120 156 [11; 201; 72; 85; 40; 44; 205; 76; 206; 86; 72; 42; 202; 47; 207; 83; 72; 203; 175; 80; 200; 42; 205; 45; 40; 86; 200; 47; 75; 45; 82; 40; 1; 74; 231; 36; 86; 85; 42; 164; 228; 167; 235; 41; 132; 140; 42; 38; 87; 49; 0] ex3_d fixed_stream. Qed.
Example ex3_decoded : nonuncompress ex3_z (len ex3_d) 360 false = Ok ex3_d.
Proof. apply nonuncompress_inflates; [exact ex3_conforms|side|side|side|side|side]. Qed.

(* ---- zlib.compress(300 bytes over 'a'..'g', 9): one block with dynamic Huffman codes (run-length coded code lengths with 16/17/18) *)
Definition ex4_d : list Z := [97; 98; 99; 100; 101; 102; 97; 98; 99; 101; 102; 97; 99; 100; 102; 97; 99; 101; 103; 98; 100; 102; 97; 99; 102; 97; 99; 102; 97; 100; 103; 98; 101; 97; 100; 103; 99; 102; 98; 101; 97; 101; 97; 100; 97; 100; 97; 100; 97; 101; 97; 101; 98; 102; 99; 103; 100; 97; 102; 99; 103; 101; 98; 102; 100; 98; 102; 100; 98; 103; 100; 98; 103; 101; 100; 98; 103; 101; 99; 98; 103; 102; 100; 99; 98; 103; 102; 101; 100; 99; 98; 97; 103; 102; 101; 101; 100; 99; 99; 98; 98; 97; 97; 97; 97; 103; 103; 103; 103; 103; 103; 97; 97; 97; 97; 98; 98; 99; 99; 100; 101; 101; 102; 103; 97; 98; 99; 100; 101; 102; 103; 98; 99; 100; 102; 103; 98; 99; 101; 103; 98; 100; 101; 103; 98; 100; 103; 98; 100; 102; 98; 100; 102; 98; 101; 103; 99; 102; 97; 100; 103; 99; 102; 98; 101; 97; 101; 97; 100; 97; 100; 97; 100; 97; 101; 97; 101; 98; 102; 99; 103; 100; 97; 101; 98; 103; 100; 97; 102; 99; 97; 102; 99; 97; 102; 100; 98; 103; 101; 99; 97; 102; 100; 99; 97; 102; 101; 99; 98; 97; 102; 101; 100; 99; 98; 97; 103; 102; 101; 100; 99; 98; 98; 97; 97; 103; 103; 102; 102; 102; 102; 102; 101; 101; 101; 102; 102; 102; 102; 102; 103; 103; 97; 97; 98; 98; 99; 100; 101; 102; 103; 97; 98; 99; 100; 101; 102; 97; 98; 99; 101; 102; 97; 99; 100; 102; 97; 99; 101; 103; 98; 100; 102; 97; 99; 102; 97; 99; 102; 97; 100; 103; 98; 101; 97; 100; 103; 99; 102; 98; 101; 97; 101; 97; 100; 97; 100; 97; 100; 97].
Definition ex4_z : list Z := [120; 218; 149; 143; 187; 17; 196; 64; 8; 67; 107; 69; 32; 212; 127; 7; 150; 240; 140; 163; 75; 142; 213; 135; 236; 177; 133; 30; 110; 161; 29; 61; 54; 133; 212; 105; 4; 58; 122; 93; 94; 238; 121; 195; 182; 166; 28; 222; 38; 146; 197; 184; 161; 157; 4; 157; 229; 114; 55; 80; 30; 221; 100; 3; 218; 76; 174; 234; 216; 114; 38; 2; 142; 195; 143; 168; 187; 224; 55; 156; 184; 11; 78; 7; 118; 217; 62; 160; 62; 246; 28; 89; 218; 12; 13; 204; 228; 4; 188; 220; 250; 247; 235; 15; 205; 2; 117; 3].
Example ex4_conforms : zlib_stream ex4_z ex4_d.
Proof. zlib_example 120 218 [149; 143; 187; 17; 196; 64; 8; 67; 107; 69; 32; 212; 127; 7; 150; 240; 140; 163; 75; 142; 213; 135; 236; 177; 133; 30; 110; 161; 29; 61; 54; 133; 212; 105; 4; 58; 122; 93; 94; 238; 121; 195; 182; 166; 28; 222; 38; 146; 197; 184; 161; 157; 4; 157; 229; 114; 55; 80; 30; 221; 100; 3; 218; 76; 174; 234; 216; 114; 38; 2; 142; 195; 143; 168; 187; 224; 55; 156; 184; 11; 78; 7; 118; 217; 62; 160; 62; 246; 28; 89; 218; 12; 13; 204; 228; 4; 188; 220; 250; 247; 235; 15] ex4_d dynamic_stream. Qed.
Example ex4_decoded : nonuncompress ex4_z (len ex4_d) 300 false = Ok ex4_d.
Proof. apply nonuncompress_inflates; [exact ex4_conforms|side|side|side|side|side]. Qed.

(* ---- zlib.compress(b"abcabcabcabc", 0): a stored block ------------------------------------------------------------- *)
Definition ex0_d : list Z := [97; 98; 99; 97; 98; 99; 97; 98; 99; 97; 98; 99].
Definition ex0_z : list Z := [120; 1; 1; 12; 0; 243; 255; 97; 98; 99; 97; 98; 99; 97; 98; 99; 97; 98; 99; 29; 224; 4; 153].

Example ex0_conforms : zlib_stream ex0_z ex0_d.
Proof.
  exists 120, 1, [1; 12; 0; 243; 255; 97; 98; 99; 97; 98; 99; 97; 98; 99; 97; 98; 99].
  split; [vmr|]. split; [vmr|]. split; [vm_compute; discriminate|]. split; [vmr|]. split; [vmr|].
  exists (bytes_bits [1; 12; 0; 243; 255; 97; 98; 99; 97; 98; 99; 97; 98; 99; 97; 98; 99]), [].
  split; [now rewrite app_nil_r|]. split; [vmr|]. apply bs_last.
  apply (bk_stored 0 [] true [false; false; false; false; false] 12 0 ex0_d); try vmr; try (unfold byte; lia).
  apply bytesb_ok. vmr.
Qed.

Example ex0_decoded : nonuncompress ex0_z (len ex0_d) 12 false = Ok ex0_d.
Proof. apply nonuncompress_inflates; [exact ex0_conforms|side|side|side|side|side]. Qed.
