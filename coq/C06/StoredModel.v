(* sc_io.c without zlib: adler32 with deferred reduction, the stored-block deflate writer
   sc_io_noncompress.  Definitions only.  (The reader sc_io_nonuncompress calls sc_puff and lives in
   C07/DecodeModel.v.) *)
From Coq Require Import ZArith List Bool.
From ScV Require Import Base.CInt Gen.Codec C06.Res.
Import ListNotations.
Local Open Scope Z_scope.

(* ---- sc_io_adler32_update: list version of the generated loop ------------------------------- *)
(* state of the loop: (cn, s1, s2) *)
Definition adler_step (st : Z * Z * Z) (x : Z) : Z * Z * Z :=
  let '(cn, s1, s2) := st in
  let '(cn1, s1a, s2a) := if cn =? 5000 then (0, s1 mod 65521, s2 mod 65521) else (cn, s1, s2) in
  let s1b := u32 (s1a + x) in
  let s2b := u32 (s2a + s1b) in
  (s16 (cn1 + 1), s1b, s2b).

Definition adler_update (adler : Z) (buf : list Z) : Z :=
  let s1 := Z.land adler 65535 in
  let s2 := shr adler 16 in
  let '(_, s1', s2') := fold_left adler_step buf (0, s1, s2) in
  u32 (u32 (shl (s2' mod 65521) 16) + s1' mod 65521).

Definition adler_init : Z := 1.

(* ---- sc_io_noncompress ---------------------------------------------------------------------- *)
Definition NONCOMP_BLOCK : Z := 65531.

(* one iteration of the do-while loop; returns the bytes written and the state for the next one *)
Definition noncompress_block (src : list Z) (src_size adler : Z) : list Z * list Z * Z * Z :=
  let last := negb (NONCOMP_BLOCK <? src_size) in
  let bsize := if last then u16 src_size else NONCOMP_BLOCK in
  let nsize := u16 (Z.lnot bsize) in
  let blk := firstn (Z.to_nat bsize) src in
  let hdr := [ (if last then 1 else 0); Z.land bsize 255; shr bsize 8; Z.land nsize 255; shr nsize 8 ] in
  (hdr ++ blk, skipn (Z.to_nat bsize) src, src_size - bsize, adler_update adler blk).

Fixpoint noncompress_loop (fuel : nat) (src : list Z) (src_size adler : Z) : list Z * Z :=
  match fuel with
  | O => ([], adler)
  | S f => let '(o, src', size', adler') := noncompress_block src src_size adler in
           if 0 <? size' then let '(o2, a2) := noncompress_loop f src' size' adler' in (o ++ o2, a2)
           else (o, adler')
  end.

Definition be4 (a : Z) : list Z :=
  [ u8 (shr a 24); Z.land (shr a 16) 255; Z.land (shr a 8) 255; Z.land a 255 ].

Definition noncompress (src : list Z) : list Z :=
  let n := len src in
  let '(o, a) := noncompress_loop (S (Z.to_nat (n / NONCOMP_BLOCK))) src n adler_init in
  [120; 1] ++ o ++ be4 a.
