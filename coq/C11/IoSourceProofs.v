(* C11 - proofs about sources: reads in order for every sizing, end signalling, skipping, alignment,
   completion, the mirror, and file save/load. *)
From Coq Require Import ZArith List Bool Lia.
From ScV Require Import Base.CInt C11.IoModel C11.IoLists C11.IoSinkProofs.
Import ListNotations.
Local Open Scope Z_scope.
Ltac Zify.zify_post_hook ::= Z.div_mod_to_equations.

Ltac splits := repeat match goal with |- _ /\ _ => split end.

Ltac crush :=
  repeat (match goal with
          | |- _ /\ _ => split
          | |- _ -> _ => intro
          | H : _ /\ _ |- _ => destruct H
          | H : _ \/ _ |- _ => destruct H
          end);
  try solve [reflexivity | assumption | lia | discriminate | congruence | exact I | auto].

(* ---- well-formed sources ------------------------------------------------------------------ *)
Definition mirror_wf (m : option sink) : Prop :=
  match m with
  | Some ms => sink_wf ms /\ exists b, k_dev ms = DBuf b /\ a_view b = false /\ a_esz b = 1 /\ a_cnt b = k_bb ms
  | None => True
  end.

Definition source_wf (s : source) : Prop :=
  mirror_wf (r_mir s) /\
  match r_dev s with
  | RBuf a => 0 < a_esz a /\ 0 <= r_bb s <= a_cnt a * a_esz a /\ a_cnt a * a_esz a <= len (a_mem a) /\ r_mir s = None
  | RFile _ _ pos => 0 <= pos
  end.

(* once the end has been registered nothing is left (holds along every fault-free history that
   does not enlarge the backing array behind the source's back) *)
Definition eof_ok (s : source) : Prop := r_eof s = true -> source_rest s = [].

Definition is_file (s : source) : Prop := match r_dev s with RFile _ _ _ => True | RBuf _ => False end.

Lemma rest_len_buf s a : r_dev s = RBuf a -> source_wf s -> len (source_rest s) = a_cnt a * a_esz a - r_bb s.
Proof.
  intros Hd (_ & Hw). rewrite Hd in Hw. destruct Hw as (He & Hb & Hc & _).
  unfold source_rest, source_stored, source_pos. rewrite Hd.
  rewrite len_drop, len_take. lia.
Qed.

Lemma rest_len_file s nm f pos : r_dev s = RFile nm f pos -> source_wf s ->
  len (source_rest s) = Z.max 0 (len f - pos).
Proof.
  intros Hd (_ & Hw). rewrite Hd in Hw.
  unfold source_rest, source_stored, source_pos. rewrite Hd. rewrite len_drop. lia.
Qed.

(* what a fault-free call with a data buffer copies out: the next k bytes *)
Definition next_k (s : source) (n : Z) : Z := Z.min n (len (source_rest s)).

(* the mirror after one more delivered piece *)
Definition mirror_plus (m : option sink) (got : list Z) (m' : option sink) : Prop :=
  match m, m' with
  | Some ms, Some ms' => sink_content ms' = sink_content ms ++ got
  | None, None => True
  | _, _ => False
  end.

Lemma mirror_write junk ms got :
  mirror_wf (Some ms) ->
  let r := sink_write junk ms got None in
  snd r = E_NONE /\ mirror_wf (Some (fst r)) /\ sink_content (fst r) = sink_content ms ++ got.
Proof.
  intros (Hw & b & Hb & Hv & He & Hc).
  assert (Hg : growable ms) by (unfold growable; rewrite Hb; assumption).
  pose proof (sink_write_growable junk ms got Hw Hg) as H. simpl in H.
  destruct H as (Hrc & Hw' & Hg' & Hcont & _ & _ & _ & Hbb).
  simpl. split; [assumption|]. split; [|assumption].
  split; [assumption|].
  specialize (Hbb b Hb).
  revert Hrc Hbb Hg'. unfold sink_write, growable. rewrite Hb.
  destruct (len got =? 0) eqn:Hn.
  - simpl. intros _ _ _. rewrite Hb. eauto.
  - destruct (negb (arr_fits _)); simpl; [discriminate|].
    destruct (put _ _ _); simpl; [|discriminate].
    intros _ Hbb Hv'. eexists; split; [reflexivity|]. simpl.
    split; [assumption|]. split; [assumption|].
    rewrite He. unfold arr_resize. rewrite Hv.
    assert (Hpos : 0 < len got) by (pose proof (len_nonneg got); lia).
    unfold sink_wf in Hw. rewrite Hb in Hw.
    replace ((k_bb ms + len got + 1 - 1) / 1) with (k_bb ms + len got) by (rewrite Z.div_1_r; lia).
    destruct (k_bb ms + len got =? 0) eqn:Z0; simpl; lia.
Qed.

(* ---- the central statement about one fault-free read that copies into a caller's buffer ----- *)
Theorem source_read_data junk s n u wc :
  source_wf s -> eof_ok s -> 0 <= n -> len u = n ->
  let k := next_k s n in
  let '(s', rc, cnt, data') := source_read junk s n (Some u) wc NoFault in
  data' = Some (take k (source_rest s) ++ drop k u) /\
  source_wf s' /\ eof_ok s' /\ source_stored s' = source_stored s /\
  mirror_plus (r_mir s) (take k (source_rest s)) (r_mir s') /\
  (k < n -> source_rest s' = []) /\
  ((wc = true \/ k = n) ->
     rc = E_NONE /\ cnt = (if wc then Some k else None) /\
     source_rest s' = drop k (source_rest s) /\
     r_in s' = r_in s + k /\ r_out s' = r_out s + k) /\
  ((wc = false /\ k < n) -> rc = E_FATAL /\ cnt = None /\ r_in s' = r_in s /\ r_out s' = r_out s).
Proof.
  intros Hw He Hn Hu. unfold next_k. simpl.
  unfold source_read.
  destruct ((n =? 0) || r_eof s) eqn:Hq.
  - (* nothing asked or the end is registered: a no-op; it succeeds unless an exact request
       (no count pointer) of n > 0 bytes is made, which is FATAL (repair 103c295) *)
    assert (Hk : Z.min n (len (source_rest s)) = 0).
    { apply orb_true_iff in Hq. destruct Hq as [Hq|Hq]; [pose proof (len_nonneg (source_rest s)); lia|].
      rewrite (He Hq). unfold len; simpl; lia. }
    assert (Hend : 0 < n -> source_rest s = []).
    { intros Hlt. apply orb_true_iff in Hq. destruct Hq as [Hq|Hq]; [lia|]. exact (He Hq). }
    rewrite Hk. rewrite take_nonpos by lia. rewrite drop_nonpos by lia.
    assert (Hmp : mirror_plus (r_mir s) [] (r_mir s)).
    { unfold mirror_plus. destruct (r_mir s); [rewrite app_nil_r|]; auto. }
    destruct wc; [|destruct (0 <? n) eqn:Hpos]; cbn [app];
      (split; [reflexivity|]; split; [assumption|]; split; [assumption|]; split; [reflexivity|];
       split; [assumption|]; split; [assumption|]); rewrite ?drop_nonpos by lia.
    + split; [intros _; repeat split; lia|]. intros (Hwc & _). discriminate.
    + apply Z.ltb_lt in Hpos. split; [intros [H|H]; [discriminate|lia]|]. intros _. repeat split; reflexivity.
    + apply Z.ltb_ge in Hpos. split; [intros _; repeat split; lia|]. intros (_ & Hlt). lia.
  - apply orb_false_iff in Hq. destruct Hq as [Hn0 Heof]. apply Z.eqb_neq in Hn0.
    destruct (r_dev s) as [a | nm f pos] eqn:Hd.
    + (* array *)
      pose proof (rest_len_buf s a Hd Hw) as Hrl.
      destruct Hw as (Hmw & Hw). rewrite Hd in Hw. destruct Hw as (Hes & Hb & Hc & Hmir).
      set (total := a_cnt a * a_esz a) in *.
      replace (total <? r_bb s) with false by (symmetry; apply Z.ltb_ge; lia).
      destruct (total - r_bb s =? 0) eqn:Hav.
      * (* at the end: register it *)
        apply Z.eqb_eq in Hav.
        assert (Hrest : source_rest s = []) by (apply len_zero_nil; lia).
        rewrite Hrest. change (len (@nil Z)) with 0. replace (Z.min n 0) with 0 by lia.
        rewrite take_nonpos by lia. rewrite drop_nonpos by lia.
        unfold read_finish. simpl negb at 1.
        replace (0 <? n) with true by (symmetry; apply Z.ltb_lt; lia).
        unfold source_rest, source_stored, source_pos in Hrest. rewrite Hd in Hrest.
        destruct wc; simpl;
          unfold source_wf, eof_ok, source_rest, source_stored, source_pos; simpl; rewrite Hd;
          rewrite Hmir, ?Hrest; simpl; crush.
      * apply Z.eqb_neq in Hav.
        set (k := Z.min (total - r_bb s) n).
        assert (Hk : Z.min n (len (source_rest s)) = k) by (subst k; lia).
        rewrite Hk.
        assert (Hgot : take k (drop (r_bb s) (a_mem a)) = take k (source_rest s)).
        { unfold source_rest, source_stored, source_pos. rewrite Hd. fold total.
          rewrite drop_take by lia. rewrite take_take. f_equal. subst k; lia. }
        rewrite Hgot.
        unfold read_finish. simpl negb at 1. cbv iota.
        assert (Hrest' : drop (r_bb s + k) (take total (a_mem a)) = drop k (source_rest s)).
        { unfold source_rest, source_stored, source_pos. rewrite Hd. fold total.
          rewrite drop_drop by (subst k; lia). f_equal; lia. }
        destruct (negb wc && (k <? n)) eqn:Hshort.
        -- apply andb_true_iff in Hshort. destruct Hshort as [Hwc Hlt]. apply Z.ltb_lt in Hlt.
           destruct wc; [discriminate|].
           unfold source_wf, eof_ok, source_rest, source_stored, source_pos; simpl. rewrite Hd. fold total.
           rewrite Hmir. simpl.
           split; [reflexivity|]. split; [repeat split; auto; subst k; lia|].
           split; [intros; congruence|]. split; [reflexivity|]. split; [exact I|].
           split. { intros _. rewrite Hrest'. apply drop_all. subst k; lia. }
           split; [intros [H|H]; [discriminate|lia]|]. intros _. auto.
        -- unfold source_wf, eof_ok, source_rest, source_stored, source_pos; simpl. rewrite Hd. fold total.
           rewrite Hmir. simpl.
           split; [reflexivity|]. split; [repeat split; auto; subst k; lia|].
           split; [intros; congruence|]. split; [reflexivity|]. split; [exact I|].
           split. { intros Hlt. rewrite Hrest'. apply drop_all. subst k; lia. }
           split. { intros _. rewrite Hrest'. unfold source_rest, source_stored, source_pos. rewrite Hd. repeat split; reflexivity. }
           intros (Hwc & Hlt). subst wc. simpl in Hshort. apply Z.ltb_ge in Hshort. lia.
    + (* file *)
      pose proof (rest_len_file s nm f pos Hd Hw) as Hrl.
      destruct Hw as (Hmw & Hw). rewrite Hd in Hw.
      set (k := Z.min n (Z.max 0 (len f - pos))).
      assert (Hk : Z.min n (len (source_rest s)) = k) by (subst k; lia).
      rewrite Hk.
      assert (Hgot : take k (drop pos f) = take k (source_rest s)).
      { unfold source_rest, source_stored, source_pos. rewrite Hd. reflexivity. }
      assert (Hrest' : drop (pos + k) f = drop k (source_rest s)).
      { unfold source_rest, source_stored, source_pos. rewrite Hd. rewrite drop_drop by (subst k; lia). f_equal; lia. }
      assert (Hend : k < n -> drop (pos + k) f = []).
      { intros Hlt. apply drop_all. subst k. lia. }
      (* the mirror part *)
      assert (Hmirror : forall b : bool,
        let '(mir', retval') :=
          (if b then (r_mir s, true)
           else match r_mir s with
                | Some ms => let '(ms', rc) := sink_write junk ms (take k (drop pos f)) None in (Some ms', negb (rc =? 0))
                | None => (None, false)
                end) in
        b = false -> retval' = false /\ mirror_wf mir' /\ mirror_plus (r_mir s) (take k (source_rest s)) mir').
      { intros b. destruct b; [intros; discriminate|].
        destruct (r_mir s) as [ms|] eqn:Hm.
        - pose proof (mirror_write junk ms (take k (drop pos f)) Hmw) as H. simpl in H.
          destruct (sink_write junk ms (take k (drop pos f)) None) as [ms' rc]. simpl in H.
          destruct H as (Hrc & Hmw' & Hc). intros _. rewrite Hrc. simpl.
          split; [reflexivity|]. split; [assumption|]. rewrite <- Hgot. assumption.
        - intros _. simpl. auto. }
      destruct (k <? n) eqn:Hlt.
      * apply Z.ltb_lt in Hlt. simpl negb. simpl orb. cbv iota.
        specialize (Hmirror false).
        destruct (match r_mir s with
                  | Some ms => let '(ms', rc) := sink_write junk ms (take k (drop pos f)) None in (Some ms', negb (rc =? 0))
                  | None => (None, false)
                  end) as [mir' retval'].
        destruct (Hmirror eq_refl) as (-> & Hmw' & Hmp).
        unfold read_finish. cbv iota.
        replace (k <? n) with true by (symmetry; apply Z.ltb_lt; lia).
        rewrite <- Hgot in Hmp. specialize (Hend Hlt).
        unfold source_rest, source_stored, source_pos in Hrest'. rewrite Hd in Hrest'.
        destruct wc; simpl;
          unfold source_wf, eof_ok, source_rest, source_stored, source_pos; simpl; rewrite Hd; crush.
      * apply Z.ltb_ge in Hlt. cbv iota.
        specialize (Hmirror false).
        destruct (match r_mir s with
                  | Some ms => let '(ms', rc) := sink_write junk ms (take k (drop pos f)) None in (Some ms', negb (rc =? 0))
                  | None => (None, false)
                  end) as [mir' retval'].
        destruct (Hmirror eq_refl) as (-> & Hmw' & Hmp).
        unfold read_finish. cbv iota.
        replace (k <? n) with false by (symmetry; apply Z.ltb_ge; lia).
        rewrite andb_false_r.
        rewrite <- Hgot in Hmp.
        unfold source_rest, source_stored, source_pos in Hrest'. rewrite Hd in Hrest'.
        unfold source_wf, eof_ok, source_rest, source_stored, source_pos; simpl; rewrite Hd; crush.
Qed.

(* ---- skipping: data == NULL ------------------------------------------------------------------ *)
(* in the array branch the data pointer matters for the memcpy only *)
Lemma source_read_buffer_nodata junk s a n u wc flt :
  r_dev s = RBuf a ->
  source_read junk s n None wc flt =
  let '(s', rc, cnt, _) := source_read junk s n (Some u) wc flt in (s', rc, cnt, None).
Proof.
  intros Hd. unfold source_read. rewrite Hd.
  destruct ((n =? 0) || r_eof s); [destruct wc; [|destruct (0 <? n)]; reflexivity|].
  destruct (if a_cnt a * a_esz a <? r_bb s then 0 else a_cnt a * a_esz a - r_bb s) eqn:E; simpl;
    unfold read_finish; simpl;
    repeat match goal with |- context [if ?c then _ else _] => destruct c; simpl end; reflexivity.
Qed.

Theorem source_skip_buffer junk s a n wc :
  r_dev s = RBuf a -> source_wf s -> eof_ok s -> 0 <= n ->
  let k := next_k s n in
  let '(s', rc, cnt, data') := source_read junk s n None wc NoFault in
  data' = None /\ source_wf s' /\ eof_ok s' /\ source_stored s' = source_stored s /\
  (k < n -> source_rest s' = []) /\
  ((wc = true \/ k = n) ->
     rc = E_NONE /\ cnt = (if wc then Some k else None) /\
     source_rest s' = drop k (source_rest s) /\
     r_in s' = r_in s + k /\ r_out s' = r_out s + k) /\
  ((wc = false /\ k < n) -> rc = E_FATAL /\ cnt = None /\ r_in s' = r_in s /\ r_out s' = r_out s).
Proof.
  intros Hd Hw He Hn.
  pose proof (source_read_data junk s n (repeat 0 (Z.to_nat n)) wc Hw He Hn ltac:(rewrite len_repeat; lia)) as H.
  simpl in *. rewrite (source_read_buffer_nodata junk s a n (repeat 0 (Z.to_nat n)) wc NoFault Hd).
  destruct (source_read junk s n (Some (repeat 0 (Z.to_nat n))) wc NoFault) as [[[s' rc] cnt] data'].
  destruct H as (_ & H). split; [reflexivity|]. tauto.
Qed.

(* files: a seek; the end is not examined ("check for potential end of file next time").  Once the
   end has been registered by an earlier read the call is a no-op: a counted skip reports 0, an
   exact skip (no count pointer) of n > 0 bytes is FATAL (repair 103c295). *)
Theorem source_skip_file junk s nm f pos n wc :
  r_dev s = RFile nm f pos -> source_wf s -> eof_ok s -> 0 <= n ->
  let '(s', rc, cnt, data') := source_read junk s n None wc NoFault in
  data' = None /\ source_wf s' /\ eof_ok s' /\ source_stored s' = source_stored s /\ r_mir s' = r_mir s /\
  rc = (if r_eof s && negb wc && (0 <? n) then E_FATAL else E_NONE) /\
  let k := if r_eof s then 0 else n in
  cnt = (if wc then Some k else None) /\
  source_rest s' = drop k (source_rest s) /\ source_pos s' = source_pos s + k /\
  r_in s' = r_in s + k /\ r_out s' = r_out s + k /\
  (r_eof s = true -> s' = s).
Proof.
  intros Hd Hw He Hn. unfold source_read. rewrite Hd.
  destruct (n =? 0) eqn:Hn0; simpl orb.
  - apply Z.eqb_eq in Hn0. subst n. rewrite andb_false_r.
    replace (if r_eof s then 0 else 0) with 0 by (destruct (r_eof s); reflexivity).
    rewrite drop_nonpos by lia. destruct wc; simpl; crush.
  - apply Z.eqb_neq in Hn0. assert (Hpos : (0 <? n) = true) by (apply Z.ltb_lt; lia). rewrite Hpos.
    destruct (r_eof s) eqn:Heof.
    + rewrite drop_nonpos by lia. destruct wc; simpl; crush.
    + unfold read_finish. cbv iota. rewrite Z.ltb_irrefl, andb_false_r.
      destruct Hw as (Hmw & Hw). rewrite Hd in Hw.
      unfold source_wf, eof_ok, source_rest, source_stored, source_pos; simpl; rewrite Hd.
      split; [reflexivity|]. split; [split; [assumption|lia]|].
      split; [intros; congruence|].
      rewrite drop_drop by lia. rewrite (Z.add_comm n pos). crush.
Qed.

(* ---- alignment -------------------------------------------------------------------------------- *)
(* the padding is skipped; once the end has been registered, an align that needs padding is FATAL
   and leaves the source as it is (sc_io_source_align is an exact skip: repair 103c295) *)
Theorem source_align_file junk s nm f pos al :
  r_dev s = RFile nm f pos -> source_wf s -> eof_ok s -> 0 < al -> 0 <= r_out s ->
  let pad := (al - r_out s mod al) mod al in
  let '(s', rc) := source_align junk s al NoFault in
  0 <= pad < al /\
  ((r_eof s = false \/ pad = 0) ->
     rc = E_NONE /\ source_pos s' = source_pos s + pad /\
     source_rest s' = drop pad (source_rest s) /\
     r_out s' = r_out s + pad /\ r_in s' = r_in s + pad /\ r_out s' mod al = 0) /\
  ((r_eof s = true /\ 0 < pad) -> rc = E_FATAL /\ s' = s) /\
  source_wf s' /\ eof_ok s' /\ r_mir s' = r_mir s.
Proof.
  intros Hd Hw He Hal Hout. simpl. unfold source_align. fold (align_fill (r_out s) al).
  pose proof (align_fill_range (r_out s) al Hal) as Hr.
  pose proof (source_skip_file junk s nm f pos (align_fill (r_out s) al) false Hd Hw He ltac:(lia)) as H.
  destruct (source_read junk s (align_fill (r_out s) al) None false NoFault) as [[[s' rc] cnt] data'].
  simpl in H.
  destruct H as (_ & Hw' & He' & _ & Hm & Hrc & _ & Hrest & Hpos & Hi & Ho & Hsame).
  split; [assumption|]. split; [|split; [|auto]].
  - intros Hg.
    assert (Hk : (if r_eof s then 0 else align_fill (r_out s) al) = align_fill (r_out s) al).
    { destruct Hg as [Hg|Hg]; [rewrite Hg; reflexivity|rewrite Hg; destruct (r_eof s); reflexivity]. }
    rewrite Hk in *.
    assert (Hrc' : rc = E_NONE).
    { rewrite Hrc. destruct Hg as [Hg|Hg]; [rewrite Hg; reflexivity|].
      rewrite Hg. simpl. rewrite andb_false_r. reflexivity. }
    splits; try assumption. rewrite Ho. apply align_fill_aligns; assumption.
  - intros (Heof & Hp). split; [|exact (Hsame Heof)].
    rewrite Hrc, Heof. replace (0 <? align_fill (r_out s) al) with true by (symmetry; apply Z.ltb_lt; assumption).
    reflexivity.
Qed.

Theorem source_align_buffer junk s a al :
  r_dev s = RBuf a -> source_wf s -> eof_ok s -> 0 < al -> 0 <= r_out s ->
  let pad := (al - r_out s mod al) mod al in
  let '(s', rc) := source_align junk s al NoFault in
  0 <= pad < al /\
  (pad <= len (source_rest s) ->
     rc = E_NONE /\ source_rest s' = drop pad (source_rest s) /\
     r_out s' = r_out s + pad /\ r_in s' = r_in s + pad /\ r_out s' mod al = 0) /\
  (len (source_rest s) < pad -> rc = E_FATAL /\ r_out s' = r_out s /\ r_in s' = r_in s) /\
  source_wf s' /\ eof_ok s'.
Proof.
  intros Hd Hw He Hal Hout. simpl. unfold source_align. fold (align_fill (r_out s) al).
  pose proof (align_fill_range (r_out s) al Hal) as Hr.
  pose proof (source_skip_buffer junk s a (align_fill (r_out s) al) false Hd Hw He ltac:(lia)) as H.
  unfold next_k in H. simpl in H.
  destruct (source_read junk s (align_fill (r_out s) al) None false NoFault) as [[[s' rc] cnt] data'].
  destruct H as (_ & Hw' & He' & _ & _ & Hok & Hbad).
  split; [assumption|]. split.
  - intros Hle. replace (Z.min (align_fill (r_out s) al) (len (source_rest s))) with (align_fill (r_out s) al) in Hok by lia.
    destruct (Hok (or_intror eq_refl)) as (Hrc & _ & Hrest & Hi & Ho).
    splits; try assumption. rewrite Ho. apply align_fill_aligns; assumption.
  - split; [|split; assumption].
    intros Hlt.
    assert (Hm : Z.min (align_fill (r_out s) al) (len (source_rest s)) < align_fill (r_out s) al) by lia.
    destruct (Hbad (conj eq_refl Hm)) as (Hrc & _ & Hi & Ho). auto.
Qed.

(* ---- completion -------------------------------------------------------------------------------- *)
Theorem source_complete_spec s :
  source_wf s ->
  let '(s', rc, rep) := source_complete s in
  match r_dev s with
  | RBuf a => (rc = E_AGAIN <-> r_bb s mod a_esz a <> 0) /\
              (rc = E_AGAIN -> s' = s /\ rep = None)
  | RFile _ _ _ => rc = E_NONE
  end /\
  (rc <> E_AGAIN -> rc = E_NONE /\ rep = Some (r_in s, r_out s) /\ r_in s' = 0 /\ r_out s' = 0 /\
                    source_rest s' = source_rest s /\ r_eof s' = r_eof s /\
                    mirror_content s' = mirror_content s /\ source_wf s').
Proof.
  intros Hw. unfold source_complete.
  destruct (r_dev s) as [a|nm f pos] eqn:Hd.
  - destruct (r_bb s mod a_esz a =? 0) eqn:E; simpl.
    + apply Z.eqb_eq in E. split; [split; [split; [discriminate|lia]|discriminate]|].
      intros _. unfold source_rest, source_stored, source_pos, mirror_content, source_wf in *; simpl; rewrite Hd in *.
      crush.
    + apply Z.eqb_neq in E. split; [split; [split; auto|auto]|]. intros H; exfalso; apply H; reflexivity.
  - destruct Hw as (Hmw & Hw). rewrite Hd in Hw.
    destruct (r_mir s) as [ms|] eqn:Hm.
    + destruct Hmw as (Hsw & b & Hb & Hv & He & Hc).
      unfold sink_complete. rewrite Hb, He, Z.mod_1_r. simpl.
      split; [reflexivity|]. intros _.
      unfold source_rest, source_stored, source_pos, mirror_content, source_wf, mirror_wf; simpl; rewrite Hd, ?Hm.
      unfold sink_content, sink_wf in *; simpl; rewrite Hb in *.
      splits; try tauto. exists b; auto.
    + simpl. split; [reflexivity|]. intros _.
      unfold source_rest, source_stored, source_pos, mirror_content, source_wf, mirror_wf; simpl; rewrite Hd, ?Hm.
      crush.
Qed.

(* ---- reads of any sizing deliver the stored bytes in order ------------------------------------- *)
Definition delivered (r : rres) : list Z :=
  match o_cnt r, o_data r with Some k, Some u => take k u | _, _ => [] end.

Fixpoint zsum (l : list Z) : Z := match l with [] => 0 | x :: r => x + zsum r end.

Lemma zsum_nonneg l : Forall (fun n => 0 <= n) l -> 0 <= zsum l.
Proof. induction 1; simpl; lia. Qed.

(* the counts a sequence of reads must report when `avail` bytes are left *)
Fixpoint counts_spec (avail : Z) (ns : list Z) : list Z :=
  match ns with [] => [] | n :: r => Z.min n avail :: counts_spec (avail - Z.min n avail) r end.

Lemma source_read_step junk sent s n :
  source_wf s -> eof_ok s -> 0 <= n ->
  let k := next_k s n in
  let '(s', r) := source_step junk sent s (RRead n true true NoFault) in
  source_wf s' /\ eof_ok s' /\ source_stored s' = source_stored s /\
  o_rc r = E_NONE /\ o_cnt r = Some k /\
  o_data r = Some (take k (source_rest s) ++ repeat sent (Z.to_nat (n - k))) /\
  delivered r = take k (source_rest s) /\
  source_rest s' = drop k (source_rest s) /\
  r_in s' = r_in s + k /\ r_out s' = r_out s + k /\
  mirror_plus (r_mir s) (take k (source_rest s)) (r_mir s').
Proof.
  intros Hw He Hn. simpl. unfold source_step, user_buf.
  pose proof (source_read_data junk s n (repeat sent (Z.to_nat n)) true Hw He Hn ltac:(rewrite len_repeat; lia)) as H.
  simpl in H.
  destruct (source_read junk s n (Some (repeat sent (Z.to_nat n))) true NoFault) as [[[s' rc] cnt] data'].
  destruct H as (Hdata & Hw' & He' & Hst & Hmp & _ & Hok & _).
  destruct (Hok (or_introl eq_refl)) as (Hrc & Hcnt & Hrest & Hi & Ho).
  assert (Hk : 0 <= next_k s n <= n) by (unfold next_k; pose proof (len_nonneg (source_rest s)); lia).
  assert (Hkl : next_k s n <= len (source_rest s)) by (unfold next_k; lia).
  assert (Htail : drop (next_k s n) (repeat sent (Z.to_nat n)) = repeat sent (Z.to_nat (n - next_k s n))).
  { unfold drop. replace (Z.to_nat n) with (Z.to_nat (next_k s n) + Z.to_nat (n - next_k s n))%nat by lia.
    rewrite repeat_app. rewrite skipn_app, repeat_length, Nat.sub_diag. simpl.
    rewrite skipn_all2 by (rewrite repeat_length; lia). reflexivity. }
  simpl. rewrite Hdata, Hcnt, Htail.
  splits; try assumption; try reflexivity.
  unfold delivered; simpl. rewrite take_app_le by (rewrite len_take; lia).
  rewrite take_take. f_equal; lia.
Qed.

Lemma take_min_len {A} n (l : list A) : take (Z.min n (len l)) l = take n l.
Proof.
  destruct (Z_le_gt_dec n (len l)); [f_equal; lia|].
  rewrite !take_all by lia. reflexivity.
Qed.

Lemma drop_min_len {A} n (l : list A) : drop (Z.min n (len l)) l = drop n l.
Proof.
  destruct (Z_le_gt_dec n (len l)); [f_equal; lia|].
  rewrite !drop_all by lia. reflexivity.
Qed.

Theorem source_reads_in_order junk sent ns : forall s,
  source_wf s -> eof_ok s -> Forall (fun n => 0 <= n) ns ->
  let '(s', outs) := source_run junk sent s (map (fun n => RRead n true true NoFault) ns) in
  concat (map delivered outs) = take (zsum ns) (source_rest s) /\
  source_rest s' = drop (zsum ns) (source_rest s) /\
  map o_rc outs = map (fun _ => E_NONE) ns /\
  map o_cnt outs = map Some (counts_spec (len (source_rest s)) ns) /\
  r_out s' = r_out s + Z.min (zsum ns) (len (source_rest s)) /\
  r_in s' = r_in s + Z.min (zsum ns) (len (source_rest s)) /\
  source_stored s' = source_stored s /\ source_wf s' /\ eof_ok s'.
Proof.
  induction ns as [|n ns IH]; intros s Hw He Hns; cbn [map source_run zsum counts_spec concat].
  - rewrite take_nonpos by lia. rewrite drop_nonpos by lia.
    pose proof (len_nonneg (source_rest s)). splits; auto; lia.
  - inversion Hns as [|? ? Hn Hns']; subst.
    pose proof (source_read_step junk sent s n Hw He Hn) as H. cbv zeta in H.
    destruct (source_step junk sent s (RRead n true true NoFault)) as [s1 r1].
    destruct H as (Hw1 & He1 & Hst1 & Hrc & Hcnt & _ & Hdel & Hrest & Hi & Ho & _).
    specialize (IH s1 Hw1 He1 Hns').
    destruct (source_run junk sent s1 (map (fun n => RRead n true true NoFault) ns)) as [s2 outs].
    destruct IH as (Hc & Hr & Hrcs & Hcnts & Ho2 & Hi2 & Hst2 & Hw2 & He2).
    pose proof (zsum_nonneg ns Hns') as Hs.
    pose proof (len_nonneg (source_rest s)) as Hl.
    unfold next_k in *.
    assert (Hlen1 : len (source_rest s1) = len (source_rest s) - Z.min n (len (source_rest s))).
    { rewrite Hrest, len_drop. lia. }
    cbn [map concat]. rewrite Hc, Hdel, Hr, Hrest, Hrcs, Hrc, Hcnts, Hcnt, Ho2, Hi2, Ho, Hi, Hst2, Hst1, Hlen1.
    rewrite take_min_len, drop_min_len.
    split; [symmetry; apply take_add; assumption|].
    split; [rewrite drop_drop by assumption; f_equal; lia|].
    splits; auto; lia.
Qed.

(* ---- exact reads: bytes_out == NULL ------------------------------------------------------------- *)
(* the documented statement ("Returns an error if bytes_out is NULL and less than bytes_avail are
   read"), for every source state, including after the end has been registered by an earlier call *)
Theorem source_read_exact junk s n u :
  source_wf s -> eof_ok s -> 0 <= n -> len u = n ->
  let '(s', rc, cnt, data') := source_read junk s n (Some u) false NoFault in
  cnt = None /\
  (n <= len (source_rest s) ->
     rc = E_NONE /\ data' = Some (take n (source_rest s)) /\ source_rest s' = drop n (source_rest s) /\
     r_in s' = r_in s + n /\ r_out s' = r_out s + n) /\
  (len (source_rest s) < n -> rc = E_FATAL /\ r_in s' = r_in s /\ r_out s' = r_out s).
Proof.
  intros Hw He Hn Hu.
  pose proof (source_read_data junk s n u false Hw He Hn Hu) as H. simpl in H. unfold next_k in H.
  destruct (source_read junk s n (Some u) false NoFault) as [[[s' rc] cnt] data'].
  destruct H as (Hdata & _ & _ & _ & _ & _ & Hok & Hbad).
  pose proof (len_nonneg (source_rest s)) as Hl.
  split.
  - destruct (Z_le_gt_dec n (len (source_rest s))).
    + replace (Z.min n (len (source_rest s))) with n in * by lia.
      destruct (Hok (or_intror eq_refl)) as (_ & -> & _). reflexivity.
    + assert (Hm : Z.min n (len (source_rest s)) < n) by lia.
      destruct (Hbad (conj eq_refl Hm)) as (_ & -> & _). reflexivity.
  - split.
    + intros Hle. replace (Z.min n (len (source_rest s))) with n in * by lia.
      destruct (Hok (or_intror eq_refl)) as (Hrc & _ & Hrest & Hi & Ho).
      rewrite Hdata. rewrite (drop_all n u) by lia. rewrite app_nil_r. auto.
    + intros Hlt.
      assert (Hm : Z.min n (len (source_rest s)) < n) by lia.
      destruct (Hbad (conj eq_refl Hm)) as (Hrc & _ & Hi & Ho). auto.
Qed.

(* The same holds with data == NULL on an array source (source_skip_buffer).  What the repair
   103c295 changed: once the end is registered, the exact request is refused and the source is left
   exactly as it is. *)
Theorem source_read_exact_at_eof junk s n data flt :
  r_eof s = true -> 0 < n ->
  source_read junk s n data false flt = (s, E_FATAL, None, data).
Proof.
  intros Heof Hn. unfold source_read. rewrite Heof, orb_true_r.
  replace (0 <? n) with true by (symmetry; apply Z.ltb_lt; assumption). reflexivity.
Qed.

(* Regression guard.  `source_read_old` is sc_io_source_read with the early return as it was before
   103c295 (`if (bytes_avail == 0 || is_eof) { if (bytes_out != NULL) *bytes_out = 0; return NONE; }`).
   It violates the statement above: once an earlier call has registered the end, an exact read of
   n > 0 bytes returns success although nothing was read.  Witness: a 2-byte array,
   read (4, &count) -> 2, read (4, &count) -> 0 registers the end, read (1, NULL) -> success, while
   the repaired function returns FATAL in the same state.  So reverting the repair is refuted. *)
Definition source_read_old (junk : Z -> Z) (s : source) (n : Z) (data : option (list Z)) (wc : bool) (flt : fault)
  : source * Z * option Z * option (list Z) :=
  if (n =? 0) || r_eof s then (s, E_NONE, if wc then Some 0 else None, data)
  else source_read junk s n data wc flt.

(* the two functions differ in exactly that case *)
Lemma source_read_old_differs junk s n data wc flt :
  source_read_old junk s n data wc flt <> source_read junk s n data wc flt <->
  (r_eof s = true /\ wc = false /\ 0 < n).
Proof.
  unfold source_read_old, source_read.
  destruct (n =? 0) eqn:Hn0; simpl orb.
  - apply Z.eqb_eq in Hn0. subst n. simpl. split; [|lia]. intros H. exfalso. apply H. destruct wc; reflexivity.
  - apply Z.eqb_neq in Hn0. destruct (r_eof s) eqn:Heof.
    + destruct wc.
      * split; [intros H; exfalso; apply H; reflexivity|intros (_ & H & _); discriminate].
      * destruct (0 <? n) eqn:Hp.
        -- apply Z.ltb_lt in Hp. split; [auto|]. intros _. unfold E_NONE, E_FATAL. congruence.
        -- apply Z.ltb_ge in Hp. split; [intros H; exfalso; apply H; reflexivity|lia].
    + split; [intros H; exfalso; apply H; reflexivity|intros (H & _); discriminate].
Qed.

Definition exact_read_witness : source :=
  fst (source_run (fun _ => 0) 238 (source_new_buffer (mkArr 1 2 false [7; 8]))
         [RRead 4 true true NoFault; RRead 4 true true NoFault]).

Theorem source_read_exact_old_refuted :
  exists s n u, source_wf s /\ eof_ok s /\ 0 < n /\ len u = n /\ len (source_rest s) < n /\
    (let '(_, rc, _, data') := source_read_old (fun _ => 0) s n (Some u) false NoFault in
     rc = E_NONE /\ data' = Some u) /\
    (let '(s', rc, _, data') := source_read (fun _ => 0) s n (Some u) false NoFault in
     rc = E_FATAL /\ data' = Some u /\ s' = s).
Proof.
  exists exact_read_witness, 1, [238].
  unfold source_wf, eof_ok, mirror_wf. vm_compute.
  splits; try reflexivity; try discriminate; auto.
Qed.

(* ---- the mirror ---------------------------------------------------------------------------------- *)
Definition mirror_ok_op (op : rop) : bool :=
  match op with
  | RRead _ true wc NoFault => wc
  | RRead _ false _ NoFault => true
  | RAlign _ NoFault => true
  | RComplete => true
  | RMirrorOn => true
  | RMirrorRead _ _ _ => true
  | _ => false
  end.

(* what the call handed to the caller through a data buffer (reads only) *)
Definition delivered_op (op : rop) (r : rres) : list Z :=
  match op with RRead _ true true _ => delivered r | _ => [] end.

Fixpoint delivered_all (ops : list rop) (outs : list rres) : list Z :=
  match ops, outs with
  | op :: ops', r :: outs' => delivered_op op r ++ delivered_all ops' outs'
  | _, _ => []
  end.

Definition nonneg_op (op : rop) : Prop :=
  match op with
  | RRead n _ _ _ => 0 <= n
  | RAlign al _ => 0 < al
  | RMirrorRead n _ _ => 0 <= n
  | _ => True
  end.

Lemma mirror_plus_content s s' got m :
  mirror_content s = Some m -> mirror_plus (r_mir s) got (r_mir s') -> mirror_content s' = Some (m ++ got).
Proof.
  unfold mirror_content, mirror_plus. destruct (r_mir s), (r_mir s'); try tauto; try discriminate.
  intros E H. injection E as <-. rewrite H. reflexivity.
Qed.

Lemma read_finish_dev s n wc rv k data :
  r_dev (fst (fst (fst (read_finish s n wc rv k data)))) = r_dev s.
Proof. unfold read_finish. destruct rv; [reflexivity|]. destruct (negb wc && (k <? n)); reflexivity. Qed.

Lemma source_read_is_file junk s n data wc flt :
  is_file s -> is_file (fst (fst (fst (source_read junk s n data wc flt)))).
Proof.
  unfold is_file. intros Hf. unfold source_read.
  destruct (r_dev s) as [a|nm f pos] eqn:Hd; [contradiction|].
  destruct ((n =? 0) || r_eof s); [destruct wc; [|destruct (0 <? n)]; simpl; rewrite Hd; exact I|].
  destruct data as [u|].
  - destruct flt as [|k0 e0 r0|]; cbv beta iota zeta;
      repeat match goal with
             | |- context [if ?c then _ else _] => match type of c with bool => destruct c; cbv beta iota zeta end
             | |- context [match r_mir s with _ => _ end] => destruct (r_mir s); cbv beta iota zeta
             | |- context [sink_write ?a ?b ?c ?d] => destruct (sink_write a b c d); cbv beta iota zeta
             end; rewrite read_finish_dev; exact I.
  - rewrite read_finish_dev. exact I.
Qed.

Lemma mirror_step junk sent s op m :
  source_wf s -> eof_ok s -> is_file s -> 0 <= r_out s -> mirror_content s = Some m ->
  mirror_ok_op op = true -> nonneg_op op ->
  let '(s', r) := source_step junk sent s op in
  source_wf s' /\ eof_ok s' /\ is_file s' /\ 0 <= r_out s' /\
  mirror_content s' = Some (m ++ delivered_op op r).
Proof.
  intros Hw He Hf Hout Hm Hop Hnn.
  pose proof Hf as Hf0.
  unfold is_file in Hf. destruct (r_dev s) as [a|nm f pos] eqn:Hd; [contradiction|].
  destruct op as [n wd wc flt|al flt| | |n wd wc|n]; simpl in Hop, Hnn; try discriminate.
  - destruct wd.
    + destruct flt; try discriminate. subst wc.
      pose proof (source_read_step junk sent s n Hw He Hnn) as H. cbv zeta in H.
      pose proof (source_read_is_file junk s n (user_buf sent n true) true NoFault Hf0) as Hk.
      unfold source_step in *.
      destruct (source_read junk s n (user_buf sent n true) true NoFault) as [[[s' rc] cnt] data'].
      simpl in Hk.
      destruct H as (Hw' & He' & Hst & _ & _ & _ & Hdel & _ & _ & Ho & Hmp).
      split; [assumption|]. split; [assumption|]. split; [assumption|].
      split; [unfold next_k in Ho; pose proof (len_nonneg (source_rest s)); lia|].
      unfold delivered_op. rewrite Hdel. eapply mirror_plus_content; eassumption.
    + destruct flt; try discriminate.
      pose proof (source_skip_file junk s nm f pos n wc Hd Hw He Hnn) as H.
      pose proof (source_read_is_file junk s n None wc NoFault Hf0) as Hk.
      unfold source_step, user_buf.
      destruct (source_read junk s n None wc NoFault) as [[[s' rc] cnt] data'].
      simpl in Hk.
      destruct H as (_ & Hw' & He' & Hst & Hmir & _ & _ & _ & Hpos & _ & Ho & _).
      split; [assumption|]. split; [assumption|]. split; [assumption|].
      split; [destruct (r_eof s); lia|].
      simpl. rewrite app_nil_r. unfold mirror_content in *. rewrite Hmir. assumption.
  - destruct flt; try discriminate.
    unfold source_step, source_align.
    pose proof (align_fill_range (r_out s) al Hnn) as Hr.
    pose proof (source_skip_file junk s nm f pos (align_fill (r_out s) al) false Hd Hw He ltac:(lia)) as H.
    pose proof (source_read_is_file junk s (align_fill (r_out s) al) None false NoFault Hf0) as Hk.
    destruct (source_read junk s (align_fill (r_out s) al) None false NoFault) as [[[s' rc] cnt] data'].
    simpl in Hk.
    destruct H as (_ & Hw' & He' & Hst & Hmir & _ & _ & _ & Hpos & _ & Ho & _).
    split; [assumption|]. split; [assumption|]. split; [assumption|].
    split; [destruct (r_eof s); lia|].
    simpl. rewrite app_nil_r. unfold mirror_content in *. rewrite Hmir. assumption.
  - unfold source_step.
    pose proof (source_complete_spec s Hw) as H.
    assert (Hdev : r_dev (fst (fst (source_complete s))) = r_dev s).
    { unfold source_complete. rewrite Hd. destruct (r_mir s) as [ms|]; [destruct (sink_complete ms false) as [[? ?] ?]|]; simpl; auto. }
    destruct (source_complete s) as [[s' rc] rep]. rewrite Hd in H. simpl in Hdev.
    destruct H as (Hrc & H).
    assert (Hne : rc <> E_AGAIN) by (rewrite Hrc; discriminate).
    destruct (H Hne) as (_ & _ & _ & Ho & Hrest & Heof & Hmc & Hw').
    split; [assumption|].
    split; [unfold eof_ok in *; rewrite Hrest, Heof; assumption|].
    split; [unfold is_file; rewrite Hdev, Hd; exact I|].
    split; [lia|]. simpl. rewrite app_nil_r. rewrite Hmc. assumption.
  - unfold source_step, source_activate_mirror. rewrite Hd.
    unfold mirror_content in Hm. destruct (r_mir s) eqn:E; [|discriminate].
    simpl. rewrite app_nil_r. unfold mirror_content. rewrite E. auto.
  - unfold source_step. destruct (source_read_mirror junk s n (user_buf sent n wd) wc) as [[rc cnt] data].
    simpl. rewrite app_nil_r. auto.
Qed.

Theorem mirror_replays junk sent ops : forall s m,
  source_wf s -> eof_ok s -> is_file s -> 0 <= r_out s -> mirror_content s = Some m ->
  forallb mirror_ok_op ops = true -> Forall nonneg_op ops ->
  let '(s', outs) := source_run junk sent s ops in
  mirror_content s' = Some (m ++ delivered_all ops outs).
Proof.
  induction ops as [|op ops IH]; intros s m Hw He Hf Hout Hm Hok Hnn; cbn [source_run delivered_all].
  - rewrite app_nil_r. assumption.
  - simpl in Hok. apply andb_true_iff in Hok. destruct Hok as [Hok1 Hok2].
    inversion Hnn as [|? ? Hn1 Hn2]; subst.
    pose proof (mirror_step junk sent s op m Hw He Hf Hout Hm Hok1 Hn1) as H.
    destruct (source_step junk sent s op) as [s1 r1].
    destruct H as (Hw1 & He1 & Hf1 & Hout1 & Hm1).
    specialize (IH s1 _ Hw1 He1 Hf1 Hout1 Hm1 Hok2 Hn2).
    destruct (source_run junk sent s1 ops) as [s2 outs].
    cbn [delivered_all]. rewrite IH, app_assoc. reflexivity.
Qed.

Theorem source_activate_mirror_spec junk s :
  source_wf s -> is_file s -> r_mir s = None ->
  let '(s', rc) := source_activate_mirror junk s in
  rc = E_NONE /\ mirror_content s' = Some [] /\ source_wf s' /\ is_file s' /\
  source_rest s' = source_rest s /\ r_eof s' = r_eof s /\ r_out s' = r_out s /\ r_in s' = r_in s.
Proof.
  intros (Hmw & Hw) Hf Hm. unfold source_activate_mirror, is_file in *.
  destruct (r_dev s) as [a|nm f pos] eqn:Hd; [contradiction|]. rewrite Hm.
  unfold mirror_content, source_wf, source_rest, source_stored, source_pos, is_file, mirror_wf; simpl; rewrite Hd.
  unfold sink_new_buffer, arr_resize, sink_content, sink_wf; simpl.
  splits; try reflexivity; try assumption; try exact I; try (unfold len; simpl; lia).
  eexists; splits; reflexivity.
Qed.

Theorem source_activate_mirror_refused junk s :
  (is_file s -> r_mir s <> None) -> source_activate_mirror junk s = (s, E_FATAL).
Proof.
  unfold source_activate_mirror, is_file. destruct (r_dev s); [reflexivity|].
  intros H. destruct (r_mir s); [reflexivity|]. exfalso; apply (H I); reflexivity.
Qed.

Lemma source_read_buf_dev junk s a n data wc flt :
  r_dev s = RBuf a ->
  let s' := fst (fst (fst (source_read junk s n data wc flt))) in
  r_dev s' = RBuf a /\ r_mir s' = r_mir s.
Proof.
  intros Hd. simpl. unfold source_read. rewrite Hd.
  destruct ((n =? 0) || r_eof s); [destruct wc; [|destruct (0 <? n)]; simpl; auto|].
  destruct (_ =? 0); unfold read_finish; simpl;
    repeat match goal with |- context [if ?c then _ else _] => match type of c with bool => destruct c; simpl end end; auto.
Qed.

(* reading the mirror: a fresh pass over everything mirrored so far *)
Theorem source_read_mirror_spec junk s m n u wc :
  source_wf s -> mirror_content s = Some m -> 0 <= n -> len u = n ->
  let k := Z.min n (len m) in
  source_read_mirror junk s n (Some u) wc =
  (if wc || (n <=? len m) then 0 else 1, if wc || (n <=? len m) then (if wc then Some k else None) else None,
   Some (take k m ++ drop k u)).
Proof.
  intros (Hmw & _) Hm Hn Hu. simpl. unfold source_read_mirror.
  unfold mirror_content in Hm. destruct (r_mir s) as [ms|]; [|discriminate]. injection Hm as Hm.
  destruct Hmw as (Hsw & b & Hb & Hv & He & Hc). rewrite Hb.
  unfold sink_wf in Hsw. rewrite Hb in Hsw. destruct Hsw as (_ & Hbb & Hlen). specialize (Hlen Hv).
  set (src := source_new_buffer b).
  assert (Hw : source_wf src).
  { unfold source_wf, src, source_new_buffer, mirror_wf; simpl. splits; auto; lia. }
  assert (Heo : eof_ok src) by (unfold eof_ok, src, source_new_buffer; simpl; discriminate).
  assert (Hrest : source_rest src = m).
  { unfold source_rest, source_stored, source_pos, src, source_new_buffer; simpl.
    rewrite drop_nonpos by lia. rewrite <- Hm. unfold sink_content. rewrite Hb. f_equal. lia. }
  pose proof (source_read_data junk src n u wc Hw Heo Hn Hu) as H. cbv zeta in H.
  pose proof (source_read_buf_dev junk src b n (Some u) wc NoFault eq_refl) as Hdev. cbv zeta in Hdev.
  destruct (source_read junk src n (Some u) wc NoFault) as [[[s' rc] cnt] data']. simpl in Hdev.
  unfold next_k in H. rewrite Hrest in H.
  destruct H as (Hdata & Hw' & _ & _ & _ & _ & Hok & Hbad).
  destruct Hdev as (Hd' & Hm').
  assert (Hdes : source_destroy s' false = E_NONE).
  { unfold source_destroy, source_complete. rewrite Hd', He, Z.mod_1_r. simpl.
    rewrite Hm'. reflexivity. }
  rewrite Hdes. simpl. rewrite Hdata.
  destruct wc; simpl.
  - destruct (Hok (or_introl eq_refl)) as (-> & -> & _). reflexivity.
  - destruct (n <=? len m) eqn:E.
    + apply Z.leb_le in E.
      assert (Hk : Z.min n (len m) = n) by lia.
      destruct (Hok (or_intror Hk)) as (-> & -> & _). reflexivity.
    + apply Z.leb_gt in E.
      assert (Hk : Z.min n (len m) < n) by lia.
      destruct (Hbad (conj eq_refl Hk)) as (-> & -> & _). reflexivity.
Qed.

(* ---- sc_io_file_save / sc_io_file_load ------------------------------------------------------------ *)
Theorem file_save_spec junk a :
  file_save junk a true None false false = (0, Some (take (a_cnt a) (a_mem a))).
Proof.
  unfold file_save, sink_new_filename, sink_write. cbn [k_dev k_bb k_in k_out].
  set (d := take (a_cnt a) (a_mem a)).
  destruct (len d =? 0) eqn:E.
  - apply Z.eqb_eq in E. apply len_zero_nil in E. rewrite E. reflexivity.
  - rewrite Z.eqb_refl. simpl. rewrite take_all by lia. reflexivity.
Qed.

Lemma fill_nonpos junk k : k <= 0 -> fill junk k = [].
Proof. intros; unfold fill. replace (Z.to_nat k) with 0%nat by lia. reflexivity. Qed.

Lemma source_destroy_file_nomirror s : is_file s -> r_mir s = None -> source_destroy s false = E_NONE.
Proof.
  unfold is_file, source_destroy, source_complete. destruct (r_dev s) as [a|nm f pos]; [contradiction|].
  intros _ ->. simpl. destruct nm; reflexivity.
Qed.

Definition load_inv (f : list Z) (src : source) (b : arr) (bpos : Z) : Prop :=
  source_wf src /\ eof_ok src /\ is_file src /\ r_mir src = None /\
  source_rest src = drop bpos f /\
  a_view b = false /\ a_esz b = 1 /\ len (a_mem b) = a_cnt b /\
  0 <= bpos <= len (a_mem b) /\ bpos <= len f /\ take bpos (a_mem b) = take bpos f.

Theorem load_loop_spec junk w : 0 < w -> forall fuel f src b bpos,
  load_inv f src b bpos -> len f - bpos < Z.of_nat fuel * w ->
  load_loop junk w fuel src b bpos [] false = Some (0, mkArr 1 (len f) false f).
Proof.
  intros Hw. induction fuel as [|fuel IH]; intros f src b bpos Hinv Hfuel.
  - destruct Hinv as (_ & _ & _ & _ & _ & _ & _ & _ & _ & Hle & _). lia.
  - destruct Hinv as (Hsw & Heo & Hfile & Hmir & Hrest & Hv & Hes & Hlen & Hb & Hle & Hpre).
    cbn [load_loop hd tl].
    set (b1 := arr_resize junk b (bpos + w)).
    assert (Hnc : 0 < bpos + w) by lia.
    assert (Hes0 : 0 < a_esz b) by lia.
    pose proof (resized_len junk b (bpos + w) Hv Hes0 Hnc) as Hlen1. fold b1 in Hlen1. rewrite Hes, Z.mul_1_r in Hlen1.
    assert (Hpre1 : take bpos (a_mem b1) = take bpos (a_mem b)).
    { apply resized_prefix; try assumption; lia. }
    assert (Hb1 : a_esz b1 = 1 /\ a_cnt b1 = bpos + w /\ a_view b1 = false).
    { unfold b1, arr_resize. rewrite Hv. destruct (bpos + w =? 0) eqn:E; [lia|]. simpl. auto. }
    destruct Hb1 as (Hes1 & Hcnt1 & Hv1).
    set (u := take w (drop bpos (a_mem b1))).
    assert (Hu : len u = w).
    { unfold u. rewrite len_take, len_drop, Hlen1. lia. }
    pose proof (source_read_data junk src w u true Hsw Heo ltac:(lia) Hu) as H. cbv zeta in H.
    pose proof (source_read_is_file junk src w (Some u) true NoFault Hfile) as Hfile'.
    destruct (source_read junk src w (Some u) true NoFault) as [[[src' rc] cnt] data']. simpl in Hfile'.
    unfold next_k in H. rewrite Hrest in H.
    set (k := Z.min w (len (drop bpos f))) in *.
    assert (Hk : 0 <= k <= w /\ k <= len f - bpos /\ (k < w -> k = len f - bpos)).
    { unfold k. rewrite len_drop. lia. }
    destruct H as (Hdata & Hsw' & Heo' & _ & Hmp & _ & Hok & _).
    destruct (Hok (or_introl eq_refl)) as (Hrc & Hcnt & Hrest' & _ & _).
    assert (Hmir' : r_mir src' = None).
    { unfold mirror_plus in Hmp. rewrite Hmir in Hmp. destruct (r_mir src'); [contradiction|reflexivity]. }
    rewrite Hrc, Hcnt, Hdata. simpl negb. cbv iota.
    assert (Hdrop1 : drop (bpos + w) (a_mem b1) = []) by (apply drop_all; lia).
    rewrite Hdrop1, app_nil_r, Hpre1, Hpre.
    assert (Htk : len (take k (drop bpos f)) = k) by (rewrite len_take, len_drop; lia).
    assert (Htb : len (take bpos f) = bpos) by (rewrite len_take; lia).
    destruct (k <? w) eqn:Hlt.
    + apply Z.ltb_lt in Hlt.
      rewrite (source_destroy_file_nomirror src' Hfile' Hmir'). simpl negb. cbv iota.
      assert (Hkf : bpos + k = len f) by lia.
      unfold arr_resize. cbn [a_view a_esz a_mem a_cnt]. rewrite Hv1, Hes1, Hkf.
      destruct (len f =? 0) eqn:Hz.
      * apply Z.eqb_eq in Hz. rewrite (len_zero_nil f Hz). reflexivity.
      * f_equal. f_equal. f_equal.
        rewrite Z.mul_1_r.
        rewrite fill_nonpos by (rewrite !len_app, Htb, Htk, len_drop, Hu; lia).
        rewrite app_nil_r.
        rewrite app_assoc. rewrite take_app_le by (rewrite len_app, Htb, Htk; lia).
        rewrite take_all by (rewrite len_app, Htb, Htk; lia).
        rewrite <- take_add by lia. apply take_all. lia.
    + apply Z.ltb_ge in Hlt.
      assert (Hkw : k = w) by lia.
      apply IH.
      * unfold load_inv. cbn [a_view a_esz a_mem a_cnt].
        rewrite Hkw in *. rewrite (drop_all w u) by lia. rewrite app_nil_r.
        assert (Hm2 : take bpos f ++ take w (drop bpos f) = take (bpos + w) f) by (symmetry; apply take_add; lia).
        rewrite Hm2.
        assert (Hl2 : len (take (bpos + w) f) = bpos + w) by (rewrite len_take; lia).
        splits; try assumption; try lia.
        -- rewrite Hrest'. rewrite drop_drop by lia. f_equal; lia.
        -- rewrite take_all by lia. reflexivity.
      * lia.
Qed.

Theorem file_load_save junk a b fuel :
  a_view b = false -> a_esz b = 1 -> len (a_mem b) = a_cnt b ->
  let c := take (a_cnt a) (a_mem a) in
  len c < Z.of_nat fuel * bwins ->
  file_save junk a true None false false = (0, Some c) /\
  file_load junk fuel (Some c) b [] false = Some (0, mkArr 1 (len c) false c).
Proof.
  intros Hv He Hl c Hfuel. split; [apply file_save_spec|].
  unfold file_load, source_new_filename.
  apply load_loop_spec; [reflexivity| |lia].
  unfold load_inv, source_wf, eof_ok, is_file, mirror_wf, source_rest, source_stored, source_pos; simpl.
  pose proof (len_nonneg (a_mem b)). pose proof (len_nonneg c).
  splits; auto; try lia; try discriminate.
Qed.

(* ---- injected stdio faults --------------------------------------------------------------------- *)
(* a short fread that is not explained by the end of the file (feof = 0), or with ferror set *)
Theorem source_read_file_error junk s nm f pos n u wc k e r :
  r_dev s = RFile nm f pos -> r_eof s = false -> 0 <= k < n -> (e = false \/ r = true) ->
  let '(s', rc, cnt, _) := source_read junk s n (Some u) wc (ShortRead k e r) in
  rc = E_FATAL /\ cnt = None /\ r_in s' = r_in s /\ r_out s' = r_out s /\ r_mir s' = r_mir s.
Proof.
  intros Hd Heof Hk Her. unfold source_read. rewrite Hd, Heof.
  replace (n =? 0) with false by (symmetry; apply Z.eqb_neq; lia). simpl orb. cbv iota.
  set (k' := Z.min (Z.max k 0) (Z.min n (Z.max 0 (len f - pos)))).
  assert (Hlt : (k' <? n) = true) by (apply Z.ltb_lt; unfold k'; lia).
  cbv beta iota zeta. fold k'. rewrite Hlt.
  assert (Hrv : negb e || r = true) by (destruct e, r; destruct Her; try discriminate; reflexivity).
  rewrite Hrv. unfold read_finish. simpl. auto.
Qed.

Theorem source_seek_error junk s nm f pos n wc :
  r_dev s = RFile nm f pos -> r_eof s = false -> 0 < n ->
  let '(s', rc, cnt, _) := source_read junk s n None wc SeekFail in
  rc = E_FATAL /\ cnt = None /\ r_in s' = r_in s /\ r_out s' = r_out s /\ source_pos s' = source_pos s.
Proof.
  intros Hd Heof Hn. unfold source_read. rewrite Hd, Heof.
  replace (n =? 0) with false by (symmetry; apply Z.eqb_neq; lia). simpl.
  unfold source_pos; simpl. rewrite Hd. auto.
Qed.

(* the backing array of a buffer source shrunk behind its back: the read stops gracefully *)
Theorem source_read_shrunk junk s a n data :
  r_dev s = RBuf a -> r_eof s = false -> 0 < n -> a_cnt a * a_esz a < r_bb s ->
  let '(s', rc, cnt, data') := source_read junk s n data true NoFault in
  rc = E_NONE /\ cnt = Some 0 /\ data' = data /\ r_eof s' = true /\ r_bb s' = r_bb s.
Proof.
  intros Hd Heof Hn Hlt. unfold source_read. rewrite Hd, Heof.
  replace (n =? 0) with false by (symmetry; apply Z.eqb_neq; lia). simpl orb. cbv iota.
  replace (a_cnt a * a_esz a <? r_bb s) with true by (symmetry; apply Z.ltb_lt; lia).
  simpl. auto.
Qed.
