(* C11 - histories across objects: a sink and a source on the same file one after the other, for every chunking on both sides;
   the mirror of a source from its activation on, read back at any moment. *)
From Coq Require Import ZArith List Bool Lia.
From ScV Require Import Base.CInt C11.IoModel C11.IoLists C11.IoSinkProofs C11.IoSourceProofs.
Import ListNotations.
Local Open Scope Z_scope.

(* a file sink stays the same kind of file sink *)
Lemma sink_step_file junk s op nm f : k_dev s = DFile nm f -> exists f', k_dev (fst (sink_step junk s op)) = DFile nm f'.
Proof.
  intros Hd. destruct op as [d flt|al flt|ff]; unfold sink_step, sink_align, sink_write, sink_complete; rewrite Hd.
  - destruct (len d =? 0); [simpl; eauto|]. destruct (_ =? len d); simpl; eauto.
  - destruct (len _ =? 0); [simpl; eauto|]. destruct (_ =? len _); simpl; eauto.
  - destruct ff; simpl; eauto.
Qed.

Lemma sink_run_file junk ops : forall s nm f, k_dev s = DFile nm f -> exists f', k_dev (fst (sink_run junk s ops)) = DFile nm f'.
Proof.
  induction ops as [|op ops IH]; intros s nm f Hd; cbn [sink_run]; [simpl; eauto|].
  destruct (sink_step_file junk s op nm f Hd) as [f1 H1].
  destruct (sink_step junk s op) as [s1 o]. simpl in H1.
  destruct (IH s1 nm f1 H1) as [f2 H2]. destruct (sink_run junk s1 ops) as [s2 os]. simpl in *. eauto.
Qed.

(* what sc_io_sink_destroy leaves on disk *)
Definition file_left (d : sdev) : list Z := match d with DFile _ f => f | DBuf _ => [] end.

(* SAVE THEN LOAD, EVERY CHUNKING ON BOTH SIDES: a FILENAME sink ("wb" or "ab" over the old content) is fed any list of chunks and
   destroyed; a FILENAME source opened on what is on disk then delivers, for any list of read sizes, exactly the first bytes of
   old ++ chunks in order; every call succeeds; the counts are min (asked, left) *)
Theorem sink_then_source_chunked junk sent (append : bool) old chunks ns : Forall (fun n => 0 <= n) ns ->
  match sink_new_filename true append old with
  | None => False
  | Some k0 =>
      let '(k1, wouts) := sink_run junk k0 (map (fun d => SWrite d None) chunks) in
      let '(rcd, dev) := sink_destroy k1 false false in
      match source_new_filename true (file_left dev) with
      | None => False
      | Some r0 =>
          let '(r1, outs) := source_run junk sent r0 (map (fun n => RRead n true true NoFault) ns) in
          let all := (if append then old else []) ++ concat chunks in
          wouts = map (fun _ => (E_NONE, None)) chunks /\ rcd = E_NONE /\ file_left dev = all /\
          concat (map delivered outs) = take (zsum ns) all /\
          map o_rc outs = map (fun _ => E_NONE) ns /\
          map o_cnt outs = map Some (counts_spec (len all) ns) /\
          source_rest r1 = drop (zsum ns) all
      end
  end.
Proof.
  intros Hns. unfold sink_new_filename.
  pose proof (sink_chunking_file true (if append then old else []) chunks junk) as Hc. cbv zeta in Hc.
  destruct (sink_run_file junk (map (fun d => SWrite d None) chunks) (mkSink (DFile true (if append then old else [])) 0 0 0) true _ eq_refl) as [f' Hf'].
  destruct (sink_run junk (mkSink (DFile true (if append then old else [])) 0 0 0) (map (fun d => SWrite d None) chunks)) as [k1 wouts].
  simpl in Hc, Hf'. destruct Hc as [Hcont Hw].
  unfold sink_content in Hcont. rewrite Hf' in Hcont. subst f'.
  unfold sink_destroy, sink_complete. rewrite Hf'. cbn.
  set (all := (if append then old else []) ++ concat chunks).
  set (r0 := mkSrc (RFile true all 0) 0 0 0 false None).
  assert (Hwf : source_wf r0) by (unfold source_wf, r0, mirror_wf; simpl; split; [exact I|lia]).
  assert (Heo : eof_ok r0) by (unfold eof_ok, r0; simpl; discriminate).
  assert (Hrest : source_rest r0 = all) by (unfold source_rest, source_stored, source_pos, r0; simpl; apply drop_nonpos; lia).
  pose proof (source_reads_in_order junk sent ns r0 Hwf Heo Hns) as H.
  destruct (source_run junk sent r0 (map (fun n => RRead n true true NoFault) ns)) as [r1 outs].
  rewrite Hrest in H. destruct H as (H1 & H2 & H3 & H4 & _).
  repeat split; assumption.
Qed.

(* ---- the mirror from its activation on ------------------------------------------------------------------------------------ *)
Lemma source_run_app junk sent ops1 : forall s ops2,
  source_run junk sent s (ops1 ++ ops2) =
  (let '(s1, o1) := source_run junk sent s ops1 in let '(s2, o2) := source_run junk sent s1 ops2 in (s2, o1 ++ o2)).
Proof.
  induction ops1 as [|op ops1 IH]; intros s ops2; cbn [source_run app].
  - destruct (source_run junk sent s ops2); reflexivity.
  - destruct (source_step junk sent s op) as [s1 o]. rewrite IH.
    destruct (source_run junk sent s1 ops1) as [s2 o1]. destruct (source_run junk sent s2 ops2) as [s3 o2]. reflexivity.
Qed.

Lemma mirror_run_inv junk sent ops : forall s m,
  source_wf s -> eof_ok s -> is_file s -> 0 <= r_out s -> mirror_content s = Some m ->
  forallb mirror_ok_op ops = true -> Forall nonneg_op ops ->
  let '(s', outs) := source_run junk sent s ops in
  source_wf s' /\ mirror_content s' = Some (m ++ delivered_all ops outs).
Proof.
  induction ops as [|op ops IH]; intros s m Hw He Hf Hout Hm Hok Hnn; cbn [source_run delivered_all].
  - rewrite app_nil_r. split; assumption.
  - simpl in Hok. apply andb_true_iff in Hok. destruct Hok as [Hok1 Hok2].
    inversion Hnn as [|? ? Hn1 Hn2]; subst.
    pose proof (mirror_step junk sent s op m Hw He Hf Hout Hm Hok1 Hn1) as H.
    destruct (source_step junk sent s op) as [s1 r1].
    destruct H as (Hw1 & He1 & Hf1 & Hout1 & Hm1).
    specialize (IH s1 _ Hw1 He1 Hf1 Hout1 Hm1 Hok2 Hn2).
    destruct (source_run junk sent s1 ops) as [s2 outs].
    cbn [delivered_all]. destruct IH as [IH1 IH2]. rewrite IH2, app_assoc. split; [assumption|reflexivity].
Qed.

(* EVERY HISTORY AFTER THE ACTIVATION: whatever state the file source is in (any history before), after sc_io_source_activate_mirror and any
   interleaving of reads / skips / aligns / completions / mirror reads, sc_io_source_read_mirror of n bytes hands out exactly the first
   min (n, total) of the bytes that the reads delivered since the activation, in order; it fails only for an exact request that is too long *)
Theorem mirror_since_activation junk sent s ops n (wc : bool) :
  source_wf s -> eof_ok s -> is_file s -> 0 <= r_out s -> r_mir s = None ->
  forallb mirror_ok_op ops = true -> Forall nonneg_op ops -> 0 <= n ->
  let '(s', outs) := source_run junk sent s (RMirrorOn :: ops ++ [RMirrorRead n true wc]) in
  let m := delivered_all ops (removelast (tl outs)) in
  let k := Z.min n (len m) in
  hd_error outs = Some (mkRes E_NONE None None None) /\
  last outs (mkRes 0 None None None) =
    mkRes (if wc || (n <=? len m) then 0 else 1) (if wc || (n <=? len m) then (if wc then Some k else None) else None) None
          (Some (take k m ++ drop k (repeat sent (Z.to_nat n)))).
Proof.
  intros Hw He Hf Ho Hm Hok Hnn Hn. cbn [source_run source_step].
  pose proof (source_activate_mirror_spec junk s Hw Hf Hm) as Ha.
  destruct (source_activate_mirror junk s) as [s0 rc0]. destruct Ha as (-> & Hm0 & Hw0 & Hf0 & Hrest0 & Heof0 & Hout0 & _).
  assert (He0 : eof_ok s0) by (unfold eof_ok in *; rewrite Heof0, Hrest0; assumption).
  rewrite source_run_app.
  pose proof (mirror_run_inv junk sent ops s0 [] Hw0 He0 Hf0 ltac:(lia) Hm0 Hok Hnn) as Hr.
  destruct (source_run junk sent s0 ops) as [s1 o1]. destruct Hr as [Hwf1 Hr]. cbn [app] in Hr.
  cbn [source_run source_step].
  pose proof (source_read_mirror_spec junk s1 (delivered_all ops o1) n (repeat sent (Z.to_nat n)) wc Hwf1 Hr Hn ltac:(rewrite len_repeat; lia)) as Hs.
  cbv zeta in Hs. unfold user_buf. rewrite Hs. cbn [hd_error tl].
  rewrite removelast_last, app_comm_cons, last_last. split; reflexivity.
Qed.

(* non-vacuity of the hypotheses of mirror_since_activation, and the replay computed *)
Lemma mirror_since_activation_example :
  let s := mkSrc (RFile false [1;2;3;4;5;6] 1) 0 0 0 false None in
  let ops := [RRead 2 true true NoFault; RAlign 4 NoFault; RComplete; RRead 1 true true NoFault] in
  source_wf s /\ eof_ok s /\ is_file s /\ r_mir s = None /\ forallb mirror_ok_op ops = true /\ Forall nonneg_op ops /\
  o_data (last (snd (source_run (fun _ => 0) 238 s (RMirrorOn :: ops ++ [RMirrorRead 4 true true]))) (mkRes 0 None None None)) = Some [2;3;6;238].
Proof.
  cbv zeta. split; [unfold source_wf, mirror_wf; simpl; split; [exact I|lia]|]. split; [unfold eof_ok; simpl; discriminate|].
  split; [exact I|]. split; [reflexivity|]. split; [reflexivity|]. split; [repeat constructor; simpl; lia|]. vm_compute. reflexivity.
Qed.
