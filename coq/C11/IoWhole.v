(* C11 - tie T1, whole bodies: every function of the sinks and sources of /repo/src/sc_io.c is translated as a whole
   (Gen/IoC11.v, definitions io_<function>, regenerated on every run): the fields of the sink / source / array are
   locations, every call (sc_array_resize, memcpy, stdio, the sc_io functions among themselves) is an EFFECT whose
   occurrence and arguments are outputs and whose result is a parameter.  This file READS those outputs - which array
   operation a call is, what the counters hold afterwards - and proves the hand-written model (IoModel.v) EQUAL to that
   reading, for every state and every argument (byte counts below 2^62).  A reading function answers the code E_WRONG
   when a call is made on another object than the expected one (another pointer), so that the equalities also say that
   every call goes to the right object.  An edit of sc_io.c that changes a branch, a flag, an argument, the order of
   the counters' updates or drops / adds a call changes a generated definition and the lemma stops checking. *)
From Coq Require Import ZArith Lia List Bool.
From ScV Require Import Base.CInt Gen.IoC11 C11.IoModel C11.IoLists C11.IoSinkProofs C11.IoGen.
Import ListNotations.
Local Open Scope Z_scope.

Definition E_WRONG : Z := 98.

(* the C view of the model's objects *)
Definition iotype_of_sdev (d : sdev) : Z :=
  match d with DBuf _ => io_SC_IO_TYPE_BUFFER | DFile true _ => io_SC_IO_TYPE_FILENAME | DFile false _ => io_SC_IO_TYPE_FILEFILE end.
Definition iotype_of_rdev (d : rdev) : Z :=
  match d with RBuf _ => io_SC_IO_TYPE_BUFFER | RFile true _ _ => io_SC_IO_TYPE_FILENAME | RFile false _ _ => io_SC_IO_TYPE_FILEFILE end.
Definition mode_of (append : bool) : Z := if append then io_SC_IO_MODE_APPEND else io_SC_IO_MODE_WRITE.
(* sc_array_t.byte_alloc: a view stores -(capacity + 1), an owner at least elem_count * elem_size *)
Definition byte_alloc_of (a : arr) (ba : Z) : Prop :=
  if a_view a then ba = - (len (a_mem a) + 1) /\ len (a_mem a) < BIG
  else a_cnt a * a_esz a <= ba < BIG.
Definition ptr_of (wc : bool) (p : Z) : Z := if wc then p else 0.

Lemma u32_buffer : u32 io_SC_IO_TYPE_BUFFER = 0. Proof. reflexivity. Qed.
Lemma u32_filename : u32 io_SC_IO_TYPE_FILENAME = 1. Proof. reflexivity. Qed.
Lemma u32_filefile : u32 io_SC_IO_TYPE_FILEFILE = 2. Proof. reflexivity. Qed.
Lemma u32_mode_write : u32 io_SC_IO_MODE_WRITE = 0. Proof. reflexivity. Qed.

Ltac neq0 := match goal with H : ?x <> 0 |- context [?x =? 0] => rewrite (proj2 (Z.eqb_neq x 0) H) end.
Ltac crunch := repeat (progress (cbn; rewrite ?Z.eqb_refl; repeat neq0; unfold z2b, b2z)).

Ltac io_consts :=
  rewrite ?u32_buffer, ?u32_filename, ?u32_filefile, ?u32_mode_write;
  unfold io_SC_IO_TYPE_BUFFER, io_SC_IO_TYPE_FILENAME, io_SC_IO_TYPE_FILEFILE, io_SC_IO_MODE_WRITE, io_SC_IO_MODE_APPEND,
         io_SC_IO_ENCODE_NONE, io_SC_IO_ERROR_NONE, io_SC_IO_ERROR_FATAL, io_SC_IO_ERROR_AGAIN in *.

(* ======================================================================================================================
   sc_io_sink_new
   ====================================================================================================================== *)
(* reading of io_sink_new for SC_IO_TYPE_BUFFER: the object that comes out *)
Definition rd_sink_new_buffer (junk : Z -> Z) (a : arr) (bufp objp : Z)
  (g : Z * Z * Z * Z * Z * Z * Z * Z * Z * Z * Z * Z * Z * Z * Z * Z * Z * Z * Z * Z * Z * Z * Z * Z) : option sink * Z :=
  let '(ret, f_iotype, f_mode, f_encode, f_buffer, f_bb, f_file, f_in, f_out, ca_c, ca_a1, ca_a2, rs_c, rs_a0, rs_a1,
        fo_c, fo_a0, fo_a1, fr_c, fr_a1, fe_c, fe_a0, fr2_c, fr2_a1) := g in
  if negb ((ca_c =? 1) && (ret =? objp) && (f_buffer =? bufp) && (fo_c =? 0) && (fe_c =? 0) && (fr_c =? 0) && (fr2_c =? 0)
           && ((rs_c =? 0) || (rs_a0 =? bufp))) then (None, E_WRONG)
  else (Some (mkSink (DBuf (if rs_c =? 1 then arr_resize junk a rs_a1 else a)) f_bb f_in f_out), f_iotype).

(* every mode, every encoding value: the buffer sink of the model, iotype recorded, the array emptied by
   sc_array_resize (buffer, 0) in write mode and left alone in append mode *)
Lemma whole_sink_new_buffer junk (append : bool) a enc bufp objp szof v2 v3 fo fe : objp <> 0 -> 0 <= a_cnt a * a_esz a < BIG ->
  rd_sink_new_buffer junk a bufp objp
    (io_sink_new io_SC_IO_TYPE_BUFFER (mode_of append) enc bufp v2 v3 (a_cnt a) (a_esz a) szof objp fo fe)
  = (Some (sink_new_buffer junk append a), io_SC_IO_TYPE_BUFFER).
Proof.
  intros Hp Hb. unfold io_sink_new, rd_sink_new_buffer, sink_new_buffer, mode_of. cbv zeta. io_consts.
  rewrite !Z.eqb_refl. destruct append; cbn -[arr_resize Z.mul u64].
  - rewrite !Z.eqb_refl. cbn. rewrite u64_small by lia. reflexivity.
  - rewrite !Z.eqb_refl. cbn -[arr_resize]. reflexivity.
Qed.

(* reading for the two file types: fopen mode and failure *)
Definition rd_sink_new_file (named : bool) (filep argp objp : Z) (old : list Z)
  (g : Z * Z * Z * Z * Z * Z * Z * Z * Z * Z * Z * Z * Z * Z * Z * Z * Z * Z * Z * Z * Z * Z * Z * Z) : option sink * Z :=
  let '(ret, f_iotype, f_mode, f_encode, f_buffer, f_bb, f_file, f_in, f_out, ca_c, ca_a1, ca_a2, rs_c, rs_a0, rs_a1,
        fo_c, fo_a0, fo_a1, fr_c, fr_a1, fe_c, fe_a0, fr2_c, fr2_a1) := g in
  if negb ((ca_c =? 1) && (rs_c =? 0) && (if named then (fo_c =? 1) && (fo_a0 =? argp) && (fe_c =? 0) else (fo_c =? 0) && (fe_c =? 1) && (fe_a0 =? argp)))
  then (None, E_WRONG)
  else if ret =? 0 then
    (* refused: the object has been freed again *)
    (if (fr_c + fr2_c =? 1) && (if named then fr_a1 =? objp else fr2_a1 =? objp) then (None, 0) else (None, E_WRONG))
  else if negb ((ret =? objp) && (f_file =? filep) && (fr_c =? 0) && (fr2_c =? 0)) then (None, E_WRONG)
  else (Some (mkSink (DFile named (if named then (if fo_a1 =? io_str_wb then (@nil Z) else if fo_a1 =? io_str_ab then old else (E_WRONG :: nil)) else old))
                     f_bb f_in f_out), f_iotype).

Lemma whole_sink_new_filename (open_ok append : bool) old enc namep filep objp szof v1 v3 c e fe : objp <> 0 -> filep <> 0 ->
  rd_sink_new_file true filep namep objp old
    (io_sink_new io_SC_IO_TYPE_FILENAME (mode_of append) enc v1 namep v3 c e szof objp (if open_ok then filep else 0) fe)
  = (sink_new_filename open_ok append old, if open_ok then io_SC_IO_TYPE_FILENAME else 0).
Proof.
  intros Hp Hf. unfold io_sink_new, rd_sink_new_file, sink_new_filename, mode_of. cbv zeta. io_consts.
  destruct open_ok; destruct append; cbn; rewrite ?Z.eqb_refl; cbn;
    repeat (match goal with |- context [?x =? 0] => destruct (Z.eqb_spec x 0); [contradiction|] end); cbn; rewrite ?Z.eqb_refl; reflexivity.
Qed.

Lemma whole_sink_new_filefile (bad : bool) mode f enc filep objp szof v1 v2 c e fo : objp <> 0 -> filep <> 0 ->
  rd_sink_new_file false filep filep objp f
    (io_sink_new io_SC_IO_TYPE_FILEFILE mode enc v1 v2 filep c e szof objp fo (if bad then 1 else 0))
  = (if bad then None else Some (sink_new_filefile f), if bad then 0 else io_SC_IO_TYPE_FILEFILE).
Proof.
  intros Hp Hf. unfold io_sink_new, rd_sink_new_file, sink_new_filefile. cbv zeta. io_consts.
  destruct bad; cbn; rewrite ?Z.eqb_refl; cbn;
    repeat (match goal with |- context [?x =? 0] => destruct (Z.eqb_spec x 0); [contradiction|] end); cbn; rewrite ?Z.eqb_refl; reflexivity.
Qed.

(* ======================================================================================================================
   sc_io_sink_write
   ====================================================================================================================== *)
Definition T16 : Type := Z * Z * Z * Z * Z * Z * Z * Z * Z * Z * Z * Z * Z * Z * Z * Z.

(* reading for a buffer sink over array a at address base: sc_array_resize (buffer, n) is arr_resize, memcpy (array + off, data, n)
   is the checked copy of the first n bytes of d to offset off *)
Definition rd_sink_write_buffer (junk : Z -> Z) (s : sink) (a : arr) (bufp base dptr : Z) (d : list Z) (g : T16) : sink * Z :=
  let '(ret, bb', in', out', rs_c, rs_a0, rs_a1, mc_c, mc_a0, mc_a1, mc_a2, fw_c, fw_a0, fw_a1, fw_a2, fw_a3) := g in
  let a1 := if rs_c =? 1 then arr_resize junk a rs_a1 else a in
  if negb ((fw_c =? 0) && ((rs_c =? 0) || (rs_a0 =? bufp)) && ((mc_c =? 0) || (mc_a1 =? dptr))) then (mkSink (DBuf a1) bb' in' out', E_WRONG)
  else if mc_c =? 1 then
    match put (mc_a0 - base) (take mc_a2 d) (a_mem a1) with
    | Some m => (mkSink (DBuf (mkArr (a_esz a) (a_cnt a1) (a_view a1) m)) bb' in' out', ret)
    | None => (mkSink (DBuf a1) (k_bb s) (k_in s) (k_out s), E_OOB)      (* the copy would leave the block: undefined in C *)
    end
  else (mkSink (DBuf a1) bb' in' out', ret).

Lemma whole_sink_write_buffer junk s a d flt bufp base dptr filep fwr ba :
  k_dev s = DBuf a -> 0 < a_esz a -> 0 <= k_bb s -> 0 <= k_in s -> 0 <= k_out s ->
  k_bb s + len d + a_esz a < BIG -> k_in s + len d < BIG -> k_out s + len d < BIG ->
  byte_alloc_of (arr_resize junk a ((k_bb s + len d + a_esz a - 1) / a_esz a)) ba ->
  rd_sink_write_buffer junk s a bufp base dptr d
    (io_sink_write io_SC_IO_TYPE_BUFFER bufp (a_esz a) ba base (k_bb s) (k_in s) (k_out s) filep dptr (len d) fwr)
  = sink_write junk s d flt.
Proof.
  intros Hd He Hb Hi Ho B1 B2 B3 Hba. pose proof (len_nonneg d) as Hn.
  unfold io_sink_write, rd_sink_write_buffer, sink_write. rewrite Hd. cbv zeta. io_consts.
  destruct (Z.eqb_spec (len d) 0) as [E0|E0].
  - cbn. destruct s; cbn in *; subst; reflexivity.
  - rewrite Z.eqb_refl.
    change ((u64 (u64 (u64 (k_bb s + len d) + a_esz a) - 1)) / a_esz a) with (sink_new_count (a_esz a) (k_bb s) (len d)).
    rewrite gen_sink_new_count by lia.
    set (nc := (k_bb s + len d + a_esz a - 1) / a_esz a) in *.
    assert (Hnc : 0 < nc /\ k_bb s + len d <= nc * a_esz a < k_bb s + len d + a_esz a).
    { pose proof (ceil_bounds (k_bb s) (len d) (a_esz a) He Hb ltac:(lia)) as Hcb. subst nc. cbv zeta in Hcb. lia. }
    set (a' := arr_resize junk a nc) in *.
    assert (Hesz : a_esz a' = a_esz a) by (subst a'; unfold arr_resize; destruct (a_view a); [reflexivity|]; destruct (nc =? 0); reflexivity).
    assert (Hcnt : a_view a' = true -> a_cnt a' = nc) by (subst a'; unfold arr_resize; destruct (a_view a); [reflexivity|]; destruct (nc =? 0); discriminate).
    change (u64 (if 0 <=? ba then ba else s64 (- s64 (ba + 1))) <? u64 (nc * a_esz a)) with (sink_view_check nc (a_esz a) ba).
    assert (Hchk : sink_view_check nc (a_esz a) ba = negb (arr_fits a')).
    { unfold byte_alloc_of in Hba. destruct (a_view a') eqn:Ev.
      - destruct Hba as [-> Hl]. rewrite <- Hesz, <- (Hcnt eq_refl). apply gen_sink_view_check_view; [assumption| |assumption].
        rewrite (Hcnt eq_refl), Hesz. lia.
      - assert (Hc2 : a_cnt a' = nc).
        { subst a'. unfold arr_resize in *. destruct (a_view a); [discriminate|]. destruct (Z.eqb_spec nc 0); [lia|reflexivity]. }
        rewrite <- Hesz, <- Hc2. apply gen_sink_view_check_owner; [assumption| |lia]. rewrite Hc2, Hesz in *. lia. }
    rewrite Hchk. destruct (arr_fits a') eqn:Ef; cbn [negb].
    + cbn. rewrite !Z.eqb_refl. cbn. replace (base + k_bb s - base) with (k_bb s) by lia.
      rewrite (take_all (len d) d) by lia.
      rewrite !u64_small by lia.
      subst a'. destruct (put (k_bb s) d (a_mem (arr_resize junk a nc))); reflexivity.
    + cbn. rewrite !Z.eqb_refl. cbn. reflexivity.
Qed.

(* reading for a file sink: fwrite (data, 1, n, file) appends the first fwrite_ret bytes of the n offered *)
Definition rd_sink_write_file (nm : bool) (f : list Z) (filep dptr : Z) (d : list Z) (fwr : Z) (g : T16) : sink * Z :=
  let '(ret, bb', in', out', rs_c, rs_a0, rs_a1, mc_c, mc_a0, mc_a1, mc_a2, fw_c, fw_a0, fw_a1, fw_a2, fw_a3) := g in
  if negb ((rs_c =? 0) && (mc_c =? 0) && ((fw_c =? 0) || ((fw_a0 =? dptr) && (fw_a1 =? 1) && (fw_a3 =? filep)))) then (mkSink (DFile nm f) bb' in' out', E_WRONG)
  else (mkSink (DFile nm (if fw_c =? 1 then f ++ take fwr (take fw_a2 d) else f)) bb' in' out', ret).

(* fwrite's result: everything, or what the injected fault lets through *)
Definition fwrite_result (n : Z) (flt : option Z) : Z := match flt with Some k => Z.min (Z.max k 0) n | None => n end.

Lemma whole_sink_write_file junk s nm f d flt bufp esz ba base filep dptr :
  k_dev s = DFile nm f -> 0 <= k_in s -> 0 <= k_out s -> k_in s + len d < BIG -> k_out s + len d < BIG ->
  rd_sink_write_file nm f filep dptr d (fwrite_result (len d) flt)
    (io_sink_write (iotype_of_sdev (k_dev s)) bufp esz ba base (k_bb s) (k_in s) (k_out s) filep dptr (len d) (fwrite_result (len d) flt))
  = sink_write junk s d flt.
Proof.
  intros Hd Hi Ho B2 B3. pose proof (len_nonneg d) as Hn.
  assert (Hk : 0 <= fwrite_result (len d) flt <= len d) by (unfold fwrite_result; destruct flt; lia).
  unfold io_sink_write, rd_sink_write_file, sink_write. rewrite Hd. cbv zeta. fold (fwrite_result (len d) flt).
  set (k := fwrite_result (len d) flt) in *. io_consts.
  destruct (Z.eqb_spec (len d) 0) as [E0|E0].
  - cbn. destruct s; cbn in *; subst; reflexivity.
  - assert (Ht : (iotype_of_sdev (DFile nm f) =? 0) = false /\
                 ((iotype_of_sdev (DFile nm f) =? 1) || (iotype_of_sdev (DFile nm f) =? 2)) = true) by (destruct nm; split; reflexivity).
    destruct Ht as [-> ->].
    destruct (Z.eqb_spec k (len d)) as [Ek|Ek]; cbn; rewrite !Z.eqb_refl; cbn; rewrite (take_all (len d) d) by lia.
    + rewrite !u64_small by lia. rewrite Ek. reflexivity.
    + reflexivity.
Qed.

(* ======================================================================================================================
   sc_io_sink_complete, sc_io_sink_align, sc_io_sink_destroy, sc_io_sink_destroy_null
   ====================================================================================================================== *)
(* reading: the two counters afterwards, the code, what is stored through the two pointers (unchanged sentinel u1 / u2 if
   nothing is stored), whether fflush has been called on the sink's stream *)
Definition rd_sink_complete (s : sink) (filep : Z) (g : Z * Z * Z * Z * Z * Z * Z) : sink * Z * (Z * Z) :=
  let '(ret, st_in, st_out, in', out', ff_c, ff_a0) := g in
  if negb (match k_dev s with DBuf _ => ff_c =? 0 | DFile _ _ => (ff_c =? 1) && (ff_a0 =? filep) end)
  then (s, E_WRONG, (st_in, st_out)) else (mkSink (k_dev s) (k_bb s) in' out', ret, (st_in, st_out)).

(* what the model says is stored: each counter only through a pointer that is given *)
Definition stored2 (rep : option (Z * Z)) (w1 w2 : bool) (u1 u2 : Z) : Z * Z :=
  match rep with Some (i, o) => (if w1 then i else u1, if w2 then o else u2) | None => (u1, u2) end.

Lemma whole_sink_complete s (ff : bool) (w1 w2 : bool) p1 p2 u1 u2 filep esz : p1 <> 0 -> p2 <> 0 ->
  esz = match k_dev s with DBuf a => a_esz a | _ => esz end ->
  rd_sink_complete s filep
    (io_sink_complete (iotype_of_sdev (k_dev s)) esz (k_bb s) (k_in s) (k_out s) filep (ptr_of w1 p1) (ptr_of w2 p2) u1 u2 (if ff then -1 else 0))
  = (let '(s', rc, rep) := sink_complete s ff in (s', rc, stored2 rep w1 w2 u1 u2)).
Proof.
  intros H1 H2 He. unfold io_sink_complete, rd_sink_complete, sink_complete, stored2, ptr_of. cbv zeta. io_consts.
  destruct s as [dev bb i o]; cbn [k_dev k_bb k_in k_out] in *. destruct dev as [a|nm f].
  - subst esz. cbn. destruct (bb mod a_esz a =? 0); cbn.
    + destruct w1, w2; cbn; repeat (match goal with |- context [?x =? 0] => destruct (Z.eqb_spec x 0); [contradiction|] end); reflexivity.
    + reflexivity.
  - assert (Ht : (iotype_of_sdev (DFile nm f) =? 0) = false /\
                 ((iotype_of_sdev (DFile nm f) =? 1) || (iotype_of_sdev (DFile nm f) =? 2)) = true) by (destruct nm; split; reflexivity).
    destruct Ht as [-> ->]. destruct ff; cbn; rewrite ?Z.eqb_refl; cbn.
    + reflexivity.
    + destruct w1, w2; cbn; repeat (match goal with |- context [?x =? 0] => destruct (Z.eqb_spec x 0); [contradiction|] end); reflexivity.
Qed.

(* sc_io_sink_align: a zeroed block of fill bytes (sc_calloc (fill, 1)) is written with ONE sc_io_sink_write on the same sink and
   freed; the code is the write's code *)
Definition rd_sink_align (sinkp blk : Z) (g : Z * Z * Z * Z * Z * Z * Z * Z * Z * Z) : option (Z * Z) :=
  let '(ret, ca_c, ca_a1, ca_a2, w_c, w_a0, w_a1, w_a2, fr_c, fr_a1) := g in
  if (ca_c =? 1) && (ca_a2 =? 1) && (w_c =? 1) && (w_a0 =? sinkp) && (w_a1 =? blk) && (w_a2 =? ca_a1) && (fr_c =? 1) && (fr_a1 =? blk)
  then Some (w_a2, ret) else None.

Lemma whole_sink_align junk s al flt sinkp blk : 0 < al < BIG ->
  forall wret, wret = snd (sink_write junk s (zeros (align_fill (k_out s) al)) flt) ->
  match rd_sink_align sinkp blk (io_sink_align sinkp (k_out s) al blk wret) with
  | Some (n, rc) => sink_align junk s al flt = (fst (sink_write junk s (zeros n) flt), rc)
  | None => False
  end.
Proof.
  intros Ha wret ->. unfold io_sink_align, rd_sink_align. cbv zeta. rewrite ?Z.eqb_refl. cbn [andb].
  change (u64 (al - k_out s mod al) mod al) with (sink_align_fill al (k_out s)). rewrite gen_sink_align_fill by assumption.
  unfold sink_align. destruct (sink_write junk s (zeros (align_fill (k_out s) al)) flt); reflexivity.
Qed.

(* sc_io_sink_destroy: complete with two NULL pointers, fclose only for SC_IO_TYPE_FILENAME and also after a failed complete,
   the object freed on every path *)
Definition rd_sink_destroy (sinkp filep : Z) (named : bool) (g : Z * Z * Z * Z * Z * Z * Z * Z * Z) : Z :=
  let '(ret, co_c, co_a0, co_a1, co_a2, fc_c, fc_a0, fr_c, fr_a1) := g in
  if (co_c =? 1) && (co_a0 =? sinkp) && (co_a1 =? 0) && (co_a2 =? 0) && (fr_c =? 1) && (fr_a1 =? sinkp) &&
     (if named then (fc_c =? 1) && (fc_a0 =? filep) else fc_c =? 0) then ret else E_WRONG.

Lemma whole_sink_destroy s (ff cf : bool) sinkp filep :
  rd_sink_destroy sinkp filep (match k_dev s with DFile true _ => true | _ => false end)
    (io_sink_destroy sinkp (iotype_of_sdev (k_dev s)) filep (snd (fst (sink_complete s ff))) (if cf then -1 else 0))
  = fst (sink_destroy s ff cf).
Proof.
  unfold io_sink_destroy, rd_sink_destroy, sink_destroy. cbv zeta. io_consts. rewrite ?Z.eqb_refl. cbn [andb].
  destruct (sink_complete s ff) as [[s' rc] rep] eqn:Ec. cbn [fst snd].
  assert (Hrc : rc = 0 \/ rc = -1 \/ rc = -2).
  { unfold sink_complete in Ec. destruct (k_dev s); [destruct (negb _)|destruct ff]; inversion Ec; unfold E_NONE, E_FATAL, E_AGAIN; auto. }
  destruct (k_dev s) as [a|[|] f]; cbn; rewrite ?Z.eqb_refl; cbn;
    destruct Hrc as [-> | [-> | ->]]; destruct cf; reflexivity.
Qed.

Definition rd_destroy_null (p : Z) (g : Z * Z * Z * Z) : Z * Z :=
  let '(ret, p', d_c, d_a0) := g in
  if (if p =? 0 then d_c =? 0 else (d_c =? 1) && (d_a0 =? p)) then (ret, p') else (E_WRONG, p').

(* destroy_null: destroys what the pointer holds and NULLs it; nothing to do for NULL *)
Lemma whole_sink_destroy_null p dret :
  rd_destroy_null p (io_sink_destroy_null p dret) = (if p =? 0 then 0 else dret, 0).
Proof.
  unfold io_sink_destroy_null, rd_destroy_null. cbv zeta. io_consts.
  destruct (Z.eqb_spec p 0) as [->|Hp]; cbn; [reflexivity|]. rewrite Z.eqb_refl.
  destruct (Z.eqb_spec p 0); [contradiction|]. reflexivity.
Qed.

(* ======================================================================================================================
   sc_io_source_new
   ====================================================================================================================== *)
Definition T23 : Type := Z * Z * Z * Z * Z * Z * Z * Z * Z * Z * Z * Z * Z * Z * Z * Z * Z * Z * Z * Z * Z * Z * Z.

(* reading: the fresh source - every field that the function does not set is what SC_ALLOC_ZERO left (0 / NULL / not at the end) *)
Definition rd_source_new (kind : Z) (a : arr) (f : list Z) (pos : Z) (argp objp : Z) (g : T23) : option source * Z :=
  let '(ret, f_iotype, f_encode, f_buffer, f_bb, f_file, f_in, f_out, f_eof, f_mir, f_mirbuf, ca_c, ca_a1, ca_a2,
        fo_c, fo_a0, fo_a1, fr_c, fr_a1, fe_c, fe_a0, fr2_c, fr2_a1) := g in
  if negb ((ca_c =? 1) && (f_mir =? 0) && (f_mirbuf =? 0) &&
           (if kind =? 0 then (fo_c =? 0) && (fe_c =? 0) && (f_buffer =? argp)
            else if kind =? 1 then (fo_c =? 1) && (fo_a0 =? argp) && (fo_a1 =? io_str_rb) && (fe_c =? 0)
            else (fo_c =? 0) && (fe_c =? 1) && (fe_a0 =? argp)))
  then (None, E_WRONG)
  else if ret =? 0 then
    (if (fr_c + fr2_c =? 1) && (if kind =? 1 then fr_a1 =? objp else fr2_a1 =? objp) then (None, 0) else (None, E_WRONG))
  else if negb ((ret =? objp) && (fr_c =? 0) && (fr2_c =? 0) && ((kind =? 0) || (f_file =? (if kind =? 1 then f_file else argp)))) then (None, E_WRONG)
  else (Some (mkSrc (if kind =? 0 then RBuf a else RFile (kind =? 1) f pos) f_bb f_in f_out (z2b f_eof) None), f_iotype).

Lemma whole_source_new_buffer a enc bufp objp szof v2 v3 fo fe : objp <> 0 ->
  rd_source_new 0 a [] 0 bufp objp (io_source_new io_SC_IO_TYPE_BUFFER enc bufp v2 v3 szof objp fo fe)
  = (Some (source_new_buffer a), io_SC_IO_TYPE_BUFFER).
Proof.
  intros Hp. unfold io_source_new, rd_source_new, source_new_buffer. cbv zeta. io_consts. cbn. rewrite ?Z.eqb_refl. cbn.
  destruct (Z.eqb_spec objp 0); [contradiction|]. reflexivity.
Qed.

Lemma whole_source_new_filename (open_ok : bool) f enc namep filep objp szof v1 v3 fe : objp <> 0 -> filep <> 0 ->
  rd_source_new 1 (mkArr 1 0 false []) f 0 namep objp
    (io_source_new io_SC_IO_TYPE_FILENAME enc v1 namep v3 szof objp (if open_ok then filep else 0) fe)
  = (source_new_filename open_ok f, if open_ok then io_SC_IO_TYPE_FILENAME else 0).
Proof.
  intros Hp Hf. unfold io_source_new, rd_source_new, source_new_filename. cbv zeta. io_consts.
  destruct open_ok; cbn; rewrite ?Z.eqb_refl; cbn;
    repeat (match goal with |- context [?x =? 0] => destruct (Z.eqb_spec x 0); [contradiction|] end); cbn; rewrite ?Z.eqb_refl; reflexivity.
Qed.

Lemma whole_source_new_filefile (bad : bool) f pos enc filep objp szof v1 v2 fo : objp <> 0 -> filep <> 0 ->
  rd_source_new 2 (mkArr 1 0 false []) f pos filep objp
    (io_source_new io_SC_IO_TYPE_FILEFILE enc v1 v2 filep szof objp fo (if bad then 1 else 0))
  = (if bad then None else Some (source_new_filefile f pos), if bad then 0 else io_SC_IO_TYPE_FILEFILE).
Proof.
  intros Hp Hf. unfold io_source_new, rd_source_new, source_new_filefile. cbv zeta. io_consts.
  destruct bad; cbn; rewrite ?Z.eqb_refl; cbn;
    repeat (match goal with |- context [?x =? 0] => destruct (Z.eqb_spec x 0); [contradiction|] end); cbn; rewrite ?Z.eqb_refl; reflexivity.
Qed.

(* ======================================================================================================================
   sc_io_source_read
   ====================================================================================================================== *)
Definition T27 : Type := Z * Z * Z * Z * Z * Z * Z * Z * Z * Z * Z * Z * Z * Z * Z * Z * Z * Z * Z * Z * Z * Z * Z * Z * Z * Z * Z.
Definition eof_of (b : bool) : Z := if b then 1 else 0.
(* what *bytes_out holds afterwards: the stored count, or the value u it had before *)
Definition stored1 (cnt : option Z) (u : Z) : Z := match cnt with Some c => c | None => u end.
Definition dptr_of (data : option (list Z)) (p : Z) : Z := match data with Some _ => p | None => 0 end.

(* reading for an array source over a at address base: memcpy (data, array + off, k) delivers the k bytes at offset off into the
   caller's buffer; no stdio call, no mirror write *)
Definition rd_source_read_buffer (s : source) (a : arr) (base dptr : Z) (data : option (list Z)) (g : T27) : source * Z * Z * option (list Z) :=
  let '(ret, st_cnt, bb', in', out', eof', mc_c, mc_a0, mc_a1, mc_a2, fr_c, fr_a0, fr_a1, fr_a2, fr_a3, fe_c, fe_a0, er_c, er_a0,
        w_c, w_a0, w_a1, w_a2, sk_c, sk_a0, sk_a1, sk_a2) := g in
  if negb ((fr_c =? 0) && (fe_c =? 0) && (er_c =? 0) && (w_c =? 0) && (sk_c =? 0) && ((mc_c =? 0) || (mc_a0 =? dptr) && negb (dptr =? 0)))
  then (s, E_WRONG, st_cnt, data)
  else (mkSrc (r_dev s) bb' in' out' (z2b eof') (r_mir s), ret, st_cnt,
        if mc_c =? 1 then match data with Some u => Some (take mc_a2 (drop (mc_a1 - base) (a_mem a)) ++ drop mc_a2 u) | None => None end else data).

Lemma whole_source_read_buffer junk s a n data (wc : bool) flt base p cp u filep mirp fr fe er wr sk : p <> 0 -> cp <> 0 ->
  r_dev s = RBuf a -> 0 <= a_cnt a * a_esz a < BIG -> 0 <= r_bb s < BIG -> 0 <= n < BIG ->
  0 <= r_in s -> 0 <= r_out s -> r_in s + n < BIG -> r_out s + n < BIG ->
  rd_source_read_buffer s a base (dptr_of data p) data
    (io_source_read io_SC_IO_TYPE_BUFFER (a_cnt a) (a_esz a) base (r_bb s) (r_in s) (r_out s) (eof_of (r_eof s)) filep mirp
                    (dptr_of data p) n (ptr_of wc cp) u fr fe er wr sk)
  = (let '(s', rc, cnt, data') := source_read junk s n data wc flt in (s', rc, stored1 cnt u, data')).
Proof.
  intros Hp Hcp Hd Ht Hb Hn Hi Ho B1 B2.
  unfold io_source_read, rd_source_read_buffer, source_read, read_finish, stored1, ptr_of, eof_of. rewrite Hd. cbv zeta. io_consts.
  destruct s as [dev bb i o eof mir]; cbn [r_dev r_bb r_in r_out r_eof r_mir] in *. subst dev.
  destruct (Z.eqb_spec n 0) as [->|Hn0]; [|destruct eof]; cbn [orb z2b negb Z.eqb].
  - destruct wc; cbn; [destruct (Z.eqb_spec cp 0); [contradiction|]|]; cbn; destruct eof; reflexivity.
  - destruct wc; cbn; [destruct (Z.eqb_spec cp 0); [contradiction|]; reflexivity|].
    destruct (Z.ltb_spec 0 n); [|lia]. reflexivity.
  - rewrite ?Z.eqb_refl.
    rewrite (u64_small (a_cnt a * a_esz a)) by lia.
    destruct (Z.ltb_spec (a_cnt a * a_esz a) bb) as [Hs|Hs].
    + (* the array has shrunk behind the source *)
      cbn. destruct wc; cbn; [destruct (Z.eqb_spec cp 0); [contradiction|]; cbn; rewrite !Z.add_0_r, !u64_small by lia; reflexivity|].
      destruct (Z.ltb_spec 0 n); [|lia]. reflexivity.
    + rewrite (u64_small (a_cnt a * a_esz a - bb)) by lia.
      destruct (Z.eqb_spec (a_cnt a * a_esz a - bb) 0) as [E0|E0].
      * rewrite E0. cbn. destruct wc; cbn; [destruct (Z.eqb_spec cp 0); [contradiction|]; cbn; rewrite !Z.add_0_r, !u64_small by lia; reflexivity|].
        destruct (Z.ltb_spec 0 n); [|lia]. reflexivity.
      * set (av := a_cnt a * a_esz a - bb) in *.
        assert (Hk : (if av <? n then av else n) = Z.min av n) by (destruct (Z.ltb_spec av n); lia).
        rewrite Hk. set (k := Z.min av n) in *. assert (0 < k <= n) by lia.
        rewrite (u64_small (bb + k)) by lia.
        destruct data as [ud|]; cbn [dptr_of].
        -- destruct (Z.eqb_spec p 0); [contradiction|]. cbn [negb].
           destruct wc; cbn [negb andb].
           ++ destruct (Z.eqb_spec cp 0); [contradiction|]. cbn. rewrite ?Z.eqb_refl. cbn. rewrite !u64_small by lia.
              destruct (Z.eqb_spec p 0); [contradiction|]. cbn. replace (base + bb - base) with bb by lia. reflexivity.
           ++ rewrite ?Z.eqb_refl. cbn [andb]. destruct (Z.ltb_spec k n); cbn; rewrite ?Z.eqb_refl; cbn; destruct (Z.eqb_spec p 0); try contradiction; cbn;
                replace (base + bb - base) with bb by lia; rewrite ?u64_small by lia; reflexivity.
        -- cbn [negb Z.eqb]. destruct wc; cbn [negb andb].
           ++ destruct (Z.eqb_spec cp 0); [contradiction|]. cbn. rewrite !u64_small by lia. reflexivity.
           ++ rewrite ?Z.eqb_refl. cbn [andb]. destruct (Z.ltb_spec k n); cbn; rewrite ?u64_small by lia; reflexivity.
Qed.

(* reading for a file source at position pos: fread (data, 1, n, file) delivers the next fread_ret bytes into the caller's buffer and
   advances; fseek (file, n, SEEK_CUR) advances by n unless it fails; sc_io_sink_write (mirror, data, k) writes the first k of the
   bytes just read into the mirror sink; feof / ferror are only consulted on the same stream *)
Definition rd_source_read_file (junk : Z -> Z) (s : source) (nm : bool) (f : list Z) (pos : Z) (filep mirp dptr : Z)
  (data : option (list Z)) (fread_ret fseek_ret : Z) (g : T27) : source * Z * Z * option (list Z) :=
  let '(ret, st_cnt, bb', in', out', eof', mc_c, mc_a0, mc_a1, mc_a2, fr_c, fr_a0, fr_a1, fr_a2, fr_a3, fe_c, fe_a0, er_c, er_a0,
        w_c, w_a0, w_a1, w_a2, sk_c, sk_a0, sk_a1, sk_a2) := g in
  if negb ((mc_c =? 0) && ((fr_c =? 0) || (fr_a0 =? dptr) && (fr_a1 =? 1) && (fr_a3 =? filep) && negb (dptr =? 0)) &&
           ((fe_c =? 0) || (fe_a0 =? filep) && (fr_c =? 1)) && ((er_c =? 0) || (er_a0 =? filep) && (fe_c =? 1)) &&
           ((w_c =? 0) || (w_a0 =? mirp) && (w_a1 =? dptr) && (fr_c =? 1) && negb (mirp =? 0)) &&
           ((sk_c =? 0) || (sk_a0 =? filep) && (sk_a2 =? io_SEEK_CUR) && (fr_c =? 0)))
  then (s, E_WRONG, st_cnt, data)
  else
    let got := take fread_ret (drop pos f) in
    let pos' := if fr_c =? 1 then pos + fread_ret else if (sk_c =? 1) && (fseek_ret =? 0) then pos + sk_a1 else pos in
    let mir' := if w_c =? 1 then match r_mir s with Some ms => Some (fst (sink_write junk ms (take w_a2 got) None)) | None => None end else r_mir s in
    (mkSrc (RFile nm f pos') bb' in' out' (z2b eof') mir', ret, st_cnt,
     if fr_c =? 1 then match data with Some u => Some (got ++ drop fread_ret u) | None => None end else data).

(* the stdio contract of the model for one call: what fread returns and what feof / ferror say afterwards *)
Definition fread_result (f : list Z) (pos n : Z) (flt : fault) : Z * bool * bool :=
  let natural := Z.min n (Z.max 0 (len f - pos)) in
  match flt with ShortRead k e r => (Z.min (Z.max k 0) natural, e, r) | _ => (natural, true, false) end.
Definition fseek_result (flt : fault) : Z := match flt with SeekFail => -1 | _ => 0 end.
Definition mirror_ptr (m : option sink) (mirp : Z) : Z := match m with Some _ => mirp | None => 0 end.
Definition mirror_write_ret (junk : Z -> Z) (m : option sink) (got : list Z) : Z :=
  match m with Some ms => snd (sink_write junk ms got None) | None => 0 end.

Lemma whole_source_read_file junk s nm f pos n data (wc : bool) flt p cp u filep mirp cnt esz base : p <> 0 -> cp <> 0 -> mirp <> 0 ->
  r_dev s = RFile nm f pos -> 0 <= pos -> 0 <= n < BIG -> 0 <= r_in s -> 0 <= r_out s -> r_in s + n < BIG -> r_out s + n < BIG ->
  let '(k, eofi, erri) := fread_result f pos n flt in
  rd_source_read_file junk s nm f pos filep mirp (dptr_of data p) data k (fseek_result flt)
    (io_source_read (iotype_of_rdev (r_dev s)) cnt esz base (r_bb s) (r_in s) (r_out s) (eof_of (r_eof s)) filep (mirror_ptr (r_mir s) mirp)
                    (dptr_of data p) n (ptr_of wc cp) u k (eof_of eofi) (eof_of erri)
                    (mirror_write_ret junk (r_mir s) (take k (drop pos f))) (fseek_result flt))
  = (let '(s', rc, c, data') := source_read junk s n data wc flt in (s', rc, stored1 c u, data')).
Proof.
  intros Hp Hcp Hm Hd Hpos Hn Hi Ho B1 B2.
  unfold fread_result. set (natural := Z.min n (Z.max 0 (len f - pos))).
  assert (Hnat : 0 <= natural <= n) by (subst natural; lia).
  destruct s as [dev bb i o eof mir]; cbn [r_dev r_bb r_in r_out r_eof r_mir] in *. subst dev.
  assert (Ht : (iotype_of_rdev (RFile nm f pos) =? 0) = false /\
               ((iotype_of_rdev (RFile nm f pos) =? 1) || (iotype_of_rdev (RFile nm f pos) =? 2)) = true) by (destruct nm; split; reflexivity).
  set (ke := match flt with ShortRead k e r => (Z.min (Z.max k 0) natural, e, r) | _ => (natural, true, false) end).
  assert (Hke : ke = match flt with ShortRead k e r => (Z.min (Z.max k 0) natural, e, r) | _ => (natural, true, false) end) by reflexivity.
  destruct ke as [[k eofi] erri].
  assert (Hk : 0 <= k <= n) by (destruct flt; inversion Hke; subst; lia).
  unfold io_source_read, rd_source_read_file, source_read, read_finish, stored1, ptr_of, eof_of. cbv zeta. io_consts.
  cbn [r_dev r_bb r_in r_out r_eof r_mir]. destruct Ht as [-> ->]. fold natural. rewrite <- Hke.
  assert (Hnn : (n <? n) = false) by (apply Z.ltb_irrefl).
  destruct (Z.eqb_spec n 0) as [->|Hn0]; [|destruct eof]; cbn [orb z2b negb Z.eqb].
  - destruct wc; cbn; [destruct (Z.eqb_spec cp 0); [contradiction|]|]; cbn; destruct eof; reflexivity.
  - destruct wc; cbn; [destruct (Z.eqb_spec cp 0); [contradiction|]; reflexivity|].
    destruct (Z.ltb_spec 0 n); [|lia]. reflexivity.
  - destruct data as [ud|]; cbn [dptr_of].
    + (* fread: short count -> feof, and ferror only if feof says yes; then the mirror write *)
      destruct (Z.ltb_spec k n) as [Hs|Hs]; [assert (Hlt : (k <? n) = true) by (apply Z.ltb_lt; assumption)|assert (k = n) by lia; subst k];
        destruct eofi, erri; destruct mir as [ms|]; cbn [mirror_ptr mirror_write_ret];
        try (destruct (sink_write junk ms (take _ (drop pos f)) None) as [ms' rcw] eqn:Ew; cbn [snd fst];
             destruct (Z.eqb_spec rcw 0) as [->|Hr]);
        destruct wc; crunch; rewrite ?Hlt, ?Hnn; crunch; rewrite ?take_take, ?Z.min_id, ?Ew; crunch; rewrite ?u64_small by lia; reflexivity.
    + (* fseek *)
      rewrite (s64_small n) by (unfold BIG in *; lia).
      destruct flt; cbn [fseek_result]; destruct wc; crunch; rewrite ?Hnn; crunch; rewrite ?u64_small by lia; reflexivity.
Qed.

(* ======================================================================================================================
   sc_io_source_complete / _align / _activate_mirror / _read_mirror / _destroy / _destroy_null
   ====================================================================================================================== *)
Definition mirror_complete_ret (m : option sink) : Z :=
  match m with Some ms => snd (fst (sink_complete ms false)) | None => 0 end.

(* reading: sc_io_sink_complete (mirror, NULL, NULL) is the completion of the mirror sink; it happens exactly for a file source
   with a mirror *)
Definition rd_source_complete (s : source) (mirp : Z) (g : Z * Z * Z * Z * Z * Z * Z * Z * Z) : source * Z * (Z * Z) :=
  let '(ret, st_in, st_out, in', out', co_c, co_a0, co_a1, co_a2) := g in
  if negb (match r_dev s, r_mir s with
           | RFile _ _ _, Some _ => (co_c =? 1) && (co_a0 =? mirp) && (co_a1 =? 0) && (co_a2 =? 0)
           | _, _ => co_c =? 0
           end) then (s, E_WRONG, (st_in, st_out))
  else (mkSrc (r_dev s) (r_bb s) in' out' (r_eof s)
              (if co_c =? 1 then match r_mir s with Some ms => Some (fst (fst (sink_complete ms false))) | None => None end else r_mir s),
        ret, (st_in, st_out)).

Lemma whole_source_complete s (w1 w2 : bool) p1 p2 u1 u2 mirp esz : p1 <> 0 -> p2 <> 0 -> mirp <> 0 ->
  esz = match r_dev s with RBuf a => a_esz a | _ => esz end ->
  (match r_dev s with RBuf _ => r_mir s = None | _ => True end) ->
  rd_source_complete s mirp
    (io_source_complete (iotype_of_rdev (r_dev s)) esz (r_bb s) (r_in s) (r_out s) (mirror_ptr (r_mir s) mirp) (ptr_of w1 p1) (ptr_of w2 p2) u1 u2
                        (mirror_complete_ret (r_mir s)))
  = (let '(s', rc, rep) := source_complete s in
     (* after AGAIN nothing has been touched *)
     (s', rc, stored2 rep w1 w2 u1 u2)).
Proof.
  intros H1 H2 Hm He Hmir. unfold io_source_complete, rd_source_complete, source_complete, stored2, ptr_of, mirror_complete_ret, mirror_ptr. cbv zeta. io_consts.
  destruct s as [dev bb i o eof mir]; cbn [r_dev r_bb r_in r_out r_eof r_mir] in *. destruct dev as [a|nm f pos].
  - subst esz mir. cbn. destruct (bb mod a_esz a =? 0); cbn; [|reflexivity].
    destruct w1, w2; crunch; reflexivity.
  - assert (Ht : (iotype_of_rdev (RFile nm f pos) =? 0) = false /\
                 ((iotype_of_rdev (RFile nm f pos) =? 1) || (iotype_of_rdev (RFile nm f pos) =? 2)) = true) by (destruct nm; split; reflexivity).
    destruct Ht as [-> ->]. destruct mir as [ms|].
    + destruct (sink_complete ms false) as [[ms' rcm] rep]. cbn [fst snd]. destruct w1, w2; crunch; reflexivity.
    + destruct w1, w2; crunch; reflexivity.
Qed.

(* sc_io_source_align: ONE sc_io_source_read (source, NULL, fill, NULL) on the same source; its code is returned *)
Definition rd_source_align (srcp : Z) (g : Z * Z * Z * Z * Z * Z) : option (Z * Z) :=
  let '(ret, r_c, r_a0, r_a1, r_a2, r_a3) := g in
  if (r_c =? 1) && (r_a0 =? srcp) && (r_a1 =? 0) && (r_a3 =? 0) then Some (r_a2, ret) else None.

Lemma whole_source_align junk s al flt srcp : 0 < al < BIG ->
  forall rret, rret = snd (fst (fst (source_read junk s (align_fill (r_out s) al) None false flt))) ->
  match rd_source_align srcp (io_source_align srcp (r_out s) al rret) with
  | Some (n, rc) => source_align junk s al flt = (fst (fst (fst (source_read junk s n None false flt))), rc)
  | None => False
  end.
Proof.
  intros Ha rret ->. unfold io_source_align, rd_source_align. cbv zeta. rewrite !Z.eqb_refl. cbn [andb].
  change (u64 (al - r_out s mod al) mod al) with (source_align_fill al (r_out s)). rewrite gen_source_align_fill by assumption.
  unfold source_align. destruct (source_read junk s (align_fill (r_out s) al) None false flt) as [[[s' rc] c] d']. reflexivity.
Qed.

(* sc_io_source_activate_mirror: refused for an array source and for a second activation; otherwise a fresh array of element
   size sc_array_new's argument and a buffer sink on it, created by sc_io_sink_new with the arguments read here *)
Definition rd_activate_mirror (junk : Z -> Z) (s : source) (arrp sinkp : Z) (g : Z * Z * Z * Z * Z * Z * Z * Z * Z * Z) : source * Z :=
  let '(ret, mirbuf', mir', an_c, an_a0, sn_c, sn_a0, sn_a1, sn_a2, sn_a3) := g in
  if (an_c =? 0) && (sn_c =? 0) then (s, ret)
  else if negb ((an_c =? 1) && (sn_c =? 1) && (sn_a0 =? io_SC_IO_TYPE_BUFFER) && (sn_a2 =? io_SC_IO_ENCODE_NONE) && (sn_a3 =? arrp) &&
                (mirbuf' =? arrp) && (mir' =? sinkp)) then (s, E_WRONG)
  else (mkSrc (r_dev s) (r_bb s) (r_in s) (r_out s) (r_eof s)
              (Some (sink_new_buffer junk (sn_a1 =? io_SC_IO_MODE_APPEND) (mkArr an_a0 0 false []))), ret).

Lemma whole_source_activate_mirror junk s arrp sinkp mirp mbp : arrp <> 0 -> sinkp <> 0 -> mirp <> 0 ->
  rd_activate_mirror junk s arrp sinkp
    (io_source_activate_mirror (iotype_of_rdev (r_dev s)) mbp (mirror_ptr (r_mir s) mirp) arrp sinkp)
  = source_activate_mirror junk s.
Proof.
  intros Ha Hs Hm. unfold io_source_activate_mirror, rd_activate_mirror, source_activate_mirror, mirror_ptr. cbv zeta. io_consts.
  destruct s as [dev bb i o eof mir]; cbn [r_dev r_bb r_in r_out r_eof r_mir] in *. destruct dev as [a|nm f pos].
  - reflexivity.
  - assert (Ht : (iotype_of_rdev (RFile nm f pos) =? 0) = false) by (destruct nm; reflexivity). rewrite Ht.
    destruct mir as [ms|]; crunch; reflexivity.
Qed.

(* sc_io_source_read_mirror: NULL mirror buffer -> FATAL; otherwise a fresh buffer source on the mirror array, ONE read with the
   caller's arguments, the fresh source destroyed; result 0 / 1 from the two codes *)
Definition rd_read_mirror (mbp srcp dptr n cptr : Z) (g : Z * Z * Z * Z * Z * Z * Z * Z * Z * Z * Z * Z) : Z :=
  let '(ret, sn_c, sn_a0, sn_a1, sn_a2, r_c, r_a0, r_a1, r_a2, r_a3, d_c, d_a0) := g in
  if (sn_c =? 0) && (r_c =? 0) && (d_c =? 0) then ret
  else if (sn_c =? 1) && (sn_a0 =? io_SC_IO_TYPE_BUFFER) && (sn_a1 =? io_SC_IO_ENCODE_NONE) && (sn_a2 =? mbp) &&
          (r_c =? 1) && (r_a0 =? srcp) && (r_a1 =? dptr) && (r_a2 =? n) && (r_a3 =? cptr) && (d_c =? 1) && (d_a0 =? srcp) then ret else E_WRONG.

Lemma whole_source_read_mirror junk s n data (wc : bool) mbp srcp p cp : mbp <> 0 -> srcp <> 0 ->
  (forall ms, r_mir s = Some ms -> exists a, k_dev ms = DBuf a) ->
  let inner := match r_mir s with
               | Some ms => match k_dev ms with DBuf a => source_read junk (source_new_buffer a) n data wc NoFault | _ => (source_new_buffer (mkArr 1 0 false []), 0, None, data) end
               | None => (source_new_buffer (mkArr 1 0 false []), 0, None, data)
               end in
  rd_read_mirror mbp srcp (dptr_of data p) n (ptr_of wc cp)
    (io_source_read_mirror (match r_mir s with Some _ => mbp | None => 0 end) (dptr_of data p) n (ptr_of wc cp) srcp
                           (snd (fst (fst inner))) (source_destroy (fst (fst (fst inner))) false))
  = fst (fst (source_read_mirror junk s n data wc)).
Proof.
  intros Hm Hs Hbuf. unfold io_source_read_mirror, rd_read_mirror, source_read_mirror. cbv zeta. io_consts.
  destruct (r_mir s) as [ms|] eqn:Em.
  - destruct (Hbuf ms eq_refl) as [a Ha]. rewrite Ha.
    destruct (source_read junk (source_new_buffer a) n data wc NoFault) as [[[src' rc] cnt] data'] eqn:Er. cbn [fst snd].
    assert (Hd : source_destroy src' false = 0 \/ source_destroy src' false = -1).
    { unfold source_destroy. destruct (source_complete src') as [[? ?] ?].
      match goal with |- (if ?b then _ else _) = _ \/ _ => destruct b end; unfold E_FATAL, E_NONE; auto. }
    destruct (Z.eqb_spec rc 0) as [->|Hr]; destruct Hd as [-> | ->]; crunch; try reflexivity;
      assert (Hz : (rc =? 0) = false) by (apply Z.eqb_neq; assumption); rewrite ?Hz; crunch; reflexivity.
  - crunch. reflexivity.
Qed.

(* sc_io_source_destroy: complete with two NULL pointers; the mirror sink destroyed and its array freed iff there is a mirror;
   fclose only for SC_IO_TYPE_FILENAME, also after errors; the object freed on every path *)
Definition rd_source_destroy (srcp filep mirp mbp : Z) (named has_mirror : bool) (g : Z * Z * Z * Z * Z * Z * Z * Z * Z * Z * Z * Z * Z) : Z :=
  let '(ret, co_c, co_a0, co_a1, co_a2, sd_c, sd_a0, ad_c, ad_a0, fc_c, fc_a0, fr_c, fr_a1) := g in
  if (co_c =? 1) && (co_a0 =? srcp) && (co_a1 =? 0) && (co_a2 =? 0) && (fr_c =? 1) && (fr_a1 =? srcp) &&
     (if has_mirror then (sd_c =? 1) && (sd_a0 =? mirp) && (ad_c =? 1) && (ad_a0 =? mbp) else (sd_c =? 0) && (ad_c =? 0)) &&
     (if named then (fc_c =? 1) && (fc_a0 =? filep) else fc_c =? 0) then ret else E_WRONG.

Lemma whole_source_destroy s (cf : bool) srcp filep mirp mbp : mirp <> 0 ->
  rd_source_destroy srcp filep mirp mbp (match r_dev s with RFile true _ _ => true | _ => false end) (match r_mir s with Some _ => true | None => false end)
    (io_source_destroy srcp (iotype_of_rdev (r_dev s)) filep (mirror_ptr (r_mir s) mirp) mbp (snd (fst (source_complete s)))
                       (match r_mir s with Some ms => fst (sink_destroy ms false false) | None => 0 end) (if cf then -1 else 0))
  = source_destroy s cf.
Proof.
  intros Hm. unfold io_source_destroy, rd_source_destroy, source_destroy, mirror_ptr. cbv zeta. io_consts.
  destruct (source_complete s) as [[s' rc] rep] eqn:Ec. cbn [fst snd].
  assert (Hrc : (rc =? 0) = true \/ (rc =? 0) = false) by (destruct (rc =? 0); auto).
  destruct (r_mir s) as [ms|].
  - assert (Hd : fst (sink_destroy ms false false) = 0 \/ fst (sink_destroy ms false false) = -1).
    { unfold sink_destroy. destruct (sink_complete ms false) as [[? ?] ?].
      match goal with |- fst (if ?b then _ else _, _) = _ \/ _ => destruct b end; unfold E_FATAL, E_NONE; cbn; auto. }
    destruct (r_dev s) as [a|[|] f pos]; destruct Hrc as [Hz|Hz]; destruct Hd as [-> | ->]; destruct cf; crunch; rewrite ?Hz; crunch; reflexivity.
  - destruct (r_dev s) as [a|[|] f pos]; destruct Hrc as [Hz|Hz]; destruct cf; crunch; rewrite ?Hz; crunch; reflexivity.
Qed.

Lemma whole_source_destroy_null p dret :
  rd_destroy_null p (io_source_destroy_null p dret) = (if p =? 0 then 0 else dret, 0).
Proof.
  unfold io_source_destroy_null, rd_destroy_null. cbv zeta. io_consts.
  destruct (Z.eqb_spec p 0) as [->|Hp]; cbn; [reflexivity|]. rewrite Z.eqb_refl.
  destruct (Z.eqb_spec p 0); [contradiction|]. reflexivity.
Qed.

(* ======================================================================================================================
   file_return, sc_io_file_save, sc_io_file_load
   ====================================================================================================================== *)
(* file_return (retval, sink, source): each object that is not NULL is destroyed, `||` turns every error into 1 *)
Lemma whole_file_return r k o sd sr :
  io_file_return r k o sd sr =
  (let r1 := if k =? 0 then r else b2z (z2b sd || z2b r) in
   let r2 := if o =? 0 then r1 else b2z (z2b sr || z2b r1) in
   (r2, if k =? 0 then 0 else 1, if k =? 0 then 0 else k, if o =? 0 then 0 else 1, if o =? 0 then 0 else o)).
Proof. unfold io_file_return. cbv zeta. destruct (k =? 0), (o =? 0); reflexivity. Qed.

Definition frv (r k o sd sr : Z) : Z := fst (fst (fst (fst (io_file_return r k o sd sr)))).

Definition T27b : Type := T27.
(* reading of sc_io_file_save: a FILENAME sink in write mode on the given name, ONE write of the whole array, destroy_null;
   exactly one file_return, with the arguments of its path *)
Definition rd_file_save (namep arrayp cnt sinkp : Z) (g : T27) : Z :=
  let '(ret, sn_c, sn_a0, sn_a1, sn_a2, sn_a3, f1_c, f1_a0, f1_a1, f1_a2, w_c, w_a0, w_a1, w_a2, f2_c, f2_a0, f2_a1, f2_a2, dn_c,
        f3_c, f3_a0, f3_a1, f3_a2, f4_c, f4_a0, f4_a1, f4_a2) := g in
  if (sn_c =? 1) && (sn_a0 =? io_SC_IO_TYPE_FILENAME) && (sn_a1 =? io_SC_IO_MODE_WRITE) && (sn_a2 =? io_SC_IO_ENCODE_NONE) && (sn_a3 =? namep) &&
     ((w_c =? 0) || (w_a0 =? sinkp) && (w_a1 =? arrayp) && (w_a2 =? cnt)) &&
     ((f1_c =? 0) || (f1_a0 =? -1) && (f1_a1 =? 0) && (f1_a2 =? 0) && (w_c =? 0)) &&
     ((f2_c =? 0) || (f2_a0 =? -1) && (f2_a1 =? sinkp) && (f2_a2 =? 0) && (w_c =? 1) && (dn_c =? 0)) &&
     ((f3_c =? 0) || (f3_a0 =? -1) && (f3_a1 =? 0) && (f3_a2 =? 0) && (dn_c =? 1)) &&
     ((f4_c =? 0) || (f4_a0 =? 0) && (f4_a1 =? 0) && (f4_a2 =? 0) && (dn_c =? 1)) &&
     (f1_c + f2_c + f3_c + f4_c =? 1) then ret else E_WRONG.

Lemma whole_file_save junk a (open_ok : bool) flt (ff cf : bool) namep arrayp sinkp sd sr : sinkp <> 0 ->
  let w := sink_write junk (mkSink (DFile true []) 0 0 0) (take (a_cnt a) (a_mem a)) flt in
  rd_file_save namep arrayp (a_cnt a) sinkp
    (io_file_save namep arrayp (a_cnt a) 0 (if open_ok then sinkp else 0) (snd w) (fst (sink_destroy (fst w) ff cf))
                  (frv (-1) 0 0 sd sr) (frv (-1) sinkp 0 sd sr) (frv (-1) 0 0 sd sr) (frv 0 0 0 sd sr))
  = fst (file_save junk a open_ok flt ff cf).
Proof.
  intros Hs w. unfold frv. rewrite !whole_file_return. unfold io_file_save, rd_file_save, file_save, sink_new_filename. cbv zeta. io_consts.
  destruct open_ok.
  - subst w. destruct (sink_write junk (mkSink (DFile true []) 0 0 0) (take (a_cnt a) (a_mem a)) flt) as [s' rc] eqn:Ew. cbn [fst snd].
    destruct (Z.eqb_spec rc 0) as [->|Hr].
    + destruct (sink_destroy s' ff cf) as [rcd dev] eqn:Ed. cbn [fst].
      assert (Hd : rcd = 0 \/ rcd = -1).
      { unfold sink_destroy in Ed. destruct (sink_complete s' ff) as [[? ?] ?].
        match type of Ed with (if ?b then _ else _, _) = _ => destruct b end; inversion Ed; unfold E_FATAL, E_NONE; auto. }
      destruct Hd as [-> | ->]; crunch; reflexivity.
    + assert (Hz : (rc =? 0) = false) by (apply Z.eqb_neq; assumption). crunch. rewrite ?Hz. crunch.
      rewrite orb_true_r. reflexivity.
  - crunch. reflexivity.
Qed.

(* sc_io_file_load, statements in front of the loop: a FILENAME source on the given name; if it cannot be opened, file_return (-1, NULL, NULL);
   otherwise the loop starts at bpos = 0 with the window 1 << 14 *)
Lemma whole_file_load_open junk fuel fo b flts cf namep srcp sd sr : srcp <> 0 ->
  let '(ret, stop, sink, source, bpos, w, sn_c, sn_a0, sn_a1, sn_a2, f_c, f_a0, f_a1, f_a2) :=
    io_file_load_open namep (match fo with Some _ => srcp | None => 0 end) (frv (-1) 0 0 sd sr) in
  sn_c = 1 /\ sn_a0 = io_SC_IO_TYPE_FILENAME /\ sn_a1 = io_SC_IO_ENCODE_NONE /\ sn_a2 = namep /\ sink = 0 /\
  (stop = 2 -> f_c = 1 /\ f_a0 = -1 /\ f_a1 = 0 /\ f_a2 = 0) /\ (stop = 0 -> f_c = 0 /\ source = srcp) /\
  file_load junk fuel fo b flts cf =
  (if stop =? 2 then Some (ret, b)
   else match fo with Some c => match source_new_filename true c with Some src => load_loop junk w fuel src b bpos flts cf | None => None end | None => None end).
Proof.
  intros Hs. unfold frv. rewrite whole_file_return. unfold io_file_load_open, file_load. cbv zeta. io_consts.
  destruct fo as [c|]; crunch; repeat split; try reflexivity; try discriminate; intros; try discriminate; auto.
Qed.

(* one pass of the loop body: sc_array_resize (buffer, n) is arr_resize, sc_io_source_read (source, window at bpos, n, &bout) is the
   model's read of n bytes into that window with a count pointer; stop = 2 returns, stop = 1 leaves the loop after the second resize,
   stop = 0 goes round again at the new position *)
Definition T17 : Type := Z * Z * Z * Z * Z * Z * Z * Z * Z * Z * Z * Z * Z * Z * Z * Z * Z.
Definition rd_load_body (junk : Z -> Z) (fuel : nat) (src : source) (b : arr) (bpos : Z) (flts : list fault) (cf : bool) (bufp srcp idx : Z)
  (after : source -> Z) (g : T17) : option (Z * arr) :=
  let '(ret, stop, bpos', rs_c, rs_a0, rs_a1, r_c, r_a0, r_a1, r_a2, f_c, f_a0, f_a1, f_a2, rs2_c, rs2_a0, rs2_a1) := g in
  if negb ((rs_c =? 1) && (rs_a0 =? bufp) && (r_c =? 1) && (r_a0 =? srcp) && (r_a1 =? idx) &&
           ((f_c =? 0) || (f_a0 =? -1) && (f_a1 =? 0) && (f_a2 =? srcp) && (stop =? 2)) && ((rs2_c =? 0) || (rs2_a0 =? bufp) && (stop =? 1)))
  then Some (E_WRONG, b)
  else
    let b1 := arr_resize junk b rs_a1 in
    let u := take r_a2 (drop bpos (a_mem b1)) in
    let '(src', rc, cnt, u') := source_read junk src r_a2 (Some u) true (hd NoFault flts) in
    let m2 := match u' with Some v => take bpos (a_mem b1) ++ v ++ drop (bpos + r_a2) (a_mem b1) | None => a_mem b1 end in
    let b2 := mkArr (a_esz b1) (a_cnt b1) (a_view b1) m2 in
    if stop =? 2 then Some (ret, b2)
    else if stop =? 1 then Some (after src', if rs2_c =? 1 then arr_resize junk b2 rs2_a1 else b2)
    else load_loop junk r_a2 fuel src' b2 bpos' (tl flts) cf.

(* what sc_io_source_read hands back in the pass: its code and the count stored through &bout *)
Definition pass_read (junk : Z -> Z) (src : source) (b : arr) (bpos w : Z) (flts : list fault) : Z * Z :=
  let b1 := arr_resize junk b (bpos + w) in
  let '(_, rc, cnt, _) := source_read junk src w (Some (take w (drop bpos (a_mem b1)))) true (hd NoFault flts) in
  (rc, stored1 cnt 0).

Lemma whole_file_load_body junk fuel src b bpos flts cf bufp srcp idx sd sr : srcp <> 0 ->
  0 <= bpos -> bpos + bwins < BIG -> 0 <= snd (pass_read junk src b bpos bwins flts) <= bwins ->
  rd_load_body junk fuel src b bpos flts cf bufp srcp idx (fun src' => if negb (source_destroy src' cf =? 0) then -1 else 0)
    (io_file_load_body bufp 0 srcp bpos load_bwins (snd (pass_read junk src b bpos bwins flts)) idx (fst (pass_read junk src b bpos bwins flts))
                       (frv (-1) 0 srcp sd sr))
  = load_loop junk bwins (S fuel) src b bpos flts cf.
Proof.
  intros Hs Hb HB. unfold pass_read, frv. rewrite whole_file_return. rewrite <- gen_load_bwins.
  remember bwins as w eqn:Hw. assert (Hw' : w = 16384) by (rewrite Hw; reflexivity). clear Hw.
  unfold io_file_load_body, rd_load_body. cbv zeta. cbn [load_loop].
  rewrite (u64_small (bpos + w)) by lia.
  remember (source_read junk src) as RD eqn:HRD. remember (hd NoFault flts) as flt0.
  destruct (RD w (Some (take w (drop bpos (a_mem (arr_resize junk b (bpos + w)))))) true flt0) as [[[src' rc] cnt] u'] eqn:Er. cbn [fst snd]. intros Hbo.
  destruct (Z.eqb_spec rc 0) as [->|Hr].
  - crunch. destruct (Z.ltb_spec (stored1 cnt 0) w) as [Hl|Hl].
    + crunch. rewrite Er. crunch. rewrite (u64_small (bpos + stored1 cnt 0)) by lia.
      unfold stored1 in *. destruct cnt as [c|]; [destruct (Z.ltb_spec c w); [reflexivity|lia] | destruct (Z.ltb_spec 0 w); [reflexivity|lia]].
    + crunch. rewrite Er. crunch. unfold stored1 in *. destruct cnt as [c|]; [|lia].
      assert (c = w) by lia. subst c. rewrite ?(u64_small (bpos + w)) by lia. rewrite Z.ltb_irrefl. reflexivity.
  - assert (Hz : (rc =? 0) = false) by (apply Z.eqb_neq; assumption). crunch. rewrite ?Hz. crunch. rewrite Er. crunch.
    rewrite ?orb_true_r. reflexivity.
Qed.

(* behind the loop: destroy_null (&source); file_return (-1 | 0, NULL, NULL) - `source` holds what destroy_null left (NULL) *)
Lemma whole_file_load_close dn sd sr :
  io_file_load_close 0 0 dn (frv (-1) 0 0 sd sr) (frv 0 0 0 sd sr) =
  (if negb (dn =? 0) then -1 else 0, 1, if dn =? 0 then 0 else 1, if dn =? 0 then 0 else -1, 0, 0, if dn =? 0 then 1 else 0, 0, 0, 0).
Proof. unfold frv. rewrite !whole_file_return. unfold io_file_load_close. cbv zeta. destruct (Z.eqb_spec dn 0) as [->|H]; crunch; reflexivity. Qed.
