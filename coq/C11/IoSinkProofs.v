(* C11 - proofs about sinks: chunking transparency, counters, alignment, completion, views. *)
From Coq Require Import ZArith List Bool Lia.
From ScV Require Import Base.CInt C11.IoModel C11.IoLists.
Import ListNotations.
Local Open Scope Z_scope.
Ltac Zify.zify_post_hook ::= Z.div_mod_to_equations.

(* ---- well-formed sinks ------------------------------------------------------------------- *)
Definition sink_wf (s : sink) : Prop :=
  match k_dev s with
  | DBuf a => 0 < a_esz a /\ 0 <= k_bb s <= len (a_mem a) /\
              (a_view a = false -> len (a_mem a) = a_cnt a * a_esz a)
  | DFile _ _ => True
  end.

(* the sink can grow: an owner array or a file *)
Definition growable (s : sink) : Prop :=
  match k_dev s with DBuf a => a_view a = false | DFile _ _ => True end.

Definition arr_wf (a : arr) : Prop :=
  0 < a_esz a /\ 0 <= a_cnt a /\ (a_view a = false -> len (a_mem a) = a_cnt a * a_esz a)
  /\ (a_view a = true -> a_cnt a * a_esz a <= len (a_mem a)).

Definition arr_content (a : arr) : list Z := take (a_cnt a * a_esz a) (a_mem a).

Lemma arr_content_owner a : arr_wf a -> a_view a = false -> arr_content a = a_mem a.
Proof. intros (_ & _ & H & _) Hv. unfold arr_content. apply take_all. rewrite H by assumption. lia. Qed.

(* ---- construction ------------------------------------------------------------------------- *)
Lemma sink_new_buffer_wf junk app a : arr_wf a -> sink_wf (sink_new_buffer junk app a).
Proof.
  intros (He & Hc & Ho & Hv). unfold sink_new_buffer, sink_wf.
  destruct app; simpl.
  - split; [assumption|]. split; [|assumption].
    destruct (a_view a) eqn:E; [specialize (Hv eq_refl)|specialize (Ho eq_refl)]; nia.
  - unfold arr_resize. destruct (a_view a) eqn:E; simpl.
    + split; [assumption|]. split; [pose proof (len_nonneg (a_mem a)); lia|]. intros; discriminate.
    + split; [assumption|]. unfold len; simpl. split; [lia|]. intros; lia.
Qed.

Lemma sink_new_buffer_content junk app a : arr_wf a ->
  sink_content (sink_new_buffer junk app a) = if app then arr_content a else [].
Proof.
  intros Hw. unfold sink_new_buffer. destruct app; simpl.
  - reflexivity.
  - unfold sink_content; simpl. apply take_nonpos; lia.
Qed.

Lemma sink_new_buffer_growable junk app a : a_view a = false -> growable (sink_new_buffer junk app a).
Proof.
  intros E. unfold sink_new_buffer, growable. destruct app; simpl; [assumption|].
  unfold arr_resize; rewrite E; reflexivity.
Qed.

(* ---- one write into a growable sink -------------------------------------------------------- *)
Lemma ceil_bounds bb n esz : 0 < esz -> 0 <= bb -> 0 < n ->
  let nc := (bb + n + esz - 1) / esz in
  bb + n <= nc * esz < bb + n + esz /\ 0 < nc.
Proof. intros; subst nc; nia. Qed.

Lemma resized_len junk a nc : a_view a = false -> 0 < a_esz a -> 0 < nc ->
  len (a_mem (arr_resize junk a nc)) = nc * a_esz a.
Proof.
  intros E He Hn. unfold arr_resize. rewrite E.
  destruct (nc =? 0) eqn:Z0; [lia|]. simpl.
  rewrite len_app, len_take, len_fill. pose proof (len_nonneg (a_mem a)). nia.
Qed.

Lemma resized_prefix junk a nc bb : a_view a = false -> 0 < nc -> 0 <= bb <= len (a_mem a) -> bb <= nc * a_esz a ->
  take bb (a_mem (arr_resize junk a nc)) = take bb (a_mem a).
Proof.
  intros E Hn Hb Hc. unfold arr_resize. rewrite E.
  destruct (nc =? 0) eqn:Z0; [lia|]. simpl.
  rewrite take_app_le by (rewrite len_take; lia).
  rewrite take_take. f_equal; lia.
Qed.

Theorem sink_write_growable junk s d :
  sink_wf s -> growable s ->
  let r := sink_write junk s d None in
  snd r = E_NONE /\ sink_wf (fst r) /\ growable (fst r) /\
  sink_content (fst r) = sink_content s ++ d /\
  k_in (fst r) = k_in s + len d /\ k_out (fst r) = k_out s + len d /\
  sink_unit (fst r) = sink_unit s /\
  (forall a, k_dev s = DBuf a -> k_bb (fst r) = k_bb s + len d).
Proof.
  intros Hw Hg. unfold sink_write.
  destruct (len d =? 0) eqn:Hn.
  - assert (d = []) by (apply len_zero_nil; lia). subst d. simpl.
    rewrite app_nil_r. change (len (@nil Z)) with 0. repeat split; auto; try lia.
  - assert (Hpos : 0 < len d) by (pose proof (len_nonneg d); lia).
    unfold sink_wf, growable in *. destruct (k_dev s) as [a | nm f] eqn:Hd.
    + destruct Hw as (He & Hb & Ho). specialize (Ho Hg).
      pose proof (ceil_bounds (k_bb s) (len d) (a_esz a) He (proj1 Hb) Hpos) as (Hc & Hnc).
      set (nc := (k_bb s + len d + a_esz a - 1) / a_esz a) in *.
      pose proof (resized_len junk a nc Hg He Hnc) as Hlen.
      pose proof (resized_prefix junk a nc (k_bb s) Hg Hnc Hb ltac:(lia)) as Hpre.
      assert (Hv' : a_view (arr_resize junk a nc) = false).
      { unfold arr_resize; rewrite Hg. destruct (nc =? 0); reflexivity. }
      assert (Hc' : a_cnt (arr_resize junk a nc) = nc).
      { unfold arr_resize; rewrite Hg. destruct (nc =? 0) eqn:Z0; simpl; lia. }
      unfold arr_fits. rewrite Hv'. simpl negb. cbv iota.
      unfold put. rewrite Hlen.
      replace ((0 <=? k_bb s) && (k_bb s + len d <=? nc * a_esz a)) with true
        by (symmetry; apply andb_true_iff; split; apply Z.leb_le; lia).
      simpl fst; simpl snd. unfold sink_content, sink_unit; simpl. rewrite Hd.
      split; [reflexivity|].
      split.
      { split; [assumption|]. rewrite !len_app, len_take, len_drop, Hlen. split; [lia|].
        intros _. rewrite Hc'. lia. }
      split; [first [assumption|reflexivity]|].
      split.
      { rewrite Hpre.
        assert (Hl : len (take (k_bb s) (a_mem a)) = k_bb s) by (apply len_take_le; lia).
        rewrite app_assoc.
        rewrite take_app_le by (rewrite len_app, Hl; lia).
        apply take_all. rewrite len_app, Hl. lia. }
      repeat split; try reflexivity.
    + simpl. rewrite Z.eqb_refl. simpl. unfold sink_content, sink_unit; simpl. rewrite Hd.
      rewrite take_all by lia.
      repeat split; auto. intros a0 Habs; discriminate.
Qed.

(* ---- completion ---------------------------------------------------------------------------- *)
Theorem sink_complete_spec s ff :
  let '(s', rc, rep) := sink_complete s ff in
  match k_dev s with
  | DBuf a =>
      (rc = E_AGAIN <-> k_bb s mod a_esz a <> 0) /\
      (rc = E_AGAIN -> s' = s /\ rep = None) /\
      (rc <> E_AGAIN -> rc = E_NONE /\ rep = Some (k_in s, k_out s) /\
                        s' = mkSink (k_dev s) (k_bb s) 0 0)
  | DFile _ _ =>
      (rc = E_FATAL <-> ff = true) /\
      (ff = true -> s' = s /\ rep = None) /\
      (ff = false -> rc = E_NONE /\ rep = Some (k_in s, k_out s) /\ s' = mkSink (k_dev s) (k_bb s) 0 0)
  end.
Proof.
  unfold sink_complete. destruct (k_dev s) as [a | nm f].
  - destruct (k_bb s mod a_esz a =? 0) eqn:E; simpl.
    + repeat split; try (intros; discriminate); try (intros; lia); auto.
    + repeat split; try (intros; lia); auto; intros H; exfalso; apply H; reflexivity.
  - destruct ff; simpl; repeat split; try (intros; discriminate); auto.
Qed.

(* ---- refinement of the byte-string reference for every interleaving ------------------------- *)
Lemma sink_step_refines junk s op :
  sink_wf s -> growable s -> fault_free op = true ->
  let r := sink_step junk s op in
  let q := spec_step (sink_unit s) (sink_abs s) op in
  sink_wf (fst r) /\ growable (fst r) /\ sink_unit (fst r) = sink_unit s /\
  sink_abs (fst r) = fst q /\ snd r = snd q.
Proof.
  intros Hw Hg Hf. destruct op as [d flt | al flt | ff]; simpl in Hf.
  - destruct flt; [discriminate|].
    pose proof (sink_write_growable junk s d Hw Hg) as H. simpl in H.
    unfold sink_step. destruct (sink_write junk s d None) as [s' rc]. simpl in *.
    destruct H as (Hrc & Hw' & Hg' & Hc & Hi & Ho & Hu & _).
    unfold sink_abs. simpl. rewrite Hc, Hi, Ho, Hrc. auto.
  - destruct flt; [discriminate|].
    unfold sink_step, sink_align.
    pose proof (sink_write_growable junk s (zeros (align_fill (k_out s) al)) Hw Hg) as H. simpl in H.
    destruct (sink_write junk s (zeros (align_fill (k_out s) al)) None) as [s' rc]. simpl in *.
    destruct H as (Hrc & Hw' & Hg' & Hc & Hi & Ho & Hu & _).
    unfold sink_abs. simpl. rewrite Hc, Hi, Ho, Hrc. auto.
  - destruct ff; [discriminate|].
    unfold sink_step, sink_complete, spec_step, sink_abs, sink_unit, sink_content. simpl.
    unfold sink_wf, growable in *.
    destruct (k_dev s) as [a | nm f] eqn:Hd.
    + destruct Hw as (He & Hb & Ho).
      rewrite len_take_le by lia.
      destruct (k_bb s mod a_esz a =? 0) eqn:E; simpl; rewrite ?Hd; simpl; rewrite ?Hd; auto 10.
    + rewrite Z.mod_1_r. simpl. rewrite ?Hd. auto 10.
Qed.

Theorem sink_run_refines junk ops : forall s,
  sink_wf s -> growable s -> forallb fault_free ops = true ->
  let r := sink_run junk s ops in
  let q := spec_run (sink_unit s) (sink_abs s) ops in
  sink_abs (fst r) = fst q /\ snd r = snd q /\ sink_wf (fst r) /\ growable (fst r).
Proof.
  induction ops as [|op ops IH]; intros s Hw Hg Hf; simpl.
  - auto.
  - simpl in Hf. apply andb_true_iff in Hf. destruct Hf as [Hf1 Hf2].
    pose proof (sink_step_refines junk s op Hw Hg Hf1) as H. simpl in H.
    destruct (sink_step junk s op) as [s1 o1].
    destruct (spec_step (sink_unit s) (sink_abs s) op) as [q1 p1]. simpl in H.
    destruct H as (Hw1 & Hg1 & Hu1 & Ha1 & Ho1).
    specialize (IH s1 Hw1 Hg1 Hf2). simpl in IH.
    rewrite Hu1, Ha1 in IH.
    destruct (sink_run junk s1 ops) as [s2 os].
    destruct (spec_run (sink_unit s) q1 ops) as [q2 ps]. simpl in *.
    destruct IH as (Ha2 & Ho2 & Hw2 & Hg2). subst. auto.
Qed.

(* ---- chunking: the reference, fed with writes only, concatenates ---------------------------- *)
Lemma spec_run_writes unit chunks : forall st,
  spec_run unit st (map (fun d => SWrite d None) chunks) =
  (mkSpec (sp_content st ++ concat chunks)
          (sp_in st + len (concat chunks)) (sp_out st + len (concat chunks)),
   map (fun _ => (E_NONE, None)) chunks).
Proof.
  induction chunks as [|d r IH]; intros st; simpl.
  - rewrite app_nil_r, len_nil, !Z.add_0_r. destruct st; reflexivity.
  - rewrite IH. simpl. rewrite app_assoc, len_app, !Z.add_assoc. reflexivity.
Qed.

Lemma forallb_writes chunks : forallb fault_free (map (fun d => SWrite d None) chunks) = true.
Proof. induction chunks; simpl; auto. Qed.

(* a buffer sink stays a buffer sink *)
Definition is_buf (s : sink) : Prop := exists b, k_dev s = DBuf b.

Lemma sink_step_is_buf junk s op : is_buf s -> is_buf (fst (sink_step junk s op)).
Proof.
  intros [b Hb]. unfold is_buf.
  destruct op as [d flt|al flt|ff]; unfold sink_step, sink_align, sink_write, sink_complete; rewrite Hb.
  - destruct (len d =? 0); simpl; [eauto|]. destruct (negb _); simpl; [eauto|]. destruct (put _ _ _); simpl; eauto.
  - destruct (len _ =? 0); simpl; [eauto|]. destruct (negb _); simpl; [eauto|]. destruct (put _ _ _); simpl; eauto.
  - destruct (negb _); simpl; eauto.
Qed.

Lemma sink_run_is_buf junk ops : forall s, is_buf s -> is_buf (fst (sink_run junk s ops)).
Proof.
  induction ops as [|op ops IH]; intros s Hb; simpl; [assumption|].
  pose proof (sink_step_is_buf junk s op Hb) as H1.
  destruct (sink_step junk s op) as [s1 o1]. simpl in H1. specialize (IH s1 H1).
  destruct (sink_run junk s1 ops) as [s2 os]. simpl in *. assumption.
Qed.

Theorem sink_chunking junk s chunks :
  sink_wf s -> growable s ->
  let r := sink_run junk s (map (fun d => SWrite d None) chunks) in
  sink_content (fst r) = sink_content s ++ concat chunks /\
  k_in (fst r) = k_in s + len (concat chunks) /\
  k_out (fst r) = k_out s + len (concat chunks) /\
  snd r = map (fun _ => (E_NONE, None)) chunks.
Proof.
  intros Hw Hg.
  pose proof (sink_run_refines junk _ s Hw Hg (forallb_writes chunks)) as H. simpl in H.
  rewrite spec_run_writes in H. simpl in H.
  destruct H as (Ha & Ho & _ & _).
  unfold sink_abs in Ha. injection Ha as H1 H2 H3. simpl. auto.
Qed.

Theorem sink_chunking_buffer junk app a chunks :
  arr_wf a -> a_view a = false ->
  let r := sink_run junk (sink_new_buffer junk app a) (map (fun d => SWrite d None) chunks) in
  sink_content (fst r) = (if app then a_mem a else []) ++ concat chunks /\
  k_bb (fst r) = len (sink_content (fst r)) /\
  snd r = map (fun _ => (E_NONE, None)) chunks.
Proof.
  intros Ha Hv.
  pose proof (sink_chunking junk _ chunks (sink_new_buffer_wf junk app a Ha) (sink_new_buffer_growable junk app a Hv)) as H.
  simpl in H. destruct H as (Hc & _ & _ & Ho).
  rewrite sink_new_buffer_content in Hc by assumption.
  rewrite arr_content_owner in Hc by assumption.
  simpl. split; [assumption|]. split; [|assumption].
  pose proof (sink_run_refines junk _ _ (sink_new_buffer_wf junk app a Ha) (sink_new_buffer_growable junk app a Hv) (forallb_writes chunks)) as H.
  simpl in H. destruct H as (_ & _ & Hw & Hg).
  unfold sink_content. unfold sink_wf, growable in *.
  destruct (k_dev (fst (sink_run junk (sink_new_buffer junk app a) (map (fun d : list Z => SWrite d None) chunks)))) as [b|nm f] eqn:E.
  - rewrite len_take_le; [reflexivity|]. lia.
  - exfalso.
    assert (Hb0 : is_buf (sink_new_buffer junk app a)).
    { unfold is_buf, sink_new_buffer; destruct app; simpl; eauto. }
    destruct (sink_run_is_buf junk (map (fun d : list Z => SWrite d None) chunks) _ Hb0) as [b Hb].
    rewrite Hb in E. discriminate.
Qed.

Theorem sink_chunking_file nm f chunks junk :
  let r := sink_run junk (mkSink (DFile nm f) 0 0 0) (map (fun d => SWrite d None) chunks) in
  sink_content (fst r) = f ++ concat chunks /\ snd r = map (fun _ => (E_NONE, None)) chunks.
Proof.
  pose proof (sink_chunking junk (mkSink (DFile nm f) 0 0 0) chunks I I) as H. simpl in H.
  destruct H as (Hc & _ & _ & Ho). simpl. auto.
Qed.

(* two ways of cutting the same bytes are indistinguishable *)
Corollary sink_chunking_independent junk s c1 c2 :
  sink_wf s -> growable s -> concat c1 = concat c2 ->
  sink_abs (fst (sink_run junk s (map (fun d => SWrite d None) c1))) =
  sink_abs (fst (sink_run junk s (map (fun d => SWrite d None) c2))).
Proof.
  intros Hw Hg E.
  pose proof (sink_chunking junk s c1 Hw Hg) as H1. pose proof (sink_chunking junk s c2 Hw Hg) as H2.
  simpl in *. destruct H1 as (A1 & B1 & C1 & _). destruct H2 as (A2 & B2 & C2 & _).
  unfold sink_abs. rewrite A1, B1, C1, A2, B2, C2, E. reflexivity.
Qed.

(* ---- alignment ------------------------------------------------------------------------------ *)
Theorem sink_align_spec junk s al :
  sink_wf s -> growable s -> 0 < al -> 0 <= k_out s ->
  let r := sink_align junk s al None in
  let pad := (al - k_out s mod al) mod al in
  snd r = E_NONE /\
  sink_content (fst r) = sink_content s ++ repeat 0 (Z.to_nat pad) /\
  0 <= pad < al /\
  k_out (fst r) = k_out s + pad /\ k_in (fst r) = k_in s + pad /\
  k_out (fst r) mod al = 0 /\
  (forall k, 0 <= k -> (k_out s + k) mod al = 0 -> pad <= k).
Proof.
  intros Hw Hg Hal Hout. unfold sink_align.
  pose proof (sink_write_growable junk s (zeros (align_fill (k_out s) al)) Hw Hg) as H. simpl in H.
  destruct H as (Hrc & _ & _ & Hc & Hi & Ho & _).
  pose proof (align_fill_range (k_out s) al Hal) as Hr.
  rewrite len_zeros in Hi, Ho. fold (align_fill (k_out s) al).
  simpl. split; [assumption|]. split; [exact Hc|]. split; [assumption|].
  split; [lia|]. split; [lia|]. split.
  - rewrite Ho. replace (Z.max 0 (align_fill (k_out s) al)) with (align_fill (k_out s) al) by lia.
    apply align_fill_aligns; assumption.
  - intros k Hk Hm. apply align_fill_minimal; assumption.
Qed.

(* ---- view-backed sinks: the explicit check, nothing copied outside -------------------------- *)
Definition view_sink (s : sink) (a : arr) : Prop := k_dev s = DBuf a /\ a_view a = true.

Theorem sink_write_view junk s a d :
  sink_wf s -> view_sink s a -> d <> [] ->
  let nc := (k_bb s + len d + a_esz a - 1) / a_esz a in
  let r := sink_write junk s d None in
  (snd r = E_FATAL <-> nc * a_esz a > len (a_mem a)) /\
  (snd r <> E_FATAL -> snd r = E_NONE /\
      sink_content (fst r) = sink_content s ++ d /\ k_bb (fst r) = k_bb s + len d /\
      k_in (fst r) = k_in s + len d /\ k_out (fst r) = k_out s + len d) /\
  (snd r = E_FATAL ->
      k_bb (fst r) = k_bb s /\ k_in (fst r) = k_in s /\ k_out (fst r) = k_out s /\
      exists a', k_dev (fst r) = DBuf a' /\ a_mem a' = a_mem a /\ a_view a' = true /\ a_esz a' = a_esz a) /\
  (forall a', k_dev (fst r) = DBuf a' -> len (a_mem a') = len (a_mem a) /\
      drop (k_bb s + len d) (a_mem a') = drop (k_bb s + len d) (a_mem a) /\
      take (k_bb s) (a_mem a') = take (k_bb s) (a_mem a)) /\
  sink_wf (fst r) /\ (exists a', view_sink (fst r) a' /\ a_esz a' = a_esz a).
Proof.
  intros Hw (Hd & Hv) Hne. unfold sink_wf in Hw. rewrite Hd in Hw. destruct Hw as (He & Hb & _).
  assert (Hpos : 0 < len d).
  { pose proof (len_nonneg d). destruct (Z.eq_dec (len d) 0) as [E|]; [apply len_zero_nil in E; contradiction|lia]. }
  pose proof (ceil_bounds (k_bb s) (len d) (a_esz a) He (proj1 Hb) Hpos) as (Hc & Hnc).
  simpl. set (nc := (k_bb s + len d + a_esz a - 1) / a_esz a) in *.
  unfold sink_write. replace (len d =? 0) with false by (symmetry; apply Z.eqb_neq; lia).
  rewrite Hd. fold nc. unfold arr_resize. rewrite Hv. unfold arr_fits. simpl a_view. simpl a_cnt. simpl a_esz. simpl a_mem. cbv iota.
  destruct (nc * a_esz a <=? len (a_mem a)) eqn:Hfit; simpl negb; cbv iota.
  - apply Z.leb_le in Hfit. unfold put.
    replace ((0 <=? k_bb s) && (k_bb s + len d <=? len (a_mem a))) with true
      by (symmetry; apply andb_true_iff; split; apply Z.leb_le; lia).
    simpl fst; simpl snd. unfold sink_content, sink_wf, view_sink. simpl.
    assert (Hl : len (take (k_bb s) (a_mem a)) = k_bb s) by (apply len_take_le; lia).
    split; [split; [intros; discriminate | intros; lia]|].
    split.
    { intros _. split; [reflexivity|]. rewrite Hd.
      split; [|auto].
      rewrite app_assoc. rewrite take_app_le by (rewrite len_app, Hl; lia).
      apply take_all. rewrite len_app, Hl; lia. }
    split; [intros; discriminate|].
    split.
    { intros a' E. injection E as <-. simpl.
      rewrite !len_app, Hl, len_drop. split; [lia|]. split.
      - rewrite app_assoc. rewrite drop_app_ge by (rewrite len_app, Hl; lia).
        rewrite len_app, Hl. replace (k_bb s + len d - (k_bb s + len d)) with 0 by lia.
        apply drop_nonpos; lia.
      - rewrite take_app_le by lia. rewrite take_take. f_equal; lia. }
    split.
    { split; [assumption|]. rewrite !len_app, Hl, len_drop. split; [lia|]. intros; discriminate. }
    eexists; split; [split; reflexivity|reflexivity].
  - apply Z.leb_gt in Hfit. simpl fst; simpl snd. unfold sink_content, sink_wf, view_sink. simpl.
    split; [split; [intros; lia | reflexivity]|].
    split; [intros H; exfalso; apply H; reflexivity|].
    split; [intros _; repeat split; eauto|].
    split; [intros a' E; injection E as <-; simpl; auto|].
    split; [split; [assumption|]; split; [lia|intros; discriminate]|].
    eexists; split; [split; reflexivity|reflexivity].
Qed.

(* no operation sequence whatsoever (faults included) makes the model copy outside the array:
   the instrumentation value never appears and a view keeps its memory size *)
Lemma sink_write_no_oob junk s d flt :
  sink_wf s -> snd (sink_write junk s d flt) <> E_OOB /\ sink_wf (fst (sink_write junk s d flt)) /\
  (forall a, k_dev s = DBuf a -> a_view a = true ->
     exists a', k_dev (fst (sink_write junk s d flt)) = DBuf a' /\ a_view a' = true /\ len (a_mem a') = len (a_mem a)).
Proof.
  intros Hw.
  destruct (k_dev s) as [a|nm f] eqn:Hd.
  - destruct (a_view a) eqn:Hv.
    + destruct (list_eq_dec Z.eq_dec d []) as [->|Hne].
      * unfold sink_write; simpl. rewrite Hd. split; [discriminate|]. split; [assumption|].
        intros a0 E _. injection E as <-. eauto.
      * pose proof (sink_write_view junk s a d Hw (conj Hd Hv) Hne) as H. simpl in H.
        assert (Hflt : sink_write junk s d flt = sink_write junk s d None).
        { unfold sink_write. rewrite Hd. reflexivity. }
        rewrite Hflt. destruct H as (Hf & Hok & _ & Hmem & Hw' & (a' & (Hd' & Hv') & _)).
        split.
        { destruct (Z.eq_dec (snd (sink_write junk s d None)) E_FATAL) as [E|E]; [rewrite E; discriminate|].
          destruct (Hok E) as (E0 & _). rewrite E0; discriminate. }
        split; [assumption|].
        intros a0 E _. injection E as <-. exists a'. split; [assumption|]. split; [assumption|].
        apply (Hmem a' Hd').
    + assert (Hflt : sink_write junk s d flt = sink_write junk s d None).
      { unfold sink_write. rewrite Hd. reflexivity. }
      rewrite Hflt.
      pose proof (sink_write_growable junk s d Hw) as H. unfold growable in H. rewrite Hd in H.
      specialize (H Hv). simpl in H. destruct H as (Hrc & Hw' & _).
      split; [rewrite Hrc; discriminate|]. split; [assumption|]. intros a0 E Hv0. injection E as <-. congruence.
  - unfold sink_write. rewrite Hd. destruct (len d =? 0); simpl.
    + split; [discriminate|]. split; [assumption|]. intros; discriminate.
    + destruct (_ =? len d); simpl; (split; [discriminate|]; split; [exact I|intros; discriminate]).
Qed.

Theorem sink_run_no_oob junk ops : forall s, sink_wf s ->
  (forall o, In o (snd (sink_run junk s ops)) -> fst o <> E_OOB) /\ sink_wf (fst (sink_run junk s ops)).
Proof.
  induction ops as [|op ops IH]; intros s Hw; simpl.
  - split; [intros o []|assumption].
  - assert (H1 : fst (snd (sink_step junk s op)) <> E_OOB /\ sink_wf (fst (sink_step junk s op))).
    { destruct op as [d flt|al flt|ff]; unfold sink_step, sink_align.
      - pose proof (sink_write_no_oob junk s d flt Hw) as (A & B & _).
        destruct (sink_write junk s d flt); simpl in *; auto.
      - pose proof (sink_write_no_oob junk s (zeros (align_fill (k_out s) al)) flt Hw) as (A & B & _).
        destruct (sink_write junk s _ flt); simpl in *; auto.
      - unfold sink_complete. unfold sink_wf in *.
        destruct (k_dev s) as [a|nm f] eqn:Hd.
        + destruct (negb _); simpl; rewrite ?Hd; split; auto; discriminate.
        + destruct ff; simpl; rewrite ?Hd; split; auto; discriminate. }
    destruct (sink_step junk s op) as [s1 o1]. simpl in H1. destruct H1 as (A & B).
    specialize (IH s1 B). destruct (sink_run junk s1 ops) as [s2 os]. simpl in *.
    destruct IH as (C & D). split; [|assumption].
    intros o [<-|Hin]; auto.
Qed.

(* a file sink with an injected short fwrite: FATAL, counters untouched, only the transferred
   bytes reach the file *)
Theorem sink_write_file_fault junk s nm f d k :
  k_dev s = DFile nm f -> 0 <= k < len d ->
  let r := sink_write junk s d (Some k) in
  snd r = E_FATAL /\ k_in (fst r) = k_in s /\ k_out (fst r) = k_out s /\
  sink_content (fst r) = f ++ take k d.
Proof.
  intros Hd Hk. unfold sink_write. rewrite Hd.
  replace (len d =? 0) with false by (symmetry; apply Z.eqb_neq; lia).
  replace (Z.min (Z.max k 0) (len d)) with k by lia.
  replace (k =? len d) with false by (symmetry; apply Z.eqb_neq; lia).
  simpl. unfold sink_content; simpl. auto.
Qed.

(* destroy: AGAIN (a partial element is pending) is turned into FATAL *)
Theorem sink_destroy_spec s ff cf :
  fst (sink_destroy s ff cf) =
  match k_dev s with
  | DBuf a => if k_bb s mod a_esz a =? 0 then E_NONE else E_FATAL
  | DFile true _ => if cf || ff then E_FATAL else E_NONE
  | DFile false _ => if ff then E_FATAL else E_NONE
  end.
Proof.
  unfold sink_destroy, sink_complete. destruct (k_dev s) as [a|nm f].
  - destruct (k_bb s mod a_esz a =? 0); reflexivity.
  - destruct nm, ff, cf; reflexivity.
Qed.
