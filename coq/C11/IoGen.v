(* C11 - tie T1: the hand-written model of the sinks and sources (IoModel.v) computes exactly what the definitions GENERATED
   from /repo/src/sc_io.c (Gen/IoC11.v, regenerated on every run) compute: the rounding of sc_io_sink_write to whole
   elements, its size check against SC_ARRAY_BYTE_ALLOC, the counters, the AGAIN tests of the two complete functions, the
   fill of the two align functions, the available / taken byte counts and the exact-request test of sc_io_source_read, the
   window arithmetic of sc_io_file_load.  Sizes are below 2^62 (a byte count needs an object of that size).
   An edit of that arithmetic in sc_io.c changes a generated definition and one of these lemmas stops checking. *)
From Coq Require Import ZArith Lia List Bool.
From ScV Require Import Base.CInt Gen.IoC11 C11.IoModel C11.IoLists.
Import ListNotations.
Local Open Scope Z_scope.

Definition BIG : Z := 2 ^ 62.

Lemma u64_small x : 0 <= x < BIG -> u64 x = x.
Proof. intros H. apply u64_id. unfold M64. unfold BIG in H. change (2 ^ 62) with 4611686018427387904 in H. lia. Qed.
Lemma s64_small x : - BIG <= x < BIG -> s64 x = x.
Proof. intros H. apply s64_id. unfold in_s64, M64. unfold BIG in H. change (2 ^ 62) with 4611686018427387904 in H. lia. Qed.

(* ---------- sc_io_sink_write ------------------------------------------------------------------------------------------- *)
(* new_count = ceil ((buffer_bytes + bytes_avail) / elem_size), as the model writes it *)
Lemma gen_sink_new_count esz bb n : 0 < esz -> 0 <= bb -> 0 <= n -> bb + n + esz < BIG ->
  sink_new_count esz bb n = (bb + n + esz - 1) / esz.
Proof.
  intros. unfold sink_new_count. cbv zeta.
  rewrite (u64_small (bb + n)) by lia. rewrite (u64_small (bb + n + esz)) by lia.
  rewrite (u64_small (bb + n + esz - 1)) by lia. reflexivity.
Qed.

(* ... which is the least count of whole elements that holds the bytes *)
Lemma gen_sink_new_count_ceil esz bb n : 0 < esz -> 0 <= bb -> 0 <= n -> bb + n + esz < BIG ->
  let c := sink_new_count esz bb n in (c - 1) * esz < bb + n <= c * esz.
Proof.
  intros Hesz Hbb Hn Hb. cbv zeta. rewrite gen_sink_new_count by assumption.
  pose proof (Z.div_mod (bb + n + esz - 1) esz ltac:(lia)) as D.
  pose proof (Z.mod_pos_bound (bb + n + esz - 1) esz Hesz) as M. nia.
Qed.

(* the unconditional size check: a view stores byte_alloc = -(capacity + 1); the generated test is the model's arr_fits *)
Lemma gen_sink_view_check_view a : a_view a = true -> 0 <= a_cnt a * a_esz a < BIG -> len (a_mem a) < BIG ->
  sink_view_check (a_cnt a) (a_esz a) (- (len (a_mem a) + 1)) = negb (arr_fits a).
Proof.
  intros Hv Hc Hl. pose proof (len_nonneg (a_mem a)) as Hn.
  unfold sink_view_check, arr_fits. rewrite Hv.
  destruct (Z.leb_spec 0 (- (len (a_mem a) + 1))) as [H0|H0]; [lia|].
  replace (- (len (a_mem a) + 1) + 1) with (- len (a_mem a)) by lia.
  rewrite (s64_small (- len (a_mem a))) by lia. rewrite Z.opp_involutive.
  rewrite (s64_small (len (a_mem a))) by lia.
  rewrite (u64_small (len (a_mem a))) by lia. rewrite (u64_small (a_cnt a * a_esz a)) by lia.
  destruct (Z.ltb_spec (len (a_mem a)) (a_cnt a * a_esz a)); destruct (Z.leb_spec (a_cnt a * a_esz a) (len (a_mem a))); simpl; lia.
Qed.

(* an owner has byte_alloc >= elem_count * elem_size after sc_array_resize: the check never fires (the model's arr_fits is true) *)
Lemma gen_sink_view_check_owner a ba : a_view a = false -> 0 <= a_cnt a * a_esz a <= ba -> ba < BIG ->
  sink_view_check (a_cnt a) (a_esz a) ba = negb (arr_fits a).
Proof.
  intros Hv Hc Hb. unfold sink_view_check, arr_fits. rewrite Hv.
  destruct (Z.leb_spec 0 ba) as [H0|H0]; [|lia].
  rewrite (u64_small ba) by lia. rewrite (u64_small (a_cnt a * a_esz a)) by lia.
  destruct (Z.ltb_spec ba (a_cnt a * a_esz a)); simpl; lia.
Qed.

Lemma gen_sink_buffer_advance bb n : 0 <= bb -> 0 <= n -> bb + n < BIG -> sink_buffer_advance bb n = (bb + n, n).
Proof. intros. unfold sink_buffer_advance. cbv zeta. rewrite u64_small by lia. reflexivity. Qed.

Lemma gen_sink_counters i n o bo : 0 <= i -> 0 <= n -> 0 <= o -> 0 <= bo -> i + n < BIG -> o + bo < BIG ->
  sink_counters i n o bo = (i + n, o + bo).
Proof. intros. unfold sink_counters. cbv zeta. rewrite !u64_small by lia. reflexivity. Qed.

(* the model's sc_io_sink_write on a buffer sink, written with the generated definitions *)
Lemma gen_sink_write_buffer junk s a d flt : k_dev s = DBuf a -> 0 < a_esz a -> 0 <= k_bb s -> 0 <= k_in s -> 0 <= k_out s ->
  k_bb s + len d + a_esz a < BIG -> k_in s + len d < BIG -> k_out s + len d < BIG ->
  sink_write junk s d flt =
  let n := len d in
  if n =? 0 then (s, E_NONE) else
  let nc := sink_new_count (a_esz a) (k_bb s) n in
  let a' := arr_resize junk a nc in
  if negb (arr_fits a') then (mkSink (DBuf a') (k_bb s) (k_in s) (k_out s), E_FATAL)
  else match put (k_bb s) d (a_mem a') with
       | None => (mkSink (DBuf a') (k_bb s) (k_in s) (k_out s), E_OOB)
       | Some m => let '(bb', bo) := sink_buffer_advance (k_bb s) n in
                   let '(i', o') := sink_counters (k_in s) n (k_out s) bo in
                   (mkSink (DBuf (mkArr (a_esz a) (a_cnt a') (a_view a') m)) bb' i' o', E_NONE)
       end.
Proof.
  intros Hd He Hb Hi Ho B1 B2 B3. pose proof (len_nonneg d) as Hn.
  unfold sink_write. rewrite Hd. cbv zeta.
  rewrite gen_sink_new_count by lia.
  rewrite gen_sink_buffer_advance by lia.
  rewrite gen_sink_counters by lia.
  reflexivity.
Qed.

(* ---------- the AGAIN tests ------------------------------------------------------------------------------------------------ *)
Lemma gen_sink_complete_buffer s a ff : k_dev s = DBuf a ->
  sink_complete s ff = if sink_again (k_bb s) (a_esz a) then (s, E_AGAIN, None)
                       else (mkSink (k_dev s) (k_bb s) 0 0, E_NONE, Some (k_in s, k_out s)).
Proof. intros Hd. unfold sink_complete, sink_again. rewrite Hd. reflexivity. Qed.

Lemma gen_source_complete_buffer s a : r_dev s = RBuf a ->
  source_complete s = if source_again (r_bb s) (a_esz a) then (s, E_AGAIN, None)
                      else (mkSrc (r_dev s) (r_bb s) 0 0 (r_eof s) (r_mir s), E_NONE, Some (r_in s, r_out s)).
Proof. intros Hd. unfold source_complete, source_again. rewrite Hd. reflexivity. Qed.

(* ---------- the fill of the align functions ------------------------------------------------------------------------------------ *)
Lemma gen_sink_align_fill al out : 0 < al < BIG -> sink_align_fill al out = align_fill out al.
Proof.
  intros H. unfold sink_align_fill, align_fill. cbv zeta.
  pose proof (Z.mod_pos_bound out al ltac:(lia)). rewrite u64_small by lia. reflexivity.
Qed.

Lemma gen_source_align_fill al out : 0 < al < BIG -> source_align_fill al out = align_fill out al.
Proof.
  intros H. unfold source_align_fill, align_fill. cbv zeta.
  pose proof (Z.mod_pos_bound out al ltac:(lia)). rewrite u64_small by lia. reflexivity.
Qed.

Lemma gen_sink_align junk s al flt : 0 < al < BIG ->
  sink_align junk s al flt = sink_write junk s (zeros (sink_align_request (sink_align_fill al (k_out s)))) flt.
Proof. intros. unfold sink_align, sink_align_request. rewrite gen_sink_align_fill by assumption. reflexivity. Qed.

Lemma gen_source_align junk s al flt : 0 < al < BIG ->
  source_align junk s al flt =
  let '(s', rc, _, _) := source_read junk s (source_align_request (source_align_fill al (r_out s))) None false flt in (s', rc).
Proof. intros. unfold source_align, source_align_request. rewrite gen_source_align_fill by assumption. reflexivity. Qed.

(* ---------- sc_io_source_read ------------------------------------------------------------------------------------------------ *)
Lemma gen_source_avail cnt esz bb : 0 <= cnt * esz < BIG -> 0 <= bb < BIG ->
  source_avail cnt esz bb = (let total := cnt * esz in if total <? bb then 0 else total - bb).
Proof.
  intros Ht Hb. unfold source_avail. cbv zeta. rewrite (u64_small (cnt * esz)) by lia.
  destruct (Z.ltb_spec (cnt * esz) bb); [reflexivity|]. rewrite u64_small by lia. reflexivity.
Qed.

Lemma gen_source_take avail n : source_take avail n = Z.min avail n.
Proof. unfold source_take. cbv zeta. destruct (Z.ltb_spec avail n); cbv iota; lia. Qed.

(* the exact-request test: bytes_out == NULL && bbytes_out < bytes_avail; p = the pointer value (0 = NULL) *)
Lemma gen_source_short (wc : bool) p k n : p <> 0 -> source_short (if wc then p else 0) k n = negb wc && (k <? n).
Proof. intros Hp. unfold source_short. destruct wc; simpl; [|reflexivity]. destruct (Z.eqb_spec p 0); [contradiction|reflexivity]. Qed.

Lemma gen_source_counters i k o : 0 <= i -> 0 <= k -> 0 <= o -> i + k < BIG -> o + k < BIG ->
  source_counters i k o = (i + k, o + k).
Proof. intros. unfold source_counters. cbv zeta. rewrite !u64_small by lia. reflexivity. Qed.

(* the tail of sc_io_source_read written with the generated definitions *)
Lemma gen_read_finish s n wc retval k data p : p <> 0 -> 0 <= r_in s -> 0 <= r_out s -> 0 <= k -> r_in s + k < BIG -> r_out s + k < BIG ->
  read_finish s n wc retval k data =
  if retval then (s, E_FATAL, None, data)
  else if source_short (if wc then p else 0) k n then (s, E_FATAL, None, data)
  else let '(i', o') := source_counters (r_in s) k (r_out s) in
       (mkSrc (r_dev s) (r_bb s) i' o' (r_eof s) (r_mir s), E_NONE, if wc then Some k else None, data).
Proof.
  intros. unfold read_finish. rewrite gen_source_short by assumption. rewrite gen_source_counters by lia. reflexivity.
Qed.

(* the model's sc_io_source_read on a buffer source, written with the generated definitions *)
Lemma gen_source_read_buffer junk s a n data wc flt : r_dev s = RBuf a -> 0 <= a_cnt a * a_esz a < BIG -> 0 <= r_bb s < BIG ->
  source_read junk s n data wc flt =
  if (n =? 0) || r_eof s then
    (if wc then (s, E_NONE, Some 0, data) else if 0 <? n then (s, E_FATAL, None, data) else (s, E_NONE, None, data))
  else
    let avail := source_avail (a_cnt a) (a_esz a) (r_bb s) in
    if avail =? 0 then read_finish (mkSrc (r_dev s) (r_bb s) (r_in s) (r_out s) true (r_mir s)) n wc false 0 data
    else let k := source_take avail n in
         let data' := match data with Some u => Some (take k (drop (r_bb s) (a_mem a)) ++ drop k u) | None => None end in
         read_finish (mkSrc (r_dev s) (r_bb s + k) (r_in s) (r_out s) (r_eof s) (r_mir s)) n wc false k data'.
Proof.
  intros Hd Ht Hb. unfold source_read. rewrite Hd. rewrite gen_source_avail by assumption. cbv zeta.
  rewrite gen_source_take. reflexivity.
Qed.

(* ---------- sc_io_file_load ----------------------------------------------------------------------------------------------------- *)
Lemma gen_load_bwins : bwins = load_bwins.
Proof. reflexivity. Qed.

Lemma gen_load_window bpos bout : 0 <= bpos -> 0 <= bout -> bpos + bwins < BIG -> bpos + bout < BIG ->
  load_start = 0 /\ load_room bpos load_bwins = bpos + bwins /\ load_request load_bwins = bwins /\ load_target bpos = bpos /\
  load_last bout load_bwins = (bout <? bwins) /\ load_final bpos bout = bpos + bout /\ load_next bpos load_bwins = bpos + bwins.
Proof.
  intros. rewrite <- gen_load_bwins. unfold load_start, load_room, load_request, load_target, load_last, load_final, load_next.
  cbv zeta. unfold bwins in *. rewrite !u64_small by lia. repeat split; reflexivity.
Qed.

(* the first pass of the model's window loop starts where the generated code starts *)
Lemma gen_file_load_start junk fuel c b flts cf :
  file_load junk fuel (Some c) b flts cf =
  match source_new_filename true c with
  | Some src => load_loop junk load_bwins fuel src b load_start flts cf
  | None => Some (-1, b)
  end.
Proof. reflexivity. Qed.
