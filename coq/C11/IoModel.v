(* C11 - executable model of the sinks and sources of /repo/src/sc_io.c (lines 40-617).
   Definitions only; the proofs are in IoLists.v / IoSinkProofs.v / IoSourceProofs.v.

   Conventions: bytes are Z in [0,256); sizes are Z (size_t arithmetic is not wrapped: a byte count
   needs an object of that size, so 2^64 is out of reach; stated in docs/C11.md).
   Memory that C leaves uninitialised (padding behind the last written byte of an array element, the
   tail of a grown array) is filled from an arbitrary function `junk`; every theorem quantifies over it.
   stdio is a contract: fwrite/fread/fflush/fseek/fclose do what is asked unless the op carries an
   injected fault. *)
From Coq Require Import ZArith List Bool.
Import ListNotations.
Local Open Scope Z_scope.

Definition len {A} (l : list A) : Z := Z.of_nat (length l).
Definition take {A} (n : Z) (l : list A) : list A := firstn (Z.to_nat n) l.
Definition drop {A} (n : Z) (l : list A) : list A := skipn (Z.to_nat n) l.
Fixpoint fill_from (junk : Z -> Z) (start : Z) (n : nat) : list Z :=
  match n with O => [] | S m => junk start :: fill_from junk (start + 1) m end.
Definition fill (junk : Z -> Z) (k : Z) : list Z := fill_from junk 0 (Z.to_nat k).
Definition zeros (k : Z) : list Z := repeat 0 (Z.to_nat k).

(* sc_io_error_t, and the instrumentation value for "the model would have copied outside the array" *)
Definition E_NONE : Z := 0.
Definition E_FATAL : Z := -1.
Definition E_AGAIN : Z := -2.
Definition E_OOB : Z := 99.

(* ---------------------------------------------------------------------------------------------
   sc_array_t as far as sc_io.c uses it.  Owner: a_mem holds exactly a_cnt * a_esz bytes.
   View (sc_array_new_data / new_view): a_mem is the viewed memory, its length is the capacity
   -(byte_alloc + 1); sc_array_resize only stores the new count (its size check is an SC_ASSERT,
   compiled out in the pinned configuration). *)
Record arr := mkArr { a_esz : Z; a_cnt : Z; a_view : bool; a_mem : list Z }.

Definition arr_resize (junk : Z -> Z) (a : arr) (n : Z) : arr :=
  if a_view a then mkArr (a_esz a) n true (a_mem a)
  else if n =? 0 then mkArr (a_esz a) 0 false []
  else mkArr (a_esz a) n false
         (take (n * a_esz a) (a_mem a) ++ fill junk (n * a_esz a - len (a_mem a))).

(* elem_count * elem_size <= SC_ARRAY_BYTE_ALLOC: always true for an owner after resize *)
Definition arr_fits (a : arr) : bool :=
  if a_view a then a_cnt a * a_esz a <=? len (a_mem a) else true.

(* memcpy (mem + pos, d, len d), refusing to leave the block *)
Definition put (pos : Z) (d m : list Z) : option (list Z) :=
  if (0 <=? pos) && (pos + len d <=? len m)
  then Some (take pos m ++ d ++ drop (pos + len d) m) else None.

(* ---------------------------------------------------------------------------------------------
   sinks *)
Inductive sdev := DBuf (a : arr) | DFile (named : bool) (f : list Z).
Record sink := mkSink { k_dev : sdev; k_bb : Z; k_in : Z; k_out : Z }.

(* sc_io_sink_new, SC_IO_TYPE_BUFFER (lines 59-69, with the repair 26496c1) *)
Definition sink_new_buffer (junk : Z -> Z) (append : bool) (a : arr) : sink :=
  if append then mkSink (DBuf a) (a_cnt a * a_esz a) 0 0
  else mkSink (DBuf (arr_resize junk a 0)) 0 0 0.

(* SC_IO_TYPE_FILENAME: fopen "wb" / "ab"; None = fopen failed *)
Definition sink_new_filename (open_ok append : bool) (old : list Z) : option sink :=
  if open_ok then Some (mkSink (DFile true (if append then old else [])) 0 0 0) else None.

(* SC_IO_TYPE_FILEFILE: the stream is positioned by the caller, the mode is ignored; f = what the
   file holds up to the stream position *)
Definition sink_new_filefile (f : list Z) : sink := mkSink (DFile false f) 0 0 0.

(* sc_io_sink_write; flt = Some k: fwrite transfers only k bytes *)
Definition sink_write (junk : Z -> Z) (s : sink) (d : list Z) (flt : option Z) : sink * Z :=
  let n := len d in
  if n =? 0 then (s, E_NONE) else
  match k_dev s with
  | DBuf a =>
      let esz := a_esz a in
      let nc := (k_bb s + n + esz - 1) / esz in
      let a' := arr_resize junk a nc in
      if negb (arr_fits a') then (mkSink (DBuf a') (k_bb s) (k_in s) (k_out s), E_FATAL)
      else match put (k_bb s) d (a_mem a') with
           | None => (mkSink (DBuf a') (k_bb s) (k_in s) (k_out s), E_OOB)
           | Some m => (mkSink (DBuf (mkArr esz (a_cnt a') (a_view a') m))
                               (k_bb s + n) (k_in s + n) (k_out s + n), E_NONE)
           end
  | DFile nm f =>
      let k := match flt with Some k => Z.min (Z.max k 0) n | None => n end in
      let f' := f ++ take k d in
      if k =? n then (mkSink (DFile nm f') (k_bb s) (k_in s + n) (k_out s + k), E_NONE)
      else (mkSink (DFile nm f') (k_bb s) (k_in s) (k_out s), E_FATAL)
  end.

(* sc_io_sink_complete; the option is what is stored through bytes_in / bytes_out - each value only if its pointer
   is not NULL; the counters restart whichever pointers are passed (the `C:<mask>` operation of the correspondence
   run calls the real function with every combination of NULL pointers against this definition) *)
Definition sink_complete (s : sink) (flushfail : bool) : sink * Z * option (Z * Z) :=
  let done := (mkSink (k_dev s) (k_bb s) 0 0, E_NONE, Some (k_in s, k_out s)) in
  match k_dev s with
  | DBuf a => if negb (k_bb s mod a_esz a =? 0) then (s, E_AGAIN, None) else done
  | DFile _ _ => if flushfail then (s, E_FATAL, None) else done
  end.

(* sc_io_sink_align *)
Definition align_fill (out al : Z) : Z := (al - out mod al) mod al.
Definition sink_align (junk : Z -> Z) (s : sink) (al : Z) (flt : option Z) : sink * Z :=
  sink_write junk s (zeros (align_fill (k_out s) al)) flt.

(* sc_io_sink_destroy: returns the code and what is left behind (array / file) *)
Definition sink_destroy (s : sink) (flushfail closefail : bool) : Z * sdev :=
  let '(_, rc, _) := sink_complete s flushfail in
  let bad := match k_dev s with
             | DFile true _ => closefail || negb (rc =? 0)
             | _ => negb (rc =? 0)
             end in
  (if bad then E_FATAL else E_NONE, k_dev s).

Inductive sop :=
| SWrite (d : list Z) (flt : option Z)
| SAlign (al : Z) (flt : option Z)
| SComplete (flushfail : bool).

Definition sink_step (junk : Z -> Z) (s : sink) (op : sop) : sink * (Z * option (Z * Z)) :=
  match op with
  | SWrite d flt => let '(s', rc) := sink_write junk s d flt in (s', (rc, None))
  | SAlign al flt => let '(s', rc) := sink_align junk s al flt in (s', (rc, None))
  | SComplete ff => let '(s', rc, rep) := sink_complete s ff in (s', (rc, rep))
  end.

Fixpoint sink_run (junk : Z -> Z) (s : sink) (ops : list sop) : sink * list (Z * option (Z * Z)) :=
  match ops with
  | [] => (s, [])
  | op :: r => let '(s1, o) := sink_step junk s op in
               let '(s2, os) := sink_run junk s1 r in (s2, o :: os)
  end.

(* what the sink holds: the bytes of the array below buffer_bytes, or the file *)
Definition sink_content (s : sink) : list Z :=
  match k_dev s with DBuf a => take (k_bb s) (a_mem a) | DFile _ f => f end.

(* ---------------------------------------------------------------------------------------------
   sources *)
Inductive rdev := RBuf (a : arr) | RFile (named : bool) (f : list Z) (pos : Z).
Record source := mkSrc { r_dev : rdev; r_bb : Z; r_in : Z; r_out : Z; r_eof : bool; r_mir : option sink }.

Inductive fault :=
| NoFault
| ShortRead (k : Z) (eof err : bool)   (* fread transfers only k bytes; then feof / ferror report these *)
| SeekFail.

Definition source_new_buffer (a : arr) : source := mkSrc (RBuf a) 0 0 0 false None.
Definition source_new_filename (open_ok : bool) (f : list Z) : option source :=
  if open_ok then Some (mkSrc (RFile true f 0) 0 0 0 false None) else None.
Definition source_new_filefile (f : list Z) (pos : Z) : source := mkSrc (RFile false f pos) 0 0 0 false None.

(* the tail of sc_io_source_read after the type switch (lines 413-429) *)
Definition read_finish (s : source) (n : Z) (wc retval : bool) (k : Z) (data : option (list Z))
  : source * Z * option Z * option (list Z) :=
  if retval then (s, E_FATAL, None, data)
  else if negb wc && (k <? n) then (s, E_FATAL, None, data)
  else (mkSrc (r_dev s) (r_bb s) (r_in s + k) (r_out s + k) (r_eof s) (r_mir s),
        E_NONE, if wc then Some k else None, data).

(* sc_io_source_read (source, data, n, bytes_out): data = Some u is the caller's buffer of n bytes
   (None: data == NULL), wc = (bytes_out != NULL).  Result: state, code, *bytes_out if stored,
   the caller's buffer afterwards.
   The early return (lines 341-351, with the repair 103c295): nothing is asked, or the end has been
   registered by an earlier call - *bytes_out = 0 if the pointer is given; without the pointer a
   request of n > 0 bytes cannot be met and is FATAL (nothing stored, nothing copied, state unchanged). *)
Definition source_read (junk : Z -> Z) (s : source) (n : Z) (data : option (list Z)) (wc : bool) (flt : fault)
  : source * Z * option Z * option (list Z) :=
  if (n =? 0) || r_eof s then
    (if wc then (s, E_NONE, Some 0, data)
     else if 0 <? n then (s, E_FATAL, None, data)
     else (s, E_NONE, None, data)) else
  match r_dev s with
  | RBuf a =>
      let total := a_cnt a * a_esz a in
      let avail := if total <? r_bb s then 0 else total - r_bb s in
      if avail =? 0 then
        read_finish (mkSrc (r_dev s) (r_bb s) (r_in s) (r_out s) true (r_mir s)) n wc false 0 data
      else
        let k := Z.min avail n in
        let data' := match data with
                     | Some u => Some (take k (drop (r_bb s) (a_mem a)) ++ drop k u)
                     | None => None
                     end in
        read_finish (mkSrc (r_dev s) (r_bb s + k) (r_in s) (r_out s) (r_eof s) (r_mir s)) n wc false k data'
  | RFile nm f pos =>
      match data with
      | Some u =>
          let natural := Z.min n (Z.max 0 (len f - pos)) in
          let '(k, eofi, erri) := match flt with
                                  | ShortRead k e r => (Z.min (Z.max k 0) natural, e, r)
                                  | _ => (natural, true, false)
                                  end in
          let got := take k (drop pos f) in
          let u' := got ++ drop k u in
          let short := k <? n in
          let eof' := if short then eofi else r_eof s in
          let retval := if short then negb eofi || erri else false in
          let '(mir', retval') :=
            if retval then (r_mir s, true)
            else match r_mir s with
                 | Some ms => let '(ms', rc) := sink_write junk ms got None in (Some ms', negb (rc =? 0))
                 | None => (None, false)
                 end in
          read_finish (mkSrc (RFile nm f (pos + k)) (r_bb s) (r_in s) (r_out s) eof' mir') n wc retval' k (Some u')
      | None =>
          let fail := match flt with SeekFail => true | _ => false end in
          read_finish (mkSrc (RFile nm f (if fail then pos else pos + n)) (r_bb s) (r_in s) (r_out s) (r_eof s) (r_mir s))
                      n wc fail n None
      end
  end.

Definition source_complete (s : source) : source * Z * option (Z * Z) :=
  match r_dev s with
  | RBuf a =>
      if negb (r_bb s mod a_esz a =? 0) then (s, E_AGAIN, None)
      else (mkSrc (r_dev s) (r_bb s) 0 0 (r_eof s) (r_mir s), E_NONE, Some (r_in s, r_out s))
  | RFile _ _ _ =>
      let '(mir', rc) := match r_mir s with
                         | Some ms => let '(ms', rc, _) := sink_complete ms false in (Some ms', rc)
                         | None => (None, E_NONE)
                         end in
      (mkSrc (r_dev s) (r_bb s) 0 0 (r_eof s) mir', rc, Some (r_in s, r_out s))
  end.

Definition source_align (junk : Z -> Z) (s : source) (al : Z) (flt : fault) : source * Z :=
  let '(s', rc, _, _) := source_read junk s (align_fill (r_out s) al) None false flt in (s', rc).

Definition source_activate_mirror (junk : Z -> Z) (s : source) : source * Z :=
  match r_dev s with
  | RBuf _ => (s, E_FATAL)
  | RFile _ _ _ =>
      match r_mir s with
      | Some _ => (s, E_FATAL)
      | None => (mkSrc (r_dev s) (r_bb s) (r_in s) (r_out s) (r_eof s)
                       (Some (sink_new_buffer junk false (mkArr 1 0 false []))), E_NONE)
      end
  end.

(* sc_io_source_destroy *)
Definition source_destroy (s : source) (closefail : bool) : Z :=
  let '(_, rc, _) := source_complete s in
  let bad1 := negb (rc =? 0) in
  let bad2 := match r_mir s with
              | Some ms => negb (fst (sink_destroy ms false false) =? 0) || bad1
              | None => bad1
              end in
  let bad3 := match r_dev s with RFile true _ _ => closefail || bad2 | _ => bad2 end in
  if bad3 then E_FATAL else E_NONE.

(* sc_io_source_read_mirror: a fresh buffer source over the mirror array, read from its start.
   Note the return value: the C code combines codes with ||, so an error is reported as 1. *)
Definition source_read_mirror (junk : Z -> Z) (s : source) (n : Z) (data : option (list Z)) (wc : bool)
  : Z * option Z * option (list Z) :=
  match r_mir s with
  | None => (E_FATAL, None, data)
  | Some ms =>
      match k_dev ms with
      | DBuf a =>
          let '(src', rc, cnt, data') := source_read junk (source_new_buffer a) n data wc NoFault in
          let bad := negb (source_destroy src' false =? 0) || negb (rc =? 0) in
          (if bad then 1 else 0, cnt, data')
      | DFile _ _ => (E_FATAL, None, data)   (* unreachable: the mirror is a buffer sink *)
      end
  end.

Inductive rop :=
| RRead (n : Z) (with_data with_count : bool) (flt : fault)
| RAlign (al : Z) (flt : fault)
| RComplete
| RMirrorOn
| RMirrorRead (n : Z) (with_data with_count : bool)
| RResize (n : Z).          (* side effect on the backing array between calls (lines 361-364) *)

(* observable result of one call: code, stored count, stored counters, caller's buffer afterwards *)
Record rres := mkRes { o_rc : Z; o_cnt : option Z; o_rep : option (Z * Z); o_data : option (list Z) }.

(* `sent`: the byte the caller's buffers are pre-filled with *)
Definition user_buf (sent : Z) (n : Z) (with_data : bool) : option (list Z) :=
  if with_data then Some (repeat sent (Z.to_nat n)) else None.

Definition source_step (junk : Z -> Z) (sent : Z) (s : source) (op : rop) : source * rres :=
  match op with
  | RRead n wd wc flt =>
      let '(s', rc, cnt, data) := source_read junk s n (user_buf sent n wd) wc flt in (s', mkRes rc cnt None data)
  | RAlign al flt => let '(s', rc) := source_align junk s al flt in (s', mkRes rc None None None)
  | RComplete => let '(s', rc, rep) := source_complete s in (s', mkRes rc None rep None)
  | RMirrorOn => let '(s', rc) := source_activate_mirror junk s in (s', mkRes rc None None None)
  | RMirrorRead n wd wc =>
      let '(rc, cnt, data) := source_read_mirror junk s n (user_buf sent n wd) wc in (s, mkRes rc cnt None data)
  | RResize n =>
      match r_dev s with
      | RBuf a => (mkSrc (RBuf (arr_resize junk a n)) (r_bb s) (r_in s) (r_out s) (r_eof s) (r_mir s), mkRes 0 None None None)
      | _ => (s, mkRes 0 None None None)
      end
  end.

Fixpoint source_run (junk : Z -> Z) (sent : Z) (s : source) (ops : list rop) : source * list rres :=
  match ops with
  | [] => (s, [])
  | op :: r => let '(s1, o) := source_step junk sent s op in
               let '(s2, os) := source_run junk sent s1 r in (s2, o :: os)
  end.

(* the bytes a source has still to deliver, and the bytes it holds in total *)
Definition source_stored (s : source) : list Z :=
  match r_dev s with RBuf a => take (a_cnt a * a_esz a) (a_mem a) | RFile _ f _ => f end.
Definition source_pos (s : source) : Z :=
  match r_dev s with RBuf _ => r_bb s | RFile _ _ pos => pos end.
Definition source_rest (s : source) : list Z := drop (source_pos s) (source_stored s).
Definition mirror_content (s : source) : option (list Z) :=
  match r_mir s with Some ms => Some (sink_content ms) | None => None end.

(* ---------------------------------------------------------------------------------------------
   sc_io_file_save / sc_io_file_load (lines 508-617).  The buffer has element size 1. *)
Definition bwins : Z := 16384.

(* result: return value, file left on disk (None: not created) *)
Definition file_save (junk : Z -> Z) (a : arr) (open_ok : bool) (flt : option Z) (flushfail closefail : bool)
  : Z * option (list Z) :=
  match sink_new_filename open_ok false [] with
  | None => (-1, None)
  | Some s =>
      let '(s', rc) := sink_write junk s (take (a_cnt a) (a_mem a)) flt in
      if negb (rc =? 0) then
        (* file_return (-1, sink, NULL): sc_io_sink_destroy (sink) || -1 *)
        (1, Some (sink_content s'))
      else
        let '(rcd, _) := sink_destroy s' flushfail closefail in
        (if negb (rcd =? 0) then -1 else 0, Some (sink_content s'))
  end.

(* the reading loop with window w; flts: one fault per iteration (NoFault when exhausted).
   None = out of fuel.  Result: return value and the buffer. *)
Fixpoint load_loop (junk : Z -> Z) (w : Z) (fuel : nat) (src : source) (b : arr) (bpos : Z) (flts : list fault)
  (closefail : bool) : option (Z * arr) :=
  match fuel with
  | O => None
  | S fuel' =>
      let b1 := arr_resize junk b (bpos + w) in
      let u := take w (drop bpos (a_mem b1)) in
      let '(src', rc, cnt, u') := source_read junk src w (Some u) true (hd NoFault flts) in
      let m2 := match u' with Some v => take bpos (a_mem b1) ++ v ++ drop (bpos + w) (a_mem b1) | None => a_mem b1 end in
      let b2 := mkArr (a_esz b1) (a_cnt b1) (a_view b1) m2 in
      if negb (rc =? 0) then
        (* file_return (-1, NULL, source): sc_io_source_destroy (source) || -1 *)
        Some (1, b2)
      else
        let bout := match cnt with Some c => c | None => 0 end in
        if bout <? w then
          let b3 := arr_resize junk b2 (bpos + bout) in
          Some (if negb (source_destroy src' closefail =? 0) then -1 else 0, b3)
        else load_loop junk w fuel' src' b2 (bpos + w) (tl flts) closefail
  end.

Definition file_load (junk : Z -> Z) (fuel : nat) (f : option (list Z)) (b : arr) (flts : list fault) (closefail : bool)
  : option (Z * arr) :=
  match f with
  | None => Some (-1, b)                         (* fopen failed *)
  | Some c =>
      match source_new_filename true c with
      | Some src => load_loop junk bwins fuel src b 0 flts closefail
      | None => Some (-1, b)
      end
  end.

(* ---------------------------------------------------------------------------------------------
   the reference the sink theorems are stated against: a byte string and two counters *)
Record sspec := mkSpec { sp_content : list Z; sp_in : Z; sp_out : Z }.

Definition spec_step (unit : Z) (st : sspec) (op : sop) : sspec * (Z * option (Z * Z)) :=
  match op with
  | SWrite d _ =>
      (mkSpec (sp_content st ++ d) (sp_in st + len d) (sp_out st + len d), (E_NONE, None))
  | SAlign al _ =>
      let z := zeros (align_fill (sp_out st) al) in
      (mkSpec (sp_content st ++ z) (sp_in st + len z) (sp_out st + len z), (E_NONE, None))
  | SComplete _ =>
      if len (sp_content st) mod unit =? 0
      then (mkSpec (sp_content st) 0 0, (E_NONE, Some (sp_in st, sp_out st)))
      else (st, (E_AGAIN, None))
  end.

Fixpoint spec_run (unit : Z) (st : sspec) (ops : list sop) : sspec * list (Z * option (Z * Z)) :=
  match ops with
  | [] => (st, [])
  | op :: r => let '(s1, o) := spec_step unit st op in
               let '(s2, os) := spec_run unit s1 r in (s2, o :: os)
  end.

Definition sink_abs (s : sink) : sspec := mkSpec (sink_content s) (k_in s) (k_out s).
Definition sink_unit (s : sink) : Z := match k_dev s with DBuf a => a_esz a | DFile _ _ => 1 end.
Definition fault_free (op : sop) : bool :=
  match op with
  | SWrite _ None | SAlign _ None | SComplete false => true
  | _ => false
  end.
