(* C11 - list lemmas over Z-indexed take/drop/len used by the sink and source proofs. *)
From Coq Require Import ZArith List Bool Lia.
From ScV Require Import C11.IoModel.
Import ListNotations.
Local Open Scope Z_scope.

Section Lists.
Context {A : Type}.
Implicit Types l : list A.

Lemma len_nonneg l : 0 <= len l.
Proof. unfold len; lia. Qed.

Lemma len_nil : len (@nil A) = 0.
Proof. reflexivity. Qed.

Lemma len_app l1 l2 : len (l1 ++ l2) = len l1 + len l2.
Proof. unfold len; rewrite app_length; lia. Qed.

Lemma len_zero_nil l : len l = 0 -> l = [].
Proof. unfold len; destruct l; simpl; [reflexivity | lia]. Qed.

Lemma len_take n l : len (take n l) = Z.min (Z.max n 0) (len l).
Proof. unfold len, take; rewrite firstn_length; lia. Qed.

Lemma len_take_le n l : 0 <= n <= len l -> len (take n l) = n.
Proof. intros; rewrite len_take; lia. Qed.

Lemma len_drop n l : len (drop n l) = Z.max 0 (len l - Z.max n 0).
Proof. unfold len, drop; rewrite skipn_length; lia. Qed.

Lemma len_drop_le n l : 0 <= n <= len l -> len (drop n l) = len l - n.
Proof. intros; rewrite len_drop; lia. Qed.

Lemma take_all n l : len l <= n -> take n l = l.
Proof. unfold len, take; intros; apply firstn_all2; lia. Qed.

Lemma take_nonpos n l : n <= 0 -> take n l = [].
Proof. unfold take; intros; replace (Z.to_nat n) with 0%nat by lia; reflexivity. Qed.

Lemma drop_nonpos n l : n <= 0 -> drop n l = l.
Proof. unfold drop; intros; replace (Z.to_nat n) with 0%nat by lia; reflexivity. Qed.

Lemma drop_all n l : len l <= n -> drop n l = [].
Proof. unfold len, drop; intros; apply skipn_all2; lia. Qed.

Lemma take_drop_id n l : take n l ++ drop n l = l.
Proof. unfold take, drop; apply firstn_skipn. Qed.

Lemma take_app_le n l1 l2 : n <= len l1 -> take n (l1 ++ l2) = take n l1.
Proof.
  unfold len, take; intros; rewrite firstn_app.
  replace (Z.to_nat n - length l1)%nat with 0%nat by lia.
  simpl; apply app_nil_r.
Qed.

Lemma take_app_exact l1 l2 : take (len l1) (l1 ++ l2) = l1.
Proof.
  rewrite take_app_le by lia. apply take_all; lia.
Qed.

Lemma take_app_ge n l1 l2 : len l1 <= n -> take n (l1 ++ l2) = l1 ++ take (n - len l1) l2.
Proof.
  unfold len, take; intros; rewrite firstn_app.
  rewrite firstn_all2 by lia.
  f_equal; f_equal; lia.
Qed.

Lemma drop_app_exact l1 l2 : drop (len l1) (l1 ++ l2) = l2.
Proof.
  unfold len, drop; rewrite Nat2Z.id, skipn_app, skipn_all, Nat.sub_diag; reflexivity.
Qed.

Lemma drop_app_ge n l1 l2 : len l1 <= n -> drop n (l1 ++ l2) = drop (n - len l1) l2.
Proof.
  unfold len, drop; intros; rewrite skipn_app.
  rewrite skipn_all2 by lia. simpl; f_equal; lia.
Qed.

Lemma drop_app_le n l1 l2 : n <= len l1 -> drop n (l1 ++ l2) = drop n l1 ++ l2.
Proof.
  unfold len, drop; intros; rewrite skipn_app.
  replace (Z.to_nat n - length l1)%nat with 0%nat by lia. reflexivity.
Qed.

Lemma take_take n m l : take n (take m l) = take (Z.min n m) l.
Proof.
  unfold take; rewrite firstn_firstn; f_equal; lia.
Qed.

Lemma skipn_skipn_nat (x y : nat) l : skipn x (skipn y l) = skipn (x + y) l.
Proof.
  revert l; induction y as [|y IH]; intros l.
  - rewrite Nat.add_0_r; reflexivity.
  - rewrite Nat.add_succ_r. destruct l; [rewrite !skipn_nil; reflexivity|]. simpl. apply IH.
Qed.

Lemma drop_drop a b l : 0 <= a -> 0 <= b -> drop a (drop b l) = drop (a + b) l.
Proof.
  unfold drop; intros; rewrite skipn_skipn_nat; f_equal; lia.
Qed.

Lemma take_nil n : take n (@nil A) = [].
Proof. unfold take; apply firstn_nil. Qed.

Lemma take_add a b l : 0 <= a -> 0 <= b -> take (a + b) l = take a l ++ take b (drop a l).
Proof.
  intros Ha Hb.
  destruct (Z_le_gt_dec a (len l)).
  - rewrite <- (take_drop_id a l) at 1.
    rewrite take_app_ge by (rewrite len_take; lia).
    rewrite len_take. replace (a + b - Z.min (Z.max a 0) (len l)) with b by lia. reflexivity.
  - rewrite (drop_all a l) by lia. rewrite take_nil, app_nil_r.
    rewrite !take_all by lia. reflexivity.
Qed.

Lemma drop_take n m l : 0 <= n -> drop n (take m l) = take (m - n) (drop n l).
Proof.
  intros Hn. unfold drop, take.
  destruct (Z_le_gt_dec n m).
  - rewrite skipn_firstn_comm. f_equal; lia.
  - rewrite skipn_all2 by (rewrite firstn_length; lia).
    replace (Z.to_nat (m - n)) with 0%nat by lia. reflexivity.
Qed.

Lemma len_repeat (x : A) k : len (repeat x (Z.to_nat k)) = Z.max 0 k.
Proof. unfold len; rewrite repeat_length; lia. Qed.

Lemma concat_app_cons (ls : list (list A)) l : concat (ls ++ [l]) = concat ls ++ l.
Proof. rewrite concat_app; simpl; rewrite app_nil_r; reflexivity. Qed.

End Lists.

Lemma fill_from_length junk n : forall start, length (fill_from junk start n) = n.
Proof. induction n as [|n IH]; intros start; simpl; [reflexivity|]. rewrite IH; reflexivity. Qed.

Lemma len_fill junk k : len (fill junk k) = Z.max 0 k.
Proof. unfold len, fill; rewrite fill_from_length; lia. Qed.

Lemma len_zeros k : len (zeros k) = Z.max 0 k.
Proof. apply len_repeat. Qed.

Lemma zeros_all_zero k x : In x (zeros k) -> x = 0.
Proof. unfold zeros; intros H; apply repeat_spec in H; exact H. Qed.

(* alignment arithmetic *)
Lemma align_fill_range out al : 0 < al -> 0 <= align_fill out al < al.
Proof. intros; unfold align_fill; apply Z.mod_pos_bound; lia. Qed.

Lemma align_fill_aligns out al : 0 < al -> (out + align_fill out al) mod al = 0.
Proof.
  intros H; unfold align_fill.
  rewrite Zplus_mod_idemp_r.
  replace (out + (al - out mod al)) with (out - out mod al + 1 * al) by lia.
  rewrite Z_mod_plus_full.
  rewrite Zminus_mod_idemp_r. rewrite Z.sub_diag. apply Z.mod_0_l; lia.
Qed.

Lemma align_fill_minimal out al k : 0 < al -> 0 <= k -> (out + k) mod al = 0 -> align_fill out al <= k.
Proof.
  intros Hal Hk Hm.
  pose proof (align_fill_range out al Hal) as Hr.
  pose proof (align_fill_aligns out al Hal) as Ha.
  destruct (Z_le_gt_dec (align_fill out al) k) as [|Hgt]; [assumption|exfalso].
  (* both out+k and out+fill are multiples of al and 0 < fill - k < al *)
  assert (Hd : (align_fill out al - k) mod al = 0).
  { replace (align_fill out al - k) with ((out + align_fill out al) - (out + k)) by lia.
    rewrite Zminus_mod, Ha, Hm. reflexivity. }
  rewrite Z.mod_small in Hd by lia. lia.
Qed.
