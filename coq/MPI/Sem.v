(* Interleaving semantics of per-rank programs for the named-source fragment (Send, Recv from a named source)
   and the confluence theorem: if SOME schedule reaches a final state then EVERY schedule does, in the same
   number of steps, never getting stuck on the way - the result is independent of message timing.
   Sends are buffered (eager); channels are FIFO per (source, destination, tag): MPI's non-overtaking rule.
   Uses functional extensionality (Coq standard library axiom) for equality of global states. *)
From Coq Require Import ZArith Lia List Bool FunctionalExtensionality.
From ScV Require Import MPI.Prog.
Import ListNotations.
Local Open Scope Z_scope.

Definition chans := Z -> Z -> Z -> list payload.     (* source, destination, tag *)
Record gs := mkgs { pr : Z -> prog; ch : chans }.

Definition updp (f : Z -> prog) (x : Z) (v : prog) : Z -> prog := fun y => if y =? x then v else f y.
Definition updc (c : chans) (a b t : Z) (q : list payload) : chans :=
  fun a' b' t' => if (a' =? a) && (b' =? b) && (t' =? t) then q else c a' b' t'.

Inductive step : gs -> Z -> gs -> Prop :=
| step_send s r d t m k :
    pr s r = Do (Send d t m) k ->
    step s r (mkgs (updp (pr s) r (k [])) (updc (ch s) r d t (ch s r d t ++ [m])))
| step_recv s r src t k m q :
    0 <= src -> pr s r = Do (Recv src t) k -> ch s src r t = m :: q ->
    step s r (mkgs (updp (pr s) r (k (src :: m))) (updc (ch s) src r t q)).

Lemma gs_eq s1 s2 : (forall r, pr s1 r = pr s2 r) -> (forall a b t, ch s1 a b t = ch s2 a b t) -> s1 = s2.
Proof.
  destruct s1 as [p1 c1], s2 as [p2 c2]; simpl; intros Hp Hc. f_equal.
  - extensionality r. apply Hp.
  - extensionality a. extensionality b. extensionality t. apply Hc.
Qed.

Lemma updp_same f x v : updp f x v x = v.
Proof. unfold updp. rewrite Z.eqb_refl. reflexivity. Qed.
Lemma updp_other f x v y : y <> x -> updp f x v y = f y.
Proof. intros H. unfold updp. destruct (Z.eqb_spec y x); [contradiction|reflexivity]. Qed.
Lemma updc_same c a b t q : updc c a b t q a b t = q.
Proof. unfold updc. rewrite !Z.eqb_refl. reflexivity. Qed.
Lemma updc_other c a b t q a' b' t' : (a', b', t') <> (a, b, t) -> updc c a b t q a' b' t' = c a' b' t'.
Proof.
  intros H. unfold updc. destruct (Z.eqb_spec a' a); destruct (Z.eqb_spec b' b); destruct (Z.eqb_spec t' t); simpl; try reflexivity.
  subst. contradiction H. reflexivity.
Qed.

(* a rank's step is determined *)
Lemma step_det s r s1 s2 : step s r s1 -> step s r s2 -> s1 = s2.
Proof.
  intros H1 H2. inversion H1; subst; inversion H2; subst; congruence.
Qed.

Lemma step_send' s r d t m k s' :
  pr s r = Do (Send d t m) k ->
  s' = mkgs (updp (pr s) r (k [])) (updc (ch s) r d t (ch s r d t ++ [m])) -> step s r s'.
Proof. intros H ->. apply step_send. exact H. Qed.
Lemma step_recv' s r src t k m q s' :
  0 <= src -> pr s r = Do (Recv src t) k -> ch s src r t = m :: q ->
  s' = mkgs (updp (pr s) r (k (src :: m))) (updc (ch s) src r t q) -> step s r s'.
Proof. intros H0 H1 H2 ->. apply step_recv; assumption. Qed.

Ltac chan_cases :=
  unfold updc;
  repeat match goal with
         | |- context [(?a =? ?b) && (?c =? ?d) && (?e =? ?f)] =>
           let E := fresh "E" in destruct ((a =? b) && (c =? d) && (e =? f)) eqn:E
         end.

(* steps of different ranks commute *)
Lemma diamond s r1 s1 r2 s2 : r1 <> r2 -> step s r1 s1 -> step s r2 s2 ->
  exists s3, step s1 r2 s3 /\ step s2 r1 s3.
Proof.
  intros Hne H1 H2. inversion H1 as [? ? d1 t1 m1 k1 P1|? ? src1 t1 k1 m1 q1 S1 P1 C1]; subst;
    inversion H2 as [? ? d2 t2 m2 k2 P2|? ? src2 t2 k2 m2 q2 S2 P2 C2]; subst.
  - (* send / send *)
    exists (mkgs (updp (updp (pr s) r1 (k1 [])) r2 (k2 []))
                 (updc (updc (ch s) r1 d1 t1 (ch s r1 d1 t1 ++ [m1])) r2 d2 t2 (ch s r2 d2 t2 ++ [m2]))).
    split.
    + eapply step_send'; [simpl; rewrite updp_other by lia; exact P2|]. simpl.
      rewrite (updc_other _ r1 d1 t1 _ r2 d2 t2) by (intros E; injection E; lia). reflexivity.
    + eapply step_send'; [simpl; rewrite updp_other by lia; exact P1|]. apply gs_eq; simpl.
      * intros r. unfold updp. destruct (r =? r1) eqn:E1; destruct (r =? r2) eqn:E2; try reflexivity. lia.
      * intros a b t. rewrite (updc_other _ r2 d2 t2 _ r1 d1 t1) by (intros E; injection E; lia).
        chan_cases; try reflexivity; lia.
  - (* send by r1 / recv by r2 *)
    exists (mkgs (updp (updp (pr s) r1 (k1 [])) r2 (k2 (src2 :: m2)))
                 (updc (updc (ch s) r1 d1 t1 (ch s r1 d1 t1 ++ [m1])) src2 r2 t2
                       (if (src2 =? r1) && (r2 =? d1) && (t2 =? t1) then q2 ++ [m1] else q2))).
    split.
    + eapply step_recv' with (m := m2); [exact S2|simpl; rewrite updp_other by lia; exact P2| |reflexivity].
      simpl. unfold updc at 1. destruct ((src2 =? r1) && (r2 =? d1) && (t2 =? t1)) eqn:E.
      * assert (src2 = r1 /\ r2 = d1 /\ t2 = t1) as [-> [-> ->]] by lia. rewrite C2. reflexivity.
      * exact C2.
    + eapply step_send'; [simpl; rewrite updp_other by lia; exact P1|]. apply gs_eq; simpl.
      * intros r. unfold updp. destruct (r =? r1) eqn:E1; destruct (r =? r2) eqn:E2; try reflexivity. lia.
      * intros a b t. chan_cases; try reflexivity; try lia.
        all: try (assert (src2 = r1 /\ r2 = d1 /\ t2 = t1) as [? [? ?]] by lia; subst; rewrite C2; reflexivity).
  - (* recv by r1 / send by r2 *)
    exists (mkgs (updp (updp (pr s) r2 (k2 [])) r1 (k1 (src1 :: m1)))
                 (updc (updc (ch s) r2 d2 t2 (ch s r2 d2 t2 ++ [m2])) src1 r1 t1
                       (if (src1 =? r2) && (r1 =? d2) && (t1 =? t2) then q1 ++ [m2] else q1))).
    split.
    + eapply step_send'; [simpl; rewrite updp_other by lia; exact P2|]. apply gs_eq; simpl.
      * intros r. unfold updp. destruct (r =? r1) eqn:E1; destruct (r =? r2) eqn:E2; try reflexivity. lia.
      * intros a b t. chan_cases; try reflexivity; try lia.
        all: try (assert (src1 = r2 /\ r1 = d2 /\ t1 = t2) as [? [? ?]] by lia; subst; rewrite C1; reflexivity).
    + eapply step_recv' with (m := m1); [exact S1|simpl; rewrite updp_other by lia; exact P1| |reflexivity].
      simpl. unfold updc at 1. destruct ((src1 =? r2) && (r1 =? d2) && (t1 =? t2)) eqn:E.
      * assert (src1 = r2 /\ r1 = d2 /\ t1 = t2) as [-> [-> ->]] by lia. rewrite C1. reflexivity.
      * exact C1.
  - (* recv / recv: different destinations, different channels *)
    exists (mkgs (updp (updp (pr s) r1 (k1 (src1 :: m1))) r2 (k2 (src2 :: m2)))
                 (updc (updc (ch s) src1 r1 t1 q1) src2 r2 t2 q2)).
    split.
    + eapply step_recv' with (m := m2); [exact S2|simpl; rewrite updp_other by lia; exact P2| |reflexivity].
      simpl. rewrite updc_other by (intros E; injection E; lia). exact C2.
    + eapply step_recv' with (m := m1); [exact S1|simpl; rewrite updp_other by lia; exact P1| |].
      * simpl. rewrite updc_other by (intros E; injection E; lia). exact C1.
      * apply gs_eq; simpl.
        -- intros r. unfold updp. destruct (r =? r1) eqn:E1; destruct (r =? r2) eqn:E2; try reflexivity. lia.
        -- intros a b t. chan_cases; try reflexivity; lia.
Qed.

(* runs *)
Inductive run : nat -> gs -> gs -> Prop :=
| run_nil s : run 0 s s
| run_cons n s r s1 s2 : step s r s1 -> run n s1 s2 -> run (S n) s s2.

Definition final (s : gs) : Prop := forall r, exists out, pr s r = Ret out.

Lemma final_no_step s r s' : final s -> step s r s' -> False.
Proof. intros Hf Hs. destruct (Hf r) as [out Ho]. inversion Hs; subst; congruence. Qed.

Lemma run_app n1 n2 s1 s2 s3 : run n1 s1 s2 -> run n2 s2 s3 -> run (n1 + n2) s1 s3.
Proof. induction 1; simpl; [auto|]. intros. econstructor; eauto. Qed.

(* one step off a terminating run can be caught up *)
Lemma catch_up : forall n s f, run n s f -> final f -> forall r s1, step s r s1 ->
  exists n', n = S n' /\ run n' s1 f.
Proof.
  induction n as [|n IH]; intros s f Hrun Hfin r s1 Hstep.
  - inversion Hrun; subst. exfalso. eapply final_no_step; eauto.
  - inversion Hrun as [|? ? r0 s0 ? Hs0 Hrest]; subst. exists n. split; [reflexivity|].
    destruct (Z.eq_dec r0 r) as [->|Hne].
    + rewrite (step_det _ _ _ _ Hstep Hs0). exact Hrest.
    + destruct (diamond s r0 s0 r s1 Hne Hs0 Hstep) as [s3 [H03 H13]].
      destruct (IH s0 f Hrest Hfin r s3 H03) as [n' [-> Hr3]].
      econstructor; eauto.
Qed.

(* CONFLUENCE: if one schedule reaches a final state f in n steps, then every run of m steps from the same
   state has m <= n and can be completed to f in exactly n - m further steps. *)
Theorem confluence : forall m n s f s', run n s f -> final f -> run m s s' ->
  (m <= n)%nat /\ run (n - m) s' f.
Proof.
  induction m as [|m IH]; intros n s f s' Hn Hf Hm.
  - inversion Hm; subst. split; [lia|]. rewrite Nat.sub_0_r. exact Hn.
  - inversion Hm as [|? ? r s1 ? Hs Hrest]; subst.
    destruct (catch_up n s f Hn Hf r s1 Hs) as [n' [-> Hn']].
    destruct (IH n' s1 f s' Hn' Hf Hrest) as [Hle Hr]. split; [lia|exact Hr].
Qed.

(* consequences: every schedule terminates in the same final state; no reachable state is stuck *)
Corollary same_final n s f m f' : run n s f -> final f -> run m s f' -> final f' -> f' = f /\ m = n.
Proof.
  intros Hn Hf Hm Hf'. destruct (confluence m n s f f' Hn Hf Hm) as [Hle Hr].
  inversion Hr as [|k ? r s1 ? Hs Hrest Hk]; subst.
  - split; [reflexivity|lia].
  - exfalso. eapply final_no_step; eauto.
Qed.

Corollary never_stuck n s f m s' : run n s f -> final f -> run m s s' -> final s' \/ exists r s'', step s' r s''.
Proof.
  intros Hn Hf Hm. destruct (confluence m n s f s' Hn Hf Hm) as [Hle Hr].
  inversion Hr; subst; [left; assumption|right; eauto].
Qed.
