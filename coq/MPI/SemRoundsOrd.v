(* EVERY SCHEDULE of a level-structured protocol with wildcard receives whose RESULT MAY DEPEND ON THE ARRIVAL ORDER.

   MPI/SemRounds.v proves, for protocols of NL levels (sends, then receives - wildcard or named - from a known set of sources,
   FIFO channels per (source, destination, tag), semantics MPI/SemAny.v), that no schedule is stuck, all maximal runs have the
   same length and end with the results `out r` and empty channels - for programs whose result does not depend on the order in
   which a level's messages arrive (ROUND PROPERTY `Hround`).  The notify algorithms pcx / rsx / nbx / superset with UNSORTED
   output return the senders in arrival order.  This file is the same development with one generalisation: the round property
   reads  "fed with the replies of the script of the order family `ord`, P r issues the script's actions and returns out r ord",
   and the theorem says: in every final state every rank r has returned `out r ord` for SOME valid order family ord (for every
   level a permutation of the level's sources).  Everything else (invariant, ghost histories, head_level, reorder, progress) is
   SemRounds.v's section `Proto` verbatim, with a second small generalisation: a level of a rank may be declared `fixedord` - all
   its receives name their source, in the fixed order `srcs r l` (the ranges algorithm) - and then only that order is required
   of the round property (a wildcard never reorders such a level); the definitions outside the section (feed, after, item, list lemmas) are imported from
   there.  Additionally exported for the lift to programs with collectives (MPI/SemColl.v): `reach_facts` (positive progress,
   and the program of every rank in a reachable state is a `Ret` or at a Send / Recv of its script).  No axiom. *)
From Coq Require Import ZArith Lia List Bool Permutation.
From ScV Require Import MPI.Prog MPI.Sem MPI.SemAny MPI.SemRounds MPI.SemColl.
Import ListNotations.
Local Open Scope Z_scope.

Section ProtoOrd.
  Variable NL : nat.
  Variable tagof : nat -> Z.
  Variable sends : Z -> nat -> list (Z * payload).
  Variable srcs : Z -> nat -> list Z.
  Variable wire : nat -> Z -> Z -> payload.                    (* level, from, to *)
  Variable named : Z -> nat -> nat -> bool.                    (* rank, level, index of the receive inside the level *)
  Variable fixedord : Z -> nat -> bool.                        (* rank, level: all receives of the level name their source, in the
                                                                  fixed order `srcs r l` (then no other order family is considered) *)
  Variable P : Z -> prog.
  Variable out : Z -> (nat -> list Z) -> payload.        (* the result of rank r may depend on the arrival orders *)
  Variable rks : list Z.                                       (* the ranks that take part *)

  Definition act_of (x : item) : act :=
    match x with ISend l d m => Send d (tagof l) m | IRecv l nm q => Recv (if nm then q else ANY) (tagof l) end.
  Definition reply_of (r : Z) (x : item) : payload :=
    match x with ISend _ _ _ => [] | IRecv l _ q => q :: wire l q r end.
  Fixpoint mkrecvs (r : Z) (l i : nat) (o : list Z) : list item :=
    match o with [] => [] | q :: o' => IRecv l (named r l i) q :: mkrecvs r l (S i) o' end.
  Definition lvl_items (r : Z) (ord : nat -> list Z) (l : nat) : list item :=
    map (fun dm => ISend l (fst dm) (snd dm)) (sends r l) ++ mkrecvs r l 0 (ord l).
  Definition script (r : Z) (ord : nat -> list Z) : list item := flat_map (lvl_items r ord) (seq 0 NL).
  Definition valid (r : Z) (ord : nat -> list Z) : Prop :=
    forall l, (l < NL)%nat -> Permutation (ord l) (srcs r l) /\ (fixedord r l = true -> ord l = srcs r l).

  Definition len (r : Z) : nat := list_sum (map (fun l => length (sends r l) + length (srcs r l))%nat (seq 0 NL)).
  Definition total_len : nat := list_sum (map len rks).

  (* a closed bound on the number of steps: if a rank has at most B l sends + receives at level l *)
  Lemma total_len_bound (B : nat -> nat) :
    (forall r l, In r rks -> (l < NL)%nat -> (length (sends r l) + length (srcs r l) <= B l)%nat) ->
    (total_len <= length rks * list_sum (map B (seq 0 NL)))%nat.
  Proof.
    intros H. unfold total_len. transitivity (list_sum (map (fun _ : Z => list_sum (map B (seq 0 NL))) rks)).
    - apply list_sum_le. intros r Hr. unfold len. apply list_sum_le. intros l Hl. apply in_seq in Hl. apply H; [exact Hr|lia].
    - clear H. generalize (list_sum (map B (seq 0 NL))). intros c. induction rks as [|r l IH]; [apply Nat.le_refl|].
      cbn [map length]. rewrite list_sum_cons. change (S (length l) * c)%nat with (c + length l * c)%nat. apply Nat.add_le_mono_l. exact IH.
  Qed.

  (* the replies and actions of a level's items *)
  Lemma replies_sends r l S : map (reply_of r) (map (fun dm => ISend l (fst dm) (snd dm)) S) = repeat [] (length S).
  Proof. induction S as [|x S IH]; [reflexivity|]. cbn [map length repeat reply_of]. rewrite IH. reflexivity. Qed.
  Lemma replies_recvs r l : forall o i, map (reply_of r) (mkrecvs r l i o) = map (fun q => q :: wire l q r) o.
  Proof. induction o as [|q o IH]; intros i; [reflexivity|]. cbn [map mkrecvs reply_of]. rewrite IH. reflexivity. Qed.
  Lemma acts_sends l S : map act_of (map (fun dm => ISend l (fst dm) (snd dm)) S) = map (fun dm => Send (fst dm) (tagof l) (snd dm)) S.
  Proof. rewrite map_map. reflexivity. Qed.
  Lemma acts_recvs_wild r l : (forall i, named r l i = false) -> forall o i, map act_of (mkrecvs r l i o) = repeat (Recv ANY (tagof l)) (length o).
  Proof. intros Hn. induction o as [|q o IH]; intros i; [reflexivity|]. cbn [map mkrecvs act_of length repeat]. rewrite Hn, IH. reflexivity. Qed.

  Hypothesis Hrks : NoDup rks.
  Hypothesis Hout : forall r l, ~ In r rks -> sends r l = [] /\ srcs r l = [].
  (* levels may SHARE a tag (consecutive calls of an algorithm): then the later level has no source the earlier one does not
     have, and the earlier level has at most its FIRST receive as a wildcard.  Vacuous if the tags are pairwise distinct. *)
  Hypothesis Hcompat : forall r p p', (p < p')%nat -> (p' < NL)%nat -> tagof p = tagof p' ->
    (forall q, In q (srcs r p') -> In q (srcs r p)) /\ (forall i, named r p i = false -> i = 0%nat).
  Hypothesis Hfixed : forall r l i, (l < NL)%nat -> fixedord r l = true -> named r l i = true.
  Hypothesis Hdst : forall r l, (l < NL)%nat -> NoDup (map fst (sends r l)).
  Hypothesis Hsrc : forall r l, (l < NL)%nat -> NoDup (srcs r l).
  Hypothesis Hsrc0 : forall r l q, (l < NL)%nat -> In q (srcs r l) -> 0 <= q.
  Hypothesis Hmatch1 : forall q l d m, (l < NL)%nat -> In (d, m) (sends q l) -> In q (srcs d l) /\ m = wire l q d.
  Hypothesis Hmatch2 : forall r l q, (l < NL)%nat -> In q (srcs r l) -> In (r, wire l q r) (sends q l).
  (* the ROUND PROPERTY of the programs *)
  Hypothesis Hround : forall r ord, valid r ord ->
    feed (map (reply_of r) (script r ord)) (P r) = (map act_of (script r ord), Some (out r ord)).

  (* ---- the structure of a script ------------------------------------------------------------------------------------------- *)
  Lemma mkrecvs_app r l : forall o1 o2 i, mkrecvs r l i (o1 ++ o2) = mkrecvs r l i o1 ++ mkrecvs r l (i + length o1) o2.
  Proof.
    induction o1 as [|q o1 IH]; intros o2 i; cbn [app mkrecvs length]; [rewrite Nat.add_0_r; reflexivity|].
    rewrite IH. replace (S i + length o1)%nat with (i + S (length o1))%nat by lia. reflexivity.
  Qed.

  Lemma mkrecvs_in r l x : forall o i, In x (mkrecvs r l i o) -> exists nm q, x = IRecv l nm q /\ In q o.
  Proof.
    induction o as [|q o IH]; intros i H; [contradiction|]. cbn [mkrecvs] in H. destruct H as [<-|H].
    - eexists _, q. split; [reflexivity|left; reflexivity].
    - destruct (IH _ H) as [nm [q' [E Hq]]]. exists nm, q'. split; [exact E|right; exact Hq].
  Qed.

  Lemma mkrecvs_in_conv r l q : forall o i, In q o -> exists nm, In (IRecv l nm q) (mkrecvs r l i o).
  Proof.
    induction o as [|q' o IH]; intros i H; [contradiction|]. cbn [mkrecvs]. destruct H as [->|H].
    - eexists. left. reflexivity.
    - destruct (IH (S i) H) as [nm Hn]. exists nm. right. exact Hn.
  Qed.

  Lemma mkrecvs_split r l : forall o i a x b, mkrecvs r l i o = a ++ x :: b ->
    exists o1 q o2, o = o1 ++ q :: o2 /\ a = mkrecvs r l i o1 /\ x = IRecv l (named r l (i + length o1)) q /\
                    b = mkrecvs r l (S (i + length o1)) o2.
  Proof.
    induction o as [|q o IH]; intros i a x b H; [destruct a; discriminate|]. cbn [mkrecvs] in H. destruct a as [|y a].
    - cbn [app] in H. injection H as <- <-. exists [], q, o. cbn [length app mkrecvs]. rewrite Nat.add_0_r. repeat split.
    - cbn [app] in H. injection H as <- H. destruct (IH _ _ _ _ H) as [o1 [q' [o2 [E1 [E2 [E3 E4]]]]]].
      exists (q :: o1), q', o2. cbn [length app mkrecvs]. rewrite E1, E2.
      replace (i + S (length o1))%nat with (S i + length o1)%nat by lia. repeat split; assumption.
  Qed.

  Lemma lvl_items_lev r ord l x : In x (lvl_items r ord l) -> lev x = l.
  Proof.
    unfold lvl_items. rewrite in_app_iff, in_map_iff. intros [[dm [<- _]]|H]; [reflexivity|].
    destruct (mkrecvs_in _ _ _ _ _ H) as [nm [q [-> _]]]. reflexivity.
  Qed.

  Lemma flat_lev r ord x ls : In x (flat_map (lvl_items r ord) ls) -> In (lev x) ls.
  Proof. rewrite in_flat_map. intros [l [Hl Hx]]. rewrite (lvl_items_lev _ _ _ _ Hx). exact Hl. Qed.

  Lemma lvl_split r ord l a x b : lvl_items r ord l = a ++ x :: b ->
    (exists s1 d m s2, sends r l = s1 ++ (d, m) :: s2 /\ a = map (fun dm => ISend l (fst dm) (snd dm)) s1 /\ x = ISend l d m /\
                       b = map (fun dm => ISend l (fst dm) (snd dm)) s2 ++ mkrecvs r l 0 (ord l)) \/
    (exists o1 q o2, ord l = o1 ++ q :: o2 /\ a = map (fun dm => ISend l (fst dm) (snd dm)) (sends r l) ++ mkrecvs r l 0 o1 /\
                     x = IRecv l (named r l (length o1)) q /\ b = mkrecvs r l (S (length o1)) o2).
  Proof.
    unfold lvl_items. intros H. destruct (app_eq_app _ _ _ _ H) as [t [[H1 H2]|[H1 H2]]].
    - destruct t as [|y t].
      + cbn [app] in H2. rewrite app_nil_r in H1. right.
        destruct (mkrecvs_split r l (ord l) 0 [] x b (eq_sym H2)) as [o1 [q [o2 [E1 [E2 [E3 E4]]]]]].
        destruct o1; [|discriminate]. exists [], q, o2. cbn [length app mkrecvs] in *. rewrite app_nil_r. auto.
      + cbn [app] in H2. injection H2 as -> ->. left.
        destruct (map_eq_app _ _ _ _ H1) as [s1 [s2' [E1 [E2 E3]]]]. destruct (map_eq_cons _ _ E3) as [[d m] [s2 [E4 [E5 E6]]]].
        exists s1, d, m, s2. subst. cbn [fst snd]. auto.
    - right. destruct (mkrecvs_split r l (ord l) 0 t x b H2) as [o1 [q [o2 [E1 [E2 [E3 E4]]]]]].
      exists o1, q, o2. subst. cbn [Nat.add] in *. auto.
  Qed.

  Lemma script_split r ord dn x rem : script r ord = dn ++ x :: rem ->
    exists a b, let l := lev x in (l < NL)%nat /\ lvl_items r ord l = a ++ x :: b /\
                dn = flat_map (lvl_items r ord) (seq 0 l) ++ a /\ rem = b ++ flat_map (lvl_items r ord) (seq (S l) (NL - S l)).
  Proof.
    unfold script. intros H. destruct (flat_map_split _ _ _ _ _ H) as [l1 [l [l2 [a [b [E1 [E2 [E3 E4]]]]]]]].
    destruct (seq_split _ _ _ _ _ E1) as [F1 [F2 F3]].
    assert (Hl : lev x = l) by (apply (lvl_items_lev r ord); rewrite E2; apply in_elt).
    exists a, b. cbv zeta. rewrite Hl. rewrite Nat.sub_0_r in F1. cbn [Nat.add] in F2. subst l1 l2. repeat split; try assumption; lia.
  Qed.

  Lemma valid_in r ord l q : valid r ord -> (l < NL)%nat -> (In q (ord l) <-> In q (srcs r l)).
  Proof. intros Hv Hl. split; apply Permutation_in; [|apply Permutation_sym]; apply (proj1 (Hv l Hl)). Qed.

  Lemma valid_nodup r ord l : valid r ord -> (l < NL)%nat -> NoDup (ord l).
  Proof. intros Hv Hl. apply (Permutation_NoDup (Permutation_sym (proj1 (Hv l Hl)))). apply Hsrc. exact Hl. Qed.

  Lemma script_send_in r ord l d m : In (ISend l d m) (script r ord) <-> (l < NL)%nat /\ In (d, m) (sends r l).
  Proof.
    unfold script. rewrite in_flat_map. split.
    - intros [l' [Hl' Hx]]. pose proof (lvl_items_lev _ _ _ _ Hx) as E. cbn [lev] in E. subst l'. apply in_seq in Hl'. split; [lia|].
      unfold lvl_items in Hx. apply in_app_iff in Hx. destruct Hx as [Hx|Hx].
      + apply in_map_iff in Hx. destruct Hx as [[d' m'] [E Hin]]. cbn [fst snd] in E. injection E as -> ->. exact Hin.
      + destruct (mkrecvs_in _ _ _ _ _ Hx) as [nm [q [E _]]]. discriminate.
    - intros [Hl Hin]. exists l. split; [apply in_seq; lia|]. unfold lvl_items. apply in_app_iff. left.
      apply in_map_iff. exists (d, m). split; [reflexivity|exact Hin].
  Qed.

  Lemma script_recv_in r ord l nm q : In (IRecv l nm q) (script r ord) -> (l < NL)%nat /\ In q (ord l).
  Proof.
    unfold script. rewrite in_flat_map. intros [l' [Hl' Hx]]. pose proof (lvl_items_lev _ _ _ _ Hx) as E. cbn [lev] in E. subst l'.
    apply in_seq in Hl'. split; [lia|]. unfold lvl_items in Hx. apply in_app_iff in Hx. destruct Hx as [Hx|Hx].
    - apply in_map_iff in Hx. destruct Hx as [dm [E _]]. discriminate.
    - destruct (mkrecvs_in _ _ _ _ _ Hx) as [nm' [q' [E Hq]]]. injection E as _ ->. exact Hq.
  Qed.

  Lemma script_recv_conv r ord l q : (l < NL)%nat -> In q (ord l) -> exists nm, In (IRecv l nm q) (script r ord).
  Proof.
    intros Hl Hq. destruct (mkrecvs_in_conv r l q (ord l) 0 Hq) as [nm Hn]. exists nm. unfold script. apply in_flat_map.
    exists l. split; [apply in_seq; lia|]. unfold lvl_items. apply in_app_iff. right. exact Hn.
  Qed.

  (* one send per (level, destination) *)
  Lemma script_send_once r ord dn l d m rem m' : script r ord = dn ++ ISend l d m :: rem -> ~ In (ISend l d m') dn.
  Proof.
    intros H Hin. destruct (script_split _ _ _ _ _ H) as [a [b [Hl [E2 [E3 E4]]]]]. cbn [lev] in *. subst dn.
    apply in_app_iff in Hin. destruct Hin as [Hin|Hin].
    - apply flat_lev in Hin. cbn [lev] in Hin. apply in_seq in Hin. lia.
    - destruct (lvl_split _ _ _ _ _ _ E2) as [[s1 [d0 [m0 [s2 [F1 [F2 [F3 F4]]]]]]]|[o1 [q [o2 [F1 [F2 [F3 F4]]]]]]]; [|discriminate].
      injection F3 as <- <-. subst a. apply in_map_iff in Hin. destruct Hin as [[d1 m1] [E Hs1]]. cbn [fst snd] in E. injection E as -> ->.
      pose proof (Hdst r l Hl) as Hnd. rewrite F1, map_app in Hnd. cbn [map fst] in Hnd. apply NoDup_remove_2 in Hnd. apply Hnd.
      apply in_app_iff. left. apply in_map_iff. exists (d, m'). split; [reflexivity|exact Hs1].
  Qed.

  (* one receive per (level, source) *)
  Lemma script_recv_once r ord dn l nm q rem nm' : valid r ord -> script r ord = dn ++ IRecv l nm q :: rem -> ~ In (IRecv l nm' q) dn.
  Proof.
    intros Hv H Hin. destruct (script_split _ _ _ _ _ H) as [a [b [Hl [E2 [E3 E4]]]]]. cbn [lev] in *. subst dn.
    apply in_app_iff in Hin. destruct Hin as [Hin|Hin].
    - apply flat_lev in Hin. cbn [lev] in Hin. apply in_seq in Hin. lia.
    - destruct (lvl_split _ _ _ _ _ _ E2) as [[s1 [d0 [m0 [s2 [F1 [F2 [F3 F4]]]]]]]|[o1 [q0 [o2 [F1 [F2 [F3 F4]]]]]]]; [discriminate|].
      injection F3 as _ <-. subst a. apply in_app_iff in Hin. destruct Hin as [Hin|Hin].
      + apply in_map_iff in Hin. destruct Hin as [dm [E _]]. discriminate.
      + destruct (mkrecvs_in _ _ _ _ _ Hin) as [nm1 [q1 [E Hq1]]]. injection E as _ <-.
        pose proof (valid_nodup r ord l Hv Hl) as Hnd. rewrite F1 in Hnd. apply NoDup_remove_2 in Hnd. apply Hnd. apply in_app_iff. left. exact Hq1.
  Qed.

  (* order: a send of level l that is still to come is not preceded by later levels, nor by receives of level l *)
  Lemma script_order r ord dn x rem l d m : script r ord = dn ++ x :: rem -> In (ISend l d m) (x :: rem) ->
    (lev x <= l)%nat /\ (lev x = l -> exists d' m', x = ISend l d' m').
  Proof.
    intros H Hin. destruct (script_split _ _ _ _ _ H) as [a [b [Hl [E2 [E3 E4]]]]].
    destruct Hin as [->|Hin]; [cbn [lev]; split; [lia|intros _; eauto]|].
    rewrite E4 in Hin. apply in_app_iff in Hin. destruct Hin as [Hin|Hin].
    - assert (El : lev (ISend l d m) = lev x) by (apply (lvl_items_lev r ord); rewrite E2; apply in_app_iff; right; right; exact Hin).
      cbn [lev] in El.
      split; [lia|]. intros _.
      destruct (lvl_split _ _ _ _ _ _ E2) as [[s1 [d0 [m0 [s2 [F1 [F2 [F3 F4]]]]]]]|[o1 [q0 [o2 [F1 [F2 [F3 F4]]]]]]].
      + rewrite F3. rewrite El. eauto.
      + exfalso. rewrite F4 in Hin. destruct (mkrecvs_in _ _ _ _ _ Hin) as [nm1 [q1 [E _]]]. discriminate.
    - apply flat_lev in Hin. cbn [lev] in Hin. apply in_seq in Hin. split; [lia|]. intros E. lia.
  Qed.

  Lemma script_length r ord : valid r ord -> length (script r ord) = len r.
  Proof.
    intros Hv. unfold script, len. rewrite flat_map_length. f_equal. apply map_ext_in. intros l Hl. apply in_seq in Hl.
    unfold lvl_items. rewrite app_length, map_length. f_equal.
    assert (Hm : forall o i, length (mkrecvs r l i o) = length o) by (induction o as [|q o IH]; intros i; cbn [mkrecvs length]; [reflexivity|rewrite IH; reflexivity]).
    rewrite Hm. apply Permutation_length. apply (proj1 (Hv l ltac:(lia))).
  Qed.

  (* more on the order of a script *)
  Lemma script_prefix_levels r ord dn x rem y : script r ord = dn ++ x :: rem -> In y dn -> (lev y <= lev x)%nat.
  Proof.
    intros H Hy. destruct (script_split _ _ _ _ _ H) as [a [b [Hl [E2 [E3 E4]]]]]. rewrite E3 in Hy. apply in_app_iff in Hy. destruct Hy as [Hy|Hy].
    - apply flat_lev in Hy. apply in_seq in Hy. lia.
    - assert (E : lev y = lev x) by (apply (lvl_items_lev r ord); rewrite E2; apply in_app_iff; left; exact Hy). lia.
  Qed.

  Lemma script_level_done r ord dn x rem y : script r ord = dn ++ x :: rem -> In y (script r ord) -> (lev y < lev x)%nat -> In y dn.
  Proof.
    intros H Hy Hlt. destruct (script_split _ _ _ _ _ H) as [a [b [Hl [E2 [E3 E4]]]]]. rewrite H in Hy. apply in_app_iff in Hy.
    destruct Hy as [Hy|[->|Hy]]; [exact Hy|lia|exfalso]. rewrite E4 in Hy. apply in_app_iff in Hy. destruct Hy as [Hy|Hy].
    - assert (E : lev y = lev x) by (apply (lvl_items_lev r ord); rewrite E2; apply in_app_iff; right; right; exact Hy). lia.
    - apply flat_lev in Hy. apply in_seq in Hy. lia.
  Qed.

  (* a wildcard that is the first receive of its level: nothing of the level has been received before *)
  Lemma script_first_recv r ord dn p q rem : script r ord = dn ++ IRecv p false q :: rem -> (forall i, named r p i = false -> i = 0%nat) ->
    forall nm q', ~ In (IRecv p nm q') dn.
  Proof.
    intros H Hfirst nm q' Hin. destruct (script_split _ _ _ _ _ H) as [a [b [Hl [E2 [E3 E4]]]]]. cbn [lev] in *.
    destruct (lvl_split _ _ _ _ _ _ E2) as [[s1 [d0 [m0 [s2 [F1 [F2 [F3 F4]]]]]]]|[o1 [q0 [o2 [F1 [F2 [F3 F4]]]]]]]; [discriminate|].
    injection F3 as Hnm _. symmetry in Hnm. apply Hfirst in Hnm. destruct o1; [|discriminate]. cbn [mkrecvs] in F2. rewrite app_nil_r in F2.
    rewrite E3, F2 in Hin. apply in_app_iff in Hin. destruct Hin as [Hin|Hin].
    - apply flat_lev in Hin. cbn [lev] in Hin. apply in_seq in Hin. lia.
    - apply in_map_iff in Hin. destruct Hin as [dm [E _]]. discriminate.
  Qed.

  (* REORDERING: a wildcard may match any source of its level that has not been matched yet *)
  Lemma reorder r ord dn l q rem src : valid r ord -> script r ord = dn ++ IRecv l false q :: rem ->
    In src (srcs r l) -> (forall nm, ~ In (IRecv l nm src) dn) ->
    exists ord' rem', valid r ord' /\ script r ord' = dn ++ IRecv l false src :: rem'.
  Proof.
    intros Hv H Hsrcl Hnot. destruct (script_split _ _ _ _ _ H) as [a [b [Hl [E2 [E3 E4]]]]]. cbn [lev] in *.
    destruct (lvl_split _ _ _ _ _ _ E2) as [[s1 [d0 [m0 [s2 [F1 [F2 [F3 F4]]]]]]]|[o1 [q0 [o2 [F1 [F2 [F3 F4]]]]]]]; [discriminate|].
    injection F3 as Hnm <-.
    (* src is among q :: o2 *)
    assert (Hin : In src (q :: o2)).
    { apply (valid_in r ord l src Hv Hl) in Hsrcl. rewrite F1 in Hsrcl. apply in_app_iff in Hsrcl. destruct Hsrcl as [Ho1|Ho1]; [|exact Ho1].
      exfalso. destruct (mkrecvs_in_conv r l src o1 0 Ho1) as [nm Hn]. apply (Hnot nm). rewrite E3, F2. apply in_app_iff. right. apply in_app_iff. right. exact Hn. }
    destruct (in_split _ _ Hin) as [u1 [u2 Hu]].
    set (ord' := fun l' => if Nat.eqb l' l then o1 ++ src :: u1 ++ u2 else ord l').
    assert (Hperm : Permutation (ord' l) (ord l)).
    { unfold ord'. rewrite Nat.eqb_refl, F1. apply Permutation_app_head. rewrite Hu. apply Permutation_middle. }
    assert (Hv' : valid r ord').
    { intros l' Hl'. destruct (Nat.eqb_spec l' l) as [->|Hne].
      - split; [eapply Permutation_trans; [exact Hperm|apply (proj1 (Hv l Hl))]|].
        intros Hfx. pose proof (Hfixed r l (length o1) Hl Hfx) as Hn1. cbn [Nat.add] in Hnm. congruence.
      - unfold ord'. destruct (Nat.eqb_spec l' l); [contradiction|]. apply Hv. exact Hl'. }
    assert (Hsame : forall l', l' <> l -> lvl_items r ord' l' = lvl_items r ord l').
    { intros l' Hne. unfold lvl_items, ord'. destruct (Nat.eqb_spec l' l); [contradiction|reflexivity]. }
    exists ord', (mkrecvs r l (S (length o1)) (u1 ++ u2) ++ flat_map (lvl_items r ord') (seq (S l) (NL - S l))).
    split; [exact Hv'|]. unfold script.
    replace (seq 0 NL) with (seq 0 l ++ l :: seq (S l) (NL - S l)).
    2:{ change (l :: seq (S l) (NL - S l)) with (seq l (S (NL - S l))). rewrite <- seq_app. f_equal. lia. }
    rewrite flat_map_app. cbn [flat_map].
    rewrite (flat_map_ext_in (lvl_items r ord') (lvl_items r ord) (seq 0 l)) by (intros l' Hl'; apply in_seq in Hl'; apply Hsame; lia).
    rewrite E3, F2, <- !app_assoc. f_equal. unfold lvl_items at 1. rewrite <- app_assoc. f_equal.
    unfold ord' at 1. rewrite Nat.eqb_refl. rewrite mkrecvs_app. cbn [Nat.add mkrecvs]. rewrite <- Hnm, <- app_assoc. reflexivity.
  Qed.

  (* ---- the invariant ---------------------------------------------------------------------------------------------------------- *)
  Definition init : gs := mkgs P (fun _ _ _ => []).

  Definition inv_prog (D : Z -> list item) (s : gs) : Prop :=
    forall r, exists ord rem, valid r ord /\ script r ord = D r ++ rem /\ pr s r = after (P r) (map (reply_of r) (D r)).
  (* the contents of a channel: for every level with the channel's tag, in the order of the levels, the message that has been
     sent and not yet received *)
  Definition is_send (b : Z) (p : nat) (x : item) : bool := match x with ISend l d _ => Nat.eqb l p && (d =? b) | IRecv _ _ _ => false end.
  Definition is_recv (a : Z) (p : nat) (x : item) : bool := match x with IRecv l _ q => Nat.eqb l p && (q =? a) | ISend _ _ _ => false end.
  Definition sentb (Da : list item) (b : Z) (p : nat) : bool := existsb (is_send b p) Da.
  Definition rcvdb (Db : list item) (a : Z) (p : nat) : bool := existsb (is_recv a p) Db.
  Definition pend (D : Z -> list item) (a b : Z) (p : nat) : list payload :=
    if sentb (D a) b p && negb (rcvdb (D b) a p) then [wire p a b] else [].
  Definition entry (D : Z -> list item) (a b t : Z) (p : nat) : list payload := if tagof p =? t then pend D a b p else [].
  Definition chan (D : Z -> list item) (a b t : Z) : list payload := flat_map (entry D a b t) (seq 0 NL).
  Definition inv_ch (D : Z -> list item) (s : gs) : Prop := forall a b t, ch s a b t = chan D a b t.
  (* a message that was received had been sent *)
  Definition inv_ch3 (D : Z -> list item) : Prop :=
    forall a b l nm, In (IRecv l nm a) (D b) -> exists m, In (ISend l b m) (D a).
  Definition steps_of (D : Z -> list item) : nat := list_sum (map (fun r => length (D r)) rks).


  Definition Inv (n : nat) (s : gs) : Prop :=
    exists D, inv_prog D s /\ inv_ch D s /\ inv_ch3 D /\ (forall r, ~ In r rks -> D r = []) /\ steps_of D = n.

  Lemma sentb_spec Da b p : sentb Da b p = true <-> exists m, In (ISend p b m) Da.
  Proof.
    unfold sentb. rewrite existsb_exists. split.
    - intros [x [Hx E]]. destruct x as [l d m|]; [|discriminate]. cbn [is_send] in E. apply andb_true_iff in E. destruct E as [E1 E2].
      apply Nat.eqb_eq in E1. apply Z.eqb_eq in E2. subst. eauto.
    - intros [m Hm]. exists (ISend p b m). split; [exact Hm|]. cbn [is_send]. rewrite Nat.eqb_refl, Z.eqb_refl. reflexivity.
  Qed.
  Lemma rcvdb_spec Db a p : rcvdb Db a p = true <-> exists nm, In (IRecv p nm a) Db.
  Proof.
    unfold rcvdb. rewrite existsb_exists. split.
    - intros [x [Hx E]]. destruct x as [|l nm q]; [discriminate|]. cbn [is_recv] in E. apply andb_true_iff in E. destruct E as [E1 E2].
      apply Nat.eqb_eq in E1. apply Z.eqb_eq in E2. subst. eauto.
    - intros [nm Hm]. exists (IRecv p nm a). split; [exact Hm|]. cbn [is_recv]. rewrite Nat.eqb_refl, Z.eqb_refl. reflexivity.
  Qed.
  Lemma sentb_false Da b p : (forall m, ~ In (ISend p b m) Da) -> sentb Da b p = false.
  Proof. intros H. destruct (sentb Da b p) eqn:E; [|reflexivity]. apply sentb_spec in E. destruct E as [m Hm]. destruct (H m Hm). Qed.
  Lemma rcvdb_false Db a p : (forall nm, ~ In (IRecv p nm a) Db) -> rcvdb Db a p = false.
  Proof. intros H. destruct (rcvdb Db a p) eqn:E; [|reflexivity]. apply rcvdb_spec in E. destruct E as [nm Hm]. destruct (H nm Hm). Qed.

  Lemma Inv_init : Inv 0 init.
  Proof.
    exists (fun _ => []). split; [|split; [|split; [|split]]].
    - intros r. exists (fun l => srcs r l), (script r (fun l => srcs r l)). split; [intros l _; split; [apply Permutation_refl|reflexivity]|]. split; reflexivity.
    - intros a b t. cbn [init ch]. unfold chan. symmetry. apply flat_map_nil. intros p _. unfold entry, pend. cbn. destruct (tagof p =? t); reflexivity.
    - intros a b l nm [].
    - reflexivity.
    - unfold steps_of. generalize rks. intros l0. induction l0 as [|r l0 IH]; [reflexivity|exact IH].
  Qed.

  (* what the invariant says about the next item of a rank *)
  Lemma next_item D s r a k : inv_prog D s -> pr s r = Do a k ->
    exists ord x rem, valid r ord /\ script r ord = D r ++ x :: rem /\ a = act_of x /\
                      k (reply_of r x) = after (P r) (map (reply_of r) (D r ++ [x])).
  Proof.
    intros Hp Hpr. destruct (Hp r) as [ord [rem [Hv [Hs Ha]]]].
    pose proof (Hround r ord Hv) as Hf. rewrite Hs in Hf. apply feed_script in Hf. destruct rem as [|x rem].
    - rewrite Hf in Ha. congruence.
    - destruct Hf as [k' [Hk1 Hk2]]. rewrite Hk1 in Ha. rewrite Hpr in Ha. injection Ha as -> ->.
      exists ord, x, rem. auto.
  Qed.

  Lemma D_in_script D s r x : inv_prog D s -> In x (D r) -> exists ord, valid r ord /\ In x (script r ord).
  Proof. intros Hp Hx. destruct (Hp r) as [ord [rem [Hv [Hs _]]]]. exists ord. split; [exact Hv|]. rewrite Hs. apply in_app_iff. left. exact Hx. Qed.

  Definition updD (D : Z -> list item) (r : Z) (x : item) : Z -> list item := fun y => if y =? r then D r ++ [x] else D y.

  Lemma updD_in D r x b y : In y (updD D r x b) <-> In y (D b) \/ (b = r /\ y = x).
  Proof.
    unfold updD. destruct (Z.eqb_spec b r) as [->|Hne].
    - rewrite in_app_iff. cbn [In]. intuition congruence.
    - intuition congruence.
  Qed.

  Lemma script_out r ord : ~ In r rks -> valid r ord -> script r ord = [].
  Proof.
    intros Hr Hv. unfold script. apply flat_map_nil. intros l Hl. apply in_seq in Hl. unfold lvl_items.
    destruct (Hout r l Hr) as [E1 E2]. rewrite E1. cbn [map app].
    assert (E : ord l = []) by (apply Permutation_nil, Permutation_sym; rewrite <- E2; apply (proj1 (Hv l ltac:(lia)))). rewrite E. reflexivity.
  Qed.

  Lemma rank_in_rks D s r a k : inv_prog D s -> pr s r = Do a k -> In r rks.
  Proof.
    intros Hp Hpr. destruct (In_dec Z.eq_dec r rks) as [H|H]; [exact H|exfalso].
    destruct (next_item D s r a k Hp Hpr) as [ord [x [rem [Hv [Hs _]]]]].
    rewrite (script_out r ord H Hv) in Hs. destruct (D r); discriminate.
  Qed.

  (* the same for a script of the caller's choice (the program does not depend on the order family) *)
  Lemma next_item' D s r a k ord x rem : inv_prog D s -> pr s r = Do a k -> valid r ord -> script r ord = D r ++ x :: rem ->
    a = act_of x /\ k (reply_of r x) = after (P r) (map (reply_of r) (D r ++ [x])).
  Proof.
    intros Hp Hpr Hv Hs. destruct (Hp r) as [_ [_ [_ [_ Ha]]]].
    pose proof (Hround r ord Hv) as Hf. rewrite Hs in Hf. apply feed_script in Hf.
    destruct Hf as [k' [Hk1 Hk2]]. rewrite Hk1 in Ha. rewrite Hpr in Ha. injection Ha as -> ->. auto.
  Qed.

  Lemma inv_prog_upd D s r x ord rem newp c' : inv_prog D s -> valid r ord -> script r ord = D r ++ x :: rem ->
    newp = after (P r) (map (reply_of r) (D r ++ [x])) -> inv_prog (updD D r x) (mkgs (updp (pr s) r newp) c').
  Proof.
    intros Hp Hv Hs -> r0. cbn [pr]. destruct (Z.eq_dec r0 r) as [->|Hne].
    - exists ord, rem. unfold updD. rewrite Z.eqb_refl, updp_same, <- app_assoc. auto.
    - destruct (Hp r0) as [ord0 [rem0 [Hv0 [Hs0 Ha0]]]]. exists ord0, rem0. unfold updD. rewrite updp_other by exact Hne.
      destruct (Z.eqb_spec r0 r); [contradiction|]. auto.
  Qed.

  Lemma steps_upd D r x : In r rks -> steps_of (updD D r x) = S (steps_of D).
  Proof.
    intros Hr. unfold steps_of.
    rewrite (map_ext (fun r0 => length (updD D r x r0)) (fun y => if y =? r then length (D r ++ [x]) else length (D y))).
    - apply (list_sum_upd (fun y => length (D y))); [exact Hrks|exact Hr|]. rewrite app_length. cbn [length]. lia.
    - intros y. unfold updD. destruct (y =? r); reflexivity.
  Qed.

  Lemma out_upd D r x : In r rks -> (forall r0, ~ In r0 rks -> D r0 = []) -> forall r0, ~ In r0 rks -> updD D r x r0 = [].
  Proof. intros Hr Ho r0 H0. unfold updD. destruct (Z.eqb_spec r0 r) as [->|_]; [contradiction|apply Ho; exact H0]. Qed.

  Lemma updc_dec c a b t q a' b' t' :
    (a' = a /\ b' = b /\ t' = t /\ updc c a b t q a' b' t' = q) \/ ((a', b', t') <> (a, b, t) /\ updc c a b t q a' b' t' = c a' b' t').
  Proof.
    destruct (Z.eq_dec a' a) as [->|Ha]; [destruct (Z.eq_dec b' b) as [->|Hb]; [destruct (Z.eq_dec t' t) as [->|Ht]|]|].
    - left. rewrite updc_same. auto.
    - right. assert (Hne : (a, b, t') <> (a, b, t)) by congruence. split; [exact Hne|apply updc_other; exact Hne].
    - right. assert (Hne : (a, b', t') <> (a, b, t)) by congruence. split; [exact Hne|apply updc_other; exact Hne].
    - right. assert (Hne : (a', b', t') <> (a, b, t)) by congruence. split; [exact Hne|apply updc_other; exact Hne].
  Qed.


  Lemma sentb_upd D r x a b p : sentb (updD D r x a) b p = sentb (D a) b p || ((a =? r) && is_send b p x).
  Proof.
    unfold updD, sentb. destruct (Z.eqb_spec a r) as [->|_]; cbn [andb]; [|rewrite orb_false_r; reflexivity].
    rewrite existsb_app. cbn [existsb]. rewrite orb_false_r. reflexivity.
  Qed.
  Lemma rcvdb_upd D r x b a p : rcvdb (updD D r x b) a p = rcvdb (D b) a p || ((b =? r) && is_recv a p x).
  Proof.
    unfold updD, rcvdb. destruct (Z.eqb_spec b r) as [->|_]; cbn [andb]; [|rewrite orb_false_r; reflexivity].
    rewrite existsb_app. cbn [existsb]. rewrite orb_false_r. reflexivity.
  Qed.

  Lemma pend_upd_send D r p d m a b p' : ~ (a = r /\ b = d /\ p' = p) -> pend (updD D r (ISend p d m)) a b p' = pend D a b p'.
  Proof.
    intros Hne. unfold pend. rewrite sentb_upd, rcvdb_upd. cbn [is_send is_recv]. rewrite andb_false_r, orb_false_r.
    destruct (Z.eqb_spec a r) as [->|_]; cbn [andb]; [|rewrite orb_false_r; reflexivity].
    destruct (Nat.eqb_spec p p') as [->|_]; cbn [andb]; [|rewrite orb_false_r; reflexivity].
    destruct (Z.eqb_spec d b) as [->|_]; [exfalso; apply Hne; auto|rewrite orb_false_r; reflexivity].
  Qed.
  Lemma pend_upd_recv D r p nm src a b p' : ~ (a = src /\ b = r /\ p' = p) -> pend (updD D r (IRecv p nm src)) a b p' = pend D a b p'.
  Proof.
    intros Hne. unfold pend. rewrite sentb_upd, rcvdb_upd. cbn [is_send is_recv]. rewrite andb_false_r, orb_false_r.
    destruct (Z.eqb_spec b r) as [->|_]; cbn [andb]; [|rewrite orb_false_r; reflexivity].
    destruct (Nat.eqb_spec p p') as [->|_]; cbn [andb]; [|rewrite orb_false_r; reflexivity].
    destruct (Z.eqb_spec src a) as [->|_]; [exfalso; apply Hne; auto|rewrite orb_false_r; reflexivity].
  Qed.

  Lemma chan_split D a b t p : (p < NL)%nat ->
    chan D a b t = flat_map (entry D a b t) (seq 0 p) ++ entry D a b t p ++ flat_map (entry D a b t) (seq (S p) (NL - S p)).
  Proof.
    intros Hp. unfold chan. replace (seq 0 NL) with (seq 0 p ++ p :: seq (S p) (NL - S p)).
    - rewrite flat_map_app. reflexivity.
    - change (p :: seq (S p) (NL - S p)) with (seq p (S (NL - S p))). rewrite <- seq_app. f_equal. lia.
  Qed.

  (* the head of a non-empty channel: the message of the least pending level *)
  Lemma chan_head D a b t m q : chan D a b t = m :: q ->
    exists p, (p < NL)%nat /\ tagof p = t /\ sentb (D a) b p = true /\ rcvdb (D b) a p = false /\ m = wire p a b /\
              flat_map (entry D a b t) (seq 0 p) = [] /\ q = flat_map (entry D a b t) (seq (S p) (NL - S p)).
  Proof.
    unfold chan. intros H. destruct (flat_map_split _ _ [] m q H) as (l1 & p & l2 & a0 & b0 & E1 & E2 & E3 & E4).
    destruct (seq_split _ _ _ _ _ E1) as [F1 [F2 F3]]. rewrite Nat.sub_0_r in F1. cbn [Nat.add] in F2. subst l1 l2.
    symmetry in E3. apply app_eq_nil in E3. destruct E3 as [E3 ->]. cbn [app] in E2. exists p. split; [lia|].
    unfold entry in E2. destruct (Z.eqb_spec (tagof p) t) as [Et|]; [|discriminate]. split; [exact Et|].
    unfold pend in E2. destruct (sentb (D a) b p) eqn:Es; cbn [andb] in E2; [|discriminate].
    destruct (rcvdb (D b) a p) eqn:Er; cbn [negb] in E2; [discriminate|]. injection E2 as <- <-. cbn [app] in E4. auto.
  Qed.

  Lemma D_send_facts D s a b p m : inv_prog D s -> In (ISend p b m) (D a) -> (p < NL)%nat /\ In a (srcs b p) /\ m = wire p a b.
  Proof.
    intros Hp Hi. destruct (D_in_script D s a _ Hp Hi) as [ord [_ Hin]]. apply script_send_in in Hin. destruct Hin as [Hl Hin].
    destruct (Hmatch1 _ _ _ _ Hl Hin). auto.
  Qed.

  (* ---- a send preserves the invariant ----------------------------------------------------------------------------------------- *)
  Lemma Inv_send D s r p d m ord rem k : inv_prog D s -> inv_ch D s -> inv_ch3 D ->
    valid r ord -> script r ord = D r ++ ISend p d m :: rem -> pr s r = Do (Send d (tagof p) m) k ->
    let s' := mkgs (updp (pr s) r (k [])) (updc (ch s) r d (tagof p) (ch s r d (tagof p) ++ [m])) in
    let D' := updD D r (ISend p d m) in
    inv_prog D' s' /\ inv_ch D' s' /\ inv_ch3 D'.
  Proof.
    intros Hp Hc H3 Hv Hs Hpr s' D'.
    assert (Hin : In (ISend p d m) (script r ord)) by (rewrite Hs; apply in_elt).
    apply script_send_in in Hin. destruct Hin as [Hl Hdm]. destruct (Hmatch1 _ _ _ _ Hl Hdm) as [_ Hm].
    destruct (next_item' D s r _ k ord _ rem Hp Hpr Hv Hs) as [_ Hk]. cbn [reply_of] in Hk.
    assert (Hns : forall m', ~ In (ISend p d m') (D r)) by (intros m'; exact (script_send_once _ _ _ _ _ _ _ m' Hs)).
    split; [|split].
    - eapply inv_prog_upd; eauto.
    - intros a b t. unfold s'. cbn [ch].
      destruct (updc_dec (ch s) r d (tagof p) (ch s r d (tagof p) ++ [m]) a b t) as [[-> [-> [-> E]]]|[Hne E]]; rewrite E.
      + rewrite (Hc r d (tagof p)). rewrite !(chan_split _ r d (tagof p) p Hl).
        assert (Elo : flat_map (entry D' r d (tagof p)) (seq 0 p) = flat_map (entry D r d (tagof p)) (seq 0 p)).
        { apply flat_map_ext_in. intros p' Hp'. apply in_seq in Hp'. unfold entry, D'. rewrite pend_upd_send by lia. reflexivity. }
        assert (Ehi : forall DD, (DD = D \/ DD = D') -> flat_map (entry DD r d (tagof p)) (seq (S p) (NL - S p)) = []).
        { intros DD HDD. apply flat_map_nil. intros p' Hp'. apply in_seq in Hp'. unfold entry. destruct (tagof p' =? tagof p); [|reflexivity].
          assert (E0 : pend D r d p' = []).
          { unfold pend. rewrite sentb_false; [reflexivity|]. intros m' Hi. pose proof (script_prefix_levels _ _ _ _ _ _ Hs Hi) as Hle. cbn [lev] in Hle. lia. }
          destruct HDD as [->| ->]; [exact E0|]. unfold D'. rewrite pend_upd_send by lia. exact E0. }
        rewrite (Ehi D (or_introl eq_refl)), (Ehi D' (or_intror eq_refl)), Elo.
        assert (E1 : entry D r d (tagof p) p = []).
        { unfold entry, pend. rewrite (sentb_false (D r) d p Hns). destruct (tagof p =? tagof p); reflexivity. }
        assert (E2 : entry D' r d (tagof p) p = [m]).
        { unfold entry, pend, D'. rewrite Z.eqb_refl, sentb_upd, rcvdb_upd. cbn [is_send is_recv]. rewrite !Z.eqb_refl, Nat.eqb_refl, andb_false_r, orb_false_r.
          cbn [andb]. rewrite orb_true_r. rewrite rcvdb_false; [cbn [negb andb]; rewrite Hm; reflexivity|].
          intros nm Hn. destruct (H3 _ _ _ _ Hn) as [m1 Hm1]. exact (Hns m1 Hm1). }
        rewrite E1, E2, !app_nil_r. reflexivity.
      + rewrite (Hc a b t). unfold chan. apply flat_map_ext_in. intros p' Hp'. unfold entry.
        destruct (Z.eqb_spec (tagof p') t) as [Et|]; [|reflexivity]. unfold D'. rewrite pend_upd_send; [reflexivity|].
        intros [-> [-> ->]]. apply Hne. rewrite Et. reflexivity.
    - intros a b l0 nm Hn. apply updD_in in Hn. destruct Hn as [Hn|[_ Hn]]; [|discriminate].
      destruct (H3 _ _ _ _ Hn) as [m1 Hm1]. exists m1. apply updD_in. left. exact Hm1.
  Qed.

  (* ---- the message at the head of a channel is the one the receiver's current level waits for ---------------------------------- *)
  Lemma head_level D s r ord p nm q0 rem src m q : inv_prog D s ->
    valid r ord -> script r ord = D r ++ IRecv p nm q0 :: rem -> (nm = true -> q0 = src) ->
    chan D src r (tagof p) = m :: q ->
    sentb (D src) r p = true /\ rcvdb (D r) src p = false /\ m = wire p src r /\ In src (srcs r p) /\
    flat_map (entry D src r (tagof p)) (seq 0 p) = [] /\ q = flat_map (entry D src r (tagof p)) (seq (S p) (NL - S p)).
  Proof.
    intros Hp Hv Hs Hnm Hch.
    assert (Hin : In (IRecv p nm q0) (script r ord)) by (rewrite Hs; apply in_elt).
    apply script_recv_in in Hin. destruct Hin as [Hl Hq0].
    destruct (chan_head D src r (tagof p) m q Hch) as [p' [Hl' [Et [Hsent [Hrcv [Hm [Hlo Hhi]]]]]]].
    apply sentb_spec in Hsent. destruct Hsent as [m' Hsent]. destruct (D_send_facts D s src r p' m' Hp Hsent) as [_ [Hsrc' _]].
    assert (Hpp : p' = p).
    { destruct (lt_eq_lt_dec p' p) as [[Hlt|E]|Hgt]; [exfalso|exact E|exfalso].
      - (* an earlier level of r is complete: its message from src has been received *)
        apply (valid_in r ord p' src Hv Hl') in Hsrc'. destruct (script_recv_conv r ord p' src Hl' Hsrc') as [nm' Hn'].
        pose proof (script_level_done _ _ _ _ _ _ Hs Hn' Hlt) as Hd. assert (E : rcvdb (D r) src p' = true) by (apply rcvdb_spec; eauto). congruence.
      - (* a later level with the same tag: then src has sent its message of level p as well, and r has not received it *)
        destruct (Hcompat r p p' Hgt Hl' (eq_sym Et)) as [Hsub Hfirst].
        pose proof (Hsub src Hsrc') as Hsrcp. pose proof (Hmatch2 r p src Hl Hsrcp) as Hsd.
        destruct (Hp src) as [ords [rems [Hvs [Hss _]]]].
        assert (Hi : In (ISend p r (wire p src r)) (script src ords)) by (apply script_send_in; auto).
        rewrite Hss in Hi. apply in_app_iff in Hi. destruct Hi as [Hi|Hi].
        + assert (E1 : sentb (D src) r p = true) by (apply sentb_spec; eauto).
          assert (E2 : rcvdb (D r) src p = false).
          { apply rcvdb_false. intros nm' Hn'. destruct nm.
            - rewrite (Hnm eq_refl) in Hs. exact (script_recv_once _ _ _ _ _ _ _ nm' Hv Hs Hn').
            - exact (script_first_recv _ _ _ _ _ _ Hs Hfirst nm' src Hn'). }
          assert (E3 : entry D src r (tagof p) p <> []) by (unfold entry, pend; rewrite Z.eqb_refl, E1, E2; discriminate).
          apply E3. assert (Hz : forall x, In x (seq 0 p') -> entry D src r (tagof p) x = []).
          { clear -Hlo. induction (seq 0 p') as [|x l IH]; intros y Hy; [contradiction|]. cbn [flat_map] in Hlo. apply app_eq_nil in Hlo.
            destruct Hy as [<-|Hy]; [tauto|apply IH; tauto]. }
          apply Hz. apply in_seq. lia.
        + destruct rems as [|y rems]; [contradiction|].
          destruct (script_order src ords (D src) y rems p r _ Hss Hi) as [Hle _].
          pose proof (script_prefix_levels _ _ _ _ _ _ Hss Hsent) as Hle'. cbn [lev] in Hle'. lia. }
    subst p'. split; [apply sentb_spec; eauto|]. repeat split; assumption.
  Qed.

  (* ---- a receive (named or wildcard) that matches source src preserves the invariant -------------------------------------------- *)
  Lemma Inv_recv D s r p nm src ord rem a k m q : inv_prog D s -> inv_ch D s -> inv_ch3 D ->
    valid r ord -> script r ord = D r ++ IRecv p nm src :: rem -> pr s r = Do a k ->
    sentb (D src) r p = true -> m = wire p src r ->
    flat_map (entry D src r (tagof p)) (seq 0 p) = [] -> q = flat_map (entry D src r (tagof p)) (seq (S p) (NL - S p)) ->
    let s' := mkgs (updp (pr s) r (k (src :: m))) (updc (ch s) src r (tagof p) q) in
    let D' := updD D r (IRecv p nm src) in
    inv_prog D' s' /\ inv_ch D' s' /\ inv_ch3 D'.
  Proof.
    intros Hp Hc H3 Hv Hs Hpr Hsent Hm Hlo Hhi s' D'.
    assert (Hin : In (IRecv p nm src) (script r ord)) by (rewrite Hs; apply in_elt).
    apply script_recv_in in Hin. destruct Hin as [Hl Hq].
    destruct (next_item' D s r _ k ord _ rem Hp Hpr Hv Hs) as [_ Hk]. cbn [reply_of] in Hk. rewrite <- Hm in Hk.
    split; [|split].
    - eapply inv_prog_upd; eauto.
    - intros a0 b t. unfold s'. cbn [ch].
      destruct (updc_dec (ch s) src r (tagof p) q a0 b t) as [[-> [-> [-> E]]]|[Hne E]]; rewrite E.
      + rewrite (chan_split _ src r (tagof p) p Hl).
        assert (Elo : flat_map (entry D' src r (tagof p)) (seq 0 p) = []).
        { rewrite <- Hlo. apply flat_map_ext_in. intros p' Hp'. apply in_seq in Hp'. unfold entry, D'. rewrite pend_upd_recv by lia. reflexivity. }
        assert (Ehi : flat_map (entry D' src r (tagof p)) (seq (S p) (NL - S p)) = q).
        { rewrite Hhi. apply flat_map_ext_in. intros p' Hp'. apply in_seq in Hp'. unfold entry, D'. rewrite pend_upd_recv by lia. reflexivity. }
        assert (E1 : entry D' src r (tagof p) p = []).
        { unfold entry, pend, D'. rewrite rcvdb_upd. cbn [is_recv]. rewrite !Z.eqb_refl, Nat.eqb_refl. cbn [andb]. rewrite orb_true_r. cbn [negb].
          rewrite andb_false_r. destruct (tagof p =? tagof p); reflexivity. }
        rewrite Elo, Ehi, E1. reflexivity.
      + rewrite (Hc a0 b t). unfold chan. apply flat_map_ext_in. intros p' Hp'. unfold entry.
        destruct (Z.eqb_spec (tagof p') t) as [Et|]; [|reflexivity]. unfold D'. rewrite pend_upd_recv; [reflexivity|].
        intros [-> [-> ->]]. apply Hne. rewrite Et. reflexivity.
    - intros a0 b l0 nm0 Hn. apply updD_in in Hn. destruct Hn as [Hn|[-> Hn]].
      + destruct (H3 _ _ _ _ Hn) as [m1 Hm1]. exists m1. apply updD_in. left. exact Hm1.
      + injection Hn as -> _ ->. apply sentb_spec in Hsent. destruct Hsent as [m1 Hm1]. exists m1. apply updD_in. left. exact Hm1.
  Qed.

  Lemma Inv_step n s r s' : Inv n s -> step_a s r s' -> Inv (S n) s'.
  Proof.
    intros [D [Hp [Hc [H3 [Ho Hn]]]]] Hstep.
    inversion Hstep as [? ? d t m k Hpr|? ? src t k m q Hs0 Hpr Hch|? ? src t k m q Hpr Hch]; subst.
    - pose proof (rank_in_rks D s r _ _ Hp Hpr) as Hr.
      destruct (next_item D s r _ _ Hp Hpr) as [ord [x [rem [Hv [Hs [Ha _]]]]]].
      destruct x as [l d' m'|l nm q]; cbn [act_of] in Ha; [|discriminate]. injection Ha as Ed Et Em. subst d' t m'.
      destruct (Inv_send D s r l d m ord rem k Hp Hc H3 Hv Hs Hpr) as [A [B E]].
      exists (updD D r (ISend l d m)). split; [exact A|]. split; [exact B|]. split; [exact E|]. split; [apply out_upd; assumption|apply steps_upd; exact Hr].
    - pose proof (rank_in_rks D s r _ _ Hp Hpr) as Hr.
      destruct (next_item D s r _ _ Hp Hpr) as [ord [x [rem [Hv [Hs [Ha _]]]]]].
      destruct x as [l d' m'|l nm q0]; cbn [act_of] in Ha; [discriminate|]. injection Ha as Es Et.
      destruct nm; [subst q0|unfold ANY in Es; lia]. subst t. rewrite (Hc src r (tagof l)) in Hch.
      destruct (head_level D s r ord l true src rem src m q Hp Hv Hs (fun _ => eq_refl) Hch) as [A1 [A2 [A3 [A4 [A5 A6]]]]].
      destruct (Inv_recv D s r l true src ord rem _ k m q Hp Hc H3 Hv Hs Hpr A1 A3 A5 A6) as [A [B E]].
      exists (updD D r (IRecv l true src)). split; [exact A|]. split; [exact B|]. split; [exact E|]. split; [apply out_upd; assumption|apply steps_upd; exact Hr].
    - pose proof (rank_in_rks D s r _ _ Hp Hpr) as Hr.
      destruct (next_item D s r _ _ Hp Hpr) as [ord [x [rem [Hv [Hs [Ha _]]]]]].
      destruct x as [l d' m'|l nm q0]; cbn [act_of] in Ha; [discriminate|]. injection Ha as Es Et.
      assert (Hin : In (IRecv l nm q0) (script r ord)) by (rewrite Hs; apply in_elt).
      apply script_recv_in in Hin. destruct Hin as [Hl Hq0]. apply (valid_in r ord l q0 Hv Hl) in Hq0.
      destruct nm; [pose proof (Hsrc0 r l q0 Hl Hq0); unfold ANY in Es; lia|]. subst t. rewrite (Hc src r (tagof l)) in Hch.
      destruct (head_level D s r ord l false q0 rem src m q Hp Hv Hs ltac:(discriminate) Hch) as [A1 [A2 [A3 [A4 [A5 A6]]]]].
      assert (Hno : forall nm, ~ In (IRecv l nm src) (D r)).
      { intros nm Hn. assert (E : rcvdb (D r) src l = true) by (apply rcvdb_spec; eauto). congruence. }
      destruct (reorder r ord (D r) l q0 rem src Hv Hs A4 Hno) as [ord' [rem' [Hv' Hs']]].
      destruct (Inv_recv D s r l false src ord' rem' _ k m q Hp Hc H3 Hv' Hs' Hpr A1 A3 A5 A6) as [A [B E]].
      exists (updD D r (IRecv l false src)). split; [exact A|]. split; [exact B|]. split; [exact E|]. split; [apply out_upd; assumption|apply steps_upd; exact Hr].
  Qed.

  Lemma Inv_run : forall n s0 s m, Inv m s0 -> run_a n s0 s -> Inv (m + n) s.
  Proof.
    induction n as [|n IH]; intros s0 s m Hi Hr; inversion Hr; subst.
    - rewrite Nat.add_0_r. exact Hi.
    - replace (m + S n)%nat with (S m + n)%nat by lia. eapply IH; [|eassumption]. eapply Inv_step; eassumption.
  Qed.

  (* ---- what the invariant gives --------------------------------------------------------------------------------------------------- *)
  Lemma rank_state D s r : inv_prog D s ->
    (exists ord, valid r ord /\ script r ord = D r /\ pr s r = Ret (out r ord)) \/
    (exists ord x rem, valid r ord /\ script r ord = D r ++ x :: rem /\ exists k, pr s r = Do (act_of x) k).
  Proof.
    intros Hp. destruct (Hp r) as [ord [rem [Hv [Hs Ha]]]].
    pose proof (Hround r ord Hv) as Hf. rewrite Hs in Hf. apply feed_script in Hf. destruct rem as [|x rem].
    - left. exists ord. rewrite app_nil_r in Hs. split; [exact Hv|]. split; [exact Hs|congruence].
    - right. destruct Hf as [k [Hk _]]. exists ord, x, rem. split; [exact Hv|]. split; [exact Hs|]. exists k. congruence.
  Qed.

  Lemma Inv_bound n s : Inv n s -> (n <= total_len)%nat.
  Proof.
    intros [D [Hp [_ [_ [_ Hn]]]]]. rewrite <- Hn. unfold steps_of, total_len. apply list_sum_le. intros r _.
    destruct (Hp r) as [ord [rem [Hv [Hs _]]]]. rewrite <- (script_length r ord Hv), Hs, app_length. lia.
  Qed.

  Lemma Inv_final n s : Inv n s -> final s ->
    (forall r, exists ord, valid r ord /\ pr s r = Ret (out r ord)) /\ (forall a b t, ch s a b t = []) /\ n = total_len.
  Proof.
    intros [D [Hp [Hc [_ [_ Hn]]]]] Hf.
    assert (Hall : forall r, exists ord, valid r ord /\ script r ord = D r /\ pr s r = Ret (out r ord)).
    { intros r. destruct (rank_state D s r Hp) as [H|[ord [x [rem [_ [_ [k Hk]]]]]]]; [exact H|]. destruct (Hf r) as [o Ho]. congruence. }
    split; [intros r; destruct (Hall r) as [ord [Hv [_ Ho]]]; eauto|]. split.
    - intros a b t. rewrite (Hc a b t). unfold chan. apply flat_map_nil. intros p Hp'. apply in_seq in Hp'. unfold entry, pend.
      destruct (tagof p =? t); [|reflexivity]. destruct (sentb (D a) b p) eqn:Es; [|reflexivity]. cbn [andb].
      apply sentb_spec in Es. destruct Es as [m Hi]. destruct (D_send_facts D s a b p m Hp Hi) as [Hl [Hab _]].
      destruct (Hall b) as [ordb [Hvb [Hsb _]]]. apply (valid_in b ordb p a Hvb Hl) in Hab.
      destruct (script_recv_conv b ordb p a Hl Hab) as [nm Hnm]. rewrite Hsb in Hnm.
      assert (E : rcvdb (D b) a p = true) by (apply rcvdb_spec; eauto). rewrite E. reflexivity.
    - rewrite <- Hn. unfold steps_of, total_len. f_equal. apply map_ext. intros r. destruct (Hall r) as [ord [Hv [Hs _]]].
      rewrite <- Hs. apply script_length. exact Hv.
  Qed.

  Lemma Inv_complete n s : Inv n s -> n = total_len -> final s.
  Proof.
    intros [D [Hp [_ [_ [Ho Hn]]]]] E r.
    destruct (rank_state D s r Hp) as [[ord0 [_ [_ H]]]|[ord [x [rem [Hv [Hs _]]]]]]; [eauto|exfalso].
    assert (Hlen : forall r0, (length (D r0) <= len r0)%nat).
    { intros r0. destruct (Hp r0) as [ord0 [rem0 [Hv0 [Hs0 _]]]]. rewrite <- (script_length r0 ord0 Hv0), Hs0, app_length. lia. }
    destruct (In_dec Z.eq_dec r rks) as [Hr|Hr].
    - pose proof (list_sum_eq (fun r0 => length (D r0)) len rks (fun r0 _ => Hlen r0)) as Heq.
      unfold steps_of, total_len in *. rewrite Hn, E in Heq. specialize (Heq eq_refl r Hr). cbv beta in Heq.
      rewrite <- (script_length r ord Hv), Hs, app_length in Heq. cbn [length] in Heq. lia.
    - rewrite (script_out r ord Hr Hv) in Hs. destruct (D r); discriminate.
  Qed.

  (* PROGRESS: the rank whose next item has the least level can move, or the source it waits for can *)
  Lemma Inv_progress n s : Inv n s -> final s \/ can_step s.
  Proof.
    intros [D [Hp [Hc [H3 [Ho Hn]]]]].
    assert (Hdec : (forall r, In r rks -> exists o, pr s r = Ret o) \/ (exists r a k, pr s r = Do a k)).
    { generalize rks. intros l0. induction l0 as [|r l0 IH]; [left; intros r []|].
      destruct IH as [IH|IH]; [|right; exact IH]. destruct (pr s r) as [o|a k] eqn:E; [|right; eauto].
      left. intros r0 [<-|H0]; [eauto|apply IH; exact H0]. }
    destruct Hdec as [Hall|[r [a [k Hpr]]]].
    - left. intros r. destruct (rank_state D s r Hp) as [[ord0 [_ [_ H]]]|[ord [x [rem [Hv [Hs [k Hk]]]]]]]; [eauto|].
      destruct (In_dec Z.eq_dec r rks) as [Hr|Hr]; [destruct (Hall r Hr) as [o Hor]; congruence|].
      rewrite (script_out r ord Hr Hv) in Hs. destruct (D r); discriminate.
    - right.
      (* a sent and not yet received message makes its channel non-empty *)
      assert (Hne : forall q r0 l, (l < NL)%nat -> sentb (D q) r0 l = true -> rcvdb (D r0) q l = false -> exists m' q', ch s q r0 (tagof l) = m' :: q').
      { intros q r0 l Hl E1 E2. rewrite (Hc q r0 (tagof l)), (chan_split D q r0 (tagof l) l Hl).
        assert (E : entry D q r0 (tagof l) l = [wire l q r0]) by (unfold entry, pend; rewrite Z.eqb_refl, E1, E2; reflexivity). rewrite E.
        destruct (flat_map (entry D q r0 (tagof l)) (seq 0 l)) as [|m' q']; cbn [app]; eauto. }
      assert (Hgen : forall L r ord x rem k, lev x = L -> valid r ord -> script r ord = D r ++ x :: rem -> pr s r = Do (act_of x) k -> can_step s).
      { clear r a k Hpr. induction L as [L IH] using lt_wf_ind. intros r ord x rem k HL Hv Hs Hpr.
        destruct x as [l d m|l nm q]; cbn [act_of lev] in *.
        - exists r. eexists. apply stepa_send. exact Hpr.
        - subst L. assert (Hin : In (IRecv l nm q) (script r ord)) by (rewrite Hs; apply in_elt).
          apply script_recv_in in Hin. destruct Hin as [Hl Hq]. apply (valid_in r ord l q Hv Hl) in Hq.
          pose proof (Hmatch2 r l q Hl Hq) as Hsd.
          assert (Hnr : rcvdb (D r) q l = false) by (apply rcvdb_false; intros nm' Hn'; exact (script_recv_once _ _ _ _ _ _ _ nm' Hv Hs Hn')).
          assert (Hgo : sentb (D q) r l = true -> can_step s).
          { intros E1. destruct (Hne q r l Hl E1 Hnr) as [m' [q' Hch]]. exists r. eexists.
            destruct nm; [eapply stepa_recv; [exact (Hsrc0 r l q Hl Hq)|exact Hpr|exact Hch]|eapply stepa_any; [exact Hpr|exact Hch]]. }
          destruct (rank_state D s q Hp) as [[ordq [Hvq [Hsq _]]]|[ordq [y [remq [Hvq [Hsq [kq Hkq]]]]]]].
          + apply Hgo. apply sentb_spec. exists (wire l q r). rewrite <- Hsq. apply script_send_in. auto.
          + assert (Hi : In (ISend l r (wire l q r)) (script q ordq)) by (apply script_send_in; auto).
            rewrite Hsq in Hi. apply in_app_iff in Hi. destruct Hi as [Hi|Hi]; [apply Hgo; apply sentb_spec; eauto|].
            destruct (script_order q ordq (D q) y remq l r _ Hsq Hi) as [Hle Heq].
            destruct (Nat.eq_dec (lev y) l) as [Ey|Ey].
            * destruct (Heq Ey) as [d' [m' ->]]. exists q. eexists. apply stepa_send. exact Hkq.
            * apply (IH (lev y) ltac:(lia) q ordq y remq kq eq_refl Hvq Hsq Hkq). }
      destruct (next_item D s r _ _ Hp Hpr) as [ord [x [rem [Hv [Hs [Ha _]]]]]].
      apply (Hgen (lev x) r ord x rem k eq_refl Hv Hs). rewrite <- Ha. exact Hpr.
  Qed.

  (* ---- EVERY SCHEDULE ------------------------------------------------------------------------------------------------------------ *)
  Theorem all_schedules : forall n s, run_a n init s ->
    ~ stuck s /\ (n <= total_len)%nat /\ (final s <-> n = total_len) /\
    (final s -> (forall r, exists ord, valid r ord /\ pr s r = Ret (out r ord)) /\ forall a b t, ch s a b t = []).
  Proof.
    intros n s Hr. pose proof (Inv_run n init s 0 Inv_init Hr) as Hi. cbn [Nat.add] in Hi.
    split; [|split; [|split]].
    - intros [Hnf Hns]. destruct (Inv_progress n s Hi); contradiction.
    - exact (Inv_bound n s Hi).
    - split; [intros Hf; apply (Inv_final n s Hi Hf)|apply (Inv_complete n s Hi)].
    - intros Hf. destruct (Inv_final n s Hi Hf) as [A [B _]]. auto.
  Qed.

  (* a run can always be continued to a final state, which it reaches after total_len steps altogether *)
  Corollary completes : forall n s, run_a n init s -> exists s', run_a (total_len - n) s s' /\ final s'.
  Proof.
    intros n s Hr. destruct (all_schedules n s Hr) as [_ [Hle _]].
    remember (total_len - n)%nat as k eqn:Ek. revert n s Hr Hle Ek. induction k as [|k IH]; intros n s Hr Hle Ek.
    - exists s. split; [constructor|]. destruct (all_schedules n s Hr) as [_ [_ [[_ Hnf] _]]]. apply Hnf. lia.
    - destruct (Inv_progress n s (Inv_run n init s 0 Inv_init Hr)) as [Hf|[r [s1 Hs1]]].
      + destruct (all_schedules n s Hr) as [_ [_ [[Hfn _] _]]]. specialize (Hfn Hf). lia.
      + destruct (IH (S n) s1 (run_a_snoc _ _ _ _ _ Hr Hs1)) as [s' [Hr' Hf']]; [|lia|].
        * destruct (all_schedules (S n) s1 (run_a_snoc _ _ _ _ _ Hr Hs1)) as [_ [Hle' _]]. exact Hle'.
        * exists s'. split; [econstructor; eassumption|exact Hf'].
  Qed.

  (* what the lift to programs with collectives needs: positive progress, and no rank is ever at a collective *)
  Lemma reach_facts : forall n s, run_a n init s ->
    (final s \/ can_step s) /\ (forall r, (exists o, pr s r = Ret o) \/ (exists x k, pr s r = Do (act_of x) k)).
  Proof.
    intros n s Hr. pose proof (Inv_run n init s 0 Inv_init Hr) as Hi. cbn [Nat.add] in Hi. split; [exact (Inv_progress n s Hi)|].
    destruct Hi as [D [Hp _]]. intros r. destruct (rank_state D s r Hp) as [[ord [_ [_ H]]]|[ord [x [rem [_ [_ [k Hk]]]]]]]; [left; eauto|right; eauto].
  Qed.
End ProtoOrd.

(* ---- the lift to the semantics with collectives (MPI/SemColl.v): a level-structured point-to-point protocol as a phase ------------
   In the communicator 0 .. Pc-1 (0 < Pc) with any contract `creply`: from the state `init P` (programs P, empty channels) every
   run of step_c is a run of SemAny.v - no reachable state has all ranks at a collective - and the statement of all_schedules holds
   in the form SemColl.every_schedule. *)
Theorem es_rounds (Pc : Z) (creply : Z -> Z -> list payload -> Z -> payload)
    (NL : nat) (tagof : nat -> Z) (sends : Z -> nat -> list (Z * payload)) (srcs : Z -> nat -> list Z)
    (wire : nat -> Z -> Z -> payload) (named : Z -> nat -> nat -> bool) (fixedord : Z -> nat -> bool)
    (P : Z -> prog) (out : Z -> (nat -> list Z) -> payload) (rks : list Z) :
  0 < Pc ->
  NoDup rks ->
  (forall r l, ~ In r rks -> sends r l = [] /\ srcs r l = []) ->
  (forall r p p', (p < p')%nat -> (p' < NL)%nat -> tagof p = tagof p' ->
     (forall q, In q (srcs r p') -> In q (srcs r p)) /\ (forall i, named r p i = false -> i = 0%nat)) ->
  (forall r l i, (l < NL)%nat -> fixedord r l = true -> named r l i = true) ->
  (forall r l, (l < NL)%nat -> NoDup (map fst (sends r l))) ->
  (forall r l, (l < NL)%nat -> NoDup (srcs r l)) ->
  (forall r l q, (l < NL)%nat -> In q (srcs r l) -> 0 <= q) ->
  (forall q l d m, (l < NL)%nat -> In (d, m) (sends q l) -> In q (srcs d l) /\ m = wire l q d) ->
  (forall r l q, (l < NL)%nat -> In q (srcs r l) -> In (r, wire l q r) (sends q l)) ->
  (forall r ord, valid NL srcs fixedord r ord ->
     feed (map (reply_of wire r) (script NL sends named r ord)) (P r) = (map (act_of tagof) (script NL sends named r ord), Some (out r ord))) ->
  every_schedule Pc creply (init P) (total_len NL sends srcs rks)
    (fun s => (forall r, exists ord, valid NL srcs fixedord r ord /\ pr s r = Ret (out r ord)) /\ (forall a b t, ch s a b t = [])).
Proof.
  intros HPc H1 H2 H3 Hf H4 H5 H6 H7 H8 H9. apply es_p2p. intros n s Hr.
  destruct (all_schedules NL tagof sends srcs wire named fixedord P out rks H1 H2 H3 Hf H4 H5 H6 H7 H8 H9 n s Hr) as [_ [B [C D]]].
  destruct (reach_facts NL tagof sends srcs wire named fixedord P out rks H1 H2 H3 Hf H4 H5 H6 H7 H8 H9 n s Hr) as [A E].
  split; [exact A|]. split; [exact B|]. split; [exact C|]. split; [exact D|].
  intros kind root Hat. destruct (Hat 0 ltac:(lia)) as [c [k Hk]].
  destruct (E 0) as [[o Ho]|[x [k' Hx]]]; [congruence|]. rewrite Hk in Hx. destruct x; cbn [act_of] in Hx; discriminate.
Qed.
