(* Interleaving semantics of per-rank programs with POLLS: MPI_Iprobe, MPI_Testall over synchronous sends, MPI_Ibarrier / MPI_Test.

   The programs of nbx and superset (C01/NotifyProgs.v) poll: a wildcard receive on a polling tag stands for MPI_Iprobe (+ MPI_Recv on
   success) and its reply has a negative source when nothing was found; `Coll 6` is MPI_Testall over the rank's synchronous sends
   (MPI_Issend), `Coll 7` posts MPI_Ibarrier, `Coll 8` is MPI_Test of the barrier request.  State: the programs, the FIFO channels
   per (source, destination, tag) of MPI/Sem.v, and for every rank whether it has posted the barrier.  Parameters: the communicator
   0 .. P-1, the polling tags `polltag`, and the tags `stags` on which the sends are synchronous.  `step_p s r s'` (rank r moves):

     stepp_send   : Do (Send d t m) k - the message is appended to channel (r, d, t), continue with k [].  (A synchronous send is
                    started like a buffered one; it is COMPLETE when the message has been taken out of the channel, i.e. matched -
                    this is what Testall observes.)
     stepp_recv   : Do (Recv src t) k, 0 <= src, channel (src, r, t) = m :: q - as in SemAny.v.
     stepp_any    : Do (Recv ANY t) k, polltag t = false, some channel (src, r, t) = m :: q - blocking wildcard receive, as in SemAny.v.
     stepp_hit    : Do (Recv ANY t) k, polltag t = true, some channel (src, r, t) = m :: q - the poll finds the message and receives
                    it: continue with k (src :: m).
     stepp_miss   : Do (Recv ANY t) k, polltag t = true, all channels (src, r, t), 0 <= src < P, empty - continue with k [-1].
     stepp_testall: Do (Coll 6 _ _) k - reply [1] if all channels (r, d, t), 0 <= d < P, t in stags, are empty (every synchronous send
                    of r has been matched), else [0].
     stepp_ibar   : Do (Coll 7 _ _) k - r has posted the barrier; reply [].
     stepp_test   : Do (Coll 8 _ _) k - reply [1] if all ranks 0 .. P-1 have posted the barrier, else [0].
   A poll reports exactly whether a message is available (MPI's progress rule guarantees that repeated polls eventually see a message
   that has been sent; spurious empty polls only add idle steps).  Polling programs can always step; what the theorems about them
   state is that the idle steps cannot go on for ever by necessity (a final state stays reachable) and what holds in final states.
   Executable one-step function `exec_step_p`, sound and complete for the relation.  No axiom. *)
From Coq Require Import ZArith Lia List Bool.
From ScV Require Import MPI.Prog MPI.Sem.
Import ListNotations.
Local Open Scope Z_scope.

Definition KP_TESTALL : Z := 6.
Definition KP_IBARRIER : Z := 7.
Definition KP_TEST : Z := 8.

Record pst := mkpst { ppr : Z -> prog; pch : chans; pbar : Z -> bool }.
Definition updb (f : Z -> bool) (x : Z) (v : bool) : Z -> bool := fun y => if y =? x then v else f y.

Definition pranks (P : Z) : list Z := map Z.of_nat (seq 0 (Z.to_nat P)).
Lemma in_pranks P x : In x (pranks P) <-> 0 <= x < P.
Proof.
  unfold pranks. rewrite in_map_iff. split.
  - intros [k [<- Hk]]. apply in_seq in Hk. lia.
  - intros H. exists (Z.to_nat x). split; [lia|apply in_seq; lia].
Qed.

Section Poll.
  Variable P : Z.
  Variable polltag : Z -> bool.
  Variable stags : list Z.

  Definition isnil {A} (l : list A) : bool := match l with [] => true | _ => false end.
  (* nothing to find for rank r on tag t *)
  Definition nothing (c : chans) (r t : Z) : bool := forallb (fun src => isnil (c src r t)) (pranks P).
  (* all synchronous sends of rank r matched *)
  Definition allsent (c : chans) (r : Z) : bool := forallb (fun d => forallb (fun t => isnil (c r d t)) stags) (pranks P).
  (* the barrier is complete *)
  Definition allbar (b : Z -> bool) : bool := forallb b (pranks P).
  Definition flag (b : bool) : payload := [if b then 1 else 0].

  Inductive step_p : pst -> Z -> pst -> Prop :=
  | stepp_send s r d t m k : ppr s r = Do (Send d t m) k ->
      step_p s r (mkpst (updp (ppr s) r (k [])) (updc (pch s) r d t (pch s r d t ++ [m])) (pbar s))
  | stepp_recv s r src t k m q : 0 <= src -> ppr s r = Do (Recv src t) k -> pch s src r t = m :: q ->
      step_p s r (mkpst (updp (ppr s) r (k (src :: m))) (updc (pch s) src r t q) (pbar s))
  | stepp_any s r src t k m q : ppr s r = Do (Recv ANY t) k -> polltag t = false -> pch s src r t = m :: q ->
      step_p s r (mkpst (updp (ppr s) r (k (src :: m))) (updc (pch s) src r t q) (pbar s))
  | stepp_hit s r src t k m q : ppr s r = Do (Recv ANY t) k -> polltag t = true -> pch s src r t = m :: q ->
      step_p s r (mkpst (updp (ppr s) r (k (src :: m))) (updc (pch s) src r t q) (pbar s))
  | stepp_miss s r t k : ppr s r = Do (Recv ANY t) k -> polltag t = true -> nothing (pch s) r t = true ->
      step_p s r (mkpst (updp (ppr s) r (k [-1])) (pch s) (pbar s))
  | stepp_testall s r root c k : ppr s r = Do (Coll KP_TESTALL root c) k ->
      step_p s r (mkpst (updp (ppr s) r (k (flag (allsent (pch s) r)))) (pch s) (pbar s))
  | stepp_ibar s r root c k : ppr s r = Do (Coll KP_IBARRIER root c) k ->
      step_p s r (mkpst (updp (ppr s) r (k [])) (pch s) (updb (pbar s) r true))
  | stepp_test s r root c k : ppr s r = Do (Coll KP_TEST root c) k ->
      step_p s r (mkpst (updp (ppr s) r (k (flag (allbar (pbar s))))) (pch s) (pbar s)).

  Inductive run_p : nat -> pst -> pst -> Prop :=
  | runp_nil s : run_p 0 s s
  | runp_cons n s r s1 s2 : step_p s r s1 -> run_p n s1 s2 -> run_p (S n) s s2.

  Definition pfinal (s : pst) : Prop := forall r, exists out, ppr s r = Ret out.
  Definition can_step_p (s : pst) : Prop := exists r s', step_p s r s'.

  Lemma run_p_app n1 n2 s1 s2 s3 : run_p n1 s1 s2 -> run_p n2 s2 s3 -> run_p (n1 + n2) s1 s3.
  Proof. induction 1; simpl; [auto|]. intros. econstructor; eauto. Qed.
  Lemma run_p_snoc n s1 s2 r s3 : run_p n s1 s2 -> step_p s2 r s3 -> run_p (S n) s1 s3.
  Proof.
    intros H1 H2. replace (S n) with (n + 1)%nat by lia. eapply run_p_app; [exact H1|]. econstructor; [exact H2|constructor].
  Qed.
  Lemma pfinal_no_step s r s' : pfinal s -> step_p s r s' -> False.
  Proof. intros Hf Hs. destruct (Hf r) as [o Ho]. inversion Hs; subst; congruence. Qed.

  Lemma nothing_spec c r t : nothing c r t = true <-> forall src, 0 <= src < P -> c src r t = [].
  Proof.
    unfold nothing. rewrite forallb_forall. split.
    - intros H src Hs. specialize (H src (proj2 (in_pranks P src) Hs)). destruct (c src r t); [reflexivity|discriminate].
    - intros H src Hs. apply in_pranks in Hs. rewrite (H src Hs). reflexivity.
  Qed.
  Lemma allsent_spec c r : allsent c r = true <-> forall d t, 0 <= d < P -> In t stags -> c r d t = [].
  Proof.
    unfold allsent. rewrite forallb_forall. split.
    - intros H d t Hd Ht. specialize (H d (proj2 (in_pranks P d) Hd)). rewrite forallb_forall in H. specialize (H t Ht).
      destruct (c r d t); [reflexivity|discriminate].
    - intros H d Hd. apply in_pranks in Hd. apply forallb_forall. intros t Ht. rewrite (H d t Hd Ht). reflexivity.
  Qed.
  Lemma allbar_spec b : allbar b = true <-> forall q, 0 <= q < P -> b q = true.
  Proof.
    unfold allbar. rewrite forallb_forall. split; intros H q Hq; [apply H, in_pranks, Hq|apply H; apply in_pranks in Hq; exact Hq].
  Qed.

  (* ---- executable steps: choice (r, src); src is used only when r's next action is a wildcard receive / poll --------------------- *)
  Definition pchoice := (Z * Z)%type.
  Definition ptake (s : pst) (r src t : Z) (k : payload -> prog) : option pst :=
    match pch s src r t with
    | m :: q => Some (mkpst (updp (ppr s) r (k (src :: m))) (updc (pch s) src r t q) (pbar s))
    | [] => None
    end.
  Definition exec_step_p (s : pst) (c : pchoice) : option pst :=
    let '(r, src) := c in
    match ppr s r with
    | Do (Send d t m) k => Some (mkpst (updp (ppr s) r (k [])) (updc (pch s) r d t (pch s r d t ++ [m])) (pbar s))
    | Do (Recv x t) k =>
      if x =? ANY then
        (if polltag t && nothing (pch s) r t then Some (mkpst (updp (ppr s) r (k [-1])) (pch s) (pbar s)) else ptake s r src t k)
      else if 0 <=? x then ptake s r x t k else None
    | Do (Coll kind root c) k =>
      if kind =? KP_TESTALL then Some (mkpst (updp (ppr s) r (k (flag (allsent (pch s) r)))) (pch s) (pbar s))
      else if kind =? KP_IBARRIER then Some (mkpst (updp (ppr s) r (k [])) (pch s) (updb (pbar s) r true))
      else if kind =? KP_TEST then Some (mkpst (updp (ppr s) r (k (flag (allbar (pbar s))))) (pch s) (pbar s))
      else None
    | Ret _ => None
    end.
  Fixpoint exec_p (l : list pchoice) (s : pst) : option pst :=
    match l with
    | [] => Some s
    | c :: l' => match exec_step_p s c with Some s1 => exec_p l' s1 | None => None end
    end.

  Lemma exec_step_p_sound s c s' : exec_step_p s c = Some s' -> step_p s (fst c) s'.
  Proof.
    destruct c as [r src]. unfold exec_step_p. cbn [fst].
    destruct (ppr s r) as [o|[d t m|x t|kd rt cb] k] eqn:E; try discriminate.
    - intros H. injection H as <-. apply stepp_send. exact E.
    - destruct (Z.eqb_spec x ANY) as [->|Hx].
      + destruct (polltag t) eqn:Ep; cbn [andb].
        * destruct (nothing (pch s) r t) eqn:En.
          -- intros H. injection H as <-. apply (stepp_miss s r t k E Ep En).
          -- unfold ptake. destruct (pch s src r t) as [|m q] eqn:Ec; [discriminate|]. intros H. injection H as <-. eapply stepp_hit; eassumption.
        * unfold ptake. destruct (pch s src r t) as [|m q] eqn:Ec; [discriminate|]. intros H. injection H as <-. eapply stepp_any; eassumption.
      + destruct (Z.leb_spec 0 x) as [H0|H0]; [|discriminate].
        unfold ptake. destruct (pch s x r t) as [|m q] eqn:Ec; [discriminate|]. intros H. injection H as <-. eapply stepp_recv; eassumption.
    - destruct (Z.eqb_spec kd KP_TESTALL) as [->|H1]; [intros H; injection H as <-; eapply stepp_testall; exact E|].
      destruct (Z.eqb_spec kd KP_IBARRIER) as [->|H2]; [intros H; injection H as <-; eapply stepp_ibar; exact E|].
      destruct (Z.eqb_spec kd KP_TEST) as [->|H3]; [intros H; injection H as <-; eapply stepp_test; exact E|discriminate].
  Qed.

  Theorem exec_p_sound : forall l s s', exec_p l s = Some s' -> run_p (length l) s s'.
  Proof.
    induction l as [|c l IH]; intros s s' H; cbn [exec_p length] in *.
    - injection H as <-. constructor.
    - destruct (exec_step_p s c) as [s1|] eqn:E; [|discriminate].
      econstructor; [apply (exec_step_p_sound _ _ _ E)|apply IH; exact H].
  Qed.

  (* COMPLETENESS for hits whose source is a rank of the communicator (the only ones the notify programs can see) *)
  Lemma exec_step_p_complete s r s' : step_p s r s' ->
    (forall src t m q, pch s src r t = m :: q -> 0 <= src < P) -> exists src, exec_step_p s (r, src) = Some s'.
  Proof.
    intros H Hin. inversion H as [? ? d t m k E|? ? src t k m q S E C|? ? src t k m q E Ep C|? ? src t k m q E Ep C|? ? t k E Ep En
                                 |? ? root c k E|? ? root c k E|? ? root c k E]; subst; unfold exec_step_p.
    - exists 0. rewrite E. reflexivity.
    - exists 0. rewrite E. destruct (Z.eqb_spec src ANY) as [Ea|_]; [unfold ANY in Ea; lia|].
      destruct (Z.leb_spec 0 src); [|lia]. unfold ptake. rewrite C. reflexivity.
    - exists src. rewrite E, Z.eqb_refl, Ep. cbn [andb]. unfold ptake. rewrite C. reflexivity.
    - exists src. rewrite E, Z.eqb_refl, Ep. cbn [andb].
      replace (nothing (pch s) r t) with false; [unfold ptake; rewrite C; reflexivity|].
      symmetry. destruct (nothing (pch s) r t) eqn:En; [|reflexivity]. rewrite nothing_spec in En.
      rewrite (En src (Hin src t m q C)) in C. discriminate.
    - exists 0. rewrite E, Z.eqb_refl, Ep, En. reflexivity.
    - exists 0. rewrite E. reflexivity.
    - exists 0. rewrite E. reflexivity.
    - exists 0. rewrite E. reflexivity.
  Qed.

  (* the choices of rank r the scheduler accepts (sources from the communicator) *)
  Definition enabled_of_p (s : pst) (r : Z) : list pchoice :=
    match ppr s r with
    | Do (Send _ _ _) _ => [(r, 0)]
    | Do (Recv x t) _ =>
      if x =? ANY then
        (if polltag t && nothing (pch s) r t then [(r, 0)]
         else map (fun a => (r, a)) (filter (fun a => negb (isnil (pch s a r t))) (pranks P)))
      else if 0 <=? x then (if isnil (pch s x r t) then [] else [(r, x)]) else []
    | Do (Coll kind _ _) _ => if (kind =? KP_TESTALL) || (kind =? KP_IBARRIER) || (kind =? KP_TEST) then [(r, 0)] else []
    | Ret _ => []
    end.
  Definition enabled_p (s : pst) : list pchoice := flat_map (enabled_of_p s) (pranks P).
End Poll.
