(* Interleaving semantics of per-rank programs WITH A SHARED STATE, and its schedule-independence theorem.

   MPI/Sem.v gives Send / Recv (named source) an interleaving semantics in which steps of different ranks always
   commute.  The programs of the parallel file wrapper (C12) additionally issue
     - COLLECTIVES (Bcast, Barrier): `Coll kind root contrib` with `is_local kind = false`;
     - LOCAL ACTIONS ON A SHARED RESOURCE (the stdio calls on the one file of the scenario): `Coll kind root contrib`
       with `is_local kind = true`; the reply and the new shared state are `eff shared rank kind root contrib`.
   Two local actions of different ranks do NOT commute in general, so the confluence argument of Sem.v fails
   for arbitrary programs.  This file provides:

   1. The PLAIN semantics `step` (state = programs, channels, shared state):
        send   : buffered (eager); the message is appended to the channel (source, destination);
        recv   : from a NAMED source, tag given or ANY (= MPI_ANY_TAG): the FIRST message of channel (source, me) whose
                 tag matches is taken (MPI's non-overtaking rule); the reply is source :: payload as in Sem.v;
        local  : always enabled, reads and updates the shared state;
        coll   : enabled when ALL ranks 0 .. P-1 are at a non-local `Coll` with the same kind and root; every rank then
                 obtains `creply kind root contributions rank` (label COLL).
      Any rank that has an enabled step may move: the schedule is arbitrary.
   2. A GHOST-INSTRUMENTED semantics `istep`: one token, held by a rank or travelling in a message; a send that the
      policy `gives` marks passes it on, a non-local collective may hand it to a fixed rank (`ctok`); a local action by a
      rank that does not hold the token - or a marked send by a rank that does not hold it - leads to `Poison` (a data
      race on the shared state: anything may have happened).  The ghost state influences no program, no channel, no reply.
   3. `idiamond`: two different steps of `istep` from one state can be completed to a common state in one step each
      (two local actions of different ranks: one of them is not the holder, both orders end in Poison), hence
      `iconfluence`, and the result that is used:

      THEOREM one_schedule_all_schedules_sh: if ONE instrumented schedule from (s0, token at tk0) reaches a final state f
      without Poison, then for EVERY run of the PLAIN semantics from s0 (any interleaving): it has at most n steps, can be
      completed to f, ends in f if it ends, is not stuck on the way, and in the state it has reached every rank whose
      next action is local holds the token - so AT MOST ONE rank can touch the shared state (mutual exclusion), although
      the semantics itself does not forbid anything.
   Uses functional extensionality (Coq standard library axiom) for equality of states, like Sem.v. *)
From Coq Require Import ZArith Lia List Bool FunctionalExtensionality.
From ScV Require Import MPI.Prog.
Import ListNotations.
Local Open Scope Z_scope.

Definition tmsg := (Z * payload)%type.                 (* tag, payload *)
Definition chan2 := Z -> Z -> list tmsg.               (* source, destination: messages in send order *)
Definition upd1 (f : Z -> prog) (x : Z) (v : prog) : Z -> prog := fun y => if y =? x then v else f y.
Definition upd2 (c : chan2) (a b : Z) (q : list tmsg) : chan2 := fun a' b' => if (a' =? a) && (b' =? b) then q else c a' b'.
Definition tmatch (tr t : Z) : bool := (tr =? ANY) || (tr =? t).

(* the first message whose tag matches: its index, its payload, the channel without it *)
Fixpoint pick (tr : Z) (l : list tmsg) : option (nat * payload * list tmsg) :=
  match l with
  | [] => None
  | (t, m) :: q =>
    if tmatch tr t then Some (O, m, q)
    else match pick tr q with Some (i, m', q') => Some (S i, m', (t, m) :: q') | None => None end
  end.

Lemma pick_app tr : forall l x i m q, pick tr l = Some (i, m, q) -> pick tr (l ++ x) = Some (i, m, q ++ x).
Proof.
  induction l as [|[t m0] l IH]; intros x i m q H; cbn [pick app] in *; [discriminate|].
  destruct (tmatch tr t).
  - injection H as <- <- <-. reflexivity.
  - destruct (pick tr l) as [[[i' m'] q']|] eqn:E; [|discriminate]. injection H as <- <- <-.
    rewrite (IH x i' m' q' eq_refl). reflexivity.
Qed.

Lemma pick_length tr : forall l i m q, pick tr l = Some (i, m, q) -> (i < length l)%nat /\ length l = S (length q).
Proof.
  induction l as [|[t m0] l IH]; intros i m q H; cbn [pick] in *; [discriminate|].
  destruct (tmatch tr t).
  - injection H as <- <- <-. cbn [length]. lia.
  - destruct (pick tr l) as [[[i' m'] q']|] eqn:E; [|discriminate]. injection H as <- <- <-.
    destruct (IH i' m' q' eq_refl). cbn [length]. lia.
Qed.

Lemma upd1_same f x v : upd1 f x v x = v.
Proof. unfold upd1. rewrite Z.eqb_refl. reflexivity. Qed.
Lemma upd1_other f x v y : y <> x -> upd1 f x v y = f y.
Proof. intros H. unfold upd1. destruct (Z.eqb_spec y x); [contradiction|reflexivity]. Qed.
Lemma upd1_twice f x v w : upd1 (upd1 f x v) x w = upd1 f x w.
Proof. extensionality y. unfold upd1. destruct (y =? x); reflexivity. Qed.
Lemma upd1_swap f x v y w : x <> y -> upd1 (upd1 f x v) y w = upd1 (upd1 f y w) x v.
Proof. intros H. extensionality z. unfold upd1. destruct (Z.eqb_spec z x); destruct (Z.eqb_spec z y); try reflexivity. lia. Qed.
Lemma upd2_same c a b q : upd2 c a b q a b = q.
Proof. unfold upd2. rewrite !Z.eqb_refl. reflexivity. Qed.
Lemma upd2_other c a b q a' b' : (a', b') <> (a, b) -> upd2 c a b q a' b' = c a' b'.
Proof.
  intros H. unfold upd2. destruct (Z.eqb_spec a' a); destruct (Z.eqb_spec b' b); cbn [andb]; try reflexivity.
  subst. contradiction H. reflexivity.
Qed.
Lemma upd2_twice c a b q q' : upd2 (upd2 c a b q) a b q' = upd2 c a b q'.
Proof. extensionality x. extensionality y. unfold upd2. destruct ((x =? a) && (y =? b)); reflexivity. Qed.
Lemma upd2_swap c a b q a' b' q' : (a, b) <> (a', b') -> upd2 (upd2 c a b q) a' b' q' = upd2 (upd2 c a' b' q') a b q.
Proof.
  intros H. extensionality x. extensionality y. unfold upd2.
  destruct (Z.eqb_spec x a); destruct (Z.eqb_spec y b); destruct (Z.eqb_spec x a'); destruct (Z.eqb_spec y b'); cbn [andb]; try reflexivity.
  subst. contradiction H. reflexivity.
Qed.

Inductive tokst := Held (r : Z) | Fly (a b : Z) (n : nat).     (* held by rank r / n-th message of channel (a, b) *)

Section Shared.
Variable Sh : Type.                                              (* the shared state *)
Variable P : Z.                                                  (* ranks 0 .. P-1 *)
Variable is_local : Z -> bool.                                   (* by kind *)
Variable eff : Sh -> Z -> Z -> Z -> payload -> Sh * payload.     (* shared, rank, kind, root, contribution *)
Variable creply : Z -> Z -> (Z -> payload) -> Z -> payload.      (* kind, root, all contributions, rank *)

Record st := mkst { spr : Z -> prog; sch : chan2; ssh : Sh }.

Definition COLL : Z := -1.                                       (* label of a collective step *)
Definition contribs (s : st) : Z -> payload :=
  fun r => match spr s r with Do (Coll _ _ c) _ => c | _ => [] end.
Definition advance (s : st) (kind root : Z) : Z -> prog := fun r =>
  if (0 <=? r) && (r <? P) then
    match spr s r with Do (Coll _ _ _) k => k (creply kind root (contribs s) r) | p => p end
  else spr s r.
Definition at_coll (s : st) (kind root : Z) : Prop :=
  forall r, 0 <= r < P -> exists c k, spr s r = Do (Coll kind root c) k.

Inductive step : st -> Z -> st -> Prop :=
| step_send s r d t m k : 0 <= r < P ->
    spr s r = Do (Send d t m) k ->
    step s r (mkst (upd1 (spr s) r (k [])) (upd2 (sch s) r d (sch s r d ++ [(t, m)])) (ssh s))
| step_recv s r src tr k i m q : 0 <= r < P -> 0 <= src ->
    spr s r = Do (Recv src tr) k -> pick tr (sch s src r) = Some (i, m, q) ->
    step s r (mkst (upd1 (spr s) r (k (src :: m))) (upd2 (sch s) src r q) (ssh s))
| step_local s r kind root c k : 0 <= r < P ->
    spr s r = Do (Coll kind root c) k -> is_local kind = true ->
    step s r (mkst (upd1 (spr s) r (k (snd (eff (ssh s) r kind root c)))) (sch s) (fst (eff (ssh s) r kind root c)))
| step_coll s kind root : 0 < P -> is_local kind = false -> at_coll s kind root ->
    step s COLL (mkst (advance s kind root) (sch s) (ssh s)).

Definition final (s : st) : Prop := forall r, 0 <= r < P -> exists out, spr s r = Ret out.
Definition local_at (s : st) (r : Z) : Prop :=
  0 <= r < P /\ exists kind root c k, spr s r = Do (Coll kind root c) k /\ is_local kind = true.

Lemma final_no_step s l s' : final s -> step s l s' -> False.
Proof.
  intros Hf Hs. inversion Hs; subst.
  1-3: match goal with H : 0 <= ?r < P |- _ => destruct (Hf r H) as [out Ho]; congruence end.
  match goal with H : at_coll _ _ _ |- _ => destruct (H 0 ltac:(lia)) as (c & k & Hk) end.
  destruct (Hf 0 ltac:(lia)) as [out Ho]. congruence.
Qed.

(* the step with a given label is determined *)
Lemma step_det s l s1 s2 : step s l s1 -> step s l s2 -> s1 = s2.
Proof.
  intros H1 H2.
  inversion H1; subst; inversion H2; subst; try congruence; try (unfold COLL in *; lia).
  repeat match goal with H : at_coll _ _ _ |- _ => destruct (H 0 ltac:(lia)) as (? & ? & ?); clear H end. congruence.
Qed.

Lemma local_enabled s r : local_at s r -> exists s', step s r s'.
Proof. intros (Hr & kind & root & c & k & Hp & Hl). eexists. eapply step_local; eauto. Qed.

Inductive run : nat -> st -> st -> Prop :=
| run_nil s : run 0 s s
| run_cons n s l s1 s2 : step s l s1 -> run n s1 s2 -> run (S n) s s2.

Lemma run_app n1 n2 s1 s2 s3 : run n1 s1 s2 -> run n2 s2 s3 -> run (n1 + n2) s1 s3.
Proof. induction 1; simpl; [auto|]. intros. econstructor; eauto. Qed.

(* ---- constructors with the successor state as an equation *)
Lemma step_send' s r d t m k s' : 0 <= r < P -> spr s r = Do (Send d t m) k ->
  s' = mkst (upd1 (spr s) r (k [])) (upd2 (sch s) r d (sch s r d ++ [(t, m)])) (ssh s) -> step s r s'.
Proof. intros ? ? ->. apply step_send; assumption. Qed.
Lemma step_recv' s r src tr k i m q s' : 0 <= r < P -> 0 <= src ->
  spr s r = Do (Recv src tr) k -> pick tr (sch s src r) = Some (i, m, q) ->
  s' = mkst (upd1 (spr s) r (k (src :: m))) (upd2 (sch s) src r q) (ssh s) -> step s r s'.
Proof. intros ? ? ? ? ->. eapply step_recv; eassumption. Qed.
Lemma step_local' s r kind root c k s' : 0 <= r < P ->
  spr s r = Do (Coll kind root c) k -> is_local kind = true ->
  s' = mkst (upd1 (spr s) r (k (snd (eff (ssh s) r kind root c)))) (sch s) (fst (eff (ssh s) r kind root c)) -> step s r s'.
Proof. intros ? ? ? ->. apply step_local; assumption. Qed.

(* ---- commutation of two rank steps that are not both local *)
Lemma dia_send_send s r1 d1 t1 m1 k1 r2 d2 t2 m2 k2 : r1 <> r2 -> 0 <= r1 < P -> 0 <= r2 < P ->
  spr s r1 = Do (Send d1 t1 m1) k1 -> spr s r2 = Do (Send d2 t2 m2) k2 ->
  exists s3,
    step (mkst (upd1 (spr s) r1 (k1 [])) (upd2 (sch s) r1 d1 (sch s r1 d1 ++ [(t1, m1)])) (ssh s)) r2 s3 /\
    step (mkst (upd1 (spr s) r2 (k2 [])) (upd2 (sch s) r2 d2 (sch s r2 d2 ++ [(t2, m2)])) (ssh s)) r1 s3.
Proof.
  intros Hne H1 H2 P1 P2. eexists. split.
  - eapply step_send; [exact H2|]. cbn [spr]. rewrite upd1_other by lia. exact P2.
  - eapply step_send'; [exact H1|cbn [spr]; rewrite upd1_other by lia; exact P1|].
    cbn [spr sch ssh]. rewrite !upd2_other by (intros E; injection E; lia).
    rewrite (upd1_swap _ r1 _ r2) by exact Hne.
    rewrite (upd2_swap _ r1 d1 _ r2 d2) by (intros E; injection E; lia). reflexivity.
Qed.

Lemma dia_send_recv s r1 d1 t1 m1 k1 r2 src tr k2 i m q : r1 <> r2 -> 0 <= r1 < P -> 0 <= r2 < P -> 0 <= src ->
  spr s r1 = Do (Send d1 t1 m1) k1 -> spr s r2 = Do (Recv src tr) k2 -> pick tr (sch s src r2) = Some (i, m, q) ->
  exists s3,
    step (mkst (upd1 (spr s) r1 (k1 [])) (upd2 (sch s) r1 d1 (sch s r1 d1 ++ [(t1, m1)])) (ssh s)) r2 s3 /\
    step (mkst (upd1 (spr s) r2 (k2 (src :: m))) (upd2 (sch s) src r2 q) (ssh s)) r1 s3.
Proof.
  intros Hne H1 H2 Hs P1 P2 Pk.
  destruct (Z.eq_dec src r1) as [Es|Es]; [destruct (Z.eq_dec r2 d1) as [Ed|Ed]|].
  - (* the receive takes from the channel the send appends to *)
    subst src d1. eexists. split.
    + eapply step_recv; [exact H2|exact Hs|cbn [spr]; rewrite upd1_other by lia; exact P2|].
      cbn [sch]. rewrite upd2_same. apply pick_app. exact Pk.
    + eapply step_send'; [exact H1|cbn [spr]; rewrite upd1_other by lia; exact P1|].
      cbn [spr sch ssh]. rewrite upd2_same, !upd2_twice.
      rewrite (upd1_swap _ r1 _ r2) by exact Hne. reflexivity.
  - subst src. eexists. split.
    + eapply step_recv; [exact H2|exact Hs|cbn [spr]; rewrite upd1_other by lia; exact P2|].
      cbn [sch]. rewrite upd2_other by (intros E; injection E; lia). exact Pk.
    + eapply step_send'; [exact H1|cbn [spr]; rewrite upd1_other by lia; exact P1|].
      cbn [spr sch ssh]. rewrite upd2_other by (intros E; injection E; lia).
      rewrite (upd1_swap _ r1 _ r2) by exact Hne.
      rewrite (upd2_swap _ r1 d1 _ r1 r2) by (intros E; injection E; lia). reflexivity.
  - eexists. split.
    + eapply step_recv; [exact H2|exact Hs|cbn [spr]; rewrite upd1_other by lia; exact P2|].
      cbn [sch]. rewrite upd2_other by (intros E; injection E; lia). exact Pk.
    + eapply step_send'; [exact H1|cbn [spr]; rewrite upd1_other by lia; exact P1|].
      cbn [spr sch ssh]. rewrite upd2_other by (intros E; injection E; lia).
      rewrite (upd1_swap _ r1 _ r2) by exact Hne.
      rewrite (upd2_swap _ r1 d1 _ src r2) by (intros E; injection E; lia). reflexivity.
Qed.

Lemma dia_send_local s r1 d1 t1 m1 k1 r2 kind root c k2 : r1 <> r2 -> 0 <= r1 < P -> 0 <= r2 < P ->
  spr s r1 = Do (Send d1 t1 m1) k1 -> spr s r2 = Do (Coll kind root c) k2 -> is_local kind = true ->
  exists s3,
    step (mkst (upd1 (spr s) r1 (k1 [])) (upd2 (sch s) r1 d1 (sch s r1 d1 ++ [(t1, m1)])) (ssh s)) r2 s3 /\
    step (mkst (upd1 (spr s) r2 (k2 (snd (eff (ssh s) r2 kind root c)))) (sch s) (fst (eff (ssh s) r2 kind root c))) r1 s3.
Proof.
  intros Hne H1 H2 P1 P2 Hl. eexists. split.
  - eapply step_local; [exact H2|cbn [spr]; rewrite upd1_other by lia; exact P2|exact Hl].
  - eapply step_send'; [exact H1|cbn [spr]; rewrite upd1_other by lia; exact P1|].
    cbn [spr sch ssh]. rewrite (upd1_swap _ r1 _ r2) by exact Hne. reflexivity.
Qed.

Lemma dia_recv_recv s r1 src1 tr1 k1 i1 m1 q1 r2 src2 tr2 k2 i2 m2 q2 : r1 <> r2 -> 0 <= r1 < P -> 0 <= r2 < P ->
  0 <= src1 -> 0 <= src2 ->
  spr s r1 = Do (Recv src1 tr1) k1 -> pick tr1 (sch s src1 r1) = Some (i1, m1, q1) ->
  spr s r2 = Do (Recv src2 tr2) k2 -> pick tr2 (sch s src2 r2) = Some (i2, m2, q2) ->
  exists s3,
    step (mkst (upd1 (spr s) r1 (k1 (src1 :: m1))) (upd2 (sch s) src1 r1 q1) (ssh s)) r2 s3 /\
    step (mkst (upd1 (spr s) r2 (k2 (src2 :: m2))) (upd2 (sch s) src2 r2 q2) (ssh s)) r1 s3.
Proof.
  intros Hne H1 H2 S1 S2 P1 K1 P2 K2. eexists. split.
  - eapply step_recv; [exact H2|exact S2|cbn [spr]; rewrite upd1_other by lia; exact P2|].
    cbn [sch]. rewrite upd2_other by (intros E; injection E; lia). exact K2.
  - eapply step_recv'; [exact H1|exact S1|cbn [spr]; rewrite upd1_other by lia; exact P1| |].
    + cbn [sch]. rewrite upd2_other by (intros E; injection E; lia). exact K1.
    + cbn [spr sch ssh]. rewrite (upd1_swap _ r1 _ r2) by exact Hne.
      rewrite (upd2_swap _ src1 r1 _ src2 r2) by (intros E; injection E; lia). reflexivity.
Qed.

Lemma dia_recv_local s r1 src1 tr1 k1 i1 m1 q1 r2 kind root c k2 : r1 <> r2 -> 0 <= r1 < P -> 0 <= r2 < P -> 0 <= src1 ->
  spr s r1 = Do (Recv src1 tr1) k1 -> pick tr1 (sch s src1 r1) = Some (i1, m1, q1) ->
  spr s r2 = Do (Coll kind root c) k2 -> is_local kind = true ->
  exists s3,
    step (mkst (upd1 (spr s) r1 (k1 (src1 :: m1))) (upd2 (sch s) src1 r1 q1) (ssh s)) r2 s3 /\
    step (mkst (upd1 (spr s) r2 (k2 (snd (eff (ssh s) r2 kind root c)))) (sch s) (fst (eff (ssh s) r2 kind root c))) r1 s3.
Proof.
  intros Hne H1 H2 S1 P1 K1 P2 Hl. eexists. split.
  - eapply step_local; [exact H2|cbn [spr]; rewrite upd1_other by lia; exact P2|exact Hl].
  - eapply step_recv'; [exact H1|exact S1|cbn [spr]; rewrite upd1_other by lia; exact P1|cbn [sch]; exact K1|].
    cbn [spr sch ssh]. rewrite (upd1_swap _ r1 _ r2) by exact Hne. reflexivity.
Qed.

Lemma coll_excludes_rank s kind root r s' : is_local kind = false -> at_coll s kind root -> r <> COLL -> step s r s' -> False.
Proof.
  intros Hl Hc Hne Hs. inversion Hs; subst; try (contradiction Hne; reflexivity).
  all: match goal with H : 0 <= ?x < P |- _ => destruct (Hc x H) as (c0 & k0 & Hk0) end; congruence.
Qed.

Lemma diamond_plain s l1 s1 l2 s2 : l1 <> l2 -> step s l1 s1 -> step s l2 s2 -> ~ (local_at s l1 /\ local_at s l2) ->
  exists s3, step s1 l2 s3 /\ step s2 l1 s3.
Proof.
  intros Hne H1 H2 Hnl.
  inversion H1; subst.
  - inversion H2; subst.
    + eapply dia_send_send; eassumption.
    + eapply dia_send_recv; eassumption.
    + eapply dia_send_local; eassumption.
    + exfalso. eapply coll_excludes_rank; [| |exact Hne|exact H1]; eassumption.
  - inversion H2; subst.
    + match goal with |- exists s3, step ?a _ s3 /\ step ?b _ s3 =>
        assert (X : exists s3, step b l1 s3 /\ step a l2 s3) by (eapply dia_send_recv; try eassumption; lia) end.
      destruct X as (s3 & A & B). exists s3. auto.
    + eapply dia_recv_recv; eassumption.
    + eapply dia_recv_local; eassumption.
    + exfalso. eapply coll_excludes_rank; [| |exact Hne|exact H1]; eassumption.
  - inversion H2; subst.
    + match goal with |- exists s3, step ?a _ s3 /\ step ?b _ s3 =>
        assert (X : exists s3, step b l1 s3 /\ step a l2 s3) by (eapply dia_send_local; try eassumption; lia) end.
      destruct X as (s3 & A & B). exists s3. auto.
    + match goal with |- exists s3, step ?a _ s3 /\ step ?b _ s3 =>
        assert (X : exists s3, step b l1 s3 /\ step a l2 s3) by (eapply dia_recv_local; try eassumption; lia) end.
      destruct X as (s3 & A & B). exists s3. auto.
    + exfalso. apply Hnl. split; (split; [assumption|do 4 eexists; split; eassumption]).
    + exfalso. eapply coll_excludes_rank; [| |exact Hne|exact H1]; eassumption.
  - exfalso. eapply coll_excludes_rank; [| | |exact H2]; try eassumption. congruence.
Qed.

(* what is proved about ALL schedules of a system (no ghost state in this statement): f is reached by every maximal run *)
Definition schedule_independent (s0 f : st) (n : nat) : Prop :=
  forall m s', run m s0 s' ->
    (m <= n)%nat /\ run (n - m) s' f                            (* every partial schedule is completed to f in n - m steps *)
    /\ (final s' -> s' = f /\ m = n)                            (* every complete schedule ends in f, after n steps *)
    /\ (final s' \/ exists l s'', step s' l s'')                (* no reachable state is stuck *)
    /\ (forall r1 r2, local_at s' r1 -> local_at s' r2 -> r1 = r2).   (* MUTUAL EXCLUSION on the shared state *)

(* the same for a state f that is merely TERMINAL (no step possible, e.g. after one rank has called SC_ABORT and the others
   wait for it for ever): every schedule leads to f and to no other terminal state *)
Definition nostep (s : st) : Prop := forall l s', ~ step s l s'.
Definition all_schedules_end_in (s0 f : st) (n : nat) : Prop :=
  forall m s', run m s0 s' ->
    (m <= n)%nat /\ run (n - m) s' f
    /\ (nostep s' -> s' = f /\ m = n)
    /\ (s' = f \/ exists l s'', step s' l s'')
    /\ (forall r1 r2, local_at s' r1 -> local_at s' r2 -> r1 = r2).

(* ------------------------------------------------------------------ the ghost token *)
Variable gives : Z -> Z -> Z -> payload -> bool.                 (* rank, destination, tag, message: this send passes the token on *)
Variable ctok : Z -> Z -> option Z.                              (* kind, root: the holder after this collective *)

Definition tok_send (tk : tokst) (r d t : Z) (m : payload) (len : nat) : option tokst :=
  if gives r d t m then
    match tk with Held h => if h =? r then Some (Fly r d len) else None | Fly _ _ _ => None end
  else Some tk.
Definition tok_recv (tk : tokst) (src r : Z) (i : nat) : tokst :=
  match tk with
  | Fly a b n =>
    if (a =? src) && (b =? r) then
      (if Nat.eqb i n then Held r else if Nat.ltb i n then Fly a b (Nat.pred n) else tk)
    else tk
  | Held _ => tk
  end.
Definition tok_local (tk : tokst) (r : Z) : option tokst :=
  match tk with Held h => if h =? r then Some tk else None | Fly _ _ _ => None end.
Definition tok_coll (tk : tokst) (kind root : Z) : tokst :=
  match tk with Held _ => match ctok kind root with Some o => Held o | None => tk end | Fly _ _ _ => tk end.

Definition tok_next (s : st) (tk : tokst) (l : Z) : option tokst :=
  if l =? COLL then
    match spr s 0 with Do (Coll kind root _) _ => Some (tok_coll tk kind root) | _ => Some tk end
  else
    match spr s l with
    | Do (Send d t m) _ => tok_send tk l d t m (length (sch s l d))
    | Do (Recv src tr) _ => match pick tr (sch s src l) with Some (i, _, _) => Some (tok_recv tk src l i) | None => Some tk end
    | Do (Coll kind _ _) _ => if is_local kind then tok_local tk l else Some tk
    | Ret _ => Some tk
    end.

Lemma rank_not_coll r : 0 <= r -> (r =? COLL) = false.
Proof. intros H. apply Z.eqb_neq. unfold COLL. lia. Qed.
Lemma tok_next_send s tk r d t m k : 0 <= r -> spr s r = Do (Send d t m) k ->
  tok_next s tk r = tok_send tk r d t m (length (sch s r d)).
Proof. intros H E. unfold tok_next. rewrite rank_not_coll by exact H. rewrite E. reflexivity. Qed.
Lemma tok_next_recv s tk r src tr k i m q : 0 <= r -> spr s r = Do (Recv src tr) k -> pick tr (sch s src r) = Some (i, m, q) ->
  tok_next s tk r = Some (tok_recv tk src r i).
Proof. intros H E K. unfold tok_next. rewrite rank_not_coll by exact H. rewrite E, K. reflexivity. Qed.
Lemma tok_next_local s tk r kind root c k : 0 <= r -> spr s r = Do (Coll kind root c) k -> is_local kind = true ->
  tok_next s tk r = tok_local tk r.
Proof. intros H E L. unfold tok_next. rewrite rank_not_coll by exact H. rewrite E, L. reflexivity. Qed.

(* the token after two steps, None = Poison *)
Definition tcomp (s : st) (tk : tokst) (l1 : Z) (s1 : st) (l2 : Z) : option tokst :=
  match tok_next s tk l1 with Some t => tok_next s1 t l2 | None => None end.

Ltac zcases :=
  repeat match goal with
         | |- context [?a =? ?b] => destruct (Z.eqb_spec a b); subst; cbn [andb]
         end.

Lemma tc_send_send s tk r1 d1 t1 m1 k1 r2 d2 t2 m2 k2 : r1 <> r2 -> 0 <= r1 -> 0 <= r2 ->
  spr s r1 = Do (Send d1 t1 m1) k1 -> spr s r2 = Do (Send d2 t2 m2) k2 ->
  tcomp s tk r1 (mkst (upd1 (spr s) r1 (k1 [])) (upd2 (sch s) r1 d1 (sch s r1 d1 ++ [(t1, m1)])) (ssh s)) r2
  = tcomp s tk r2 (mkst (upd1 (spr s) r2 (k2 [])) (upd2 (sch s) r2 d2 (sch s r2 d2 ++ [(t2, m2)])) (ssh s)) r1.
Proof.
  intros Hne H1 H2 P1 P2. unfold tcomp.
  rewrite (tok_next_send s tk r1 _ _ _ _ H1 P1), (tok_next_send s tk r2 _ _ _ _ H2 P2).
  assert (A : forall t, tok_next (mkst (upd1 (spr s) r1 (k1 [])) (upd2 (sch s) r1 d1 (sch s r1 d1 ++ [(t1, m1)])) (ssh s)) t r2
                        = tok_send t r2 d2 t2 m2 (length (sch s r2 d2))).
  { intros t. erewrite tok_next_send; [|exact H2|cbn [spr]; rewrite upd1_other by lia; exact P2].
    cbn [sch]. rewrite upd2_other by (intros E; injection E; lia). reflexivity. }
  assert (B : forall t, tok_next (mkst (upd1 (spr s) r2 (k2 [])) (upd2 (sch s) r2 d2 (sch s r2 d2 ++ [(t2, m2)])) (ssh s)) t r1
                        = tok_send t r1 d1 t1 m1 (length (sch s r1 d1))).
  { intros t. erewrite tok_next_send; [|exact H1|cbn [spr]; rewrite upd1_other by lia; exact P1].
    cbn [sch]. rewrite upd2_other by (intros E; injection E; lia). reflexivity. }
  unfold tok_send.
  destruct (gives r1 d1 t1 m1) eqn:G1; destruct (gives r2 d2 t2 m2) eqn:G2; destruct tk as [h|a b n];
    rewrite ?A, ?B; unfold tok_send; rewrite ?G1, ?G2; zcases; try reflexivity; try lia.
  all: rewrite ?A, ?B; unfold tok_send; rewrite ?G1, ?G2; zcases; try reflexivity; try lia.
Qed.

Lemma tc_send_recv s tk r1 d1 t1 m1 k1 r2 src tr k2 i m q : r1 <> r2 -> 0 <= r1 -> 0 <= r2 ->
  spr s r1 = Do (Send d1 t1 m1) k1 -> spr s r2 = Do (Recv src tr) k2 -> pick tr (sch s src r2) = Some (i, m, q) ->
  tcomp s tk r1 (mkst (upd1 (spr s) r1 (k1 [])) (upd2 (sch s) r1 d1 (sch s r1 d1 ++ [(t1, m1)])) (ssh s)) r2
  = tcomp s tk r2 (mkst (upd1 (spr s) r2 (k2 (src :: m))) (upd2 (sch s) src r2 q) (ssh s)) r1.
Proof.
  intros Hne H1 H2 P1 P2 Pk. unfold tcomp.
  rewrite (tok_next_send s tk r1 _ _ _ _ H1 P1), (tok_next_recv s tk r2 _ _ _ _ _ _ H2 P2 Pk).
  destruct (pick_length _ _ _ _ _ Pk) as [Hi Hlen].
  assert (A : forall t, tok_next (mkst (upd1 (spr s) r1 (k1 [])) (upd2 (sch s) r1 d1 (sch s r1 d1 ++ [(t1, m1)])) (ssh s)) t r2
                        = Some (tok_recv t src r2 i)).
  { intros t. destruct (Z.eq_dec src r1) as [Es|Es]; [destruct (Z.eq_dec r2 d1) as [Ed|Ed]|].
    - subst. eapply tok_next_recv; [exact H2|cbn [spr]; rewrite upd1_other by lia; exact P2|].
      cbn [sch]. rewrite upd2_same. apply pick_app. exact Pk.
    - eapply tok_next_recv; [exact H2|cbn [spr]; rewrite upd1_other by lia; exact P2|].
      cbn [sch]. rewrite upd2_other by (intros E; injection E; lia). exact Pk.
    - eapply tok_next_recv; [exact H2|cbn [spr]; rewrite upd1_other by lia; exact P2|].
      cbn [sch]. rewrite upd2_other by (intros E; injection E; lia). exact Pk. }
  assert (B : forall t, tok_next (mkst (upd1 (spr s) r2 (k2 (src :: m))) (upd2 (sch s) src r2 q) (ssh s)) t r1
                        = tok_send t r1 d1 t1 m1 (if (r1 =? src) && (d1 =? r2) then length q else length (sch s r1 d1))).
  { intros t. erewrite tok_next_send; [|exact H1|cbn [spr]; rewrite upd1_other by lia; exact P1].
    cbn [sch]. unfold upd2. destruct ((r1 =? src) && (d1 =? r2)); reflexivity. }
  rewrite B. unfold tok_send. destruct (gives r1 d1 t1 m1) eqn:G1.
  - destruct tk as [h|a b n].
    + destruct (Z.eqb_spec h r1) as [->|Hh].
      * rewrite A. cbn [tok_recv]. rewrite Z.eqb_refl. f_equal.
        destruct ((r1 =? src) && (d1 =? r2)) eqn:E; [|reflexivity].
        assert (r1 = src /\ d1 = r2) as [-> ->] by lia.
        replace (Nat.eqb i (length (sch s src r2))) with false by (symmetry; apply Nat.eqb_neq; lia).
        replace (Nat.ltb i (length (sch s src r2))) with true by (symmetry; apply Nat.ltb_lt; lia).
        f_equal. lia.
      * cbn [tok_recv]. destruct (h =? r1) eqn:E; [lia|reflexivity].
    + unfold tok_recv. destruct ((a =? src) && (b =? r2)); [|reflexivity].
      destruct (Nat.eqb i n); [|destruct (Nat.ltb i n); reflexivity].
      destruct (Z.eqb_spec r2 r1); [lia|reflexivity].
  - rewrite A. reflexivity.
Qed.

Lemma tc_send_local s tk r1 d1 t1 m1 k1 r2 kind root c k2 : r1 <> r2 -> 0 <= r1 -> 0 <= r2 ->
  spr s r1 = Do (Send d1 t1 m1) k1 -> spr s r2 = Do (Coll kind root c) k2 -> is_local kind = true ->
  tcomp s tk r1 (mkst (upd1 (spr s) r1 (k1 [])) (upd2 (sch s) r1 d1 (sch s r1 d1 ++ [(t1, m1)])) (ssh s)) r2
  = tcomp s tk r2 (mkst (upd1 (spr s) r2 (k2 (snd (eff (ssh s) r2 kind root c)))) (sch s) (fst (eff (ssh s) r2 kind root c))) r1.
Proof.
  intros Hne H1 H2 P1 P2 Hl. unfold tcomp.
  rewrite (tok_next_send s tk r1 _ _ _ _ H1 P1), (tok_next_local s tk r2 _ _ _ _ H2 P2 Hl).
  assert (A : forall t, tok_next (mkst (upd1 (spr s) r1 (k1 [])) (upd2 (sch s) r1 d1 (sch s r1 d1 ++ [(t1, m1)])) (ssh s)) t r2
                        = tok_local t r2).
  { intros t. eapply tok_next_local; [exact H2|cbn [spr]; rewrite upd1_other by lia; exact P2|exact Hl]. }
  assert (B : forall t, tok_next (mkst (upd1 (spr s) r2 (k2 (snd (eff (ssh s) r2 kind root c)))) (sch s) (fst (eff (ssh s) r2 kind root c))) t r1
                        = tok_send t r1 d1 t1 m1 (length (sch s r1 d1))).
  { intros t. erewrite tok_next_send; [|exact H1|cbn [spr]; rewrite upd1_other by lia; exact P1]. reflexivity. }
  unfold tok_send, tok_local.
  destruct (gives r1 d1 t1 m1) eqn:G1; destruct tk as [h|a b n]; zcases; rewrite ?A, ?B; unfold tok_send, tok_local; rewrite ?G1;
    zcases; try reflexivity; try lia.
Qed.

Lemma tc_recv_recv s tk r1 src1 tr1 k1 i1 m1 q1 r2 src2 tr2 k2 i2 m2 q2 : r1 <> r2 -> 0 <= r1 -> 0 <= r2 ->
  spr s r1 = Do (Recv src1 tr1) k1 -> pick tr1 (sch s src1 r1) = Some (i1, m1, q1) ->
  spr s r2 = Do (Recv src2 tr2) k2 -> pick tr2 (sch s src2 r2) = Some (i2, m2, q2) ->
  tcomp s tk r1 (mkst (upd1 (spr s) r1 (k1 (src1 :: m1))) (upd2 (sch s) src1 r1 q1) (ssh s)) r2
  = tcomp s tk r2 (mkst (upd1 (spr s) r2 (k2 (src2 :: m2))) (upd2 (sch s) src2 r2 q2) (ssh s)) r1.
Proof.
  intros Hne H1 H2 P1 K1 P2 K2. unfold tcomp.
  rewrite (tok_next_recv s tk r1 _ _ _ _ _ _ H1 P1 K1), (tok_next_recv s tk r2 _ _ _ _ _ _ H2 P2 K2).
  erewrite tok_next_recv; [|exact H2|cbn [spr]; rewrite upd1_other by lia; exact P2|
                            cbn [sch]; rewrite upd2_other by (intros E; injection E; lia); exact K2].
  erewrite tok_next_recv; [|exact H1|cbn [spr]; rewrite upd1_other by lia; exact P1|
                            cbn [sch]; rewrite upd2_other by (intros E; injection E; lia); exact K1].
  f_equal. unfold tok_recv. destruct tk as [h|a b n]; [reflexivity|].
  destruct ((a =? src1) && (b =? r1)) eqn:E1; destruct ((a =? src2) && (b =? r2)) eqn:E2; try lia.
  - destruct (Nat.eqb i1 n) eqn:N1; [|destruct (Nat.ltb i1 n) eqn:L1]; rewrite ?E1, ?E2, ?N1, ?L1; reflexivity.
  - destruct (Nat.eqb i2 n) eqn:N2; [|destruct (Nat.ltb i2 n) eqn:L2]; rewrite ?E1, ?E2, ?N2, ?L2; reflexivity.
  - rewrite ?E1, ?E2. reflexivity.
Qed.

Lemma tc_recv_local s tk r1 src1 tr1 k1 i1 m1 q1 r2 kind root c k2 : r1 <> r2 -> 0 <= r1 -> 0 <= r2 ->
  spr s r1 = Do (Recv src1 tr1) k1 -> pick tr1 (sch s src1 r1) = Some (i1, m1, q1) ->
  spr s r2 = Do (Coll kind root c) k2 -> is_local kind = true ->
  tcomp s tk r1 (mkst (upd1 (spr s) r1 (k1 (src1 :: m1))) (upd2 (sch s) src1 r1 q1) (ssh s)) r2
  = tcomp s tk r2 (mkst (upd1 (spr s) r2 (k2 (snd (eff (ssh s) r2 kind root c)))) (sch s) (fst (eff (ssh s) r2 kind root c))) r1.
Proof.
  intros Hne H1 H2 P1 K1 P2 Hl. unfold tcomp.
  rewrite (tok_next_recv s tk r1 _ _ _ _ _ _ H1 P1 K1), (tok_next_local s tk r2 _ _ _ _ H2 P2 Hl).
  erewrite tok_next_local; [|exact H2|cbn [spr]; rewrite upd1_other by lia; exact P2|exact Hl].
  assert (B : forall t, tok_next (mkst (upd1 (spr s) r2 (k2 (snd (eff (ssh s) r2 kind root c)))) (sch s) (fst (eff (ssh s) r2 kind root c))) t r1
                        = Some (tok_recv t src1 r1 i1)).
  { intros t. eapply tok_next_recv; [exact H1|cbn [spr]; rewrite upd1_other by lia; exact P1|cbn [sch]; exact K1]. }
  destruct tk as [h|a b n]; cbn [tok_recv tok_local].
  - destruct (h =? r2); [rewrite B|]; reflexivity.
  - destruct ((a =? src1) && (b =? r1)); [|reflexivity].
    destruct (Nat.eqb i1 n); [|destruct (Nat.ltb i1 n); reflexivity].
    cbn [tok_local]. destruct (Z.eqb_spec r1 r2); [lia|reflexivity].
Qed.

(* two local actions of different ranks: whichever goes first, the second one is not the holder *)
Lemma tc_local_local s tk r1 kind1 root1 c1 k1 r2 kind2 root2 c2 k2 s1 : r1 <> r2 -> 0 <= r1 -> 0 <= r2 ->
  spr s r1 = Do (Coll kind1 root1 c1) k1 -> is_local kind1 = true ->
  spr s1 r2 = Do (Coll kind2 root2 c2) k2 -> is_local kind2 = true ->
  tcomp s tk r1 s1 r2 = None.
Proof.
  intros Hne H1 H2 P1 L1 P2 L2. unfold tcomp.
  rewrite (tok_next_local s tk r1 _ _ _ _ H1 P1 L1).
  destruct tk as [h|a b n]; cbn [tok_local]; [|reflexivity].
  destruct (Z.eqb_spec h r1) as [->|]; [|reflexivity].
  rewrite (tok_next_local s1 _ r2 _ _ _ _ H2 P2 L2). cbn [tok_local].
  destruct (Z.eqb_spec r1 r2); [lia|reflexivity].
Qed.

Inductive ist := Good (s : st) (tk : tokst) | Poison.
Definition inj (s : st) (o : option tokst) : ist := match o with Some tk => Good s tk | None => Poison end.

Inductive istep : ist -> Z -> ist -> Prop :=
| istep_good s l s' tk : step s l s' -> istep (Good s tk) l (inj s' (tok_next s tk l))
| istep_poison l : istep Poison l Poison.

Lemma istep_det x l x1 x2 : istep x l x1 -> istep x l x2 -> x1 = x2.
Proof.
  intros H1 H2. inversion H1 as [s ? s1 tk Hs1|]; subst; inversion H2 as [? ? s2 ? Hs2|]; subst; [|reflexivity].
  rewrite (step_det _ _ _ _ Hs1 Hs2). reflexivity.
Qed.


Lemma tok_comm s tk l1 s1 l2 s2 : l1 <> l2 -> step s l1 s1 -> step s l2 s2 -> ~ (local_at s l1 /\ local_at s l2) ->
  tcomp s tk l1 s1 l2 = tcomp s tk l2 s2 l1.
Proof.
  intros Hne H1 H2 Hnl.
  inversion H1; subst.
  - inversion H2; subst.
    + eapply tc_send_send; try eassumption; lia.
    + eapply tc_send_recv; try eassumption; lia.
    + eapply tc_send_local; try eassumption; lia.
    + exfalso. eapply coll_excludes_rank; [| |exact Hne|exact H1]; eassumption.
  - inversion H2; subst.
    + symmetry. eapply tc_send_recv; try eassumption; lia.
    + eapply tc_recv_recv; try eassumption; lia.
    + eapply tc_recv_local; try eassumption; lia.
    + exfalso. eapply coll_excludes_rank; [| |exact Hne|exact H1]; eassumption.
  - inversion H2; subst.
    + symmetry. eapply tc_send_local; try eassumption; lia.
    + symmetry. eapply tc_recv_local; try eassumption; lia.
    + exfalso. apply Hnl. split; (split; [assumption|do 4 eexists; split; eassumption]).
    + exfalso. eapply coll_excludes_rank; [| |exact Hne|exact H1]; eassumption.
  - exfalso. eapply coll_excludes_rank; [| | |exact H2]; try eassumption. congruence.
Qed.

Lemma local_dec s l s' : step s l s' -> local_at s l \/ ~ local_at s l.
Proof.
  intros H. inversion H; subst.
  - right. intros (_ & kd & rt & c & k0 & E & _). congruence.
  - right. intros (_ & kd & rt & c & k0 & E & _). congruence.
  - left. split; [assumption|]. do 4 eexists. split; eassumption.
  - right. intros (Hr & _). unfold COLL in Hr. lia.
Qed.

Lemma istep_inj s t l s' T : step s l s' ->
  (forall tk, t = Some tk -> tok_next s tk l = T) -> (t = None -> T = None) -> istep (inj s t) l (inj s' T).
Proof.
  intros Hs HS HN. destruct t as [tk|]; cbn [inj].
  - rewrite <- (HS tk eq_refl). apply istep_good. exact Hs.
  - rewrite (HN eq_refl). cbn [inj]. apply istep_poison.
Qed.

(* DIAMOND of the instrumented semantics: any two different steps from one state can be joined in one step each *)
Lemma idiamond x l1 x1 l2 x2 : l1 <> l2 -> istep x l1 x1 -> istep x l2 x2 ->
  exists x3, istep x1 l2 x3 /\ istep x2 l1 x3.
Proof.
  intros Hne H1 H2.
  inversion H1 as [s ? s1 tk Hs1|]; subst.
  2:{ inversion H2; subst. exists Poison. split; apply istep_poison. }
  inversion H2 as [? ? s2 ? Hs2|]; subst.
  destruct (local_dec _ _ _ Hs1) as [L1|L1]; [destruct (local_dec _ _ _ Hs2) as [L2|L2]|].
  - (* two local actions: Poison in both orders *)
    exists Poison.
    assert (Q : forall la lb sa, la <> lb -> local_at s la -> local_at s lb -> step s la sa ->
                exists sb, step sa lb sb /\ forall tk0, tok_next s tk la = Some tk0 -> tok_next sa tk0 lb = None).
    { intros la lb sa Hab (Ha & kda & rta & ca & ka & Ea & La) (Hb & kdb & rtb & cb & kb & Eb & Lb) Hsa.
      assert (Esa : spr sa lb = Do (Coll kdb rtb cb) kb).
      { inversion Hsa; subst; try congruence; cbn [spr]; try (rewrite upd1_other by lia; exact Eb).
        unfold COLL in Ha. lia. }
      destruct (local_enabled sa lb) as [sb Hsb]; [split; [exact Hb|do 4 eexists; split; eassumption]|].
      exists sb. split; [exact Hsb|]. intros tk0 E0.
      pose proof (tc_local_local s tk la kda rta ca ka lb kdb rtb cb kb sa Hab ltac:(lia) ltac:(lia) Ea La Esa Lb) as T.
      unfold tcomp in T. rewrite E0 in T. exact T. }
    destruct (Q l1 l2 s1 Hne L1 L2 Hs1) as (sb1 & Hb1 & T1).
    destruct (Q l2 l1 s2 ltac:(congruence) L2 L1 Hs2) as (sb2 & Hb2 & T2).
    split.
    + apply (istep_inj s1 _ l2 sb1 None); [exact Hb1| |reflexivity].
      intros tk0 E0. apply T1. exact E0.
    + apply (istep_inj s2 _ l1 sb2 None); [exact Hb2| |reflexivity].
      intros tk0 E0. apply T2. exact E0.
  - destruct (diamond_plain s l1 s1 l2 s2 Hne Hs1 Hs2 ltac:(tauto)) as (s3 & A & B).
    pose proof (tok_comm s tk l1 s1 l2 s2 Hne Hs1 Hs2 ltac:(tauto)) as T.
    exists (inj s3 (tcomp s tk l1 s1 l2)). split.
    + apply istep_inj; [exact A| |]; unfold tcomp; intros; [rewrite H; reflexivity|rewrite H; reflexivity].
    + rewrite T. apply istep_inj; [exact B| |]; unfold tcomp; intros; [rewrite H; reflexivity|rewrite H; reflexivity].
  - destruct (diamond_plain s l1 s1 l2 s2 Hne Hs1 Hs2 ltac:(tauto)) as (s3 & A & B).
    pose proof (tok_comm s tk l1 s1 l2 s2 Hne Hs1 Hs2 ltac:(tauto)) as T.
    exists (inj s3 (tcomp s tk l1 s1 l2)). split.
    + apply istep_inj; [exact A| |]; unfold tcomp; intros; [rewrite H; reflexivity|rewrite H; reflexivity].
    + rewrite T. apply istep_inj; [exact B| |]; unfold tcomp; intros; [rewrite H; reflexivity|rewrite H; reflexivity].
Qed.

(* ------------------------------------------------------------------ runs and confluence of the instrumented semantics *)
Inductive irun : nat -> ist -> ist -> Prop :=
| irun_nil x : irun 0 x x
| irun_cons n x l x1 x2 : istep x l x1 -> irun n x1 x2 -> irun (S n) x x2.

Lemma irun_app n1 n2 x1 x2 x3 : irun n1 x1 x2 -> irun n2 x2 x3 -> irun (n1 + n2) x1 x3.
Proof. induction 1; simpl; [auto|]. intros. econstructor; eauto. Qed.

Definition dead (x : ist) : Prop := forall l y, ~ istep x l y.

Lemma final_dead f tk : final f -> dead (Good f tk).
Proof. intros Hf l y H. inversion H; subst. eapply final_no_step; eauto. Qed.

Lemma icatch_up : forall n x f, irun n x f -> dead f -> forall l x1, istep x l x1 ->
  exists n', n = S n' /\ irun n' x1 f.
Proof.
  induction n as [|n IH]; intros x f Hrun Hd l x1 Hstep.
  - inversion Hrun; subst. exfalso. eapply Hd; eauto.
  - inversion Hrun as [|? ? l0 x0 ? Hs0 Hrest]; subst. exists n. split; [reflexivity|].
    destruct (Z.eq_dec l0 l) as [->|Hne].
    + rewrite (istep_det _ _ _ _ Hstep Hs0). exact Hrest.
    + destruct (idiamond x l0 x0 l x1 Hne Hs0 Hstep) as [x3 [H03 H13]].
      destruct (IH x0 f Hrest Hd l x3 H03) as [n' [-> Hr3]].
      econstructor; eauto.
Qed.

Theorem iconfluence : forall m n x f x', irun n x f -> dead f -> irun m x x' -> (m <= n)%nat /\ irun (n - m) x' f.
Proof.
  induction m as [|m IH]; intros n x f x' Hn Hd Hm.
  - inversion Hm; subst. split; [lia|]. rewrite Nat.sub_0_r. exact Hn.
  - inversion Hm as [|? ? l x1 ? Hs Hrest]; subst.
    destruct (icatch_up n x f Hn Hd l x1 Hs) as [n' [-> Hn']].
    destruct (IH n' x1 f x' Hn' Hd Hrest) as [Hle Hr]. split; [lia|exact Hr].
Qed.

(* ------------------------------------------------------------------ plain runs and instrumented runs *)
Lemma irun_poison n y : irun n Poison y -> y = Poison.
Proof. remember Poison as x eqn:E. induction 1; [auto|]. subst. inversion H; subst. auto. Qed.

Lemma irun_good_run : forall n a ta b tb, irun n (Good a ta) (Good b tb) -> run n a b.
Proof.
  induction n as [|n IH]; intros a ta b tb H; inversion H as [|? ? l x1 ? Hs Hrest]; subst; [constructor|].
  inversion Hs as [? ? s' ? Hst|]; subst.
  destruct (tok_next a ta l) as [t1|]; cbn [inj] in *.
  - econstructor; [exact Hst|]. eapply IH. exact Hrest.
  - apply irun_poison in Hrest. discriminate.
Qed.

Lemma run_irun : forall m s s', run m s s' -> forall tk,
  exists x', irun m (Good s tk) x' /\ (x' = Poison \/ exists tk', x' = Good s' tk').
Proof.
  induction 1 as [s|n s l s1 s2 Hs Hr IH]; intros tk.
  - exists (Good s tk). split; [constructor|right; eauto].
  - pose proof (istep_good s l s1 tk Hs) as Hi.
    destruct (tok_next s tk l) as [t1|]; cbn [inj] in Hi.
    + destruct (IH t1) as (x' & Hx & Hc). exists x'. split; [econstructor; eauto|exact Hc].
    + exists Poison. split; [|left; reflexivity]. econstructor; [exact Hi|].
      clear. induction n; [constructor|]. econstructor; [apply (istep_poison 0)|assumption].
Qed.

(* ================================================================== THE THEOREM
   One instrumented schedule that ends in a final state without Poison decides every schedule of the plain semantics. *)
Definition terminal_sh (s0 f : st) (tk0 : tokst) (n : nat) : Prop :=
  forall m s', run m s0 s' ->
    (m <= n)%nat /\ run (n - m) s' f                            (* every partial schedule is completed to f in n - m steps *)
    /\ (final s' -> s' = f /\ m = n)                            (* every complete schedule ends in f *)
    /\ (final s' \/ exists l s'', step s' l s'')                (* no reachable state is stuck *)
    /\ (exists tk', irun m (Good s0 tk0) (Good s' tk') /\ forall r, local_at s' r -> tk' = Held r)
    /\ (forall r1 r2, local_at s' r1 -> local_at s' r2 -> r1 = r2).   (* MUTUAL EXCLUSION on the shared state *)

Lemma nostep_dead f tk : nostep f -> dead (Good f tk).
Proof. intros Hn l y H. inversion H; subst. eapply Hn; eauto. Qed.

Theorem one_schedule_all_schedules_gen s0 tk0 f tkf n :
  irun n (Good s0 tk0) (Good f tkf) -> nostep f ->
  forall m s', run m s0 s' ->
    (m <= n)%nat /\ run (n - m) s' f
    /\ (nostep s' -> s' = f /\ m = n)
    /\ (s' = f \/ exists l s'', step s' l s'')
    /\ (exists tk', irun m (Good s0 tk0) (Good s' tk') /\ forall r, local_at s' r -> tk' = Held r)
    /\ (forall r1 r2, local_at s' r1 -> local_at s' r2 -> r1 = r2).
Proof.
  intros Hrun Hns m s' Hm.
  pose proof (nostep_dead f tkf Hns) as Hd.
  destruct (run_irun m s0 s' Hm tk0) as (x' & Hx & Hc).
  destruct (iconfluence m n _ _ x' Hrun Hd Hx) as [Hle Hr].
  destruct Hc as [->|[tk' ->]]; [apply irun_poison in Hr; discriminate|].
  pose proof (irun_good_run _ _ _ _ _ Hr) as Hplain.
  assert (Hheld : forall r, local_at s' r -> tk' = Held r).
  { intros r Hl. destruct (local_enabled s' r Hl) as [s'' Hs''].
    destruct Hl as (Hr0 & kd & rt & c & k & E & L).
    pose proof (istep_good s' r s'' tk' Hs'') as Hi.
    rewrite (tok_next_local s' tk' r kd rt c k ltac:(lia) E L) in Hi.
    destruct tk' as [h|a b i]; cbn [tok_local] in Hi.
    - destruct (Z.eqb_spec h r) as [->|Hh]; [reflexivity|]. cbn [inj] in Hi.
      exfalso. destruct (icatch_up _ _ _ Hr Hd r Poison Hi) as (n' & _ & Hp). apply irun_poison in Hp. discriminate.
    - cbn [inj] in Hi.
      exfalso. destruct (icatch_up _ _ _ Hr Hd r Poison Hi) as (n' & _ & Hp). apply irun_poison in Hp. discriminate. }
  split; [exact Hle|]. split; [exact Hplain|]. split; [|split; [|split]].
  - intros Hf'. inversion Hplain as [|k ? l s1 ? Hs Hrest Hk]; subst.
    + split; [reflexivity|lia].
    + exfalso. eapply Hf'; eauto.
  - inversion Hplain; subst; [left; reflexivity|right; eauto].
  - exists tk'. split; [exact Hx|exact Hheld].
  - intros r1 r2 L1 L2. pose proof (Hheld r1 L1) as E1. pose proof (Hheld r2 L2) as E2. congruence.
Qed.

Theorem one_schedule_all_schedules_sh s0 tk0 f tkf n :
  irun n (Good s0 tk0) (Good f tkf) -> final f -> terminal_sh s0 f tk0 n.
Proof.
  intros Hrun Hfin m s' Hm.
  assert (Hns : nostep f) by (intros l y H; eapply final_no_step; eauto).
  destruct (one_schedule_all_schedules_gen s0 tk0 f tkf n Hrun Hns m s' Hm) as (A & B & C & D & E & F).
  split; [exact A|]. split; [exact B|]. split; [|split; [|split; [exact E|exact F]]].
  - intros Hf'. apply C. intros l y H. eapply final_no_step; eauto.
  - destruct D as [->|D]; [left; exact Hfin|right; exact D].
Qed.

Corollary one_schedule_ends_in s0 tk0 f tkf n :
  irun n (Good s0 tk0) (Good f tkf) -> nostep f -> all_schedules_end_in s0 f n.
Proof.
  intros Hrun Hns m s' Hm. destruct (one_schedule_all_schedules_gen s0 tk0 f tkf n Hrun Hns m s' Hm) as (A & B & C & D & _ & E).
  auto.
Qed.

Corollary one_schedule_independent s0 tk0 f tkf n :
  irun n (Good s0 tk0) (Good f tkf) -> final f -> schedule_independent s0 f n.
Proof.
  intros Hrun Hfin m s' Hm. destruct (one_schedule_all_schedules_sh s0 tk0 f tkf n Hrun Hfin m s' Hm) as (A & B & C & D & _ & E).
  auto.
Qed.

(* ------------------------------------------------------------------ building an instrumented schedule *)
Lemma irun_send1 s tk tk' r d t m k : 0 <= r < P -> spr s r = Do (Send d t m) k ->
  tok_send tk r d t m (length (sch s r d)) = Some tk' ->
  irun 1 (Good s tk) (Good (mkst (upd1 (spr s) r (k [])) (upd2 (sch s) r d (sch s r d ++ [(t, m)])) (ssh s)) tk').
Proof.
  intros Hr E T. econstructor; [|constructor].
  pose proof (istep_good s r _ tk (step_send s r d t m k Hr E)) as Hi.
  rewrite (tok_next_send s tk r d t m k ltac:(lia) E), T in Hi. exact Hi.
Qed.

Lemma irun_recv1 s tk r src tr k i m q : 0 <= r < P -> 0 <= src -> spr s r = Do (Recv src tr) k ->
  pick tr (sch s src r) = Some (i, m, q) ->
  irun 1 (Good s tk) (Good (mkst (upd1 (spr s) r (k (src :: m))) (upd2 (sch s) src r q) (ssh s)) (tok_recv tk src r i)).
Proof.
  intros Hr Hs E K. econstructor; [|constructor].
  pose proof (istep_good s r _ tk (step_recv s r src tr k i m q Hr Hs E K)) as Hi.
  rewrite (tok_next_recv s tk r src tr k i m q ltac:(lia) E K) in Hi. exact Hi.
Qed.

Lemma irun_coll1 s tk kind root : 0 < P -> is_local kind = false -> at_coll s kind root ->
  irun 1 (Good s tk) (Good (mkst (advance s kind root) (sch s) (ssh s)) (tok_coll tk kind root)).
Proof.
  intros HP L A. econstructor; [|constructor].
  pose proof (istep_good s COLL _ tk (step_coll s kind root HP L A)) as Hi.
  destruct (A 0 ltac:(lia)) as (c & k & E). unfold tok_next in Hi. rewrite Z.eqb_refl, E in Hi. exact Hi.
Qed.

(* a rank that holds the token runs a sequence of local actions *)
Inductive lrun (r : Z) : prog -> Sh -> prog -> Sh -> Prop :=
| lrun_nil p sh : lrun r p sh p sh
| lrun_cons kind root c k sh p' sh' : is_local kind = true ->
    lrun r (k (snd (eff sh r kind root c))) (fst (eff sh r kind root c)) p' sh' ->
    lrun r (Do (Coll kind root c) k) sh p' sh'.

Lemma lrun_trans r p1 h1 p2 h2 p3 h3 : lrun r p1 h1 p2 h2 -> lrun r p2 h2 p3 h3 -> lrun r p1 h1 p3 h3.
Proof. induction 1; [auto|]. intros. econstructor; eauto. Qed.

Lemma irun_lrun r p sh p' sh' : lrun r p sh p' sh' -> forall s, 0 <= r < P -> spr s r = p -> ssh s = sh ->
  exists n, irun n (Good s (Held r)) (Good (mkst (upd1 (spr s) r p') (sch s) sh') (Held r)).
Proof.
  induction 1 as [p sh|kind root c k sh p' sh' L Hl IH]; intros s Hr E1 E2.
  - exists 0%nat. replace (mkst (upd1 (spr s) r p) (sch s) sh) with s; [constructor|].
    destruct s as [pr0 ch0 sh0]; cbn in *. subst. f_equal.
    extensionality y. unfold upd1. destruct (Z.eqb_spec y r); [subst; reflexivity|reflexivity].
  - pose proof (istep_good s r _ (Held r) (step_local s r kind root c k Hr E1 L)) as Hi.
    rewrite (tok_next_local s (Held r) r kind root c k ltac:(lia) E1 L) in Hi. cbn [tok_local] in Hi.
    rewrite Z.eqb_refl in Hi. cbn [inj] in Hi. rewrite E2 in Hi.
    destruct (IH (mkst (upd1 (spr s) r (k (snd (eff sh r kind root c)))) (sch s) (fst (eff sh r kind root c))) Hr)
      as [n Hn]; [cbn [spr]; apply upd1_same|reflexivity|].
    cbn [spr sch] in Hn. rewrite upd1_twice in Hn.
    exists (S n). econstructor; [exact Hi|exact Hn].
Qed.

End Shared.


Arguments mkst {Sh} _ _ _.
Arguments spr {Sh} _ _.
Arguments sch {Sh} _ _ _.
Arguments ssh {Sh} _.
Arguments Good {Sh} _ _.
Arguments Poison {Sh}.
