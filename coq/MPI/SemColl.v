(* Interleaving semantics of per-rank programs WITH wildcard receives AND synchronising collectives.

   MPI/SemAny.v gives Send / Recv (named or wildcard source) an interleaving semantics on FIFO channels per
   (source, destination, tag) with buffered sends; a collective has no rule there.  Here the step relation `step_c` gets one
   more rule, in the style of MPI/SemShared.v:

     stepc_p2p  : every step of SemAny.v (send, named receive, wildcard receive) is a step;
     stepc_coll : when ALL ranks 0 .. P-1 of the communicator have arrived at a collective `Coll kind root c_r` with the SAME
                  kind and root, the collective fires (label COLL): every rank r continues with the reply
                      creply kind root [c_0; ...; c_(P-1)] r
                  computed from all contributions.  A rank that has arrived at a collective does nothing else until it fires
                  (the collectives of the notify algorithms are blocking calls); ranks that arrive at DIFFERENT collectives,
                  or a rank that returns while the others wait in a collective, give a stuck state (a deadlock, which the
                  theorems about the notify programs exclude).

   `creply` is a parameter of the semantics.  `coll_reply` at the end of the file is the instance for the kinds the notify
   programs of C01/NotifyProgs.v use; THIS FUNCTION IS THE MPI CONTRACT OF THE COLLECTIVES THAT IS TRUSTED (it is what the
   simulated MPI of the co-simulation implements and what the MPI standard specifies for these calls).

   The file provides: runs, stuckness, an EXECUTABLE one-step function (sound and complete for the relation) with the set of
   enabled choices, and the two structural lemmas with which the every-schedule theorems of MPI/SemRounds.v (point-to-point
   protocols in SemAny.v) are lifted to programs that start with collectives:
     es_coll : a state in which all ranks are at the same collective has exactly one successor;
     es_p2p  : from a state from which no SemAny-run reaches a state with all ranks at a collective, the runs of step_c are
               the runs of SemAny.v.
   No axiom (states are never compared). *)
From Coq Require Import ZArith Lia List Bool.
From ScV Require Import MPI.Prog MPI.Sem MPI.SemAny.
Import ListNotations.
Local Open Scope Z_scope.

Definition cranks (P : Z) : list Z := map Z.of_nat (seq 0 (Z.to_nat P)).
Definition COLL : Z := -1.                                      (* label of a collective step *)

Lemma in_cranks P x : In x (cranks P) <-> 0 <= x < P.
Proof.
  unfold cranks. rewrite in_map_iff. split.
  - intros [k [<- Hk]]. apply in_seq in Hk. lia.
  - intros H. exists (Z.to_nat x). split; [lia|apply in_seq; lia].
Qed.

Definition inP (P r : Z) : bool := (0 <=? r) && (r <? P).
Lemma inP_spec P r : inP P r = true <-> 0 <= r < P.
Proof. unfold inP. rewrite andb_true_iff, Z.leb_le, Z.ltb_lt. tauto. Qed.

Section Coll.
  Variable P : Z.                                                          (* the communicator: ranks 0 .. P-1 *)
  Variable creply : Z -> Z -> list payload -> Z -> payload.               (* kind, root, contributions in rank order, rank *)

  Definition contrib_of (p : prog) : payload := match p with Do (Coll _ _ c) _ => c | _ => [] end.
  Definition contribs (s : gs) : list payload := map (fun r => contrib_of (pr s r)) (cranks P).
  Definition advance (s : gs) (kind root : Z) : Z -> prog := fun r =>
    if inP P r then match pr s r with Do (Coll _ _ _) k => k (creply kind root (contribs s) r) | p => p end else pr s r.
  Definition at_coll (s : gs) (kind root : Z) : Prop :=
    forall r, 0 <= r < P -> exists c k, pr s r = Do (Coll kind root c) k.

  Inductive step_c : gs -> Z -> gs -> Prop :=
  | stepc_p2p s r s' : step_a s r s' -> step_c s r s'
  | stepc_coll s kind root : 0 < P -> at_coll s kind root -> step_c s COLL (mkgs (advance s kind root) (ch s)).

  Lemma step_c_inv s l s' : step_c s l s' ->
    step_a s l s' \/ (l = COLL /\ exists kind root, 0 < P /\ at_coll s kind root /\ s' = mkgs (advance s kind root) (ch s)).
  Proof. intros H. destruct H as [s r s' Ha|s kind root HP Hat]; [left; exact Ha|right; split; [reflexivity|eauto]]. Qed.

  Inductive run_c : nat -> gs -> gs -> Prop :=
  | runc_nil s : run_c 0 s s
  | runc_cons n s l s1 s2 : step_c s l s1 -> run_c n s1 s2 -> run_c (S n) s s2.

  (* `final` is Sem.final: every rank has returned *)
  Definition can_step_c (s : gs) : Prop := exists l s', step_c s l s'.
  Definition stuck_c (s : gs) : Prop := ~ final s /\ ~ can_step_c s.

  Lemma run_a_in_run_c n s s' : run_a n s s' -> run_c n s s'.
  Proof. induction 1; econstructor; eauto using stepc_p2p. Qed.

  Lemma run_c_app n1 n2 s1 s2 s3 : run_c n1 s1 s2 -> run_c n2 s2 s3 -> run_c (n1 + n2) s1 s3.
  Proof. induction 1; simpl; [auto|]. intros. econstructor; eauto. Qed.

  Lemma run_c_snoc n s1 s2 l s3 : run_c n s1 s2 -> step_c s2 l s3 -> run_c (S n) s1 s3.
  Proof.
    intros H1 H2. replace (S n) with (n + 1)%nat by lia. eapply run_c_app; [exact H1|]. econstructor; [exact H2|constructor].
  Qed.

  Lemma can_step_in_c s : can_step s -> can_step_c s.
  Proof. intros [r [s' H]]. exists r, s'. apply stepc_p2p. exact H. Qed.

  Lemma final_no_step_c s l s' : final s -> step_c s l s' -> False.
  Proof.
    intros Hf Hs. destruct (step_c_inv _ _ _ Hs) as [Ha|[_ [kind [root [HP [Hat _]]]]]].
    - eapply final_no_step_a; eauto.
    - destruct (Hat 0 ltac:(lia)) as [c [k Hk]]. destruct (Hf 0) as [o Ho]. congruence.
  Qed.

  (* all ranks at the same collective: the kind and the root are determined *)
  Lemma at_coll_unique s k1 r1 k2 r2 : 0 < P -> at_coll s k1 r1 -> at_coll s k2 r2 -> k1 = k2 /\ r1 = r2.
  Proof.
    intros HP H1 H2. destruct (H1 0 ltac:(lia)) as [c1 [f1 E1]]. destruct (H2 0 ltac:(lia)) as [c2 [f2 E2]].
    rewrite E1 in E2. injection E2 as -> -> _ _. auto.
  Qed.

  (* ---- a state in which every rank of the communicator is at the same collective (and every other rank has returned) has
     exactly one successor: the collective fires ---------------------------------------------------------------------------- *)
  Definition outside_ret (s : gs) : Prop := forall r, ~ (0 <= r < P) -> exists o, pr s r = Ret o.

  Lemma coll_only_step s kind root l s1 : 0 < P -> at_coll s kind root -> outside_ret s -> step_c s l s1 ->
    l = COLL /\ s1 = mkgs (advance s kind root) (ch s).
  Proof.
    intros HP Hat Hout Hs. destruct (step_c_inv _ _ _ Hs) as [Ha|[-> [kind' [root' [_ [Hat' ->]]]]]].
    - exfalso. rename l into r. destruct (Z_le_dec 0 r) as [H0|H0]; [destruct (Z_lt_dec r P) as [H1|H1]|].
      + destruct (Hat r ltac:(lia)) as [c [k Hk]]. inversion Ha; subst; congruence.
      + destruct (Hout r ltac:(lia)) as [o Ho]. inversion Ha; subst; congruence.
      + destruct (Hout r ltac:(lia)) as [o Ho]. inversion Ha; subst; congruence.
    - destruct (at_coll_unique s kind' root' kind root HP Hat' Hat) as [-> ->]. auto.
  Qed.

  (* the statement of an every-schedule theorem: T = number of steps of every maximal run, good = what holds in final states *)
  (* (progress is stated positively - a reachable state is final or can step - so that everything stays constructive) *)
  Definition every_schedule (s0 : gs) (T : nat) (good : gs -> Prop) : Prop :=
    forall n s, run_c n s0 s -> (final s \/ can_step_c s) /\ (n <= T)%nat /\ (final s <-> n = T) /\ (final s -> good s).

  Lemma progress_not_stuck s : final s \/ can_step_c s -> ~ stuck_c s.
  Proof. intros [H|H] [A B]; contradiction. Qed.

  Lemma es_coll s0 kind root T (good : gs -> Prop) : 0 < P -> at_coll s0 kind root -> outside_ret s0 ->
    every_schedule (mkgs (advance s0 kind root) (ch s0)) T good -> every_schedule s0 (S T) good.
  Proof.
    intros HP Hat Hout Hes n s Hr. inversion Hr as [|m ? l s1 ? Hs Hrest]; subst.
    - assert (Hnf : ~ final s).
      { intros Hf. destruct (Hat 0 ltac:(lia)) as [c [k Hk]]. destruct (Hf 0) as [o Ho]. congruence. }
      split; [right; eexists _, _; apply stepc_coll; eassumption|]. split; [lia|]. split; [|intros Hf; contradiction].
      split; [intros Hf; contradiction|discriminate].
    - destruct (coll_only_step _ _ _ _ _ HP Hat Hout Hs) as [_ ->]. destruct (Hes m s Hrest) as [A [B [C D]]].
      split; [exact A|]. split; [lia|]. split; [|exact D]. split; [intros Hf; f_equal; apply C; exact Hf|intros E; apply C; lia].
  Qed.

  (* ---- a phase without collectives: the runs are the runs of SemAny.v ------------------------------------------------------- *)
  Definition no_coll (s : gs) : Prop := forall kind root, ~ at_coll s kind root.

  Lemma run_c_p2p : forall n s1 s, (forall m s', run_a m s1 s' -> no_coll s') -> run_c n s1 s -> run_a n s1 s.
  Proof.
    induction n as [|n IH]; intros s1 s Hno Hr; inversion Hr as [|? ? l s2 ? Hs Hrest]; subst; [constructor|].
    destruct (step_c_inv _ _ _ Hs) as [Ha|[_ [kind [root [_ [Hat _]]]]]].
    - econstructor; [exact Ha|]. apply IH; [|exact Hrest]. intros m s' Hm. apply (Hno (S m)). econstructor; eassumption.
    - exfalso. apply (Hno 0%nat s1 (runa_nil s1) kind root Hat).
  Qed.

  Lemma es_p2p s1 T (good : gs -> Prop) :
    (forall n s, run_a n s1 s -> (final s \/ can_step s) /\ (n <= T)%nat /\ (final s <-> n = T) /\ (final s -> good s) /\ no_coll s) ->
    every_schedule s1 T good.
  Proof.
    intros H n s Hr. apply run_c_p2p in Hr; [|intros m s' Hm; apply (H m s' Hm)].
    destruct (H n s Hr) as [A [B [C [D E]]]]. split; [|auto].
    destruct A as [A|A]; [left; exact A|right; apply can_step_in_c; exact A].
  Qed.

  Lemma es_weaken s0 T (good good' : gs -> Prop) : (forall s, good s -> good' s) -> every_schedule s0 T good -> every_schedule s0 T good'.
  Proof. intros Hw H n s Hr. destruct (H n s Hr) as [A [B [C D]]]. repeat split; try tauto. intros Hf. apply Hw, D, Hf. Qed.

  (* a final state as the start: nothing happens *)
  Lemma es_final s0 (good : gs -> Prop) : final s0 -> good s0 -> every_schedule s0 0 good.
  Proof.
    intros Hf Hg n s Hr. inversion Hr as [|m ? l s1 ? Hs Hrest]; subst.
    - split; [left; exact Hf|]. split; [lia|]. split; [tauto|auto].
    - exfalso. eapply final_no_step_c; eauto.
  Qed.

  (* a run can always be continued to a final state *)
  Corollary es_completes s0 T (good : gs -> Prop) : every_schedule s0 T good ->
    forall n s, run_c n s0 s -> exists s', run_c (T - n) s s' /\ final s'.
  Proof.
    intros Hes n s Hr. destruct (Hes n s Hr) as [_ [Hle _]].
    remember (T - n)%nat as k eqn:Ek. revert n s Hr Hle Ek. induction k as [|k IH]; intros n s Hr Hle Ek.
    - exists s. split; [constructor|]. destruct (Hes n s Hr) as [_ [_ [[_ Hf] _]]]. apply Hf. lia.
    - destruct (Hes n s Hr) as [[Hf|[l [s1 Hs1]]] [_ [[Hfn _] _]]]; [specialize (Hfn Hf); lia|].
      destruct (IH (S n) s1 (run_c_snoc _ _ _ _ _ Hr Hs1)) as [s' [Hr' Hf']]; [|lia|].
      + destruct (Hes (S n) s1 (run_c_snoc _ _ _ _ _ Hr Hs1)) as [_ [Hle' _]]. exact Hle'.
      + exists s'. split; [econstructor; eassumption|exact Hf'].
  Qed.

  (* ---- executable steps ------------------------------------------------------------------------------------------------------
     a choice is a choice of SemAny.v (rank that moves, source matched by a wildcard) or "the collective fires" *)
  Inductive cchoice := CP (c : choice) | CC.
  Definition label (c : cchoice) : Z := match c with CP c => fst c | CC => COLL end.
  Definition is_coll (p : prog) (kind root : Z) : bool :=
    match p with Do (Coll k r _) _ => (k =? kind) && (r =? root) | _ => false end.
  Definition coll_ready (s : gs) : option (Z * Z) :=
    if 0 <? P then
      match pr s 0 with
      | Do (Coll kind root _) _ => if forallb (fun r => is_coll (pr s r) kind root) (cranks P) then Some (kind, root) else None
      | _ => None
      end
    else None.
  Definition exec_step_c (s : gs) (c : cchoice) : option gs :=
    match c with
    | CP c => exec_step s c
    | CC => match coll_ready s with Some (kind, root) => Some (mkgs (advance s kind root) (ch s)) | None => None end
    end.
  Fixpoint exec_c (l : list cchoice) (s : gs) : option gs :=
    match l with
    | [] => Some s
    | c :: l' => match exec_step_c s c with Some s1 => exec_c l' s1 | None => None end
    end.

  Lemma is_coll_spec p kind root : is_coll p kind root = true <-> exists c k, p = Do (Coll kind root c) k.
  Proof.
    destruct p as [o|[d t m|x t|k r c] f]; cbn [is_coll]; try (split; [discriminate|intros [c0 [k0 E]]; discriminate]).
    rewrite andb_true_iff, !Z.eqb_eq. split; [intros [-> ->]; eauto|intros [c0 [k0 E]]; injection E as -> -> _ _; auto].
  Qed.

  Lemma coll_ready_spec s kind root : coll_ready s = Some (kind, root) <-> 0 < P /\ at_coll s kind root.
  Proof.
    unfold coll_ready. split.
    - destruct (Z.ltb_spec 0 P) as [HP|]; [|discriminate]. destruct (pr s 0) as [o|[d t m|x t|k r c] f] eqn:E0; try discriminate.
      destruct (forallb _ _) eqn:Ef; [|discriminate]. intros H. injection H as -> ->. split; [exact HP|].
      intros r Hr. rewrite forallb_forall in Ef. apply is_coll_spec. apply Ef. apply in_cranks. exact Hr.
    - intros [HP Hat]. destruct (Z.ltb_spec 0 P); [|lia]. destruct (Hat 0 ltac:(lia)) as [c [k E]]. rewrite E.
      replace (forallb (fun r => is_coll (pr s r) kind root) (cranks P)) with true; [reflexivity|].
      symmetry. apply forallb_forall. intros r Hr. apply in_cranks in Hr. apply is_coll_spec. apply Hat. exact Hr.
  Qed.

  (* SOUNDNESS and COMPLETENESS of the executable scheduler *)
  Lemma exec_step_c_sound s c s' : exec_step_c s c = Some s' -> step_c s (label c) s'.
  Proof.
    destruct c as [c|]; cbn [exec_step_c label].
    - intros H. apply stepc_p2p. apply exec_step_sound. exact H.
    - destruct (coll_ready s) as [[kind root]|] eqn:E; [|discriminate]. intros H. injection H as <-.
      apply coll_ready_spec in E. destruct E. apply stepc_coll; assumption.
  Qed.

  Theorem exec_c_sound : forall l s s', exec_c l s = Some s' -> run_c (length l) s s'.
  Proof.
    induction l as [|c l IH]; intros s s' H; cbn [exec_c length] in *.
    - injection H as <-. constructor.
    - destruct (exec_step_c s c) as [s1|] eqn:E; [|discriminate].
      econstructor; [apply (exec_step_c_sound _ _ _ E)|apply IH; exact H].
  Qed.

  Lemma exec_step_c_complete s l s' : step_c s l s' -> exists c, label c = l /\ exec_step_c s c = Some s'.
  Proof.
    intros H. destruct (step_c_inv _ _ _ H) as [Ha|[-> [kind [root [HP [Hat ->]]]]]].
    - destruct (exec_step_complete _ _ _ Ha) as [src E]. exists (CP (l, src)). split; [reflexivity|exact E].
    - exists CC. split; [reflexivity|]. cbn [exec_step_c]. rewrite (proj2 (coll_ready_spec s kind root) (conj HP Hat)). reflexivity.
  Qed.

  (* the choices the scheduler accepts (ranks and sources drawn from the communicator) *)
  Definition enabled_c (s : gs) : list cchoice :=
    map CP (enabled s (cranks P)) ++ match coll_ready s with Some _ => [CC] | None => [] end.

  Lemma enabled_c_sound s c : In c (enabled_c s) -> exists s', exec_step_c s c = Some s'.
  Proof.
    unfold enabled_c. rewrite in_app_iff, in_map_iff. intros [[c0 [<- Hc]]|Hc].
    - apply enabled_sound in Hc. exact Hc.
    - destruct (coll_ready s) as [[kind root]|] eqn:E; [|contradiction]. destruct Hc as [<-|[]]. cbn [exec_step_c]. rewrite E. eauto.
  Qed.
End Coll.

(* ==== THE MPI CONTRACT OF THE COLLECTIVES USED BY THE NOTIFY PROGRAMS (trusted) ================================================
   kinds as in C01/NotifyProgs.v; `cs` = the contributions of ranks 0 .. P-1 in rank order, `r` = the rank that asks.
     1  MPI_Allgather, 2 MPI_Allgatherv : every rank obtains the concatenation of all contributions in rank order;
     3  MPI_Alltoall with b = |contribution| / P ints per destination: rank r obtains, in rank order of the sources, the r-th
        block of b ints of every contribution;
     4  MPI_Reduce_scatter_block (MPI_SUM) with b = |contribution| / P ints per rank, and
     5  the RMA census of rsx (Win_create, fence, MPI_Accumulate (MPI_SUM) of the contributed ints onto the targets, fence, read
        of the own window): rank r obtains, for i < b, the sum over all contributions of their entry r * b + i;
     10 MPI_Allreduce (MPI_MAX): every rank obtains the entry-wise maximum of the contributions.
   The root is not used by these kinds.  Any other kind: empty reply (the polls of nbx are not collectives). *)
Definition sumz (l : list Z) : Z := fold_right Z.add 0 l.
Definition maxz (l : list Z) : Z := match l with [] => 0 | x :: r => fold_left Z.max r x end.
Definition blk (cs : list payload) : nat := (length (hd [] cs) / length cs)%nat.

Definition coll_reply (kind root : Z) (cs : list payload) (r : Z) : payload :=
  if (kind =? 1) || (kind =? 2) then concat cs
  else if kind =? 3 then flat_map (fun c => firstn (blk cs) (skipn (Z.to_nat r * blk cs) c)) cs
  else if (kind =? 4) || (kind =? 5) then
    map (fun i => sumz (map (fun c => nth (Z.to_nat r * blk cs + i) c 0) cs)) (seq 0 (blk cs))
  else if kind =? 10 then map (fun i => maxz (map (fun c => nth i c 0) cs)) (seq 0 (length (hd [] cs)))
  else [].

Lemma blk_uniform (b : nat) cs : cs <> [] -> (forall c, In c cs -> length c = (b * length cs)%nat) -> blk cs = b.
Proof.
  intros Hne H. unfold blk. destruct cs as [|c cs]; [contradiction|]. cbn [hd]. rewrite (H c (or_introl eq_refl)).
  apply Nat.div_mul. discriminate.
Qed.

Lemma maxz_fold l : Forall (fun x => 0 <= x) l -> maxz l = fold_left Z.max l 0.
Proof.
  destruct l as [|x l]; intros H; [reflexivity|]. inversion H; subst. cbn [maxz fold_left]. f_equal. lia.
Qed.
